// C18 correspondence harness: momo::DataColumnList (include/momo/DataColumn.h).
// The real column list is driven through Add / Contains / GetOffset / CreateRaw / ImportRaw / DestroyRaw for
//   * every logVertexCount 4..15 (this executable handles the two values selected by -DC18_PART=0..5, or the single
//     value -DC18_SINGLE=<L> for the ASan+UBSan builds),
//   * string-hash codes (uint64_t, names hashed by the real StrHasher), engineered uint64_t codes and
//     member-offset codes (MOMO_DATA_COLUMN_STRUCT on a 40-member struct), with and without the row-number slot,
//   * item types of every size/alignment 1..16 plus non-trivial types (std::string, heap-owning counted types) in the main
//     configuration of every vertex count; the row-number and member-offset configurations use sub-menus (compile time),
// and after every addition the complete internal state (mCodeParam, mAddends, mTotalSize, mAlignment, mColumns,
// mFuncRecords, mMutableOffsets, Contains of the whole universe) is compared with the Lean model (`model columns`).
// Property-level oracle (independent of the model): offsets aligned, inside the row, pairwise disjoint, clear of the
// row-number slot, never changing, looked up correctly; Contains true exactly for added columns; refused additions
// leave everything unchanged; every item slot constructed / destroyed exactly once (ledger over ItemTraits calls).
#include "momo/DataColumn.h"
#include "common/verif_common.h"

#include <algorithm>
#include <array>
#include <new>
#include <numeric>
#include <stdexcept>
#include <tuple>
#include <utility>

using namespace vf;

#ifndef C18_PART
#define C18_PART 0
#endif

// ---------------------------------------------------------------- fault-injecting memory manager (stateless object, static arming)
struct FaultMM
{
	static long countdown;	// > 0: the countdown-th allocation from now throws
	static long allocs;
	explicit FaultMM() noexcept {}
	FaultMM(FaultMM&&) noexcept {}
	FaultMM(const FaultMM&) noexcept {}
	~FaultMM() = default;
	FaultMM& operator=(const FaultMM&) = delete;
	void* Allocate(size_t size)
	{
		++allocs;
		if (countdown > 0 && --countdown == 0)
			throw std::bad_alloc();
		return operator new(size);
	}
	void Deallocate(void* ptr, size_t /*size*/) noexcept { operator delete(ptr); }
};
long FaultMM::countdown = 0;
long FaultMM::allocs = 0;

// ---------------------------------------------------------------- item types
template<size_t S, size_t A>
struct alignas(A) Blob
{
	unsigned char b[S];
};

struct InstLedger	// instances of the non-trivial types that are alive, by address
{
	static std::set<const void*>& live() { static std::set<const void*> s; return s; }
	static long& bad() { static long b = 0; return b; }
	static void born(const void* p) { if (!live().insert(p).second) ++bad(); }
	static void dead(const void* p) { if (live().erase(p) != 1) ++bad(); }
};

struct Counted8	// owns heap memory: a leak / double destruction is also seen by ASan
{
	int* p;
	Counted8() : p(new int(7)) { InstLedger::born(this); }
	Counted8(const Counted8& o) : p(new int(*o.p)) { InstLedger::born(this); }
	~Counted8() { InstLedger::dead(this); delete p; }
	Counted8& operator=(const Counted8& o) { *p = *o.p; return *this; }
};

struct alignas(16) Counted16
{
	int* p;
	uint32_t tag;
	Counted16() : p(new int(9)), tag(0xC0DEu) { InstLedger::born(this); }
	Counted16(const Counted16& o) : p(new int(*o.p)), tag(o.tag) { InstLedger::born(this); }
	~Counted16() { InstLedger::dead(this); delete p; }
	Counted16& operator=(const Counted16& o) { *p = *o.p; tag = o.tag; return *this; }
};

struct Odd12	// size 12, alignment 4, user-provided special members
{
	int a;
	char s[8];
	Odd12() : a(3) { std::memset(s, 'x', sizeof s); InstLedger::born(this); }
	Odd12(const Odd12& o) : a(o.a) { std::memcpy(s, o.s, sizeof s); InstLedger::born(this); }
	~Odd12() { InstLedger::dead(this); }
	Odd12& operator=(const Odd12& o) { a = o.a; std::memcpy(s, o.s, sizeof s); return *this; }
};

typedef std::tuple<
	Blob<1, 1>, Blob<2, 1>, Blob<3, 1>, Blob<4, 1>, Blob<5, 1>, Blob<6, 1>, Blob<7, 1>, Blob<8, 1>,
	Blob<9, 1>, Blob<10, 1>, Blob<11, 1>, Blob<12, 1>, Blob<13, 1>, Blob<14, 1>, Blob<15, 1>, Blob<16, 1>,
	Blob<2, 2>, Blob<4, 2>, Blob<6, 2>, Blob<8, 2>, Blob<10, 2>, Blob<12, 2>, Blob<14, 2>, Blob<16, 2>,
	Blob<4, 4>, Blob<8, 4>, Blob<12, 4>, Blob<16, 4>, Blob<8, 8>, Blob<16, 8>, Blob<16, 16>,
	std::string, Counted8, Counted16, Odd12> Types;
static const size_t NT = std::tuple_size<Types>::value;

template<typename T, typename Tuple> struct IndexOf;
template<typename T, typename... Rest> struct IndexOf<T, std::tuple<T, Rest...>> { static const size_t value = 0; };
template<typename T, typename U, typename... Rest> struct IndexOf<T, std::tuple<U, Rest...>> { static const size_t value = 1 + IndexOf<T, std::tuple<Rest...>>::value; };
template<typename T> constexpr int typeIdx() { return (int)IndexOf<T, Types>::value; }

// which item types a list configuration instantiates (compile time is dominated by Add<Item> instantiations)
template<typename T, typename Tuple> struct InTuple;
template<typename T> struct InTuple<T, std::tuple<>> : std::false_type {};
template<typename T, typename U, typename... R> struct InTuple<T, std::tuple<U, R...>>
	: std::conditional<std::is_same<T, U>::value, std::true_type, InTuple<T, std::tuple<R...>>>::type {};
typedef Types MenuAll;
typedef std::tuple<Blob<1, 1>, Blob<3, 1>, Blob<2, 2>, Blob<4, 4>, Blob<8, 8>, Blob<16, 16>, Blob<12, 4>, std::string, Counted8, Counted16> MenuLight;
typedef std::tuple<Blob<1, 1>, Blob<2, 2>, Blob<4, 4>, Blob<8, 8>, Blob<16, 16>, Blob<3, 1>, Blob<5, 1>, Blob<6, 2>, Blob<12, 4>, Blob<16, 8>,
	std::string, Counted8, Counted16, Odd12> MenuStruct;

static uint64_t fnvBytes(const unsigned char* p, size_t n)
{
	uint64_t h = 1469598103934665603ull;
	for (size_t i = 0; i < n; ++i) { h ^= p[i]; h *= 1099511628211ull; }
	return h;
}

template<typename T> struct ValOps;	// put a value derived from v into an item / read a canonical value back
template<size_t S, size_t A> struct ValOps<Blob<S, A>>
{
	static void put(Blob<S, A>& x, uint64_t v) { for (size_t i = 0; i < S; ++i) x.b[i] = (unsigned char)((v >> (8 * (i % 8))) + i); }
	static uint64_t get(const Blob<S, A>& x) { return fnvBytes(x.b, S); }
};
template<> struct ValOps<std::string>
{
	static void put(std::string& x, uint64_t v) { x = "value-" + std::to_string(v) + std::string((size_t)(v % 40), 'z'); }
	static uint64_t get(const std::string& x) { return fnvBytes((const unsigned char*)x.data(), x.size()); }
};
template<> struct ValOps<Counted8>
{
	static void put(Counted8& x, uint64_t v) { *x.p = (int)(v & 0xFFFFFF); }
	static uint64_t get(const Counted8& x) { return (uint64_t)*x.p; }
};
template<> struct ValOps<Counted16>
{
	static void put(Counted16& x, uint64_t v) { *x.p = (int)(v & 0xFFFFFF); x.tag = (uint32_t)(v >> 24); }
	static uint64_t get(const Counted16& x) { return ((uint64_t)x.tag << 32) ^ (uint64_t)*x.p; }
};
template<> struct ValOps<Odd12>
{
	static void put(Odd12& x, uint64_t v) { x.a = (int)(v & 0xFFFF); for (int i = 0; i < 8; ++i) x.s[i] = (char)('a' + (v >> i) % 26); }
	static uint64_t get(const Odd12& x) { return ((uint64_t)x.a << 20) ^ fnvBytes((const unsigned char*)x.s, 8); }
};

// ---------------------------------------------------------------- ItemTraits that log every Create / Copy / Destroy of a row
struct UserThrow {};

struct RowLog
{
	static const char*& dst() { static const char* p = nullptr; return p; }
	static const char*& src() { static const char* p = nullptr; return p; }
	static std::string& events() { static std::string e; return e; }
	static long& throwAt() { static long t = -1; return t; }	// >= 0: that many constructions still succeed, the next throws
	static std::map<size_t, int>& live() { static std::map<size_t, int> m; return m; }	// offset in dst row -> times constructed - destroyed
	static long& bad() { static long b = 0; return b; }
	static void hit() { if (throwAt() == 0) throw UserThrow(); if (throwAt() > 0) --throwAt(); }
	static void ev(const std::string& e) { if (!events().empty()) events() += ' '; events() += e; }
	static void born(const void* item) { size_t off = (size_t)((const char*)item - dst()); ev("C" + std::to_string(off)); if (++live()[off] != 1) ++bad(); }
	static void copied(const void* from, const void* item)
	{
		size_t off = (size_t)((const char*)item - dst()), so = (size_t)((const char*)from - src());
		ev("K" + std::to_string(so) + ">" + std::to_string(off));
		if (++live()[off] != 1) ++bad();
	}
	static void dead(const void* item) { size_t off = (size_t)((const char*)item - dst()); ev("D" + std::to_string(off)); if (--live()[off] != 0) ++bad(); }
	static void reset(const void* d, const void* s) { dst() = (const char*)d; src() = (const char*)s; events().clear(); }
};

template<typename MM>
struct LogItemTraits : public momo::DataItemTraits<MM>
{
	typedef momo::DataItemTraits<MM> Base;
	typedef MM MemManager;
	template<typename Item> static void Create(MM& mm, Item* item) { RowLog::hit(); Base::template Create<Item>(mm, item); RowLog::born(item); }
	template<typename Item> static void Destroy(MM* mm, Item& item) noexcept { RowLog::dead(&item); Base::template Destroy<Item>(mm, item); }
	template<typename Item> static void Copy(MM& mm, const Item& srcItem, Item* dstItem) { RowLog::hit(); Base::template Copy<Item>(mm, srcItem, dstItem); RowLog::copied(&srcItem, dstItem); }
};

// ---------------------------------------------------------------- the struct behind the member-offset codes
struct MyStruct	// member types: MenuStruct
{
	char m0; char m1; Blob<2, 2> m2; Blob<4, 4> m3; Blob<3, 1> m4; Blob<1, 1> m5; Blob<8, 8> m6; Blob<5, 1> m7;
	Blob<6, 2> m8; Blob<16, 16> m9; std::string m10; Counted8 m11; Blob<3, 1> m12; Blob<12, 4> m13; Blob<1, 1> m14; Blob<2, 2> m15;
	Odd12 m16; Blob<16, 8> m17; Blob<5, 1> m18; Blob<6, 2> m19; Counted16 m20; Blob<3, 1> m21; Blob<1, 1> m22; Blob<8, 8> m23;
	Blob<4, 4> m24; Blob<12, 4> m25; Blob<2, 2> m26; Blob<16, 8> m27; Blob<1, 1> m28; Blob<16, 16> m29; Blob<5, 1> m30; Blob<4, 4> m31;
	Blob<6, 2> m32; Blob<8, 8> m33; Blob<3, 1> m34; Blob<2, 2> m35; Counted8 m36; std::string m37; Blob<1, 1> m38; Blob<1, 1> m39;
};
namespace sc {
	MOMO_DATA_COLUMN_STRUCT(MyStruct, m2); MOMO_DATA_COLUMN_STRUCT(MyStruct, m3);
	MOMO_DATA_COLUMN_STRUCT(MyStruct, m4); MOMO_DATA_COLUMN_STRUCT(MyStruct, m5); MOMO_DATA_COLUMN_STRUCT(MyStruct, m6); MOMO_DATA_COLUMN_STRUCT(MyStruct, m7);
	MOMO_DATA_COLUMN_STRUCT(MyStruct, m8); MOMO_DATA_COLUMN_STRUCT(MyStruct, m9); MOMO_DATA_COLUMN_STRUCT(MyStruct, m10); MOMO_DATA_COLUMN_STRUCT(MyStruct, m11);
	MOMO_DATA_COLUMN_STRUCT(MyStruct, m12); MOMO_DATA_COLUMN_STRUCT(MyStruct, m13); MOMO_DATA_COLUMN_STRUCT(MyStruct, m14); MOMO_DATA_COLUMN_STRUCT(MyStruct, m15);
	MOMO_DATA_COLUMN_STRUCT(MyStruct, m16); MOMO_DATA_COLUMN_STRUCT(MyStruct, m17); MOMO_DATA_COLUMN_STRUCT(MyStruct, m18); MOMO_DATA_COLUMN_STRUCT(MyStruct, m19);
	MOMO_DATA_COLUMN_STRUCT(MyStruct, m20); MOMO_DATA_COLUMN_STRUCT(MyStruct, m21); MOMO_DATA_COLUMN_STRUCT(MyStruct, m22); MOMO_DATA_COLUMN_STRUCT(MyStruct, m23);
	MOMO_DATA_COLUMN_STRUCT(MyStruct, m24); MOMO_DATA_COLUMN_STRUCT(MyStruct, m25); MOMO_DATA_COLUMN_STRUCT(MyStruct, m26); MOMO_DATA_COLUMN_STRUCT(MyStruct, m27);
	MOMO_DATA_COLUMN_STRUCT(MyStruct, m28); MOMO_DATA_COLUMN_STRUCT(MyStruct, m29); MOMO_DATA_COLUMN_STRUCT(MyStruct, m30); MOMO_DATA_COLUMN_STRUCT(MyStruct, m31);
	MOMO_DATA_COLUMN_STRUCT(MyStruct, m32); MOMO_DATA_COLUMN_STRUCT(MyStruct, m33); MOMO_DATA_COLUMN_STRUCT(MyStruct, m34); MOMO_DATA_COLUMN_STRUCT(MyStruct, m35);
	MOMO_DATA_COLUMN_STRUCT(MyStruct, m36); MOMO_DATA_COLUMN_STRUCT(MyStruct, m37); MOMO_DATA_COLUMN_STRUCT(MyStruct, m38); MOMO_DATA_COLUMN_STRUCT(MyStruct, m39);
	// the two leading chars are given the 1-byte blob type of the menu: a column is (code, item type), the macro does the same
	constexpr momo::DataColumn<Blob<1, 1>, MyStruct, momo::DataColumnCodeOffset> m0{momo::DataColumnCodeOffset(offsetof(MyStruct, m0)), "MyStruct.m0"};
	constexpr momo::DataColumn<Blob<1, 1>, MyStruct, momo::DataColumnCodeOffset> m1{momo::DataColumnCodeOffset(offsetof(MyStruct, m1)), "MyStruct.m1"};
}

// ---------------------------------------------------------------- universes
struct ColDesc
{
	uint64_t code = 0;
	int type = 0;
	std::string name;			// non-empty: the column is built from this name by the real string-hash constructor
	const void* object = nullptr;	// non-null: a column object defined by MOMO_DATA_COLUMN_STRUCT
	std::string tag;			// how the code was engineered
};
typedef std::vector<ColDesc> Universe;

struct TypeRow { size_t size, align; };
template<typename Tuple, size_t... I>
static std::array<TypeRow, sizeof...(I)> makeTypeRows(std::index_sequence<I...>)
{
	return {{ TypeRow{ sizeof(typename std::tuple_element<I, Tuple>::type),
		std::min(alignof(typename std::tuple_element<I, Tuple>::type), alignof(std::max_align_t)) }... }};
}
static const std::array<TypeRow, NT> typeRows = makeTypeRows<Types>(std::make_index_sequence<NT>());

// ---------------------------------------------------------------- per list type: dispatch by item type
template<typename List, typename Menu>
struct Fns
{
	typedef typename List::ColumnInfo ColumnInfo;
	typedef typename List::ColumnTraits::ColumnCode Code;
	template<typename T> using Col = typename List::template Column<T>;

	template<typename T> static Col<T> make(const ColDesc& d)
	{
		if (d.object != nullptr)
			return *static_cast<const Col<T>*>(d.object);
		return makeByName<T>(d, std::is_same<Code, uint64_t>());
	}
	template<typename T> static Col<T> makeByName(const ColDesc& d, std::true_type)
	{
		if (!d.name.empty())
			return Col<T>(d.name.c_str());	// StrHasher::GetHashCode64
		return Col<T>(Code(d.code), "c");
	}
	template<typename T> static Col<T> makeByName(const ColDesc& d, std::false_type) { return Col<T>(Code(d.code), "c"); }

	template<typename T> static void add1(List& l, const ColDesc& d, bool mut)
	{
		Col<T> col = make<T>(d);
		if (mut) l.Add(col.Mutable()); else l.Add(col);
	}
	template<typename T> static ColumnInfo info(const ColDesc& d) { return ColumnInfo(make<T>(d)); }
	template<typename T> static size_t getOffset(const List& l, const ColDesc& d) { return l.GetOffset(make<T>(d)); }
	template<typename T> static void put(void* raw, size_t off, uint64_t v) { ValOps<T>::put(List::template GetByOffset<T>(raw, off), v); }
	template<typename T> static uint64_t get(void* raw, size_t off) { return ValOps<T>::get(List::template GetByOffset<T>(raw, off)); }
	template<typename T> static uint64_t defval() { T t{}; return ValOps<T>::get(t); }

	typedef void (*AddFn)(List&, const ColDesc&, bool);
	typedef ColumnInfo (*InfoFn)(const ColDesc&);
	typedef size_t (*OffFn)(const List&, const ColDesc&);
	typedef void (*PutFn)(void*, size_t, uint64_t);
	typedef uint64_t (*GetFn)(void*, size_t);
	typedef uint64_t (*DefFn)();
	std::array<AddFn, NT> addFns; std::array<InfoFn, NT> infoFns; std::array<OffFn, NT> offFns;
	std::array<PutFn, NT> putFns; std::array<GetFn, NT> getFns; std::array<DefFn, NT> defFns;

	// only the types of the menu are instantiated; the other entries stay null and are never picked
	template<bool ok, typename T, typename Dummy = void> struct Pick
	{
		static AddFn add() { return &add1<T>; } static InfoFn inf() { return &info<T>; } static OffFn off() { return &getOffset<T>; }
		static PutFn pu() { return &put<T>; } static GetFn ge() { return &get<T>; } static DefFn de() { return &defval<T>; }
	};
	template<typename T, typename Dummy> struct Pick<false, T, Dummy>
	{
		static AddFn add() { return nullptr; } static InfoFn inf() { return nullptr; } static OffFn off() { return nullptr; }
		static PutFn pu() { return nullptr; } static GetFn ge() { return nullptr; } static DefFn de() { return nullptr; }
	};
	template<size_t I> using P = Pick<InTuple<typename std::tuple_element<I, Types>::type, Menu>::value, typename std::tuple_element<I, Types>::type>;
	std::vector<int> allowed;
	template<size_t... I> void fill(std::index_sequence<I...>)
	{
		addFns = {{ P<I>::add()... }}; infoFns = {{ P<I>::inf()... }}; offFns = {{ P<I>::off()... }};
		putFns = {{ P<I>::pu()... }}; getFns = {{ P<I>::ge()... }}; defFns = {{ P<I>::de()... }};
		for (size_t i = 0; i < NT; ++i) if (addFns[i] != nullptr) allowed.push_back((int)i);
	}
	Fns() { fill(std::make_index_sequence<NT>()); }

	// multi-column Add calls: fixed type tuples, columns chosen at run time; `mut0` makes the first column mutable
	template<typename T0, typename... Ts, size_t... I>
	static void addTupleImpl(List& l, const ColDesc* const* d, bool mut0, std::index_sequence<I...>)
	{
		Col<T0> c0 = make<T0>(*d[0]);
		std::tuple<Col<Ts>...> rest(make<Ts>(*d[1 + I])...);
		if (mut0) l.Add(c0.Mutable(), std::get<I>(rest)...); else l.Add(c0, std::get<I>(rest)...);
	}
	template<typename T0, typename... Ts>
	static void addTuple(List& l, const ColDesc* const* d, bool mut0) { addTupleImpl<T0, Ts...>(l, d, mut0, std::index_sequence_for<Ts...>()); }
};

struct TupleSpec { std::vector<int> types; };
static const std::vector<TupleSpec>& tupleSpecs()
{
	static const std::vector<TupleSpec> v = {
		{{ typeIdx<Blob<1, 1>>(), typeIdx<Blob<8, 8>>() }},
		{{ typeIdx<Blob<4, 4>>(), typeIdx<std::string>() }},
		{{ typeIdx<Blob<3, 1>>(), typeIdx<Blob<16, 16>>(), typeIdx<Blob<2, 2>>() }},
		{{ typeIdx<Counted8>(), typeIdx<Blob<1, 1>>(), typeIdx<Blob<4, 4>>(), typeIdx<Blob<2, 2>>() }},
		{{ typeIdx<Blob<3, 1>>(), typeIdx<Counted16>(), typeIdx<Blob<1, 1>>(), typeIdx<Blob<2, 2>>(), typeIdx<Blob<8, 8>>() }},
	};
	return v;
}
template<typename List, typename Menu>
static void addTupleDispatch(List& l, size_t spec, const ColDesc* const* d, bool mut0)
{
	typedef Fns<List, Menu> F;
	switch (spec) {
	case 0: F::template addTuple<Blob<1, 1>, Blob<8, 8>>(l, d, mut0); break;
	case 1: F::template addTuple<Blob<4, 4>, std::string>(l, d, mut0); break;
	case 2: F::template addTuple<Blob<3, 1>, Blob<16, 16>, Blob<2, 2>>(l, d, mut0); break;
	case 3: F::template addTuple<Counted8, Blob<1, 1>, Blob<4, 4>, Blob<2, 2>>(l, d, mut0); break;
	default: F::template addTuple<Blob<3, 1>, Counted16, Blob<1, 1>, Blob<2, 2>, Blob<8, 8>>(l, d, mut0); break;
	}
}

// ---------------------------------------------------------------- one list type
template<typename Struct, size_t L, bool row, typename TMenu>
struct Cfg
{
	typedef TMenu Menu;
	typedef momo::DataColumnList<momo::DataColumnTraits<Struct, L>, FaultMM, LogItemTraits<FaultMM>, momo::DataSettings<row>> List;
	static const size_t logVertexCount = L;
	static const bool keepRow = row;
};

struct RawBuf
{
	void* p; size_t size, align;
	RawBuf(size_t s, size_t a) : size(s ? s : 1), align(a ? a : 1) { p = ::operator new(size, std::align_val_t(align)); std::memset(p, 0xEE, size); }
	~RawBuf() { ::operator delete(p, std::align_val_t(align)); }
	RawBuf(const RawBuf&) = delete;
};

template<typename C>
struct Runner
{
	typedef typename C::List List;
	typedef Fns<List, typename C::Menu> F;
	typedef typename F::ColumnInfo ColumnInfo;
	static const size_t L = C::logVertexCount;
	static const size_t maxColumns = size_t{1} << (L - 1);

	Ctx& c; Rng& rng; Suite s; F fns; std::string kind;
	const Universe* U = nullptr;
	std::vector<ColumnInfo> infos;

	struct Tracked
	{
		List list;
		std::string id;
		std::vector<int> added;			// universe indices in mColumns order
		std::vector<size_t> offs;		// offset recorded when the column was added
		std::vector<bool> muts;
	};

	Runner(Ctx& c_, Rng& rng_, const std::string& suite, const std::string& kind_)
		: c(c_), rng(rng_), s(c_, suite, fmt("model columns L=%zu row=%d bytes=%zu", L, C::keepRow ? 1 : 0, sizeof(typename F::Code))), kind(kind_) {}

	void setUniverse(const Universe& u)
	{
		U = &u;
		infos.clear();
		for (const ColDesc& d : u) infos.push_back(fns.infoFns[d.type](d));
		for (size_t i = 0; i < u.size(); ++i)
			if ((uint64_t)infos[i].GetCode() != u[i].code) c.fail("C18 harness: universe code mismatch at %zu", i);
	}

	std::string itemTok(int ui, bool mut) const
	{
		const ColDesc& d = (*U)[ui];
		return fmt("%llu:%zu:%zu:%d", (unsigned long long)d.code, typeRows[d.type].size, typeRows[d.type].align, mut ? 1 : 0);
	}

	struct Snap { size_t p, ts, al, n, mc; std::vector<std::pair<uint64_t, size_t>> cols; std::vector<size_t> fr; std::vector<size_t> addends; std::vector<int> has;
		bool operator==(const Snap& o) const { return p == o.p && ts == o.ts && al == o.al && n == o.n && cols == o.cols && fr == o.fr && addends == o.addends && has == o.has; } };

	Snap snap(const List& l) const
	{
		Snap r;
		r.p = l.mCodeParam; r.ts = l.GetTotalSize(); r.al = l.GetAlignment(); r.n = l.GetCount(); r.mc = l.mMutableOffsets.GetCount();
		for (const auto& rec : l) r.cols.emplace_back((uint64_t)rec.GetCode(), rec.GetOffset());
		for (const auto& f : l.mFuncRecords) r.fr.push_back(f.columnIndex);
		r.addends.assign(l.mAddends.begin(), l.mAddends.end());
		for (size_t i = 0; i < U->size(); ++i) { size_t off = ~size_t{0}; bool h = l.Contains(infos[i], &off); r.has.push_back(h ? (int)off : -1); }
		return r;
	}

	// model-level: the complete state as lines; property-level: the statement of C18 checked directly
	void compare(Tracked& t, const char* where)
	{
		const List& l = t.list;
		Snap sn = snap(l);
		std::string fr, cols;
		for (size_t i = 0; i < sn.fr.size(); ++i) {
			size_t next = (i + 1 < sn.fr.size()) ? sn.fr[i + 1] : sn.n;
			fr += fmt("%s%zu+%zu", i ? "," : "", sn.fr[i], next - sn.fr[i]);
		}
		for (size_t i = 0; i < sn.cols.size(); ++i) cols += fmt("%s%llu:%zu", i ? "," : "", (unsigned long long)sn.cols[i].first, sn.cols[i].second);
		s.op("st " + t.id);
		s.res(fmt("p=%zu ts=%zu al=%zu n=%zu mc=%zu fr=%s cols=%s", sn.p, sn.ts, sn.al, sn.n, sn.mc, fr.c_str(), cols.c_str()));
		bool full = L <= 6;
		size_t nz = 0; uint64_t chk = 0; std::string fullTxt;
		for (size_t v = 0; v < sn.addends.size(); ++v) if (sn.addends[v] != 0) {
			++nz; chk = chk * 1000003ull + v * 31 + sn.addends[v];
			if (full) fullTxt += fmt(" %zu:%llu", v, (unsigned long long)sn.addends[v]);
		}
		s.op(full ? "ad " + t.id + " full" : "ad " + t.id);
		s.res(fmt("nz=%zu chk=%llu%s", nz, (unsigned long long)chk, fullTxt.c_str()));
		std::string hop = "has " + t.id, hres;
		for (size_t i = 0; i < U->size(); ++i) {
			hop += fmt(" %llu", (unsigned long long)(*U)[i].code);
			size_t off = ~size_t{0};
			bool h = l.Contains(infos[i], &off);
			hres += (i ? " " : "") + (h ? std::to_string(off) : std::string("-"));
		}
		s.op(hop); s.res(hres);
		if (!t.added.empty()) {
			std::string oop = "off " + t.id, ores, mop = "mut " + t.id, mres;
			for (size_t k = 0; k < t.added.size(); ++k) {
				const ColDesc& d = (*U)[t.added[k]];
				oop += fmt(" %llu", (unsigned long long)d.code);
				ores += (k ? " " : "") + std::to_string(l.pvGetOffset(typename F::Code(d.code)));
				mop += fmt(" %zu", sn.cols[k].second);
				mres += (k ? " " : "") + std::string(l.IsMutable(sn.cols[k].second) ? "1" : "0");
			}
			s.op(oop); s.res(ores); s.op(mop); s.res(mres);
		}

		// ---- property-level oracle
		std::string ctx = fmt("%s L=%zu row=%d kind=%s list=%s after %s; columns(code:size:align)=", s.name.c_str(), L, (int)C::keepRow, kind.c_str(), t.id.c_str(), where);
		for (int ui : t.added) ctx += fmt(" %llu:%zu:%zu", (unsigned long long)(*U)[ui].code, typeRows[(*U)[ui].type].size, typeRows[(*U)[ui].type].align);
		if (sn.n != t.added.size()) { c.fail("C18 count: GetCount=%zu expected %zu; %s", sn.n, t.added.size(), ctx.c_str()); return; }
		size_t rowSlot = C::keepRow ? sizeof(size_t) : 0, maxAl = 1;
		std::vector<std::pair<size_t, size_t>> spans;
		std::set<uint64_t> addedCodes;
		for (size_t k = 0; k < t.added.size(); ++k) {
			const ColDesc& d = (*U)[t.added[k]];
			const TypeRow& tr = typeRows[d.type];
			size_t off = sn.cols[k].second;
			addedCodes.insert(d.code);
			maxAl = std::max(maxAl, tr.align);
			if (sn.cols[k].first != d.code) c.fail("C18 order: column %zu has code %llu expected %llu; %s", k, (unsigned long long)sn.cols[k].first, (unsigned long long)d.code, ctx.c_str());
			if (off % tr.align != 0) c.fail("C18 aligned: column %zu (code %llu) offset %zu not aligned to %zu; %s", k, (unsigned long long)d.code, off, tr.align, ctx.c_str());
			if (off + tr.size > sn.ts) c.fail("C18 inside: column %zu (code %llu) offset %zu size %zu exceeds total size %zu; %s", k, (unsigned long long)d.code, off, tr.size, sn.ts, ctx.c_str());
			if (off < rowSlot) c.fail("C18 rownumber: column %zu (code %llu) offset %zu overlaps the row-number slot; %s", k, (unsigned long long)d.code, off, ctx.c_str());
			if (off != t.offs[k]) c.fail("C18 stable: column %zu (code %llu) moved from offset %zu to %zu; %s", k, (unsigned long long)d.code, t.offs[k], off, ctx.c_str());
			size_t looked = fns.offFns[d.type](l, d);
			if (looked != off) c.fail("C18 lookup: GetOffset of column %zu (code %llu) = %zu, recorded %zu; %s", k, (unsigned long long)d.code, looked, off, ctx.c_str());
			spans.emplace_back(off, off + tr.size);
		}
		std::sort(spans.begin(), spans.end());
		for (size_t k = 1; k < spans.size(); ++k)
			if (spans[k].first < spans[k - 1].second) c.fail("C18 overlap: slots [%zu,%zu) and [%zu,%zu) overlap; %s", spans[k - 1].first, spans[k - 1].second, spans[k].first, spans[k].second, ctx.c_str());
		if (sn.al != maxAl) c.fail("C18 alignment: GetAlignment=%zu expected %zu; %s", sn.al, maxAl, ctx.c_str());
		for (size_t i = 0; i < U->size(); ++i) {
			bool expect = addedCodes.count((*U)[i].code) != 0;
			if ((sn.has[i] >= 0) != expect) c.fail("C18 contains: Contains(code %llu)=%d expected %d; %s", (unsigned long long)(*U)[i].code, (int)(sn.has[i] >= 0), (int)expect, ctx.c_str());
		}
		c.stats.evaluations++;
	}

	// one Add call. cols: universe indices; spec < 0: single column; faultK > 0: the faultK-th allocation fails. returns true when added
	bool doAdd(Tracked& t, const std::vector<int>& cols, int spec, bool mut0, int faultK)
	{
		Snap before = snap(t.list);
		const char* out = "ok";
		FaultMM::countdown = faultK > 0 ? faultK : 0;
		try {
			if (spec < 0) fns.addFns[(*U)[cols[0]].type](t.list, (*U)[cols[0]], mut0);
			else {
				std::vector<const ColDesc*> ds; for (int ui : cols) ds.push_back(&(*U)[ui]);
				addTupleDispatch<List, typename C::Menu>(t.list, (size_t)spec, ds.data(), mut0);
			}
		}
		catch (const std::bad_alloc&) { out = "E:bad_alloc"; }
		catch (const std::logic_error&) { out = "E:logic"; }
		catch (const std::runtime_error&) { out = "E:runtime"; }
		FaultMM::countdown = 0;
		bool ok = out[0] == 'o';
		char ftag = 'n';
		if (!ok && out[2] == 'b') ftag = (t.list.mMutableOffsets.GetCount() != before.mc) ? 'i' : 'r';
		std::string op = fmt("add %s %c", t.id.c_str(), ftag);
		for (size_t k = 0; k < cols.size(); ++k) op += " " + itemTok(cols[k], k == 0 && mut0);
		s.op(op); s.res(out);
		c.stats.count(std::string("add:") + out);
		if (cols.size() > 1) c.stats.count(fmt("add:tuple%zu", cols.size()));
		std::string what = op + " -> " + out;
		if (ok) {
			if (t.list.mCodeParam != before.p) c.stats.count("add:codeParam-advanced");
			c.stats.count(fmt("codeParam-final:%s", t.list.mCodeParam == 0 ? "0" : t.list.mCodeParam < 4 ? "1-3" : t.list.mCodeParam < 16 ? "4-15" : "16+"));
			size_t base = t.added.size();
			for (size_t k = 0; k < cols.size(); ++k) { t.added.push_back(cols[k]); t.muts.push_back(k == 0 && mut0); }
			size_t k = 0;
			for (const auto& rec : t.list) { if (k >= base && k < t.added.size()) t.offs.push_back(rec.GetOffset()); ++k; }
		} else {
			// refused: nothing observable may have changed
			Snap after = snap(t.list);
			if (!(after == before)) c.fail("C18 refused-unchanged: state changed by a refused addition: %s (L=%zu kind=%s)", what.c_str(), L, kind.c_str());
		}
		compare(t, what.c_str());
		return ok;
	}

	// ---- rows
	std::string describe(const Tracked& t) const
	{
		std::string r = fmt("%s L=%zu row=%d kind=%s list=%s columns(code:size:align@offset)=", s.name.c_str(), L, (int)C::keepRow, kind.c_str(), t.id.c_str());
		for (size_t k = 0; k < t.added.size(); ++k) {
			const ColDesc& d = (*U)[t.added[k]];
			r += fmt(" %llu:%zu:%zu@%zu", (unsigned long long)d.code, typeRows[d.type].size, typeRows[d.type].align, t.offs[k]);
		}
		std::string fr;
		for (const auto& f : t.list.mFuncRecords) fr += fmt(" %zu", f.columnIndex);
		return r + " funcRecordStarts=" + fr;
	}

	void ledgerCheck(const std::string& whatStr, const Tracked& t, bool expectLive)
	{
		const char* what = whatStr.c_str();
		if (RowLog::bad() != 0) { c.fail("C18 once: an item slot was constructed or destroyed twice during %s; events=%s; %s", what, RowLog::events().c_str(), describe(t).c_str()); RowLog::bad() = 0; }
		std::set<size_t> liveOffs;
		for (auto& kv : RowLog::live()) if (kv.second != 0) liveOffs.insert(kv.first);
		std::set<size_t> expect;
		if (expectLive) for (size_t o : t.offs) expect.insert(o);
		if (liveOffs != expect) c.fail("C18 once: after %s %zu item slots are alive, expected %zu; events=%s; %s", what, liveOffs.size(), expect.size(), RowLog::events().c_str(), describe(t).c_str());
		if (InstLedger::bad() != 0) { c.fail("C18 once: a non-trivial item was constructed over a live one or destroyed twice during %s; events=%s; %s", what, RowLog::events().c_str(), describe(t).c_str()); InstLedger::bad() = 0; }
	}

	void rowTest(Tracked& a, Tracked* b)
	{
		FaultMM mm;
		size_t n = a.added.size();
		// (1) CreateRaw with the k-th construction throwing, for a random k (and always the no-fault case)
		long k = (n > 0 && rng.chance(1, 2)) ? (long)rng.below(n) : -1;
		for (int pass = 0; pass < 2; ++pass) {
			long kk = pass == 0 ? k : -1;
			if (pass == 0 && kk < 0) continue;
			RawBuf raw(a.list.GetTotalSize(), a.list.GetAlignment());
			RowLog::reset(raw.p, nullptr); RowLog::live().clear(); RowLog::throwAt() = kk;
			bool threw = false;
			try { a.list.CreateRaw(mm, raw.p); } catch (const UserThrow&) { threw = true; }
			RowLog::throwAt() = -1;
			s.op(fmt("create %s %ld", a.id.c_str(), kk));
			s.res(RowLog::events() + (RowLog::events().empty() ? "" : " ") + (threw ? "throw" : "ok"));
			c.stats.count(threw ? "row:create-throw" : "row:create-ok");
			if (threw != (kk >= 0)) c.fail("C18 once: CreateRaw with construction #%ld throwing: exception propagated=%d; %s", kk, (int)threw, describe(a).c_str());
			ledgerCheck(fmt("CreateRaw with construction #%ld throwing", kk), a, !threw);
			c.stats.evaluations++;
			if (threw) continue;
			// every item default-constructed
			for (size_t i = 0; i < n; ++i) {
				const ColDesc& d = (*U)[a.added[i]];
				if (fns.getFns[d.type](raw.p, a.offs[i]) != fns.defFns[d.type]()) c.fail("C18 create: column %zu (code %llu) not default-constructed by CreateRaw; %s", i, (unsigned long long)d.code, describe(a).c_str());
				fns.putFns[d.type](raw.p, a.offs[i], rng.next());
			}
			// (2) ImportRaw into the same list and into another list (different columns / order / offsets)
			for (int which = 0; which < 2; ++which) {
				Tracked* dstT = which == 0 ? &a : b;
				if (dstT == nullptr) continue;
				size_t dn = dstT->added.size();
				long ik = (dn > 0 && rng.chance(1, 3)) ? (long)rng.below(dn) : -1;
				RawBuf raw2(dstT->list.GetTotalSize(), dstT->list.GetAlignment());
				RowLog::reset(raw2.p, raw.p); RowLog::live().clear(); RowLog::throwAt() = ik;
				bool threw2 = false;
				try { dstT->list.ImportRaw(mm, a.list, raw.p, raw2.p); } catch (const UserThrow&) { threw2 = true; }
				RowLog::throwAt() = -1;
				s.op(fmt("import %s %s %ld", dstT->id.c_str(), a.id.c_str(), ik));
				s.res(RowLog::events() + (RowLog::events().empty() ? "" : " ") + (threw2 ? "throw" : "ok"));
				c.stats.count(fmt("row:import-%s-%s", which == 0 ? "same" : "other", threw2 ? "throw" : "ok"));
				ledgerCheck(fmt("ImportRaw from list %s with construction #%ld throwing", a.id.c_str(), ik), *dstT, !threw2);
				c.stats.evaluations++;
				if (threw2) continue;
				size_t shared = 0;
				for (size_t i = 0; i < dn; ++i) {
					const ColDesc& d = (*U)[dstT->added[i]];
					uint64_t got = fns.getFns[d.type](raw2.p, dstT->offs[i]);
					auto it = std::find_if(a.added.begin(), a.added.end(), [&] (int ui) { return (*U)[ui].code == d.code; });
					if (it != a.added.end()) {
						++shared;
						uint64_t want = fns.getFns[d.type](raw.p, a.offs[(size_t)(it - a.added.begin())]);
						if (got != want) c.fail("C18 import: column code %llu copied wrongly by ImportRaw (events %s); source: %s; destination: %s", (unsigned long long)d.code,
							RowLog::events().c_str(), describe(a).c_str(), describe(*dstT).c_str());
					} else if (got != fns.defFns[d.type]())
						c.fail("C18 import: column code %llu, absent from the source list, is not default-constructed by ImportRaw (events %s); source: %s; destination: %s",
							(unsigned long long)d.code, RowLog::events().c_str(), describe(a).c_str(), describe(*dstT).c_str());
				}
				if (which == 1) c.stats.count(shared == 0 ? "row:import-other-disjoint" : shared == dn ? "row:import-other-all-shared" : "row:import-other-partly-shared");
				RowLog::reset(raw2.p, nullptr);
				dstT->list.DestroyRaw(&mm, raw2.p);
				s.op("destroy " + dstT->id); s.res(RowLog::events());
				ledgerCheck("DestroyRaw", *dstT, false);
			}
			RowLog::reset(raw.p, nullptr); RowLog::live().clear();
			for (size_t o : a.offs) RowLog::live()[o] = 1;
			a.list.DestroyRaw(&mm, raw.p);
			s.op("destroy " + a.id); s.res(RowLog::events());
			ledgerCheck("DestroyRaw", a, false);
		}
		if (!InstLedger::live().empty()) { c.fail("C18 once: %zu non-trivial items still alive after the row test of list %s", InstLedger::live().size(), a.id.c_str()); InstLedger::live().clear(); }
	}

	void newList(Tracked& t, const std::string& id) { t.id = id; s.op("new " + id); s.res("ok"); }

	// ---- scenario 1: every addition order of a small subset
	void allOrders(const std::vector<int>& subset)
	{
		std::vector<int> perm = subset;
		std::sort(perm.begin(), perm.end());
		std::string key = kind + fmt(":L%zu:", L);
		for (int ui : perm) key += fmt("%llu/%d,", (unsigned long long)(*U)[ui].code, (*U)[ui].type);
		do {
			Tracked t; newList(t, "p");
			for (int ui : perm) doAdd(t, { ui }, -1, false, 0);
			if (rng.chance(1, 6)) rowTest(t, nullptr);
			c.stats.count("orders:permutations");
		} while (std::next_permutation(perm.begin(), perm.end()));
		c.stats.nontrivial("orders:" + key);
	}

	// ---- scenario 2: random order of a large subset, with tuples, duplicates, faults, copies and rows
	void randomRun(size_t steps, const std::string& label)
	{
		std::vector<Tracked*> lists;
		int nextId = 0;
		auto fresh = [&] () { Tracked* t = new Tracked(); newList(*t, fmt("r%d", nextId++)); lists.push_back(t); return t; };
		Tracked* cur = fresh();
		std::string sample = label + ":";
		size_t refusedTooMany = 0;
		for (size_t step = 0; step < steps; ++step) {
			std::vector<int> unadded;
			for (size_t i = 0; i < U->size(); ++i)
				if (std::find(cur->added.begin(), cur->added.end(), (int)i) == cur->added.end()) unadded.push_back((int)i);
			unsigned r = (unsigned)rng.below(100);
			if (r < 50 && !unadded.empty()) {
				int ui = unadded[rng.below(unadded.size())];
				bool dupCode = false;
				for (int a : cur->added) if ((*U)[a].code == (*U)[ui].code) dupCode = true;
				if (dupCode && (L > 9 && !rng.chance(1, 4))) continue;	// 256 retries on a big graph: keep these rare
				bool ok = doAdd(*cur, { ui }, -1, rng.chance(1, 6), 0);
				sample += fmt(" +%d%s", ui, ok ? "" : "!");
				if (!ok && cur->added.size() + 1 > maxColumns) ++refusedTooMany;
			} else if (r < 62) {
				size_t spec = rng.below(tupleSpecs().size());
				std::vector<int> cols; bool okPick = true;
				std::vector<int> pool = unadded;
				for (int ty : tupleSpecs()[spec].types) {
					std::vector<int> cand; for (int ui : pool) if ((*U)[ui].type == ty) cand.push_back(ui);
					if (cand.empty()) { okPick = false; break; }
					int ui = cand[rng.below(cand.size())];
					cols.push_back(ui); pool.erase(std::find(pool.begin(), pool.end(), ui));
				}
				if (!okPick) continue;
				bool ok = doAdd(*cur, cols, (int)spec, rng.chance(1, 5), rng.chance(1, 8) ? (int)rng.range(1, 5) : 0);
				sample += fmt(" +T%zu%s", spec, ok ? "" : "!");
				if (!ok && cur->added.size() + cols.size() > maxColumns) ++refusedTooMany;
			} else if (r < 70 && !cur->added.empty()) {
				if (L > 9 && !rng.chance(1, 4)) continue;
				int ui = cur->added[rng.below(cur->added.size())];	// the same column again: must be refused
				bool ok = doAdd(*cur, { ui }, -1, false, 0);
				c.stats.count(ok ? "add:duplicate-accepted" : "add:duplicate-refused");	// an accepted duplicate shows up as a lookup / contains failure in compare()
				sample += fmt(" dup%d", ui);
			} else if (r < 80 && !unadded.empty()) {
				int ui = unadded[rng.below(unadded.size())];
				bool dupCode = false;
				for (int a : cur->added) if ((*U)[a].code == (*U)[ui].code) dupCode = true;
				if (dupCode && L > 9) continue;
				int k = (int)rng.range(1, 6);
				bool ok = doAdd(*cur, { ui }, -1, rng.chance(1, 6), k);
				sample += fmt(" +%d@f%d%s", ui, k, ok ? "" : "!");
			} else if (r < 86) {
				// copy / move construction: the copy must behave like the original from here on
				List copied(cur->list);
				bool moved = rng.chance(1, 2);
				Tracked* t = moved ? new Tracked{ List(std::move(copied)), fmt("r%d", nextId++), cur->added, cur->offs, cur->muts }
					: new Tracked{ List(copied), fmt("r%d", nextId++), cur->added, cur->offs, cur->muts };
				s.op("copy " + t->id + " " + cur->id); s.res("ok");
				lists.push_back(t);
				compare(*t, "copy construction");
				if (rng.chance(1, 2)) cur = t;
				c.stats.count("list:copied");
				sample += " copy";
			} else if (r < 96) {
				Tracked* other = lists[rng.below(lists.size())];
				rowTest(*cur, other != cur ? other : nullptr);
				sample += " row";
			} else if (lists.size() < 6) {
				cur = fresh();
				sample += " new";
			}
			if (refusedTooMany >= 3) break;
		}
		if (!cur->added.empty()) {
			std::string key = label;
			for (int ui : cur->added) key += fmt(",%d", ui);
			c.stats.nontrivial("random:" + key);
		}
		// cross-list imports at the end (lists with different column sets and orders)
		for (size_t i = 0; i + 1 < lists.size() && i < 3; ++i) rowTest(*lists[i], lists[i + 1]);
		c.stats.sample(sample.substr(0, 300));
		for (Tracked* t : lists) delete t;
	}
};

// ---------------------------------------------------------------- universes: engineered codes
template<size_t L>
static std::pair<size_t, size_t> realVertices(uint64_t code, size_t param) { return momo::DataColumnTraits<momo::DataStructDefault<>, L>::GetVertices(code, param); }

// a 64-bit code whose vertices are (v1, v2) for parameter 0 and (w1, w2) for parameter 2 (w = none: don't care)
template<size_t L>
static bool findCode(Rng& rng, size_t v1, size_t v2, bool useW, size_t w1, size_t w2, uint64_t& code)
{
	auto good = [&] (uint64_t cd) {
		auto a = realVertices<L>(cd, 0);
		if (a.first != v1 || a.second != v2) return false;
		if (!useW) return true;
		auto b = realVertices<L>(cd, 2);
		return b.first == w1 && b.second == w2;
	};
	const size_t mask = (size_t{1} << L) - 1;
	// analytic guess for L >= 8 (shortCode = s + (s >> 16) for codes below 2^32), verified with the real function
	for (int tries = 0; tries < 4000; ++tries) {
		uint64_t hi = rng.below(uint64_t{1} << (L >= 13 ? 1 : 4));
		for (int variant = 0; variant < 2; ++variant) {
			uint64_t target = v1 | ((uint64_t)(variant == 0 ? v2 : (v2 ^ 1)) << L) | (hi << (2 * L));
			uint64_t est = target - (target >> 16);
			for (int d = -3; d <= 3; ++d) { uint64_t cd = est + (uint64_t)(int64_t)d; if (cd < (uint64_t{1} << 32) && good(cd)) { code = cd; return true; } }
		}
		if (L < 8) break;
	}
	uint64_t budget = (uint64_t{1} << (2 * L + 3));
	if (budget > 600000) budget = 600000;
	for (uint64_t i = 0; i < budget; ++i) {
		uint64_t cd = rng.chance(1, 2) ? rng.next() : rng.below(uint64_t{1} << 32);
		if (good(cd)) { code = cd; return true; }
	}
	(void)mask;
	return false;
}

template<typename Menu, size_t... I>
static std::vector<int> allowedImpl(std::index_sequence<I...>)
{
	std::vector<int> r;
	bool in[] = { InTuple<typename std::tuple_element<I, Types>::type, Menu>::value... };
	for (size_t i = 0; i < sizeof...(I); ++i) if (in[i]) r.push_back((int)i);
	return r;
}
template<typename Menu> static std::vector<int> allowedOf() { return allowedImpl<Menu>(std::make_index_sequence<NT>()); }

static int pickType(Rng& rng, size_t i, const std::vector<int>& allowed)
{
	// the first columns cover the tuple types (every menu has them), then every type of the menu at random
	static const int lead[] = { typeIdx<Blob<1, 1>>(), typeIdx<Blob<8, 8>>(), typeIdx<Blob<4, 4>>(), typeIdx<std::string>(), typeIdx<Blob<3, 1>>(), typeIdx<Blob<16, 16>>(),
		typeIdx<Blob<2, 2>>(), typeIdx<Counted8>(), typeIdx<Blob<3, 1>>(), typeIdx<Counted16>(), typeIdx<Blob<2, 2>>(), typeIdx<Blob<1, 1>>(), typeIdx<Blob<8, 8>>(), typeIdx<Blob<4, 4>>(), typeIdx<Blob<2, 2>>() };
	if (i < sizeof lead / sizeof lead[0]) return lead[i];
	return allowed[rng.below(allowed.size())];
}

template<size_t L>
static Universe engineeredUniverse(Ctx& c, Rng& rng, size_t count, const std::vector<int>& allowed)
{
	Universe u;
	const size_t N = size_t{1} << L;
	auto push = [&] (uint64_t code, const char* tag) {
		for (const ColDesc& d : u) if (d.code == code) return false;
		ColDesc d; d.code = code; d.type = pickType(rng, u.size(), allowed); d.tag = tag; u.push_back(d); c.stats.count(std::string("universe:") + tag); return true;
	};
	uint64_t cd, cd2, cd3, cd4;
	// reversed pair (a,b) / (b,a): double edge for parameter 0
	for (int g = 0; g < 2; ++g) {
		size_t a = rng.below(N), b = rng.below(N); if (a == b) b ^= 1;
		if (findCode<L>(rng, a, b, false, 0, 0, cd) && findCode<L>(rng, b, a, false, 0, 0, cd2)) { push(cd, "reversed-pair"); push(cd2, "reversed-pair"); }
	}
	// tie-break pair: raw (x,x) -> (x,x^1) and raw (x,x^1): same edge for parameters 0 and 1, distinct from 2 on
	for (int g = 0; g < 2; ++g) {
		size_t x = rng.below(N);
		if (findCode<L>(rng, x, x ^ 1, true, x, x ^ 2, cd) && findCode<L>(rng, x, x ^ 1, true, x, x ^ 3, cd2)) { push(cd, "tiebreak-pair"); push(cd2, "tiebreak-pair"); }
	}
	// twins: same vertices for every parameter (the second of them can never be added)
	{
		size_t a = rng.below(N), b = rng.below(N); if (a == b) b ^= 1;
		if (findCode<L>(rng, a, b, true, a, b ^ 2, cd) && findCode<L>(rng, a, b, true, a, b ^ 2, cd2) && cd != cd2) { push(cd, "twin"); push(cd2, "twin"); }
	}
	// triangle and square: cycles for parameter 0
	{
		size_t a = rng.below(N), b = rng.below(N), d = rng.below(N);
		if (a != b && b != d && a != d && findCode<L>(rng, a, b, false, 0, 0, cd) && findCode<L>(rng, b, d, false, 0, 0, cd2) && findCode<L>(rng, a, d, false, 0, 0, cd3)) { push(cd, "triangle"); push(cd2, "triangle"); push(cd3, "triangle"); }
		size_t e = rng.below(N), f = rng.below(N), g = rng.below(N), h = rng.below(N);
		if (e != f && f != g && g != h && h != e && e != g && f != h && findCode<L>(rng, e, f, false, 0, 0, cd) && findCode<L>(rng, f, g, false, 0, 0, cd2)
			&& findCode<L>(rng, g, h, false, 0, 0, cd3) && findCode<L>(rng, h, e, false, 0, 0, cd4)) { push(cd, "square"); push(cd2, "square"); push(cd3, "square"); push(cd4, "square"); }
	}
	// star around one vertex and a path (acyclic: must be accepted for parameter 0)
	{
		size_t hub = rng.below(N);
		for (int k = 0; k < 4; ++k) { size_t x = rng.below(N); if (x != hub && findCode<L>(rng, hub, x, false, 0, 0, cd)) push(cd, "star"); }
	}
	while (u.size() < count) {
		switch (rng.below(4)) {
		case 0: push(rng.below(4096), "small-code"); break;
		case 1: push(rng.next(), "random64"); break;
		case 2: push(rng.biased(64), "biased64"); break;
		default: push(rng.below(uint64_t{1} << 32), "random32"); break;
		}
	}
	// random order, so that the engineered groups are not always met first
	for (size_t i = u.size(); i > 1; --i) std::swap(u[i - 1], u[rng.below(i)]);
	// ... but keep the leading types usable for tuples
	for (size_t i = 0; i < u.size(); ++i) u[i].type = pickType(rng, i, allowed);
	return u;
}

static Universe namedUniverse(Ctx& c, Rng& rng, size_t count, const std::vector<int>& allowed)
{
	Universe u;
	static const char* stems[] = { "id", "name", "price", "qty", "ts", "col", "flag", "x", "y", "value", "key" };
	while (u.size() < count) {
		ColDesc d;
		d.name = fmt("%s%llu", stems[rng.below(sizeof stems / sizeof stems[0])], (unsigned long long)rng.below(rng.chance(1, 2) ? 100 : 1000000));
		d.code = momo::internal::StrHasher::GetHashCode64(d.name.c_str());
		bool dup = false;
		for (const ColDesc& e : u) if (e.code == d.code) dup = true;
		if (dup) continue;
		d.type = pickType(rng, u.size(), allowed);
		d.tag = "string-hash";
		u.push_back(d);
		c.stats.count("universe:string-hash");
	}
	return u;
}

template<typename Column> static void pushStruct(Universe& u, const Column& col)
{
	ColDesc d; d.code = (uint64_t)col.GetCode(); d.type = typeIdx<typename Column::Item>(); d.object = &col; d.tag = "member-offset"; u.push_back(d);
}
static Universe structUniverse(Ctx& c)
{
	Universe u;
	pushStruct(u, sc::m0); pushStruct(u, sc::m1); pushStruct(u, sc::m2); pushStruct(u, sc::m3); pushStruct(u, sc::m4); pushStruct(u, sc::m5); pushStruct(u, sc::m6); pushStruct(u, sc::m7);
	pushStruct(u, sc::m8); pushStruct(u, sc::m9); pushStruct(u, sc::m10); pushStruct(u, sc::m11); pushStruct(u, sc::m12); pushStruct(u, sc::m13); pushStruct(u, sc::m14); pushStruct(u, sc::m15);
	pushStruct(u, sc::m16); pushStruct(u, sc::m17); pushStruct(u, sc::m18); pushStruct(u, sc::m19); pushStruct(u, sc::m20); pushStruct(u, sc::m21); pushStruct(u, sc::m22); pushStruct(u, sc::m23);
	pushStruct(u, sc::m24); pushStruct(u, sc::m25); pushStruct(u, sc::m26); pushStruct(u, sc::m27); pushStruct(u, sc::m28); pushStruct(u, sc::m29); pushStruct(u, sc::m30); pushStruct(u, sc::m31);
	pushStruct(u, sc::m32); pushStruct(u, sc::m33); pushStruct(u, sc::m34); pushStruct(u, sc::m35); pushStruct(u, sc::m36); pushStruct(u, sc::m37); pushStruct(u, sc::m38); pushStruct(u, sc::m39);
	c.stats.count("universe:member-offset", u.size());
	return u;
}

// a triangle a-b, a-c, b-c whose offsets satisfy o_ab + o_ac = o_bc (a = smallest vertex = DFS root, 2 * 2^63 = 0 mod 2^64):
// the cycle is consistent and pvAdd must accept it without changing the code parameter; with the columns in another order
// the same triangle is inconsistent and the parameter has to advance. Both are compared with the model.
template<typename C>
static void cycleScenario(Ctx& c, Rng& rng, Runner<C>& r)
{
	const size_t L = C::logVertexCount, N = size_t{1} << L;
	for (int attempt = 0; attempt < 4; ++attempt) {
		size_t a = rng.below(N / 2), b = a + 1 + rng.below(N - a - 1), d = a + 1 + rng.below(N - a - 1);
		size_t x = rng.below(N), y = rng.below(N);
		if (b == d || x == y || x == a || x == b || x == d || y == a || y == b || y == d) continue;
		uint64_t cab, cad, cbd, cxy;
		if (!findCode<L>(rng, a, b, false, 0, 0, cab) || !findCode<L>(rng, a, d, false, 0, 0, cad) || !findCode<L>(rng, b, d, false, 0, 0, cbd)
			|| !findCode<L>(rng, x, y, false, 0, 0, cxy)) continue;
		Universe u;
		for (uint64_t code : { cxy, cab, cad, cbd }) { ColDesc cd; cd.code = code; cd.type = typeIdx<Blob<4, 4>>(); cd.tag = "cycle"; u.push_back(cd); }
		if (u[0].code == u[1].code || u[1].code == u[2].code || u[2].code == u[3].code || u[1].code == u[3].code) continue;
		r.setUniverse(u);
		{
			typename Runner<C>::Tracked t; r.newList(t, "cyc");
			bool ok = true;
			for (int i = 0; i < 4; ++i) ok = r.doAdd(t, { i }, -1, false, 0) && ok;	// offsets 0, 4, 8, 12: 4 + 8 = 12
			c.stats.count(ok && t.list.mCodeParam == 0 ? "cycle:consistent-triangle-accepted-param0" : "cycle:consistent-triangle-other");
			r.rowTest(t, nullptr);
		}
		{
			typename Runner<C>::Tracked t; r.newList(t, "cyc");
			for (int i : { 1, 2, 0, 3 }) r.doAdd(t, { i }, -1, false, 0);	// offsets ab=0, ac=4, bc=12: 0 + 4 != 12
			c.stats.count(t.list.mCodeParam != 0 ? "cycle:inconsistent-triangle-param-advanced" : "cycle:inconsistent-triangle-other");
		}
		c.stats.nontrivial(fmt("cycle:L%zu:%zu,%zu,%zu", L, a, b, d));
		return;
	}
	c.stats.count("cycle:not-engineered");
}

// ---------------------------------------------------------------- function level: GetVertices and the string hash
template<size_t L>
static void vertexSuite(Ctx& c, Rng& rng)
{
	Suite s(c, fmt("vert%02zu", L), fmt("model columns L=%zu row=0 bytes=8", L));
	size_t n = c.thorough ? 3000 : 400;
	for (size_t i = 0; i < n; ++i) {
		uint64_t code = i < 64 ? i : (i % 3 == 0 ? rng.biased(64) : i % 3 == 1 ? rng.next() : rng.below(uint64_t{1} << (2 * L + 2)));
		uint64_t chk = 0;
		for (size_t p = 0; p <= 255; ++p) {
			auto v = realVertices<L>(code, p);
			auto w = momo::DataColumnTraits<MyStruct, L>::GetVertices(momo::DataColumnCodeOffset(code), p);
			if (v != w) c.fail("C18 harness: GetVertices differs between code types for code %llu param %zu", (unsigned long long)code, p);
			if (v.first == v.second || v.first >= (size_t{1} << L) || v.second >= (size_t{1} << L))
				c.fail("C18 vertices: GetVertices<L=%zu>(code %llu, param %zu) = (%zu,%zu) is not a pair of distinct vertices below 2^L", L, (unsigned long long)code, p, v.first, v.second);
			chk = chk * 1000003ull + v.first * 65536 + v.second;
		}
		s.op(fmt("vertall %llu", (unsigned long long)code)); s.res(fmt("%llu", (unsigned long long)chk));
		size_t p = rng.below(256);
		auto v = realVertices<L>(code, p);
		s.op(fmt("vert %llu %zu", (unsigned long long)code, p)); s.res(fmt("%zu %zu", v.first, v.second));
		c.stats.evaluations++;
	}
	for (size_t i = 0; i < n / 4; ++i) {
		std::string name, op = "hash";
		size_t len = rng.below(14);
		for (size_t k = 0; k < len; ++k) { unsigned char ch = (unsigned char)(rng.chance(1, 6) ? rng.range(0x80, 0xFF) : rng.range(0x20, 0x7E)); name += (char)ch; op += fmt(" %u", (unsigned)ch); }
		s.op(op); s.res(fmt("%llu", (unsigned long long)momo::internal::StrHasher::GetHashCode64(name.c_str())));
	}
}

// ---------------------------------------------------------------- main
template<typename C>
static void runConfig(Ctx& c, Rng& rng, const std::string& suite, const std::string& kind, const Universe& u, bool light, bool cycles = false)
{
	Runner<C> r(c, rng, suite, kind);
	if (cycles) cycleScenario<C>(c, rng, r);
	r.setUniverse(u);
	// all orders of small subsets
	size_t subsets = c.thorough ? (light ? 6 : 15) : (light ? 2 : 5);
	for (size_t k = 0; k < subsets; ++k) {
		size_t sz = (k % 4 == 3 && !light) ? 5 : (k % 2 ? 4 : 3);
		std::vector<int> subset;
		// bias: start from an engineered group when there is one
		size_t start = rng.below(u.size());
		if (rng.chance(2, 3)) for (size_t i = 0; i < u.size(); ++i) { size_t j = (start + i) % u.size(); if (u[j].tag != "random64" && u[j].tag != "string-hash" && u[j].tag != "member-offset") { start = j; break; } }
		subset.push_back((int)start);
		for (size_t i = 0; i + 1 < u.size() && subset.size() < sz; ++i) {
			size_t j = (start + 1 + i) % u.size();
			if (u[j].tag == u[start].tag && rng.chance(3, 4)) subset.push_back((int)j);
		}
		while (subset.size() < sz) { int j = (int)rng.below(u.size()); if (std::find(subset.begin(), subset.end(), j) == subset.end()) subset.push_back(j); }
		if (k % 5 == 4 && C::logVertexCount <= 9) { subset.back() = subset.front(); c.stats.count("orders:subset-with-repeated-column"); }	// the same column twice: refused wherever it comes second
		r.allOrders(subset);
	}
	size_t runs = c.thorough ? (light ? 5 : 12) : (light ? 2 : 4);
	for (size_t k = 0; k < runs; ++k) r.randomRun(c.thorough ? 140 : 90, fmt("%s#%zu", suite.c_str(), k));
}

template<size_t L>
static void runL(Ctx& c, Rng& rng)
{
	vertexSuite<L>(c, rng);
	size_t count = 40;
	typedef momo::DataStructDefault<> D;
	const std::vector<int> all = allowedOf<MenuAll>(), light = allowedOf<MenuLight>();
	{
		Universe u = engineeredUniverse<L>(c, rng, count, all);
		runConfig<Cfg<D, L, false, MenuAll>>(c, rng, fmt("L%02zu_code", L), "uint64-engineered", u, false, true);
		Universe u2 = engineeredUniverse<L>(c, rng, count, light);
		runConfig<Cfg<D, L, true, MenuLight>>(c, rng, fmt("L%02zu_code_row", L), "uint64-engineered+rownumber", u2, true);
	}
	{
		Universe u = namedUniverse(c, rng, count, light);
		runConfig<Cfg<D, L, true, MenuLight>>(c, rng, fmt("L%02zu_name_row", L), "string-hash+rownumber", u, true);
		Universe u2 = namedUniverse(c, rng, count, all);
		runConfig<Cfg<D, L, false, MenuAll>>(c, rng, fmt("L%02zu_name", L), "string-hash", u2, false);
	}
	{
		Universe u = structUniverse(c);
		runConfig<Cfg<MyStruct, L, false, MenuStruct>>(c, rng, fmt("L%02zu_struct", L), "member-offset", u, false);
	}
}

int main(int argc, char** argv)
{
	Ctx c = parseArgs(argc, argv);
#ifdef C18_SINGLE	// one logVertexCount only (the sanitizer builds: compile time)
	Rng rng(c.seed * 0x1000 + 18 + 0x10 * C18_SINGLE + 0x800);
	runL<C18_SINGLE>(c, rng);
#else
	Rng rng(c.seed * 0x1000 + 18 + 0x100 * C18_PART);
	runL<4 + 2 * C18_PART>(c, rng);
	runL<5 + 2 * C18_PART>(c, rng);
#endif
	return c.finish();
}
