import Momo.Props.C13
