import Momo.Props.C13
import Momo.Props.C16
import Momo.Props.C12
import Momo.Props.C19
