import Momo.Extracted
import Momo.Model.Seg
/-
  Executable model of momo::DataTable with its unique / multi hash indexes (C07).

  Source mirrored (include/momo):
    DataIndexes.h
      HashTraits::GetHashCode / IsEqual, pvGetHashCode, pvIsEqual (Raw*, HashTupleKey, HashMixedKey)
                                                          -> hashVals / hashTuple / keyEq / tupleEq / mixVals
      UniqueHash::Add (both), RejectAdd (both), AcceptAdd (both), PrepareRemove, RejectRemove,
        AcceptRemove, FilterRaws, Find                    -> UIdx.add / addMixed / rejectAdd / rejectAddRaw /
                                                             acceptAdd / acceptAddRaw / prepareRemove /
                                                             rejectRemove / acceptRemove / filterRaws / find
      MultiHash::Add (both), pvAdd, pvSortRaws, RejectAdd, AcceptAdd, PrepareRemove, RejectRemove,
        AcceptRemove, FilterRaws, Find                    -> MIdx.* , pvAddGroup, sortSeg, acceptRemoveGroup,
                                                             filterGroup
      DataIndexes::AddRaw, RemoveRaw, UpdateRaw (both), FilterRaws, AddUniqueHashIndex,
        AddMultiHashIndex, pvAddHashIndex, GetFitUniqueHashIndex, GetFitMultiHashIndex, pvGetHashIndex,
        FindRaws, Assign, ClearRaws                       -> addRaw / removeRaw / updateRaw / updateRawCol /
                                                             filterRaws / createUnique / createMulti /
                                                             fitUnique / fitMulti / indexOfCols / copyOf / clear
    DataTable.h
      TryAdd, TryInsert, TryUpdate (row / column), pvExtractRaw (number / reference), pvRemove (range /
        filter), pvAssign, pvFilterRaws, pvSetNumbers, Clear, copy constructor + pvFill, pvSelect,
        pvSelectRec, pvMakeSelection, pvFindByHash, pvProject
                                                          -> tryAdd / tryInsert / tryUpdate / tryUpdateCol /
                                                             extract / extractRef / removeRows / removePred /
                                                             assign / setNumbers / select / selectCount /
                                                             findByUnique / findByMulti / project

  What is a parameter (external behaviour, universally quantified in the theorems):
    * `acc`  = DataTraits::AccumulateHashCode (hashCode, offset, item) -> new hashCode
    * `vis`  = the order in which a hash table visits its entries when it looks a hash code up.
               An index hash table (HashSet<Raw*> / HashMultiMap<Raw*,Raw*> of the index) is modelled by
               the list of its entries, each remembering the hash code it was inserted under (`h0`; in the
               real table this is *where* the entry sits). `vis h hs` = positions examined for hash code
               `h` when the entries have the insertion hash codes `hs`. The contract of C01/C13 ("a lookup
               examines every slot where the key can be") is `Complete vis` in the proofs; nothing else
               is assumed, in particular a lookup may meet entries inserted under other hash codes, in any
               order - this is what makes finding F9 expressible.
    * row addresses (`Row.addr`): answers of the memory manager; only their order is used
      (std::lower_bound / RadixSorter on Raw* inside a multi-hash group).
    * faults: `Fault` names the step at which std::bad_alloc strikes.
  Hash values and equality of index entries are evaluated through the row store (`Store`) at call time,
  exactly as `mHashFunc(key, offsets)` / `mEqualFunc(key1, key2, offsets)` read the raws.
  Columns are identified by their position in the value list (stands for the offset).
  Core Lean only (linked into the driver).
-/
namespace Momo.Table
open Momo

/-! ### rows and the row store -/

structure Row where
  /-- identity of the raw (stands for the `Raw*`; never reused) -/
  id : Nat
  /-- address rank of the raw (reused after a row is freed; distinct among live raws) -/
  addr : Nat
  /-- the stored row number (`ColumnList::SetNumber`), meaningful with `keepRowNumber` -/
  num : Nat
  vals : List Nat
deriving DecidableEq, Repr, Inhabited

/-- `invalidNumber = UIntConst::maxSize` -/
def invalidNumber : Nat := 18446744073709551615

abbrev Store := List Row

def rowOf (st : Store) (id : Nat) : Option Row := st.find? (fun r => r.id == id)

def valsOf (st : Store) (id : Nat) : List Nat :=
  match rowOf st id with
  | some r => r.vals
  | none => []

def addrOf (st : Store) (id : Nat) : Nat :=
  match rowOf st id with
  | some r => r.addr
  | none => 0

/-- `ColumnList::GetByOffset<Item>(raw, offset)` -/
def item (vals : List Nat) (c : Nat) : Nat := vals.getD c 0

/-- `pvIsEqual<void, Items...>(key1, key2, offsets)` with `DataTraits::IsEqual` = `==` -/
def keyEq (cols : List Nat) (v1 v2 : List Nat) : Bool := cols.all (fun c => item v1 c == item v2 c)

/-- `HashTraits::pvIsEqual<index>(HashTupleKey, Raw*)` -/
def tupleEq (t : List (Nat × Nat)) (vals : List Nat) : Bool := t.all (fun p => item vals p.1 == p.2)

abbrev Acc := Nat → Nat → Nat → Nat

/-- `pvGetHashCode<void, Items...>(Raw* key, offsets)`: hash of the remaining columns first, then
    `AccumulateHashCode(hashCode, item, offset)` -/
def hashVals (acc : Acc) (cols : List Nat) (vals : List Nat) : Nat :=
  cols.foldr (fun c h => acc h c (item vals c)) 0

/-- `pvGetHashCode<index>(OffsetItemTuple)` -/
def hashTuple (acc : Acc) (t : List (Nat × Nat)) : Nat := t.foldr (fun p h => acc h p.1 p.2) 0

/-- the item a `HashMixedKey` shows at `offset`: `(offset != key.offset) ? raw item : *key.item` -/
def mixVals (vals : List Nat) (col v : Nat) : List Nat := vals.set col v

abbrev Vis := Nat → List Nat → List Nat

/-- `HashSet::Find` / `HashMap::Find` of an index table: first visited position whose entry satisfies the
    equality predicate (positions outside the table are ignored) -/
def findPos (vis : Vis) (h : Nat) (hs : List Nat) (p : Nat → Bool) : Option Nat :=
  (vis h hs).find? (fun i => decide (i < hs.length) && p i)

/-! ### unique hash index (`DataIndexes::UniqueHash`) -/

structure UEntry where
  id : Nat
  h0 : Nat
deriving DecidableEq, Repr, Inhabited

structure UIdx where
  /-- `HashTraits::mOffsets` (creation order; `mSortedOffsets` is the same set) -/
  cols : List Nat
  ents : List UEntry := []
  /-- `mPositionAdd` -/
  posAdd : Option Nat := none
  /-- `mPositionRemove` -/
  posRem : Option Nat := none
deriving DecidableEq, Repr, Inhabited

namespace UIdx

def idAt (u : UIdx) (i : Nat) : Nat := (u.ents.getD i default).id

def find (vis : Vis) (u : UIdx) (h : Nat) (pred : Nat → Bool) : Option Nat :=
  findPos vis h (u.ents.map (·.h0)) (fun i => pred (u.idAt i))

/-- `Find(Raw*)`: hash and equality through the row store -/
def findRaw (vis : Vis) (acc : Acc) (st : Store) (u : UIdx) (raw : Nat) : Option Nat :=
  u.find vis (hashVals acc u.cols (valsOf st raw)) (fun id => keyEq u.cols (valsOf st raw) (valsOf st id))

/-- `Find(HashTupleKey)` -/
def findTuple (vis : Vis) (acc : Acc) (st : Store) (u : UIdx) (t : List (Nat × Nat)) : Option Nat :=
  u.find vis (hashTuple acc t) (fun id => tupleEq t (valsOf st id))

/-- `Find(HashMixedKey)` -/
def findMixed (vis : Vis) (acc : Acc) (st : Store) (u : UIdx) (raw col v : Nat) : Option Nat :=
  u.find vis (hashVals acc u.cols (mixVals (valsOf st raw) col v))
    (fun id => keyEq u.cols (mixVals (valsOf st raw) col v) (valsOf st id))

/-- `Raw* Add(Raw* raw, Raw* oldRaw)`: `mHashSet.Insert(raw)`; `none` = `std::bad_alloc` inside the insertion
    (`fail` only matters when an entry has to be added) -/
def add (vis : Vis) (acc : Acc) (st : Store) (u : UIdx) (raw : Nat) (oldRaw : Option Nat) (fail : Bool) :
    Option (UIdx × Nat) :=
  match u.findRaw vis acc st raw with
  | some p =>
    some (if oldRaw == some (u.idAt p) then { u with posAdd := some p } else u, u.idAt p)
  | none =>
    if fail then none
    else some ({ u with ents := u.ents ++ [⟨raw, hashVals acc u.cols (valsOf st raw)⟩],
                        posAdd := some u.ents.length }, raw)

/-- `Raw* Add(const HashMixedKey&)` -/
def addMixed (vis : Vis) (acc : Acc) (st : Store) (u : UIdx) (raw col v : Nat) (fail : Bool) :
    Option (UIdx × Nat) :=
  match u.findMixed vis acc st raw col v with
  | some p => some (u, u.idAt p)
  | none =>
    if fail then none
    else some ({ u with ents := u.ents ++ [⟨raw, hashVals acc u.cols (mixVals (valsOf st raw) col v)⟩],
                        posAdd := some u.ents.length }, raw)

/-- `RejectAdd()` -/
def rejectAdd (u : UIdx) : UIdx :=
  match u.posAdd with
  | some p => { u with ents := u.ents.eraseIdx p, posAdd := none }
  | none => u

/-- `RejectAdd(Raw* raw)` -/
def rejectAddRaw (u : UIdx) (raw : Nat) : UIdx :=
  match u.posAdd with
  | some p => if u.idAt p == raw then { u with ents := u.ents.eraseIdx p, posAdd := none }
              else { u with posAdd := none }
  | none => u

/-- `AcceptAdd()` -/
def acceptAdd (u : UIdx) : UIdx := { u with posAdd := none }

/-- `AcceptAdd(Raw* raw)`: `mHashSet.ResetKey(mPositionAdd, raw)` -/
def acceptAddRaw (u : UIdx) (raw : Nat) : UIdx :=
  match u.posAdd with
  | some p => { u with ents := u.ents.modify p (fun e => { e with id := raw }), posAdd := none }
  | none => u

/-- `PrepareRemove(Raw* raw)` -/
def prepareRemove (vis : Vis) (acc : Acc) (st : Store) (u : UIdx) (raw : Nat) : UIdx :=
  { u with posRem := u.findRaw vis acc st raw }

/-- `RejectRemove()` -/
def rejectRemove (u : UIdx) : UIdx := { u with posRem := none }

/-- `AcceptRemove()` -/
def acceptRemove (u : UIdx) : UIdx :=
  match u.posRem with
  | some p => { u with ents := u.ents.eraseIdx p, posRem := none }
  | none => u

/-- `FilterRaws(rawFilter)` -/
def filterRaws (u : UIdx) (keepRaw : Nat → Bool) : UIdx := { u with ents := u.ents.filter (fun e => keepRaw e.id) }

/-- `Clear()` -/
def clear (u : UIdx) : UIdx := { u with ents := [] }

end UIdx

/-! ### multi hash index (`DataIndexes::MultiHash`) -/

/-- one key of the `HashMultiMap<Raw*, Raw*>`: `key` = the raw stored as key, `raws` = its value array -/
structure Group where
  key : Nat
  h0 : Nat
  raws : List Nat := []
deriving DecidableEq, Repr, Inhabited

def Group.members (g : Group) : List Nat := g.key :: g.raws

structure MIdx where
  cols : List Nat
  groups : List Group := []
  /-- `mKeyIteratorAdd` -/
  kAdd : Option Nat := none
  /-- `mKeyIteratorRemove` -/
  kRem : Option Nat := none
deriving DecidableEq, Repr, Inhabited

/-- `logInitialSegmentSize` -/
def L0 : Nat := Extracted.dtLogInitialSegmentSize

/-- `SegmentedArraySettings<sqrt, logInitialSegmentSize>::GetItemCount(segIndex)` -/
def segSize (seg : Nat) : Nat := Seg.itemCount .sqrt L0 seg

/-- end of segment `seg` in the raw array = the values `rawIndex2` takes in the loops of `AcceptRemove` /
    `FilterRaws`: `1 << logInitialSegmentSize`, then `+= GetItemCount(segIndex + 1)` -/
def segEnd : Nat → Nat
  | 0 => 2 ^ L0
  | s+1 => segEnd s + segSize (s + 1)

/-- insertion into an address-sorted list (before the first element that is not smaller) -/
def insertByAddr (addr : Nat → Nat) (x : Nat) : List Nat → List Nat
  | [] => [x]
  | y :: ys => if addr y < addr x then y :: insertByAddr addr x ys else x :: y :: ys

/-- what `pvSortRaws` leaves behind (`std::is_sorted` or `RadixSorter<>::Sort` on the pointers): the
    ascending arrangement -/
def sortByAddr (addr : Nat → Nat) : List Nat → List Nat
  | [] => []
  | x :: xs => insertByAddr addr x (sortByAddr addr xs)

/-- `pvSortRaws(keyIter, lo, hi)` -/
def sortSeg (addr : Nat → Nat) (raws : List Nat) (lo hi : Nat) : List Nat :=
  raws.take lo ++ sortByAddr addr ((raws.take hi).drop lo) ++ raws.drop hi

/-- `std::lower_bound(first, last, x)` on pointers: for a range partitioned by `< x` (in particular a sorted
    one) the number of leading elements below `x` (the specification of `std::lower_bound`) -/
def lowerBound (addr : Nat → Nat) (l : List Nat) (x : Nat) : Nat :=
  (l.takeWhile (fun y => addr y < addr x)).length

/-- `MultiHash::pvAdd(keyIter, raw)`: when the value count is a positive multiple of the first segment size
    and `GetSegItemIndexes(rawCount)` says "first slot of a segment", the segment just completed is sorted;
    then `mHashMultiMap.Add(keyIter, raw)` -/
def pvAddSort (addr : Nat → Nat) (raws : List Nat) : List Nat :=
  if 0 < raws.length ∧ raws.length % (Extracted.dtSegMaskShift * 2 ^ L0) = 0 then
    if (Seg.getSeg .sqrt L0 raws.length).2 = 0 then
      sortSeg addr raws (raws.length - segSize ((Seg.getSeg .sqrt L0 raws.length).1 - 1)) raws.length
    else raws
  else raws

/-- `HashMultiMap::Remove(keyIter, valueIndex)`: the last value is assigned over the removed one -/
def removeSwap (l : List Nat) (i : Nat) : List Nat :=
  match l.getLast? with
  | none => []
  | some last => (l.set i last).dropLast

/-- position of the first occurrence (`std::find`), `l.length` when absent -/
def indexOf (l : List Nat) (x : Nat) : Nat := l.findIdx (fun y => y == x)

/-- the body of the `for (segIndex …; rawIndex2 < rawCount; …)` loop of `AcceptRemove` for one full segment
    `[lo, hi)`: binary search for `raw` in `[lo, hi-1)`; if it is there, close the gap, insert the last raw of
    the array at its sorted place and drop the last slot. `none` = not in this segment. -/
def removeInSeg (addr : Nat → Nat) (raws : List Nat) (raw lo hi : Nat) : Option (List Nat) :=
  let seg := (raws.take hi).drop lo
  let i := lowerBound addr seg.dropLast raw
  if seg.getD i 0 == raw ∧ i < seg.length then
    let seg1 := seg.eraseIdx i
    let last := raws.getLastD 0
    let p := lowerBound addr seg1 last
    some ((raws.take lo ++ (seg1.take p ++ last :: seg1.drop p) ++ raws.drop hi).dropLast)
  else none

/-- the segment loop of `AcceptRemove` (third branch); `fuel` bounds the number of segments -/
def removeFromRaws (addr : Nat → Nat) (raws : List Nat) (raw : Nat) : Nat → Nat → Nat → List Nat
  | 0, _, lo => removeSwap raws (lo + indexOf (raws.drop lo) raw)
  | fuel+1, seg, lo =>
    if segEnd seg < raws.length then
      match removeInSeg addr raws raw lo (segEnd seg) with
      | some r => r
      | none => removeFromRaws addr raws raw fuel (seg + 1) (segEnd seg)
    else removeSwap raws (lo + indexOf (raws.drop lo) raw)

/-- `MultiHash::AcceptRemove(raw)` on the group `mKeyIteratorRemove` points to; `none` = `RemoveKey` -/
def acceptRemoveGroup (addr : Nat → Nat) (g : Group) (raw : Nat) : Option Group :=
  match g.raws.getLast? with
  | none => none
  | some last =>
    if g.key == raw then some { g with key := last, raws := g.raws.dropLast }
    else some { g with raws := removeFromRaws addr g.raws raw g.raws.length 0 0 }

/-- the `while (rawIndex < keyIter->GetCount())` loop of `MultiHash::FilterRaws` -/
def filterSwap (keepRaw : Nat → Bool) : Nat → Nat → List Nat → List Nat
  | 0, _, l => l
  | fuel+1, i, l =>
    if i < l.length then
      if keepRaw (l.getD i 0) then filterSwap keepRaw fuel (i + 1) l
      else filterSwap keepRaw fuel i (removeSwap l i)
    else l

/-- the `for (segIndex …; rawIndex2 < rawCount; …) pvSortRaws(…)` loop -/
def sortFullSegs (addr : Nat → Nat) (raws : List Nat) : Nat → Nat → Nat → List Nat
  | 0, _, _ => raws
  | fuel+1, seg, lo =>
    if segEnd seg < raws.length then
      sortFullSegs addr (sortSeg addr raws lo (segEnd seg)) fuel (seg + 1) (segEnd seg)
    else raws

/-- one key of `MultiHash::FilterRaws`; `none` = `RemoveKey` -/
def filterGroup (addr : Nat → Nat) (keepRaw : Nat → Bool) (g : Group) : Option Group :=
  let raws := sortFullSegs addr (filterSwap keepRaw (2 * g.raws.length + 1) 0 g.raws)
                (filterSwap keepRaw (2 * g.raws.length + 1) 0 g.raws).length 0 0
  if keepRaw g.key then some { g with raws := raws }
  else
    match raws.getLast? with
    | none => none
    | some last => some { g with key := last, raws := raws.dropLast }

namespace MIdx

def keyAt (m : MIdx) (i : Nat) : Nat := (m.groups.getD i default).key

def find (vis : Vis) (m : MIdx) (h : Nat) (pred : Nat → Bool) : Option Nat :=
  findPos vis h (m.groups.map (·.h0)) (fun i => pred (m.keyAt i))

def findRaw (vis : Vis) (acc : Acc) (st : Store) (m : MIdx) (raw : Nat) : Option Nat :=
  m.find vis (hashVals acc m.cols (valsOf st raw)) (fun id => keyEq m.cols (valsOf st raw) (valsOf st id))

def findTuple (vis : Vis) (acc : Acc) (st : Store) (m : MIdx) (t : List (Nat × Nat)) : Option Nat :=
  m.find vis (hashTuple acc t) (fun id => tupleEq t (valsOf st id))

def findMixed (vis : Vis) (acc : Acc) (st : Store) (m : MIdx) (raw col v : Nat) : Option Nat :=
  m.find vis (hashVals acc m.cols (mixVals (valsOf st raw) col v))
    (fun id => keyEq m.cols (mixVals (valsOf st raw) col v) (valsOf st id))

/-- `pvAdd(keyIter, raw)` on group `p`; `fail` = `mHashMultiMap.Add` throws after the sorting -/
def pvAdd (st : Store) (m : MIdx) (p raw : Nat) (fail : Bool) : MIdx :=
  { m with groups := m.groups.modify p (fun g =>
      { g with raws := if fail then pvAddSort (addrOf st) g.raws else pvAddSort (addrOf st) g.raws ++ [raw] }) }

/-- `void Add(Raw* raw)`: `InsertKey(raw)`, `pvAdd` unless `raw` became the key; the Boolean is `false` when
    `std::bad_alloc` struck (the state returned is the one the exception leaves behind) -/
def add (vis : Vis) (acc : Acc) (st : Store) (m : MIdx) (raw : Nat) (fail : Bool) : MIdx × Bool :=
  match m.findRaw vis acc st raw with
  | some p =>
    if m.keyAt p != raw then
      if fail then (pvAdd st m p raw true, false) else ({ pvAdd st m p raw false with kAdd := some p }, true)
    else ({ m with kAdd := some p }, true)
  | none =>
    if fail then (m, false)
    else ({ m with groups := m.groups ++ [⟨raw, hashVals acc m.cols (valsOf st raw), []⟩],
                   kAdd := some m.groups.length }, true)

/-- `void Add(const HashMixedKey&)` -/
def addMixed (vis : Vis) (acc : Acc) (st : Store) (m : MIdx) (raw col v : Nat) (fail : Bool) : MIdx × Bool :=
  match m.findMixed vis acc st raw col v with
  | some p =>
    if fail then (pvAdd st m p raw true, false) else ({ pvAdd st m p raw false with kAdd := some p }, true)
  | none =>
    if fail then (m, false)
    else ({ m with groups := m.groups ++ [⟨raw, hashVals acc m.cols (mixVals (valsOf st raw) col v), []⟩],
                   kAdd := some m.groups.length }, true)

/-- `RejectAdd()` -/
def rejectAdd (m : MIdx) : MIdx :=
  match m.kAdd with
  | none => m
  | some p =>
    if 0 < (m.groups.getD p default).raws.length then
      { m with groups := m.groups.modify p (fun g => { g with raws := g.raws.dropLast }), kAdd := none }
    else { m with groups := m.groups.eraseIdx p, kAdd := none }

/-- `AcceptAdd()` -/
def acceptAdd (m : MIdx) : MIdx := { m with kAdd := none }

/-- `PrepareRemove(Raw* raw)` -/
def prepareRemove (vis : Vis) (acc : Acc) (st : Store) (m : MIdx) (raw : Nat) : MIdx :=
  { m with kRem := m.findRaw vis acc st raw }

/-- `RejectRemove()` -/
def rejectRemove (m : MIdx) : MIdx := { m with kRem := none }

/-- `AcceptRemove(Raw* raw)` -/
def acceptRemove (st : Store) (m : MIdx) (raw : Nat) : MIdx :=
  match m.kRem with
  | none => m
  | some p =>
    match acceptRemoveGroup (addrOf st) (m.groups.getD p default) raw with
    | some g => { m with groups := m.groups.set p g, kRem := none }
    | none => { m with groups := m.groups.eraseIdx p, kRem := none }

/-- `FilterRaws(rawFilter)` -/
def filterRaws (st : Store) (m : MIdx) (keepRaw : Nat → Bool) : MIdx :=
  { m with groups := m.groups.filterMap (filterGroup (addrOf st) keepRaw) }

def clear (m : MIdx) : MIdx := { m with groups := [] }

end MIdx

/-! ### the table -/

structure Table where
  rows : List Row := []
  uidx : List UIdx := []
  midx : List MIdx := []
deriving DecidableEq, Repr, Inhabited

/-- where `std::bad_alloc` strikes inside a row-level operation: before the indexes are touched
    (`NewRow`, `mRaws.Reserve`), or inside the step of index number `j` (unique indexes first, then multi) -/
inductive Fault
  | none
  | pre
  | step (j : Nat)
deriving DecidableEq, Repr, Inhabited

def Fault.hits (f : Fault) (j : Nat) : Bool :=
  match f with
  | .step k => k == j
  | _ => false

/-- how a pass over the indexes ended -/
inductive Stop
  | none
  | dup (row idx : Nat)
  | fault
deriving DecidableEq, Repr, Inhabited

/-- result of a row-level operation -/
inductive Res
  | ok
  | dup (row idx : Nat)
  | badAlloc
  | outOfRange
deriving DecidableEq, Repr, Inhabited

def Stop.toRes : Stop → Res
  | .none => .ok
  | .dup r i => .dup r i
  | .fault => .badAlloc

/-- `pvSetNumber` -/
def setNum (keep : Bool) (r : Row) (n : Nat) : Row := if keep then { r with num := n } else r

/-- `pvSetNumbers(beginNumber)` -/
def setNumbersFrom (keep : Bool) : Nat → List Row → List Row
  | _, [] => []
  | n, r :: rs => setNum keep r n :: setNumbersFrom keep (n + 1) rs

def setNumbers (keep : Bool) (from_ : Nat) (rows : List Row) : List Row :=
  rows.take from_ ++ setNumbersFrom keep from_ (rows.drop from_)

section ops
variable (vis : Vis) (acc : Acc)

/-! #### `DataIndexes::AddRaw` -/

/-- the loop `for (UniqueHash& uniqueHash : mUniqueHashes) { resRaw = uniqueHash.Add(raw); … }` -/
def uAddAll (st : Store) (raw : Nat) (f : Fault) : Nat → List UIdx → List UIdx × Stop
  | _, [] => ([], .none)
  | j, u :: us =>
    match u.add vis acc st raw none (f.hits j) with
    | none => (u :: us, .fault)
    | some (u', r) =>
      if r != raw then (u' :: us, .dup r j)
      else Prod.map (u' :: ·) id (uAddAll st raw f (j + 1) us)

/-- the loop `for (MultiHash& multiHash : mMultiHashes) multiHash.Add(raw);` -/
def mAddAll (st : Store) (raw : Nat) (f : Fault) : Nat → List MIdx → List MIdx × Stop
  | _, [] => ([], .none)
  | j, m :: ms =>
    if (m.add vis acc st raw (f.hits j)).2 then
      Prod.map ((m.add vis acc st raw (f.hits j)).1 :: ·) id (mAddAll st raw f (j + 1) ms)
    else ((m.add vis acc st raw (f.hits j)).1 :: ms, .fault)

/-- `Result AddRaw(Raw* raw)`; `st` = the memory the hash / equality functions read (table rows and the new raw) -/
def addRaw (t : Table) (st : Store) (raw : Nat) (f : Fault) : Table × Stop :=
  match uAddAll vis acc st raw f 0 t.uidx with
  | (us, .none) =>
    match mAddAll vis acc st raw f t.uidx.length t.midx with
    | (ms, .none) => ({ t with uidx := us.map UIdx.acceptAdd, midx := ms.map MIdx.acceptAdd }, .none)
    | (ms, s) => ({ t with uidx := us.map UIdx.rejectAdd, midx := ms.map MIdx.rejectAdd }, s)
  | (us, s) => ({ t with uidx := us.map UIdx.rejectAdd, midx := t.midx.map MIdx.rejectAdd }, s)

/-- `TryResult TryAdd(Row&& row)` -/
def tryAdd (keep : Bool) (t : Table) (r : Row) (f : Fault) : Table × Res :=
  if f = .pre then (t, .badAlloc) else
  match addRaw vis acc t (t.rows ++ [r]) r.id f with
  | (t', .none) => ({ t' with rows := t.rows ++ [setNum keep r t.rows.length] }, .ok)
  | (t', s) => (t', s.toRes)

/-- `TryResult TryInsert(size_t rowNumber, Row&& row)`: `TryAdd`, `std::rotate`, `pvSetNumbers(rowNumber)` -/
def tryInsert (keep : Bool) (t : Table) (n : Nat) (r : Row) (f : Fault) : Table × Res :=
  if t.rows.length < n then (t, .outOfRange) else
  match tryAdd vis acc keep t r f with
  | (t', .ok) =>
    ({ t' with rows := setNumbers keep n (t.rows.take n ++ setNum keep r t.rows.length :: t.rows.drop n) }, .ok)
  | x => x

/-! #### `DataIndexes::RemoveRaw`, `pvExtractRaw` -/

/-- `void RemoveRaw(Raw* raw)` (the lookups of `PrepareRemove` do not allocate) -/
def removeRaw (t : Table) (st : Store) (raw : Nat) : Table :=
  { t with uidx := t.uidx.map (fun u => (u.prepareRemove vis acc st raw).acceptRemove),
           midx := t.midx.map (fun m => (m.prepareRemove vis acc st raw).acceptRemove st raw) }

/-- `Raw* pvExtractRaw(size_t number, bool keepOrder)` -/
def extract (keep : Bool) (t : Table) (n : Nat) (keepOrder : Bool) : Table × Option Row :=
  match t.rows[n]? with
  | none => (t, none)
  | some r =>
    let t' := removeRaw vis acc t t.rows r.id
    if keepOrder then ({ t' with rows := setNumbers keep n (t.rows.eraseIdx n) }, some r)
    else
      match t.rows.getLast? with
      | none => (t', some r)
      | some last =>
        if n < t.rows.length - 1 then ({ t' with rows := (t.rows.set n (setNum keep last n)).dropLast }, some r)
        else ({ t' with rows := t.rows.dropLast }, some r)

/-- `pvExtractRaw(ConstRowReference)`: with `keepRowNumber` through the stored number, otherwise by searching
    `mRaws` from the end -/
def numberOf (keep : Bool) (t : Table) (id : Nat) : Option Nat :=
  match rowOf t.rows id with
  | none => none
  | some r => if keep then some r.num else some (t.rows.findIdx (fun x => x.id == id))

def extractRef (keep : Bool) (t : Table) (id : Nat) : Table × Option Row :=
  match numberOf keep t id with
  | none => (t, none)
  | some n => extract vis acc keep t n true

/-! #### `DataIndexes::UpdateRaw(Raw* oldRaw, Raw* newRaw)` -/

def uUpdAll (st : Store) (oldRaw newRaw : Nat) (f : Fault) : Nat → List UIdx → List UIdx × Stop
  | _, [] => ([], .none)
  | j, u :: us =>
    match u.add vis acc st newRaw (some oldRaw) (f.hits j) with
    | none => (u :: us, .fault)
    | some (u', r) =>
      if r != newRaw ∧ r != oldRaw then (u' :: us, .dup r j)
      else
        Prod.map ((if r == newRaw then u'.prepareRemove vis acc st oldRaw else u') :: ·) id
          (uUpdAll st oldRaw newRaw f (j + 1) us)

def mUpdAll (st : Store) (oldRaw newRaw : Nat) (f : Fault) : Nat → List MIdx → List MIdx × Stop
  | _, [] => ([], .none)
  | j, m :: ms =>
    if (m.add vis acc st newRaw (f.hits j)).2 then
      Prod.map (((m.add vis acc st newRaw (f.hits j)).1.prepareRemove vis acc st oldRaw) :: ·) id
        (mUpdAll st oldRaw newRaw f (j + 1) ms)
    else ((m.add vis acc st newRaw (f.hits j)).1 :: ms, .fault)

def updateRaw (t : Table) (st : Store) (oldRaw newRaw : Nat) (f : Fault) : Table × Stop :=
  match uUpdAll vis acc st oldRaw newRaw f 0 t.uidx with
  | (us, .none) =>
    match mUpdAll vis acc st oldRaw newRaw f t.uidx.length t.midx with
    | (ms, .none) =>
      ({ t with uidx := us.map (fun u => (u.acceptAddRaw newRaw).acceptRemove),
                midx := ms.map (fun m => m.acceptAdd.acceptRemove st oldRaw) }, .none)
    | (ms, s) =>
      ({ t with uidx := us.map (fun u => (u.rejectAddRaw newRaw).rejectRemove),
                midx := ms.map (fun m => m.rejectAdd.rejectRemove) }, s)
  | (us, s) =>
    ({ t with uidx := us.map (fun u => (u.rejectAddRaw newRaw).rejectRemove),
              midx := t.midx.map (fun m => m.rejectAdd.rejectRemove) }, s)

/-- `TryResult TryUpdate(size_t rowNumber, Row&& row)` -/
def tryUpdate (keep : Bool) (t : Table) (n : Nat) (r : Row) (f : Fault) : Table × Res :=
  match t.rows[n]? with
  | none => (t, .outOfRange)
  | some old =>
    if f = .pre then (t, .badAlloc) else
    match updateRaw vis acc t (t.rows ++ [r]) old.id r.id f with
    | (t', .none) => ({ t' with rows := t.rows.set n (setNum keep r n) }, .ok)
    | (t', s) => (t', s.toRes)

/-! #### `DataIndexes::UpdateRaw(Raw* raw, size_t offset, const Item& item, ItemAssigner&&)` -/

def uUpdColAll (st : Store) (raw col v : Nat) (f : Fault) : Nat → List UIdx → List UIdx × Stop
  | _, [] => ([], .none)
  | j, u :: us =>
    if u.cols.contains col then
      match u.addMixed vis acc st raw col v (f.hits j) with
      | none => (u :: us, .fault)
      | some (u', r) =>
        if r != raw then (u' :: us, .dup r j)
        else Prod.map (u'.prepareRemove vis acc st raw :: ·) id (uUpdColAll st raw col v f (j + 1) us)
    else Prod.map (u :: ·) id (uUpdColAll st raw col v f (j + 1) us)

def mUpdColAll (st : Store) (raw col v : Nat) (f : Fault) : Nat → List MIdx → List MIdx × Stop
  | _, [] => ([], .none)
  | j, m :: ms =>
    if m.cols.contains col then
      if (m.addMixed vis acc st raw col v (f.hits j)).2 then
        Prod.map (((m.addMixed vis acc st raw col v (f.hits j)).1.prepareRemove vis acc st raw) :: ·) id
          (mUpdColAll st raw col v f (j + 1) ms)
      else ((m.addMixed vis acc st raw col v (f.hits j)).1 :: ms, .fault)
    else Prod.map (m :: ·) id (mUpdColAll st raw col v f (j + 1) ms)

/-- the index part of the single-column update; the item assignment itself is done by `tryUpdateCol` -/
def updateRawCol (t : Table) (st : Store) (raw col v : Nat) (f : Fault) : Table × Stop :=
  match uUpdColAll vis acc st raw col v f 0 t.uidx with
  | (us, .none) =>
    match mUpdColAll vis acc st raw col v f t.uidx.length t.midx with
    | (ms, .none) =>
      ({ t with uidx := us.map (fun u => u.acceptAdd.acceptRemove),
                midx := ms.map (fun m => m.acceptAdd.acceptRemove st raw) }, .none)
    | (ms, s) =>
      ({ t with uidx := us.map (fun u => u.rejectAdd.rejectRemove),
                midx := ms.map (fun m => m.rejectAdd.rejectRemove) }, s)
  | (us, s) =>
    ({ t with uidx := us.map (fun u => u.rejectAdd.rejectRemove),
              midx := t.midx.map (fun m => m.rejectAdd.rejectRemove) }, s)

/-- `TryResult pvTryUpdate(ConstRowReference rowRef, const Column<Item>& column, RItem&& newItem)` -/
def tryUpdateCol (t : Table) (n col v : Nat) (f : Fault) : Table × Res :=
  match t.rows[n]? with
  | none => (t, .outOfRange)
  | some r =>
    if item r.vals col == v then (t, .ok)
    else
      match updateRawCol vis acc t t.rows r.id col v f with
      | (t', .none) => ({ t' with rows := t.rows.set n { r with vals := mixVals r.vals col v } }, .ok)
      | (t', s) => (t', s.toRes)

/-! #### `pvFilterRaws`, `pvRemove`, `pvAssign`, `Clear` -/

/-- `void pvFilterRaws(RawFilter rawFilter)` (row numbers are left as they are) -/
def filterTable (t : Table) (keepRaw : Nat → Bool) : Table :=
  { rows := t.rows.filter (fun r => keepRaw r.id),
    uidx := t.uidx.map (fun u => u.filterRaws keepRaw),
    midx := t.midx.map (fun m => m.filterRaws t.rows keepRaw) }

/-- `Remove(RowIterator begin, RowSentinel end)`: mark, `pvRemoveInvalidRaws`, `pvSetNumbers` (with
    `keepRowNumber`) or a set of raws (without) -/
def removeRows (keep : Bool) (t : Table) (ids : List Nat) : Table :=
  let t' := filterTable t (fun id => !ids.contains id)
  { t' with rows := setNumbers keep 0 t'.rows }

/-- `size_t Remove(const RowFilter& rowFilter)` -/
def removePred (keep : Bool) (t : Table) (p : Row → Bool) : Table :=
  removeRows keep t ((t.rows.filter p).map (·.id))

/-- first occurrences, in order -/
def firstOccs : List Nat → List Nat → List Nat
  | _, [] => []
  | seen, x :: xs => if seen.contains x then firstOccs seen xs else x :: firstOccs (x :: seen) xs

/-- `Assign(RowIterator begin, RowSentinel end)`: every row named gets the position of its first mention as
    its number, the others are removed (`pvFilterRaws`), then each raw is swapped to `mRaws[number]` -/
def assign (keep : Bool) (t : Table) (ids : List Nat) : Table :=
  let order := firstOccs [] ids
  let t' := filterTable t (fun id => order.contains id)
  { t' with rows := setNumbers keep 0 (order.filterMap (rowOf t'.rows)) }

/-- `void Clear()` -/
def clear (t : Table) : Table :=
  { rows := [], uidx := t.uidx.map UIdx.clear, midx := t.midx.map MIdx.clear }

/-! #### index creation, copy -/

def sameCols (a b : List Nat) : Bool := a.length == b.length && a.all (fun c => b.contains c)

/-- `pvGetHashIndex(hashes, sortedOffsets)` -/
def indexOfCols (colss : List (List Nat)) (cols : List Nat) : Option Nat :=
  let i := colss.findIdx (fun c => sameCols c cols)
  if i < colss.length then some i else none

/-- the loop of `pvAddHashIndex` for a unique index: `Add(raw)` then `AcceptAdd()` for every raw of the table;
    `Except.error raw` = the row that violates uniqueness -/
def fillUnique (st : Store) : List Nat → UIdx → Except Nat UIdx
  | [], u => .ok u
  | raw :: rest, u =>
    match u.add vis acc st raw none false with
    | none => .ok u
    | some (u', r) => if r != raw then .error raw else fillUnique st rest u'.acceptAdd

/-- `AddUniqueHashIndex(columns…)`: index number, or the offending row (`UniqueIndexViolation`) -/
def createUnique (t : Table) (cols : List Nat) : Table × Except Nat Nat :=
  match indexOfCols (t.uidx.map (·.cols)) cols with
  | some i => (t, .ok i)
  | none =>
    match fillUnique vis acc t.rows (t.rows.map (·.id)) { cols := cols } with
    | .ok u => ({ t with uidx := t.uidx ++ [u] }, .ok t.uidx.length)
    | .error raw => (t, .error raw)

def fillMulti (st : Store) : List Nat → MIdx → MIdx
  | [], m => m
  | raw :: rest, m => fillMulti st rest (m.add vis acc st raw false).1.acceptAdd

/-- `AddMultiHashIndex(columns…)` -/
def createMulti (t : Table) (cols : List Nat) : Table × Nat :=
  match indexOfCols (t.midx.map (·.cols)) cols with
  | some i => (t, i)
  | none => ({ t with midx := t.midx ++ [fillMulti vis acc t.rows (t.rows.map (·.id)) { cols := cols }] }, t.midx.length)

/-- `RemoveUniqueHashIndexes()` / `RemoveMultiHashIndexes()` -/
def dropUnique (t : Table) : Table := { t with uidx := [] }
def dropMulti (t : Table) : Table := { t with midx := [] }

/-- the loop of `pvFill`: `pvImportRaw`, `mIndexes.AddRaw(raw)` (result ignored), `mRaws.AddBackNogrow(raw)` -/
def fillRows : List Row → Table → Table
  | [], t => t
  | r :: rs, t => fillRows rs { (addRaw vis acc t (t.rows ++ [r]) r.id .none).1 with rows := t.rows ++ [r] }

/-- `DataTable(const DataTable& table, const RowFilter& rowFilter)`: `mIndexes.Assign` (same index
    definitions, no entries), `pvFill`, `pvSetNumbers()`. `newRows` = the imported raws (values of the rows
    that pass the filter, fresh identities and addresses). -/
def copyOf (keep : Bool) (t : Table) (newRows : List Row) : Table :=
  let t' := fillRows vis acc newRows
    { rows := [], uidx := t.uidx.map (fun u => { cols := u.cols }), midx := t.midx.map (fun m => { cols := m.cols }) }
  { t' with rows := setNumbers keep 0 t'.rows }

/-! #### queries -/

/-- `GetFitUniqueHashIndex(sortedOffsets)`: the first unique index all of whose columns are among the equalities -/
def fitUnique (us : List UIdx) (eqCols : List Nat) : Option Nat :=
  let i := us.findIdx (fun u => u.cols.all (fun c => eqCols.contains c))
  if i < us.length then some i else none

/-- `GetFitMultiHashIndex(sortedOffsets)`: among the multi indexes whose columns are among the equalities the
    first one with the largest positive key count -/
def fitMultiLoop (eqCols : List Nat) : List MIdx → Nat → Option Nat → Nat → Option Nat
  | [], _, best, _ => best
  | m :: ms, j, best, maxKeys =>
    if m.cols.all (fun c => eqCols.contains c) ∧ maxKeys < m.groups.length
    then fitMultiLoop eqCols ms (j + 1) (some j) m.groups.length
    else fitMultiLoop eqCols ms (j + 1) best maxKeys

def fitMulti (ms : List MIdx) (eqCols : List Nat) : Option Nat := fitMultiLoop eqCols ms 0 none 0

/-- which raws a selection iterates over -/
inductive Path
  | scan
  | unique (i : Nat)
  | multi (i : Nat)
deriving DecidableEq, Repr, Inhabited

/-- the index choice of `pvSelect` for at most `selectEqualityMaxCount` equalities -/
def choosePath (t : Table) (eqs : List (Nat × Nat)) : Path :=
  if eqs.isEmpty then .scan else
  match fitUnique t.uidx (eqs.map (·.1)) with
  | some i => .unique i
  | none =>
    match fitMulti t.midx (eqs.map (·.1)) with
    | some i => .multi i
    | none => .scan

/-- `FindRaws(UniqueHashIndex, tuple)` -/
def findRawsU (t : Table) (i : Nat) (tuple : List (Nat × Nat)) : List Nat :=
  match t.uidx[i]? with
  | none => []
  | some u =>
    match u.findTuple vis acc t.rows tuple with
    | some p => [u.idAt p]
    | none => []

/-- `FindRaws(MultiHashIndex, tuple)`: `keyIter->key` followed by the value array, or nothing -/
def findRawsM (t : Table) (i : Nat) (tuple : List (Nat × Nat)) : List Nat :=
  match t.midx[i]? with
  | none => []
  | some m =>
    match m.findTuple vis acc t.rows tuple with
    | some p => (m.groups.getD p default).members
    | none => []

/-- the raws `pvSelectRec` / the full scan hand to `pvMakeSelection`, and the equalities that became filters -/
def pathRaws (t : Table) (eqs : List (Nat × Nat)) : Path → List Nat × List (Nat × Nat)
  | .scan => (t.rows.map (·.id), eqs)
  | .unique i =>
    match t.uidx[i]? with
    | none => ([], eqs)
    | some u => (findRawsU vis acc t i (eqs.filter (fun p => u.cols.contains p.1)), eqs.filter (fun p => !u.cols.contains p.1))
  | .multi i =>
    match t.midx[i]? with
    | none => ([], eqs)
    | some m => (findRawsM vis acc t i (eqs.filter (fun p => m.cols.contains p.1)), eqs.filter (fun p => !m.cols.contains p.1))

/-- `pvMakeSelection`: the raws, in the order given, that satisfy the remaining equalities and the row filter -/
def selectVia (t : Table) (eqs : List (Nat × Nat)) (filt : Row → Bool) (path : Path) : List Nat :=
  (pathRaws vis acc t eqs path).1.filter (fun id =>
    match rowOf t.rows id with
    | some r => tupleEq (pathRaws vis acc t eqs path).2 r.vals && filt r
    | none => false)

/-- `pvSelect`: while there are more than `selectEqualityMaxCount` equalities the first one is turned into
    a filter; then the index is chosen -/
def select (maxEq : Nat) (t : Table) : List (Nat × Nat) → (Row → Bool) → List Nat
  | [], filt => selectVia vis acc t [] filt .scan
  | e :: es, filt =>
    if maxEq < (e :: es).length then select maxEq t es (fun r => item r.vals e.1 == e.2 && filt r)
    else selectVia vis acc t (e :: es) filt (choosePath t (e :: es))

def selectCount (maxEq : Nat) (t : Table) (eqs : List (Nat × Nat)) (filt : Row → Bool) : Nat :=
  (select vis acc maxEq t eqs filt).length

/-- `GetTrueIndex(index, offsets)` (`none` = `std::logic_error("Index not found")`) -/
def trueIndex (colss : List (List Nat)) (idx : Option Nat) (eqCols : List Nat) : Option Nat :=
  match idx with
  | some i => some i
  | none => indexOfCols colss eqCols

/-- `FindByUniqueHash(equalities, index)` -/
def findByUnique (t : Table) (idx : Option Nat) (eqs : List (Nat × Nat)) : Option (List Nat) :=
  match trueIndex (t.uidx.map (·.cols)) idx (eqs.map (·.1)) with
  | none => none
  | some i => some (findRawsU vis acc t i eqs)

/-- `FindByMultiHash(equalities, index)` -/
def findByMulti (t : Table) (idx : Option Nat) (eqs : List (Nat × Nat)) : Option (List Nat) :=
  match trueIndex (t.midx.map (·.cols)) idx (eqs.map (·.1)) with
  | none => none
  | some i => some (findRawsM vis acc t i eqs)

/-- `pvProject<distinct>`: the result table gets a temporary unique index over all its columns; a projected
    row that `AddRaw` refuses is dropped again -/
def projectStep (cols : List Nat) (distinct : Bool) (rt : Table) (r : Row) : Table :=
  if distinct then
    match addRaw vis acc rt (rt.rows ++ [⟨rt.rows.length, 0, 0, cols.map (item r.vals)⟩]) rt.rows.length .none with
    | (rt', .none) => { rt' with rows := rt.rows ++ [⟨rt.rows.length, 0, 0, cols.map (item r.vals)⟩] }
    | (rt', _) => rt'
  else { rt with rows := rt.rows ++ [⟨rt.rows.length, 0, 0, cols.map (item r.vals)⟩] }

def project (t : Table) (cols : List Nat) (distinct : Bool) (filt : Row → Bool) : List (List Nat) :=
  ((t.rows.filter filt).foldl (projectStep vis acc cols distinct)
    { rows := [], uidx := if distinct then [{ cols := List.range cols.length }] else [], midx := [] }).rows.map (·.vals)

end ops

/-! ### selections (`DataSelection::Sort`, `Group`, `GetLowerBound`, `GetUpperBound`) on key tuples -/

/-- `pvIsLess` / `pvCompare`: lexicographic comparison of the chosen items -/
def lexLt : List Nat → List Nat → Bool
  | [], _ => false
  | _, [] => false
  | a :: as, b :: bs => if a < b then true else if b < a then false else lexLt as bs

def insertKey (k : List Nat) : List (List Nat) → List (List Nat)
  | [] => [k]
  | y :: ys => if lexLt k y then k :: y :: ys else y :: insertKey k ys

/-- the sequence of sort keys after `Sort(columns…)` (the order of rows with equal keys is unspecified:
    `std::sort`) -/
def sortKeys : List (List Nat) → List (List Nat)
  | [] => []
  | k :: ks => insertKey k (sortKeys ks)

/-- `GetLowerBound(equalities…)` / `GetUpperBound` on a selection sorted by these columns -/
def lowerBoundKeys (keys : List (List Nat)) (k : List Nat) : Nat := (keys.filter (fun x => lexLt x k)).length
def upperBoundKeys (keys : List (List Nat)) (k : List Nat) : Nat := (keys.filter (fun x => !lexLt k x)).length

/-- number of runs of equal keys after `Group(columns…)` = number of distinct keys -/
def distinctKeys : List (List Nat) → List (List Nat)
  | [] => []
  | k :: ks => if (distinctKeys ks).contains k then distinctKeys ks else k :: distinctKeys ks

end Momo.Table
