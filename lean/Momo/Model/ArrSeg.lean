import Momo.Model.Arr
/-
  Model of `momo::SegmentedArray` as a sequence container (C05).  (SegmentedArray.h)

  The items live in segments that are never reallocated; `mSegments` is an `Array<Item*>` with
  `NestedArraySettings<ArraySettings<>>` and is modelled by the `Array` model of `Momo/Model/Arr.lean`
  (cells `live segIndex`).  The element sequence is the list of cells `0 .. mCount)`; `operator[]`,
  `AddBackNogrow`, `RemoveBack` give `ArrayShifter` the same interface as `Array`, so the shifter functions of
  `Momo.Arr` are shared.  The index arithmetic `GetSegItemIndexes / GetIndex / GetItemCount` is written over
  unbounded naturals (its 64-bit form and the round-trip laws are the subject of C16).
  Core Lean only.
-/
namespace Momo.Arr.Seg
open Momo Momo.Arr

variable {α : Type}

/-- `SegmentedArraySettings<itemCountFunc, logInitialItemCount>` -/
structure Layout where
  sqrt : Bool
  L : Nat
deriving Repr, DecidableEq

/-- sqrt `pvSegIndexToLogItemCount(segIndex)`: `Log2((segIndex * 2 + 4) / 3)` (SegmentedArray.h:114-117) -/
def segLog (seg : Nat) : Nat :=
  Nat.log2 ((seg * Extracted.segSqrtSegMul + Extracted.segSqrtSegAdd) / Extracted.segSqrtSegDiv)

/-- `GetSegItemIndexes(index)` → `(segIndex, itemIndex)` (SegmentedArray.h:80-89, 132-136) -/
def Layout.segItem (lay : Layout) (index : Nat) : Nat × Nat :=
  if lay.sqrt then
    -- index1 = (index >> L) + 1; index2 = index & mask; k = (Log2(index1) + 1) / 2
    (((index / 2 ^ lay.L + 1) / 2 ^ ((Nat.log2 (index / 2 ^ lay.L + 1) + Extracted.segSqrtLogAdd) / Extracted.segSqrtLogDiv))
        + 2 ^ ((Nat.log2 (index / 2 ^ lay.L + 1) + Extracted.segSqrtLogAdd) / Extracted.segSqrtLogDiv)
        - Extracted.segSqrtSegBias,
     ((index / 2 ^ lay.L + 1) % 2 ^ ((Nat.log2 (index / 2 ^ lay.L + 1) + Extracted.segSqrtLogAdd) / Extracted.segSqrtLogDiv))
        * 2 ^ lay.L + index % 2 ^ lay.L)
  else (index / 2 ^ lay.L, index % 2 ^ lay.L)

/-- `GetIndex(segIndex, itemIndex)` (SegmentedArray.h:91-100, 138-141) -/
def Layout.index (lay : Layout) (seg item : Nat) : Nat :=
  if lay.sqrt then
    ((seg + Extracted.segSqrtIdxBias - 2 ^ segLog seg) * 2 ^ segLog seg + item / 2 ^ lay.L - 1) * 2 ^ lay.L
      + item % 2 ^ lay.L
  else seg * 2 ^ lay.L + item

/-- `GetItemCount(segIndex)` (SegmentedArray.h:102-106, 143-146) -/
def Layout.itemCount (lay : Layout) (seg : Nat) : Nat :=
  if lay.sqrt then 2 ^ (segLog seg + lay.L) else 2 ^ lay.L

/-- number of segments needed for `capacity` items: `GetSegItemIndexes(capacity, segIndex, itemIndex);
    if (itemIndex > 0) ++segIndex;` (pvIncCapacity / pvDecCapacity) -/
def Layout.segsFor (lay : Layout) (n : Nat) : Nat :=
  if (lay.segItem n).2 > 0 then (lay.segItem n).1 + 1 else (lay.segItem n).1

structure SCfg where
  lay : Layout
  /-- a move leaves its source intact -/
  keeps : Bool := false
  /-- the memory manager has `Reallocate` (used by `mSegments`, whose items are pointers) -/
  ptrRealloc : Bool := false
  /-- the memory manager has `ReallocateInplace` -/
  ptrInplace : Bool := false
deriving Repr

/-- configuration of `mSegments` -/
def SCfg.segs (cfg : SCfg) : Cfg :=
  { intCap := 0, keeps := true, nothrowReloc := true, nothrowMove := true,
    canRealloc := cfg.ptrRealloc, canInplace := cfg.ptrInplace, growOnReserve := true }

/-- memory-manager calls: for item segments (sizes in items) and for the pointer array (sizes in pointers) -/
inductive SEv where
  | item (e : Ev)
  | ptr (e : Ev)
deriving DecidableEq, Repr

structure SState (α : Type) where
  /-- items `0 .. mCount)` -/
  cells : Cells α := []
  /-- `mSegments` -/
  segs : State Nat := {}
deriving Repr

def SState.init : SState α := { cells := [], segs := State.init ({} : Cfg) }

/-- a fresh object in an environment where the memory manager currently answers `b` to `ReallocateInplace` -/
def SState.initO (b : Bool) : SState α := { cells := [], segs := { State.init ({} : Cfg) with oracle := b } }

def segCount (s : SState α) : Nat := s.segs.cells.length

/-- `GetCapacity()`: `Settings::GetIndex(mSegments.GetCount(), 0)` -/
def capacity (cfg : SCfg) (s : SState α) : Nat := cfg.lay.index (segCount s) 0

/-- one round of the loop of `pvIncCapacity` / the growing branch of `AddBackCrt`:
    `mSegments.Reserve(segCount + 1); segment = pvAllocateSegment(segCount); mSegments.AddBackNogrow(segment);` -/
def addSeg (cfg : SCfg) (s : SState α) : SState α × List SEv :=
  ({ s with segs := { (reserve cfg.segs s.segs (segCount s + 1)).1 with
        cells := (reserve cfg.segs s.segs (segCount s + 1)).1.cells ++ [.live (segCount s)] } },
   (reserve cfg.segs s.segs (segCount s + 1)).2.map .ptr ++ [.item (.alloc (cfg.lay.itemCount (segCount s)))])

def addSegs (cfg : SCfg) : Nat → SState α → SState α × List SEv
  | 0, s => (s, [])
  | f+1, s => ((addSegs cfg f (addSeg cfg s).1).1, (addSeg cfg s).2 ++ (addSegs cfg f (addSeg cfg s).1).2)

/-- `pvIncCapacity(initCapacity, capacity)` (SegmentedArray.h:686-707) -/
def incCapacity (cfg : SCfg) (s : SState α) (n : Nat) : SState α × List SEv :=
  addSegs cfg (cfg.lay.segsFor n - segCount s) s

/-- `pvDecCapacity(capacity)` (SegmentedArray.h:709-720): deallocate segments `segIndex .. segCount)` in
    increasing order, `mSegments.RemoveBack` -/
def decCapacity (cfg : SCfg) (s : SState α) (n : Nat) : SState α × List SEv :=
  ({ s with segs := removeBack s.segs (segCount s - cfg.lay.segsFor n) },
   ((List.range (segCount s - cfg.lay.segsFor n)).map
      (fun i => SEv.item (.dealloc (cfg.lay.itemCount (cfg.lay.segsFor n + i))))))

/-- `Reserve(capacity)` (SegmentedArray.h:408-413) -/
def reserveOp (cfg : SCfg) (s : SState α) (n : Nat) : SState α × List SEv :=
  if n > capacity cfg s then incCapacity cfg s n else (s, [])

/-- apply a cell-level function to the items of a (state, events) result -/
def withCells (r : SState α × List SEv) (f : Cells α → Cells α) : SState α × List SEv :=
  ({ r.1 with cells := f r.1.cells }, r.2)

/-- `AddBackCrt` (SegmentedArray.h:484-511): in place, or into a freshly allocated segment — existing
    items are never touched -/
def addBackCrt (cfg : SCfg) (s : SState α) (mv : Bool) (item : Ref α) : SState α × List SEv :=
  if (cfg.lay.segItem s.cells.length).1 < segCount s then
    ({ s with cells := item.taken cfg.keeps mv s.cells ++ [item.read s.cells] }, [])
  else
    withCells (addSeg cfg s) (fun cs => item.taken cfg.keeps mv cs ++ [item.read cs])

/-- `InsertCrt` (SegmentedArray.h:530-536): handler first, `Reserve(mCount + 1)`, `InsertNogrow(…, std::move(handler))` -/
def insertCrt (cfg : SCfg) (s : SState α) (index : Nat) (mv : Bool) (item : Ref α) : SState α × List SEv :=
  withCells (reserveOp cfg { s with cells := item.taken cfg.keeps mv s.cells } (s.cells.length + 1))
    (fun cs => insertNogrowR cfg.keeps true cs index [.ext (item.read s.cells)])

/-- `Insert(index, count, const Item&)` (SegmentedArray.h:555-562): the value is always copied into a handler -/
def insertN (cfg : SCfg) (s : SState α) (index count : Nat) (item : Ref α) : SState α × List SEv :=
  withCells (reserveOp cfg s (s.cells.length + count))
    (fun cs => insertNogrowN cfg.keeps cs index count (.ext (item.read s.cells)))

/-- `pvInsert` for forward iterators (SegmentedArray.h:722-729) -/
def insertRange (cfg : SCfg) (s : SState α) (index : Nat) (xs : List (Cell α)) : SState α × List SEv :=
  withCells (reserveOp cfg s (s.cells.length + xs.length))
    (fun cs => insertNogrowR cfg.keeps false cs index (xs.map .ext))

/-- `pvInsert` for input iterators: `ArrayShifter::Insert` -/
def insertInput (cfg : SCfg) : SState α → Nat → List (Cell α) → SState α × List SEv
  | s, _, [] => (s, [])
  | s, index, x :: xs =>
    ((insertInput cfg (insertCrt cfg s index false (.ext x)).1 (index + 1) xs).1,
     (insertCrt cfg s index false (.ext x)).2 ++ (insertInput cfg (insertCrt cfg s index false (.ext x)).1 (index + 1) xs).2)

/-- `RemoveBack(count)` = `pvDecCount(mCount - count)`: items destroyed, segments kept -/
def removeBackOp (s : SState α) (count : Nat) : SState α := { s with cells := s.cells.take (s.cells.length - count) }

def removeOp (cfg : SCfg) (s : SState α) (index count : Nat) : SState α :=
  { s with cells := remove cfg.keeps s.cells index count }

def removeIfOp (cfg : SCfg) (s : SState α) (p : Cell α → Bool) : SState α × Nat :=
  ({ s with cells := (removeIf cfg.keeps p s.cells).1 }, (removeIf cfg.keeps p s.cells).2)

/-- `SetCountCrt` (SegmentedArray.h:361-368) with `pvIncCount` (633-664) / `pvDecCount` (666-684) -/
def setCount (cfg : SCfg) (s : SState α) (count : Nat) (item : Ref α) : SState α × List SEv :=
  if count < s.cells.length then ({ s with cells := s.cells.take count }, [])
  else if count > s.cells.length then
    withCells (if count > capacity cfg s then incCapacity cfg s count else (s, []))
      (fun cs => cs ++ List.replicate (count - cs.length) (item.read cs))
  else (s, [])

/-- `Shrink(capacity)` (SegmentedArray.h:420-435): `pvDecCapacity(max(capacity, mCount)); mSegments.Shrink();` -/
def shrinkOp (cfg : SCfg) (s : SState α) (n : Nat) : SState α × List SEv :=
  if capacity cfg s ≤ n then (s, [])
  else
    ({ (decCapacity cfg s (Nat.max n s.cells.length)).1 with
        segs := (shrink cfg.segs (decCapacity cfg s (Nat.max n s.cells.length)).1.segs
                  (decCapacity cfg s (Nat.max n s.cells.length)).1.segs.cells.length).1 },
     (decCapacity cfg s (Nat.max n s.cells.length)).2 ++
       (shrink cfg.segs (decCapacity cfg s (Nat.max n s.cells.length)).1.segs
          (decCapacity cfg s (Nat.max n s.cells.length)).1.segs.cells.length).2.map .ptr)

/-- destructor: `pvDecCount(0); pvDecCapacity(0);` then `mSegments` is destroyed -/
def destroyAll (cfg : SCfg) (s : SState α) : SState α × List SEv :=
  ({ cells := [], segs := (destroy cfg.segs (decCapacity cfg s 0).1.segs).1 },
   (decCapacity cfg s 0).2 ++ (destroy cfg.segs (decCapacity cfg s 0).1.segs).2.map .ptr)

/-- `Clear(shrink)` (SegmentedArray.h:393-401) -/
def clearOp (cfg : SCfg) (s : SState α) (shrinkFlag : Bool) : SState α × List SEv :=
  if shrinkFlag then destroyAll cfg s else ({ s with cells := [] }, [])

/-- `SegmentedArray(begin, end, memManager)` (SegmentedArray.h:218-235): `AddBackCrt` one by one -/
def addAll (cfg : SCfg) : SState α → List (Cell α) → SState α × List SEv
  | s, [] => (s, [])
  | s, x :: xs =>
    ((addAll cfg (addBackCrt cfg s false (.ext x)).1 xs).1,
     (addBackCrt cfg s false (.ext x)).2 ++ (addAll cfg (addBackCrt cfg s false (.ext x)).1 xs).2)

/-- `SegmentedArray(const SegmentedArray&, bool shrink)` (SegmentedArray.h:259-274) -/
def copyCtor (cfg : SCfg) (src : SState α) (shrinkFlag : Bool) : SState α × List SEv :=
  withCells (incCapacity cfg (SState.initO src.segs.oracle) (if shrinkFlag then src.cells.length else capacity cfg src))
    (fun _ => src.cells)

/-- `SegmentedArray(SegmentedArray&&)` (SegmentedArray.h:247-252): (new object, moved-from source) -/
def moveCtor (src : SState α) : SState α × SState α :=
  ({ cells := src.cells, segs := (Arr.moveCtor ({} : Cfg) src.segs).1 },
   { cells := [], segs := (Arr.moveCtor ({} : Cfg) src.segs).2 })

/-- `operator=(SegmentedArray&&)` for two different objects: `SegmentedArray(std::move(array)).Swap(*this)`, the
    temporary (holding the old contents of `*this`) is destroyed -/
def moveAssign (cfg : SCfg) (dst src : SState α) : SState α × SState α × List SEv :=
  ({ (moveCtor src).1 with segs := { (moveCtor src).1.segs with oracle := dst.segs.oracle } },
   (moveCtor src).2, (destroyAll cfg dst).2)

/-- `operator=(const SegmentedArray&)` for two different objects: `SegmentedArray(array).Swap(*this)` -/
def copyAssign (cfg : SCfg) (dst src : SState α) : SState α × List SEv :=
  ({ (copyCtor cfg src true).1 with segs := { (copyCtor cfg src true).1.segs with oracle := dst.segs.oracle } },
   (copyCtor cfg src true).2 ++ (destroyAll cfg dst).2)

/-- `Swap` (SegmentedArray.h:316-320) -/
def swap (a b : SState α) : SState α × SState α :=
  ({ cells := b.cells, segs := (Arr.swap a.segs b.segs).1 }, { cells := a.cells, segs := (Arr.swap a.segs b.segs).2 })

def setItem (s : SState α) (j : Nat) (c : Cell α) : SState α := { s with cells := s.cells.set j c }

/-- one history step (the operation type and the reference sequence are those of `Momo.Arr`;
    `assignFill` / `assignRange` build a temporary and move-assign it, as the harness does) -/
def step (cfg : SCfg) (s : SState α) : Op α → SState α × List SEv
  | .addBackCopy item => addBackCrt cfg s false item
  | .addBackCrt item => addBackCrt cfg s false item
  | .insertCrt index item => insertCrt cfg s index false item
  | .insertN index count item => insertN cfg s index count item
  | .insertRange index xs => insertRange cfg s index (xs.map .live)
  | .insertInput index xs => insertInput cfg s index (xs.map .live)
  | .removeBack count => (removeBackOp s count, [])
  | .remove index count => (removeOp cfg s index count, [])
  | .removeIf p => ((removeIfOp cfg s (liftPred p)).1, [])
  | .setCount count item => setCount cfg s count item
  | .reserve n => reserveOp cfg s n
  | .shrink n => shrinkOp cfg s n
  | .clear f => clearOp cfg s f
  | .assignFill count item =>
      ((setCount cfg (SState.initO s.segs.oracle) count (.ext (item.read s.cells))).1,
       (setCount cfg (SState.initO s.segs.oracle) count (.ext (item.read s.cells))).2 ++ (destroyAll cfg s).2)
  | .assignRange xs =>
      ((addAll cfg (SState.initO s.segs.oracle) (xs.map .live)).1,
       (addAll cfg (SState.initO s.segs.oracle) (xs.map .live)).2 ++ (destroyAll cfg s).2)
  | .setItem j x => (setItem s j (.live x), [])
  | .oracle b => ({ s with segs := { s.segs with oracle := b } }, [])

def run (cfg : SCfg) : SState α → List (Op α) → SState α × List SEv
  | s, [] => (s, [])
  | s, op :: ops => ((run cfg (step cfg s op).1 ops).1, (step cfg s op).2 ++ (run cfg (step cfg s op).1 ops).2)

/-- what the sizing functions must satisfy for the container to work (proved for `cnst`; for `sqrt` it is
    the content of C16): the capacity of the segments needed for `n` items is at least `n`, capacity is
    monotone in the segment count, and an index is below the capacity exactly when it lies in an existing segment -/
structure Layout.Ok (lay : Layout) : Prop where
  cap_segsFor : ∀ n, n ≤ lay.index (lay.segsFor n) 0
  cap_mono : ∀ a b, a ≤ b → lay.index a 0 ≤ lay.index b 0
  seg_lt : ∀ n k, n < lay.index k 0 → (lay.segItem n).1 < k
  /-- … and only then -/
  lt_of_seg : ∀ n k, (lay.segItem n).1 < k → n < lay.index k 0
  /-- no segment is empty -/
  cap_strict : ∀ k, lay.index k 0 < lay.index (k + 1) 0

end Momo.Arr.Seg
