import Momo.Extracted
/-
  Model of the lock-free hand-off of detached DataTable rows (C19).

  C++ mirrored (line numbers of /repo/include/momo at the time of writing):
    * DataRow::~DataRow                 DataRow.h:88-101   DestroyRaw; while(true){ headRaw = *mFreeRaws;
                                                           ToBuffer(headRaw, raw); if (CAS_weak(headRaw, raw)) break; }
    * DataRow(DataRow&&)                DataRow.h:78-85    moves mRaw/mFreeRaws, nulls the source (= `handoff`)
    * DataTable::pvAllocateRaw          DataTable.h:1027-1032  if (freeRaws != nullptr) pvDeallocateFreeRaws(); pool.Allocate
    * DataTable::pvDeallocateFreeRaws   DataTable.h:1049-1058  head = freeRaws.exchange(nullptr); while (head) { next = *head;
                                                           pool.Deallocate(head); head = next; }
    * DataTable::pvDestroyRaws          DataTable.h:1034-1041  (Clear / ~DataTable): pvDeallocateFreeRaws, then pvDestroyRaw of every row
    * DataTable::pvDestroyRaw           DataTable.h:1043-1047  DestroyRaw + pool.Deallocate (Remove)
    * NewRow / pvCreateRaw / pvMakeRow  DataTable.h:513-516, 999-1018, 1060-1063
    * TryAdd / Extract / pvExtractRaw   DataTable.h:556-569, 703-712, 1133-1152

  A raw block is identified by a natural number (its address). Threads are numbered; thread 0 is the
  owner thread of the table (the only one that calls table members), threads 1.. only move and destroy
  detached rows. Every thread, including the owner, can run ~DataRow.
  Pointer state: `head` (= Crew::Data::freeRaws), `next` (= the first sizeof(void*) bytes of a block,
  which also hold item data and the pool's own links - hence the `g` "garbage" parameters: whenever the
  block is written by somebody else the model lets an adversary choose the new content of `next`).
  Ghost state: `L` (published chain, head first), `W` (chain taken by the owner and not yet walked),
  `log` (history of life-cycle events, newest first).
  The pool is a parameter: which free block `Allocate` answers (`alloc r`), when it takes fresh memory from the
  memory manager (`grow r`), what it writes into a block it gets back (`g` of `walk` / `remove`).
  `accesses` lists the non-atomic accesses to block memory that belong to the hand-off protocol; the owner's other
  accesses to rows of the table (row numbers, index lookups) are accesses of thread 0 to blocks of `table`, which
  thread 0 holds (`Holds`), and are ordered with everything else by program order of thread 0.
  Not modelled: a `Row` object outliving its table (a precondition of the library), exceptions inside `CreateRaw`
  (the block goes straight back to the pool, DataTable.h:1006-1009: owner-only, no list involved).
  Core Lean only (no Mathlib): this file is linked into the driver.
-/
namespace Momo.Rows

abbrev Row := Nat
abbrev Tid := Nat

/-- program counter of a thread inside `~DataRow` -/
inductive PC where
  | idle
  /-- `DestroyRaw` done, at the top of `while (true)` -/
  | start (r : Row)
  /-- `void* headRaw = *mFreeRaws;` done -/
  | loaded (r : Row) (h : Option Row)
  /-- `MemCopyer::ToBuffer(headRaw, raw);` done, about to `compare_exchange_weak` -/
  | wrote (r : Row) (h : Option Row)
deriving DecidableEq, Repr

/-- program counter of the owner thread inside `pvAllocateRaw` / `pvDestroyRaws` -/
inductive MPC where
  | idle
  /-- about to run `freeRaws.exchange(nullptr)`; `thenAlloc` = called from `pvAllocateRaw` -/
  | needTake (thenAlloc : Bool)
  /-- inside the `while (headRaw != nullptr)` loop of `pvDeallocateFreeRaws` -/
  | walking (thenAlloc : Bool)
  /-- about to run `mRawMemPool.Allocate` -/
  | needAlloc
deriving DecidableEq, Repr

/-- life-cycle events of one block (ghost history) -/
inductive Ev where
  /-- the pool handed the block out for a new row (`pvAllocateRaw`) -/
  | created (r : Row)
  /-- a successful CAS put the block on the free list -/
  | pushed (r : Row)
  /-- the owner's `exchange` took the block off the free list -/
  | taken (r : Row)
  /-- `mRawMemPool.Deallocate(block)` -/
  | reclaimed (r : Row)
deriving DecidableEq, Repr

structure St where
  head  : Option Row
  next  : Row → Option Row
  thr   : List PC
  mpc   : MPC
  cur   : Option Row
  /-- free blocks of the pool (and everything the pool gave back to the memory manager) -/
  pool  : List Row
  /-- rows of the table in order (`mRaws`) -/
  table : List Row
  /-- live detached `Row` objects with the thread holding them -/
  det   : List (Row × Tid)
  L     : List Row
  W     : List Row
  log   : List Ev

def PC.row : PC → Option Row
  | .idle => none | .start r => some r | .loaded r _ => some r | .wrote r _ => some r

/-- blocks inside a running `~DataRow` -/
def inflight (s : St) : List Row := s.thr.filterMap PC.row

def detRows (s : St) : List Row := s.det.map Prod.fst

/-- all blocks the model knows, each block in exactly one place (invariant `Nodup`) -/
def places (s : St) : List Row := inflight s ++ detRows s ++ s.table ++ s.pool ++ s.L ++ s.W

/-- blocks that are handed out by the pool (allocated and not yet given back) -/
def live (s : St) : List Row := inflight s ++ detRows s ++ s.table ++ s.L ++ s.W

def init (threads : Nat) : St :=
  { head := none, next := fun _ => none, thr := List.replicate threads .idle, mpc := .idle, cur := none,
    pool := [], table := [], det := [], L := [], W := [], log := [] }

/-- `mRaws[number] = mRaws.GetBackItem(); mRaws.RemoveBack();` (pvExtractRaw, keepOrder = false) -/
def swapRemove (l : List Row) (i : Nat) : List Row := (l.set i (l.getLast?.getD 0)).dropLast

def removeAt (l : List Row) (i : Nat) (keep : Bool) : List Row :=
  if keep then l.eraseIdx i else swapRemove l i

def setNext (next : Row → Option Row) (r : Row) (v : Option Row) : Row → Option Row :=
  fun x => if x = r then v else next x

inductive Act where
  /-- owner, `pvAllocateRaw`: `if (freeRaws != nullptr)` -/
  | newBegin
  /-- owner, `pvDestroyRaws` (Clear / destructor): unconditional `pvDeallocateFreeRaws` -/
  | takeBegin
  /-- owner: `headRaw = freeRaws.exchange(nullptr)` -/
  | exchange
  /-- owner: `nextRaw = FromBuffer(headRaw); pool.Deallocate(headRaw); headRaw = nextRaw;`
      (`g`: what the pool leaves in the block's first word) -/
  | walk (g : Option Row)
  /-- owner: loop exit `headRaw == nullptr` -/
  | walkEnd
  /-- owner, inside `pool.Allocate`: the pool takes a new buffer from the memory manager (MemPool::pvNewBuffer),
      a block never seen before becomes a free block of the pool (`g`: the pool's link in its first word) -/
  | grow (r : Row) (g : Option Row)
  /-- owner: `pool.Allocate` answers the free block `r`, `CreateRaw` fills it
      (`g`: what item construction leaves in the block's first word) -/
  | alloc (r : Row) (g : Option Row)
  /-- owner: `Add(std::move(row))` -/
  | add (r : Row)
  /-- owner: `Extract(rowNumber, keepRowOrder)` -/
  | extract (i : Nat) (keep : Bool)
  /-- owner: `Remove(rowNumber, keepRowOrder)` = pvDestroyRaw(pvExtractRaw) -/
  | remove (i : Nat) (keep : Bool) (g : Option Row)
  /-- a detached row object is moved from thread `t` to thread `u` (externally synchronised) -/
  | handoff (r : Row) (t u : Tid)
  /-- thread `t` starts `~DataRow` of its row `r`: `DestroyRaw` -/
  | dBegin (t : Tid) (r : Row)
  | dLoad (t : Tid)
  | dWrite (t : Tid)
  /-- `compare_exchange_weak`; `spurious` = the weak CAS fails although the values are equal -/
  | dCas (t : Tid) (spurious : Bool)
deriving Repr

def setPC (s : St) (t : Tid) (pc : PC) : List PC := s.thr.set t pc

/-- the owner thread is not inside `~DataRow` -/
def ownerFree (s : St) : Bool := s.thr[0]? == some PC.idle || s.thr[0]? == none

def step (s : St) : Act → Option St
  | .newBegin =>
      if s.mpc = .idle ∧ ownerFree s then
        some { s with mpc := if s.head = none then .needAlloc else .needTake true }
      else none
  | .takeBegin =>
      if s.mpc = .idle ∧ ownerFree s then some { s with mpc := .needTake false } else none
  | .exchange =>
      match s.mpc with
      | .needTake b =>
          some { s with mpc := .walking b, cur := s.head, head := none, W := s.L, L := [],
                        log := s.L.map Ev.taken ++ s.log }
      | _ => none
  | .walk g =>
      match s.mpc, s.cur with
      | .walking _, some c =>
          some { s with cur := s.next c, next := setNext s.next c g, pool := c :: s.pool, W := s.W.tail,
                        log := Ev.reclaimed c :: s.log }
      | _, _ => none
  | .walkEnd =>
      match s.mpc, s.cur with
      | .walking b, none => some { s with mpc := if b then .needAlloc else .idle }
      | _, _ => none
  | .grow r g =>
      if s.mpc = .needAlloc ∧ r ∉ places s then
        some { s with pool := r :: s.pool, next := setNext s.next r g }
      else none
  | .alloc r g =>
      if s.mpc = .needAlloc ∧ r ∈ s.pool then
        some { s with mpc := .idle, pool := s.pool.erase r, det := (r, 0) :: s.det, next := setNext s.next r g,
                      log := Ev.created r :: s.log }
      else none
  | .add r =>
      if s.mpc = .idle ∧ ownerFree s ∧ (r, 0) ∈ s.det then
        some { s with det := s.det.erase (r, 0), table := s.table ++ [r] }
      else none
  | .extract i keep =>
      if s.mpc = .idle ∧ ownerFree s then
        match s.table[i]? with
        | some r => some { s with table := removeAt s.table i keep, det := (r, 0) :: s.det }
        | none => none
      else none
  | .remove i keep g =>
      if s.mpc = .idle ∧ ownerFree s then
        match s.table[i]? with
        | some r => some { s with table := removeAt s.table i keep, pool := r :: s.pool, next := setNext s.next r g,
                                  log := Ev.reclaimed r :: s.log }
        | none => none
      else none
  | .handoff r t u =>
      if (r, t) ∈ s.det ∧ u < s.thr.length then some { s with det := (r, u) :: s.det.erase (r, t) } else none
  | .dBegin t r =>
      if s.thr[t]? = some .idle ∧ (t = 0 → s.mpc = .idle) ∧ (r, t) ∈ s.det then
        some { s with thr := setPC s t (.start r), det := s.det.erase (r, t) }
      else none
  | .dLoad t =>
      match s.thr[t]? with
      | some (.start r) => some { s with thr := setPC s t (.loaded r s.head) }
      | _ => none
  | .dWrite t =>
      match s.thr[t]? with
      | some (.loaded r h) => some { s with thr := setPC s t (.wrote r h), next := setNext s.next r h }
      | _ => none
  | .dCas t spurious =>
      match s.thr[t]? with
      | some (.wrote r h) =>
          if s.head = h ∧ spurious = false then
            some { s with thr := setPC s t .idle, head := some r, L := r :: s.L, log := Ev.pushed r :: s.log }
          else some { s with thr := setPC s t (.start r) }
      | _ => none

/-- a schedule: actions of all threads in the order the (sequentially consistent) memory sees them -/
def run (s : St) : List Act → Option St
  | [] => some s
  | a :: as => match step s a with
    | some s' => run s' as
    | none => none

/-- non-atomic accesses to block memory performed by an action: (thread, block) -/
def accesses (s : St) : Act → List (Tid × Row)
  | .walk _ => match s.cur with | some c => [(0, c)] | none => []
  | .alloc r _ => [(0, r)]
  | .add r => [(0, r)]
  | .extract i _ => match s.table[i]? with | some r => [(0, r)] | none => []
  | .remove i _ _ => match s.table[i]? with | some r => [(0, r)] | none => []
  | .dBegin t r => [(t, r)]
  | .dWrite t => match s.thr[t]? with | some (.loaded r _) => [(t, r)] | _ => []
  | _ => []

/-- thread `t` may touch block `r` non-atomically -/
def Holds (s : St) (t : Tid) (r : Row) : Prop :=
  (t = 0 ∧ (r ∈ s.pool ∨ r ∈ s.table ∨ r ∈ s.W)) ∨ (r, t) ∈ s.det ∨ (∃ pc, s.thr[t]? = some pc ∧ pc.row = some r)

/-- the chain reachable from `h` by following the blocks' first words -/
def chainFrom (next : Row → Option Row) : Nat → Option Row → List Row
  | 0, _ => []
  | _+1, none => []
  | f+1, some r => r :: chainFrom next f (next r)

/-- `next` agrees with a ghost chain -/
def Linked (next : Row → Option Row) : List Row → Prop
  | [] => True
  | [a] => next a = none
  | a :: b :: rest => next a = some b ∧ Linked next (b :: rest)

/-! ### composite operations used by the driver (sequential runs of the small steps) -/

def stepD (s : St) (a : Act) : St := (step s a).getD s

/-- `pvDeallocateFreeRaws` run to completion by the owner (from `needTake`) -/
def takeAllFrom (s : St) (g : Option Row) : St :=
  let s1 := stepD s .exchange
  let rec go (fuel : Nat) (s : St) : St :=
    match fuel with
    | 0 => s
    | f+1 => match s.cur with
      | some _ => go f (stepD s (.walk g))
      | none => s
  stepD (go (s1.W.length + 1) s1) .walkEnd

/-- `NewRow()` on the owner thread with the pool answering block `r` -/
def newRow (s : St) (r : Row) (g : Option Row) : Option St :=
  match step s .newBegin with
  | none => none
  | some s1 =>
    let s2 := if s1.mpc = .needAlloc then s1 else takeAllFrom s1 g
    let s3 := if r ∈ s2.pool then s2 else stepD s2 (.grow r g)
    step s3 (.alloc r g)

/-- a complete `~DataRow` on thread `t` without interference -/
def dispose (s : St) (t : Tid) (r : Row) : Option St :=
  run s [.dBegin t r, .dLoad t, .dWrite t, .dCas t false]

/-- blocks allocated from the pool = `mRawMemPool.GetAllocateCount()` -/
def allocCount (s : St) : Nat := (live s).length

end Momo.Rows
