/-
  The ledger of memory blocks and element objects (C03) — the event machine that judges every history.

  What is observed of a container (real or modelled) is a list of events:
    alloc m b n      manager (identity class) `m` handed out block `b` of `n` bytes      MemManagerProxy::Allocate
    dealloc m b n    block `b` given back through a manager of class `m`, size `n`       MemManagerProxy::Deallocate
    construct e      an element object `e` comes into existence (any constructor)        ObjectManager::Create/Copy/Move
    destroy e        the destructor of `e` runs                                          ObjectManager::Destroy
    relocate s d     trivial relocation: `s` ceases to exist and `d` exists, no          ObjectRelocator::Relocate (memcpy)
                     constructor / destructor runs
    use e            the value of `e` is read or written (source of a copy / move, assignment, comparison)
    touch b off len  bytes `[off, off+len)` of block `b` are read or written (as far as the observer sees it)

  Manager classes: two managers are *equal* (`MemManagerProxy::IsEqual`) iff they have the same class;
  copies and moved instances of a manager carry the class of the original.

  `step` accepts or rejects one event; a rejected event is a violation of C03:
    double free / free of an unknown block (`deallocNotLive`), free with a size other than the requested one,
    free through a non-equal manager, a block id handed out while live, construction over a live object,
    destruction / use / relocation of an object that is not alive (destroyed or relocated-from before, or
    never constructed), relocation onto a live object, touching a dead block or bytes outside the block.
  `St.outstanding` is what is left at the end: live blocks and live elements.

  Block ids are of an arbitrary type `β` with decidable equality (`Nat` serial numbers in the harness,
  `Int` addresses in the pool model). Core Lean only (linked into the driver).
-/
namespace Momo.Ledger

inductive Ev (β : Type) where
  | alloc (m : Nat) (b : β) (n : Nat)
  | dealloc (m : Nat) (b : β) (n : Nat)
  | construct (e : Nat)
  | destroy (e : Nat)
  | relocate (s d : Nat)
  | use (e : Nat)
  | touch (b : β) (off len : Nat)
deriving DecidableEq, Repr

inductive Reason where
  | allocLiveId          -- the manager handed out a block that is still live
  | deallocNotLive       -- double free, or free of a block this ledger never handed out
  | deallocWrongManager  -- given back through a manager that is not equal to the allocating one
  | deallocWrongSize     -- given back with a size different from the requested one
  | constructOverLive    -- an object is constructed where a live object is
  | destroyNotLive       -- destroyed twice / destroyed after relocation / never constructed
  | useNotLive           -- used after destruction or relocation
  | relocateSrcNotLive
  | relocateDstLive
  | relocateSelf
  | touchDeadBlock       -- memory outside live blocks
  | touchOutOfBounds     -- beyond the end of a live block
deriving DecidableEq, Repr

def Reason.text : Reason → String
  | .allocLiveId => "alloc-live-id"
  | .deallocNotLive => "dealloc-not-live"
  | .deallocWrongManager => "dealloc-wrong-manager"
  | .deallocWrongSize => "dealloc-wrong-size"
  | .constructOverLive => "construct-over-live"
  | .destroyNotLive => "destroy-not-live"
  | .useNotLive => "use-not-live"
  | .relocateSrcNotLive => "relocate-src-not-live"
  | .relocateDstLive => "relocate-dst-live"
  | .relocateSelf => "relocate-self"
  | .touchDeadBlock => "touch-dead-block"
  | .touchOutOfBounds => "touch-out-of-bounds"

/-- live blocks: id ↦ (manager class, size); newest first -/
abbrev Blocks (β : Type) := List (β × Nat × Nat)

variable {β : Type} [DecidableEq β]

def findB (b : β) : Blocks β → Option (Nat × Nat)
  | [] => none
  | x :: r => if x.1 = b then some x.2 else findB b r

def eraseB (b : β) (l : Blocks β) : Blocks β := l.filter (fun x => decide (x.1 ≠ b))

def memE (e : Nat) : List Nat → Bool
  | [] => false
  | x :: r => if x = e then true else memE e r

def eraseE (e : Nat) (l : List Nat) : List Nat := l.filter (fun x => decide (x ≠ e))

structure St (β : Type) where
  blocks : Blocks β := []
  elems : List Nat := []     -- live element objects, newest first

def St.init : St β := {}

/-- (outstanding blocks, live elements) -/
def St.outstanding (s : St β) : Nat × Nat := (s.blocks.length, s.elems.length)
def St.clean (s : St β) : Bool := s.blocks.isEmpty && s.elems.isEmpty

def step (s : St β) : Ev β → Except Reason (St β)
  | .alloc m b n =>
    match findB b s.blocks with
    | some _ => .error .allocLiveId
    | none => .ok { s with blocks := (b, m, n) :: s.blocks }
  | .dealloc m b n =>
    match findB b s.blocks with
    | none => .error .deallocNotLive
    | some (m0, n0) =>
      if m0 ≠ m then .error .deallocWrongManager
      else if n0 ≠ n then .error .deallocWrongSize
      else .ok { s with blocks := eraseB b s.blocks }
  | .construct e =>
    if memE e s.elems then .error .constructOverLive else .ok { s with elems := e :: s.elems }
  | .destroy e =>
    if memE e s.elems then .ok { s with elems := eraseE e s.elems } else .error .destroyNotLive
  | .relocate a d =>
    if a = d then .error .relocateSelf
    else if !memE a s.elems then .error .relocateSrcNotLive
    else if memE d s.elems then .error .relocateDstLive
    else .ok { s with elems := d :: eraseE a s.elems }
  | .use e =>
    if memE e s.elems then .ok s else .error .useNotLive
  | .touch b off len =>
    match findB b s.blocks with
    | none => .error .touchDeadBlock
    | some (_, n0) => if off + len ≤ n0 then .ok s else .error .touchOutOfBounds

/-- the monitor over a whole trace: `none` = some event was rejected -/
def run (s : St β) : List (Ev β) → Option (St β)
  | [] => some s
  | ev :: r =>
    match step s ev with
    | .ok s1 => run s1 r
    | .error _ => none

/-- position and reason of the first rejected event -/
def firstReject (s : St β) : List (Ev β) → Nat → Option (Nat × Reason)
  | [], _ => none
  | ev :: r, i =>
    match step s ev with
    | .ok s1 => firstReject s1 r (i + 1)
    | .error why => some (i, why)

/-- the monitor's verdict on a complete history: accepted and nothing left -/
def balanced (tr : List (Ev β)) : Bool :=
  match run St.init tr with
  | some s => s.clean
  | none => false

end Momo.Ledger
