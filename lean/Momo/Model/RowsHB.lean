import Momo.Model.Rows
/-
  Happens-before instrumentation of the row hand-off model (C19): a vector-clock race detector in the style of
  FastTrack / ThreadSanitizer run alongside `Momo.Rows.step`.

  * every thread `t` carries a vector clock `vc t`; the atomic `freeRaws` carries the clock `headVC` released into it;
  * atomic operations on `freeRaws` are given only acquire / release strength (the source uses the default
    `memory_order_seq_cst`, which is at least that): a load (also the load of a failed CAS) acquires, a successful
    CAS and the `exchange` are acquire+release read-modify-writes (they continue the release sequence, so the
    released clock is the join);
  * moving a detached row object from thread `t` to thread `u` is synchronised by the user (queue, thread start, …):
    `u` acquires what `t` released;
  * every non-atomic access to a block (`Momo.Rows.accesses`) is treated as a write: it races unless the previous
    access to the same block happens-before it, i.e. unless the epoch `(u, c)` of the previous access satisfies
    `c ≤ vc t u` for the accessing thread `t`.
  Core Lean only.
-/
namespace Momo.Rows

abbrev VC := Tid → Nat

def VC.join (a b : VC) : VC := fun t => max (a t) (b t)
def VC.tick (a : VC) (t : Tid) : VC := fun u => if u = t then a u + 1 else a u

structure HB where
  vc : Tid → VC
  headVC : VC
  /-- epoch (thread, that thread's clock) of the last non-atomic access to a block -/
  last : Row → Option (Tid × Nat)

def HB.init : HB := { vc := fun t u => if u = t then 1 else 0, headVC := fun _ => 0, last := fun _ => none }

def HB.setVC (hb : HB) (t : Tid) (v : VC) : Tid → VC := fun u => if u = t then v else hb.vc u

/-- atomic load with acquire semantics by thread `t` -/
def HB.acquire (hb : HB) (t : Tid) : HB := { hb with vc := hb.setVC t ((hb.vc t).join hb.headVC) }

/-- successful read-modify-write (acquire + release) by thread `t` -/
def HB.rmw (hb : HB) (t : Tid) : HB :=
  let v := (hb.vc t).join hb.headVC
  { hb with vc := hb.setVC t (v.tick t), headVC := v }

/-- user-level synchronisation: `t` releases, `u` acquires (hand-over of a row object) -/
def HB.sync (hb : HB) (t u : Tid) : HB :=
  let vt := hb.vc t
  let hb1 : HB := { hb with vc := hb.setVC t (vt.tick t) }
  { hb1 with vc := hb1.setVC u ((hb1.vc u).join vt) }

/-- non-atomic access of thread `t` to block `r` -/
def HB.touch (hb : HB) (t : Tid) (r : Row) : HB :=
  { hb with last := fun x => if x = r then some (t, hb.vc t t) else hb.last x }

/-- the accesses of one action (at most one in this model) -/
def HB.touchAll (hb : HB) : List (Tid × Row) → HB
  | [(t, r)] => hb.touch t r
  | _ => hb

/-- the previous access to `r` happens-before an access by thread `t` now -/
def HB.ordered (hb : HB) (t : Tid) (r : Row) : Bool :=
  match hb.last r with
  | none => true
  | some (u, c) => decide (c ≤ hb.vc t u)

/-- no access of action `a` (enabled in `s`) races with an earlier access -/
def raceFree (s : St) (hb : HB) (a : Act) : Bool := (accesses s a).all (fun p => hb.ordered p.1 p.2)

/-- clocks after action `a` (which is enabled in `s`) -/
def hbStep (s : St) (hb : HB) : Act → HB
  | .newBegin => hb.acquire 0
  | .exchange => hb.rmw 0
  | .dLoad t => hb.acquire t
  | .dCas t sp =>
      match s.thr[t]? with
      | some (.wrote _ h) => if s.head = h ∧ sp = false then hb.rmw t else hb.acquire t
      | _ => hb
  | .handoff _ t u => hb.sync t u
  | .grow r _ => hb.touch 0 r        -- fresh memory from the memory manager: first access, nothing to race with
  | a => hb.touchAll (accesses s a)

/-- a schedule run together with the race detector: `none` if some action is not enabled, otherwise the final state,
the final clocks and whether any step raced -/
def runHB (s : St) (hb : HB) (racy : Bool) : List Act → Option (St × HB × Bool)
  | [] => some (s, hb, racy)
  | a :: as => match step s a with
    | some s' => runHB s' (hbStep s hb a) (racy || !raceFree s hb a) as
    | none => none

end Momo.Rows
