import Momo.Model.BTree
import Momo.Model.Arr
/-
  Fault-parametric layer over the B-tree model (C04 / C10 for `momo::TreeSet` / `momo::TreeMap`).

  `Momo/Model/BTree.lean` says what every operation does when nothing fails. This file says what the same code does
  when a step fails: every fallible step of TreeSet.h consults an explicit *fault schedule* (`Sched`), a ledger counts
  what is alive (nodes, items, the heap blocks of the Relocator's bookkeeping arrays, node-params and crew blocks), and an
  operation that runs to its end commits exactly the result of the fault-free model.

  Fallible steps and where they sit in the source (file:line of /repo/include/momo at the time of writing):
    * `TreeTraits::IsLess`                    one `cmp` step per call of the functor: pvFindFirst(node, pred) linear 1150-1161 and
                                              binary 1163-1175, pvIsGreater 1075-1078, pvInsert 1201, Insert(range) 753/755,
                                              pvIsOrdered 1080-1087, pvMergeToLinear 1611/1613
    * memory manager                          one `alloc` step per call of `MemManager::Allocate`: pvCreateNodeParams 1063-1067,
                                              Node::Create (TreeNode.h:143-160; exact for pools with one block per buffer), the
                                              growth of the four `NestedArrayIntCap<4, …>` of the Relocator (TreeSet.h:358-359;
                                              Array.h: one Allocate per growth for a manager without Reallocate), the crew block
                                              of a copy (SetUtility.h SetCrew)
    * item creator / copy constructor         one `ctor` step per construction that may throw: `Creator<const Item&>`,
                                              the copies of `ObjectManager::pvRelocateExec(…, false_type)` (ObjectManager.h:516-535),
                                              `ObjectRelocator::Relocate` of a not-nothrow-relocatable item (= copy + destroy)
    * item replacement                        one `repl` step per assignment that may throw: `ObjectManager::Replace` for items that
                                              are not nothrow-anyway-assignable (ObjectManager.h:335-340, 446-451); two for
                                              `MapKeyValueTraits::pvReplaceUnsafe` (MapUtility.h:379-387, documented exception 5 of
                                              TreeMap.h:226-229: the second one failing leaves the removed element's value changed)
    * the user's filter of Remove(filter)     one `filt` step per call

  What is mirrored statement by statement:
    * Relocator (TreeSet.h:346-499): CreateNode (Reserve the slot in mNewNodes, Node::Create, AddBackNogrow), AddSegment,
      GrowLeafNode, SplitNode / pvSplitNode, RelocateCreate (two null segments, ItemTraits::RelocateCreate, Swap of
      mNewNodes / mOldNodes), ~Relocator (destroys what is registered in mNewNodes)        -> `Reloc`, `PStep`, `addPlan`
    * pvAdd / pvAddFirst / pvAddGrow / pvAddSplit (1208-1324)                              -> `addNode`, `addF`
    * pvInsert (1194-1206)                                                                 -> `insertF`
    * pvRemove / pvExtract / pvRemoveInternal / pvDestroyInternal (1326-1390, 1472-1482), Node::Remove with its shift-back
      (TreeNode.h:332-358), pvRebalance whose `catch (...)` swallows a failed node merge (1517-1590)   -> `removeAtF`, `rebalanceF`
    * copy constructor / pvCopy with its roll-back (538-553, 1017-1048)                    -> `copyF`
    * Insert(range) (734-759), Remove(filter) (890-904), MergeTo / pvMergeTo / pvMergeToLinear / pvMergeFast with its roll-back
      (936-984, 1592-1711)                                                                 -> `insertRangeF`, `removeIfF`, `mergeToF`

  Node releases of a *successful* removal / fast merge (pvDestroy of an empty subtree, node2->Destroy of a node merge, root
  collapse: all noexcept) are booked as the difference of the tree's node counts; everything that happens before the last
  fallible step of an operation is booked event by event.

  Core Lean only (linked into the driver).
-/
namespace Momo.BTreeF
open Momo Momo.BTree Momo.BTree.Node

variable {α : Type}

/-! ### schedule, world, ledger -/

/-- a fault schedule: for each kind of fallible step, which of its executions (counted from the start of the world) throw -/
structure Sched where
  cmp : Nat → Bool
  alloc : Nat → Bool
  ctor : Nat → Bool
  repl : Nat → Bool
  filt : Nat → Bool

/-- no step fails -/
def Sched.clean : Sched := ⟨fun _ => false, fun _ => false, fun _ => false, fun _ => false, fun _ => false⟩

/-- what is alive -/
structure Ledger where
  /-- leaf nodes -/
  leaves : Int := 0
  /-- internal nodes -/
  inners : Int := 0
  /-- constructed item objects (in nodes, in a node handle, temporaries of a relocation) -/
  items : Int := 0
  /-- heap blocks of the Relocator's arrays -/
  aux : Int := 0
  /-- `NodeParams` blocks -/
  params : Int := 0
  /-- crew blocks -/
  crews : Int := 0
deriving DecidableEq, Repr, Inhabited

/-- the world outside the containers: how many steps of each kind ran so far, and the ledger -/
structure W where
  cmpN : Nat := 0
  allocN : Nat := 0
  ctorN : Nat := 0
  replN : Nat := 0
  filtN : Nat := 0
  led : Ledger := {}
deriving Repr, Inhabited

def W.tickCmp (w : W) : W := { w with cmpN := w.cmpN + 1 }
def W.tickAlloc (w : W) : W := { w with allocN := w.allocN + 1 }
def W.tickCtor (w : W) : W := { w with ctorN := w.ctorN + 1 }
def W.tickRepl (w : W) : W := { w with replN := w.replN + 1 }
def W.tickFilt (w : W) : W := { w with filtN := w.filtN + 1 }

def W.addLeaves (w : W) (d : Int) : W := { w with led := { w.led with leaves := w.led.leaves + d } }
def W.addInners (w : W) (d : Int) : W := { w with led := { w.led with inners := w.led.inners + d } }
def W.addItems (w : W) (d : Int) : W := { w with led := { w.led with items := w.led.items + d } }
def W.addAux (w : W) (d : Int) : W := { w with led := { w.led with aux := w.led.aux + d } }
def W.addParams (w : W) (d : Int) : W := { w with led := { w.led with params := w.led.params + d } }
def W.addCrews (w : W) (d : Int) : W := { w with led := { w.led with crews := w.led.crews + d } }

/-- a node of the given kind comes into / goes out of existence -/
def W.addNode (w : W) (isLeaf : Bool) (d : Int) : W := if isLeaf then w.addLeaves d else w.addInners d

/-- item category and container parameters the fault behaviour depends on -/
structure ICfg (α : Type) where
  /-- `ItemTraits::isNothrowRelocatable` -/
  reloc : Bool
  /-- `ObjectManager<Item>::isNothrowAnywayAssignable` (for a map: of the key or of the value) -/
  assign : Bool
  /-- map whose key and value are both not nothrow-anyway-assignable: `Replace` is `pvReplaceUnsafe` (TreeMap.h exception 5) -/
  unsafeRepl : Bool := false
  /-- the destination of `pvReplaceUnsafe src dst` when its second assignment throws: the key of `dst`, the value of `src` -/
  mix : α → α → α := fun _ d => d
  /-- the crew keeps its data in a heap block (`SetCrew<…, tUsePtr = true>`) -/
  crewAlloc : Bool := true
  /-- `!std::is_empty<TreeTraits>::value`: `MergeTo(TreeSet&)` always takes `pvMergeTo` -/
  statefulTraits : Bool := false

/-! ### leaf count (internal nodes: `Node.innerCount`) -/

mutual
  /-- number of leaf nodes = sum of `GetLeafMemPool(i).GetAllocateCount()` -/
  def leafCount : Node α → Nat
    | leaf _ _ => 1
    | inner _ cs => leafCountL cs
  def leafCountL : List (Node α) → Nat
    | [] => 0
    | c :: cs => leafCount c + leafCountL cs
end

/-- the container with what the fault behaviour needs besides the tree: whether `mNodeParams` exists -/
structure FTree (α : Type) where
  tree : Tree α := {}
  params : Bool := false

def FTree.leaves (ft : FTree α) : Nat := match ft.tree.root with | some r => leafCount r | none => 0
def FTree.inners (ft : FTree α) : Nat := match ft.tree.root with | some r => innerCount r | none => 0

/-- what a container owns -/
def FTree.own (ft : FTree α) : Ledger :=
  { leaves := ft.leaves, inners := ft.inners, items := ft.tree.toList.length, aux := 0,
    params := if ft.params then 1 else 0, crews := 0 }

/-- componentwise sum / difference of ledgers -/
def Ledger.add (a b : Ledger) : Ledger :=
  { leaves := a.leaves + b.leaves, inners := a.inners + b.inners, items := a.items + b.items, aux := a.aux + b.aux,
    params := a.params + b.params, crews := a.crews + b.crews }
def Ledger.sub (a b : Ledger) : Ledger :=
  { leaves := a.leaves - b.leaves, inners := a.inners - b.inners, items := a.items - b.items, aux := a.aux - b.aux,
    params := a.params - b.params, crews := a.crews - b.crews }
instance : Add Ledger := ⟨Ledger.add⟩
instance : Sub Ledger := ⟨Ledger.sub⟩

/-- the nodes and the params block of a container (what `own` counts besides the items) -/
def FTree.nodeLed (ft : FTree α) : Ledger :=
  { leaves := ft.leaves, inners := ft.inners, params := if ft.params then 1 else 0 }

/-- `n` item objects -/
def Ledger.ofItems (n : Int) : Ledger := { items := n }

/-! ### search with a throwing comparison -/

/-- `while (!itemPred(*node->GetItemPtr(index))) ++index;` — one functor call per visited item -/
def scanF (S : Sched) (p : α → Bool) : List α → Nat → W → Option Nat × W
  | [], i, w => (some i, w)
  | x :: xs, i, w =>
    if S.cmp w.cmpN then (none, w.tickCmp)
    else if p x then (some i, w.tickCmp) else scanF S p xs (i + 1) w.tickCmp

/-- `pvFindFirst(node, pred)`, linear branch: the last item first, then the scan from the front -/
def findLinF (S : Sched) (p : α → Bool) (items : List α) (w : W) : Option Nat × W :=
  match items.getLast? with
  | none => (some 0, w)
  | some l =>
    if S.cmp w.cmpN then (none, w.tickCmp)
    else if p l then scanF S p items 0 w.tickCmp else (some items.length, w.tickCmp)

/-- the binary-search loop, one functor call per round -/
def binLoopF (S : Sched) (p : α → Bool) (items : List α) : Nat → Nat → Nat → W → Option Nat × W
  | 0, lo, _, w => (some lo, w)
  | fuel+1, lo, hi, w =>
    if lo < hi then
      match items[(lo + hi) / 2]? with
      | some x =>
        if S.cmp w.cmpN then (none, w.tickCmp)
        else if p x then binLoopF S p items fuel lo ((lo + hi) / 2) w.tickCmp
        else binLoopF S p items fuel ((lo + hi) / 2 + 1) hi w.tickCmp
      | none => (some lo, w)
    else (some lo, w)

def findInF (S : Sched) (linear : Bool) (p : α → Bool) (items : List α) (w : W) : Option Nat × W :=
  if linear then findLinF S p items w else binLoopF S p items items.length 0 items.length w

mutual
  /-- `pvFindFirst(pred)` below one node; outer `none` = the functor threw -/
  def findFirstF (S : Sched) (linear : Bool) (p : α → Bool) : Node α → W → Option (Option Pos) × W
    | leaf _ items, w =>
      match findInF S linear p items w with
      | (none, w') => (none, w')
      | (some i, w') => (some (if i < items.length then some ⟨[], i⟩ else none), w')
    | inner items cs, w =>
      match findInF S linear p items w with
      | (none, w') => (none, w')
      | (some i, w') =>
        match findFirstAtF S linear p cs i w' with
        | (none, w'') => (none, w'')
        | (some (some q), w'') => (some (some ⟨i :: q.path, q.idx⟩), w'')
        | (some none, w'') => (some (if i < items.length then some ⟨[], i⟩ else none), w'')
  def findFirstAtF (S : Sched) (linear : Bool) (p : α → Bool) : List (Node α) → Nat → W → Option (Option Pos) × W
    | [], _, w => (some none, w)
    | c :: _, 0, w => findFirstF S linear p c w
    | _ :: cs, i+1, w => findFirstAtF S linear p cs i w
end

/-- `pvFindFirst(pred)` of the container -/
def findPosF (S : Sched) (linear : Bool) (p : α → Bool) (t : Tree α) (w : W) : Option Pos × W :=
  match t.root with
  | none => (some ⟨[], 0⟩, w)
  | some r =>
    match findFirstF S linear p r w with
    | (none, w') => (none, w')
    | (some q, w') => (some (q.getD (Node.endPos r)), w')

/-- `pvIsGreater(iter, key)`: `iter == GetEnd() || IsLess(key, *iter)` -/
def isGreaterF (S : Sched) (lt : α → α → Bool) (t : Tree α) (pos : Pos) (k : α) (w : W) : Option Bool × W :=
  if pos = t.endPos then (some true, w)
  else match t.elemAt? pos with
    | some x => if S.cmp w.cmpN then (none, w.tickCmp) else (some (lt k x), w.tickCmp)
    | none => (some true, w)

/-! ### the Relocator -/

/-- `NestedArrayIntCap<n, …>`: count, capacity, whether the items live in a heap block -/
structure IArr where
  count : Nat := 0
  cap : Nat
  heap : Bool := false
deriving Repr, DecidableEq

/-- `pvGrow`: one `Allocate` for the new block; the old heap block (if any) is released after the relocation -/
def IArr.grow (S : Sched) (a : IArr) (minCap : Nat) (reserve : Bool) (w : W) : Bool × IArr × W :=
  if S.alloc w.allocN then (true, a, w.tickAlloc)
  else (false, { a with cap := Arr.growCapacity true a.cap minCap reserve false, heap := true },
        if a.heap then w.tickAlloc else w.tickAlloc.addAux 1)

/-- `AddBack` -/
def IArr.addBack (S : Sched) (a : IArr) (w : W) : Bool × IArr × W :=
  if a.count < a.cap then (false, { a with count := a.count + 1 }, w)
  else match a.grow S (a.count + 1) false w with
    | (true, a', w') => (true, a', w')
    | (false, a', w') => (false, { a' with count := a'.count + 1 }, w')

/-- `Reserve(n)` -/
def IArr.reserve (S : Sched) (a : IArr) (n : Nat) (w : W) : Bool × IArr × W :=
  if n ≤ a.cap then (false, a, w) else a.grow S n true w

/-- the state of a `Relocator` -/
structure Reloc where
  oldN : IArr := { cap := Extracted.treeRelocNodesIntCap }
  newN : IArr := { cap := Extracted.treeRelocNodesIntCap }
  src : IArr := { cap := Extracted.treeRelocSegmentsIntCap }
  dst : IArr := { cap := Extracted.treeRelocSegmentsIntCap }
  /-- nodes registered in `mNewNodes`, by kind -/
  newLeaves : Nat := 0
  newInners : Nat := 0
  /-- nodes registered in `mOldNodes`, by kind -/
  oldLeaves : Nat := 0
  oldInners : Nat := 0
  /-- `mItemCount` -/
  itemCount : Nat := 0
deriving Repr

def b2i (b : Bool) : Int := if b then 1 else 0

/-- heap blocks held by the four arrays -/
def Reloc.heapBlocks (r : Reloc) : Int := b2i r.oldN.heap + b2i r.newN.heap + b2i r.src.heap + b2i r.dst.heap

/-- the calls a `pvAdd` makes on its Relocator before `RelocateCreate` -/
inductive PStep where
  /-- `mOldNodes.AddBack(node)` -/
  | old (leaf : Bool)
  /-- `CreateNode(isLeaf, count)` -/
  | create (leaf : Bool)
  /-- `AddSegment(…, itemCount)` -/
  | seg (n : Nat)
deriving Repr, DecidableEq

/-- one call; `true` = it threw (the state is the Relocator as the exception leaves it) -/
def Reloc.step (S : Sched) : PStep → Reloc → W → Bool × Reloc × W
  | .old lf, r, w =>
    match r.oldN.addBack S w with
    | (true, a, w') => (true, { r with oldN := a }, w')
    | (false, a, w') =>
      (false, { r with oldN := a, oldLeaves := r.oldLeaves + (if lf then 1 else 0),
                       oldInners := r.oldInners + (if lf then 0 else 1) }, w')
  | .create lf, r, w =>
    -- mNewNodes.Reserve(mNewNodes.GetCount() + 1); Node::Create(…); mNewNodes.AddBackNogrow(node)
    match r.newN.reserve S (r.newN.count + 1) w with
    | (true, a, w') => (true, { r with newN := a }, w')
    | (false, a, w') =>
      if S.alloc w'.allocN then (true, { r with newN := a }, w'.tickAlloc)
      else (false, { r with newN := { a with count := a.count + 1 },
                            newLeaves := r.newLeaves + (if lf then 1 else 0),
                            newInners := r.newInners + (if lf then 0 else 1) },
            w'.tickAlloc.addNode lf 1)
  | .seg n, r, w =>
    if n = 0 then (false, r, w)
    else match r.src.addBack S w with
      | (true, a, w') => (true, { r with src := a }, w')
      | (false, a, w') =>
        match r.dst.addBack S w' with
        | (true, b, w'') => (true, { r with src := a, dst := b }, w'')
        | (false, b, w'') => (false, { r with src := a, dst := b, itemCount := r.itemCount + n }, w'')

def Reloc.run (S : Sched) : List PStep → Reloc → W → Bool × Reloc × W
  | [], r, w => (false, r, w)
  | s :: ss, r, w =>
    match r.step S s w with
    | (true, r', w') => (true, r', w')
    | (false, r', w') => Reloc.run S ss r' w'

/-- `~Relocator`: every node registered in `mNewNodes` is destroyed, the arrays release their heap blocks -/
def Reloc.destroy (r : Reloc) (w : W) : W :=
  ((w.addLeaves (-(r.newLeaves : Int))).addInners (-(r.newInners : Int))).addAux (-r.heapBlocks)

/-- `mNewNodes.Swap(mOldNodes)` at the end of `RelocateCreate` -/
def Reloc.commit (r : Reloc) : Reloc :=
  { r with oldN := r.newN, newN := r.oldN, newLeaves := r.oldLeaves, newInners := r.oldInners,
           oldLeaves := r.newLeaves, oldInners := r.newInners }

/-- the copying loop of `pvRelocateExec(…, false_type)`: `(copies made, threw, world)` -/
def copyLoop (S : Sched) : Nat → W → Nat × Bool × W
  | 0, w => (0, false, w)
  | n+1, w =>
    if S.ctor w.ctorN then (0, true, w.tickCtor)
    else match copyLoop S n (w.tickCtor.addItems 1) with
      | (d, t, w') => (d + 1, t, w')

/-- `Relocator::RelocateCreate(creator, newItem)`. The creator answers `(threw, its state, world)`.
    Nothrow-relocatable items: the creator runs first, the relocations cannot fail. Otherwise every item is copied to its
    destination, then the creator runs; a failure destroys the copies made, success destroys the sources. -/
def Reloc.relocateCreate {σ : Type} (S : Sched) (ic : ICfg α) (r : Reloc) (creator : W → Bool × σ × W) (s0 : σ) (w : W) :
    Bool × σ × Reloc × W :=
  match r.src.addBack S w with
  | (true, a, w1) => (true, s0, { r with src := a }, w1)
  | (false, a, w1) =>
    match r.dst.addBack S w1 with
    | (true, b, w2) => (true, s0, { r with src := a, dst := b }, w2)
    | (false, b, w2) =>
      if ic.reloc then
        match creator w2 with
        | (t, s, w3) => (t, s, { r with src := a, dst := b }, w3)
      else
        match copyLoop S r.itemCount w2 with
        | (d, true, w3) => (true, s0, { r with src := a, dst := b }, w3.addItems (-(d : Int)))
        | (_, false, w3) =>
          match creator w3 with
          | (t, s, w4) => (t, s, { r with src := a, dst := b }, w4.addItems (-(r.itemCount : Int)))

/-- `Relocator::pvSplitNode` for a node with `n` items and the new item at `i` -/
def splitSteps (lf : Bool) (n i : Nat) : List PStep :=
  if i ≤ splitIdx n i then
    [.old lf, .create lf, .create lf, .seg i, .seg (splitIdx n i - i), .seg (n - splitIdx n i - 1)]
  else
    [.old lf, .create lf, .create lf, .seg (splitIdx n i), .seg (i - splitIdx n i - 1), .seg (n - i)]

/-- the Relocator calls of `pvAddGrow` / `pvAddSplit` below a node for the leaf slot `(path, i)`, bottom-up, and whether the
    split reaches the parent of the node -/
def addPlan (cfg : Cfg) : Node α → List Nat → Nat → List PStep × Bool
  | leaf cap items, _, i =>
    if items.length < cap then ([], false)
    else if items.length < cfg.maxCap then
      ([.old true, .create true, .seg i, .seg (items.length - i)], false)   -- GrowLeafNode
    else (splitSteps true items.length i, true)
  | inner _ _, [], _ => ([], false)
  | inner items cs, c :: p, i =>
    match cs[c]? with
    | none => ([], false)
    | some ch =>
      match addPlan cfg ch p i with
      | (st, false) => (st, false)
      | (st, true) =>
        if items.length < cfg.maxCap then (st ++ [.seg 1], false)
        else (st ++ splitSteps false items.length c ++ [.seg 1], true)

/-- … of the whole tree: a split of the root makes `CreateNode(false, 0)` and one more segment -/
def addPlanRoot (cfg : Cfg) (r : Node α) (path : List Nat) (i : Nat) : List PStep :=
  match addPlan cfg r path i with
  | (st, false) => st
  | (st, true) => st ++ [.create false, .seg 1]

/-- does `pvAdd` at this (normalised) position need the Relocator: `itemCount >= node->GetCapacity()` -/
def needsReloc (r : Node α) (np : Pos) : Bool :=
  match nodeAt? r np.path with
  | some (leaf cap items) => decide (cap ≤ items.length)
  | _ => false

/-! ### pvAdd -/

/-- `pvAdd(iter, creator)` on a non-null root. `(threw, creator state, new root, iterator, world)`; when it threw the root is
    the old one. -/
def addNode {σ : Type} (S : Sched) (ic : ICfg α) (cfg : Cfg) (r : Node α) (pos : Pos) (x : α)
    (creator : W → Bool × σ × W) (s0 : σ) (w : W) : Bool × σ × Node α × Pos × W :=
  if needsReloc r (normLeaf r pos) then
    match Reloc.run S (addPlanRoot cfg r (normLeaf r pos).path (normLeaf r pos).idx) {} w with
    | (true, rl, w1) => (true, s0, r, pos, rl.destroy w1)
    | (false, rl, w1) =>
      match rl.relocateCreate S ic creator s0 w1 with
      | (true, s, rl', w2) => (true, s, r, pos, rl'.destroy w2)
      | (false, s, rl', w2) => (false, s, (addRoot cfg x r pos).1, (addRoot cfg x r pos).2, rl'.commit.destroy w2)
  else
    -- the creator constructs into the free slot behind the last item; AcceptBackItem cannot fail
    match creator w with
    | (true, s, w1) => (true, s, r, pos, w1)
    | (false, s, w1) => (false, s, (addRoot cfg x r pos).1, (addRoot cfg x r pos).2, w1)

/-- `if (mNodeParams == nullptr) mNodeParams = pvCreateNodeParams();` — `(threw, container, world)` -/
def ensureParams (S : Sched) (ft : FTree α) (w : W) : Bool × FTree α × W :=
  if ft.params then (false, ft, w)
  else if S.alloc w.allocN then (true, ft, w.tickAlloc)
  else (false, { ft with params := true }, w.tickAlloc.addParams 1)

/-- `pvAdd` / `pvAddFirst` of the container: `(threw, creator state, container, iterator, world)` -/
def addF {σ : Type} (S : Sched) (ic : ICfg α) (cfg : Cfg) (ft : FTree α) (pos : Pos) (x : α)
    (creator : W → Bool × σ × W) (s0 : σ) (w : W) : Bool × σ × FTree α × Pos × W :=
  match ft.tree.root with
  | some r =>
    (match addNode S ic cfg r pos x creator s0 w with
     | (true, s, _, _, w') => (true, s, ft, pos, w')
     | (false, s, r', p, w') => (false, s, { ft with tree := { root := some r', count := ft.tree.count + 1 } }, p, w'))
  | none =>
    -- pvAddFirst
    (match ensureParams S ft w with
     | (true, ft1, w1) => (true, s0, ft1, pos, w1)
     | (false, ft1, w1) =>
       -- `mRootNode = Node::Create(*mNodeParams, true, 0);`
       if S.alloc w1.allocN then (true, s0, ft1, pos, w1.tickAlloc)
       else
         (match addNode S ic cfg (leaf (leafCap cfg 0 0) []) ⟨[], 0⟩ x creator s0 (w1.tickAlloc.addLeaves 1) with
          | (true, s, _, _, w') =>
            -- `catch (...) { mRootNode->Destroy(*mNodeParams); mRootNode = nullptr; throw; }`
            (true, s, ft1, pos, w'.addLeaves (-1))
          | (false, s, r', p, w') =>
            (false, s, { ft1 with tree := { root := some r', count := ft.tree.count + 1 } }, p, w')))

/-- `Creator<const Item&>` / `Creator<ItemArgs…>`: one construction that may throw -/
def copyCreator (S : Sched) (w : W) : Bool × Unit × W :=
  if S.ctor w.ctorN then (true, (), w.tickCtor) else (false, (), w.tickCtor.addItems 1)

/-- the creator of `Insert(ExtractedItem&&)` / `Add(iter, ExtractedItem&&)`: `ItemTraits::Relocate` out of the handle
    (for items that are not nothrow relocatable: copy, then destroy the source) -/
def handleCreator (S : Sched) (ic : ICfg α) (w : W) : Bool × Unit × W :=
  if ic.reloc then (false, (), w)
  else if S.ctor w.ctorN then (true, (), w.tickCtor) else (false, (), w.tickCtor)

/-- `pvInsert(key, creator)`: `(threw, creator state, container, iterator, inserted, world)` -/
def insertF {σ : Type} (S : Sched) (ic : ICfg α) (cfg : Cfg) (lt : α → α → Bool) (ft : FTree α) (x : α)
    (creator : W → Bool × σ × W) (s0 : σ) (w : W) : Bool × σ × FTree α × Pos × Bool × W :=
  match findPosF S cfg.linear (fun y => lt x y) ft.tree w with
  | (none, w1) => (true, s0, ft, ⟨[], 0⟩, false, w1)
  | (some ub, w1) =>
    if !cfg.multi && decide (ub ≠ ft.tree.beginPos) then
      match ft.tree.elemAt? (ft.tree.prev ub) with
      | some y =>
        if S.cmp w1.cmpN then (true, s0, ft, ub, false, w1.tickCmp)
        else if !lt y x then (false, s0, ft, ft.tree.prev ub, false, w1.tickCmp)
        else match addF S ic cfg ft ub x creator s0 w1.tickCmp with
          | (t, s, ft', p, w2) => (t, s, ft', p, !t, w2)
      | none =>
        match addF S ic cfg ft ub x creator s0 w1 with
        | (t, s, ft', p, w2) => (t, s, ft', p, !t, w2)
    else
      match addF S ic cfg ft ub x creator s0 w1 with
      | (t, s, ft', p, w2) => (t, s, ft', p, !t, w2)

/-! ### pvRebalance -/

/-- outcome of one `pvRebalance(parentNode, index, savedNode)` -/
inductive MergeRes (α : Type) where
  | merged (n : Node α) (saved : Option (List Nat))
  | noMerge
  /-- the relocation of the items threw; the `catch (...)` of the caller ends the whole loop -/
  | aborted

/-- the node merge under faults. Not nothrow-relocatable items: `RelocateCreate` copies the items of `node2` (one `ctor`
    step each), relocates the separator (copy + destroy: one more), then destroys the sources; a failure destroys the copies. -/
def tryMergeF (S : Sched) (ic : ICfg α) (cfg : Cfg) (items : List α) (cs : List (Node α)) (i : Nat)
    (saved : Option (List Nat)) (w : W) : MergeRes α × W :=
  match tryMerge cfg items cs i saved with
  | none => (.noMerge, w)
  | some (n', saved') =>
    if ic.reloc then (.merged n' saved', w)
    else
      match copyLoop S (match cs[i + 1]? with | some n2 => n2.count | none => 0) w with
      | (d, true, w1) => (.aborted, w1.addItems (-(d : Int)))
      | (d, false, w1) =>
        if S.ctor w1.ctorN then (.aborted, w1.tickCtor.addItems (-(d : Int)))
        else (.merged n' saved', w1.tickCtor.addItems (-(d : Int)))

/-- one round of the loop: `(node, saved, goes on)` -/
def rebStepF (S : Sched) (ic : ICfg α) (cfg : Cfg) (fast : Bool) (items : List α) (cs : List (Node α)) (c : Nat)
    (saved : Option (List Nat)) (w : W) : (Node α × Option (List Nat) × Bool) × W :=
  match tryMergeF S ic cfg items cs c saved w with
  | (.merged n' saved', w1) => ((n', saved', true), w1)
  | (.aborted, w1) => ((inner items cs, saved, false), w1)
  | (.noMerge, w1) =>
    if c > 0 then
      match tryMergeF S ic cfg items cs (c - 1) saved w1 with
      | (.merged n' saved', w2) => ((n', saved', true), w2)
      | (.aborted, w2) => ((inner items cs, saved, false), w2)
      | (.noMerge, w2) => ((inner items cs, saved, !fast), w2)
    else ((inner items cs, saved, !fast), w1)

/-- the loop of `pvRebalance(node, savedNode, fast)` below a node, bottom-up -/
def rebAuxF (S : Sched) (ic : ICfg α) (cfg : Cfg) (fast : Bool) :
    Node α → List Nat → Option (List Nat) → W → (Node α × Option (List Nat) × Bool) × W
  | n, [], saved, w => ((n, saved, true), w)
  | leaf cap is, _ :: _, saved, w => ((leaf cap is, saved, false), w)
  | inner items cs, c :: p, saved, w =>
    match cs[c]? with
    | none => ((inner items cs, saved, false), w)
    | some ch =>
      match rebAuxF S ic cfg fast ch p (savedBelow saved c) w with
      | ((ch', savedC, true), w1) => rebStepF S ic cfg fast items (cs.set c ch') c (savedLift saved c savedC) w1
      | ((ch', savedC, false), w1) => ((inner items (cs.set c ch'), savedLift saved c savedC, false), w1)

/-- `pvRebalance(node, savedNode, fast)`: new root, new path of the saved node -/
def rebalanceF (S : Sched) (ic : ICfg α) (cfg : Cfg) (fast : Bool) (r : Node α) (path saved : List Nat) (w : W) :
    (Node α × List Nat) × W :=
  match collapseRoot r saved path with
  | (r1, saved1, path1) =>
    match rebAuxF S ic cfg fast r1 path1 (some saved1) w with
    | ((r2, saved2, _), w') => ((r2, saved2.getD saved1), w')

/-! ### pvRemove -/

/-- `Remove(iter)` destroys the item, `Remove(iter, extItem)` / `pvExtract` relocates it into the node handle -/
inductive RemMode where
  | destroy
  | extract
deriving DecidableEq, Repr

/-- the `itemRemover` of `Node::Remove` for a leaf item or for `pvDestroyInternal(node, i, false, …)`.
    `Node::pvRemove` (contiguous) shifts the item to the back, calls the remover and shifts it back when that throws — the
    node is as before; (indexed) calls the remover first. -/
def removerStep (S : Sched) (ic : ICfg α) : RemMode → W → Bool × W
  | .destroy, w => (false, w.addItems (-1))
  | .extract, w =>
    if ic.reloc then (false, w)
    else if S.ctor w.ctorN then (true, w.tickCtor) else (false, w.tickCtor)   -- copy into the handle, destroy the source

/-- `ObjectManager::Replace(src, dst)` = `AssignAnyway` + `Destroy(src)`: `(threw, what dst holds now, world)` -/
def replaceStep (S : Sched) (ic : ICfg α) (src dst : α) (w : W) : Bool × α × W :=
  if ic.assign then (false, src, w.addItems (-1))
  else if ic.unsafeRepl then
    -- pvReplaceUnsafe: `dstValue = srcValue; dstKey = std::move(srcKey);`
    if S.repl w.replN then (true, dst, w.tickRepl)
    else if S.repl (w.replN + 1) then (true, ic.mix src dst, w.tickRepl.tickRepl)
    else (false, src, w.tickRepl.tickRepl.addItems (-1))
  else if S.repl w.replN then (true, dst, w.tickRepl)
  else (false, src, w.tickRepl.addItems (-1))

/-- the `itemReplacer` of `pvRemoveInternal`: the predecessor `src` takes the place of the removed item `dst`.
    `Remove`: `Replace(src, dst)`. `pvExtract`: `ReplaceRelocate(src, dst, extItem)` (ObjectManager.h:453-484). -/
def replacerStep (S : Sched) (ic : ICfg α) (mode : RemMode) (src dst : α) (w : W) : Bool × α × W :=
  match mode with
  | .destroy => replaceStep S ic src dst w
  | .extract =>
    if ic.reloc then (false, src, w)
    else if S.ctor w.ctorN then (true, dst, w.tickCtor)      -- Move / Copy of the removed item into the handle
    else
      match replaceStep S ic src dst (w.tickCtor.addItems 1) with
      | (true, d, w1) => (true, d, w1.addItems (-1))          -- `catch (...) { Destroy(*dstObject); throw; }`
      | (false, d, w1) => (false, d, w1)

/-- the nodes a successful tree surgery released (all releases are noexcept) -/
def W.releaseNodes (w : W) (before after : Node α) : W :=
  (w.addLeaves ((leafCount after : Int) - (leafCount before : Int))).addInners
    ((innerCount after : Int) - (innerCount before : Int))

/-- `pvRemove(iter, remover, replacer)` below a root: `(threw, root, iterator, world)`; when it threw the root is the old one,
    except for the documented exception 5 (the removed element's value was overwritten by `pvReplaceUnsafe`) -/
def removeAtF (S : Sched) (ic : ICfg α) (cfg : Cfg) (mode : RemMode) (r : Node α) (pos : Pos) (w : W) :
    Bool × Node α × Pos × W :=
  match nodeAt? r pos.path with
  | some (leaf _ _) =>
    (match removerStep S ic mode w with
     | (true, w1) => (true, r, pos, w1)
     | (false, w1) =>
       (match rebalanceF S ic cfg true (modifyAt (removeItem pos.idx) r pos.path) pos.path pos.path w1 with
        | ((r', saved), w2) => (false, r', moveIf r' ⟨saved, pos.idx⟩, w2.releaseNodes r r')))
  | some (inner items cs) =>
    (match cs[pos.idx]?, cs[pos.idx + 1]?, items[pos.idx]? with
     | some left, some right, some dstItem =>
       (match popLast left with
        | none =>
          (match removerStep S ic mode w with
           | (true, w1) => (true, r, pos, w1)
           | (false, w1) =>
             (match rebalanceF S ic cfg true (modifyAt (fun _ => destroyInternal items cs pos.idx false) r pos.path)
                 pos.path (pos.path ++ pos.idx :: leftPath right) w1 with
              | ((r', saved), w2) => (false, r', moveIf r' ⟨saved, 0⟩, w2.releaseNodes r r')))
        | some (left', x, cp) =>
          (match replacerStep S ic mode x dstItem w with
           | (true, d, w1) => (true, modifyAt (setItem pos.idx d) r pos.path, pos, w1)
           | (false, _, w1) =>
             (match rebalanceF S ic cfg true
                 (modifyAt (fun _ => inner (items.set pos.idx x) (cs.set pos.idx left')) r pos.path)
                 (pos.path ++ pos.idx :: cp) (pos.path ++ (pos.idx + 1) :: leftPath right) w1 with
              | ((r', saved), w2) => (false, r', moveIf r' ⟨saved, 0⟩, w2.releaseNodes r r'))))
     | _, _, _ => (false, r, pos, w))
  | none => (false, r, pos, w)

/-- `Remove(iter)` / `Remove(iter, extItem)` of the container: `(threw, container, iterator, world)` -/
def removeF (S : Sched) (ic : ICfg α) (cfg : Cfg) (mode : RemMode) (ft : FTree α) (pos : Pos) (w : W) :
    Bool × FTree α × Pos × W :=
  match ft.tree.root with
  | some r =>
    match removeAtF S ic cfg mode r pos w with
    | (true, r', p, w') => (true, { ft with tree := { ft.tree with root := some r' } }, p, w')
    | (false, r', p, w') => (false, { ft with tree := { root := some r', count := ft.tree.count - 1 } }, p, w')
  | none => (false, ft, pos, w)

/-! ### copy constructor -/

mutual
  /-- `pvCopy(srcNode)` with its `catch (...)`: pre-order `Node::Create`, the items of the node one by one, then the children;
      a failure destroys the copied items, the copied children and the node.
      `(threw, copy, internal nodes created so far, world)` -/
  def copyNodeF (S : Sched) (cfg : Cfg) : Node α → Nat → W → Bool × Node α × Nat × W
    | leaf cap items, ia, w =>
      if S.alloc w.allocN then (true, leaf cap items, ia, w.tickAlloc)
      else match copyLoop S items.length (w.tickAlloc.addLeaves 1) with
        | (d, true, w1) => (true, leaf cap items, ia, (w1.addItems (-(d : Int))).addLeaves (-1))
        | (_, false, w1) => (false, leaf (leafCap cfg ia items.length) items, ia, w1)
    | inner items cs, ia, w =>
      if S.alloc w.allocN then (true, inner items cs, ia, w.tickAlloc)
      else match copyLoop S items.length (w.tickAlloc.addInners 1) with
        | (d, true, w1) => (true, inner items cs, ia, (w1.addItems (-(d : Int))).addInners (-1))
        | (_, false, w1) =>
          match copyListF S cfg cs (ia + 1) w1 with
          | (true, _, ia', w2) => (true, inner items cs, ia', (w2.addItems (-(items.length : Int))).addInners (-1))
          | (false, cs', ia', w2) => (false, inner items cs', ia', w2)
  /-- the children loop; a failure has already destroyed the failing child, here the children copied before it go -/
  def copyListF (S : Sched) (cfg : Cfg) : List (Node α) → Nat → W → Bool × List (Node α) × Nat × W
    | [], ia, w => (false, [], ia, w)
    | c :: cs, ia, w =>
      match copyNodeF S cfg c ia w with
      | (true, _, ia', w1) => (true, [], ia', w1)
      | (false, c', ia', w1) =>
        match copyListF S cfg cs ia' w1 with
        | (true, _, ia'', w2) =>
          (true, [], ia'', ((w2.addItems (-(size c' : Int))).addLeaves (-(leafCount c' : Int))).addInners (-(innerCount c' : Int)))
        | (false, cs', ia'', w2) => (false, c' :: cs', ia'', w2)
end

/-- `TreeSet(const TreeSet&)`: crew, then — unless the source is empty — node params and `pvCopy`. A failure after the
    delegated-to constructor completed runs `~TreeSet` (params and crew are released).
    `(threw, the new container, world)`; when it threw there is no new container. -/
def copyF (S : Sched) (ic : ICfg α) (cfg : Cfg) (src : FTree α) (w : W) : Bool × FTree α × W :=
  if ic.crewAlloc && S.alloc w.allocN then (true, {}, w.tickAlloc)
  else
    if src.tree.count = 0 then (false, {}, if ic.crewAlloc then w.tickAlloc.addCrews 1 else w)
    else
      if S.alloc (if ic.crewAlloc then w.tickAlloc.addCrews 1 else w).allocN then
        (true, {}, if ic.crewAlloc then w.tickAlloc.tickAlloc else w.tickAlloc)
      else
        match src.tree.root with
        | none => (false, {}, if ic.crewAlloc then w.tickAlloc.addCrews 1 else w)
        | some r =>
          match copyNodeF S cfg r 0 ((if ic.crewAlloc then w.tickAlloc.addCrews 1 else w).tickAlloc.addParams 1) with
          | (true, _, _, w1) => (true, {}, (w1.addParams (-1)).addCrews (if ic.crewAlloc then -1 else 0))
          | (false, r', _, w1) => (false, { tree := { root := some r', count := src.tree.count }, params := true }, w1)

/-! ### bulk operations (basic guarantee) -/

/-- `Insert(begin, end)`: `(threw, container, world)` -/
def insertRangeF (S : Sched) (ic : ICfg α) (cfg : Cfg) (lt : α → α → Bool) (ft : FTree α) : List α → W → Bool × FTree α × W
  | [], w => (false, ft, w)
  | x :: xs, w =>
    match insertF S ic cfg lt ft x (copyCreator S) () w with
    | (true, _, ft', _, _, w') => (true, ft', w')
    | (false, _, ft', pos, _, w') => go S ic cfg lt xs ft' pos w'
where
  go (S : Sched) (ic : ICfg α) (cfg : Cfg) (lt : α → α → Bool) : List α → FTree α → Pos → W → Bool × FTree α × W
    | [], ft, _, w => (false, ft, w)
    | x :: xs, ft, pos, w =>
      match ft.tree.elemAt? pos with
      | none => (false, ft, w)
      | some prevKey =>
        -- `treeTraits.IsLess(key, prevKey)`
        if S.cmp w.cmpN then (true, ft, w.tickCmp)
        else if lt x prevKey then
          (match insertF S ic cfg lt ft x (copyCreator S) () w.tickCmp with
           | (true, _, ft', _, _, w') => (true, ft', w')
           | (false, _, ft', p, _, w') => go S ic cfg lt xs ft' p w')
        else
          -- `!pvIsGreater(std::next(pos), key)`
          match isGreaterF S lt ft.tree (ft.tree.next pos) x w.tickCmp with
          | (none, w1) => (true, ft, w1)
          | (some false, w1) =>
            (match insertF S ic cfg lt ft x (copyCreator S) () w1 with
             | (true, _, ft', _, _, w') => (true, ft', w')
             | (false, _, ft', p, _, w') => go S ic cfg lt xs ft' p w')
          | (some true, w1) =>
            -- `TreeTraits::multiKey || treeTraits.IsLess(prevKey, key)`
            if cfg.multi then
              (match addF S ic cfg ft (ft.tree.next pos) x (copyCreator S) () w1 with
               | (true, _, ft', _, w') => (true, ft', w')
               | (false, _, ft', p, w') => go S ic cfg lt xs ft' p w')
            else if S.cmp w1.cmpN then (true, ft, w1.tickCmp)
            else if lt prevKey x then
              (match addF S ic cfg ft (ft.tree.next pos) x (copyCreator S) () w1.tickCmp with
               | (true, _, ft', _, w') => (true, ft', w')
               | (false, _, ft', p, w') => go S ic cfg lt xs ft' p w')
            else go S ic cfg lt xs ft pos w1.tickCmp

/-- `Remove(filter)`: `(threw, container, world)` -/
def removeIfF (S : Sched) (ic : ICfg α) (cfg : Cfg) (f : α → Bool) (ft : FTree α) (w : W) : Bool × FTree α × W :=
  go S ic cfg f ft.tree.count ft ft.tree.beginPos w
where
  go (S : Sched) (ic : ICfg α) (cfg : Cfg) (f : α → Bool) : Nat → FTree α → Pos → W → Bool × FTree α × W
    | 0, ft, _, w => (false, ft, w)
    | fuel+1, ft, pos, w =>
      if pos = ft.tree.endPos then (false, ft, w)
      else match ft.tree.elemAt? pos with
        | none => (false, ft, w)
        | some x =>
          if S.filt w.filtN then (true, ft, w.tickFilt)
          else if f x then
            (match removeF S ic cfg .destroy ft pos w.tickFilt with
             | (true, ft', _, w') => (true, ft', w')
             | (false, ft', p, w') => go S ic cfg f fuel ft' p w')
          else go S ic cfg f fuel ft (ft.tree.next pos) w.tickFilt

/-- the creator `[this, &iter] (Item* newItem) { iter = pvExtract(iter, newItem); }` of the merges: its state is the source
    container and the iterator -/
def extractCreator (S : Sched) (ic : ICfg α) (cfg : Cfg) (src : FTree α) (pos : Pos) (w : W) :
    Bool × (FTree α × Pos) × W :=
  match removeF S ic cfg .extract src pos w with
  | (t, src', p, w') => (t, (src', p), w')

/-- `pvMergeTo(dstSet)`: `(threw, source, destination, world)` -/
def mergeGenericF (S : Sched) (ic : ICfg α) (cfg : Cfg) (lt : α → α → Bool) (src dst : FTree α) (w : W) :
    Bool × FTree α × FTree α × W :=
  go S ic cfg lt src.tree.count src dst src.tree.beginPos w
where
  go (S : Sched) (ic : ICfg α) (cfg : Cfg) (lt : α → α → Bool) :
      Nat → FTree α → FTree α → Pos → W → Bool × FTree α × FTree α × W
    | 0, src, dst, _, w => (false, src, dst, w)
    | fuel+1, src, dst, pos, w =>
      if pos = src.tree.endPos then (false, src, dst, w)
      else match src.tree.elemAt? pos with
        | none => (false, src, dst, w)
        | some x =>
          match insertF S ic cfg lt dst x (extractCreator S ic cfg src pos) (src, pos) w with
          | (true, (src', _), dst', _, _, w') => (true, src', dst', w')
          | (false, (src', p'), dst', _, true, w') => go S ic cfg lt fuel src' dst' p' w'
          | (false, _, dst', _, false, w') => go S ic cfg lt fuel src dst' (src.tree.next pos) w'

/-- `pvIsOrdered(iter1, iter2)` on two items: one functor call -/
def isOrderedF (S : Sched) (lt : α → α → Bool) (cfg : Cfg) (a b : α) (w : W) : Option Bool × W :=
  if S.cmp w.cmpN then (none, w.tickCmp) else (some (Tree.isOrderedItems lt cfg a b), w.tickCmp)

/-- `while (dstIter != dstTreeSet.GetEnd() && pvIsOrdered(dstIter, iter)) ++dstIter;` -/
def skipF (S : Sched) (lt : α → α → Bool) (cfg : Cfg) (dst : Tree α) (x : α) : Nat → Pos → W → Option Pos × W
  | 0, dpos, w => (some dpos, w)
  | fuel+1, dpos, w =>
    if dpos = dst.endPos then (some dpos, w)
    else match dst.elemAt? dpos with
      | none => (some dpos, w)
      | some y =>
        match isOrderedF S lt cfg y x w with
        | (none, w') => (none, w')
        | (some true, w') => skipF S lt cfg dst x fuel (dst.next dpos) w'
        | (some false, w') => (some dpos, w')

/-- `pvMergeToLinear(dstTreeSet)` -/
def mergeLinearF (S : Sched) (ic : ICfg α) (cfg : Cfg) (lt : α → α → Bool) (src dst : FTree α) (w : W) :
    Bool × FTree α × FTree α × W :=
  go S ic cfg lt (src.tree.count + dst.tree.count + 1) src dst src.tree.beginPos dst.tree.beginPos w
where
  go (S : Sched) (ic : ICfg α) (cfg : Cfg) (lt : α → α → Bool) :
      Nat → FTree α → FTree α → Pos → Pos → W → Bool × FTree α × FTree α × W
    | 0, src, dst, _, _, w => (false, src, dst, w)
    | fuel+1, src, dst, pos, dpos, w =>
      if pos = src.tree.endPos then (false, src, dst, w)
      else match src.tree.elemAt? pos with
        | none => (false, src, dst, w)
        | some x =>
          match skipF S lt cfg dst.tree x (dst.tree.count + 1) dpos w with
          | (none, w1) => (true, src, dst, w1)
          | (some dp, w1) =>
            match (if cfg.multi then (some true, w1) else isGreaterF S lt dst.tree dp x w1) with
            | (none, w2) => (true, src, dst, w2)
            | (some true, w2) =>
              (match addF S ic cfg dst dp x (extractCreator S ic cfg src pos) (src, pos) w2 with
               | (true, (src', _), dst', _, w3) => (true, src', dst', w3)
               | (false, (src', p'), dst', q, w3) => go S ic cfg lt fuel src' dst' p' (dst'.tree.next q) w3)
            | (some false, w2) => go S ic cfg lt fuel src dst (src.tree.next pos) (dst.tree.next dp) w2

/-- number of `Node::Create(*treeSetPtr1->mNodeParams, false, 0)` of the search of `pvMergeFast`, mirroring `attach`:
    `inl k` = attached below with `k` wrappers, `inr k` = every node so far was full -/
def attachCreates (cfg : Cfg) (right : Bool) : Node α → Nat → Nat ⊕ Nat
  | _, 0 => .inr 0
  | leaf _ _, _ + 1 => .inr 0
  | inner items cs, d + 1 =>
    match cs[if right then items.length else 0]? with
    | none => .inr 0
    | some ch =>
      match attachCreates cfg right ch d with
      | .inl k => .inl k
      | .inr k => if items.length < cfg.maxCap then .inl k else .inr (k + 1)

/-- the wrappers (and the new root) `pvMergeFast(treeSet1, treeSet2)` creates -/
def mergeFastCreates (cfg : Cfg) (r1 r2 : Node α) : Nat :=
  if height r1 > height r2 then
    match attachCreates cfg true r1 (height r1 - height r2) with
    | .inl k => k
    | .inr k => k + 1
  else
    match attachCreates cfg false r2 (height r2 - height r1) with
    | .inl k => k
    | .inr k => k + 1

/-- a loop of `n` `Node::Create(…, false, 0)`: `(created, threw, world)` -/
def createInners (S : Sched) : Nat → W → Nat × Bool × W
  | 0, w => (0, false, w)
  | n+1, w =>
    if S.alloc w.allocN then (0, true, w.tickAlloc)
    else match createInners S n (w.tickAlloc.addInners 1) with
      | (d, t, w') => (d + 1, t, w')

/-- `pvMergeFast(treeSet1, treeSet2)` with its `catch (...)`: the wrappers, then the separator is relocated out of the shorter
    tree (one `ctor` step when items are not nothrow relocatable); a failure destroys the wrappers. `(threw, root, world)` -/
def mergeFastF (S : Sched) (ic : ICfg α) (cfg : Cfg) (r1 r2 : Node α) (w : W) : Bool × Node α × W :=
  match createInners S (mergeFastCreates cfg r1 r2) w with
  | (d, true, w1) => (true, r1, w1.addInners (-(d : Int)))
  | (d, false, w1) =>
    if !ic.reloc && S.ctor w1.ctorN then (true, r1, w1.tickCtor.addInners (-(d : Int)))
    else
      (false, mergeFast cfg r1 r2,
        (((if ic.reloc then w1 else w1.tickCtor).addInners (-(d : Int))).addLeaves
            ((leafCount (mergeFast cfg r1 r2) : Int) - leafCount r1 - leafCount r2)).addInners
          ((innerCount (mergeFast cfg r1 r2) : Int) - innerCount r1 - innerCount r2))

/-- `MergeTo(TreeSet& dst)` for equal memory managers: `(threw, source, destination, world)` -/
def mergeToF (S : Sched) (ic : ICfg α) (cfg : Cfg) (lt : α → α → Bool) (src dst : FTree α) (w : W) :
    Bool × FTree α × FTree α × W :=
  if ic.statefulTraits then mergeGenericF S ic cfg lt src dst w
  else if src.tree.count = 0 then (false, src, dst, w)
  else if dst.tree.count = 0 then
    -- `if (dstTreeSet.mNodeParams == nullptr) dstTreeSet.mNodeParams = dstTreeSet.pvCreateNodeParams();`
    (match ensureParams S dst w with
     | (true, dst1, w1) => (true, src, dst1, w1)
     | (false, _, w1) =>
       -- the destination's own (empty) nodes are destroyed, the source's root and pools' contents move over
       (false, { src with tree := { root := none, count := 0 } }, { tree := src.tree, params := true },
         (w1.addLeaves (-(dst.leaves : Int))).addInners (-(dst.inners : Int))))
  else
    match src.tree.root, dst.tree.root with
    | some rs, some rd =>
      (match rs.elemAt? (Node.prev rs (Node.endPos rs)), rd.elemAt? (Node.beginPos rd),
             rd.elemAt? (Node.prev rd (Node.endPos rd)), rs.elemAt? (Node.beginPos rs) with
       | some lastS, some firstD, some lastD, some firstS =>
         -- `pvIsOrdered(*this, dstTreeSet)`
         (match isOrderedF S lt cfg lastS firstD w with
          | (none, w1) => (true, src, dst, w1)
          | (some true, w1) =>
            (match mergeFastF S ic cfg rs rd w1 with
             | (true, _, w2) => (true, src, dst, w2)
             | (false, root, w2) =>
               (false, { src with tree := { root := none, count := 0 } },
                 { dst with tree := { root := some root, count := dst.tree.count + src.tree.count } }, w2))
          | (some false, w1) =>
            -- `pvIsOrdered(dstTreeSet, *this)`
            (match isOrderedF S lt cfg lastD firstS w1 with
             | (none, w2) => (true, src, dst, w2)
             | (some true, w2) =>
               (match mergeFastF S ic cfg rd rs w2 with
                | (true, _, w3) => (true, src, dst, w3)
                | (false, root, w3) =>
                  (false, { src with tree := { root := none, count := 0 } },
                    { dst with tree := { root := some root, count := dst.tree.count + src.tree.count } }, w3))
             | (some false, w2) =>
               if src.tree.count * Tree.log2 (src.tree.count + dst.tree.count) < src.tree.count + dst.tree.count
               then mergeGenericF S ic cfg lt src dst w2
               else mergeLinearF S ic cfg lt src dst w2))
       | _, _, _, _ => (false, src, dst, w))
    | _, _ => (false, src, dst, w)

end Momo.BTreeF
