import Momo.Extracted
/-
  Model of `momo::stdish::unsynchronized_pool_allocator` (include/momo/stdish/pool_allocator.h, line
  numbers of the pinned tree in comments) and of the way allocator-aware node containers use it — C20.

  Layer A (allocator level).  One `PoolSt` per `std::shared_ptr<MemPool>` target:
      explicit constructor (76-79), select_on_container_copy_construction (106-109)  -> `Op.anew`
      copy constructor (81-84), rebinding conversion (94-99)                         -> `Op.acopy`
      destructor (86) = release of the shared_ptr; the last one runs `~MemPool`      -> `Op.adrop`
      operator= (88-92)                                                              -> `acopy` new, `adrop` old
      allocate (111-127) with the re-parameterisation rule (115-121)                 -> `Op.alloc`
      deallocate (129-134)                                                           -> `Op.dealloc`
      pvGetMemPoolParams (169-173) + MemPoolParams ctor (MemPool.h 78-83)            -> `paramsOf`
      pvIsEqual (175-180)                                                            -> equality of `Cls`
    Every block remembers where it came from (`Prov`); a `deallocate` that routes a block to the other
    kind of memory is recorded as an error (`rawIntoPool` is finding F13).
    `MemPool` itself is C09's: here it is the component "parameters, GetAllocateCount, the buffers it
    currently holds from the base allocator".  Which buffers an `Allocate` obtains / a `Deallocate`
    gives back is external behaviour and therefore an argument of the operation (`mallocs`, `frees`);
    `~MemPool` and the move-assignment of a fresh pool (119) return every buffer held (C09: all memory
    returned when `allocCount == 0`).  The driver instantiates these arguments with C09's pool state
    machine, so that the correspondence run compares addresses and memory-manager calls exactly.
    `base` is the ledger of the base allocator (`TBaseAllocator`): control block of `allocate_shared`
    (77), pool buffers, raw blocks; the pool tag of an entry is ghost state.

  Layer C (container level).  What [container.requirements.general] prescribes for an allocator-aware
  container, specialised to the traits of this allocator (56-58, T1-extracted): copy construction
  takes `select_on_container_copy_construction()` (a fresh pool), copy assignment keeps the target's
  allocator, move construction copies the allocator object (shares the pool), move assignment and swap
  carry the allocator along, splice/merge/node hand-over need equal allocators, the destructor frees
  every block and then drops the allocator.  libstdc++'s containers are the environment: which blocks
  a call allocates and frees is an argument (`Act` list).  `own` (ghost) maps a block to the entity that
  holds it.
  Core Lean only (no Mathlib): this file is linked into the driver.
-/
namespace Momo.PoolAlloc
open Momo

/-! ## parameters of a value type -/

/-- `(GetBlockSize(), GetBlockAlignment())` of `pvGetMemPoolParams()`; `pvIsEqual` (175-180) is `=` -/
abbrev Cls := Nat × Nat

/-- `MemPoolConst::CorrectBlockSize(blockSize, blockAlignment, blockCount)` (MemPool.h 43-49) -/
def correctBlockSize (size a n : Nat) : Nat :=
  if n = 1 then (if size > 0 then size else 1)
  else if size ≤ a then Extracted.poolCorrectSmallMul * a
  else ((size + a - 1) / a) * a

/-- `UIntConst::maxAlignment` = `MOMO_MAX_ALIGNMENT` = `alignof(std::max_align_t)`; header argument of the driver -/
@[reducible] def defaultMaxAlignment : Nat := 16

/-- `ObjectAlignmenter<value_type>::alignment` (ObjectManager.h 147-148) -/
def objAlignment (maxAlign align : Nat) : Nat := if align < maxAlign then align else maxAlign

/-- `pvGetMemPoolParams()` (169-173): `MemPoolParams(sizeof(value_type), ObjectAlignmenter<value_type>::alignment)`
    for a pool with `N` blocks per buffer -/
def paramsOf (N maxAlign size align : Nat) : Cls :=
  (correctBlockSize size (objAlignment maxAlign align) N, objAlignment maxAlign align)

/-! ## layer A: state -/

/-- where a block came from -/
inductive Prov where
  | pool (q : Cls)   -- `mMemPool->Allocate()` while the pool had parameters `q`
  | raw              -- `MemManagerProxy::Allocate(GetMemManager(), count * sizeof(value_type))`
deriving DecidableEq, Repr

structure Block where
  id : Nat        -- the pointer
  pid : Nat       -- the pool of the allocator object that produced it
  cls : Cls       -- `pvGetMemPoolParams()` of the value type it was allocated for
  n : Nat         -- `count`
  prov : Prov
deriving DecidableEq, Repr

structure PoolSt where
  params : Cls         -- `mMemPool->GetParams()`
  allocCount : Nat     -- `mMemPool->GetAllocateCount()`
  refs : Nat           -- `mMemPool.use_count()`
  dead : Bool          -- the last owner is gone, `~MemPool` has run
deriving DecidableEq, Repr

inductive BKind where
  | cb     -- control block of `std::allocate_shared<MemPool>(alloc, …)` (77); it contains the MemPool object
  | buf    -- a buffer (or single block) the MemPool obtained through its MemManagerStd
  | raw    -- a block obtained directly through `mMemPool->GetMemManager()` (125)
deriving DecidableEq, Repr

/-- one outstanding allocation of the base allocator -/
structure Base where
  id : Nat
  pid : Nat     -- ghost: the pool whose memory manager made the request
  kind : BKind
deriving DecidableEq, Repr

inductive Err where
  | illegal                  -- the caller (or the recorded environment) broke a precondition of the call
  | rawIntoPool (id : Nat)   -- a block from the memory manager handed to `MemPool::Deallocate` (F13)
  | poolIntoRaw (id : Nat)   -- a pool block handed to `MemManagerProxy::Deallocate`
  | countMismatch (p : Nat)  -- `~MemPool`: `MOMO_EXTRA_CHECK(mData.allocCount == 0)` although no block is live
deriving DecidableEq, Repr

structure Sys where
  pools : List PoolSt     -- index = pool id
  blocks : List Block     -- live blocks handed out by `allocate`
  base : List Base        -- ledger of the base allocator
  rawSingle : Bool        -- ghost: some `allocate(1)` was served from the memory manager because the pool was busy with another type
  err : Option Err        -- first error; the machine halts there
deriving DecidableEq, Repr

def Sys.init : Sys := ⟨[], [], [], false, none⟩

inductive Op where
  | anew (cls : Cls) (cb : Nat)
  | acopy (p : Nat)
  | adrop (p : Nat)
  | alloc (p : Nat) (cls : Cls) (n id : Nat) (mallocs : List Nat)
  | dealloc (p : Nat) (cls : Cls) (n id : Nat) (frees : List Nat)
  | bad                                   -- a precondition violation detected one level up
deriving DecidableEq, Repr

/-! ## layer A: transitions -/

def Sys.fail (s : Sys) (e : Err) : Sys := { s with err := some e }

/-- the pool `p` if it exists and still has an owner -/
def livePool (s : Sys) (p : Nat) : Option PoolSt :=
  match s.pools[p]? with
  | some st => if st.dead then none else some st
  | none => none

/-- explicit constructor (76-79) and `select_on_container_copy_construction` (106-109):
    `allocate_shared<MemPool>(alloc, pvGetMemPoolParams(), MemManager(alloc))` -/
def doNew (s : Sys) (cls : Cls) (cb : Nat) : Sys :=
  { s with pools := s.pools ++ [⟨cls, 0, 1, false⟩], base := ⟨cb, s.pools.length, .cb⟩ :: s.base }

/-- copy constructor (81-84), conversion to another value type (94-99): `mMemPool(alloc.mMemPool)` -/
def doCopy (s : Sys) (p : Nat) : Sys :=
  match livePool s p with
  | none => s.fail .illegal
  | some st => { s with pools := s.pools.set p { st with refs := st.refs + 1 } }

/-- destructor (86).  The last owner runs `~MemPool` (MemPool.h 227-234): extra check `allocCount == 0`,
    then `DeallocateAll` / `pvFlushDeallocate`: every buffer goes back; then the control block. -/
def doDrop (s : Sys) (p : Nat) : Sys :=
  match livePool s p with
  | none => s.fail .illegal
  | some st =>
    if 2 ≤ st.refs then { s with pools := s.pools.set p { st with refs := st.refs - 1 } }
    else if s.blocks.any (fun b => b.pid == p) then s.fail .illegal      -- blocks leaked by the caller
    else if st.allocCount ≠ 0 then s.fail (.countMismatch p)
    else { s with pools := s.pools.set p { st with refs := 0, dead := true },
                  base := s.base.filter (fun e => !(e.pid == p && e.kind != .raw)) }

/-- `allocate(count)` (111-127).
    `count == 1`: `equal = pvIsEqual(params of value_type, pool params)`; `if (!equal && GetAllocateCount() == 0)`
    the pool is replaced by a fresh one with the parameters of `value_type` (119: the old pool object is
    destroyed, its buffers go back) `equal = true`; `if (equal) return mMemPool->Allocate()`.
    Otherwise `MemManagerProxy::Allocate(GetMemManager(), count * sizeof(value_type))`. -/
def doAlloc (s : Sys) (p : Nat) (cls : Cls) (n id : Nat) (mallocs : List Nat) : Sys :=
  match livePool s p with
  | none => s.fail .illegal
  | some st =>
    if n = 0 ∨ s.blocks.any (fun b => b.id == id) then s.fail .illegal
    else if n = 1 ∧ (cls = st.params ∨ st.allocCount = 0) then
      { s with pools := s.pools.set p { st with params := cls, allocCount := st.allocCount + 1 },
               blocks := ⟨id, p, cls, 1, .pool cls⟩ :: s.blocks,
               base := mallocs.map (fun m => ⟨m, p, .buf⟩) ++
                 (if cls = st.params then s.base
                  else s.base.filter (fun e => !(e.pid == p && e.kind == .buf))) }
    else
      { s with blocks := ⟨id, p, cls, n, .raw⟩ :: s.blocks,
               base := ⟨id, p, .raw⟩ :: s.base,
               rawSingle := s.rawSingle || n == 1 }

/-- `deallocate(ptr, count)` (129-134): `if (count == 1 && pvIsEqual(params of value_type, pool params))
    mMemPool->Deallocate(ptr)` else `MemManagerProxy::Deallocate(GetMemManager(), ptr, count * sizeof(value_type))`.
    Preconditions of the call (else `illegal`): `ptr` is live, was allocated through an allocator equal
    to this one, for the same value type and count. -/
def doDealloc (s : Sys) (p : Nat) (cls : Cls) (n id : Nat) (frees : List Nat) : Sys :=
  match livePool s p with
  | none => s.fail .illegal
  | some st =>
    match s.blocks.find? (fun b => b.id == id) with
    | none => s.fail .illegal
    | some b =>
      if b.pid ≠ p ∨ b.cls ≠ cls ∨ b.n ≠ n then s.fail .illegal
      else if n = 1 ∧ cls = st.params then
        match b.prov with
        | .raw => s.fail (.rawIntoPool id)
        | .pool _ =>
          { s with pools := s.pools.set p { st with allocCount := st.allocCount - 1 },
                   blocks := s.blocks.filter (fun x => x.id != id),
                   base := s.base.filter (fun e => !(e.pid == p && e.kind == .buf && frees.contains e.id)) }
      else
        match b.prov with
        | .pool _ => s.fail (.poolIntoRaw id)
        | .raw =>
          { s with blocks := s.blocks.filter (fun x => x.id != id),
                   base := s.base.filter (fun e => !(e.pid == p && e.kind == .raw && e.id == id)) }

def step (s : Sys) (op : Op) : Sys :=
  if s.err.isSome then s else
  match op with
  | .anew cls cb => doNew s cls cb
  | .acopy p => doCopy s p
  | .adrop p => doDrop s p
  | .alloc p cls n id mallocs => doAlloc s p cls n id mallocs
  | .dealloc p cls n id frees => doDealloc s p cls n id frees
  | .bad => s.fail .illegal

def run (s : Sys) (ops : List Op) : Sys := ops.foldl step s

/-- "one single-object type per shared pool": every `allocate(1)` / `deallocate(·, 1)` through pool `p`
    is for a value type with parameters `κ p` -/
def OneTypePerPool (κ : Nat → Cls) (ops : List Op) : Prop :=
  ∀ op ∈ ops, match op with
    | .alloc p cls 1 _ _ => cls = κ p
    | .dealloc p cls 1 _ _ => cls = κ p
    | _ => True

/-! ## layer C: entities (containers and allocator objects held by the program) -/

/-- propagation traits of the allocator (56-58), regenerated from the header on every run -/
def pocca : Bool := Extracted.paPoccaFalse != 1
def pocma : Bool := Extracted.paPocmaTrue == 1
def pocs : Bool := Extracted.paPocsTrue == 1

structure Ent where
  eid : Nat
  pid : Nat      -- the pool its allocator object points to
deriving DecidableEq, Repr

structure CSys where
  sys : Sys
  ents : List Ent          -- live entities
  own : Nat → Nat          -- ghost: block id -> entity that holds the block

def CSys.init : CSys := ⟨Sys.init, [], fun _ => 0⟩

/-- what one container call does with memory, in order -/
inductive Act where
  | alloc (cls : Cls) (n id : Nat) (mallocs : List Nat)
  | free (id : Nat) (frees : List Nat)
deriving DecidableEq, Repr

inductive COp where
  /-- `A al(base)` / a default-constructed container: an allocator object with a pool of its own,
      initial parameters those of its value type -/
  | newAlloc (e : Nat) (cls : Cls) (cb : Nat)
  /-- `Container c(al)`, `al2(al)`, `c.get_allocator()`: the allocator object is copied / rebound -/
  | newFrom (e src : Nat)
  /-- insert / erase / clear / rehash / copy assignment (POCCA = false: the target keeps its allocator) -/
  | mutate (e : Nat) (acts : List Act)
  /-- `d = c` (POCCA = false): `d` keeps its allocator and reuses / frees / allocates blocks through it -/
  | copyAssign (d c : Nat) (acts : List Act)
  /-- `Container d(c)`: `select_on_container_copy_construction()`, then the elements are copied -/
  | copyConstruct (d c : Nat) (cls : Cls) (cb : Nat) (acts : List Act)
  /-- `Container d(std::move(c))` -/
  | moveConstruct (d c : Nat)
  /-- `d = std::move(c)` (POCMA = true): `d` frees what it holds through its own allocator, takes
      `c`'s allocator and `c`'s blocks -/
  | moveAssign (d c : Nat) (acts : List Act)
  /-- `d.swap(c)` (POCS = true) -/
  | swap (d c : Nat)
  /-- splice / merge / node-handle insertion: blocks `ids` move from `c` to `d`; needs equal allocators -/
  | splice (d c : Nat) (ids : List Nat)
  /-- destructor: every block is freed, then the allocator object dies -/
  | destroy (e : Nat) (acts : List Act)
deriving Repr

def findEnt (cs : CSys) (e : Nat) : Option Ent := cs.ents.find? (fun x => x.eid == e)

def CSys.cfail (cs : CSys) : CSys := { cs with sys := step cs.sys .bad }

/-- one allocation / deallocation made by entity `e` whose allocator points to pool `p` -/
def actStep (e p : Nat) (cs : CSys) (a : Act) : CSys :=
  match a with
  | .alloc cls n id mallocs =>
    { cs with sys := step cs.sys (.alloc p cls n id mallocs), own := fun i => if i = id then e else cs.own i }
  | .free id frees =>
    match cs.sys.blocks.find? (fun b => b.id == id) with
    | none => cs.cfail
    | some b => if cs.own id = e then { cs with sys := step cs.sys (.dealloc p b.cls b.n id frees) } else cs.cfail

/-- entity `e` holds no block -/
def ownsNone (cs : CSys) (e : Nat) : Bool := cs.sys.blocks.all (fun b => cs.own b.id != e)

/-- exchange of two names -/
def swapName (d c x : Nat) : Nat := if x = d then c else if x = c then d else x

def cstep (cs : CSys) (op : COp) : CSys :=
  if cs.sys.err.isSome then cs else
  match op with
  | .newAlloc e cls cb =>
    if (findEnt cs e).isSome then cs.cfail
    else { cs with sys := step cs.sys (.anew cls cb), ents := ⟨e, cs.sys.pools.length⟩ :: cs.ents }
  | .newFrom e src =>
    match findEnt cs src with
    | none => cs.cfail
    | some se =>
      if (findEnt cs e).isSome then cs.cfail
      else { cs with sys := step cs.sys (.acopy se.pid), ents := ⟨e, se.pid⟩ :: cs.ents }
  | .mutate e acts =>
    match findEnt cs e with
    | none => cs.cfail
    | some en => acts.foldl (actStep e en.pid) cs
  | .copyAssign d c acts =>
    match findEnt cs d, findEnt cs c with
    | some de, some _ => if pocca then cs.cfail else acts.foldl (actStep d de.pid) cs
    | _, _ => cs.cfail
  | .copyConstruct d c cls cb acts =>
    match findEnt cs c with
    | none => cs.cfail
    | some _ =>
      if (findEnt cs d).isSome then cs.cfail
      else acts.foldl (actStep d cs.sys.pools.length)
            { cs with sys := step cs.sys (.anew cls cb), ents := ⟨d, cs.sys.pools.length⟩ :: cs.ents }
  | .moveConstruct d c =>
    match findEnt cs c with
    | none => cs.cfail
    | some ce =>
      if (findEnt cs d).isSome then cs.cfail
      else { sys := step cs.sys (.acopy ce.pid), ents := ⟨d, ce.pid⟩ :: cs.ents,
             own := fun i => if cs.own i = c then d else cs.own i }
  | .moveAssign d c acts =>
    match findEnt cs d, findEnt cs c with
    | some de, some ce =>
      if d = c ∨ !pocma then cs.cfail
      else if ((acts.foldl (actStep d de.pid) cs).sys.err.isSome) then acts.foldl (actStep d de.pid) cs
      else if !ownsNone (acts.foldl (actStep d de.pid) cs) d then (acts.foldl (actStep d de.pid) cs).cfail
      else
        -- `std::__alloc_on_move`: `operator=` (88-92) = shared_ptr copy assignment: new pool gains an owner, old one loses one
        { sys := step (step (acts.foldl (actStep d de.pid) cs).sys (.acopy ce.pid)) (.adrop de.pid),
          ents := ⟨d, ce.pid⟩ :: cs.ents.filter (fun x => x.eid != d),
          own := fun i => if (acts.foldl (actStep d de.pid) cs).own i = c then d
                          else (acts.foldl (actStep d de.pid) cs).own i }
    | _, _ => cs.cfail
  | .swap d c =>
    match findEnt cs d, findEnt cs c with
    | some _, some _ =>
      if !pocs then cs.cfail
      else
        -- `std::__alloc_on_swap`: the two allocator objects exchange their shared_ptr; the containers exchange their blocks
        { cs with ents := cs.ents.map (fun x => ⟨swapName d c x.eid, x.pid⟩), own := fun i => swapName d c (cs.own i) }
    | _, _ => cs.cfail
  | .splice d c ids =>
    match findEnt cs d, findEnt cs c with
    | some de, some ce =>
      if de.pid ≠ ce.pid then cs.cfail      -- unequal allocators: undefined behaviour by the standard
      else { cs with own := fun i => if ids.contains i && cs.own i == c then d else cs.own i }
    | _, _ => cs.cfail
  | .destroy e acts =>
    match findEnt cs e with
    | none => cs.cfail
    | some en =>
      if ((acts.foldl (actStep e en.pid) cs).sys.err.isSome) then acts.foldl (actStep e en.pid) cs
      else if !ownsNone (acts.foldl (actStep e en.pid) cs) e then (acts.foldl (actStep e en.pid) cs).cfail
      else { (acts.foldl (actStep e en.pid) cs) with
               sys := step (acts.foldl (actStep e en.pid) cs).sys (.adrop en.pid),
               ents := cs.ents.filter (fun x => x.eid != e) }

def crun (cs : CSys) (ops : List COp) : CSys := ops.foldl cstep cs

/-! ## observers -/

def Sys.poolBlocks (s : Sys) (p : Nat) : List Block := s.blocks.filter (fun b => b.pid == p)
def Sys.baseOf (s : Sys) (p : Nat) : List Base := s.base.filter (fun e => e.pid == p)
def CSys.pidOf (cs : CSys) (e : Nat) : Option Nat := (findEnt cs e).map (·.pid)
def CSys.ownedBy (cs : CSys) (e : Nat) : List Block := cs.sys.blocks.filter (fun b => cs.own b.id == e)

/-- F13: `list<int,A> l(al); set<int,less<int>,A> s(al); l.push_back(1); s.insert(1); l.clear(); s.insert(2); s.erase(1)`
    with list node parameters (24,8), set node parameters (40,8), the allocator `al` created for `int` (8,4) -/
def f13 : List Op :=
  [.anew (8, 4) 100, .acopy 0, .acopy 0,
   .alloc 0 (24, 8) 1 1 [200],        -- l.push_back(1): pool re-parameterised for the list node
   .alloc 0 (40, 8) 1 2 [],           -- s.insert(1): pool busy with another type -> memory manager
   .dealloc 0 (24, 8) 1 1 [],         -- l.clear(): pool idle
   .alloc 0 (40, 8) 1 3 [300],        -- s.insert(2): pool re-parameterised for the set node
   .dealloc 0 (40, 8) 1 2 []]         -- s.erase(1): the raw block goes into the pool

/-- the same history at container level -/
def f13c : List COp :=
  [.newAlloc 0 (8, 4) 100, .newFrom 1 0, .newFrom 2 0,
   .mutate 1 [.alloc (24, 8) 1 1 [200]],
   .mutate 2 [.alloc (40, 8) 1 2 []],
   .mutate 1 [.free 1 []],
   .mutate 2 [.alloc (40, 8) 1 3 [300]],
   .mutate 2 [.free 2 []]]

end Momo.PoolAlloc
