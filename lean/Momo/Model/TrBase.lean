/-
  Helpers the generated file `Momo/Translated.lean` (tools/translate.py) refers to.
  Core Lean only (no Mathlib).
-/
namespace Momo.Tr

/-- `while (c) body` with fuel: `n` iterations at most. The translator writes the fuel from its table; the
    equivalence proofs (Proof/TranslatedEq.lean) show that it suffices for every 64-bit input. -/
def whileN {σ : Type} : Nat → (σ → Bool) → (σ → σ) → σ → σ
  | 0, _, _, s => s
  | n+1, c, f, s => if c s then whileN n c f (f s) else s

@[simp] theorem whileN_zero {σ : Type} (c : σ → Bool) (f : σ → σ) (s : σ) : whileN 0 c f s = s := rfl
theorem whileN_succ {σ : Type} (n : Nat) (c : σ → Bool) (f : σ → σ) (s : σ) :
    whileN (n+1) c f s = if c s then whileN n c f (f s) else s := rfl

end Momo.Tr
