/-
  Helpers the generated file `Momo/Translated.lean` (tools/translate.py) refers to.
  Core Lean only (no Mathlib).
-/
namespace Momo.Tr

/-- `while (c) body` with fuel: `n` iterations at most. The translator writes the fuel from its table; the
    equivalence proofs (Proof/TranslatedEq.lean) show that it suffices for every 64-bit input. -/
def whileN {σ : Type} : Nat → (σ → Bool) → (σ → σ) → σ → σ
  | 0, _, _, s => s
  | n+1, c, f, s => if c s then whileN n c f (f s) else s

@[simp] theorem whileN_zero {σ : Type} (c : σ → Bool) (f : σ → σ) (s : σ) : whileN 0 c f s = s := rfl
theorem whileN_succ {σ : Type} (n : Nat) (c : σ → Bool) (f : σ → σ) (s : σ) :
    whileN (n+1) c f s = if c s then whileN n c f (f s) else s := rfl

/-! ### signed 64-bit / 8-bit values (`ptrdiff_t`, `int8_t`) as `Int`, two's complement conversions (area Pool) -/

/-- `static_cast<ptrdiff_t>(n)` for a 64-bit word `n`: the two's complement reading -/
def toI64 (n : Nat) : Int :=
  if n % 18446744073709551616 < 9223372036854775808 then ((n % 18446744073709551616 : Nat) : Int)
  else ((n % 18446744073709551616 : Nat) : Int) - 18446744073709551616
/-- `static_cast<size_t>(x)` for a signed `x`: the value mod 2^64 -/
def ofI64 (x : Int) : Nat := (x % 18446744073709551616).toNat
/-- reduction of an exact signed result to 64-bit two's complement. Signed overflow is undefined behaviour in C++;
    the equivalence theorems assume bounds under which `wI64 x = x` -/
def wI64 (x : Int) : Int := toI64 (ofI64 x)
/-- `static_cast<int8_t>(x)`: reduction to `[-128, 128)` -/
def wI8 (x : Int) : Int := (x + 128) % 256 - 128
def addI64 (a b : Int) : Int := wI64 (a + b)
def subI64 (a b : Int) : Int := wI64 (a - b)
def mulI64 (a b : Int) : Int := wI64 (a * b)
def negI64 (a : Int) : Int := wI64 (-a)
/-- `a & b` on `ptrdiff_t`: bitwise on the two's complement words -/
def andI64 (a b : Int) : Int := toI64 (ofI64 a &&& ofI64 b)
/-- `~x` on `size_t` (`x < 2^64`) -/
def not64 (x : Nat) : Nat := 18446744073709551615 - x % 18446744073709551616

/-! ### byte arrays as functions (area HashMeta) -/

/-- array write `a[i] = v` on an array represented as a function of the index -/
def upd (a : Nat → Nat) (i v : Nat) : Nat → Nat := fun j => if j = i then v else a j

end Momo.Tr
