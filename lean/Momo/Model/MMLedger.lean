import Momo.Model.HTLedger
import Momo.Model.MMap
/-
  Ledger layer over the hash-multimap model (C03 / C04 for `momo::HashMultiMap`).

  `Momo/Model/MMap.lean` (C08) says what a multimap looks like after every operation: the key map and, next to every key, the
  value array as a machine `none | fast pool k, state byte | heap array of capacity c` (`VArr`).  This file says what the same
  operations do to the MEMORY MANAGER and to the KEY / VALUE OBJECTS: every operation emits the events of
  `Momo/Model/Ledger.lean` in program order and keeps the books of what the container owns.

  * The key table is a `momo::HashMap<Key, ValueArray>`: its blocks (bucket arrays, `BucketParams`, crew) and its element
    objects (one per stored key; the `ValueArray` next to the key is one trivially relocatable pointer) are those of the ledger
    layer over the hash-table model, `Momo.HTL` (`HTLedger.lean`), used here unchanged: `HTL.addL`, `HTL.insertL`,
    `HTL.removeKeyL`, `HTL.reserveL`, `HTL.clearL`, `HTL.destroyL`, `HTL.newL`.
  * The value array of a key is computed by the functions of the C08 model (`VArr.addBack`, `VArr.removeBack`, `VArr.removeAt`,
    `VArr.copy`, `growCap`, `shrinkCap`): nothing of the representation logic is repeated here.  What is added per key (`VB`):
      `objs`   the value objects behind `mPtr`, in storage order (ids are serial numbers, never reused: a relocation into a
               bigger fast block / into the heap array / into a reallocated heap array ends every object and begins a new one)
      `heap`   the storage block of the heap `momo::Array` (big representation): id and size `capacity * sizeof(Value)`
               (`ArrayBucket::AddBackCrt` -> `Array::CreateCap(maxFastCount * 2)`, `Array::AddBackCrt` growth, `Array::Shrink`)
  * `vcrew`    the block of `HashMultiMap::ValueCrew::Data` (value version + `ValueArrayParams`), `none` for a moved-from container
  * `pbufs`    buffers of the memory pools of `ValueArrayParams` (one fast pool per capacity `1..maxFastCount`, one pool for the
               `Array` headers of the big representation).  WHICH buffers a pool holds is decided by `MemPool` (C09): the pool
               traffic of an operation is part of its schedule (`OpT.pa` / `OpT.pb`, booked after the operation's own events, as
               in `HTL`), EXCEPT where `HashMultiMap` itself determines it: `ValueArrayParams::Clear` (`Clear`, destructor, failed
               copy construction; `MemPool::DeallocateAll`, pools with `blockCount > 1`) and `~Params` return every buffer.

  Order of allocation / release inside `ArrayBucket::AddBackCrt` (ArrayBucket.h:262-320) and `RemoveBack` (322-347), as booked:
    fast -> bigger fast   new pool block; creator; items relocated; old pool block back to its pool            (pools: schedule)
    fast -> heap          `Array` header block from the array pool; heap storage `2 * maxFastCount * sizeof(Value)` ALLOCATED;
                          creator; items relocated; (creator throws: heap storage FREED again); old pool block back to its pool
    heap grows            new storage ALLOCATED; creator; items relocated; old storage FREED (`ArrayData::Reset`)
    heap shrinks          (`2 < count <= capacity / 4`) new storage ALLOCATED; items relocated; old storage FREED; a failure is
                          swallowed (the array keeps its storage)
    heap -> none          (last value removed / `RemoveValues` / `RemoveKey` / `Clear`) values destroyed, heap storage FREED,
                          header block back to the array pool.  There is no transition heap -> fast in ArrayBucket.h.

  Deviations in the ORDER of events (events about different blocks / objects commute for the monitor):
    - `pvAdd` with a new key: the key object, the new table and its migration are booked by `HTL.addL`; the first value's
      construction is booked after it (the code constructs it inside the pair creator, before the migration).  A throwing value
      creator / refused pool block is a throwing pair creator (`HTL`: no event).
    - `RelocateCreate` for copy-only values copies all items, runs the creator, then destroys the sources; booked: creator, then
      copy + destroy item by item.  A copy throwing half-way is booked as a failure before any object event (the partial copies
      are destroyed again by the code).
    - `pvClearValueArrays` visits the keys in the key table's order; booked in the order of the books.

  Source mirrored: HashMultiMap.h ValueCrew 585-663, constructors / destructor / assignment / Swap 722-828, Clear 884-893,
  InsertKey 1040-1048, Remove(keyIter, index) / Remove(iter) 1065-1086, Remove(pairFilter) 1088-1102, RemoveValues 1104-1110,
  RemoveKey 1112-1139, ResetKey 1141-1146, pvClearValueArrays 1188-1194, pvAdd / pvAddValue / pvRemoveValues 1227-1260;
  details/ArrayBucket.h Params 122-176, copy 192-226, AddBackCrt 262-320, RemoveBack 322-349, pvRemoveAll 437-458;
  Array.h Shrink 751-765, ArrayData::Reset; ObjectManager.h RelocateCreate 360-366, CopyExec 292-305.

  Core Lean only (linked into the driver).
-/
namespace Momo.MML
open Momo Momo.HT Momo.MMap

abbrev W := HTL.W
abbrev LEv := HTL.LEv

/-! ### configuration -/

structure Cfg where
  /-- the key table: `HashMap<Key, ValueArray>` (bucket kind, category of `Key`, block sizes, manager class) -/
  h : HTL.Cfg
  /-- `Settings::valueArrayMaxFastCount` -/
  mf : Nat := 7
  /-- relocation category of `Value` -/
  vcat : Obj.Cat := .triv
  /-- `ObjectManager<Value>::isNothrowAnywayAssignable` -/
  vassign : Bool := true
  /-- `sizeof(Value)` -/
  isz : Nat := 4
  /-- `sizeof(ValueCrew::Data)` -/
  vsz : Nat := 8
deriving Inhabited

/-! ### the books of one value array -/

structure VB where
  arr : VArr := VArr.empty
  objs : List Nat := []
  heap : Option (Nat × Nat) := none
deriving Inhabited

abbrev VBs := List (Nat × VB)

def lookV : VBs → Nat → Option VB
  | [], _ => none
  | (k', b) :: r, k => if k' = k then some b else lookV r k

/-- the first entry of key `k` goes -/
def dropV : VBs → Nat → VBs
  | [], _ => []
  | (k', b) :: r, k => if k' = k then r else (k', b) :: dropV r k

def getV (l : VBs) (k : Nat) : VB := (lookV l k).getD {}
def setV (l : VBs) (k : Nat) (b : VB) : VBs := (k, b) :: dropV l k

/-- faults of one value-array step -/
structure VFlt where
  /-- the block of the fast pool / of the array pool is refused (the pool cannot get a buffer) -/
  pool : Bool := false
  /-- the storage of the heap `Array` is refused (`CreateCap`, growth, the range constructor of a copy) -/
  heap : Bool := false
  /-- the value creator / a value copy throws -/
  create : Bool := false
  /-- the allocation (or a copy) inside `Array::Shrink` fails: swallowed by `RemoveBack` -/
  shrink : Bool := false
  /-- `AssignAnywayValue` throws (values that are not nothrow-anyway-assignable) -/
  assign : Bool := false
  /-- a copy of a value array stops after this many values (throwing copy constructor) -/
  copyStop : Option Nat := none
deriving Repr, Inhabited

/-- `ItemTraits::Relocate` of every object of the list into fresh places -/
def relocAll (c : Obj.Cat) : List Nat → W → List Nat × W
  | [], w => ([], w)
  | e :: r, w => ((w.relocE c e).1 :: (relocAll c r (w.relocE c e).2).1, (relocAll c r (w.relocE c e).2).2)

def destroyObjs : List Nat → W → W
  | [], w => w
  | e :: r, w => destroyObjs r (w.dtorE e)

def copyObjs : List Nat → W → List Nat × W
  | [], w => ([], w)
  | e :: r, w => ((w.copyE e).1 :: (copyObjs r (w.copyE e).2).1, (copyObjs r (w.copyE e).2).2)

def freeHeap (cfg : Cfg) (h : Option (Nat × Nat)) (w : W) : W :=
  match h with
  | none => w
  | some p => w.freeB cfg.h.mgr p.1 p.2

/-- new storage of `n` bytes is allocated, the creator runs, the items are relocated, the old storage (if any) is freed:
    `ArrayData::Reset` of a growing heap array; the step fast -> heap (`Array::CreateCap`, no old storage) -/
def growTo (cfg : Cfg) (b : VB) (a' : VArr) (n : Nat) (w : W) : VB × W :=
  ({ arr := a', objs := (relocAll cfg.vcat b.objs (w.allocB cfg.h.mgr n).2.ctorE.2).1 ++ [(w.allocB cfg.h.mgr n).2.ctorE.1],
     heap := some ((w.allocB cfg.h.mgr n).1, n) },
    freeHeap cfg b.heap (relocAll cfg.vcat b.objs (w.allocB cfg.h.mgr n).2.ctorE.2).2)

/-- the creator throws after the new storage was obtained: it is freed again -/
def growFail (cfg : Cfg) (n : Nat) (w : W) : W := (w.allocB cfg.h.mgr n).2.freeB cfg.h.mgr (w.allocB cfg.h.mgr n).1 n

/-- `pvAddValue` = `ArrayBucket::AddBackCrt(params, valueCreator)`; `none` = it threw (nothing changed) -/
def vbAdd (cfg : Cfg) (b : VB) (v : Nat) (f : VFlt) (w : W) : Option VB × W :=
  match b.arr.rep with
  | .none =>
    if f.pool || f.create then (none, w)
    else (some { b with arr := b.arr.addBack cfg.mf v, objs := b.objs ++ [w.ctorE.1] }, w.ctorE.2)
  | .fast s =>
    if stateCount s = statePool s then
      if stateCount s + 1 ≤ cfg.mf then
        -- a block of the next fast pool; `RelocateCreate`; the old block goes back to its pool
        if f.pool || f.create then (none, w)
        else (some { b with arr := b.arr.addBack cfg.mf v, objs := (relocAll cfg.vcat b.objs w.ctorE.2).1 ++ [w.ctorE.1] },
              (relocAll cfg.vcat b.objs w.ctorE.2).2)
      else
        -- the `Array` header from the array pool, `Array::CreateCap(maxFastCount * 2)`, `RelocateCreate`
        if f.pool || f.heap then (none, w)
        else if f.create then (none, growFail cfg (cfg.mf * Extracted.abHeapCapMul * cfg.isz) w)
        else (some (growTo cfg b (b.arr.addBack cfg.mf v) (cfg.mf * Extracted.abHeapCapMul * cfg.isz) w).1,
              (growTo cfg b (b.arr.addBack cfg.mf v) (cfg.mf * Extracted.abHeapCapMul * cfg.isz) w).2)
    else
      if f.create then (none, w)
      else (some { b with arr := b.arr.addBack cfg.mf v, objs := b.objs ++ [w.ctorE.1] }, w.ctorE.2)
  | .heap cap =>
    if b.arr.items.length < cap then
      if f.create then (none, w)
      else (some { b with arr := b.arr.addBack cfg.mf v, objs := b.objs ++ [w.ctorE.1] }, w.ctorE.2)
    else
      -- `Array::pvAddBackGrow`: `ArrayData::Reset(newCapacity, …)` allocates, creates / relocates, frees the old storage
      if f.heap then (none, w)
      else if f.create then (none, growFail cfg (growCap cap (b.arr.items.length + 1) * cfg.isz) w)
      else (some (growTo cfg b (b.arr.addBack cfg.mf v) (growCap cap (b.arr.items.length + 1) * cfg.isz) w).1,
            (growTo cfg b (b.arr.addBack cfg.mf v) (growCap cap (b.arr.items.length + 1) * cfg.isz) w).2)

/-- `pvRemoveAll` (`RemoveAll`, `Clear`, the last value's `RemoveBack`): the values are destroyed, `~Array` frees the storage -/
def vbRemoveAll (cfg : Cfg) (b : VB) (w : W) : W := freeHeap cfg b.heap (destroyObjs b.objs w)

/-- does `RemoveBack` reallocate the heap array (`2 < count && count <= capacity / 4`, the allocation succeeds) -/
def shrinks (a : VArr) (shrinkFails : Bool) : Option Nat :=
  match a.rep with
  | .heap cap =>
    if Extracted.abShrinkMinCount < a.items.length ∧ a.items.length ≤ cap / Extracted.abShrinkDiv ∧ shrinkFails = false then
      some (shrinkCap cap (a.items.length - 1) (a.items.length * Extracted.abShrinkMul))
    else none
  | _ => none

/-- `ArrayBucket::RemoveBack(params)` on the books; the array itself is `VArr.removeBack` -/
def vbRemoveBack (cfg : Cfg) (b : VB) (a' : VArr) (f : VFlt) (w : W) : VB × W :=
  if b.arr.count = 1 then ({ arr := a', objs := [], heap := none }, vbRemoveAll cfg b w)
  else
    match b.objs.getLast? with
    | none => ({ b with arr := a' }, w)
    | some l =>
      match shrinks b.arr f.shrink with
      | none => ({ b with arr := a', objs := b.objs.dropLast }, w.dtorE l)
      | some nc =>
        -- `Array::Shrink(count * 2)`: `ArrayData::Reset` allocates, relocates, frees the old storage
        ({ arr := a', objs := (relocAll cfg.vcat b.objs.dropLast ((w.dtorE l).allocB cfg.h.mgr (nc * cfg.isz)).2).1,
           heap := some (((w.dtorE l).allocB cfg.h.mgr (nc * cfg.isz)).1, nc * cfg.isz) },
          freeHeap cfg b.heap (relocAll cfg.vcat b.objs.dropLast ((w.dtorE l).allocB cfg.h.mgr (nc * cfg.isz)).2).2)

/-- `HashMultiMap::Remove(iter)` inside one key: `AssignAnywayValue(last, values[i])`, then `RemoveBack`.
    `none` = the assignment threw (nothing changed) -/
def vbRemoveAt (cfg : Cfg) (b : VB) (i : Nat) (f : VFlt) (w : W) : Option VB × W :=
  if !cfg.vassign && f.assign then (none, w)
  else
    match b.objs.getLast?, b.objs[i]? with
    | some l, some d =>
      (some (vbRemoveBack cfg b (b.arr.removeAt i f.shrink) f ((w.useE l).useE d)).1,
        (vbRemoveBack cfg b (b.arr.removeAt i f.shrink) f ((w.useE l).useE d)).2)
    | _, _ => (some { b with arr := b.arr.removeAt i f.shrink }, w)

/-- `ArrayBucket(params, bucket)`: `none` = it threw (nothing is left) -/
def vbCopy (cfg : Cfg) (src : VB) (f : VFlt) (w : W) : Option VB × W :=
  if src.arr.bounds.length = 0 then (some {}, w)
  else if src.arr.bounds.length ≤ cfg.mf then
    if f.pool then (none, w)
    else match f.copyStop with
      | some n => (none, destroyObjs (copyObjs (src.objs.take n) w).1 (copyObjs (src.objs.take n) w).2)
      | none => (some { arr := src.arr.copy cfg.mf, objs := (copyObjs src.objs w).1, heap := none }, (copyObjs src.objs w).2)
  else
    if f.pool || f.heap then (none, w)
    else match f.copyStop with
      | some n =>
        (none, (destroyObjs (copyObjs (src.objs.take n) (w.allocB cfg.h.mgr (src.arr.bounds.length * cfg.isz)).2).1
          (copyObjs (src.objs.take n) (w.allocB cfg.h.mgr (src.arr.bounds.length * cfg.isz)).2).2).freeB cfg.h.mgr
            (w.allocB cfg.h.mgr (src.arr.bounds.length * cfg.isz)).1 (src.arr.bounds.length * cfg.isz))
      | none =>
        (some { arr := src.arr.copy cfg.mf, objs := (copyObjs src.objs (w.allocB cfg.h.mgr (src.arr.bounds.length * cfg.isz)).2).1,
                heap := some ((w.allocB cfg.h.mgr (src.arr.bounds.length * cfg.isz)).1, src.arr.bounds.length * cfg.isz) },
          (copyObjs src.objs (w.allocB cfg.h.mgr (src.arr.bounds.length * cfg.isz)).2).2)

/-! ### the books of one multimap -/

structure St where
  /-- the key table with its own books (`HTL`) -/
  kt : HTL.St := {}
  vcrew : Option Nat := none
  vbs : VBs := []
  pbufs : List (Nat × Nat) := []
  /-- `mValueCount` -/
  count : Nat := 0
deriving Inhabited

def vObjs (l : VBs) : List Nat := (l.map (fun p => p.2.objs)).flatten
def vHeaps (l : VBs) : List (Nat × Nat) := (l.map (fun p => HTL.optL p.2.heap)).flatten

/-- the blocks of the value side: (id, manager class, size) -/
def St.vblocks (cfg : Cfg) (st : St) : List (Nat × Nat × Nat) :=
  (HTL.optL st.vcrew).map (fun b => (b, cfg.h.mgr, cfg.vsz)) ++ (vHeaps st.vbs).map (fun p => (p.1, cfg.h.mgr, p.2)) ++
    st.pbufs.map (fun p => (p.1, cfg.h.mgr, p.2))

/-- everything the multimap holds at the memory manager -/
def St.blocks (cfg : Cfg) (st : St) : List (Nat × Nat × Nat) := st.kt.blocks cfg.h ++ st.vblocks cfg
/-- every key object and every value object of the multimap -/
def St.elems (st : St) : List Nat := st.kt.elems ++ vObjs st.vbs

/-- the state of the C08 model this container stands for (key table of the C01 model, value arrays, value count) -/
def St.mm (st : St) : MM Table := ⟨st.kt.t, st.vbs.map (fun p => (p.1, p.2.arr)), st.count⟩

/-! ### faults of one operation -/

structure Flt where
  /-- faults of the key table (`HTL.Flt`: functors, bucket array, `BucketParams`, crew, key creator, assignment, migration) -/
  k : HTL.Flt := {}
  v : VFlt := {}
  /-- the `ValueCrew::Data` block is refused (constructors) -/
  vcrew : Bool := false
deriving Inhabited

/-! ### operations -/

/-- `Add(key, value)` = `pvAdd` -/
def addL (cfg : Cfg) (hf : Nat → Nat) (st : St) (k tg v : Nat) (f : Flt) (w : W) : St × W × HTL.Res :=
  if f.k.hashThrows || f.k.eqThrows then (st, w, .user)
  else match findTable cfg.h.sp hf st.kt.t k with
    | some _ =>
      -- `AddCrt(keyIter, valueCreator)` = `pvAddValue`
      match vbAdd cfg (getV st.vbs k) v f.v w with
      | (none, w1) => (st, w1, .done .badAlloc)
      | (some b, w1) => ({ st with vbs := setV st.vbs k b, count := st.count + 1 }, w1, .done .ok)
    | none =>
      -- `mHashMap.AddCrt(pos, key, valuesCreator)`: the pair creator makes the key and the one-value array
      match HTL.addL cfg.h hf st.kt ⟨k, tg⟩ .fresh { f.k with create := f.k.create || f.v.pool || f.v.create } w with
      | (kt1, w1, .ok) =>
        ({ st with kt := kt1, vbs := (k, { arr := VArr.empty.addBack cfg.mf v, objs := [w1.ctorE.1], heap := none }) :: st.vbs,
                   count := st.count + 1 }, w1.ctorE.2, .done .ok)
      | (kt1, w1, o) => ({ st with kt := kt1 }, w1, .done o)

/-- `Add(keyIter, value)` for the key iterator of a present key (`Find(key)` before, outside the operation) -/
def addAtL (cfg : Cfg) (hf : Nat → Nat) (st : St) (k v : Nat) (f : Flt) (w : W) : St × W × HTL.Res :=
  match findTable cfg.h.sp hf st.kt.t k with
  | none => (st, w, .no)
  | some _ =>
    match vbAdd cfg (getV st.vbs k) v f.v w with
    | (none, w1) => (st, w1, .done .badAlloc)
    | (some b, w1) => ({ st with vbs := setV st.vbs k b, count := st.count + 1 }, w1, .done .ok)

/-- `InsertKey(key)` = `mHashMap.Insert(key, ValueArray())` -/
def insertKeyL (cfg : Cfg) (hf : Nat → Nat) (st : St) (k tg : Nat) (f : Flt) (w : W) : St × W × HTL.Res :=
  ({ st with kt := (HTL.insertL cfg.h hf st.kt ⟨k, tg⟩ .fresh f.k w).1 }, (HTL.insertL cfg.h hf st.kt ⟨k, tg⟩ .fresh f.k w).2.1,
    (HTL.insertL cfg.h hf st.kt ⟨k, tg⟩ .fresh f.k w).2.2)

/-- `Remove(keyIter, valueIndex)`; outside the precondition (`MOMO_CHECK`) nothing happens -/
def removeValueL (cfg : Cfg) (hf : Nat → Nat) (st : St) (k i : Nat) (f : Flt) (w : W) : St × W × HTL.Res :=
  match findTable cfg.h.sp hf st.kt.t k with
  | none => (st, w, .no)
  | some _ =>
    if i < (getV st.vbs k).arr.count then
      match vbRemoveAt cfg (getV st.vbs k) i f.v w with
      | (none, w1) => (st, w1, .done .badAlloc)
      | (some b, w1) => ({ st with vbs := setV st.vbs k b, count := st.count - 1 }, w1, .done .ok)
    else (st, w, .no)

/-- `RemoveValues(keyIter)`: the key stays, with an empty array (never fails) -/
def removeValuesL (cfg : Cfg) (hf : Nat → Nat) (st : St) (k : Nat) (w : W) : St × W :=
  match findTable cfg.h.sp hf st.kt.t k with
  | none => (st, w)
  | some _ =>
    ({ st with vbs := dropV st.vbs k, count := st.count - (getV st.vbs k).arr.count }, vbRemoveAll cfg (getV st.vbs k) w)

/-- `RemoveKey(key)` = `Find` + `RemoveKey(keyIter)`: the value array is moved aside, the key leaves the key table (a throwing
    key assignment puts the array back: nothing changed), then `pvRemoveValues(tempValueArray)` -/
def removeKeyL (cfg : Cfg) (hf : Nat → Nat) (st : St) (k : Nat) (f : Flt) (w : W) : St × W × HTL.Res × Nat :=
  match HTL.removeKeyL cfg.h hf st.kt k f.k w with
  | (kt1, w1, .done .ok) =>
    ({ st with kt := kt1, vbs := dropV st.vbs k, count := st.count - (getV st.vbs k).arr.count },
      vbRemoveAll cfg (getV st.vbs k) w1, .done .ok, (getV st.vbs k).arr.count)
  | (kt1, w1, r) => ({ st with kt := kt1 }, w1, r, 0)

/-- `ResetKey(keyIter, key')` with `key'` equal to the stored key: the key object is assigned to -/
def resetKeyL (cfg : Cfg) (hf : Nat → Nat) (st : St) (k tg : Nat) (w : W) : St × W :=
  match findTable cfg.h.sp hf st.kt.t k, HTL.lookE st.kt.els k with
  | some _, some e => ({ st with kt := { st.kt with t := htSetTag cfg.h.sp hf st.kt.t k tg } }, w.useE e)
  | _, _ => (st, w)

/-- `ref.value.Clear(valueArrayParams)` for every key -/
def clearArrays (cfg : Cfg) : VBs → W → W
  | [], w => w
  | p :: r, w => clearArrays cfg r (vbRemoveAll cfg p.2 w)

/-- `pvClearValueArrays()`: every value array is cleared, then `valueArrayParams.Clear()` gives every pool buffer back -/
def clearValuesL (cfg : Cfg) (st : St) (w : W) : W := HTL.freeAllBufs cfg.h st.pbufs (clearArrays cfg st.vbs w)

/-- `Clear()`: `pvClearValueArrays(); mHashMap.Clear();` (the key table shrinks).  A moved-from container (null value crew) is
    left alone by the code; it has nothing on the books, so the same definition serves. -/
def clearL (cfg : Cfg) (st : St) (w : W) : St × W :=
  ({ st with kt := (HTL.clearL cfg.h st.kt true (clearValuesL cfg st w)).1, vbs := [], pbufs := [], count := 0 },
    (HTL.clearL cfg.h st.kt true (clearValuesL cfg st w)).2)

/-- `mValueCrew.Destroy(memManager)`: `~Data` (the pools are empty by now), the block goes back -/
def freeCrew (cfg : Cfg) (c : Option Nat) (w : W) : W :=
  match c with
  | none => w
  | some b => w.freeB cfg.h.mgr b cfg.vsz

/-- `~HashMultiMap`: `pvClearValueArrays(); mValueCrew.Destroy(…)` unless moved-from (then there is nothing on the books);
    then `~HashMap` -/
def destroyL (cfg : Cfg) (st : St) (w : W) : W :=
  HTL.destroyL cfg.h st.kt (freeCrew cfg st.vcrew (clearValuesL cfg st w))

/-- `HashMultiMap()`: the key table's crew, then the value crew. `none` = a block was refused (nothing is left) -/
def newL (cfg : Cfg) (f : Flt) (w : W) : Option St × W :=
  match HTL.newL cfg.h f.k w with
  | (none, w0) => (none, w0)
  | (some kt, w0) =>
    if f.vcrew then (none, HTL.destroyL cfg.h kt w0)
    else (some { kt := kt, vcrew := some (w0.allocB cfg.h.mgr cfg.vsz).1 }, (w0.allocB cfg.h.mgr cfg.vsz).2)

/-- the loop of the copy constructor: for every key of the source (order of the source's key table) the value array is copied,
    then the pair is inserted (`Insert(ref.key, std::move(valueArray))`; a failure clears the copied array).
    `f n` = the faults striking at the `n`-th key. `true` = it threw. -/
def copyGo (cfg : Cfg) (hf : Nat → Nat) (src : VBs) (f : Nat → Flt) : List Item → Nat → St → W → St × W × Bool
  | [], _, st, w => (st, w, false)
  | it :: r, n, st, w =>
    match vbCopy cfg (getV src it.key) (f n).v w with
    | (none, w1) => (st, w1, true)
    | (some b, w1) =>
      match HTL.insertL cfg.h hf st.kt it .fresh (f n).k w1 with
      | (kt1, w2, .done .ok) => copyGo cfg hf src f r (n + 1) { st with kt := kt1, vbs := (it.key, b) :: st.vbs } w2
      | (kt1, w2, _) => ({ st with kt := kt1 }, vbRemoveAll cfg b w2, true)

/-- `HashMultiMap(const HashMultiMap&)` (HashMultiMap.h:770-799). `f0` = faults of the members' construction and of `Reserve` -/
def copyL (cfg : Cfg) (hf : Nat → Nat) (src : St) (f0 : Flt) (f : Nat → Flt) (w : W) : Option St × W :=
  match newL cfg f0 w with
  | (none, w0) => (none, w0)
  | (some st0, w0) =>
    match HTL.reserveL cfg.h hf st0.kt src.kt.t.count f0.k w0 with
    | (kt1, w1, .ok) =>
      match copyGo cfg hf src.vbs f (traverse src.kt.t) 0 { st0 with kt := kt1, count := src.count } w1 with
      | (st2, w2, false) => (some st2, w2)
      | (st2, w2, true) => (none, destroyL cfg st2 w2)
    | (kt1, w1, _) => (none, destroyL cfg { st0 with kt := kt1 } w1)

/-- one key of `Remove(pairFilter)`: the values are walked from index `i`; a removed value is replaced by the last one, which is
    examined next. `fl n` = the faults of the `n`-th removal. `(books, world, removed so far, threw)` -/
def removeIfKey (cfg : Cfg) (p : Nat → Bool) (fl : Nat → VFlt) : Nat → VB → Nat → Nat → W → VB × W × Nat × Bool
  | 0, b, _, n, w => (b, w, n, false)
  | fuel + 1, b, i, n, w =>
    match b.arr.bounds[i]? with
    | none => (b, w, n, false)
    | some v =>
      if p v then
        match vbRemoveAt cfg b i (fl n) w with
        | (none, w1) => (b, w1, n, true)
        | (some b1, w1) => removeIfKey cfg p fl fuel b1 i (n + 1) w1
      else removeIfKey cfg p fl fuel b (i + 1) n w

/-- `Remove(pairFilter)` (basic guarantee): keys in the order of the key table -/
def removeIfGo (cfg : Cfg) (p : Nat → Nat → Bool) (fl : Nat → VFlt) : List Nat → St → Nat → W → St × W × Nat × Bool
  | [], st, n, w => (st, w, n, false)
  | k :: ks, st, n, w =>
    match lookV st.vbs k with
    | none => removeIfGo cfg p fl ks st n w
    | some b =>
      match removeIfKey cfg (p k) fl b.arr.count b 0 n w with
      | (b1, w1, n1, true) => ({ st with vbs := setV st.vbs k b1, count := st.count - (n1 - n) }, w1, n1, true)
      | (b1, w1, n1, false) => removeIfGo cfg p fl ks { st with vbs := setV st.vbs k b1, count := st.count - (n1 - n) } n1 w1

def removeIfL (cfg : Cfg) (p : Nat → Nat → Bool) (fl : Nat → VFlt) (st : St) (w : W) : St × W × Nat × Bool :=
  removeIfGo cfg p fl ((traverse st.kt.t).map (·.key)) st 0 w

/-- the pools of `ValueArrayParams` obtain and give back buffers (while the value crew exists) -/
def poolTraffic (cfg : Cfg) (st : St) (p : HTL.PoolT) (w : W) : St × W :=
  match st.vcrew with
  | none => (st, w)
  | some _ =>
    ({ st with pbufs := (HTL.freeBufs cfg.h p.frees (HTL.getBufs cfg.h p.gets st.pbufs w).1 (HTL.getBufs cfg.h p.gets st.pbufs w).2).1 },
      (HTL.freeBufs cfg.h p.frees (HTL.getBufs cfg.h p.gets st.pbufs w).1 (HTL.getBufs cfg.h p.gets st.pbufs w).2).2)

/-! ### the system of the correspondence runs: two multimaps -/

structure Sys where
  a : St := {}
  b : St := {}
  w : W := {}
deriving Inhabited

inductive Op where
  /-- `Add(key, value)` into A (`toB = false`) or B -/
  | add (toB : Bool) (k tg v : Nat) (f : Flt)
  /-- `Add(Find(key), value)` -/
  | addAt (k v : Nat) (f : Flt)
  | insertKey (k tg : Nat) (f : Flt)
  /-- `Remove(Find(key), index)` -/
  | removeValue (k i : Nat) (f : Flt)
  /-- `Remove(pairFilter)` with `filter(key, value) = ((key + value) % m == r)` -/
  | removeIf (m r : Nat) (fl : Nat → VFlt)
  | removeValues (k : Nat)
  | removeKey (k : Nat) (f : Flt)
  | resetKey (k tg : Nat)
  | clear
  /-- `B = A` (copy construction, `Swap`, destruction of B's old contents) -/
  | copyTo (f0 : Flt) (f : Nat → Flt)
  /-- `B = std::move(A); A = HashMultiMap();` -/
  | moveTo (f : Flt)
  | swap

inductive Out where
  | res (r : HTL.Res)
  | num (n : Nat) (threw : Bool)
  | unit
  | threw
deriving Inhabited

/-- two default-constructed multimaps -/
def Sys.init (cfg : Cfg) : Sys :=
  { a := ((newL cfg {} {}).1).getD {}, b := ((newL cfg {} (newL cfg {} {}).2).1).getD {}, w := (newL cfg {} (newL cfg {} {}).2).2 }

def step (cfg : Cfg) (hf : Nat → Nat) (s : Sys) : Op → Sys × Out
  | .add toB k tg v f =>
    if toB then ({ s with b := (addL cfg hf s.b k tg v f s.w).1, w := (addL cfg hf s.b k tg v f s.w).2.1 },
      .res (addL cfg hf s.b k tg v f s.w).2.2)
    else ({ s with a := (addL cfg hf s.a k tg v f s.w).1, w := (addL cfg hf s.a k tg v f s.w).2.1 },
      .res (addL cfg hf s.a k tg v f s.w).2.2)
  | .addAt k v f =>
    ({ s with a := (addAtL cfg hf s.a k v f s.w).1, w := (addAtL cfg hf s.a k v f s.w).2.1 }, .res (addAtL cfg hf s.a k v f s.w).2.2)
  | .insertKey k tg f =>
    ({ s with a := (insertKeyL cfg hf s.a k tg f s.w).1, w := (insertKeyL cfg hf s.a k tg f s.w).2.1 },
      .res (insertKeyL cfg hf s.a k tg f s.w).2.2)
  | .removeValue k i f =>
    ({ s with a := (removeValueL cfg hf s.a k i f s.w).1, w := (removeValueL cfg hf s.a k i f s.w).2.1 },
      .res (removeValueL cfg hf s.a k i f s.w).2.2)
  | .removeIf m r fl =>
    ({ s with a := (removeIfL cfg (fun k v => (k + v) % m == r) fl s.a s.w).1,
              w := (removeIfL cfg (fun k v => (k + v) % m == r) fl s.a s.w).2.1 },
      .num (removeIfL cfg (fun k v => (k + v) % m == r) fl s.a s.w).2.2.1 (removeIfL cfg (fun k v => (k + v) % m == r) fl s.a s.w).2.2.2)
  | .removeValues k =>
    ({ s with a := (removeValuesL cfg hf s.a k s.w).1, w := (removeValuesL cfg hf s.a k s.w).2 }, .unit)
  | .removeKey k f =>
    ({ s with a := (removeKeyL cfg hf s.a k f s.w).1, w := (removeKeyL cfg hf s.a k f s.w).2.1 },
      match (removeKeyL cfg hf s.a k f s.w).2.2.1 with
      | .done .ok => .num (removeKeyL cfg hf s.a k f s.w).2.2.2 false
      | r => .res r)
  | .resetKey k tg => ({ s with a := (resetKeyL cfg hf s.a k tg s.w).1, w := (resetKeyL cfg hf s.a k tg s.w).2 }, .unit)
  | .clear => ({ s with a := (clearL cfg s.a s.w).1, w := (clearL cfg s.a s.w).2 }, .unit)
  | .copyTo f0 f =>
    match copyL cfg hf s.a f0 f s.w with
    | (none, w1) => ({ s with w := w1 }, .threw)
    | (some st, w1) => ({ s with b := st, w := destroyL cfg s.b w1 }, .unit)
  | .moveTo f =>
    -- `HashMultiMap(std::move(A)).Swap(B)`, the temporary dies with B's old contents; then A is assigned a new empty container
    match newL cfg f (destroyL cfg s.b s.w) with
    | (none, w2) => ({ s with b := s.a, a := {}, w := w2 }, .threw)
    | (some st, w2) => ({ s with b := s.a, a := st, w := w2 }, .unit)
  | .swap => ({ s with a := s.b, b := s.a }, .unit)

/-- an operation together with the pool traffic it causes in A's and in B's value-array pools and in the pools of the two key
    tables (chained bucket kinds) -/
structure OpT where
  op : Op
  pa : HTL.PoolT := {}
  pb : HTL.PoolT := {}
  ka : HTL.PoolT := {}
  kb : HTL.PoolT := {}

def ktTraffic (cfg : Cfg) (st : St) (p : HTL.PoolT) (w : W) : St × W :=
  ({ st with kt := (HTL.poolTraffic cfg.h st.kt p w).1 }, (HTL.poolTraffic cfg.h st.kt p w).2)

def stepT (cfg : Cfg) (hf : Nat → Nat) (s : Sys) (o : OpT) : Sys × Out :=
  let r := step cfg hf s o.op
  let a := poolTraffic cfg r.1.a o.pa r.1.w
  let b := poolTraffic cfg r.1.b o.pb a.2
  let a2 := ktTraffic cfg a.1 o.ka b.2
  let b2 := ktTraffic cfg b.1 o.kb a2.2
  ({ a := a2.1, b := b2.1, w := b2.2 }, r.2)

def run (cfg : Cfg) (hf : Nat → Nat) : Sys → List OpT → Sys
  | s, [] => s
  | s, o :: ops => run cfg hf (stepT cfg hf s o).1 ops

/-- the end of a history: B and A are destroyed -/
def finish (cfg : Cfg) (s : Sys) : W := destroyL cfg s.a (destroyL cfg s.b s.w)

def Sys.blocks (cfg : Cfg) (s : Sys) : List (Nat × Nat × Nat) := s.a.blocks cfg ++ s.b.blocks cfg
def Sys.elems (s : Sys) : List Nat := s.a.elems ++ s.b.elems

end Momo.MML
