import Momo.Model.Probe
/-
  Executable model of momo::HashSet / HashMap (C01, C11; used by C08, C10, C14, C15).

  Source mirrored (include/momo/HashSet.h unless said otherwise):
    pvFind (both overloads)            -> findGen / findTable
    pvAddNogrow                         -> addNogrow
    pvAddGrow, pvGetNewLogBucketCount   -> add (branch pvAddGrow) / growLog / newLog
    pvAdd                               -> add
    pvRemove (+ Bucket::Remove)         -> removeAt (swap-with-last inside the bucket)
    pvRelocateItems (3 overloads)       -> relocate / relocGens / drainGen
    Reserve, Clear                      -> reserve, clear
    HashSetConstIterator::pvInc/pvMove  -> traverse (generation by generation, buckets ascending,
                                           items of a bucket from the last to the first)
    copy constructor                    -> copyOf
    MergeTo (pvMergeTo)                 -> mergeTo
  Buckets (details/HashBucket*.h): every bucket type stores its items in insertion order
  (`GetBounds` order), `AddCrt` appends, `Remove` moves the last item into the hole; what differs is
  maxCount, the probing rule, how `WasFull` is derived and how the search bound is stored. Those
  differences are the fields of `Spec`.
  Core Lean only (linked into the driver).
-/
namespace Momo.HT
open Momo Momo.Probe

structure Item where
  key : Nat
  val : Nat
deriving DecidableEq, Repr, Inhabited

structure Bucket where
  items : List Item
  wasFull : Bool
  /-- encoder state of the search bound: Open2N2 = (mantissa, exponent), OpenN1/Open8 = (byte, 0) -/
  bst : Nat × Nat
deriving Repr, Inhabited

structure Gen where
  L : Nat
  bs : List Bucket
deriving Repr, Inhabited

/-- how the bound of a home bucket is kept: `none` = `BucketBase` (always `2^L - 1`),
    `zero` = UnlimP (`GetMaxProbe` = 0, never probes) -/
inductive BoundKind | none | zero | mp2 | mp3
deriving DecidableEq, Repr, Inhabited

/-- capacity rule `CalcCapacity(bucketCount, maxCount)` as exact rational floor -/
inductive CapKind
  | base          -- HashBucketBase: maxCount 1: 5/8·n, 2: n + n/2, else 2n
  | ratio (num den : Nat)   -- floor(n·maxCount·num/den): Open2N2 11/12, OpenN1 5/6, Open8 13/14
deriving Repr, Inhabited

structure Spec where
  maxCount : Nat
  quad : Bool
  /-- `WasFull()` is true from the moment the bucket holds `fullFrom` items and stays true;
      0 = constantly true (open addressing; LimP4 when its smallest pool is the largest) -/
  fullFrom : Nat
  /-- UnlimP: `IsFull` and `WasFull` constantly false -/
  unlimited : Bool
  bound : BoundKind
  cap : CapKind
  /-- `GetBucketCountShift` of HashBucketBase (true) or constant 1 (false) -/
  baseShift : Bool
  logStart : Nat
  /-- `areItemsNothrowRelocatable`: lookups consult the newest generation only -/
  nothrowReloc : Bool
  overloadIfCannotGrow : Bool := true
deriving Repr, Inhabited

structure Table where
  gens : List Gen      -- newest first (mBuckets, then GetNextBuckets …)
  count : Nat
  cap : Nat
deriving Repr, Inhabited

/-! ### hash families shared with the harness (`harness/common/hash_families.h`) -/
def w64 (x : Nat) : Nat := x % 18446744073709551616

def hashFam (f key : Nat) : Nat :=
  match f with
  | 0 => 0                                          -- constant
  | 1 => key % 16                                   -- low bits only
  | 2 => w64 (key * 72057594037927936)              -- high byte only (key << 56)
  | 3 => key                                        -- identity
  | 4 => w64 (key * 11400714819323198485)           -- multiplicative (Fibonacci hashing)
  | 5 => w64 ((key % 2) * 9223372036854775808 + key / 2 % 4)   -- two clusters
  | 6 => w64 (127 * 144115188075855872 + key)                   -- top seven bits all ones (short hash 127 for every key)
  | _ => w64 ((if key % 3 = 0 then 127 else key % 128) * 144115188075855872 + key / 3)   -- every third key has short hash 127

/-! ### bucket level -/
def emptyBucket (sp : Spec) : Bucket := ⟨[], sp.fullFrom == 0 && !sp.unlimited, (0, 0)⟩

def bkt (sp : Spec) (bs : List Bucket) (i : Nat) : Bucket := bs.getD i (emptyBucket sp)

def isFull (sp : Spec) (b : Bucket) : Bool := !sp.unlimited && b.items.length ≥ sp.maxCount

/-- `GetMaxProbe(logBucketCount)` -/
def maxProbe (sp : Spec) (L : Nat) (b : Bucket) : Nat :=
  match sp.bound with
  | .none => 2 ^ L - 1
  | .zero => 0
  | .mp2 => (MP2.mk b.bst.1 b.bst.2).dec
  | .mp3 => getMax3 L b.bst.1

/-- `UpdateMaxProbe(probe)` -/
def updProbe (sp : Spec) (b : Bucket) (p : Nat) : Bucket :=
  match sp.bound with
  | .none => b
  | .zero => b
  | .mp2 => let s := (MP2.mk b.bst.1 b.bst.2).upd p; { b with bst := (s.m, s.e) }
  | .mp3 => { b with bst := (upd3 b.bst.1 p, 0) }

/-- `AddCrt`: append; `WasFull` turns (and stays) true once `fullFrom` items are held -/
def pushItem (sp : Spec) (it : Item) (b : Bucket) : Bucket :=
  { b with items := b.items ++ [it],
           wasFull := b.wasFull || (!sp.unlimited && decide (b.items.length + 1 ≥ sp.fullFrom)) }

/-- `Bucket::Remove`: the last item is moved into the hole; flags and bound stay -/
def removeAt (j : Nat) (b : Bucket) : Bucket :=
  { b with items := match b.items.getLast? with
      | none => []
      | some l => (b.items.set j l).dropLast }

def nextIdx (sp : Spec) (L idx probe : Nat) : Nat :=
  if sp.quad then nextQuad L idx probe else nextLin L idx

def updBkt (sp : Spec) (bs : List Bucket) (i : Nat) (f : Bucket → Bucket) : List Bucket :=
  bs.set i (f (bkt sp bs i))

def keyIdx (items : List Item) (k : Nat) : Option Nat :=
  let i := items.findIdx (fun it => it.key == k)
  if i < items.length then some i else none

/-! ### one generation -/
def emptyGen (sp : Spec) (L : Nat) : Gen := ⟨L, List.replicate (2 ^ L) (emptyBucket sp)⟩

/-- the probing loop of the static `pvFind`: returns (bucket index, item index) -/
def findLoop (sp : Spec) (g : Gen) (k maxP : Nat) : Nat → Nat → Nat → Option (Nat × Nat)
  | 0, _, _ => none
  | fuel+1, probe, idx =>
    if (bkt sp g.bs idx).wasFull && decide (probe ≤ maxP) then
      let idx' := nextIdx sp g.L idx probe
      match keyIdx (bkt sp g.bs idx').items k with
      | some j => some (idx', j)
      | none => findLoop sp g k maxP fuel (probe + 1) idx'
    else none

def findGen (sp : Spec) (g : Gen) (h k : Nat) : Option (Nat × Nat) :=
  let home := start g.L h
  match keyIdx (bkt sp g.bs home).items k with
  | some j => some (home, j)
  | none =>
    let maxP := maxProbe sp g.L (bkt sp g.bs home)
    findLoop sp g k maxP (maxP + 1) 1 home

/-- the loop of `pvAddNogrow`: first non-full bucket on the probe path, with its displacement -/
def findSlot (sp : Spec) (g : Gen) : Nat → Nat → Nat → Option (Nat × Nat)
  | 0, _, _ => none
  | fuel+1, probe, idx =>
    if !isFull sp (bkt sp g.bs idx) then some (probe, idx)
    else if probe + 1 ≥ 2 ^ g.L then none
    else findSlot sp g fuel (probe + 1) (nextIdx sp g.L idx (probe + 1))

/-- `pvAddNogrow` on one generation; `none` = `std::runtime_error("Hash table is full")` -/
def addNogrowGen (sp : Spec) (g : Gen) (h : Nat) (it : Item) : Option (Gen × Nat) :=
  let home := start g.L h
  match findSlot sp g (2 ^ g.L) 0 home with
  | none => none
  | some (p, idx) =>
    let bs1 := updBkt sp g.bs idx (pushItem sp it)
    let bs2 := updBkt sp bs1 home (fun b => updProbe sp b p)
    some ({ g with bs := bs2 }, idx)

/-! ### table level -/
def capacityOf (sp : Spec) (L : Nat) : Nat :=
  let n := 2 ^ L
  match sp.cap with
  | .base => if sp.maxCount == 1 then n * 5 / 8 else if sp.maxCount == 2 then n + n / 2 else n * 2
  | .ratio num den => n * sp.maxCount * num / den

def shiftOf (sp : Spec) (L : Nat) : Nat :=
  if sp.baseShift then
    if sp.maxCount == 1 then 1
    else if sp.maxCount == 2 then (if 2 ^ L < 65536 then 2 else 1)
    else (if 2 ^ L < 1048576 then 2 else 1)
  else 1

/-- `pvGetNewLogBucketCount` -/
def newLog (sp : Spec) (t : Table) : Nat :=
  match t.gens with
  | [] => sp.logStart
  | g :: _ => g.L + shiftOf sp g.L

def emptyTable : Table := ⟨[], 0, 0⟩

/-- `pvFind(key)`: (generation index, bucket index, item index) -/
def findTable (sp : Spec) (hf : Nat → Nat) (t : Table) (k : Nat) : Option (Nat × Nat × Nat) :=
  if t.count == 0 then none else
  let rec go (gi : Nat) : List Gen → Option (Nat × Nat × Nat)
    | [] => none
    | g :: rest =>
      match findGen sp g (hf k) k with
      | some (b, j) => some (gi, b, j)
      | none => if sp.nothrowReloc then none else go (gi + 1) rest
  go 0 t.gens

/-- faults an operation may meet (named by kind and target, DESIGN.md 2.7) -/
structure Faults where
  /-- `Buckets::Create` of the new bucket array is refused -/
  refuseGrow : Bool := false
  /-- the item creation / `AddCrt` of the new element throws -/
  refuseAdd : Bool := false
  /-- relocation stops (exception swallowed by `pvRelocateItems()`) after this many items moved -/
  relocStop : Option Nat := none
deriving Repr, Inhabited

/-- `invalid` = a `MOMO_CHECK` of the operation fails (`std::invalid_argument` in exception mode): only the check
    `nextCapacity > newCapacity` of `pvAddGrow` (HashSet.h:1140) is modelled -/
inductive Outcome | ok | full | badAlloc | invalid
deriving DecidableEq, Repr, Inhabited

/-- the sizing loop of `pvAddGrow` (HashSet.h:1132-1142): starting at `nl` (= `pvGetNewLogBucketCount()`), the bucket count is
    doubled while `CalcCapacity(2^nl) <= mCount` (a table that is overloaded after refused growths can hold more items than the
    next size is meant for); `MOMO_CHECK(nextCapacity > newCapacity)` inside the loop: `none`.
    The C++ loop has no bound of its own; every completed round raises the capacity by at least one, so the loop leaves after at
    most `count + 1` rounds: `fuel = count + 2` never runs out before the loop condition has become false (`growLoop_fuel`). -/
def growLoop (sp : Spec) (count : Nat) : Nat → Nat → Option Nat
  | 0, nl => some nl
  | fuel+1, nl =>
    if capacityOf sp nl ≤ count then
      if capacityOf sp nl < capacityOf sp (nl + 1) then growLoop sp count fuel (nl + 1) else none
    else some nl

/-- the log2 of the bucket count `pvAddGrow` asks `Buckets::Create` for -/
def growLog (sp : Spec) (t : Table) : Option Nat := growLoop sp t.count (t.count + 2) (newLog sp t)

/-- drain one generation into `head`, oldest bucket index first, each bucket from its last item;
    stops when the budget `stop` is used up. Returns (head', remaining part of g, moved, stopped) -/
def drainGen (sp : Spec) (hf : Nat → Nat) : Nat → Gen → Gen → Nat → Option Nat → Gen × Gen × Nat × Bool
  | 0, head, g, moved, _ => (head, g, moved, false)
  | fuel+1, head, g, moved, stop =>
    -- first non-empty bucket
    let i := g.bs.findIdx (fun b => !b.items.isEmpty)
    if i ≥ g.bs.length then (head, g, moved, false)
    else
      match (bkt sp g.bs i).items.getLast? with
      | none => (head, g, moved, false)
      | some it =>
        if stop == some moved then (head, g, moved, true)
        else
          match addNogrowGen sp head (hf it.key) it with
          | none => (head, g, moved, true)      -- "table is full" inside relocation: swallowed as well
          | some (head', _) =>
            let g' := { g with bs := updBkt sp g.bs i (removeAt ((bkt sp g.bs i).items.length - 1)) }
            drainGen sp hf fuel head' g' (moved + 1) stop

def genCount (g : Gen) : Nat := (g.bs.map (·.items.length)).sum

/-- `pvRelocateItems(Buckets*)`: oldest generation first. `olds` = generations after the head,
    newest first. Returns (head', surviving olds, moved, stopped). -/
def relocGens (sp : Spec) (hf : Nat → Nat) (head : Gen) : List Gen → Nat → Option Nat → Gen × List Gen × Nat × Bool
  | [], moved, _ => (head, [], moved, false)
  | g :: rest, moved, stop =>
    let (head1, rest1, moved1, stopped1) := relocGens sp hf head rest moved stop
    if stopped1 then (head1, g :: rest1, moved1, true)
    else
      let (head2, g2, moved2, stopped2) := drainGen sp hf (genCount g + 1) head1 g moved1 stop
      if stopped2 then (head2, [g2], moved2, true) else (head2, [], moved2, false)

/-- `pvRelocateItems()` (never throws) -/
def relocate (sp : Spec) (hf : Nat → Nat) (t : Table) (stop : Option Nat) : Table :=
  match t.gens with
  | [] => t
  | head :: olds =>
    let (head', olds', _, _) := relocGens sp hf head olds 0 stop
    { t with gens := head' :: olds' }

/-- `pvAdd` (after a failed lookup): returns the new table and the outcome -/
def add (sp : Spec) (hf : Nat → Nat) (t : Table) (it : Item) (f : Faults) : Table × Outcome :=
  let h := hf it.key
  let addHead (t : Table) : Table × Outcome :=
    match t.gens with
    | [] => (t, .badAlloc)
    | g :: rest =>
      if f.refuseAdd then (t, .badAlloc) else
      match addNogrowGen sp g h it with
      | none => (t, .full)
      | some (g', _) => ({ t with gens := g' :: rest, count := t.count + 1 }, .ok)
  let (t1, out) :=
    if t.count < t.cap then addHead t
    else
      -- pvAddGrow: the sizing loop with its check comes first, then `Buckets::Create`
      match growLog sp t with
      | none => (t, .invalid)
      | some nl =>
        if f.refuseGrow then
          if sp.overloadIfCannotGrow && !t.gens.isEmpty then addHead t else (t, .badAlloc)
        else if f.refuseAdd then (t, .badAlloc)
        else
          match addNogrowGen sp (emptyGen sp nl) h it with
          | none => (t, .full)
          | some (g', _) => ({ gens := g' :: t.gens, count := t.count + 1, cap := capacityOf sp nl }, .ok)
  match out with
  | .ok => if t1.gens.length > 1 then (relocate sp hf t1 f.relocStop, .ok) else (t1, .ok)
  | _ => (t1, out)

/-- `pvRemove` at a found position -/
def removePos (sp : Spec) (t : Table) (gi b j : Nat) : Table :=
  { t with gens := t.gens.modify gi (fun g => { g with bs := updBkt sp g.bs b (removeAt j) }),
           count := t.count - 1 }

/-- `Reserve(capacity)`; `refuse` = the bucket array allocation fails (strong guarantee: unchanged) -/
def reserve (sp : Spec) (hf : Nat → Nat) (t : Table) (c : Nat) (f : Faults) : Table × Outcome :=
  if c ≤ t.cap then (t, .ok) else
  let rec grow (fuel nl : Nat) : Nat :=
    match fuel with
    | 0 => nl
    | fuel+1 => if capacityOf sp nl ≥ c then nl else grow fuel (nl + 1)
  let nl := grow 64 (newLog sp t)
  if f.refuseGrow then (t, .badAlloc) else
  let t1 : Table := { gens := emptyGen sp nl :: t.gens, count := t.count, cap := capacityOf sp nl }
  if t1.gens.length > 1 then (relocate sp hf t1 f.relocStop, .ok) else (t1, .ok)

/-- `Clear(shrink)` -/
def clear (sp : Spec) (t : Table) (shrink : Bool) : Table :=
  match t.gens with
  | [] => t
  | g :: _ => if shrink then emptyTable else { gens := [emptyGen sp g.L], count := 0, cap := t.cap }

/-- iteration order of `GetBegin` / `operator++` -/
def traverse (t : Table) : List Item :=
  (t.gens.map (fun g => (g.bs.map (fun b => b.items.reverse)).flatten)).flatten

/-- copy constructor: one fresh generation just large enough, items added in traversal order -/
def copyOf (sp : Spec) (hf : Nat → Nat) (t : Table) : Table :=
  if t.count == 0 then emptyTable else
  let rec pick (fuel L : Nat) : Nat :=
    match fuel with
    | 0 => L
    | fuel+1 => if capacityOf sp L ≥ t.count then L else pick fuel (L + 1)
  let L := pick 64 sp.logStart
  let g := (traverse t).foldl (fun g it => match addNogrowGen sp g (hf it.key) it with
      | some (g', _) => g' | none => g) (emptyGen sp L)
  { gens := [g], count := t.count, cap := capacityOf sp L }

/-- `Remove(pred)`: traversal order, removing in place (the hole is refilled by the bucket's last
    item, which the traversal has already passed) -/
def removePredBucket (pred : Item → Bool) (b : Bucket) : Bucket × Nat :=
  let rec go (i : Nat) (b : Bucket) (removed : Nat) : Bucket × Nat :=
    match i with
    | 0 => (b, removed)
    | i+1 =>
      match b.items[i]? with
      | none => go i b removed
      | some it => if pred it then go i (removeAt i b) (removed + 1) else go i b removed
  go b.items.length b 0

def removePred (t : Table) (pred : Item → Bool) : Table × Nat :=
  let (gens, removed) := t.gens.foldl (fun (acc : List Gen × Nat) g =>
    let (bs, r) := g.bs.foldl (fun (a : List Bucket × Nat) b =>
      let (b', r) := removePredBucket pred b
      (a.1 ++ [b'], a.2 + r)) ([], 0)
    (acc.1 ++ [{ g with bs := bs }], acc.2 + r)) ([], 0)
  ({ t with gens := gens, count := t.count - removed }, removed)

/-- `src.MergeTo(dst)` (`pvMergeTo`): walk `src` in traversal order; an item whose key is absent
    from `dst` is extracted from `src` and added to `dst`, others stay. -/
def mergeTo (sp : Spec) (hf : Nat → Nat) (src dst : Table) : Table × Table :=
  let stepBucket (b : Bucket) (dst : Table) : Bucket × Table × Nat :=
    let rec go (i : Nat) (b : Bucket) (dst : Table) (moved : Nat) : Bucket × Table × Nat :=
      match i with
      | 0 => (b, dst, moved)
      | i+1 =>
        match b.items[i]? with
        | none => go i b dst moved
        | some it =>
          match findTable sp hf dst it.key with
          | some _ => go i b dst moved
          | none =>
            let (dst', out) := add sp hf dst it {}
            if out == .ok then go i (removeAt i b) dst' (moved + 1) else go i b dst moved
    go b.items.length b dst 0
  let (gens, dst', moved) := src.gens.foldl (fun (acc : List Gen × Table × Nat) g =>
    let (bs, d, m) := g.bs.foldl (fun (a : List Bucket × Table × Nat) b =>
      let (b', d, m) := stepBucket b a.2.1
      (a.1 ++ [b'], d, a.2.2 + m)) ([], acc.2.1, 0)
    (acc.1 ++ [{ g with bs := bs }], d, acc.2.2 + m)) ([], dst, 0)
  ({ src with gens := gens, count := src.count - moved }, dst')

/-! ### layout checksum / dump (what the harness prints from the real table) -/
def mix (h x : Nat) : Nat := w64 (h * 1000003 + x + 1)

def layoutSum (sp : Spec) (t : Table) : Nat :=
  t.gens.foldl (fun h g =>
    let h := mix (mix h 7777) g.L
    (g.bs.zipIdx).foldl (fun h (b, i) =>
      if b.items.isEmpty && b.wasFull == (emptyBucket sp).wasFull && b.bst == (0, 0) then h
      else
        let h := mix (mix h i) (if b.wasFull then 1 else 0)
        let h := mix h (maxProbe sp g.L b)
        b.items.foldl (fun h it => mix (mix h it.key) it.val) h) h) 0

end Momo.HT
