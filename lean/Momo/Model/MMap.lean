import Momo.Model.HashTable
/-
  Executable model of momo::HashMultiMap and of momo::stdish::unordered_multimap (C08).

  Source mirrored (line numbers of the current /repo):
    details/ArrayBucket.h  (the value array stored next to every key)
      pvMakeState (375) / pvGetMemPoolIndex (386) / pvGetFastCount (392) -> mkState / statePool / stateCount
      pvGetBounds (420)                                   -> VArr.count / VArr.bounds
      AddBackCrt (262-320)                                -> VArr.addBack
      RemoveBack (322-347)                                -> VArr.removeBack   (shrink rule, swallowed failure)
      RemoveAll / Clear (pvRemoveAll, 438)                -> VArr.empty
      ArrayBucket(Params&, const ArrayBucket&) (192-229)  -> VArr.copy
    Array.h  ArraySettings<>::GrowCapacity (160-178; cause add, not linear), Array::Shrink(capacity) (751-765)
                                                          -> growBase / growCap / shrinkCap
    HashMultiMap.h
      pvAdd (1228) / AddCrt(key, …) / AddCrt(keyIter, …) (993) / pvAddValue (1246)   -> MM.add
      InsertKey (1040-1048) / AddKeyCrt (1051)                     -> MM.insertKey
      Remove(keyIter, valueIndex) (1065) / Remove(iter) (1071)     -> MM.removeValue  (VArr.removeAt)
      Remove(pairFilter) (1090)                                    -> MM.removeIf     (VArr.removeIf)
      RemoveValues (1104) / pvRemoveValues (1254)                  -> MM.removeValues
      RemoveKey(keyIter) (1112) / RemoveKey(key) (1131)            -> MM.removeKey
      ResetKey (1142)                                              -> MM.resetKey
      Clear (884)                                                  -> MM.clear
      copy constructor (770-799: Reserve + Insert in traversal order) -> MM.copy
      HashMultiMapIterator::pvMove (286), operator++, GetBegin     -> skipEmpty / itMove / itDeref / MM.iterAll
    stdish/unordered_multimap.h
      count (418) / equal_range, find (pvEqualRange, 665) / erase(key) (596) / erase(iterator) (554) /
      erase(first,last) (569-594) / erase_if (602, 786) / operator== (627-645)  -> w* functions at the end

  The key map (a momo::HashMap<Key, ValueArray>) is a parameter: a record `KeyMap σ` of the
  operations HashMultiMap calls.  The instance run by the driver is the C01 model `Momo.HT`
  (`htKeyMap`); `listKeyMap` is the reference instance (an association list in insertion order).
  `Item.val` of the HT model carries a *key tag*: a part of the key object that takes no part in
  hashing / equality, so that `ResetKey` is observable.

  Core Lean only (linked into the driver).
-/
namespace Momo.MMap
open Momo

/-! ## the value array (details/ArrayBucket.h) -/

/-- `static_cast<uint8_t>` -/
def toByte (x : Nat) : Nat := x % 256

/-- `pvMakeState(memPoolIndex, count)` -/
def mkState (pool count : Nat) : Nat := toByte ((pool <<< Extracted.abStateShift) ||| count)

/-- `pvGetMemPoolIndex` applied to a state byte -/
def statePool (s : Nat) : Nat := s >>> Extracted.abPoolShift

/-- `pvGetFastCount` applied to a state byte -/
def stateCount (s : Nat) : Nat := s &&& Extracted.abCountMask

/-- the capacity `ArraySettings<>::GrowCapacity` proposes before it is compared with `minNewCapacity`
    (growCause = add, linear = false) -/
def growBase (cap : Nat) : Nat :=
  if cap ≤ Extracted.arrGrowTinyLimit then Extracted.arrGrowTinyCap
  else if cap ≤ Extracted.arrGrowDoubleLimit then cap * Extracted.arrGrowFactor
  else if cap < Extracted.arrGrowLinLimit then cap + Extracted.arrGrowLinStep
  else cap + (cap / Extracted.arrGrowExpDiv) * Extracted.arrGrowExpMul

/-- `ArraySettings<>::GrowCapacity(capacity, minNewCapacity, ArrayGrowCause::add, linear = false)` -/
def growCap (cap minNew : Nat) : Nat :=
  if growBase cap < minNew then minNew else growBase cap

/-- `Array::Shrink(capacity)` with `cnt` items held: the new capacity (internalCapacity = 0) -/
def shrinkCap (cap cnt req : Nat) : Nat :=
  if cap ≤ req then cap else if req < cnt then cnt else req

/-- what `mPtr` points to -/
inductive Rep
  | none                 -- mPtr == nullptr
  | fast (state : Nat)   -- a block of fast pool `state >> 4`; its first byte is `state`
  | heap (cap : Nat)     -- a block of the array pool holding a `momo::Array` of this capacity; state byte 0
deriving DecidableEq, Repr, Inhabited

/-- `items` = the constructed objects behind `mPtr`, in storage order -/
structure VArr where
  rep : Rep
  items : List Nat
deriving DecidableEq, Repr, Inhabited

def VArr.empty : VArr := ⟨.none, []⟩

/-- `GetBounds().GetCount()` -/
def VArr.count (a : VArr) : Nat :=
  match a.rep with
  | .none => 0
  | .fast s => stateCount s
  | .heap _ => a.items.length

/-- `GetBounds()` -/
def VArr.bounds (a : VArr) : List Nat := a.items.take a.count

/-- `AddBackCrt(params, itemCreator)` (the creator succeeds; failures leave the array unchanged) -/
def VArr.addBack (mf : Nat) (a : VArr) (v : Nat) : VArr :=
  match a.rep with
  | .none => ⟨.fast (mkState 1 1), [v]⟩
  | .fast s =>
    if stateCount s = statePool s then
      if stateCount s + 1 ≤ mf then
        ⟨.fast (mkState (stateCount s + 1) (stateCount s + 1)), a.items.take (stateCount s) ++ [v]⟩
      else
        ⟨.heap (mf * Extracted.abHeapCapMul), a.items.take (stateCount s) ++ [v]⟩
    else ⟨.fast (toByte (s + 1)), a.items.take (stateCount s) ++ [v]⟩
  | .heap cap =>
    if a.items.length < cap then ⟨.heap cap, a.items ++ [v]⟩
    else ⟨.heap (growCap cap (a.items.length + 1)), a.items ++ [v]⟩

/-- `RemoveBack(params)`; `shrinkFails` = the allocation inside `array.Shrink` throws (swallowed) -/
def VArr.removeBack (a : VArr) (shrinkFails : Bool) : VArr :=
  if a.count = 1 then VArr.empty
  else
    match a.rep with
    | .none => a
    | .fast s => ⟨.fast (toByte (s + 255)), a.items.take (stateCount s - 1)⟩
    | .heap cap =>
      if Extracted.abShrinkMinCount < a.items.length ∧ a.items.length ≤ cap / Extracted.abShrinkDiv
          ∧ shrinkFails = false then
        ⟨.heap (shrinkCap cap (a.items.length - 1) (a.items.length * Extracted.abShrinkMul)), a.items.dropLast⟩
      else ⟨.heap cap, a.items.dropLast⟩

/-- the core of `HashMultiMap::Remove(iter)`: `AssignAnywayValue(last, values[i])`, then `RemoveBack` -/
def VArr.removeAt (a : VArr) (i : Nat) (shrinkFails : Bool) : VArr :=
  match a.bounds.getLast? with
  | none => a
  | some last => VArr.removeBack ⟨a.rep, a.items.set i last⟩ shrinkFails

/-- `ArrayBucket(params, bucket)`: representation chosen by the count alone -/
def VArr.copy (mf : Nat) (a : VArr) : VArr :=
  if a.bounds.length = 0 then VArr.empty
  else if a.bounds.length ≤ mf then ⟨.fast (mkState a.bounds.length a.bounds.length), a.bounds⟩
  else ⟨.heap a.bounds.length, a.bounds⟩

/-- the per-key part of `HashMultiMap::Remove(pairFilter)`: walk the values from index `i`; a removed
    value is replaced by the last one, which is examined next (`iter = Remove(iter)`) -/
def VArr.removeIf (p : Nat → Bool) : Nat → VArr → Nat → VArr
  | 0, a, _ => a
  | fuel + 1, a, i =>
    match a.bounds[i]? with
    | none => a
    | some v => if p v then VArr.removeIf p fuel (a.removeAt i false) i else VArr.removeIf p fuel a (i + 1)

/-! ## the key map interface (what HashMultiMap uses of its HashMap) -/

structure KeyMap (σ : Type) where
  empty : σ
  /-- `Find(key)` is a non-empty position -/
  has : σ → Nat → Bool
  /-- `AddCrt(pos, key, …)` / `Insert` after a failed lookup; key, tag, faults -/
  add : σ → Nat → Nat → HT.Faults → σ × HT.Outcome
  /-- `Remove(iter)` at the position of the key -/
  del : σ → Nat → σ
  /-- traversal order of `GetBegin() … ++` -/
  keys : σ → List Nat
  tag : σ → Nat → Nat
  /-- `ResetKey(pos, key')` with `key'` equal to the stored key -/
  setTag : σ → Nat → Nat → σ
  /-- `Clear()` (shrink = true) -/
  clear : σ → σ
  /-- `Reserve(capacity)` -/
  reserve : σ → Nat → σ

/-! ### instance 1: the C01 hash table model -/

def htTag (sp : HT.Spec) (hf : Nat → Nat) (t : HT.Table) (k : Nat) : Nat :=
  match HT.findTable sp hf t k with
  | some (gi, b, j) => ((HT.bkt sp (t.gens.getD gi default).bs b).items.getD j default).val
  | none => 0

def htSetTag (sp : HT.Spec) (hf : Nat → Nat) (t : HT.Table) (k tg : Nat) : HT.Table :=
  match HT.findTable sp hf t k with
  | some (gi, b, j) =>
    { t with gens := t.gens.modify gi (fun g => { g with bs := HT.updBkt sp g.bs b (fun bk =>
        { bk with items := bk.items.modify j (fun it => { it with val := tg }) }) }) }
  | none => t

def htDel (sp : HT.Spec) (hf : Nat → Nat) (t : HT.Table) (k : Nat) : HT.Table :=
  match HT.findTable sp hf t k with
  | some (gi, b, j) => HT.removePos sp t gi b j
  | none => t

def htKeyMap (sp : HT.Spec) (hf : Nat → Nat) : KeyMap HT.Table where
  empty := HT.emptyTable
  has t k := (HT.findTable sp hf t k).isSome
  add t k tg f := HT.add sp hf t ⟨k, tg⟩ f
  del t k := htDel sp hf t k
  keys t := (HT.traverse t).map (·.key)
  tag t k := htTag sp hf t k
  setTag t k tg := htSetTag sp hf t k tg
  clear t := HT.clear sp t true
  reserve t n := (HT.reserve sp hf t n {}).1

/-! ### instance 2: reference key map (association list key ↦ tag, insertion order) -/

def listKeyMap : KeyMap (List (Nat × Nat)) where
  empty := []
  has l k := l.any (fun e => e.1 == k)
  add l k tg f := if f.refuseAdd then (l, .badAlloc) else (l ++ [(k, tg)], .ok)
  del l k := l.filter (fun e => e.1 != k)
  keys l := l.map (·.1)
  tag l k := ((l.find? (fun e => e.1 == k)).map (·.2)).getD 0
  setTag l k tg := l.map (fun e => if e.1 == k then (k, tg) else e)
  clear _ := []
  reserve l _ := l

/-! ## the multimap -/

structure MM (σ : Type) where
  km : σ
  /-- the value array stored next to each key (absent entry = empty array) -/
  arrs : List (Nat × VArr)
  /-- `mValueCount` -/
  count : Nat

def getArr (l : List (Nat × VArr)) (k : Nat) : VArr := (l.lookup k).getD VArr.empty

def delArr (l : List (Nat × VArr)) (k : Nat) : List (Nat × VArr) := l.filter (fun e => e.1 != k)

def setArr (l : List (Nat × VArr)) (k : Nat) (a : VArr) : List (Nat × VArr) := (k, a) :: delArr l k

section ops
variable {σ : Type} (K : KeyMap σ) (mf : Nat)

def MM.empty : MM σ := ⟨K.empty, [], 0⟩

/-- `Add(key, value)` = `pvAdd`; with the key present also `Add(keyIter, value)` = `AddCrt(keyIter, …)`.
    `f` = faults of the key map (new key: `refuseAdd` also stands for a failing value creation),
    `fv` = the value array of an existing key cannot allocate. -/
def MM.add (m : MM σ) (k tg v : Nat) (f : HT.Faults) (fv : Bool) : MM σ × HT.Outcome :=
  if K.has m.km k then
    if fv then (m, .badAlloc)
    else (⟨m.km, setArr m.arrs k ((getArr m.arrs k).addBack mf v), m.count + 1⟩, .ok)
  else
    if (K.add m.km k tg f).2 = .ok then
      (⟨(K.add m.km k tg f).1, setArr m.arrs k (VArr.empty.addBack mf v), m.count + 1⟩, .ok)
    else (⟨(K.add m.km k tg f).1, m.arrs, m.count⟩, (K.add m.km k tg f).2)

/-- `InsertKey(key)` (also `AddKeyCrt(Find(key), …)` for an absent key): (state, outcome, inserted) -/
def MM.insertKey (m : MM σ) (k tg : Nat) (f : HT.Faults) : MM σ × HT.Outcome × Bool :=
  if K.has m.km k then (m, .ok, false)
  else
    if (K.add m.km k tg f).2 = .ok then (⟨(K.add m.km k tg f).1, delArr m.arrs k, m.count⟩, .ok, true)
    else (⟨(K.add m.km k tg f).1, m.arrs, m.count⟩, (K.add m.km k tg f).2, false)

/-- `Remove(keyIter, valueIndex)`; outside the precondition (`MOMO_CHECK`) nothing happens -/
def MM.removeValue (m : MM σ) (k i : Nat) (shrinkFails : Bool) : MM σ :=
  if K.has m.km k ∧ i < (getArr m.arrs k).count then
    ⟨m.km, setArr m.arrs k ((getArr m.arrs k).removeAt i shrinkFails), m.count - 1⟩
  else m

/-- `RemoveValues(keyIter)`: the key stays, with an empty array -/
def MM.removeValues (m : MM σ) (k : Nat) : MM σ :=
  if K.has m.km k then ⟨m.km, delArr m.arrs k, m.count - (getArr m.arrs k).count⟩ else m

/-- `RemoveKey(key)`: returns the number of values removed (0 also when the key is absent) -/
def MM.removeKey (m : MM σ) (k : Nat) : MM σ × Nat :=
  if K.has m.km k then
    (⟨K.del m.km k, delArr m.arrs k, m.count - (getArr m.arrs k).count⟩, (getArr m.arrs k).count)
  else (m, 0)

def MM.resetKey (m : MM σ) (k tg : Nat) : MM σ :=
  if K.has m.km k then ⟨K.setTag m.km k tg, m.arrs, m.count⟩ else m

def MM.clear (m : MM σ) : MM σ := ⟨K.clear m.km, [], 0⟩

/-- one round of the copy constructor's loop: `Insert(ref.key, ValueArray(params, ref.value))` -/
def MM.copyStep (src : MM σ) (acc : Option (MM σ)) (k : Nat) : Option (MM σ) :=
  match acc with
  | none => none
  | some d =>
    if K.has d.km k then none
    else if (K.add d.km k (K.tag src.km k) {}).2 = .ok then
      some ⟨(K.add d.km k (K.tag src.km k) {}).1, setArr d.arrs k ((getArr src.arrs k).copy mf), d.count⟩
    else none

/-- copy constructor; `none` = it threw (nothing is constructed) -/
def MM.copy (m : MM σ) : Option (MM σ) :=
  (K.keys m.km).foldl (MM.copyStep K mf m) (some ⟨K.reserve K.empty (K.keys m.km).length, [], m.count⟩)

/-- one key of `Remove(pairFilter)` -/
def MM.removeIfKey (p : Nat → Nat → Bool) (acc : MM σ) (k : Nat) : MM σ :=
  ⟨acc.km, setArr acc.arrs k (VArr.removeIf (p k) (getArr acc.arrs k).count (getArr acc.arrs k) 0),
   acc.count - ((getArr acc.arrs k).count
      - (VArr.removeIf (p k) (getArr acc.arrs k).count (getArr acc.arrs k) 0).count)⟩

/-- `Remove(pairFilter)`: keys in traversal order; returns `initValueCount - mValueCount` -/
def MM.removeIf (m : MM σ) (p : Nat → Nat → Bool) : MM σ × Nat :=
  ((K.keys m.km).foldl (MM.removeIfKey p) m, m.count - ((K.keys m.km).foldl (MM.removeIfKey p) m).count)

/-- the sequence of (key, value) pairs in storage order -/
def MM.pairs (m : MM σ) : List (Nat × Nat) :=
  (K.keys m.km).flatMap (fun k => (getArr m.arrs k).bounds.map (fun v => (k, v)))

/-! ### the pair iterator: (key iterator, value index); the key iterator is the list of keys still
    ahead of it (head = current key, `[]` = end).  A key iterator obtained from `Find` cannot move:
    it is the one-element list. -/

/-- the loop of `pvMove` after `++mKeyIterator` -/
def skipEmpty (arrs : List (Nat × VArr)) : List Nat → List Nat × Nat
  | [] => ([], 0)
  | k :: rest => if (getArr arrs k).count ≠ 0 then (k :: rest, 0) else skipEmpty arrs rest

/-- `HashMultiMapIterator::pvMove` -/
def itMove (arrs : List (Nat × VArr)) (ks : List Nat) (i : Nat) : List Nat × Nat :=
  match ks with
  | [] => ([], 0)
  | k :: rest => if i ≠ (getArr arrs k).count then (k :: rest, i) else skipEmpty arrs rest

/-- dereference: `(key, value)` or `none` at the end -/
def itDeref (arrs : List (Nat × VArr)) (it : List Nat × Nat) : Option (Nat × Nat) :=
  match it.1 with
  | [] => none
  | k :: _ => ((getArr arrs k).bounds[it.2]?).map (fun v => (k, v))

/-- `GetBegin()`, then `operator++` until the end, collecting `*iter` -/
def iterFrom (arrs : List (Nat × VArr)) : Nat → List Nat × Nat → List (Nat × Nat)
  | 0, _ => []
  | fuel + 1, it =>
    match itDeref arrs it with
    | none => []
    | some kv => kv :: iterFrom arrs fuel (itMove arrs it.1 (it.2 + 1))

def MM.iterAll (m : MM σ) : List (Nat × Nat) :=
  iterFrom m.arrs (m.count + 1) (itMove m.arrs (K.keys m.km) 0)

/-- the key iterator for key `k`: from the traversal (movable) or from `Find` (not movable) -/
def MM.keyIter (m : MM σ) (k : Nat) (movable : Bool) : List Nat :=
  if movable then (K.keys m.km).dropWhile (fun x => x != k) else if K.has m.km k then [k] else []

/-! ## momo::stdish::unordered_multimap (decision logic over the same state) -/

/-- `count(key)` -/
def MM.wCount (m : MM σ) (k : Nat) : Nat := if K.has m.km k then (getArr m.arrs k).count else 0

/-- the elements of `equal_range(key)` in order -/
def MM.wRange (m : MM σ) (k : Nat) : List Nat := if K.has m.km k then (getArr m.arrs k).bounds else []

/-- `erase(key)` -/
def MM.wEraseKey (m : MM σ) (k : Nat) : MM σ × Nat := MM.removeKey K m k

/-- `erase(const_iterator)` at the `i`-th value of key `k`: the last value of a key takes the key along -/
def MM.wEraseAt (m : MM σ) (k i : Nat) : MM σ :=
  if (getArr m.arrs k).count = 1 then (MM.removeKey K m k).1 else MM.removeValue K m k i false

/-- index of the first pair of key `k` in `pairs` -/
def groupStart (ps : List (Nat × Nat)) (k : Nat) : Nat := (ps.takeWhile (fun e => e.1 != k)).length

/-- `erase(first, last)` with `first`, `last` the `i`-th and `j`-th iterator of the traversal (`i ≤ j`):
    `none` = `std::invalid_argument` (container unchanged) -/
def MM.wEraseRange (m : MM σ) (i j : Nat) : Option (MM σ) :=
  if i = j then some m
  else
    match (MM.pairs K m)[i]? with
    | none => none
    | some (k, _) =>
      if j = i + 1 then some (MM.wEraseAt K m k (i - groupStart (MM.pairs K m) k))
      else if i = groupStart (MM.pairs K m) k ∧ j = i + (getArr m.arrs k).count then some (MM.removeKey K m k).1
      else if i = 0 ∧ j = (MM.pairs K m).length then some (MM.clear K m)
      else none

/-- `operator==` -/
def MM.wEq (m1 m2 : MM σ) : Bool :=
  m1.count == m2.count &&
  (K.keys m1.km).all (fun k =>
    (getArr m1.arrs k).count == 0 ||
    (K.has m2.km k && (getArr m1.arrs k).count == (getArr m2.arrs k).count
      && (getArr m1.arrs k).bounds.isPerm (getArr m2.arrs k).bounds))

end ops

/-! ## checksums / dumps printed by the driver (the harness computes the same from the real object) -/

def repCode : Rep → Nat
  | .none => 0
  | .fast s => 256 + s
  | .heap cap => 100000 + cap

def arrSum {σ : Type} (K : KeyMap σ) (m : MM σ) : Nat :=
  (K.keys m.km).foldl (fun h k =>
    (getArr m.arrs k).bounds.foldl (fun h v => HT.mix h v)
      (HT.mix (HT.mix (HT.mix h k) (K.tag m.km k)) (repCode (getArr m.arrs k).rep))) 0

end Momo.MMap
