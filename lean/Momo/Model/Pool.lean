import Momo.Extracted
/-
  Model of `momo::MemPool` (include/momo/MemPool.h, line numbers of the pinned tree in comments) — C09.

  (a) layout arithmetic over unbounded integers: `pvGetAlignmentAddend`, `pvGetBufferSize{,0,1}`,
      `pvNewBuffer` (the four adjustment steps), `pvGetBlock`, `pvGetBlockIndex`, the positions of the
      metadata bytes, the single-block form `pvNewBlock1`;
  (b) state machine: a store of buffers (each with its `firstBlockIndex` byte, its `BufferBytes` and
      the first byte of every block = the free chain), the buffer list split by `mFreeBufferHead`
      into `pre` (buffers before the head, nearest first) and `post` (head :: followers), the cache,
      `allocCount`; operations `Allocate`, `Deallocate`, `DeallocateIf`, `DeallocateAll`, `MergeFrom`,
      destructor.  The memory manager is a parameter: its answers are given to every operation, its
      calls are returned as events;
  (c) pointer level: the `prev`/`next` fields as a heap, with `pvMoveBufferToHead`, the unlinking of
      `pvDeleteBuffer`, the linking of `pvNewBlock` and the two loops of `MergeFrom` as written.
      `Momo/Proof/PoolDll.lean` proves that they implement the list operations used in (b).
  Proofs: PoolLayout / PoolGeometry (a), PoolState / PoolOps / PoolCache / PoolBulk / PoolIf / PoolHist /
  PoolSingle (b), PoolDll (c); property theorems in `Momo/Props/C09.lean`.
  Core Lean only (no Mathlib): this file is linked into the driver.
-/
namespace Momo.Pool
open Momo

/-! ## (a) parameters and sizes -/

/-- `Params::blockSize` (after `CorrectBlockSize`), `blockAlignment`, `blockCount`, `cachedFreeBlockCount` -/
structure Params where
  S : Int
  A : Int
  N : Int
  C : Nat
deriving Repr, DecidableEq

/-- sizes of C++ types that enter the layout; the harness op `consts` compares them with the build -/
@[reducible] def sizeofBufferBytes : Int := 2      -- struct BufferBytes { int8_t; int8_t; }  (184-188)
@[reducible] def sizeofPtr : Int := 8              -- sizeof(Byte*)
@[reducible] def sizeofU16 : Int := 2              -- sizeof(uint16_t)
@[reducible] def maxAllocAlignment : Nat := 16     -- UIntConst::maxAllocAlignment = alignof(std::max_align_t)
@[reducible] def maxAlignment : Int := 16          -- UIntConst::maxAlignment = MOMO_MAX_ALIGNMENT

/-- `MemPoolConst::GetBlockAlignment(blockSize, maxAlignment)` (36-41) -/
def getBlockAlignment (blockSize : Int) : Nat → Int → Int
  | 0, m => m
  | fuel+1, m => if m > blockSize ∧ m > 1 then getBlockAlignment blockSize fuel (m / 2) else m

/-- `MemPoolConst::CorrectBlockSize` (43-49) -/
def correctBlockSize (blockSize A N : Int) : Int :=
  if N = 1 then (if blockSize > 0 then blockSize else 1)
  else if blockSize ≤ A then (Extracted.poolCorrectSmallMul : Int) * A
  else ((blockSize + A - 1) / A) * A

/-- `pvCheckParams` (443-452) without the overflow test (sizes are unbounded here) -/
def Params.Legal (P : Params) : Prop :=
  0 < P.N ∧ P.N < (Extracted.poolBlockCountLimit : Int) ∧
  0 < P.A ∧ P.A ≤ (Extracted.poolMaxBlockAlignment : Int) ∧
  0 < P.S ∧ (P.N = 1 ∨ (P.S % P.A = 0 ∧ (Extracted.poolMinSizeRatio : Int) ≤ P.S / P.A))

instance (P : Params) : Decidable P.Legal := by unfold Params.Legal; infer_instance

/-- `blockAlignment & (~blockAlignment + 1)` in 64-bit arithmetic (483) -/
def lowBit (a : Nat) : Nat := a &&& (2 ^ 64 - a)

/-- alignment the pool expects of every address the memory manager returns:
    `min(maxAllocAlignment, lowbit(blockAlignment))` (482-483) -/
def Params.allocAlign (P : Params) : Int := Int.ofNat (min maxAllocAlignment (lowBit P.A.toNat))

/-- `pvGetAlignmentAddend` (480-484) -/
def Params.alignAddend (P : Params) : Int := P.A - P.allocAlign

/-- `pvIsBufferBytesNear` (785-788) -/
def Params.bytesNear (P : Params) : Bool := decide (P.A ≥ sizeofBufferBytes + 1)

/-- `pvUseCache` (454-457) -/
def Params.useCache (P : Params) : Bool := decide (P.C > 0) && decide (P.S ≥ sizeofPtr)

/-- `pvGetBufferSize0` (486-489) -/
def Params.bufferSize0 (P : Params) : Int := if P.S ≥ P.A then P.S else P.A

/-- `pvGetBufferSize1` (514-517) -/
def Params.bufferSize1 (P : Params) : Int := P.S + P.alignAddend + sizeofU16

/-- `pvGetBufferSize` (674-680) -/
def Params.bufferSize (P : Params) : Int :=
  P.N * P.S + P.alignAddend
    + ((Extracted.poolBufSizeAlignMul : Int) + (P.S / P.A) % 2) * P.A
    + (if P.bytesNear then 0 else sizeofBufferBytes)
    + 2 * sizeofPtr + sizeofU16

/-! ## (a) layout of one buffer -/

/-- `UIntMath::Ceil(value, mod)` (Utility.h:290) -/
def ceilTo (x m : Int) : Int := ((x + m - 1) / m) * m

/-- `pvGetBlock(buffer, index)` (582-586): blocks with a negative index lie below `buffer`,
    the others start `blockAlignment` bytes above it -/
def getBlock (P : Params) (buf i : Int) : Int := buf + i * P.S + (if 0 ≤ i then P.A else 0)

/-- `dir` of `pvGetBlockIndex` (595) -/
def blockDir (P : Params) (b : Int) : Int := ((b % P.S) / P.A) % 2

/-- `index` of `pvGetBlockIndex` (596-597): `(uipBlock / S) % N - (N & (dir - 1))` -/
def blockIdx (P : Params) (b : Int) : Int :=
  (b / P.S) % P.N - (if blockDir P b = 0 then P.N else 0)

/-- `buffer` of `pvGetBlockIndex` (598-599): `block - index * S - (A & -dir)` -/
def blockBuf (P : Params) (b : Int) : Int :=
  b - blockIdx P b * P.S - (if blockDir P b = 1 then P.A else 0)

/-- `uipBlock += (uipBlock % S) % (2 * A)` (612) -/
def step2 (P : Params) (u : Int) : Int := u + (u % P.S) % (2 * P.A)
/-- `if ((uipBlock + A) % S == 0) uipBlock += A` (613-614) -/
def step3 (P : Params) (u : Int) : Int := if (u + P.A) % P.S = 0 then u + P.A else u
/-- `if ((uipBlock / S) % N == 0) uipBlock += A` (615-616) -/
def step4 (P : Params) (u : Int) : Int := if (u / P.S) % P.N = 0 then u + P.A else u

/-- the first block of a new buffer whose memory starts at `base` (610-616) -/
def firstBlock (P : Params) (base : Int) : Int := step4 P (step3 P (step2 P (ceilTo base P.A)))

structure BufLayout where
  buf : Int          -- the `buffer` pointer
  first : Int        -- `firstBlockIndex`, stored in the byte at `buffer`
  beginOffset : Int  -- `uint16_t`, stored behind the link pointers
deriving Repr, DecidableEq

/-- `pvNewBuffer` (603-638): where the buffer pointer, the first block and the begin offset land -/
def newBuffer (P : Params) (base : Int) : BufLayout :=
  ⟨blockBuf P (firstBlock P base), blockIdx P (firstBlock P base), firstBlock P base - base⟩

/-- `pvGetBlocksEndPosition` (778-783): `buffer + A + S * (N - (-first))` -/
def blocksEnd (P : Params) (buf first : Int) : Int := buf + P.A + P.S * (P.N + first)

/-- `pvGetBufferBytesPosition` (728-731) -/
def bytesPos (P : Params) (buf first : Int) : Int :=
  if P.bytesNear then buf + 1 else blocksEnd P buf first

/-- `pvGetPrevBufferPosition` (743-746) -/
def prevPos (P : Params) (buf first : Int) : Int :=
  blocksEnd P buf first + (if P.bytesNear then 0 else sizeofBufferBytes)

/-- `pvGetNextBufferPosition` (758-761) -/
def nextPos (P : Params) (buf first : Int) : Int := prevPos P buf first + sizeofPtr

/-- `pvGetBeginOffsetPosition` (773-776) -/
def beginOffPos (P : Params) (buf first : Int) : Int := nextPos P buf first + sizeofPtr

/-- one past the last metadata byte -/
def metaEnd (P : Params) (buf first : Int) : Int := beginOffPos P buf first + sizeofU16

/-- the byte ranges `(start, length)` the pool reads and writes in a buffer apart from the first byte
    of its free blocks: the first-index byte, `BufferBytes`, the two link pointers, the begin offset -/
def metaRanges (P : Params) (buf first : Int) : List (Int × Int) :=
  [(buf, 1), (bytesPos P buf first, sizeofBufferBytes), (prevPos P buf first, sizeofPtr),
   (nextPos P buf first, sizeofPtr), (beginOffPos P buf first, sizeofU16)]

/-- `pvNewBlock1` (491-504): `(block, offset)`; the offset is stored as `uint16_t` at `block + S` -/
def newBlock1 (P : Params) (base : Int) : Int × Int :=
  (ceilTo base P.A, ceilTo base P.A - base)

/-! ## (b) state machine -/

/-- One buffer. `link i` is the first byte of block `i` (the next free index) as long as the pool
    owns that byte; `none` = the block is handed out, the byte belongs to the user. -/
structure Buffer where
  base : Int             -- ghost: the address the memory manager returned (the code recomputes it)
  buf : Int
  first : Int            -- byte at `buffer`
  firstFree : Int        -- `BufferBytes::firstFreeBlockIndex`
  freeCount : Int        -- `BufferBytes::freeBlockCount`
  beginOffset : Int
  link : Int → Option Int

/-- calls to the memory manager -/
inductive Ev where
  | malloc (base size : Int)
  | free (addr size : Int)
deriving DecidableEq, Repr

structure Pool where
  store : List Buffer          -- the memory of all buffers
  pre : List Int               -- buffers before `mFreeBufferHead`, nearest first
  post : List Int              -- `mFreeBufferHead` and the buffers after it
  cache : List Int             -- `mCacheHead` first; `mCachedCount` = length
  allocCount : Nat
  singles : List (Int × Int)   -- `blockCount == 1`: (block, uint16 offset stored behind it)

def Pool.empty : Pool := ⟨[], [], [], [], 0, []⟩

inductive Outcome (α : Type) where
  | ok (val : α) (p : Pool) (evs : List Ev)
  | badAlloc (p : Pool) (evs : List Ev)   -- the memory manager threw; `p` is the state left behind
  | stuck (why : String)                  -- an assertion of the source fails / a byte not owned is read

def Outcome.bind {α β : Type} (o : Outcome α) (f : α → Pool → Outcome β) : Outcome β :=
  match o with
  | .ok v p e =>
    match f v p with
    | .ok v' p' e' => .ok v' p' (e ++ e')
    | .badAlloc p' e' => .badAlloc p' (e ++ e')
    | .stuck w => .stuck w
  | .badAlloc p e => .badAlloc p e
  | .stuck w => .stuck w

def Outcome.map {α β : Type} (o : Outcome α) (f : α → β) : Outcome β :=
  match o with
  | .ok v p e => .ok (f v) p e
  | .badAlloc p e => .badAlloc p e
  | .stuck w => .stuck w

def getBuf (st : List Buffer) (addr : Int) : Option Buffer := st.find? (fun x => x.buf == addr)
def setBuf (st : List Buffer) (b : Buffer) : List Buffer := st.map (fun x => if x.buf = b.buf then b else x)
def dropBuf (st : List Buffer) (addr : Int) : List Buffer := st.filter (fun x => x.buf != addr)

/-- the free chain written by the loop of `pvNewBuffer` (630-636) -/
def Buffer.fresh (P : Params) (base : Int) : Buffer :=
  { base := base, buf := (newBuffer P base).buf, first := (newBuffer P base).first,
    firstFree := (newBuffer P base).first, freeCount := P.N,
    beginOffset := (newBuffer P base).beginOffset,
    link := fun i =>
      if (newBuffer P base).first ≤ i ∧ i < (newBuffer P base).first + P.N - 1 then some (i + 1)
      else if i = (newBuffer P base).first + P.N - 1 then some (-(Extracted.poolFreeTerminator : Int))
      else none }

/-- `pvNewBlock` 531-534: take the first free block of a buffer; `none` = the link byte read is not the pool's -/
def Buffer.take (b : Buffer) : Option (Int × Buffer) :=
  match b.link b.firstFree with
  | none => none
  | some nxt => some (b.firstFree,
      { b with firstFree := nxt, freeCount := b.freeCount - 1,
               link := fun i => if i = b.firstFree then none else b.link i })

/-- `pvDeleteBlock` 549-553: push block `idx` on the free chain -/
def Buffer.put (b : Buffer) (idx : Int) : Buffer :=
  { b with link := fun i => if i = idx then some b.firstFree else b.link i,
           firstFree := idx, freeCount := b.freeCount + 1 }

/-- answers of the memory manager to the requests of one operation: `orc k` answers request number `k`
    (`none` = `std::bad_alloc`) -/
abbrev Oracle := Nat → Option Int

/-- `pvNewBlock` 531-537 (the head buffer exists and a follower exists if needed) -/
def takeFromHead (P : Params) (p : Pool) (evs : List Ev) : Outcome Int :=
  match p.post with
  | [] => .stuck "pvNewBlock: null head"
  | h :: rest =>
    match getBuf p.store h with
    | none => .stuck "pvNewBlock: head buffer unknown"
    | some hb =>
      match hb.take with
      | none => .stuck "pvNewBlock: link byte of a live block read"
      | some (idx, hb') =>
        if hb'.freeCount = 0 then
          .ok (getBlock P hb.buf idx) { p with store := setBuf p.store hb', pre := h :: p.pre, post := rest } evs
        else
          .ok (getBlock P hb.buf idx) { p with store := setBuf p.store hb' } evs

/-- `pvNewBlock` 523-530: a follower is allocated eagerly when the head is about to fill up -/
def newBlockHead (P : Params) (p : Pool) (evs : List Ev) (orc : Oracle) (k : Nat) : Outcome Int :=
  match p.post with
  | [] => .stuck "pvNewBlock: null head"
  | h :: rest =>
    match getBuf p.store h with
    | none => .stuck "pvNewBlock: head buffer unknown"
    | some hb =>
      if hb.freeCount = 1 ∧ rest = [] then
        match orc k with
        | none => .badAlloc p evs
        | some base =>
          takeFromHead P { p with store := p.store ++ [Buffer.fresh P base], post := [h, (Buffer.fresh P base).buf] }
            (evs ++ [.malloc base P.bufferSize])
      else takeFromHead P p evs

/-- `pvNewBlock` (519-538) -/
def newBlock (P : Params) (p : Pool) (orc : Oracle) : Outcome Int :=
  match p.post with
  | [] =>
    match orc 0 with
    | none => .badAlloc p []
    | some base =>
      newBlockHead P { p with store := p.store ++ [Buffer.fresh P base], post := [(Buffer.fresh P base).buf] }
        [.malloc base P.bufferSize] orc 1
  | _ :: _ => newBlockHead P p [] orc 0

/-- `pvDeleteBuffer` (640-652): unlink, recompute the begin of the memory, give it back -/
def deleteBuffer (P : Params) (p : Pool) (addr : Int) : Outcome Unit :=
  match getBuf p.store addr with
  | none => .stuck "pvDeleteBuffer: unknown buffer"
  | some b =>
    if p.post.head? = some addr then .stuck "pvDeleteBuffer: assert buffer != mFreeBufferHead"
    else .ok () { p with store := dropBuf p.store addr, pre := p.pre.erase addr, post := p.post.erase addr }
          [.free (getBlock P b.buf b.first - b.beginOffset) P.bufferSize]

/-- `pvMoveBufferToHead` (654-672) on the list view: the buffer leaves its place before the head and
    becomes the head -/
def moveToHead (p : Pool) (addr : Int) : Option Pool :=
  if addr ∈ p.pre then some { p with pre := p.pre.erase addr, post := addr :: p.post }
  else none

/-- `pvDeleteBlock(block, buffer, blockIndex)` (547-570) -/
def deleteBlockAt (P : Params) (p : Pool) (bufAddr idx : Int) : Outcome Unit :=
  match getBuf p.store bufAddr with
  | none => .stuck "pvDeleteBlock: block of no buffer"
  | some b =>
    match (if (b.put idx).freeCount = 1
           then moveToHead { p with store := setBuf p.store (b.put idx) } bufAddr
           else some { p with store := setBuf p.store (b.put idx) }) with
    | none => .stuck "pvMoveBufferToHead: assert headPrevBuffer != nullptr"
    | some p2 =>
      if (b.put idx).freeCount = P.N then
        match p2.post with
        | [] => deleteBuffer P p2 bufAddr
        | h :: rest =>
          if h = bufAddr then
            match rest with
            | [] => .ok () p2 []
            | _ :: _ => deleteBuffer P { p2 with pre := bufAddr :: p2.pre, post := rest } bufAddr
          else deleteBuffer P p2 bufAddr
      else .ok () p2 []

/-- `pvDeleteBlock(Byte* block)` (540-545) -/
def deleteBlockN (P : Params) (p : Pool) (blk : Int) : Outcome Unit :=
  if blk % P.A ≠ 0 then .stuck "pvGetBlockIndex: assert block aligned"
  else deleteBlockAt P p (blockBuf P blk) (blockIdx P blk)

/-- `pvDeleteBlock1` (506-512) -/
def deleteBlock1 (P : Params) (p : Pool) (blk : Int) : Outcome Unit :=
  match p.singles.lookup blk with
  | none => .stuck "pvDeleteBlock1: offset bytes of an unknown block read"
  | some off =>
    .ok () { p with singles := p.singles.filter (fun e => e.1 != blk) } [.free (blk - off) P.bufferSize1]

/-- `pvDeleteBlock(void* block)` (470-478) -/
def deleteBlock (P : Params) (p : Pool) (blk : Int) : Outcome Unit :=
  if P.N > 1 then deleteBlockN P p blk
  else if P.alignAddend = 0 then
    .ok () { p with singles := p.singles.filter (fun e => e.1 != blk) } [.free blk P.bufferSize0]
  else deleteBlock1 P p blk

/-- `pvFlushDeallocate` (459-468) -/
def flushList (P : Params) : List Int → Pool → Outcome Unit
  | [], p => .ok () p []
  | c :: cs, p => (deleteBlock P p c).bind fun _ p' => flushList P cs p'

def flush (P : Params) (p : Pool) : Outcome Unit :=
  (flushList P p.cache { p with cache := [] })

/-- `Allocate` (285-306) -/
def allocate (P : Params) (p : Pool) (orc : Oracle) : Outcome Int :=
  (match (if P.useCache then p.cache else []) with
   | c :: cs => Outcome.ok c { p with cache := cs } []
   | [] =>
     if P.N > 1 then newBlock P p orc
     else
       match orc 0 with
       | none => .badAlloc p []
       | some base =>
         if P.alignAddend = 0 then
           .ok base { p with singles := (base, 0) :: p.singles } [.malloc base P.bufferSize0]
         else
           .ok (newBlock1 P base).1 { p with singles := newBlock1 P base :: p.singles } [.malloc base P.bufferSize1]
  ).bind fun blk p' => .ok blk { p' with allocCount := p'.allocCount + 1 } []

/-- `Deallocate` (308-325) -/
def deallocate (P : Params) (p : Pool) (blk : Int) : Outcome Unit :=
  if p.allocCount = 0 then .stuck "Deallocate: assert allocCount > 0"
  else
    (if P.useCache then
      (if p.cache.length ≥ P.C then flush P p else .ok () p []).bind fun _ p' =>
        .ok () { p' with cache := blk :: p'.cache } []
     else deleteBlock P p blk
    ).bind fun _ p' => .ok () { p' with allocCount := p'.allocCount - 1 } []

/-- first loop of `DeallocateAll` (342-348) -/
def deleteAllPre (P : Params) : Nat → Pool → Outcome Unit
  | 0, p => .ok () p []
  | f+1, p =>
    match p.pre with
    | [] => .ok () p []
    | a :: _ => (deleteBuffer P p a).bind fun _ p' => deleteAllPre P f p'

/-- second loop of `DeallocateAll` (349-354) -/
def deleteAllPost (P : Params) : Nat → Pool → Outcome Unit
  | 0, p => .ok () p []
  | f+1, p =>
    match p.post with
    | [] => .ok () p []
    | a :: rest => (deleteBuffer P { p with pre := a :: p.pre, post := rest } a).bind fun _ p' => deleteAllPost P f p'

/-- `DeallocateAll` (337-358) -/
def deallocateAll (P : Params) (p : Pool) : Outcome Unit :=
  if P.N ≤ 1 then .stuck "DeallocateAll: extra check CanDeallocateAll" else
  match p.post with
  | [] => .ok () p []
  | _ :: _ =>
    (deleteAllPre P p.pre.length p).bind fun _ p1 =>
    (deleteAllPost P p1.post.length p1).bind fun _ p2 =>
      .ok () { p2 with allocCount := 0, cache := [] } []

/-- the free chain as `pvDeleteBlocks` walks it (689-694): the indexes visited -/
def freeChain (b : Buffer) : Nat → Int → Option (List Int)
  | 0, _ => some []
  | n+1, i =>
    match b.link i with
    | none => none
    | some nxt => (freeChain b n nxt).map (i :: ·)

/-- second loop of `pvDeleteBlocks` (695-705); the value is the list of blocks the filter was asked about -/
def deleteBlocksLoop (P : Params) (bufAddr buf first : Int) (wasFree : List Int) (filter : Int → Bool) :
    List Nat → Pool → Outcome (List Int)
  | [], p => .ok [] p []
  | i :: is, p =>
    if (first + (i : Int)) ∈ wasFree then deleteBlocksLoop P bufAddr buf first wasFree filter is p
    else if filter (getBlock P buf (first + (i : Int))) then
      (deleteBlockAt P p bufAddr (first + (i : Int))).bind fun _ p' =>
        (deleteBlocksLoop P bufAddr buf first wasFree filter is { p' with allocCount := p'.allocCount - 1 }).map
          (getBlock P buf (first + (i : Int)) :: ·)
    else
      (deleteBlocksLoop P bufAddr buf first wasFree filter is p).map (getBlock P buf (first + (i : Int)) :: ·)

/-- `pvDeleteBlocks` (682-706) -/
def deleteBlocks (P : Params) (p : Pool) (bufAddr : Int) (filter : Int → Bool) : Outcome (List Int) :=
  match getBuf p.store bufAddr with
  | none => .stuck "pvDeleteBlocks: unknown buffer"
  | some b =>
    match freeChain b b.freeCount.toNat b.firstFree with
    | none => .stuck "pvDeleteBlocks: link byte of a live block read"
    | some ch => deleteBlocksLoop P bufAddr b.buf b.first ch filter (List.range P.N.toNat) p

/-- all buffers in list order (first buffer … head … last buffer) -/
def Pool.order (p : Pool) : List Int := p.pre.reverse ++ p.post

/-- the element following `x` in `l` -/
def succIn : List Int → Int → Option Int
  | a :: b :: t, x => if a = x then some b else succIn (b :: t) x
  | _, _ => none

/-- `pvGetNextBuffer` / `pvGetPrevBuffer` on the list view -/
def Pool.nextOf (p : Pool) (x : Int) : Option Int := succIn p.order x
def Pool.prevOf (p : Pool) (x : Int) : Option Int := succIn p.order.reverse x

/-- forward loop of `DeallocateIf` (368-376) -/
def difForward (P : Params) (filter : Int → Bool) : Nat → Int → Pool → Outcome (List Int)
  | 0, _, _ => .stuck "DeallocateIf: list longer than the number of buffers"
  | f+1, buffer, p =>
    (deleteBlocks P p buffer filter).bind fun tr p' =>
      match p.nextOf buffer with
      | none => .ok tr p' []
      | some nxt => (difForward P filter f nxt p').map (tr ++ ·)

/-- backward loop of `DeallocateIf` (377-383) -/
def difBackward (P : Params) (filter : Int → Bool) : Nat → Option Int → Pool → Outcome (List Int)
  | _, none, p => .ok [] p []
  | 0, some _, _ => .stuck "DeallocateIf: list longer than the number of buffers"
  | f+1, some buffer, p =>
    (deleteBlocks P p buffer filter).bind fun tr p' =>
      (difBackward P filter f (p.prevOf buffer) p').map (tr ++ ·)

/-- `DeallocateIf` (360-384) -/
def deallocateIf (P : Params) (p : Pool) (filter : Int → Bool) : Outcome (List Int) :=
  if P.N ≤ 1 then .stuck "DeallocateIf: extra check CanDeallocateAll" else
  (if P.useCache then flush P p else .ok () p []).bind fun _ p0 =>
    if p0.allocCount = 0 then .ok [] p0 []
    else
      match p0.post with
      | [] => .stuck "DeallocateIf: null head"
      | h :: _ =>
        (difForward P filter (p0.store.length + 1) h p0).bind fun tr1 p1 =>
          match p1.post with
          | [] => .stuck "DeallocateIf: null head"
          | h1 :: _ => (difBackward P filter (p1.store.length + 1) (p1.prevOf h1) p1).map (tr1 ++ ·)

/-- `DeallocateIf` whose filter throws when asked its `(k+1)`-th question. `pvDeleteBlocks` finishes one block
    (`pvDeleteBlock`, `--allocCount`) before it asks about the next and the two loops of `DeallocateIf` read the
    next / previous buffer before they sweep one, so the exception leaves the pool as a complete call does whose
    filter answers `false` from the `(k+1)`-th question on. The order of the questions does not depend on the
    answers (it is the trace of the call that deletes nothing). Value: the questions answered before the throw. -/
def deallocateIfThrow (P : Params) (p : Pool) (filter : Int → Bool) (k : Nat) : Outcome (List Int) :=
  match deallocateIf P p (fun _ => false) with
  | .ok tr _ _ => (deallocateIf P p (fun b => filter b && (tr.take k).contains b)).map (fun _ => tr.take k)
  | other => other

/-- first loop of `MergeFrom` (406-423) on the list view: the buffers before the other head move, nearest
    first, to the place just before this head -/
def mergeMoveFull : List Int → List Int → List Int
  | [], pre => pre
  | b :: bs, pre => mergeMoveFull bs (b :: pre)

/-- `MergeFrom` (386-435); value = the two pools afterwards (`this`, `memPool`) -/
def mergeFrom (P : Params) (a b : Pool) : Outcome Pool :=
  (if P.useCache then flush P b else .ok () b []).bind fun _ b1 =>
    match b1.post with
    | [] =>
      .ok { b1 with allocCount := 0, singles := [] }
          { a with allocCount := a.allocCount + b1.allocCount, singles := a.singles ++ b1.singles } []
    | _ :: _ =>
      match a.post with
      | [] =>
        .ok { b1 with allocCount := 0, store := [], pre := [], post := [] }
            { a with allocCount := a.allocCount + b1.allocCount, store := a.store ++ b1.store,
                     pre := b1.pre, post := b1.post } []
      | _ :: _ =>
        .ok { b1 with allocCount := 0, store := [], pre := [], post := [] }
            { a with allocCount := a.allocCount + b1.allocCount, store := a.store ++ b1.store,
                     pre := mergeMoveFull b1.pre a.pre, post := a.post ++ b1.post } []

/-- `~MemPool` (227-234) -/
def destroy (P : Params) (p : Pool) : Outcome Unit :=
  if p.allocCount ≠ 0 then .stuck "~MemPool: extra check allocCount == 0"
  else if P.N > 1 then deallocateAll P p
  else if P.useCache then flush P p
  else .ok () p []

/-! ## observers used by the theorems and the driver -/

/-- indexes of the blocks of a buffer -/
def Buffer.indexes (P : Params) (b : Buffer) : List Int :=
  (List.range P.N.toNat).map (fun (j : Nat) => b.first + (j : Int))

/-- blocks of a buffer that are handed out (to the user or to the cache) -/
def Buffer.taken (P : Params) (b : Buffer) : List Int :=
  ((b.indexes P).filter (fun i => (b.link i).isNone)).map (getBlock P b.buf)

/-- all blocks handed out by the buffers -/
def Pool.taken (P : Params) (p : Pool) : List Int := p.store.flatMap (Buffer.taken P)

/-- live blocks: handed out and not in the cache (`blockCount > 1`), or recorded single blocks not in the cache -/
def Pool.live (P : Params) (p : Pool) : List Int :=
  if P.N > 1 then (p.taken P).filter (fun x => !p.cache.contains x)
  else (p.singles.map (·.1)).filter (fun x => !p.cache.contains x)

/-- the ledger of the memory manager: blocks obtained and not yet given back, after a list of events;
    `none` = a `free` that matches no outstanding `malloc` (address and size) -/
def ledger : List (Int × Int) → List Ev → Option (List (Int × Int))
  | l, [] => some l
  | l, .malloc b s :: es => ledger ((b, s) :: l) es
  | l, .free a s :: es => if (a, s) ∈ l then ledger (l.erase (a, s)) es else none

/-! ## (c) pointer level: the `prev` / `next` fields of the buffers -/

structure Lk where
  prev : Option Int
  next : Option Int
deriving DecidableEq, Repr

abbrev Heap := Int → Lk

def setPrev (h : Heap) (b : Int) (v : Option Int) : Heap :=
  fun x => if x = b then { prev := v, next := (h x).next } else h x
def setNext (h : Heap) (b : Int) (v : Option Int) : Heap :=
  fun x => if x = b then { prev := (h x).prev, next := v } else h x
def setNextOpt (h : Heap) (b : Option Int) (v : Option Int) : Heap :=
  match b with | some pb => setNext h pb v | none => h
def setPrevOpt (h : Heap) (b : Option Int) (v : Option Int) : Heap :=
  match b with | some nb => setPrev h nb v | none => h

/-- `pvNewBuffer` 627-628 -/
def ptrInit (h : Heap) (b : Int) : Heap := setNext (setPrev h b none) b none

/-- `pvNewBlock` 528-529: link a new buffer behind the head -/
def ptrAppend (h : Heap) (head nb : Int) : Heap := setPrev (setNext h head (some nb)) nb (some head)

/-- `pvDeleteBuffer` 643-648 -/
def ptrUnlink (h : Heap) (b : Int) : Heap :=
  setPrevOpt (setNextOpt h (h b).prev (h b).next) (h b).next (h b).prev

/-- `pvMoveBufferToHead` (654-672); `none` = one of its two assertions fails; the value is the new heap
    (the new head is `buffer`) -/
def ptrMoveToHead (h : Heap) (head buffer : Int) : Option Heap :=
  match (h head).prev with
  | none => none
  | some headPrev =>
    if buffer = headPrev then some h
    else
      match (h buffer).next with
      | none => none
      | some nextB =>
        some (setNext (setPrev (setNext (setPrev
          (setNextOpt (setPrev h nextB (h buffer).prev) (h buffer).prev (some nextB))
            buffer (some headPrev)) buffer (some head)) head (some buffer)) headPrev (some buffer))

/-- one round of the first loop of `MergeFrom` (408-422): `buffer` is the buffer before `otherHead` -/
def ptrMergeStep (h : Heap) (thisHead otherHead buffer : Int) : Heap :=
  let h1 := setPrev (setNextOpt h (h buffer).prev (some otherHead)) otherHead (h buffer).prev
  setPrev (setNextOpt (setNext (setPrev h1 buffer (h1 thisHead).prev) buffer (some thisHead))
    (h1 thisHead).prev (some buffer)) thisHead (some buffer)

/-- first loop of `MergeFrom` (406-423) -/
def ptrMergeLoop (thisHead otherHead : Int) : Nat → Heap → Heap
  | 0, h => h
  | f+1, h =>
    match (h otherHead).prev with
    | none => h
    | some buffer => ptrMergeLoop thisHead otherHead f (ptrMergeStep h thisHead otherHead buffer)

/-- `while (next(buffer) != nullptr) buffer = next(buffer)` (424-431) -/
def ptrLast : Nat → Heap → Int → Int
  | 0, _, b => b
  | f+1, h, b => match (h b).next with | none => b | some n => ptrLast f h n

/-- the list surgery of `MergeFrom` for two non-empty lists (406-433); `fuel` bounds both loops -/
def ptrMergeFrom (fuel : Nat) (h : Heap) (thisHead otherHead : Int) : Heap :=
  setPrev (setNext (ptrMergeLoop thisHead otherHead fuel h)
      (ptrLast fuel (ptrMergeLoop thisHead otherHead fuel h) thisHead) (some otherHead))
    otherHead (some (ptrLast fuel (ptrMergeLoop thisHead otherHead fuel h) thisHead))

/-- walk `prev` from the head to the first buffer, then `next` to the last one -/
def ptrFirst : Nat → Heap → Int → Int
  | 0, _, b => b
  | f+1, h, b => match (h b).prev with | none => b | some n => ptrFirst f h n

def ptrWalk : Nat → Heap → Int → List Int
  | 0, _, _ => []
  | f+1, h, b => b :: (match (h b).next with | none => [] | some n => ptrWalk f h n)

def ptrWalkBack : Nat → Heap → Option Int → List Int
  | 0, _, _ => []
  | _, _, none => []
  | f+1, h, some b => b :: ptrWalkBack f h (h b).prev

end Momo.Pool
