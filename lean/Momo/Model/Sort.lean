import Momo.Extracted
/-
  Model of momo::HashSorter (include/momo/HashSorter.h) and momo::internal::RadixSorter
  (include/momo/RadixSorter.h) for property C17.

    * HashSorter::pvMultShift, pvGetStepCount, pvCompare                     (HashSorter.h:432-451)
    * pvBinarySearch, pvExponentialSearch                                     (HashSorter.h:395-430)
    * pvFindHash (interpolation, then exponential / binary search)            (HashSorter.h:342-393)
    * pvFindOther, pvFindNext, pvFind, pvGetBounds                            (HashSorter.h:267-340)
    * pvIsGrouped, pvIsSorted                                                 (HashSorter.h:227-265)
    * pvGroup, pvSort (HashSorter), SortPrehashed's swapper                   (HashSorter.h:120-133, 196-225)
    * RadixSorter::Sort, pvSort, pvSelectionSort, pvRadixSort (both), pvGetRadix (RadixSorter.h:71-214)

  Memory is reached only through the three primitives of `Mem` (read an item, read an item's code,
  swap two cells).  Every access is checked: an index outside the sequence, a `size_t` subtraction
  that would wrap, a failed `MOMO_ASSERT` and an exhausted loop fuel all yield `none`.  The theorems of
  `Momo/Props/C17.lean` show that `none` never occurs on the inputs the property speaks about.

  Iterators are (view, offset) pairs: a forward view with base `b` reads cell `b + i`, a
  `std::reverse_iterator` view with `base() = r` reads cell `r - 1 - i` (error when `i ≥ r`).
  Sizes are unbounded naturals; the only 64-bit wrap-around that matters (pvMultShift) is explicit.
  `tracedMem` adds a log of the swaps to any memory (the harness observes the real swaps through a custom
  `iterSwapper`); `Momo/Proof/SortMem.lean` shows it holds the same cells, so every theorem applies to it.
  Core Lean only (no Mathlib): this file is linked into the driver.
-/
namespace Momo.Sort
open Momo

/-! ## memory primitives -/

/-- The three ways the sorter touches the sequence.  `item s i` = `*(begin + i)`,
`code s i` = `iterHashFunc(begin + i)` / `codeGetter(begin + i)`, `swap s i j` = `iterSwapper(begin + i, begin + j)`.
`none` = access outside the sequence. -/
structure Mem (σ α : Type) where
  item : σ → Nat → Option α
  code : σ → Nat → Option Nat
  swap : σ → Nat → Nat → Option σ

/-- `Sort(begin, count, hashFunc, …)`: the sequence is an array of items, the code of a cell is
`hashFunc(*iter)` (IterHashFunc, HashSorter.h:63-80), the swapper is `std::iter_swap`. -/
def plainMem {α : Type} (hash : α → Nat) : Mem (Array α) α where
  item := fun a i => a[i]?
  code := fun a i => a[i]?.map hash
  swap := fun a i j => if h : i < a.size ∧ j < a.size then some (a.swap i j h.1 h.2) else none

/-- `SortPrehashed(begin, count, hashBegin, …)`: items and a parallel hash array; the code of cell `i`
is `hashBegin[i]` (IterPrehashFunc, HashSorter.h:82-105); the swapper swaps the items **and**
`hashBegin[iter1 - begin]`, `hashBegin[iter2 - begin]` (iterHashSwapper, HashSorter.h:126-130). -/
def preMem {α : Type} : Mem (Array α × Array Nat) α where
  item := fun s i => s.1[i]?
  code := fun s i => s.2[i]?
  swap := fun s i j =>
    if h : (i < s.1.size ∧ j < s.1.size) ∧ (i < s.2.size ∧ j < s.2.size) then
      some (s.1.swap i j h.1.1 h.1.2, s.2.swap i j h.2.1 h.2.2)
    else none

/-- a memory that also logs its swaps: (number of swaps, order-sensitive checksum of their index pairs).  Used by
the driver to compare the swap sequence of the real code (observed through a custom `iterSwapper`) with the model. -/
def tracedMem {σ α : Type} (M : Mem σ α) : Mem (σ × Nat × Nat) α where
  item := fun s i => M.item s.1 i
  code := fun s i => M.code s.1 i
  swap := fun s i j =>
    match s with
    | (a, n, chk) => (M.swap a i j).map fun a' => (a', n + 1, (chk * 1000003 + i * 65537 + j + 1) % 2 ^ 64)

/-- `size_t` subtraction that must not wrap -/
def csub (a b : Nat) : Option Nat := if b ≤ a then some (a - b) else none

/-- an iterator range seen from its `begin`: cell `i` is `*(begin + i)` -/
structure View (α : Type) where
  item : Nat → Option α
  code : Nat → Option Nat

/-- forward iterators starting at cell `b` -/
def Mem.fwd {σ α : Type} (M : Mem σ α) (s : σ) (b : Nat) : View α where
  item := fun i => M.item s (b + i)
  code := fun i => M.code s (b + i)

/-- `std::reverse_iterator<Iterator>(begin + r)`: position `i` dereferences cell `r - 1 - i` -/
def Mem.rev {σ α : Type} (M : Mem σ α) (s : σ) (r : Nat) : View α where
  item := fun i => if i < r then M.item s (r - 1 - i) else none
  code := fun i => if i < r then M.code s (r - 1 - i) else none

/-! ## arithmetic kernels -/

def w64 (x : Nat) : Nat := x % 2 ^ 64

/-- `halfSize = 4 * sizeof(HashCode)` bits (HashSorter.h:445) -/
@[reducible] def halfSize : Nat := Extracted.hsHalfSizeFactor * 8

/-- `halfMask = (HashCode{1} << halfSize) - 1` -/
@[reducible] def halfMask : Nat := 2 ^ halfSize - 1

/-- `pvMultShift(value1, value2)` (HashSorter.h:442-451), every 64-bit product and sum wrapped. -/
def multShift (v1 v2 : Nat) : Nat :=
  w64 (w64 (w64 ((v1 >>> halfSize) * (v2 >>> halfSize))
            + (w64 ((v1 >>> halfSize) * (v2 &&& halfMask)) >>> halfSize))
       + (w64 ((v2 >>> halfSize) * (v1 &&& halfMask)) >>> halfSize))

/-- `pvGetStepCount(count)` (HashSorter.h:432-435) -/
def stepCount (count : Nat) : Nat :=
  if count < 2 ^ Extracted.hsStepLog1 then 0
  else if count < 2 ^ Extracted.hsStepLog2 then 1
  else if count < 2 ^ Extracted.hsStepLog3 then 2 else 3

/-- `pvCompare(value1, value2)` (HashSorter.h:437-440) -/
def pvCompare (v1 v2 : Nat) : Int := if v1 < v2 then -1 else if v1 ≠ v2 then 1 else 0

/-! ## searches -/

/-- an `iterComparer` applied to `begin + i` -/
abbrev Cmp := Nat → Option Int

/-- loop of `pvBinarySearch` (HashSorter.h:418-428) -/
def binLoop (cmp : Cmp) : Nat → Nat → Nat → Option (Nat × Bool)
  | 0, _, _ => none
  | f+1, l, r =>
    if l < r then
      (cmp ((l + r) / 2)).bind fun c =>
        if c < 0 then binLoop cmp f ((l + r) / 2 + 1) r
        else if c > 0 then binLoop cmp f l ((l + r) / 2)
        else some ((l + r) / 2, true)
    else some (l, false)

/-- `pvBinarySearch(begin, count, iterComparer)`: (offset of the result iterator, found) -/
def binarySearch (cmp : Cmp) (count : Nat) : Option (Nat × Bool) := binLoop cmp (count + 1) 0 count

/-- `pvBinarySearch(begin + left, count, iterComparer)` seen from `begin` -/
def binarySearchAt (cmp : Cmp) (left count : Nat) : Option (Nat × Bool) :=
  (binarySearch (fun i => cmp (left + i)) count).map fun r => (left + r.1, r.2)

/-- loop of `pvExponentialSearch` (HashSorter.h:399-409): `i = 0, 2, 6, 14, …` -/
def expLoop (cmp : Cmp) (count : Nat) : Nat → Nat → Nat → Option (Nat × Bool)
  | 0, _, _ => none
  | f+1, i, left =>
    if i < count then
      (cmp i).bind fun c =>
        if c > 0 then (csub i left).bind fun n => binarySearchAt cmp left n
        else if c = 0 then some (i, true)
        else expLoop cmp count f (i * 2 + 2) (i + 1)
    else (csub count left).bind fun n => binarySearchAt cmp left n

/-- `pvExponentialSearch(begin, count, iterComparer)` -/
def exponentialSearch (cmp : Cmp) (count : Nat) : Option (Nat × Bool) := expLoop cmp count (count + 1) 0 0

/-- `pvFindOther(begin + p, count, equalFunc)` in view `v` (HashSorter.h:333-340): offset (from the
view's begin) of the first cell after `p` whose item is not equal to the item at `p`. -/
def findOther {α : Type} (eq : α → α → Bool) (v : View α) (p count : Nat) : Option Nat :=
  if count = 0 then none      -- MOMO_ASSERT(count > 0)
  else
    (exponentialSearch
      (fun i => (v.item p).bind fun a => (v.item (p + 1 + i)).bind fun b =>
        some (if eq a b then -1 else 1))
      (count - 1)).map fun r => p + 1 + r.1

/-- loop of `pvFindNext` (HashSorter.h:321-330); `p` = `iter - begin` -/
def findNextLoop {α : Type} (eq : α → α → Bool) (v : View α) (count : Nat) (item : α) (itemHash : Nat) :
    Nat → Nat → Option (Nat × Bool)
  | 0, _ => none
  | f+1, p =>
    (csub count p).bind fun n =>
    (findOther eq v p n).bind fun q =>
      if q = count then some (q, false)
      else (v.code q).bind fun h =>
        if h ≠ itemHash then some (q, false)
        else (v.item q).bind fun a =>
          if eq a item then some (q, true) else findNextLoop eq v count item itemHash f q

/-- `pvFindNext(begin, count, item, itemHash, iterHashFunc, equalFunc)` -/
def findNext {α : Type} (eq : α → α → Bool) (v : View α) (count : Nat) (item : α) (itemHash : Nat) :
    Option (Nat × Bool) :=
  findNextLoop eq v count item itemHash (count + 1) 0

/-- the comparer of `pvFindHash`: `pvCompare(iterHashFunc(iter), itemHash)` -/
def hashCmp {α : Type} (v : View α) (itemHash : Nat) : Cmp :=
  fun i => (v.code i).map fun h => pvCompare h itemHash

/-- `revCompareFunc`: `-pvCompare(iterHashFunc(iter), itemHash)` on reverse iterators -/
def revHashCmp {α : Type} (v : View α) (itemHash : Nat) : Cmp :=
  fun i => (v.code i).map fun h => - pvCompare h itemHash

/-- the `while (true)` loop of `pvFindHash` (HashSorter.h:354-391) followed by the final
`pvBinarySearch` (line 392); `begin` is cell 0. -/
def findHashLoop {σ α : Type} (M : Mem σ α) (s : σ) (count itemHash : Nat) :
    Nat → Nat → Nat → Nat → Nat → Option (Nat × Bool)
  | 0, _, _, _, _ => none
  | f+1, step, left, right, mid =>
    (M.code s mid).bind fun mh =>
      if mh < itemHash then
        -- leftIndex = middleIndex + 1
        if step = 0 then
          (csub right (mid + 1)).bind fun n =>
            (exponentialSearch (hashCmp (M.fwd s (mid + 1)) itemHash) n).map fun r => (mid + 1 + r.1, r.2)
        else if mid + multShift (itemHash - mh) count ≥ right then
          (csub right (mid + 1)).bind fun n => binarySearchAt (hashCmp (M.fwd s 0) itemHash) (mid + 1) n
        else findHashLoop M s count itemHash f (step - 1) (mid + 1) right (mid + multShift (itemHash - mh) count)
      else if mh > itemHash then
        -- rightIndex = middleIndex
        if step = 0 then
          (csub mid left).bind fun n =>
            (exponentialSearch (revHashCmp (M.rev s mid) itemHash) n).bind fun r =>
              -- { res.iterator.base() - (res.found ? 1 : 0), res.found }
              (csub mid (r.1 + (if r.2 then 1 else 0))).map fun idx => (idx, r.2)
        else if left + multShift (mh - itemHash) count > mid then
          (csub mid left).bind fun n => binarySearchAt (hashCmp (M.fwd s 0) itemHash) left n
        else findHashLoop M s count itemHash f (step - 1) left mid (mid - multShift (mh - itemHash) count)
      else some (mid, true)

/-- `pvFindHash(begin, count, itemHash, iterHashFunc)` (HashSorter.h:342-393) -/
def findHash {σ α : Type} (M : Mem σ α) (s : σ) (count itemHash : Nat) : Option (Nat × Bool) :=
  if count = 0 then some (0, false)
  else findHashLoop M s count itemHash (stepCount count + 1) (stepCount count) 0 count (multShift itemHash count)

/-- `pvFind` (HashSorter.h:267-283): (index of the result iterator, found) -/
def find {σ α : Type} (M : Mem σ α) (eq : α → α → Bool) (s : σ) (count : Nat) (item : α) (itemHash : Nat) :
    Option (Nat × Bool) :=
  (findHash M s count itemHash).bind fun res =>
    if !res.2 then some res
    else (M.item s res.1).bind fun a =>
      if eq a item then some res
      else
        -- pvFindNext(reverse_iterator(res.iterator + 1), Dist(begin, res.iterator + 1), …)
        (findNext eq (M.rev s (res.1 + 1)) (res.1 + 1) item itemHash).bind fun rev =>
          if rev.2 then (csub (res.1 + 1) (rev.1 + 1)).map fun idx => (idx, true)   -- revRes.iterator.base() - 1
          else
            (csub count res.1).bind fun n =>
              (findNext eq (M.fwd s res.1) n item itemHash).map fun r => (res.1 + r.1, r.2)

/-- `pvGetBounds` (HashSorter.h:285-314): (index of begin, index of end); `Bounds(b, e)` computes `e - b`. -/
def getBounds {σ α : Type} (M : Mem σ α) (eq : α → α → Bool) (s : σ) (count : Nat) (item : α) (itemHash : Nat) :
    Option (Nat × Nat) :=
  (findHash M s count itemHash).bind fun res =>
    if !res.2 then some (res.1, res.1)
    else (M.item s res.1).bind fun a =>
      if eq a item then
        (findOther eq (M.rev s (res.1 + 1)) 0 (res.1 + 1)).bind fun k =>
        (csub (res.1 + 1) k).bind fun resBegin =>                       -- .base()
        (csub count res.1).bind fun n =>
        (findOther eq (M.fwd s res.1) 0 n).bind fun e =>
        (csub (res.1 + e) resBegin).map fun _ => (resBegin, res.1 + e)
      else
        (findNext eq (M.rev s (res.1 + 1)) (res.1 + 1) item itemHash).bind fun rev =>
          if rev.2 then
            -- pvFindOther(revRes.iterator, Dist(begin, revRes.iterator.base()), equalFunc).base()
            (csub (res.1 + 1) rev.1).bind fun revBase =>
            (findOther eq (M.rev s (res.1 + 1)) rev.1 revBase).bind fun k =>
            (csub (res.1 + 1) k).bind fun resBegin =>
            (csub revBase resBegin).map fun _ => (resBegin, revBase)
          else
            (csub count res.1).bind fun n =>
            (findNext eq (M.fwd s res.1) n item itemHash).bind fun r =>
              if !r.2 then some (res.1 + r.1, res.1 + r.1)
              else
                (csub count (res.1 + r.1)).bind fun n2 =>
                (findOther eq (M.fwd s res.1) r.1 n2).map fun e => (res.1 + r.1, res.1 + e)

/-! ## IsSorted -/

/-- inner loop of `pvIsGrouped` (HashSorter.h:258-262) -/
def isGroupedInner {α : Type} (eq : α → α → Bool) (v : View α) (count i : Nat) : Nat → Nat → Option Bool
  | 0, _ => none
  | f+1, j =>
    if j < count then
      (v.item (i - 1)).bind fun x => (v.item j).bind fun y =>
        if eq x y then some false else isGroupedInner eq v count i f (j + 1)
    else some true

/-- outer loop of `pvIsGrouped` (HashSorter.h:254-264) -/
def isGroupedOuter {α : Type} (eq : α → α → Bool) (v : View α) (count : Nat) : Nat → Nat → Option Bool
  | 0, _ => none
  | f+1, i =>
    if i < count then
      (v.item (i - 1)).bind fun x => (v.item i).bind fun y =>
        if eq x y then isGroupedOuter eq v count f (i + 1)
        else (isGroupedInner eq v count i (count + 1) (i + 1)).bind fun ok =>
          if ok then isGroupedOuter eq v count f (i + 1) else some false
    else some true

/-- `pvIsGrouped(begin, count, equalFunc)` -/
def isGrouped {α : Type} (eq : α → α → Bool) (v : View α) (count : Nat) : Option Bool :=
  isGroupedOuter eq v count (count + 1) 1

/-- loop of `pvIsSorted` (HashSorter.h:235-248) -/
def isSortedLoop {σ α : Type} (M : Mem σ α) (eq : α → α → Bool) (s : σ) (count : Nat) :
    Nat → Nat → Nat → Nat → Option Bool
  | 0, _, _, _ => none
  | f+1, i, prevIndex, prevHash =>
    if i < count then
      (M.code s i).bind fun hash =>
        if hash < prevHash then some false
        else if hash ≠ prevHash then
          (csub i prevIndex).bind fun n =>
          (isGrouped eq (M.fwd s prevIndex) n).bind fun ok =>
            if ok then isSortedLoop M eq s count f (i + 1) i hash else some false
        else isSortedLoop M eq s count f (i + 1) prevIndex prevHash
    else (csub count prevIndex).bind fun n => isGrouped eq (M.fwd s prevIndex) n

/-- `pvIsSorted(begin, count, iterHashFunc, equalFunc)` (HashSorter.h:227-249) -/
def isSorted {σ α : Type} (M : Mem σ α) (eq : α → α → Bool) (s : σ) (count : Nat) : Option Bool :=
  if count = 0 then some true
  else (M.code s 0).bind fun h0 => isSortedLoop M eq s count (count + 1) 1 0 h0

/-! ## pvGroup -/

/-- `groupFunc(begin + b, count)` -/
abbrev GroupFn (σ : Type) := σ → Nat → Nat → Option σ

/-- inner loop of `pvGroup` (HashSorter.h:216-223); returns the state and the advanced `i` -/
def groupInner {σ α : Type} (M : Mem σ α) (eq : α → α → Bool) (b count : Nat) :
    Nat → σ → Nat → Nat → Option (σ × Nat)
  | 0, _, _, _ => none
  | f+1, s, i, j =>
    if j < count then
      (M.item s (b + (i - 1))).bind fun x => (M.item s (b + j)).bind fun y =>
        if eq x y then (M.swap s (b + i) (b + j)).bind fun s' => groupInner M eq b count f s' (i + 1) (j + 1)
        else groupInner M eq b count f s i (j + 1)
    else some (s, i)

/-- outer loop of `pvGroup` (HashSorter.h:212-224) -/
def groupOuter {σ α : Type} (M : Mem σ α) (eq : α → α → Bool) (b count : Nat) : Nat → σ → Nat → Option σ
  | 0, _, _ => none
  | f+1, s, i =>
    if i < count then
      (M.item s (b + (i - 1))).bind fun x => (M.item s (b + i)).bind fun y =>
        if eq x y then groupOuter M eq b count f s (i + 1)
        else (groupInner M eq b count (count + 1) s i (i + 1)).bind fun r =>
          groupOuter M eq b count f r.1 (r.2 + 1)
    else some s

/-- `pvGroup(begin + b, count, equalFunc, iterSwapper)` -/
def group {σ α : Type} (M : Mem σ α) (eq : α → α → Bool) (s : σ) (b count : Nat) : Option σ :=
  groupOuter M eq b count (count + 1) s 1

/-- the `groupFunc` lambda of `HashSorter::pvSort` (HashSorter.h:200-204) -/
def hsGroupFn {σ α : Type} (M : Mem σ α) (eq : α → α → Bool) : GroupFn σ :=
  fun s b count => if count > 2 then group M eq s b count else some s

/-- the `groupFunc` of `RadixSorter::Sort(begin, count, codeGetter)` (RadixSorter.h:67): does nothing -/
def noGroupFn {σ : Type} : GroupFn σ := fun s _ _ => some s

/-! ## RadixSorter -/

/-- `pvGetRadix(code, shift)` (RadixSorter.h:210-214) -/
def getRadix (R code shift : Nat) : Nat := (code >>> shift) &&& (2 ^ R - 1)

/-- `selectionSortMaxCount = 1 << (radixSize / 2 + 1)` (RadixSorter.h:58) -/
def selectionSortMaxCount (R : Nat) : Nat := 2 ^ (R / Extracted.rsSelDiv + Extracted.rsSelAdd)

/-- `nextShift = (shift > radixSize) ? shift - radixSize : 0` (RadixSorter.h:154) -/
def nextShift (R shift : Nat) : Nat := if shift > R then shift - R else 0

/-- `codes[i] = codeGetter(begin + i)` for `i < count` (RadixSorter.h:107-108); `acc` = cells filled so far -/
def readCodes {σ α : Type} (M : Mem σ α) (s : σ) (b : Nat) : Nat → Nat → Array Nat → Option (Array Nat)
  | 0, _, acc => some acc
  | n+1, i, acc => (M.code s (b + i)).bind fun c => readCodes M s b n (i + 1) (acc.push c)

/-- `std::min_element(codes + j0, codes + hi)`: index of the first smallest element; `j` runs from
`j0 + 1`, `best` starts at `j0`. -/
def minElem (codes : Array Nat) (hi : Nat) : Nat → Nat → Nat → Option Nat
  | 0, _, _ => none
  | f+1, j, best =>
    if j < hi then
      (codes[j]?).bind fun cj => (codes[best]?).bind fun cb =>
        if cj < cb then minElem codes hi f (j + 1) j else minElem codes hi f (j + 1) best
    else some best

/-- selection loop of `pvSelectionSort` (RadixSorter.h:109-118) -/
def selLoop {σ α : Type} (M : Mem σ α) (b count : Nat) : Nat → σ → Array Nat → Nat → Option (σ × Array Nat)
  | 0, _, _, _ => none
  | f+1, s, codes, i =>
    if i + 1 < count then
      (minElem codes count (count + 1) (i + 2) (i + 1)).bind fun m =>
      (codes[m]?).bind fun cm => (codes[i]?).bind fun ci =>
        if cm < ci then
          (M.swap s (b + i) (b + m)).bind fun s' => selLoop M b count f s' ((codes.setIfInBounds i cm).setIfInBounds m ci) (i + 1)
        else selLoop M b count f s codes (i + 1)
    else some (s, codes)

/-- run loop of `pvSelectionSort` (RadixSorter.h:119-128): `groupFunc` on every maximal run of equal codes -/
def groupRuns {σ : Type} (G : GroupFn σ) (codes : Array Nat) (b count : Nat) : Nat → σ → Nat → Nat → Option σ
  | 0, _, _, _ => none
  | f+1, s, i, prev =>
    if i < count then
      (codes[i]?).bind fun ci => (codes[prev]?).bind fun cp =>
        if ci ≠ cp then
          (csub i prev).bind fun n => (G s (b + prev) n).bind fun s' => groupRuns G codes b count f s' (i + 1) i
        else groupRuns G codes b count f s (i + 1) prev
    else (csub count prev).bind fun n => G s (b + prev) n

/-- `pvSelectionSort(begin + b, count, …)` (RadixSorter.h:100-129); the local array has
`selectionSortMaxCount` cells. -/
def selectionSort {σ α : Type} (M : Mem σ α) (R : Nat) (G : GroupFn σ) (s : σ) (b count : Nat) : Option σ :=
  if count = 0 then none                           -- MOMO_ASSERT(count > 0)
  else if count > selectionSortMaxCount R then none  -- std::array<Code, selectionSortMaxCount> codes
  else
    (readCodes M s b count 0 (Array.mkEmpty count)).bind fun codes =>
    (selLoop M b count (count + 1) s codes 0).bind fun r =>
    groupRuns G r.2 b count (count + 1) r.1 1 0

/-- `++endIndexes[r]` -/
def incr (a : Array Nat) (r : Nat) : Option (Array Nat) :=
  if h : r < a.size then some (a.set r (a[r] + 1) h) else none

/-- counting loop of `pvRadixSort` (RadixSorter.h:144-151): histogram, `singleCode`, `singleRadix` -/
def countLoop {σ α : Type} (M : Mem σ α) (s : σ) (R b shift code0 radix0 : Nat) :
    Nat → Nat → Array Nat → Bool → Bool → Option (Array Nat × Bool × Bool)
  | 0, _, E, sc, sr => some (E, sc, sr)
  | n+1, i, E, sc, sr =>
    (M.code s (b + i)).bind fun code =>
    (incr E (getRadix R code shift)).bind fun E' =>
      countLoop M s R b shift code0 radix0 n (i + 1) E' (sc && code == code0) (sr && getRadix R code shift == radix0)

/-- `for (r = 1; r < radixCount; ++r) endIndexes[r] += endIndexes[r - 1]` (RadixSorter.h:161-162) -/
def prefixSums : Nat → Nat → Array Nat → Option (Array Nat)
  | 0, _, E => some E
  | n+1, r, E =>
    (E[r]?).bind fun x => (E[r - 1]?).bind fun y =>
      if h : r < E.size then prefixSums n (r + 1) (E.set r (x + y) h) else none

/-- `beginIndexes[0] = 0; beginIndexes[r] = endIndexes[r - 1]` (RadixSorter.h:189-192) -/
def beginIndexes (E : Array Nat) : Array Nat := #[0] ++ E.pop

/-- `while (beginIndex < endIndex)` of the in-place partition (RadixSorter.h:197-206) -/
def partInner {σ α : Type} (M : Mem σ α) (R b shift r endIndex : Nat) :
    Nat → σ → Array Nat → Option (σ × Array Nat)
  | 0, _, _ => none
  | f+1, s, B =>
    (B[r]?).bind fun bi =>
      if bi < endIndex then
        (M.code s (b + bi)).bind fun c =>
          if getRadix R c shift ≠ r then
            (B[getRadix R c shift]?).bind fun bj =>
            (M.swap s (b + bi) (b + bj)).bind fun s' =>
            (incr B (getRadix R c shift)).bind fun B' => partInner M R b shift r endIndex f s' B'
          else (incr B r).bind fun B' => partInner M R b shift r endIndex f s B'
      else some (s, B)

/-- `for (r = 0; r < radixCount; ++r)` of the in-place partition (RadixSorter.h:193-207) -/
def partOuter {σ α : Type} (M : Mem σ α) (R b shift count : Nat) (E : Array Nat) :
    Nat → Nat → σ → Array Nat → Option σ
  | 0, _, s, _ => some s
  | n+1, r, s, B =>
    (E[r]?).bind fun e =>
    (partInner M R b shift r e (count + 1) s B).bind fun sb => partOuter M R b shift count E n (r + 1) sb.1 sb.2

/-- `pvRadixSort(begin + b, codeGetter, iterSwapper, shift, endIndexes)` (RadixSorter.h:184-208) -/
def partition {σ α : Type} (M : Mem σ α) (R : Nat) (s : σ) (b count shift : Nat) (E : Array Nat) : Option σ :=
  partOuter M R b shift count E (2 ^ R) 0 s (beginIndexes E)

/-- `for (size_t e : endIndexes) { f(begin + beginIndex, e - beginIndex); beginIndex = e; }`
(RadixSorter.h:167-180) -/
def bucketLoop {σ : Type} (f : σ → Nat → Nat → Option σ) (b : Nat) : List Nat → σ → Nat → Option σ
  | [], s, _ => some s
  | e :: es, s, bi => (csub e bi).bind fun n => (f s (b + bi) n).bind fun s' => bucketLoop f b es s' e

/-- `pvSort(begin + b, count, …, shift)` (RadixSorter.h:81-98) with the call of the 6-argument
`pvRadixSort` passed in as `rs` -/
def pvSortWith {σ α : Type} (M : Mem σ α) (R : Nat) (G : GroupFn σ) (rs : σ → Nat → Nat → Option σ)
    (s : σ) (b count : Nat) : Option σ :=
  if count < 2 then some s
  else if count = 2 then
    (M.code s b).bind fun c0 => (M.code s (b + 1)).bind fun c1 =>
      if c0 > c1 then M.swap s b (b + 1) else some s
  else if count ≤ selectionSortMaxCount R then selectionSort M R G s b count
  else rs s b count

/-- the partition step of `pvRadixSort`, a parameter so that the theorems can also be stated for any
partition meeting its post-condition -/
abbrev PartFn (σ : Type) := σ → Nat → Nat → Nat → Array Nat → Option σ

/-- `pvRadixSort(begin + b, count, …, shift)` (RadixSorter.h:131-182); fuel = recursion depth -/
def radixSortF {σ α : Type} (M : Mem σ α) (R : Nat) (G : GroupFn σ) (P : PartFn σ) :
    Nat → σ → Nat → Nat → Nat → Option σ
  | 0, _, _, _, _ => none
  | f+1, s, b, count, shift =>
    if count = 0 then none           -- MOMO_ASSERT(count > 0)
    else
      (M.code s b).bind fun code0 =>
      (incr (Array.replicate (2 ^ R) 0) (getRadix R code0 shift)).bind fun E0 =>
      (countLoop M s R b shift code0 (getRadix R code0 shift) (count - 1) 1 E0 true true).bind fun cr =>
        if cr.2.1 then G s b count                   -- singleCode
        else if cr.2.2 then                          -- singleRadix
          if shift = 0 then none                     -- MOMO_ASSERT(shift > 0)
          else radixSortF M R G P f s b count (nextShift R shift)
        else
          (prefixSums (2 ^ R - 1) 1 cr.1).bind fun E =>
          (P s b count shift E).bind fun s' =>
            if shift > 0 then
              bucketLoop (fun s b n => pvSortWith M R G (fun s b n => radixSortF M R G P f s b n (nextShift R shift)) s b n)
                b E.toList s' 0
            else bucketLoop G b E.toList s' 0

/-- `RadixSorter<R>::Sort(begin, count, codeGetter, iterSwapper, groupFunc)` (RadixSorter.h:71-78) for
codes of `W = 8 * sizeof(Code)` bits, with the partition step `P` -/
def radixSorterSortWith {σ α : Type} (M : Mem σ α) (R W : Nat) (G : GroupFn σ) (P : PartFn σ) (s : σ) (count : Nat) :
    Option σ :=
  pvSortWith M R G
    (fun s b n => radixSortF M R G P ((if W > R then W - R else 0) + 1) s b n (if W > R then W - R else 0))
    s 0 count

/-- `RadixSorter<R>::Sort` as written (in-place cycle-leader partition) -/
def radixSorterSort {σ α : Type} (M : Mem σ α) (R W : Nat) (G : GroupFn σ) (s : σ) (count : Nat) : Option σ :=
  radixSorterSortWith M R W G (partition M R) s count

/-- `HashSorter::pvSort` (HashSorter.h:196-206): `RadixSorter<>` on 64-bit hash codes, grouping equal items
inside every run of equal codes.  `Sort` = this with `plainMem hash`, `SortPrehashed` = this with `preMem`. -/
def hashSort {σ α : Type} (M : Mem σ α) (eq : α → α → Bool) (s : σ) (count : Nat) : Option σ :=
  radixSorterSort M Extracted.rsDefaultRadixSize 64 (hsGroupFn M eq) s count

end Momo.Sort
