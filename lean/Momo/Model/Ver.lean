import Momo.Extracted
/-
  Model `Ver` of momo's version-checked handles (property C15).

  Configuration modelled: settings classes with `checkMode = CheckMode::exception`, `checkVersion = true`
  (HashMultiMap: `checkKeyVersion = checkValueVersion = true`), `extraCheckMode = nothing`.
  `MOMO_CHECK(e)` then is `if (!e) throw std::invalid_argument(#e)` (Utility.h:98-102, UserSettings.h:164-165);
  in the model a failed check is the answer `none` of an `Option`-valued function, and - because every such
  function returns its new state only in the `some` case - the caller keeps the old state: "throws
  std::invalid_argument and leaves the container unchanged" (in the C++ every modelled check precedes the first
  write, except DataTable::pvRemove(range)/pvAssign which mark rows while checking and restore the marks in
  their catch block, DataTable.h:1193-1197, :1261-1265).

  C++ mirrored (line numbers of /repo/include/momo at the time of writing):
    * VersionKeeper<Settings,true>            IteratorUtility.h:178-216  (pointer to the container's version cell + snapshot;
                                              Check() :199-202, Check(version, allowEmpty) :204-211)
    * SetCrew<…,true>::IncVersion             SetUtility.h:149-153  `++mData->version` (size_t, wraps modulo 2^64)
    * HashSet  / HashSetConstPosition / HashSetConstIterator   HashSet.h   (entry points cited at each function)
    * TreeSet  / TreeSetConstIterator                          TreeSet.h
    * HashMultiMap / HashMultiMapIterator                      HashMultiMap.h (key version = crew of the nested HashMap,
                                                               value version = ValueCrew::Data::valueVersion :599)
    * ArrayIndexIterator, ArrayShifter                         ArrayUtility.h:41-146, :196-307; Array.h, SegmentedArray.h
    * DataTable (changeVersion / removeVersion :205-206), DataConstRowReference (DataRow.h:234-321),
      DataSelection, DataRowBounds (DataSelection.h), DataRawMultiHashIterator (DataIndexes.h:154-250)
  HashMap / TreeMap forward every check and every version bump to their nested HashSet / TreeSet
  (HashMap.h:689-696, 809-813, 853-862; TreeMap.h:602-608, 722-726, 741-750), so they share the set models.

  A version cell is identified by a natural number (its address).  `Cells` holds, per cell, the number of
  increments ever applied (ghost, unbounded); the size_t stored in the cell is that number modulo 2^64.
  What the abstract contents cannot determine (iteration order of a hash table, the capacity chosen by a growth)
  is a parameter of the operation, supplied by the correspondence harness from the real container (DESIGN 2.7).
  Core Lean only (no Mathlib): this file is linked into the driver.
-/
namespace Momo.Ver

/-- modulus of `size_t` -/
def W : Nat := 18446744073709551616

/-- `MOMO_CHECK(b)` in exception mode: `none` = `throw std::invalid_argument` -/
def chk (b : Bool) : Option Unit := if b then some () else none

/-! ## VersionKeeper -/

/-- ghost increment counters of all version cells -/
abbrev Cells := Nat → Nat

/-- the size_t currently stored in cell `c` -/
def stored (cs : Cells) (c : Nat) : Nat := cs c % W

/-- `VersionKeeper<Settings, true>`: `mContainerVersion` (none = nullptr) and `mVersion` -/
structure Keeper where
  cell : Option Nat
  ver : Nat
deriving DecidableEq, Repr, Inhabited

namespace Keeper

/-- `VersionKeeper()` :187-191 -/
def null : Keeper := ⟨none, 0⟩

/-- `Check()` :199-202  `MOMO_CHECK(mContainerVersion != nullptr && *mContainerVersion == mVersion)` -/
def check (k : Keeper) (cs : Cells) : Bool :=
  match k.cell with
  | none => false
  | some c => stored cs c == k.ver

/-- `Check(version, allowEmpty)` :204-211
    `if (allowEmpty && mContainerVersion == nullptr) return; MOMO_CHECK(mContainerVersion == version && mVersion == *version)` -/
def checkAt (k : Keeper) (cs : Cells) (c : Nat) (allowEmpty : Bool) : Bool :=
  match k.cell with
  | none => allowEmpty
  | some c' => c' == c && k.ver == stored cs c

end Keeper

/-- `VersionKeeper(const size_t* version)` :193-197: snapshot of cell `c` -/
def snap (cs : Cells) (c : Nat) : Keeper := ⟨some c, stored cs c⟩

/-- `++*version` -/
def bump (cs : Cells) (c : Nat) : Cells := fun i => if i = c then cs i + 1 else cs i

/-- `n` increments of cell `c` -/
def bumpN (cs : Cells) (c : Nat) (n : Nat) : Cells := fun i => if i = c then cs i + n else cs i

/-! ## HashSet / HashMap -/

/-- abstract state of one HashSet/HashMap object -/
structure HSet where
  /-- identity of `mCrew.mData->version` (the crew is swapped by `Swap`, HashSet.h:616-622) -/
  cell : Nat
  /-- stored keys (no duplicates), newest first -/
  keys : List Nat
  /-- `mCapacity`; 0 iff `mBuckets == nullptr` -/
  cap : Nat
deriving Repr, Inhabited

/-- `HashSetConstPosition` / `HashSetConstIterator` (HashSet.h:189-392) -/
structure HPos where
  kp : Keeper
  /-- `some k`: `mBucketIterator` points at stored key `k`; `none`: empty bucket iterator (position of an absent key) -/
  elem : Option Nat
  /-- iterator with `mBuckets != nullptr` (from GetBegin / Remove / ++), HashSet.h:342-346 -/
  movable : Bool
deriving DecidableEq, Repr, Inhabited

/-- `HashSetConstIterator()` / `HashSetConstPosition()` -/
def HPos.null : HPos := ⟨Keeper.null, none, false⟩

/-- `HashSetConstPosition::operator->` :219-224  `VersionKeeper::Check(); MOMO_CHECK(mBucketIterator != BucketIterator())` -/
def HPos.deref (h : HPos) (cs : Cells) : Option Nat := do
  chk (h.kp.check cs)
  h.elem

/-- `HashSetConstIterator::operator++` :315-323; `next` = where the real iterator arrives (none = end of table) -/
def HPos.inc (h : HPos) (cs : Cells) (next : Option Nat) : Option HPos := do
  let _ ← h.deref cs                       -- :317 `Position::operator->();	// check`
  if h.movable then
    match next with
    | some n => pure ⟨h.kp, some n, true⟩    -- pvInc / pvMove :349-383 keep the VersionKeeper
    | none => pure HPos.null                -- :382 `*this = HashSetConstIterator()`
  else pure HPos.null                        -- :321

namespace HSet

/-- `pvFind` :1021-1042 -/
def findPos (s : HSet) (cs : Cells) (k : Nat) : HPos :=
  ⟨snap cs s.cell, if s.keys.contains k then some k else none, false⟩

/-- `GetBegin` :624-631; `first` = the key the real iterator points at -/
def beginPos (s : HSet) (cs : Cells) (first : Nat) : HPos :=
  if s.keys.isEmpty then HPos.null else ⟨snap cs s.cell, some first, true⟩

/-- `MakePosition` :957-960 -/
def makePos (s : HSet) (cs : Cells) : HPos := ⟨snap cs s.cell, none, false⟩

/-- body of `pvAdd` after its checks: pvAddNogrow / pvAddGrow, `++mCount; mCrew.IncVersion()` :1120-1124;
    `newCap` = `mCapacity` afterwards -/
def addNew (s : HSet) (cs : Cells) (k newCap : Nat) : Cells × HSet × HPos :=
  (bump cs s.cell, { s with keys := k :: s.keys, cap := newCap }, ⟨snap (bump cs s.cell) s.cell, some k, false⟩)

/-- `pvInsert` :1074-1082 (Insert / InsertVar / InsertCrt; HashMap::Insert, InsertOrAssign, operator[]) -/
def insert (s : HSet) (cs : Cells) (k newCap : Nat) : Cells × HSet × HPos × Bool :=
  if s.keys.contains k then (cs, s, ⟨snap cs s.cell, some k, false⟩, false)
  else ((s.addNew cs k newCap).1, (s.addNew cs k newCap).2.1, (s.addNew cs k newCap).2.2, true)

/-- `Insert(ExtractedItem&&)` :765-775: `extItem.GetItem()` checks `mHasItem` (SetUtility.h:303-313) -/
def insertExt (s : HSet) (cs : Cells) (extFull : Bool) (k newCap : Nat) : Option (Cells × HSet × HPos × Bool) := do
  chk extFull
  pure (s.insert cs k newCap)

/-- `pvAdd` :1084-1099 (Add / AddVar / AddCrt) -/
def add (s : HSet) (cs : Cells) (h : HPos) (k newCap : Nat) : Option (Cells × HSet × HPos) := do
  chk (h.kp.checkAt cs s.cell false)       -- :1087 `ConstPositionProxy::Check(pos, mCrew.GetVersion(), false)`
  chk h.elem.isNone                        -- :1088 `MOMO_CHECK(GetBucketIterator(pos) == BucketIterator())`
  pure (s.addNew cs k newCap)

/-- `Add(ConstPosition, ExtractedItem&&)` :819-829: pvAdd's checks, then the creator runs `extItem.Remove`
    (`MOMO_CHECK(mHasItem)`, SetUtility.h:326-331) before anything is stored -/
def addExt (s : HSet) (cs : Cells) (h : HPos) (extFull : Bool) (k newCap : Nat) : Option (Cells × HSet × HPos) := do
  chk (h.kp.checkAt cs s.cell false)
  chk h.elem.isNone
  chk extFull
  pure (s.addNew cs k newCap)

/-- `pvRemove` :1169-1187 (Remove(iter) / Remove(pos) / Extract(pos)); `next` = element the returned iterator points at -/
def remove (s : HSet) (cs : Cells) (h : HPos) (next : Option Nat) : Option (Cells × HSet × HPos) := do
  chk (s.cap != 0)                          -- :1172 `MOMO_CHECK(mBuckets != nullptr)`
  chk (h.kp.checkAt cs s.cell false)        -- :1174
  let k ← h.elem                            -- :1176 `MOMO_CHECK(bucketIter != BucketIterator())`
  let cs' := bump cs s.cell                 -- :1182-1183 `--mCount; mCrew.IncVersion()`
  let r : HPos := if h.movable then (match next with | some n => ⟨snap cs' s.cell, some n, true⟩ | none => HPos.null)
                  else HPos.null            -- :1184-1186
  pure (cs', { s with keys := s.keys.erase k }, r)

/-- `Remove(ConstIterator, ExtractedItem&)` :843-850: `extItem.Create` first checks `!mHasItem` (SetUtility.h:317-324) -/
def removeExt (s : HSet) (cs : Cells) (h : HPos) (extFull : Bool) (next : Option Nat) : Option (Cells × HSet × HPos) := do
  chk (!extFull)
  s.remove cs h next

/-- `Remove(const Key&)` :852-859 -/
def removeKey (s : HSet) (cs : Cells) (k : Nat) : Cells × HSet × Bool :=
  if s.keys.contains k then (bump cs s.cell, { s with keys := s.keys.erase k }, true) else (cs, s, false)

/-- `Remove(itemFilter)` :861-875 with the filter `key % m == r`: one `Remove(iter)` (one increment) per removed key -/
def removeIf (s : HSet) (cs : Cells) (m r : Nat) : Cells × HSet × Nat :=
  (bumpN cs s.cell (s.keys.filter (fun k => k % m == r)).length,
   { s with keys := s.keys.filter (fun k => !(k % m == r)) }, (s.keys.filter (fun k => k % m == r)).length)

/-- `ResetKey` :882-890: checks, assigns the key in place, no version change -/
def resetKey (s : HSet) (cs : Cells) (h : HPos) (k' : Nat) : Option HSet := do
  chk (h.kp.checkAt cs s.cell false)        -- :885
  let k ← h.elem                            -- :887
  pure { s with keys := s.keys.map (fun x => if x == k then k' else x) }

/-- `Clear(shrink)` :666-684 -/
def clear (s : HSet) (cs : Cells) (shrink : Bool) : Cells × HSet :=
  if s.cap == 0 then (cs, s)                 -- :668 `if (mBuckets == nullptr) return;`
  else (bump cs s.cell, { s with keys := [], cap := if shrink then 0 else s.cap })

/-- `Reserve(capacity)` :691-714; `newCap` = `mCapacity` afterwards -/
def reserve (s : HSet) (cs : Cells) (n newCap : Nat) : Cells × HSet :=
  if n ≤ s.cap then (cs, s)                  -- :693
  else (bump cs s.cell, { s with cap := newCap })   -- :710-711

/-- `Insert(begin, end)` :777-789: one pvInsert per argument -/
def insertRange (s : HSet) (cs : Cells) (ks : List Nat) (newCap : Nat) : Cells × HSet :=
  ks.foldl (fun (acc : Cells × HSet) k => ((acc.2.insert acc.1 k newCap).1, (acc.2.insert acc.1 k newCap).2.1)) (cs, s)

/-- `CheckIterator` :962-966 -/
def checkIt (s : HSet) (cs : Cells) (h : HPos) (allowEmpty : Bool) : Option Unit :=
  chk (h.kp.checkAt cs s.cell allowEmpty)

/-- `pvMergeTo` :1286-1297 (MergeTo / MergeFrom, also HashMap::MergeTo): every key of `src` absent from `dst` is extracted
    (increment of `src`, :1183) and inserted (increment of `dst`, :1123); keys present in `dst` stay. -/
def mergeTo (cs : Cells) (src dst : HSet) (newCap : Nat) : Cells × HSet × HSet :=
  let moved := src.keys.filter (fun k => !dst.keys.contains k)
  if moved.isEmpty then (cs, src, dst)
  else (bumpN (bumpN cs src.cell moved.length) dst.cell moved.length,
        { src with keys := src.keys.filter (fun k => dst.keys.contains k) },
        { dst with keys := moved.reverse ++ dst.keys, cap := newCap })

end HSet

/-- two container objects of the same type plus the version cells -/
structure HWorld where
  cs : Cells
  a : HSet
  b : HSet

namespace HWorld
def obj (w : HWorld) (o : Bool) : HSet := if o then w.b else w.a
def setObj (w : HWorld) (o : Bool) (cs : Cells) (s : HSet) : HWorld :=
  if o then { w with cs := cs, b := s } else { w with cs := cs, a := s }
end HWorld

/-- entry points of HashSet / HashMap (object selector `o`: false = A, true = B) -/
inductive HOp where
  | find (o : Bool) (k : Nat)
  | begin_ (o : Bool) (first : Nat)
  | end_ (o : Bool)
  | makePos (o : Bool)
  | deref (h : HPos)
  | inc (h : HPos) (next : Option Nat)
  | checkIt (o : Bool) (h : HPos) (allowEmpty : Bool)
  | insert (o : Bool) (k newCap : Nat)
  | insertExt (o : Bool) (extFull : Bool) (k newCap : Nat)
  | add (o : Bool) (h : HPos) (k newCap : Nat)
  | addExt (o : Bool) (h : HPos) (extFull : Bool) (k newCap : Nat)
  | remove (o : Bool) (h : HPos) (next : Option Nat)
  | removeExt (o : Bool) (h : HPos) (extFull : Bool) (next : Option Nat)
  | removeKey (o : Bool) (k : Nat)
  | removeIf (o : Bool) (m r : Nat)
  | resetKey (o : Bool) (h : HPos) (k : Nat)
  | clear (o : Bool) (shrink : Bool)
  | reserve (o : Bool) (n newCap : Nat)
  | insertRange (o : Bool) (ks : List Nat) (newCap : Nat)
  | swap
  | mergeTo (o : Bool) (newCap : Nat)          -- source `o`, destination the other object
  | mergeSelf (o : Bool)                       -- `x.MergeTo(x)` :906-909
  | bucketBounds (o : Bool) (idx bucketCount : Nat)   -- GetBucketBounds :921-923 `MOMO_CHECK(bucketIndex < GetBucketCount())`
  | bucketIndex (o : Bool)                     -- GetBucketIndex :937-939 `MOMO_CHECK(mBuckets != nullptr)`

/-- what an entry point returns -/
inductive HRes where
  | unit
  | pos (h : HPos)
  | posFlag (h : HPos) (b : Bool)
  | key (k : Nat)
  | flag (b : Bool)
  | num (n : Nat)
deriving Repr

/-- one call; `none` in the second component = `std::invalid_argument` was thrown (the world is returned unchanged) -/
def HWorld.step (w : HWorld) : HOp → HWorld × Option HRes
  | .find o k => (w, some (.pos ((w.obj o).findPos w.cs k)))
  | .begin_ o f => (w, some (.pos ((w.obj o).beginPos w.cs f)))
  | .end_ _ => (w, some (.pos HPos.null))                      -- GetEnd :633-636
  | .makePos o => (w, some (.pos ((w.obj o).makePos w.cs)))
  | .deref h => (w, (h.deref w.cs).map .key)
  | .inc h n => (w, (h.inc w.cs n).map .pos)
  | .checkIt o h ae => (w, ((w.obj o).checkIt w.cs h ae).map (fun _ => .unit))
  | .insert o k nc =>
      let r := (w.obj o).insert w.cs k nc
      (w.setObj o r.1 r.2.1, some (.posFlag r.2.2.1 r.2.2.2))
  | .insertExt o ef k nc =>
      match (w.obj o).insertExt w.cs ef k nc with
      | some r => (w.setObj o r.1 r.2.1, some (.posFlag r.2.2.1 r.2.2.2))
      | none => (w, none)
  | .add o h k nc =>
      match (w.obj o).add w.cs h k nc with
      | some r => (w.setObj o r.1 r.2.1, some (.pos r.2.2))
      | none => (w, none)
  | .addExt o h ef k nc =>
      match (w.obj o).addExt w.cs h ef k nc with
      | some r => (w.setObj o r.1 r.2.1, some (.pos r.2.2))
      | none => (w, none)
  | .remove o h n =>
      match (w.obj o).remove w.cs h n with
      | some r => (w.setObj o r.1 r.2.1, some (.pos r.2.2))
      | none => (w, none)
  | .removeExt o h ef n =>
      match (w.obj o).removeExt w.cs h ef n with
      | some r => (w.setObj o r.1 r.2.1, some (.pos r.2.2))
      | none => (w, none)
  | .removeKey o k =>
      let r := (w.obj o).removeKey w.cs k
      (w.setObj o r.1 r.2.1, some (.flag r.2.2))
  | .removeIf o m r =>
      let x := (w.obj o).removeIf w.cs m r
      (w.setObj o x.1 x.2.1, some (.num x.2.2))
  | .resetKey o h k =>
      match (w.obj o).resetKey w.cs h k with
      | some s => (w.setObj o w.cs s, some .unit)
      | none => (w, none)
  | .clear o sh =>
      let r := (w.obj o).clear w.cs sh
      (w.setObj o r.1 r.2, some .unit)
  | .reserve o n nc =>
      let r := (w.obj o).reserve w.cs n nc
      (w.setObj o r.1 r.2, some .unit)
  | .insertRange o ks nc =>
      let r := (w.obj o).insertRange w.cs ks nc
      (w.setObj o r.1 r.2, some .unit)
  | .swap => ({ w with a := w.b, b := w.a }, some .unit)          -- Swap :616-622 exchanges crew, count, capacity, buckets
  | .mergeTo o nc =>
      let r := HSet.mergeTo w.cs (w.obj o) (w.obj (!o)) nc
      ((w.setObj o r.1 r.2.1).setObj (!o) r.1 r.2.2, some .unit)
  | .mergeSelf _ => (w, some .unit)
  | .bucketBounds _ idx bc => (w, (chk (idx < bc)).map (fun _ => .unit))
  | .bucketIndex o => (w, (chk ((w.obj o).cap != 0)).map (fun _ => .unit))

/-- **rejection table, version part**: the VersionKeeper check an entry point applies to its handle argument -/
def HOp.vcheck (w : HWorld) : HOp → Bool
  | .deref h => h.kp.check w.cs
  | .inc h _ => h.kp.check w.cs
  | .checkIt o h ae => h.kp.checkAt w.cs (w.obj o).cell ae
  | .add o h _ _ => h.kp.checkAt w.cs (w.obj o).cell false
  | .addExt o h _ _ _ => h.kp.checkAt w.cs (w.obj o).cell false
  | .remove o h _ => h.kp.checkAt w.cs (w.obj o).cell false
  | .removeExt o h _ _ => h.kp.checkAt w.cs (w.obj o).cell false
  | .resetKey o h _ => h.kp.checkAt w.cs (w.obj o).cell false
  | _ => true

/-- **rejection table, argument part**: the other `MOMO_CHECK`s of the entry point -/
def HOp.pre (w : HWorld) : HOp → Bool
  | .deref h => h.elem.isSome
  | .inc h _ => h.elem.isSome
  | .insertExt _ ef _ _ => ef
  | .add _ h _ _ => h.elem.isNone
  | .addExt _ h ef _ _ => h.elem.isNone && ef
  | .remove o h _ => (w.obj o).cap != 0 && h.elem.isSome
  | .removeExt o h ef _ => !ef && (w.obj o).cap != 0 && h.elem.isSome
  | .resetKey _ h _ => h.elem.isSome
  | .bucketBounds _ i bc => decide (i < bc)
  | .bucketIndex o => (w.obj o).cap != 0
  | _ => true

/-- the handle argument of an entry point -/
def HOp.handle : HOp → Option HPos
  | .deref h => some h
  | .inc h _ => some h
  | .checkIt _ h _ => some h
  | .add _ h _ _ => some h
  | .addExt _ h _ _ _ => some h
  | .remove _ h _ => some h
  | .removeExt _ h _ _ => some h
  | .resetKey _ h _ => some h
  | _ => none

/-- the container object an entry point is called on (none: called on the handle itself) -/
def HOp.target : HOp → Option Bool
  | .checkIt o _ _ => some o
  | .add o _ _ _ => some o
  | .addExt o _ _ _ _ => some o
  | .remove o _ _ => some o
  | .removeExt o _ _ _ => some o
  | .resetKey o _ _ => some o
  | _ => none

/-! ## TreeSet / TreeMap -/

/-- abstract state of one TreeSet/TreeMap object -/
structure TSet where
  cell : Nat
  /-- keys in ascending order (non-strict for multi-key traits) -/
  keys : List Nat
  /-- `mRootNode != nullptr` -/
  root : Bool
  /-- `mNodeParams != nullptr` -/
  params : Bool
  /-- `TreeTraits::multiKey` -/
  multi : Bool
deriving Repr, Inhabited

/-- `TreeSetConstIterator` (TreeSet.h:31-175): version keeper + (node, itemIndex), abstracted to the rank in the sorted sequence -/
structure TIt where
  kp : Keeper
  /-- `none`: `mNode == nullptr`; `some i`: i-th element (`i = count`: the end iterator of a tree with a root) -/
  pos : Option Nat
deriving DecidableEq, Repr, Inhabited

/-- `TreeSetConstIterator()` :49-53 -/
def TIt.null : TIt := ⟨Keeper.null, none⟩

/-- number of keys `< k` (rank of the lower bound) -/
def lowerIdx (keys : List Nat) (k : Nat) : Nat := (keys.filter (· < k)).length
/-- number of keys `≤ k` (rank of the upper bound) -/
def upperIdx (keys : List Nat) (k : Nat) : Nat := (keys.filter (· ≤ k)).length
/-- insert at rank `i` -/
def insertAt (keys : List Nat) (i k : Nat) : List Nat := keys.take i ++ k :: keys.drop i
/-- insert `k` behind every key `≤ k` -/
def insSorted (keys : List Nat) (k : Nat) : List Nat := insertAt keys (upperIdx keys k) k

namespace TSet

/-- `pvMakeIterator` :1063-1066 -/
def mkIt (s : TSet) (cs : Cells) (i : Nat) : TIt := ⟨snap cs s.cell, some i⟩
/-- `GetEnd` :591-596 -/
def endIt (s : TSet) (cs : Cells) : TIt := if s.root then s.mkIt cs s.keys.length else TIt.null
/-- `GetBegin` :581-589 -/
def beginIt (s : TSet) (cs : Cells) : TIt := if s.root then s.mkIt cs 0 else TIt.null
/-- `GetLowerBound` :637-647 / pvFindFirst :1124-1141 -/
def lowerBound (s : TSet) (cs : Cells) (k : Nat) : TIt := if s.root then s.mkIt cs (lowerIdx s.keys k) else TIt.null
/-- `GetUpperBound` :649-659 -/
def upperBound (s : TSet) (cs : Cells) (k : Nat) : TIt := if s.root then s.mkIt cs (upperIdx s.keys k) else TIt.null
/-- `Find` :661-671 / pvFind :1172-1177 -/
def findIt (s : TSet) (cs : Cells) (k : Nat) : TIt :=
  if s.root then (if s.keys.contains k then s.mkIt cs (lowerIdx s.keys k) else s.mkIt cs s.keys.length) else TIt.null

/-- `Clear` :626-635 -/
def clear (s : TSet) (cs : Cells) : Cells × TSet :=
  if !s.params then (cs, s)                  -- :628 `if (mNodeParams == nullptr) return;`
  else (bump cs s.cell, { s with keys := [], root := false, params := false })

/-- body of `pvAdd` after its checks :1208-1233 (and pvAddFirst :1243-1248 when there is no root) -/
def addAt (s : TSet) (cs : Cells) (i k : Nat) : Cells × TSet × TIt :=
  (bump cs s.cell, { s with keys := insertAt s.keys i k, root := true, params := true }, ⟨snap (bump cs s.cell) s.cell, some i⟩)

/-- `pvAdd` :1202-1236 / `pvAddFirst` :1238-1256 (Add / AddVar / AddCrt; TreeMap::Add…) -/
def add (s : TSet) (cs : Cells) (h : TIt) (k : Nat) : Option (Cells × TSet × TIt) :=
  if !s.root then do
    chk h.pos.isNone                         -- :1242 `MOMO_CHECK(iter == ConstIterator())` (compares node and index only)
    pure (s.addAt cs 0 k)
  else do
    chk (h.kp.checkAt cs s.cell false)       -- :1207 ptCheck :138-142
    let i ← h.pos                            -- :141 `MOMO_CHECK(allowEmpty || mNode != nullptr)`
    pure (s.addAt cs i k)

/-- `Add(ConstIterator, ExtractedItem&&)` :789-799 on a tree that has a root -/
def addExt (s : TSet) (cs : Cells) (h : TIt) (extFull : Bool) (k : Nat) : Option (Cells × TSet × TIt) := do
  chk s.root                                 -- (root-less case not modelled: pvAddFirst leaves mNodeParams allocated when the creator throws)
  chk (h.kp.checkAt cs s.cell false)
  let i ← h.pos
  chk extFull                                -- SetUtility.h:326-331, reached before anything is stored
  pure (s.addAt cs i k)

/-- `pvInsert` :1188-1200 (Insert / InsertVar / InsertCrt; TreeMap::Insert, operator[]) -/
def insert (s : TSet) (cs : Cells) (k : Nat) : Cells × TSet × TIt × Bool :=
  if !s.multi && s.keys.contains k then (cs, s, s.mkIt cs (lowerIdx s.keys k), false)
  else ((s.addAt cs (upperIdx s.keys k) k).1, (s.addAt cs (upperIdx s.keys k) k).2.1, (s.addAt cs (upperIdx s.keys k) k).2.2, true)

/-- `Insert(ExtractedItem&&)` :722-732 -/
def insertExt (s : TSet) (cs : Cells) (extFull : Bool) (k : Nat) : Option (Cells × TSet × TIt × Bool) := do
  chk extFull
  pure (s.insert cs k)

/-- body of `pvRemove` after its checks :1326-1341; the root node stays even when the tree becomes empty (pvRebalance :1510-1521) -/
def removeAt (s : TSet) (cs : Cells) (i : Nat) : Cells × TSet × TIt :=
  (bump cs s.cell, { s with keys := s.keys.eraseIdx i }, ⟨snap (bump cs s.cell) s.cell, some i⟩)

/-- `pvRemove` :1320-1342 (Remove(iter) / Extract(iter)) -/
def remove (s : TSet) (cs : Cells) (h : TIt) : Option (Cells × TSet × TIt) := do
  chk (h.kp.checkAt cs s.cell false)         -- :1324
  chk (h.pos != (s.endIt cs).pos)            -- :1325 `MOMO_CHECK(iter != GetEnd())`
  let i ← h.pos
  pure (s.removeAt cs i)

/-- `Remove(ConstIterator, ExtractedItem&)` :810-817 -/
def removeExt (s : TSet) (cs : Cells) (h : TIt) (extFull : Bool) : Option (Cells × TSet × TIt) := do
  chk (!extFull)
  s.remove cs h

/-- removal of ranks `[i, j)` after the checks of `Remove(begin, end)` :835-866 -/
def removeSpan (s : TSet) (cs : Cells) (i j : Nat) (e : TIt) : Cells × TSet × TIt :=
  if j - i == 0 then (cs, s, e)                                     -- :835-836
  else if j - i == s.keys.length then ((s.clear cs).1, (s.clear cs).2, TIt.null)   -- :837-841 `Clear(); return GetEnd();`
  else (bump cs s.cell, { s with keys := s.keys.take i ++ s.keys.drop j }, ⟨snap (bump cs s.cell) s.cell, some i⟩)   -- :864-866

/-- `Remove(ConstIterator begin, ConstIterator end)` :819-867 -/
def removeRange (s : TSet) (cs : Cells) (b e : TIt) : Option (Cells × TSet × TIt) :=
  if !s.root then do
    chk (b.pos.isNone && e.pos.isNone)       -- :823 `MOMO_CHECK(begin == ConstIterator() && end == ConstIterator())`
    pure (cs, s, TIt.null)
  else do
    chk (b.kp.checkAt cs s.cell false)       -- :826
    chk (e.kp.checkAt cs s.cell false)       -- :827
    let i ← b.pos
    let j ← e.pos
    chk (i ≤ j && j ≤ s.keys.length)         -- :830-834 walking from `begin`, `MOMO_CHECK(iter != thisEnd)` until `end` is met
    pure (s.removeSpan cs i j e)

/-- `Remove(const Key&)` :869-888 -/
def removeKey (s : TSet) (cs : Cells) (k : Nat) : Cells × TSet × Nat :=
  if !s.keys.contains k then (cs, s, 0)
  else if !s.multi then ((s.removeAt cs (lowerIdx s.keys k)).1, (s.removeAt cs (lowerIdx s.keys k)).2.1, 1)
  else ((s.removeSpan cs (lowerIdx s.keys k) (upperIdx s.keys k) TIt.null).1,
        (s.removeSpan cs (lowerIdx s.keys k) (upperIdx s.keys k) TIt.null).2.1, upperIdx s.keys k - lowerIdx s.keys k)

/-- `Remove(itemFilter)` :890-904 with the filter `key % m == r` -/
def removeIf (s : TSet) (cs : Cells) (m r : Nat) : Cells × TSet × Nat :=
  (bumpN cs s.cell (s.keys.filter (fun k => k % m == r)).length,
   { s with keys := s.keys.filter (fun k => !(k % m == r)) }, (s.keys.filter (fun k => k % m == r)).length)

/-- `ResetKey` :911-920 -/
def resetKey (s : TSet) (cs : Cells) (h : TIt) (k' : Nat) : Option TSet := do
  chk (h.kp.checkAt cs s.cell false)         -- :914
  chk (h.pos != (s.endIt cs).pos)            -- :915
  let i ← h.pos
  pure { s with keys := s.keys.set i k' }

/-- `CheckIterator` :980-983 / ptCheck :138-142 -/
def checkIt (s : TSet) (cs : Cells) (h : TIt) (allowEmpty : Bool) : Option Unit := do
  chk (h.kp.checkAt cs s.cell allowEmpty)
  chk (allowEmpty || h.pos.isSome)

/-- `Insert(begin, end)` :734-759 -/
def insertRange (s : TSet) (cs : Cells) (ks : List Nat) : Cells × TSet :=
  ks.foldl (fun (acc : Cells × TSet) k => ((acc.2.insert acc.1 k).1, (acc.2.insert acc.1 k).2.1)) (cs, s)

/-- `pvIsOrdered(treeSet1, treeSet2)` :1083-1087 -/
def ordered (multi : Bool) (k1 k2 : List Nat) : Bool :=
  match k1.getLast?, k2.head? with
  | some x, some y => if multi then x ≤ y else x < y
  | _, _ => false

/-- keys that the item-by-item merge moves (each: one `pvExtract` of the source :1340, one `pvAdd` of the destination :1232) -/
def movedKeys (multi : Bool) (src dst : List Nat) : List Nat :=
  if multi then src else src.filter (fun k => !dst.contains k)
/-- keys that stay in the source -/
def stayKeys (multi : Bool) (src dst : List Nat) : List Nat :=
  if multi then [] else src.filter (fun k => dst.contains k)

/-- `MergeTo(TreeSet&)` :936-978 for empty TreeTraits and equal memory managers -/
def mergeTo (cs : Cells) (src dst : TSet) : Cells × TSet × TSet :=
  if src.keys.isEmpty then (cs, src, dst)                          -- :942-944
  else if dst.keys.isEmpty then                                    -- :948-962 the destination (node params created if absent, an empty
    (bump (bump cs src.cell) dst.cell,                             --   root node destroyed) takes over the source's root; the source keeps
     { src with keys := [], root := false },                       --   its node params; both versions incremented
     { dst with keys := src.keys, root := src.root, params := true })
  else if ordered src.multi src.keys dst.keys then                 -- :958-971 pvMergeFast
    (bump (bump cs src.cell) dst.cell, { src with keys := [], root := false }, { dst with keys := src.keys ++ dst.keys })
  else if ordered src.multi dst.keys src.keys then
    (bump (bump cs src.cell) dst.cell, { src with keys := [], root := false }, { dst with keys := dst.keys ++ src.keys })
  else                                                             -- :974-977 pvMergeTo / pvMergeToLinear: item by item
    if (movedKeys src.multi src.keys dst.keys).isEmpty then (cs, src, dst)
    else (bumpN (bumpN cs src.cell (movedKeys src.multi src.keys dst.keys).length) dst.cell (movedKeys src.multi src.keys dst.keys).length,
          { src with keys := stayKeys src.multi src.keys dst.keys },
          { dst with keys := (movedKeys src.multi src.keys dst.keys).foldl insSorted dst.keys })

end TSet

/-- the tree a live iterator belongs to is found through its version cell -/
structure TWorld where
  cs : Cells
  a : TSet
  b : TSet

namespace TWorld
def obj (w : TWorld) (o : Bool) : TSet := if o then w.b else w.a
def setObj (w : TWorld) (o : Bool) (cs : Cells) (s : TSet) : TWorld :=
  if o then { w with cs := cs, b := s } else { w with cs := cs, a := s }
/-- the object whose crew owns cell `c` -/
def byCell (w : TWorld) (c : Nat) : Option TSet :=
  if w.a.cell == c then some w.a else if w.b.cell == c then some w.b else none

/-- `TreeSetConstIterator::operator->` :102-108 -/
def deref (w : TWorld) (h : TIt) : Option Nat := do
  chk (h.kp.check w.cs)                      -- :104
  let i ← h.pos                              -- :105 `MOMO_CHECK(mNode != nullptr)`
  let c ← h.kp.cell
  let s ← w.byCell c
  s.keys[i]?                                 -- :106 `MOMO_CHECK(mItemIndex < mNode->GetCount())`

/-- `TreeSetConstIterator::operator++` :57-75 -/
def inc (w : TWorld) (h : TIt) : Option TIt := do
  let _ ← w.deref h                          -- :59-61 Check, node, `MOMO_CHECK(mItemIndex < mNode->GetCount())`
  let i ← h.pos
  pure ⟨h.kp, some (i + 1)⟩

/-- `TreeSetConstIterator::operator--` :77-100 -/
def dec (w : TWorld) (h : TIt) : Option TIt := do
  chk (h.kp.check w.cs)                      -- :79
  let i ← h.pos                              -- :80
  chk (i != 0)                               -- :94 `MOMO_CHECK(node != nullptr)` when walking up from the first element
  pure ⟨h.kp, some (i - 1)⟩
end TWorld

/-- entry points of TreeSet / TreeMap -/
inductive TOp where
  | begin_ (o : Bool) | end_ (o : Bool)
  | lower (o : Bool) (k : Nat) | upper (o : Bool) (k : Nat) | find (o : Bool) (k : Nat)
  | deref (h : TIt) | inc (h : TIt) | dec (h : TIt)
  | checkIt (o : Bool) (h : TIt) (allowEmpty : Bool)
  | insert (o : Bool) (k : Nat)
  | insertExt (o : Bool) (extFull : Bool) (k : Nat)
  | add (o : Bool) (h : TIt) (k : Nat)
  | addExt (o : Bool) (h : TIt) (extFull : Bool) (k : Nat)
  | remove (o : Bool) (h : TIt)
  | removeExt (o : Bool) (h : TIt) (extFull : Bool)
  | removeRange (o : Bool) (b e : TIt)
  | removeKey (o : Bool) (k : Nat)
  | removeIf (o : Bool) (m r : Nat)
  | resetKey (o : Bool) (h : TIt) (k : Nat)
  | clear (o : Bool)
  | insertRange (o : Bool) (ks : List Nat)
  | swap
  | mergeTo (o : Bool)
  | mergeSelf (o : Bool)

inductive TRes where
  | unit
  | it (h : TIt)
  | itFlag (h : TIt) (b : Bool)
  | key (k : Nat)
  | num (n : Nat)
deriving Repr

def TWorld.step (w : TWorld) : TOp → TWorld × Option TRes
  | .begin_ o => (w, some (.it ((w.obj o).beginIt w.cs)))
  | .end_ o => (w, some (.it ((w.obj o).endIt w.cs)))
  | .lower o k => (w, some (.it ((w.obj o).lowerBound w.cs k)))
  | .upper o k => (w, some (.it ((w.obj o).upperBound w.cs k)))
  | .find o k => (w, some (.it ((w.obj o).findIt w.cs k)))
  | .deref h => (w, (w.deref h).map .key)
  | .inc h => (w, (w.inc h).map .it)
  | .dec h => (w, (w.dec h).map .it)
  | .checkIt o h ae => (w, ((w.obj o).checkIt w.cs h ae).map (fun _ => .unit))
  | .insert o k =>
      let r := (w.obj o).insert w.cs k
      (w.setObj o r.1 r.2.1, some (.itFlag r.2.2.1 r.2.2.2))
  | .insertExt o ef k =>
      match (w.obj o).insertExt w.cs ef k with
      | some r => (w.setObj o r.1 r.2.1, some (.itFlag r.2.2.1 r.2.2.2))
      | none => (w, none)
  | .add o h k =>
      match (w.obj o).add w.cs h k with
      | some r => (w.setObj o r.1 r.2.1, some (.it r.2.2))
      | none => (w, none)
  | .addExt o h ef k =>
      match (w.obj o).addExt w.cs h ef k with
      | some r => (w.setObj o r.1 r.2.1, some (.it r.2.2))
      | none => (w, none)
  | .remove o h =>
      match (w.obj o).remove w.cs h with
      | some r => (w.setObj o r.1 r.2.1, some (.it r.2.2))
      | none => (w, none)
  | .removeExt o h ef =>
      match (w.obj o).removeExt w.cs h ef with
      | some r => (w.setObj o r.1 r.2.1, some (.it r.2.2))
      | none => (w, none)
  | .removeRange o b e =>
      match (w.obj o).removeRange w.cs b e with
      | some r => (w.setObj o r.1 r.2.1, some (.it r.2.2))
      | none => (w, none)
  | .removeKey o k =>
      let r := (w.obj o).removeKey w.cs k
      (w.setObj o r.1 r.2.1, some (.num r.2.2))
  | .removeIf o m r =>
      let x := (w.obj o).removeIf w.cs m r
      (w.setObj o x.1 x.2.1, some (.num x.2.2))
  | .resetKey o h k =>
      match (w.obj o).resetKey w.cs h k with
      | some s => (w.setObj o w.cs s, some .unit)
      | none => (w, none)
  | .clear o =>
      let r := (w.obj o).clear w.cs
      (w.setObj o r.1 r.2, some .unit)
  | .insertRange o ks =>
      let r := (w.obj o).insertRange w.cs ks
      (w.setObj o r.1 r.2, some .unit)
  | .swap => ({ w with a := w.b, b := w.a }, some .unit)          -- Swap :573-579
  | .mergeTo o =>
      let r := TSet.mergeTo w.cs (w.obj o) (w.obj (!o))
      ((w.setObj o r.1 r.2.1).setObj (!o) r.1 r.2.2, some .unit)
  | .mergeSelf _ => (w, some .unit)                               -- :938-939

/-- **rejection table, version part** (TreeSet / TreeMap).  `Add` on a tree without root node compares the iterator with
    `ConstIterator()` instead of checking its version (pvAddFirst :1242); `Remove(begin, end)` likewise (:823). -/
def TOp.vcheck (w : TWorld) : TOp → Bool
  | .deref h => h.kp.check w.cs
  | .inc h => h.kp.check w.cs
  | .dec h => h.kp.check w.cs
  | .checkIt o h ae => h.kp.checkAt w.cs (w.obj o).cell ae
  | .add o h _ => !(w.obj o).root || h.kp.checkAt w.cs (w.obj o).cell false
  | .addExt o h _ _ => h.kp.checkAt w.cs (w.obj o).cell false
  | .remove o h => h.kp.checkAt w.cs (w.obj o).cell false
  | .removeExt o h _ => h.kp.checkAt w.cs (w.obj o).cell false
  | .removeRange o b e => !(w.obj o).root || (b.kp.checkAt w.cs (w.obj o).cell false && e.kp.checkAt w.cs (w.obj o).cell false)
  | .resetKey o h _ => h.kp.checkAt w.cs (w.obj o).cell false
  | _ => true

/-- number of elements of the tree a live iterator belongs to -/
def TWorld.countOf (w : TWorld) (h : TIt) : Nat :=
  match h.kp.cell with
  | some c => match w.byCell c with
    | some s => s.keys.length
    | none => 0
  | none => 0

/-- the iterator points at an element (not null, not the end) -/
def TWorld.atElem (w : TWorld) (h : TIt) : Bool :=
  match h.pos with
  | some i => decide (i < w.countOf h)
  | none => false

/-- the iterator is not null and not the first position -/
def TIt.notFirst (h : TIt) : Bool :=
  match h.pos with
  | some i => i != 0
  | none => false

/-- **rejection table, argument part** (TreeSet / TreeMap) -/
def TOp.pre (w : TWorld) : TOp → Bool
  | .deref h => w.atElem h
  | .inc h => w.atElem h
  | .dec h => h.notFirst
  | .checkIt _ h ae => ae || h.pos.isSome
  | .insertExt _ ef _ => ef
  | .add o h _ => if (w.obj o).root then h.pos.isSome else h.pos.isNone
  | .addExt o h ef _ => (w.obj o).root && h.pos.isSome && ef
  | .remove o h => h.pos.isSome && h.pos != ((w.obj o).endIt w.cs).pos
  | .removeExt o h ef => !ef && h.pos.isSome && h.pos != ((w.obj o).endIt w.cs).pos
  | .removeRange o b e =>
    if (w.obj o).root then
      match b.pos, e.pos with
      | some i, some j => decide (i ≤ j) && decide (j ≤ (w.obj o).keys.length)
      | _, _ => false
    else b.pos.isNone && e.pos.isNone
  | .resetKey o h _ => h.pos.isSome && h.pos != ((w.obj o).endIt w.cs).pos
  | _ => true

/-- handle arguments of an entry point -/
def TOp.handles : TOp → List TIt
  | .deref h => [h]
  | .inc h => [h]
  | .dec h => [h]
  | .checkIt _ h _ => [h]
  | .add _ h _ => [h]
  | .addExt _ h _ _ => [h]
  | .remove _ h => [h]
  | .removeExt _ h _ => [h]
  | .removeRange _ b e => [b, e]
  | .resetKey _ h _ => [h]
  | _ => []

def TOp.target : TOp → Option Bool
  | .checkIt o _ _ => some o
  | .add o _ _ => some o
  | .addExt o _ _ _ => some o
  | .remove o _ => some o
  | .removeExt o _ _ => some o
  | .removeRange o _ _ => some o
  | .resetKey o _ _ => some o
  | _ => none

/-! ## HashMultiMap -/

/-- abstract state of one HashMultiMap object -/
structure MMap where
  /-- version cell of the nested HashMap's crew (key version) -/
  kcell : Nat
  /-- `mValueCrew.mData->valueVersion` (HashMultiMap.h:599) -/
  vcell : Nat
  /-- keys (unique, newest first) with their value arrays (possibly empty) -/
  kv : List (Nat × List Nat)
  /-- capacity of the nested HashMap (0 iff it has no buckets) -/
  cap : Nat
deriving Repr, Inhabited

/-- `HashMultiMapIterator` (HashMultiMap.h:180-302): key iterator + value pointer + keeper of the value version -/
structure VIt where
  /-- `mKeyIterator` (a HashDerivedIterator over the nested map's iterator = an `HPos` on `kcell`) -/
  kit : HPos
  /-- VersionKeeper on the value version -/
  vp : Keeper
  /-- `none`: `mValueIterator == ValueIterator()`; `some i`: i-th value of the key -/
  vidx : Option Nat
deriving DecidableEq, Repr, Inhabited

/-- `HashMultiMapIterator()` :216-219 -/
def VIt.null : VIt := ⟨HPos.null, Keeper.null, none⟩

namespace MMap

def vals (m : MMap) (k : Nat) : Option (List Nat) := m.kv.lookup k
def setVals (m : MMap) (k : Nat) (vs : List Nat) : MMap :=
  { m with kv := m.kv.map (fun p => if p.1 == k then (k, vs) else p) }
def valueCount (m : MMap) : Nat := (m.kv.map (fun p => p.2.length)).sum

/-- `Find` :909-931 -/
def findKey (m : MMap) (cs : Cells) (k : Nat) : HPos :=
  ⟨snap cs m.kcell, if (m.vals k).isSome then some k else none, false⟩
/-- `GetKeyBounds().GetBegin()` :894-902 -/
def keyBegin (m : MMap) (cs : Cells) (first : Nat) : HPos :=
  if m.kv.isEmpty then HPos.null else ⟨snap cs m.kcell, some first, true⟩

/-- key iterator dereference (`keyIter->key`, `keyIter->GetCount()`): HashDerivedIterator::operator-> (IteratorUtility.h:416-419)
    over HashMapIterator::operator-> over HashSetConstPosition::operator-> -/
def kderef (m : MMap) (cs : Cells) (h : HPos) : Option (Nat × Nat) := do
  let k ← h.deref cs
  pure (k, ((m.vals k).getD []).length)

/-- result of `pvMove` (:285-297) as observed on the real iterator: `to = some (key, index, movable)` or the end -/
def moved (h : HPos) (vp : Keeper) (to : Option (Nat × Nat)) : VIt :=
  match to with
  | some (k, i) => ⟨⟨h.kp, some k, h.movable⟩, vp, some i⟩
  | none => ⟨HPos.null, vp, none⟩

/-- `HashMultiMapIterator::operator->` :235-240 -/
def vderef (m : MMap) (cs : Cells) (it : VIt) : Option (Nat × Nat) := do
  chk (it.vp.check cs)                       -- :237
  let i ← it.vidx                            -- :238 `MOMO_CHECK(mValueIterator != ValueIterator())`
  let k ← it.kit.deref cs                    -- :239 `mKeyIterator->key`
  let v ← ((m.vals k).getD [])[i]?
  pure (k, v)

/-- `HashMultiMapIterator::operator++` :226-234 -/
def vinc (cs : Cells) (it : VIt) (to : Option (Nat × Nat)) : Option VIt := do
  chk (it.vp.check cs)                       -- :228
  let _ ← it.vidx                            -- :229
  let _ ← it.kit.deref cs                    -- :230 `mKeyIterator.operator->();	// check`
  pure (moved it.kit it.vp to)

/-- `pvAddValue` :1244-1251 on an existing key -/
def pushValue (m : MMap) (cs : Cells) (k v : Nat) : Cells × MMap :=
  (bump cs m.vcell, m.setVals k (((m.vals k).getD []) ++ [v]))

/-- `pvAdd` :1226-1242 (Add / AddVar / AddCrt by key); `newCap` = capacity of the nested map afterwards -/
def add (m : MMap) (cs : Cells) (k v newCap : Nat) : Cells × MMap × VIt :=
  if (m.vals k).isSome then
    ((m.pushValue cs k v).1, (m.pushValue cs k v).2,
     ⟨⟨snap cs m.kcell, some k, false⟩, snap (m.pushValue cs k v).1 m.vcell, some ((m.vals k).getD []).length⟩)
  else
    (bump (bump cs m.kcell) m.vcell, { m with kv := (k, [v]) :: m.kv, cap := newCap },
     ⟨⟨snap (bump (bump cs m.kcell) m.vcell) m.kcell, some k, false⟩, snap (bump (bump cs m.kcell) m.vcell) m.vcell, some 0⟩)

/-- `HashMap::MakeMutableIterator` (HashMap.h:853-857: `CheckIterator(iter)` with allowEmpty = true) followed by `hashMapIter->value` -/
def mutKey (m : MMap) (cs : Cells) (h : HPos) : Option Nat := do
  chk (h.kp.checkAt cs m.kcell true)
  h.deref cs

/-- `AddCrt(ConstKeyIterator, …)` :991-1000 (Add / AddVar by key iterator) -/
def addAt (m : MMap) (cs : Cells) (h : HPos) (v : Nat) : Option (Cells × MMap × VIt) := do
  let k ← m.mutKey cs h
  pure ((m.pushValue cs k v).1, (m.pushValue cs k v).2,
        ⟨⟨h.kp, some k, h.movable⟩, snap (m.pushValue cs k v).1 m.vcell, some ((m.vals k).getD []).length⟩)

/-- `InsertKey` :1039-1047 -/
def insertKey (m : MMap) (cs : Cells) (k newCap : Nat) : Cells × MMap × HPos :=
  if (m.vals k).isSome then (cs, m, ⟨snap cs m.kcell, some k, false⟩)
  else (bump cs m.kcell, { m with kv := (k, []) :: m.kv, cap := newCap }, ⟨snap (bump cs m.kcell) m.kcell, some k, false⟩)

/-- `AddKeyCrt` :1049-1059 -> HashMap::AddCrt -> HashSet::pvAdd -/
def addKey (m : MMap) (cs : Cells) (h : HPos) (k newCap : Nat) : Option (Cells × MMap × HPos) := do
  chk (h.kp.checkAt cs m.kcell false)
  chk h.elem.isNone
  pure (bump cs m.kcell, { m with kv := (k, []) :: m.kv, cap := newCap }, ⟨snap (bump cs m.kcell) m.kcell, some k, false⟩)

/-- removal of the i-th value of `k` :1079-1083: the last value is assigned over it, `RemoveBack`, `++valueVersion` -/
def dropValue (m : MMap) (cs : Cells) (k i : Nat) : Cells × MMap :=
  let vs := (m.vals k).getD []
  (bump cs m.vcell, m.setVals k ((vs.set i (vs.getLast?.getD 0)).dropLast))

/-- `Remove(ConstKeyIterator, valueIndex)` :1064-1068 -/
def removeAt (m : MMap) (cs : Cells) (h : HPos) (i : Nat) (to : Option (Nat × Nat)) : Option (Cells × MMap × VIt) := do
  let kc ← m.kderef cs h                     -- :1066 `keyIter->GetCount()`
  chk (i < kc.2)                             -- :1066 `MOMO_CHECK(valueIndex < keyIter->GetCount())`
  let k ← m.mutKey cs h                      -- :1067 -> Remove(ConstIterator) :1073-1075 MakeMutableIterator: the key iterator must be this map's
  pure ((m.dropValue cs k i).1, (m.dropValue cs k i).2, moved h (snap (m.dropValue cs k i).1 m.vcell) to)

/-- `Remove(ConstIterator)` :1070-1085 -/
def remove (m : MMap) (cs : Cells) (it : VIt) (to : Option (Nat × Nat)) : Option (Cells × MMap × VIt) := do
  chk (it.vp.checkAt cs m.vcell false)       -- :1072 ptCheck :278-282
  let i ← it.vidx                            -- :281
  let k ← m.mutKey cs it.kit                 -- :1073-1075
  pure ((m.dropValue cs k i).1, (m.dropValue cs k i).2, moved it.kit (snap (m.dropValue cs k i).1 m.vcell) to)

/-- `RemoveValues` :1103-1109 (pvRemoveValues :1253-1259 increments the value version even for an empty array) -/
def removeValues (m : MMap) (cs : Cells) (h : HPos) (to : Option (Nat × Nat)) : Option (Cells × MMap × VIt) := do
  let k ← m.mutKey cs h
  pure (bump cs m.vcell, m.setVals k [], moved h (snap (bump cs m.vcell) m.vcell) to)

/-- `RemoveKey(ConstKeyIterator)` :1111-1128; `next` = key the returned key iterator points at -/
def removeKey (m : MMap) (cs : Cells) (h : HPos) (next : Option Nat) : Option (Cells × MMap × HPos) := do
  let k ← m.mutKey cs h
  chk (m.cap != 0)                           -- HashSet::pvRemove :1172 (always true here: the key is stored)
  let cs' := bump (bump cs m.kcell) m.vcell  -- HashSet.h:1183, HashMultiMap.h:1258
  let r : HPos := if h.movable then (match next with | some n => ⟨snap cs' m.kcell, some n, true⟩ | none => HPos.null) else HPos.null
  pure (cs', { m with kv := m.kv.filter (fun p => !(p.1 == k)) }, r)

/-- `RemoveKey(const Key&)` :1130-1138 -/
def removeKeyByKey (m : MMap) (cs : Cells) (k : Nat) : Cells × MMap × Nat :=
  match m.vals k with
  | some vs => (bump (bump cs m.kcell) m.vcell, { m with kv := m.kv.filter (fun p => !(p.1 == k)) }, vs.length)
  | none => (cs, m, 0)

/-- what `Remove(pairFilter)` leaves of one value array: a removed value is overwritten by the last one (:1079-1081) and
    the scan continues at the same index (:1084 `pvMakeIterator(…, valueIndex, true)`) -/
def swapFilter (p : Nat → Bool) : Nat → Nat → List Nat → List Nat
  | 0, _, l => l
  | fuel + 1, i, l =>
    match l[i]? with
    | none => l
    | some x => if p x then swapFilter p fuel i ((l.set i (l.getLast?.getD 0)).dropLast) else swapFilter p fuel (i + 1) l

/-- `Remove(pairFilter)` :1087-1101 with the filter `value % mo == r`: one increment of the value version per removed value -/
def removeIf (m : MMap) (cs : Cells) (mo r : Nat) : Cells × MMap × Nat :=
  let n := (m.kv.map (fun p => (p.2.filter (fun v => v % mo == r)).length)).sum
  (bumpN cs m.vcell n, { m with kv := m.kv.map (fun p => (p.1, swapFilter (fun v => v % mo == r) (2 * p.2.length) 0 p.2)) }, n)

/-- `ResetKey` :1140-1145 -> HashSet::ResetKey -/
def resetKey (m : MMap) (cs : Cells) (h : HPos) (k' : Nat) : Option MMap := do
  chk (h.kp.checkAt cs m.kcell false)
  let k ← h.elem
  pure { m with kv := m.kv.map (fun p => if p.1 == k then (k', p.2) else p) }

/-- `MakeIterator(keyIter, valueIndex)` :1147-1155 / pvMakeIterator :1216-1224 -/
def makeIt (m : MMap) (cs : Cells) (h : HPos) (i : Nat) (to : Option (Nat × Nat)) : Option VIt :=
  if h.elem.isNone && i == 0 then some VIt.null   -- :1219 `if (!keyIter && valueIndex == 0) return Iterator();`
  else do
    chk (h.kp.checkAt cs m.kcell true)       -- :1221 CheckKeyIterator(keyIter)
    let kc ← m.kderef cs h                   -- :1222 `keyIter->GetCount()`
    chk (i ≤ kc.2)                           -- :1222 `MOMO_CHECK(valueIndex <= keyIter->GetCount())`
    pure (moved h (snap cs m.vcell) to)

/-- `MakeMutableIterator` :1157-1166 -/
def makeMutable (m : MMap) (cs : Cells) (it : VIt) : Option VIt :=
  if it.vidx.isNone then some VIt.null       -- :1159
  else do
    chk (it.vp.checkAt cs m.vcell false)     -- :1161
    let _ ← m.mutKey cs it.kit               -- :1162-1164
    pure ⟨it.kit, snap cs m.vcell, it.vidx⟩

/-- `CheckIterator` :1174-1179 -/
def checkIt (m : MMap) (cs : Cells) (it : VIt) (allowEmpty : Bool) : Option Unit := do
  chk (it.kit.kp.checkAt cs m.kcell allowEmpty)   -- :1176 CheckKeyIterator
  if it.vidx.isSome then chk (it.vp.checkAt cs m.vcell false) else pure ()   -- :1177-1178

/-- `CheckKeyIterator` :1181-1184 -/
def checkKey (m : MMap) (cs : Cells) (h : HPos) (allowEmpty : Bool) : Option Unit :=
  chk (h.kp.checkAt cs m.kcell allowEmpty)

/-- `Clear` :883-892: nested `HashMap::Clear()` (version only when it has buckets), `++valueVersion` always -/
def clear (m : MMap) (cs : Cells) : Cells × MMap :=
  (bump (if m.cap == 0 then cs else bump cs m.kcell) m.vcell, { m with kv := [], cap := 0 })

end MMap

structure MWorld where
  cs : Cells
  a : MMap
  b : MMap

namespace MWorld
def obj (w : MWorld) (o : Bool) : MMap := if o then w.b else w.a
def setObj (w : MWorld) (o : Bool) (cs : Cells) (m : MMap) : MWorld :=
  if o then { w with cs := cs, b := m } else { w with cs := cs, a := m }
/-- the object whose nested map owns key cell `c` -/
def byKeyCell (w : MWorld) (c : Nat) : Option MMap :=
  if w.a.kcell == c then some w.a else if w.b.kcell == c then some w.b else none
def ownerOf (w : MWorld) (h : HPos) : MMap :=
  match h.kp.cell with
  | some c => (w.byKeyCell c).getD w.a
  | none => w.a
end MWorld

inductive MOp where
  | findKey (o : Bool) (k : Nat)
  | keyBegin (o : Bool) (first : Nat)
  | begin_ (o : Bool) (first : Nat) (to : Option (Nat × Nat))
  | end_ (o : Bool)
  | kderef (h : HPos)
  | kinc (h : HPos) (next : Option Nat)
  | vderef (it : VIt)
  | vinc (it : VIt) (to : Option (Nat × Nat))
  | add (o : Bool) (k v newCap : Nat)
  | addAt (o : Bool) (h : HPos) (v : Nat)
  | insertKey (o : Bool) (k newCap : Nat)
  | addKey (o : Bool) (h : HPos) (k newCap : Nat)
  | removeAt (o : Bool) (h : HPos) (i : Nat) (to : Option (Nat × Nat))
  | remove (o : Bool) (it : VIt) (to : Option (Nat × Nat))
  | removeValues (o : Bool) (h : HPos) (to : Option (Nat × Nat))
  | removeKey (o : Bool) (h : HPos) (next : Option Nat)
  | removeKeyByKey (o : Bool) (k : Nat)
  | removeIf (o : Bool) (mo r : Nat)
  | resetKey (o : Bool) (h : HPos) (k : Nat)
  | makeIt (o : Bool) (h : HPos) (i : Nat) (to : Option (Nat × Nat))
  | makeMutable (o : Bool) (it : VIt)
  | checkIt (o : Bool) (it : VIt) (allowEmpty : Bool)
  | checkKey (o : Bool) (h : HPos) (allowEmpty : Bool)
  | clear (o : Bool)
  | swap

inductive MRes where
  | unit
  | kpos (h : HPos)
  | vit (it : VIt)
  | pair (k v : Nat)
  | num (n : Nat)
deriving Repr

def MWorld.step (w : MWorld) : MOp → MWorld × Option MRes
  | .findKey o k => (w, some (.kpos ((w.obj o).findKey w.cs k)))
  | .keyBegin o f => (w, some (.kpos ((w.obj o).keyBegin w.cs f)))
  | .begin_ o f to =>                                       -- GetBegin :829-837 = pvMakeIterator(GetKeyBounds().GetBegin()) :1195-1201
      (w, some (.vit (if (w.obj o).kv.isEmpty then VIt.null
                      else MMap.moved ((w.obj o).keyBegin w.cs f) (snap w.cs (w.obj o).vcell) to)))
  | .end_ _ => (w, some (.vit VIt.null))                    -- GetEnd :839-847
  | .kderef h => (w, ((w.ownerOf h).kderef w.cs h).map (fun kc => .pair kc.1 kc.2))
  | .kinc h n => (w, (h.inc w.cs n).map .kpos)
  | .vderef it => (w, ((w.ownerOf it.kit).vderef w.cs it).map (fun kv => .pair kv.1 kv.2))
  | .vinc it to => (w, (MMap.vinc w.cs it to).map .vit)
  | .add o k v nc =>
      let r := (w.obj o).add w.cs k v nc
      (w.setObj o r.1 r.2.1, some (.vit r.2.2))
  | .addAt o h v =>
      match (w.obj o).addAt w.cs h v with
      | some r => (w.setObj o r.1 r.2.1, some (.vit r.2.2))
      | none => (w, none)
  | .insertKey o k nc =>
      let r := (w.obj o).insertKey w.cs k nc
      (w.setObj o r.1 r.2.1, some (.kpos r.2.2))
  | .addKey o h k nc =>
      match (w.obj o).addKey w.cs h k nc with
      | some r => (w.setObj o r.1 r.2.1, some (.kpos r.2.2))
      | none => (w, none)
  | .removeAt o h i to =>
      match (w.obj o).removeAt w.cs h i to with
      | some r => (w.setObj o r.1 r.2.1, some (.vit r.2.2))
      | none => (w, none)
  | .remove o it to =>
      match (w.obj o).remove w.cs it to with
      | some r => (w.setObj o r.1 r.2.1, some (.vit r.2.2))
      | none => (w, none)
  | .removeValues o h to =>
      match (w.obj o).removeValues w.cs h to with
      | some r => (w.setObj o r.1 r.2.1, some (.vit r.2.2))
      | none => (w, none)
  | .removeKey o h n =>
      match (w.obj o).removeKey w.cs h n with
      | some r => (w.setObj o r.1 r.2.1, some (.kpos r.2.2))
      | none => (w, none)
  | .removeKeyByKey o k =>
      let r := (w.obj o).removeKeyByKey w.cs k
      (w.setObj o r.1 r.2.1, some (.num r.2.2))
  | .removeIf o mo r =>
      let x := (w.obj o).removeIf w.cs mo r
      (w.setObj o x.1 x.2.1, some (.num x.2.2))
  | .resetKey o h k =>
      match (w.obj o).resetKey w.cs h k with
      | some m => (w.setObj o w.cs m, some .unit)
      | none => (w, none)
  | .makeIt o h i to => (w, ((w.obj o).makeIt w.cs h i to).map .vit)
  | .makeMutable o it => (w, ((w.obj o).makeMutable w.cs it).map .vit)
  | .checkIt o it ae => (w, ((w.obj o).checkIt w.cs it ae).map (fun _ => .unit))
  | .checkKey o h ae => (w, ((w.obj o).checkKey w.cs h ae).map (fun _ => .unit))
  | .clear o =>
      let r := (w.obj o).clear w.cs
      (w.setObj o r.1 r.2, some .unit)
  | .swap => ({ w with a := w.b, b := w.a }, some .unit)     -- Swap :822-827

/-! ## Array with index iterators, SegmentedArray -/

/-- one array object; `seg` = SegmentedArray (iterator dereference goes through the checked `operator[]`,
    ArrayUtility.h:138-141) rather than Array (`GetItems() + mIndex`, :133-136, no range check) -/
structure Arr where
  id : Nat
  items : List Nat
  seg : Bool
deriving Repr, Inhabited

/-- `ArrayIndexIterator` (ArrayUtility.h:41-146): array pointer + index, no version -/
structure AIt where
  arr : Option Nat
  idx : Nat
deriving DecidableEq, Repr, Inhabited

/-- size_t arithmetic -/
def w64 (n : Nat) : Nat := n % W
/-- `static_cast<size_t>(static_cast<ptrdiff_t>(index) + diff)` -/
def addDiff (idx : Nat) (d : Int) : Nat := ((Int.ofNat idx + d) % Int.ofNat W).toNat

namespace Arr

/-- `operator[]` Array.h:767-777, SegmentedArray.h pvGetItem :625-631 -/
def at_ (a : Arr) (i : Nat) : Option Nat := a.items[i]?
/-- `GetBackItem` Array.h:779-787 (`operator[](GetCount() - 1)`, the subtraction wraps on an empty array) -/
def back (a : Arr) : Option Nat := a.items[w64 (a.items.length + W - 1)]?

/-- `ArrayShifter::InsertNogrow` :196-199 / :227-231 (Insert variants of Array / SegmentedArray) -/
def insert (a : Arr) (i n v : Nat) : Option Arr := do
  chk (i ≤ a.items.length)                   -- `MOMO_CHECK(index <= initCount)`
  pure { a with items := a.items.take i ++ List.replicate n v ++ a.items.drop i }

/-- `RemoveBack(count)` Array.h:922-926, SegmentedArray.h:576-580 -/
def removeBack (a : Arr) (n : Nat) : Option Arr := do
  chk (n ≤ a.items.length)
  pure { a with items := a.items.take (a.items.length - n) }

/-- `ArrayShifter::Remove(array, index, count)` :277-287 (Array::Remove, SegmentedArray::Remove) -/
def remove (a : Arr) (i cnt : Nat) : Option Arr := do
  chk (i ≤ a.items.length && cnt ≤ a.items.length - i)   -- :280 `MOMO_CHECK(index <= initCount && count <= initCount - index)`
  pure { a with items := a.items.take i ++ a.items.drop (i + cnt) }

/-- `AddBackNogrowCrt` (AddBackNogrow / AddBackNogrowVar forward to it): Array.h:789-794 `MOMO_CHECK(GetCount() < GetCapacity())`,
    SegmentedArray.h:457-465 `MOMO_CHECK(segIndex < mSegments.GetCount())` (the segment of item number `count` is allocated, i.e.
    `count < GetCapacity()`, :403-406).  The capacity is not part of the abstract state: `cap` is what the real object reports. -/
def addBackNogrow (a : Arr) (cap v : Nat) : Option Arr := do
  chk (a.items.length < cap)
  pure { a with items := a.items ++ [v] }

end Arr

namespace AIt
/-- `operator+=` :73-79 -/
def add (it : AIt) (count : Nat) (d : Int) : Option AIt := do
  chk (match it.arr with | some _ => decide (addDiff it.idx d ≤ count) | none => decide (d = 0))
  pure ⟨it.arr, addDiff it.idx d⟩
/-- `operator-` :81-85, `operator<` :106-110 -/
def sameArray (x y : AIt) : Option Unit := chk (x.arr == y.arr)
/-- `operator->` :87-92 -/
def deref (it : AIt) (a : Arr) : Option Nat := do
  chk it.arr.isSome                          -- :89 `MOMO_CHECK(mArray != nullptr)`
  if a.seg then a.items[it.idx]? else pure ((a.items[it.idx]?).getD 0)
end AIt

/-! ## DataTable: row references, selections, hash bounds -/

/-- one row: identity of the raw block, value of column `a` (unique hash index), value of column `b` (multi hash index) -/
structure RowV where
  raw : Nat
  a : Nat
  b : Nat
deriving DecidableEq, Repr, Inhabited

structure Table where
  /-- identity of the column list (`&GetColumnList()`) -/
  id : Nat
  /-- `changeVersion` / `removeVersion` cells (DataTable.h:205-206) -/
  ccell : Nat
  rcell : Nat
  rows : List RowV
  /-- next fresh raw identity -/
  fresh : Nat
deriving Repr, Inhabited

/-- `DataConstRowReference` / `DataRowReference` (DataRow.h:234-358) -/
structure RowRef where
  tbl : Nat
  raw : Nat
  kp : Keeper
deriving DecidableEq, Repr, Inhabited

/-- `DataSelection` (DataSelection.h:432-): column list, raws, keeper of the remove version -/
structure Sel where
  tbl : Nat
  raws : List Nat
  kp : Keeper
deriving Repr, Inhabited

/-- `RowHashBounds` from FindByMultiHash (DataTable.h:1586-1587): raw bounds guarded by the change version
    (DataRawMultiHashIterator, DataIndexes.h:154-250), row references guarded by the remove version -/
structure MBounds where
  tbl : Nat
  raws : List Nat
  ckp : Keeper
  rkp : Keeper
deriving Repr, Inhabited

namespace Table

def findRaw (t : Table) (raw : Nat) : Option RowV := t.rows.find? (fun r => r.raw == raw)
def hasA (t : Table) (a : Nat) : Bool := t.rows.any (fun r => r.a == a)

/-- `pvMakeRowReference` :987-990 -/
def mkRef (t : Table) (cs : Cells) (raw : Nat) : RowRef := ⟨t.id, raw, snap cs t.rcell⟩

/-- `operator[](rowNumber)` :485-495 -/
def at_ (t : Table) (cs : Cells) (i : Nat) : Option RowRef := do
  let r ← t.rows[i]?                         -- `MOMO_CHECK(rowNumber < GetCount())`
  pure (t.mkRef cs r.raw)

/-- `TryAdd` :557-569 (Add / AddRow / TryAddRow): refused by the unique index on `a` or appended, `++changeVersion` -/
def tryAdd (t : Table) (cs : Cells) (a b : Nat) : Cells × Table × RowRef × Bool :=
  match t.rows.find? (fun r => r.a == a) with
  | some r => (cs, t, t.mkRef cs r.raw, false)
  | none => (bump cs t.ccell, { t with rows := t.rows ++ [⟨t.fresh, a, b⟩], fresh := t.fresh + 1 }, t.mkRef (bump cs t.ccell) t.fresh, true)

/-- `TryInsert` :592-603 -/
def tryInsert (t : Table) (cs : Cells) (i a b : Nat) : Option (Cells × Table × RowRef × Bool) := do
  chk (i ≤ t.rows.length)                    -- :594
  match t.rows.find? (fun r => r.a == a) with
  | some r => pure (cs, t, t.mkRef cs r.raw, false)
  | none => pure (bump cs t.ccell, { t with rows := t.rows.take i ++ ⟨t.fresh, a, b⟩ :: t.rows.drop i, fresh := t.fresh + 1 },
                  t.mkRef (bump cs t.ccell) t.fresh, true)

/-- `TryUpdate(rowNumber, Row&&)` :640-653: the row is replaced by a new raw, both versions incremented -/
def tryUpdateRow (t : Table) (cs : Cells) (i a b : Nat) : Option (Cells × Table × RowRef × Bool) := do
  let old ← t.rows[i]?                       -- :642
  match t.rows.find? (fun r => r.a == a && r.raw != old.raw) with
  | some r => pure (cs, t, t.mkRef cs r.raw, false)
  | none => pure (bump (bump cs t.ccell) t.rcell, { t with rows := t.rows.set i ⟨t.fresh, a, b⟩, fresh := t.fresh + 1 },
                  t.mkRef (bump (bump cs t.ccell) t.rcell) t.fresh, true)

/-- checks shared by the entry points that take a row reference: column list identity, then `rowRef.GetRaw()` -/
def checkRef (t : Table) (cs : Cells) (r : RowRef) : Option Unit := do
  chk (r.tbl == t.id)                        -- `MOMO_CHECK(&rowRef.GetColumnList() == &GetColumnList())`
  chk (r.kp.check cs)                        -- DataRow.h:293-297

/-- `pvTryUpdate` :1154-1169 (TryUpdate / Update of one column, here column `b`): `++changeVersion` only -/
def updateB (t : Table) (cs : Cells) (r : RowRef) (b : Nat) : Option (Cells × Table) := do
  t.checkRef cs r                            -- :1158-1159
  pure (bump cs t.ccell, { t with rows := t.rows.map (fun x => if x.raw == r.raw then { x with b := b } else x) })

/-- `pvExtractRaw(number)` :1133-1152 -/
def dropRow (t : Table) (cs : Cells) (raw : Nat) : Cells × Table :=
  (bump (bump cs t.ccell) t.rcell, { t with rows := t.rows.filter (fun x => !(x.raw == raw)) })

/-- `Remove(ConstRowReference)` :690-694, `Extract(ConstRowReference)` :702-706 -/
def removeRef (t : Table) (cs : Cells) (r : RowRef) : Option (Cells × Table) := do
  t.checkRef cs r                            -- :692 and pvExtractRaw :1119 `rowRef.GetNumber()` -> GetRaw() -> Check()
  pure (t.dropRow cs r.raw)

/-- `Remove(rowNumber)` :696-700, `Extract(rowNumber)` :708-712 -/
def removeNum (t : Table) (cs : Cells) (i : Nat) : Option (Cells × Table) := do
  let r ← t.rows[i]?                         -- :698
  pure (t.dropRow cs r.raw)

/-- `MakeMutableReference` :930-936 -/
def makeMutable (t : Table) (cs : Cells) (r : RowRef) : Option RowRef := do
  t.checkRef cs r
  pure (t.mkRef cs r.raw)

/-- `NewRow(ConstRowReference)` :538-541 (`rowRef.GetRaw()` is checked) -/
def newRowFrom (cs : Cells) (r : RowRef) : Option Unit := chk (r.kp.check cs)

/-- `Clear` :468-477 -/
def clear (t : Table) (cs : Cells) : Cells × Table :=
  (bump (bump cs t.ccell) t.rcell, { t with rows := [] })

/-- `Remove(rowFilter)` :681-688 with the filter `a % m == r`: pvFilterRaws :1338-1356 increments both versions unconditionally -/
def removeIf (t : Table) (cs : Cells) (m r : Nat) : Cells × Table × Nat :=
  (bump (bump cs t.ccell) t.rcell, { t with rows := t.rows.filter (fun x => !(x.a % m == r)) },
   (t.rows.filter (fun x => x.a % m == r)).length)

/-- `Remove(RowIterator begin, RowSentinel end)` :675-679 / pvRemove :1246-1269 and `Assign(begin, end)` :669-673 /
    pvAssign :1171-1245: per reference `rowRef.GetRaw(); // check` then the column-list identity (:1185-1186, :1257-1258);
    then pvFilterRaws :1338-1356 (both versions incremented unconditionally). `keep` = Assign (the listed rows stay). -/
def removeRefs (t : Table) (cs : Cells) (rs : List RowRef) (keep : Bool) : Option (Cells × Table) := do
  chk (rs.all (fun r => r.kp.check cs && r.tbl == t.id))
  pure (bump (bump cs t.ccell) t.rcell,
        { t with rows := if keep then (rs.filterMap (fun r => t.findRaw r.raw)).eraseDups
                         else t.rows.filter (fun x => !(rs.any (fun r => r.raw == x.raw))) })

/-- `Select(filter)` :765-809 / pvMakeSelection :1507-1528 with the filter `a % m == r` (`m = 1, r = 0`: all rows) -/
def select (t : Table) (cs : Cells) (m r : Nat) : Sel :=
  ⟨t.id, (t.rows.filter (fun x => x.a % m == r)).map (·.raw), snap cs t.rcell⟩

/-- `FindByMultiHash(b == v)` :872-898 / pvFindByHash :1578-1588 -/
def findMulti (t : Table) (cs : Cells) (v : Nat) : MBounds :=
  ⟨t.id, (t.rows.filter (fun x => x.b == v)).map (·.raw), snap cs t.ccell, snap cs t.rcell⟩

/-- `FindByUniqueHash(a == v)` :844-870: a row pointer guarded by the remove version only (the unique-hash raw bounds ignore
    their keeper, DataIndexes.h:510-516) -/
def findUnique (t : Table) (cs : Cells) (v : Nat) : Sel :=
  ⟨t.id, (t.rows.filter (fun x => x.a == v)).map (·.raw), snap cs t.rcell⟩

end Table

namespace RowRef
/-- `Get(column)` / `GetRaw()` / `GetNumber()` (DataRow.h:257-297): `VersionKeeper::Check()` -/
def get (r : RowRef) (cs : Cells) : Option Unit := chk (r.kp.check cs)
end RowRef

namespace Sel
/-- `operator[]` DataSelection.h:604-608: the reference carries the selection's keeper -/
def at_ (s : Sel) (i : Nat) : Option RowRef := do
  let raw ← s.raws[i]?
  pure ⟨s.tbl, raw, s.kp⟩
/-- `Set(index, rowRef)` :610-616 -/
def set (s : Sel) (cs : Cells) (i : Nat) (r : RowRef) : Option Sel := do
  chk (r.kp.check cs)                        -- :612 `rowRef.GetRaw();	// check`
  chk (i < s.raws.length)                    -- :613
  chk (s.tbl == r.tbl)                       -- :614
  pure { s with raws := s.raws.set i r.raw }
/-- `Add(rowRef)` :634-639 -/
def add (s : Sel) (cs : Cells) (r : RowRef) : Option Sel := do
  chk (r.kp.check cs)
  chk (s.tbl == r.tbl)
  pure { s with raws := s.raws ++ [r.raw] }
/-- `Insert(index, rowRef)` :661-667 -/
def insert (s : Sel) (cs : Cells) (i : Nat) (r : RowRef) : Option Sel := do
  chk (r.kp.check cs)
  chk (i ≤ s.raws.length)
  chk (s.tbl == r.tbl)
  pure { s with raws := s.raws.take i ++ r.raw :: s.raws.drop i }
/-- `Remove(index, count)` :679-683, only for `index + count < 2^64` (the size_t sum in the check wraps otherwise and
    the nested array, whose checks are assertions, is then called with an invalid range) -/
def remove (s : Sel) (i n : Nat) : Option Sel := do
  chk (i + n ≤ s.raws.length)
  pure { s with raws := s.raws.take i ++ s.raws.drop (i + n) }
/-- `Sort(columns…)`, `Group(columns…)`, `GetLowerBound / GetUpperBound(equalities…)`: pvSort :805-808, pvGroup :843-846,
    pvBinarySearch :903-906 `if (!mRaws.IsEmpty()) VersionKeeper::Check();` -/
def readAll (s : Sel) (cs : Cells) : Option Unit :=
  if s.raws.isEmpty then some () else chk (s.kp.check cs)
end Sel

namespace MBounds
/-- `RowHashBounds::operator[]` DataSelection.h:276-280: `MOMO_CHECK(index < GetCount())`, then `*Next(GetBegin(), index)`:
    DataRawMultiHashIterator::operator+= (:188-200, checks only when diff != 0) and operator-> (:208-221) check the change version -/
def at_ (m : MBounds) (cs : Cells) (i : Nat) : Option RowRef := do
  let raw ← m.raws[i]?
  chk (m.ckp.check cs)
  pure ⟨m.tbl, raw, m.rkp⟩
end MBounds

/-- two tables (each with its own column list, change version and remove version) plus the version cells -/
structure BWorld where
  cs : Cells
  a : Table
  b : Table

namespace BWorld
def obj (w : BWorld) (o : Bool) : Table := if o then w.b else w.a
def setObj (w : BWorld) (o : Bool) (cs : Cells) (t : Table) : BWorld :=
  if o then { w with cs := cs, b := t } else { w with cs := cs, a := t }
end BWorld

/-- entry points of DataTable / DataConstRowReference / DataSelection / RowHashBounds -/
inductive BOp where
  | at_ (o : Bool) (i : Nat)
  | get (r : RowRef)
  | add (o : Bool) (a b : Nat)
  | insert (o : Bool) (i a b : Nat)
  | updRow (o : Bool) (i a b : Nat)
  | updB (o : Bool) (r : RowRef) (b : Nat)
  | rmRef (o : Bool) (r : RowRef)
  | rmNum (o : Bool) (i : Nat)
  | mkMut (o : Bool) (r : RowRef)
  | newRow (r : RowRef)
  | clear (o : Bool)
  | rmIf (o : Bool) (m r : Nat)
  | rmRefs (o : Bool) (rs : List RowRef) (keep : Bool)
  | select (o : Bool) (m r : Nat)
  | findU (o : Bool) (v : Nat)
  | findM (o : Bool) (v : Nat)
  | selAt (s : Sel) (i : Nat)
  | selSet (s : Sel) (i : Nat) (r : RowRef)
  | selAdd (s : Sel) (r : RowRef)
  | selIns (s : Sel) (i : Nat) (r : RowRef)
  | selRm (s : Sel) (i n : Nat)
  | selRead (s : Sel)
  | mbAt (m : MBounds) (i : Nat)

inductive BRes where
  | unit
  | ref (r : RowRef)
  | refFlag (r : RowRef) (inserted : Bool)
  | sel (s : Sel)
  | bounds (m : MBounds)
  | num (n : Nat)

/-- one call; `none` in the second component = `std::invalid_argument` was thrown (the world is returned unchanged) -/
def BWorld.step (w : BWorld) : BOp → BWorld × Option BRes
  | .at_ o i => (w, ((w.obj o).at_ w.cs i).map .ref)
  | .get r => (w, (r.get w.cs).map (fun _ => .ref r))
  | .add o a b =>
      let x := (w.obj o).tryAdd w.cs a b
      (w.setObj o x.1 x.2.1, some (.refFlag x.2.2.1 x.2.2.2))
  | .insert o i a b =>
      match (w.obj o).tryInsert w.cs i a b with
      | some x => (w.setObj o x.1 x.2.1, some (.refFlag x.2.2.1 x.2.2.2))
      | none => (w, none)
  | .updRow o i a b =>
      match (w.obj o).tryUpdateRow w.cs i a b with
      | some x => (w.setObj o x.1 x.2.1, some (.refFlag x.2.2.1 x.2.2.2))
      | none => (w, none)
  | .updB o r b =>
      match (w.obj o).updateB w.cs r b with
      | some x => (w.setObj o x.1 x.2, some .unit)
      | none => (w, none)
  | .rmRef o r =>
      match (w.obj o).removeRef w.cs r with
      | some x => (w.setObj o x.1 x.2, some .unit)
      | none => (w, none)
  | .rmNum o i =>
      match (w.obj o).removeNum w.cs i with
      | some x => (w.setObj o x.1 x.2, some .unit)
      | none => (w, none)
  | .mkMut o r => (w, ((w.obj o).makeMutable w.cs r).map .ref)
  | .newRow r => (w, (Table.newRowFrom w.cs r).map (fun _ => .unit))
  | .clear o =>
      let x := (w.obj o).clear w.cs
      (w.setObj o x.1 x.2, some .unit)
  | .rmIf o m r =>
      let x := (w.obj o).removeIf w.cs m r
      (w.setObj o x.1 x.2.1, some (.num x.2.2))
  | .rmRefs o rs keep =>
      match (w.obj o).removeRefs w.cs rs keep with
      | some x => (w.setObj o x.1 x.2, some .unit)
      | none => (w, none)
  | .select o m r => (w, some (.sel ((w.obj o).select w.cs m r)))
  | .findU o v => (w, some (.sel ((w.obj o).findUnique w.cs v)))
  | .findM o v => (w, some (.bounds ((w.obj o).findMulti w.cs v)))
  | .selAt s i => (w, (s.at_ i).map .ref)
  | .selSet s i r => (w, (s.set w.cs i r).map .sel)
  | .selAdd s r => (w, (s.add w.cs r).map .sel)
  | .selIns s i r => (w, (s.insert w.cs i r).map .sel)
  | .selRm s i n => (w, (s.remove i n).map .sel)
  | .selRead s => (w, (s.readAll w.cs).map (fun _ => .unit))
  | .mbAt m i => (w, (m.at_ w.cs i).map .ref)

/-- the table a mutating entry point is called on -/
def BOp.target : BOp → Option Bool
  | .add o _ _ => some o
  | .insert o _ _ _ => some o
  | .updRow o _ _ _ => some o
  | .updB o _ _ => some o
  | .rmRef o _ => some o
  | .rmNum o _ => some o
  | .clear o => some o
  | .rmIf o _ _ => some o
  | .rmRefs o _ _ => some o
  | _ => none

/-- the row references an entry point is given (every one of them is checked) -/
def BOp.refs : BOp → List RowRef
  | .get r => [r]
  | .updB _ r _ => [r]
  | .rmRef _ r => [r]
  | .mkMut _ r => [r]
  | .newRow r => [r]
  | .rmRefs _ rs _ => rs
  | .selSet _ _ r => [r]
  | .selAdd _ r => [r]
  | .selIns _ _ r => [r]
  | _ => []

/-- the table an entry point that takes row references is called on -/
def BOp.on : BOp → Option Bool
  | .updB o _ _ => some o
  | .rmRef o _ => some o
  | .mkMut o _ => some o
  | .rmRefs o _ _ => some o
  | _ => none

/-! ## Sites of the C++ source that the model mirrors (compared with the counts extracted from the headers, T1) -/

/-- functions of HashSet.h containing `mCrew.IncVersion()` and the model functions that perform the matching `bump` -/
def incSitesHashSet : List (String × String) :=
  [("Clear", "HSet.clear"), ("Reserve", "HSet.reserve"), ("pvAddNogrow<incCount = true>", "HSet.addNew"), ("pvRemove", "HSet.remove / removeKey / removeIf / mergeTo")]
/-- functions of TreeSet.h containing `IncVersion()` -/
def incSitesTreeSet : List (String × String) :=
  [("Clear", "TSet.clear"), ("Remove(begin, end)", "TSet.removeSpan"), ("MergeTo: the destination is empty (source)", "TSet.mergeTo"),
   ("MergeTo: the destination is empty (destination)", "TSet.mergeTo"), ("MergeTo: pvMergeFast (source)", "TSet.mergeTo"),
   ("MergeTo: pvMergeFast (destination)", "TSet.mergeTo"), ("pvAdd", "TSet.addAt"), ("pvRemove", "TSet.removeAt")]
/-- functions of HashMultiMap.h containing `++mValueCrew.GetValueVersion()` -/
def incSitesValue : List (String × String) :=
  [("Clear", "MMap.clear"), ("Remove(ConstIterator)", "MMap.dropValue"), ("pvAddValue", "MMap.pushValue / add"), ("pvRemoveValues", "MMap.removeValues / removeKey")]
/-- functions of DataTable.h containing `++mCrew.GetChangeVersion()` -/
def incSitesChange : List (String × String) :=
  [("Clear", "Table.clear"), ("TryAdd", "Table.tryAdd / tryInsert"), ("TryUpdate(rowNumber, Row&&)", "Table.tryUpdateRow"),
   ("pvExtractRaw", "Table.dropRow"), ("pvTryUpdate", "Table.updateB"), ("pvFilterRaws", "Table.removeIf / removeRefs")]
/-- functions of DataTable.h containing `++mCrew.GetRemoveVersion()` -/
def incSitesRemove : List (String × String) :=
  [("Clear", "Table.clear"), ("TryUpdate(rowNumber, Row&&)", "Table.tryUpdateRow"), ("pvExtractRaw", "Table.dropRow"),
   ("pvFilterRaws", "Table.removeIf / removeRefs")]
/-- sites of HashSet.h calling `ConstPositionProxy::Check` -/
def checkSitesHashSet : List (String × String) :=
  [("ResetKey", "HSet.resetKey"), ("CheckIterator", "HSet.checkIt"), ("pvAdd", "HSet.add"), ("pvRemove", "HSet.remove")]
/-- sites of TreeSet.h calling `ConstIteratorProxy::Check` -/
def checkSitesTreeSet : List (String × String) :=
  [("Remove(begin, end): begin", "TSet.removeRange"), ("Remove(begin, end): end", "TSet.removeRange"), ("ResetKey", "TSet.resetKey"),
   ("CheckIterator", "TSet.checkIt"), ("pvAdd", "TSet.add"), ("pvRemove", "TSet.remove")]
/-- sites of HashMultiMap.h calling `ConstIteratorProxy::Check` -/
def checkSitesMultiMap : List (String × String) :=
  [("Remove(ConstIterator)", "MMap.remove"), ("MakeMutableIterator", "MMap.makeMutable"), ("CheckIterator", "MMap.checkIt")]

/-- sites of DataTable.h evaluating `rowRef.GetRaw()` (the version check of a row reference argument) -/
def checkSitesTable : List (String × String) :=
  [("MakeMutableReference", "Table.makeMutable"), ("pvExtractRaw(rowRef) without row numbers (with them: rowRef.GetNumber())", "Table.removeRef"),
   ("pvTryUpdate", "Table.updateB"), ("pvAssign with row numbers", "Table.removeRefs keep"), ("pvAssign without row numbers", "Table.removeRefs keep"),
   ("pvRemove(begin, end) with row numbers", "Table.removeRefs"), ("pvRemove(begin, end) without row numbers", "Table.removeRefs")]
/-- sites of DataSelection.h evaluating `rowRef.GetRaw()` -/
def checkSitesSelection : List (String × String) :=
  [("Set", "Sel.set"), ("Add(rowRef)", "Sel.add"), ("Insert(index, rowRef)", "Sel.insert")]

end Momo.Ver
