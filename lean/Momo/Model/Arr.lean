import Momo.Extracted
/-
  Model of the array-like containers of momo (C05):

    * `internal::ArrayShifter<Array>`  (ArrayUtility.h:186-308)
        InsertNogrow(array, index, count, item)           -> `insertNogrowN`
        InsertNogrow(array, index, begin, count)          -> `insertNogrowR`  (forward iterators, also
        InsertNogrow(array, index, Item&&)                   the `std::make_move_iterator(&item), 1` form)
        Insert(array, index, begin, end)                  -> loop of `insertCrt` (input iterators)
        Remove(array, index, count)                       -> `remove`
        Remove(array, itemFilter)                         -> `removeIf`
    * `momo::Array` / `ArrayIntCap<N>`  (Array.h)
        Data::Reallocate / Reset / pvReset / Clear / pvInit(Data&&) / operator=(Data&&)
        ArraySettings::GrowCapacity, pvGrow, pvAddBackNogrow, pvAddBackGrow (4 overloads),
        AddBack(Item&&) / AddBack(const Item&) / AddBackCrt, InsertCrt, Insert (5 overloads with the
        aliasing analysis `pvIndexOf`), SetCountCrt, Reserve, Shrink, Clear, RemoveBack, Remove,
        constructors (count,item / range / copy(shrink) / move), operator=, Swap
    * `momo::SegmentedArray`  (SegmentedArray.h)  -> namespace `Seg` at the end of this file
    * `momo::stdish::vector` / `vector_intcap` are thin wrappers (stdish/vector.h): every member calls the
      `Array` member listed next to the model function.

  Items are cells `live v | moved`: `moved` is a moved-from (or self-move-assigned) object whose value is
  unspecified (no payload: nothing may be concluded from it). `keeps = true` describes item types whose "move" is a copy (trivially copyable structs,
  copy-only classes); for all others a move *and a self-move-assignment* leaves `moved` (that is what
  `std::string` does). A value argument of an operation is a `Ref`: a reference to an object outside the
  array (`ext c`) or to element `j` of the same array (`elem j`) which is re-read *whenever the C++ code
  dereferences it* — that is what makes the aliasing analysis of `Array::Insert/AddBack` visible.

  Memory-manager calls are recorded as events (sizes in items).  `size_t` overflow is not modelled
  (capacities are unbounded naturals; the C++ throws `std::bad_array_new_length` / `std::length_error`).
  Core Lean only (no Mathlib): this file is linked into the driver.
-/
namespace Momo.Arr
open Momo

/-! ## cells and references -/

inductive Cell (α : Type) where
  | live (v : α)
  | moved            -- moved-from or self-move-assigned: value unspecified
deriving DecidableEq, Repr

variable {α : Type}

abbrev Cells (α : Type) := List (Cell α)

/-- `array[i]` (reading outside the constructed range yields garbage) -/
def cellAt (a : Cells α) (i : Nat) : Cell α := a.getD i .moved

/-- what a move construction / move assignment leaves in its source -/
def afterMove (keeps : Bool) (c : Cell α) : Cell α := if keeps then c else .moved

/-- `ItemTraits::Assign(memManager, std::move(array[src]), array[dst])`, i.e. `array[dst] = std::move(array[src])`;
    a self-move-assignment is destructive unless `keeps` -/
def assignMove (keeps : Bool) (a : Cells α) (src dst : Nat) : Cells α :=
  if src = dst then a.set dst (afterMove keeps (cellAt a dst))
  else (a.set dst (cellAt a src)).set src (afterMove keeps (cellAt a src))

/-- `array.AddBackNogrow(std::move(array[src]))` -/
def addBackMove (keeps : Bool) (a : Cells α) (src : Nat) : Cells α :=
  (a ++ [cellAt a src]).set src (afterMove keeps (cellAt a src))

/-- a `const Item&` / `Item&&` argument: an object outside the array or element `j` of the same array -/
inductive Ref (α : Type) where
  | ext (c : Cell α)
  | elem (j : Nat)
deriving DecidableEq, Repr

/-- dereference now -/
def Ref.read (a : Cells α) : Ref α → Cell α
  | .ext c => c
  | .elem j => cellAt a j

/-- the array after the referenced object has been moved from -/
def Ref.moveFrom (keeps : Bool) (a : Cells α) : Ref α → Cells α
  | .ext _ => a
  | .elem j => a.set j (afterMove keeps (cellAt a j))

/-- the array after a creator `Creator<Item&&>` (`mv = true`) or `Creator<const Item&>` (`mv = false`) ran on `r` -/
def Ref.taken (keeps mv : Bool) (a : Cells α) (r : Ref α) : Cells α := if mv then r.moveFrom keeps a else a

/-- `ItemTraits::Assign(memManager, *iter, array[i])` where `*iter` is an lvalue (`mv = false`) or comes from a
    `std::move_iterator` (`mv = true`) -/
def assignFrom (keeps mv : Bool) (a : Cells α) (r : Ref α) (i : Nat) : Cells α :=
  if mv then
    match r with
    | .ext c => a.set i c
    | .elem j => assignMove keeps a j i
  else a.set i (r.read a)

/-- `array.AddBackNogrowCrt(IterCreator(memManager, *iter))` -/
def addBackFrom (keeps mv : Bool) (a : Cells α) (r : Ref α) : Cells α :=
  if mv then
    match r with
    | .ext c => a ++ [c]
    | .elem j => addBackMove keeps a j
  else a ++ [r.read a]

/-! ## ArrayShifter (ArrayUtility.h:186-308) -/

/-- `for (i = initCount - count; i < initCount; ++i) array.AddBackNogrow(std::move(array[i]));` -/
def loop1 (keeps : Bool) (a : Cells α) (i : Nat) : Nat → Cells α
  | 0 => a
  | c+1 => loop1 keeps (addBackMove keeps a i) (i+1) c

/-- `for (i = initCount - count; i > index; --i) Assign(std::move(array[i - 1]), array[i + count - 1]);`
    fuel = `i - index` -/
def loop2 (keeps : Bool) (a : Cells α) (count : Nat) (i : Nat) : Nat → Cells α
  | 0 => a
  | f+1 => loop2 keeps (assignMove keeps a (i-1) (i+count-1)) count (i-1) f

/-- `for (i = index; i < index + count; ++i) Assign(item, array[i]);` (`item` is dereferenced every time) -/
def loop3 (a : Cells α) (item : Ref α) (i : Nat) : Nat → Cells α
  | 0 => a
  | c+1 => loop3 (a.set i (item.read a)) item (i+1) c

/-- `for (i = initCount; i < index + count; ++i) array.AddBackNogrow(item);` -/
def loopA (a : Cells α) (item : Ref α) : Nat → Cells α
  | 0 => a
  | c+1 => loopA (a ++ [item.read a]) item c

/-- `for (i = index; i < initCount; ++i) { Item& arrayItem = array[i]; array.AddBackNogrow(std::move(arrayItem));
    Assign(item, arrayItem); }` -/
def loopB (keeps : Bool) (a : Cells α) (item : Ref α) (i : Nat) : Nat → Cells α
  | 0 => a
  | c+1 => loopB keeps ((addBackMove keeps a i).set i (item.read (addBackMove keeps a i))) item (i+1) c

/-- `ArrayShifter::InsertNogrow(array, index, count, const Item& item)` (ArrayUtility.h:196-224),
    including the `count == 0` early return -/
def insertNogrowN (keeps : Bool) (a : Cells α) (index count : Nat) (item : Ref α) : Cells α :=
  if count = 0 then a
  else if index + count < a.length then
    loop3 (loop2 keeps (loop1 keeps a (a.length - count) count) count (a.length - count) (a.length - count - index))
      item index count
  else
    loopB keeps (loopA a item (index + count - a.length)) item index (a.length - index)

/-- third loop of the forward-iterator form: `for (i = index; i < index + count; ++i, ++iter) Assign(*iter, array[i]);` -/
def loop3R (keeps mv : Bool) : List (Ref α) → Cells α → Nat → Cells α
  | [], a, _ => a
  | r :: rs, a, i => loop3R keeps mv rs (assignFrom keeps mv a r i) (i+1)

/-- `for (i = initCount; i < index + count; ++i, ++iter) array.AddBackNogrowCrt(IterCreator(memManager, *iter));` -/
def loopAR (keeps mv : Bool) : List (Ref α) → Cells α → Cells α
  | [], a => a
  | r :: rs, a => loopAR keeps mv rs (addBackFrom keeps mv a r)

/-- `for (i = index; i < initCount; ++i, ++iter) { AddBackNogrow(std::move(array[i])); Assign(*iter, array[i]); }` -/
def loopBR (keeps mv : Bool) : Nat → List (Ref α) → Cells α → Nat → Cells α
  | 0, _, a, _ => a
  | _+1, [], a, _ => a
  | c+1, r :: rs, a, i => loopBR keeps mv c rs (assignFrom keeps mv (addBackMove keeps a i) r i) (i+1)

/-- `ArrayShifter::InsertNogrow(array, index, begin, count)` for forward iterators (ArrayUtility.h:226-260);
    `rs` = the objects `*begin … *(begin+count-1)`; `mv` = the iterator is a `std::move_iterator`
    (`InsertNogrow(array, index, Item&&)` is this function with `rs = [item]`, `mv = true`) -/
def insertNogrowR (keeps mv : Bool) (a : Cells α) (index : Nat) (rs : List (Ref α)) : Cells α :=
  if rs.length = 0 then a
  else if index + rs.length < a.length then
    loop3R keeps mv rs
      (loop2 keeps (loop1 keeps a (a.length - rs.length) rs.length) rs.length (a.length - rs.length)
        (a.length - rs.length - index))
      index
  else
    loopBR keeps mv (a.length - index) rs (loopAR keeps mv (rs.drop (a.length - index)) a) index

/-- `for (i = index + count; i < initCount; ++i) Assign(std::move(array[i]), array[i - count]);` -/
def loopRem (keeps : Bool) (a : Cells α) (count : Nat) (i : Nat) : Nat → Cells α
  | 0 => a
  | f+1 => loopRem keeps (assignMove keeps a i (i - count)) count (i+1) f

/-- `ArrayShifter::Remove(array, index, count)` (ArrayUtility.h:277-287) followed by `RemoveBack(count)` -/
def remove (keeps : Bool) (a : Cells α) (index count : Nat) : Cells α :=
  if count = 0 then a
  else (loopRem keeps a count (index + count) (a.length - (index + count))).take (a.length - count)

/-- `while (newCount < initCount && !itemFilter(array[newCount])) ++newCount;` -/
def firstHit (p : Cell α → Bool) (a : Cells α) (k : Nat) : Nat → Nat
  | 0 => k
  | f+1 => if k < a.length && !p (cellAt a k) then firstHit p a (k+1) f else k

/-- `for (i = newCount + 1; i < initCount; ++i) { if (itemFilter(array[i])) continue;
    Assign(std::move(array[i]), array[newCount]); ++newCount; }` -/
def loopFilt (keeps : Bool) (p : Cell α → Bool) (a : Cells α) (newCount i : Nat) : Nat → Cells α × Nat
  | 0 => (a, newCount)
  | f+1 =>
    if p (cellAt a i) then loopFilt keeps p a newCount (i+1) f
    else loopFilt keeps p (assignMove keeps a i newCount) (newCount+1) (i+1) f

/-- `remCount = initCount - newCount; array.RemoveBack(remCount); return remCount;` -/
def finishFilt (a : Cells α) (r : Cells α × Nat) : Cells α × Nat := (r.1.take r.2, a.length - r.2)

/-- the part of `Remove(array, itemFilter)` after the first `while` loop ended with `newCount = k` -/
def removeIfAt (keeps : Bool) (p : Cell α → Bool) (a : Cells α) (k : Nat) : Cells α × Nat :=
  finishFilt a (loopFilt keeps p a k (k+1) (a.length - (k+1)))

/-- `ArrayShifter::Remove(array, itemFilter)` (ArrayUtility.h:289-307): new cells and the returned `remCount` -/
def removeIf (keeps : Bool) (p : Cell α → Bool) (a : Cells α) : Cells α × Nat :=
  removeIfAt keeps p a (firstHit p a 0 a.length)

/-! ## `momo::Array` -/

/-- compile-time configuration of one `Array` instantiation -/
structure Cfg where
  /-- `Settings::internalCapacity` -/
  intCap : Nat := 0
  /-- a move leaves its source intact (trivially copyable / copy-only items) -/
  keeps : Bool := false
  /-- `ItemTraits::isNothrowRelocatable` -/
  nothrowReloc : Bool := true
  /-- `ItemTraits::isNothrowMoveConstructible` -/
  nothrowMove : Bool := true
  /-- `MemManagerProxy::canReallocate && ItemTraits::isTriviallyRelocatable` -/
  canRealloc : Bool := false
  /-- `MemManagerProxy::canReallocateInplace` -/
  canInplace : Bool := false
  /-- `Settings::growOnReserve` -/
  growOnReserve : Bool := true
deriving Repr

/-- calls of the memory manager, sizes in items -/
inductive Ev where
  | alloc (n : Nat)
  | dealloc (n : Nat)
  | realloc (old new : Nat)
  | inplace (old new : Nat) (ok : Bool)
deriving DecidableEq, Repr

/-- `ArraySettings::GrowCapacity(capacity, minNewCapacity, growCause, linear)` (Array.h:160-178) -/
def growCapacity (growOnReserve : Bool) (capacity minNew : Nat) (reserve linear : Bool) : Nat :=
  if reserve && !growOnReserve then minNew
  else
    Nat.max
      (if capacity ≤ Extracted.arrGrowTinyLimit then Extracted.arrGrowTinyCap
       else if capacity ≤ Extracted.arrGrowDoubleLimit then capacity * Extracted.arrGrowFactor
       else if linear || capacity < Extracted.arrGrowLinLimit then capacity + Extracted.arrGrowLinStep
       else capacity + (capacity / Extracted.arrGrowExpDiv) * Extracted.arrGrowExpMul)
      minNew

/-- `Array::Data` -/
structure State (α : Type) where
  /-- `mItems[0 .. mCount)` -/
  cells : Cells α := []
  /-- `mCapacity` (shares storage with the internal buffer; meaningful only when `!internal`) -/
  cap : Nat := 0
  /-- `pvIsInternal()`: `mItems == &mInternalItems` -/
  internal : Bool := false
  /-- answer of the memory manager to the next `ReallocateInplace` call (external behaviour) -/
  oracle : Bool := false
deriving Repr

/-- `Data::pvInit()` -/
def State.init (cfg : Cfg) : State α := { cells := [], cap := 0, internal := decide (cfg.intCap > 0) }

/-- `Data::GetCapacity()` -/
def capacity (cfg : Cfg) (s : State α) : Nat := if s.internal then cfg.intCap else s.cap

/-- `MemManagerProxy::Reallocate` (MemManager.h:433-443): no manager call when the size stays the same -/
def reallocEv (old new : Nat) : List Ev := if old = new then [] else [.realloc old new]

/-- `Data::Reallocate(capacityLin, capacityExp)` (Array.h:299-314): success flag, state, events.
    `MemManagerProxy::ReallocateInplace` (MemManager.h:445-452) succeeds without a manager call when the size
    stays the same. -/
def reallocate (cfg : Cfg) (s : State α) (lin exp : Nat) : Bool × State α × List Ev :=
  if capacity cfg s = cfg.intCap then (false, s, [])
  else if lin ≤ cfg.intCap || exp ≤ cfg.intCap then (false, s, [])
  else if (!cfg.canRealloc || lin < exp) && cfg.canInplace then
    if s.cap = lin then (true, s, [])
    else if s.oracle then (true, { s with cap := lin }, [.inplace s.cap lin true])
    else if cfg.canRealloc then (true, { s with cap := exp }, .inplace s.cap lin false :: reallocEv s.cap exp)
    else (false, s, [.inplace s.cap lin false])
  else if cfg.canRealloc then (true, { s with cap := exp }, reallocEv s.cap exp)
  else (false, s, [])

/-- `Data::Reset(capacity, count, itemsCreator)` (Array.h:316-342, pvReset 462-484); `newCells` is what the
    creator builds in the new storage -/
def reset (cfg : Cfg) (s : State α) (newCap : Nat) (newCells : Cells α) : State α × List Ev :=
  if newCap > cfg.intCap then
    ({ s with cells := newCells, cap := newCap, internal := false },
      .alloc newCap :: (if capacity cfg s > cfg.intCap then [.dealloc s.cap] else []))
  else if cfg.intCap > 0 then
    -- pvReset (hasInternalCapacity): creator into the internal buffer, then Deallocate(mItems, initCapacity)
    ({ s with cells := newCells, internal := true }, [.dealloc s.cap])
  else
    -- pvReset (!hasInternalCapacity): count == 0; pvDeallocate(); pvInit()
    ({ s with cells := [], cap := 0, internal := false },
      if capacity cfg s > cfg.intCap then [.dealloc s.cap] else [])

/-- `if (!mData.Reallocate(capacityLin, capacityExp)) mData.Reset(capacityExp, count, Relocate)` — the common
    tail of `pvGrow` and `Shrink`; relocation keeps every cell as it is -/
def moveTo (cfg : Cfg) (s : State α) (lin exp : Nat) : State α × List Ev :=
  if (reallocate cfg s lin exp).1 then (reallocate cfg s lin exp).2
  else ((reset cfg s exp s.cells).1, (reallocate cfg s lin exp).2.2 ++ (reset cfg s exp s.cells).2)

/-- `Array::pvGrow(minNewCapacity, growCause)` (Array.h:990-1002) -/
def grow (cfg : Cfg) (s : State α) (minNew : Nat) (reserve : Bool) : State α × List Ev :=
  moveTo cfg s (growCapacity cfg.growOnReserve (capacity cfg s) minNew reserve true)
    (growCapacity cfg.growOnReserve (capacity cfg s) minNew reserve false)

/-- apply a cell-level function to the array of a (state, events) result -/
def withCells (r : State α × List Ev) (f : Cells α → Cells α) : State α × List Ev :=
  ({ r.1 with cells := f r.1.cells }, r.2)

/-- `pvAddBackGrow(ItemCreator&&)` (Array.h:1012-1024): `Reset(newCapacity, newCount, RelocateCreate)`.
    `RelocateCreate` (ObjectManager.h:359-366, pvRelocateExec 508-535): nothrow relocatable -> create the new
    item first (the argument may live in the old storage), then relocate; otherwise copy all items, create,
    destroy the sources. -/
def addBackGrowCrt (cfg : Cfg) (s : State α) (mv : Bool) (item : Ref α) : State α × List Ev :=
  reset cfg s (growCapacity cfg.growOnReserve (capacity cfg s) (s.cells.length + 1) false false)
    (if cfg.nothrowReloc then (item.taken cfg.keeps mv s.cells) ++ [item.read s.cells]
     else s.cells ++ [item.read s.cells])

/-- `AddBackCrt` / `AddBackVar` (Array.h:813-827) = `stdish::vector::emplace_back` -/
def addBackCrt (cfg : Cfg) (s : State α) (mv : Bool) (item : Ref α) : State α × List Ev :=
  if s.cells.length < capacity cfg s then
    ({ s with cells := (item.taken cfg.keeps mv s.cells) ++ [item.read s.cells] }, [])
  else addBackGrowCrt cfg s mv item

/-- `AddBack(const Item&)` (Array.h:842-853, pvAddBackGrow 1051-1080) = `push_back(const value_type&)` -/
def addBackCopy (cfg : Cfg) (s : State α) (item : Ref α) : State α × List Ev :=
  if s.cells.length < capacity cfg s then ({ s with cells := s.cells ++ [item.read s.cells] }, [])
  else if cfg.nothrowReloc then
    -- copy into `itemBuffer`, pvGrow, relocate the buffer to the end
    withCells (grow cfg s (s.cells.length + 1) false) (fun cs => cs ++ [item.read s.cells])
  else addBackGrowCrt cfg s false item

/-- `AddBack(Item&&)` (Array.h:829-840, pvAddBackGrow 1026-1049) = `push_back(value_type&&)` -/
def addBackMoveOp (cfg : Cfg) (s : State α) (item : Ref α) : State α × List Ev :=
  if s.cells.length < capacity cfg s then
    ({ s with cells := item.moveFrom cfg.keeps s.cells ++ [item.read s.cells] }, [])
  else if cfg.nothrowMove then
    -- itemIndex = pvIndexOf(item); pvGrow; construct from std::move(items[itemIndex]) (or from item)
    withCells (grow cfg s (s.cells.length + 1) false) (fun cs => item.moveFrom cfg.keeps cs ++ [item.read cs])
  else addBackGrowCrt cfg s true item

/-- `InsertCrt` / `InsertVar` (Array.h:855-870) = `emplace`: the new item is created in an `ArrayItemHandler`
    *before* the array grows, then `InsertNogrow(*this, index, std::move(*&itemHandler))` -/
def insertCrt (cfg : Cfg) (s : State α) (index : Nat) (mv : Bool) (item : Ref α) : State α × List Ev :=
  if s.cells.length + 1 > capacity cfg s then
    withCells (grow cfg { s with cells := item.taken cfg.keeps mv s.cells } (s.cells.length + 1) false)
      (fun cs => insertNogrowR cfg.keeps true cs index [.ext (item.read s.cells)])
  else
    ({ s with cells := (insertNogrowR cfg.keeps true (item.taken cfg.keeps mv s.cells) index
        [.ext (item.read s.cells)]) }, [])

/-- `pvIndexOf(item)` (Array.h:1107-1114): index of the item inside `[items, items + count)`, else none -/
def indexOf (s : State α) : Ref α → Option Nat
  | .ext _ => none
  | .elem j => if j < s.cells.length then some j else none

/-- the test `index <= itemIndex && itemIndex < initCount` of `Insert` -/
def aliasAtOrAfter (s : State α) (index : Nat) (item : Ref α) : Bool :=
  match indexOf s item with
  | some j => decide (index ≤ j)
  | none => false

/-- `Insert(index, Item&&)` (Array.h:872-881) -/
def insertMove (cfg : Cfg) (s : State α) (index : Nat) (item : Ref α) : State α × List Ev :=
  if s.cells.length + 1 > capacity cfg s || aliasAtOrAfter s index item then insertCrt cfg s index true item
  else ({ s with cells := insertNogrowR cfg.keeps true s.cells index [item] }, [])

/-- `Insert(index, count, const Item&)` (Array.h:888-907); `Insert(index, const Item&)` is `count = 1` -/
def insertN (cfg : Cfg) (s : State α) (index count : Nat) (item : Ref α) : State α × List Ev :=
  if s.cells.length + count > capacity cfg s then
    -- ItemHandler(copy of item); pvGrow(newCount, add); InsertNogrow(…, *&itemHandler)
    withCells (grow cfg s (s.cells.length + count) false)
      (fun cs => insertNogrowN cfg.keeps cs index count (.ext (item.read s.cells)))
  else if aliasAtOrAfter s index item then
    ({ s with cells := insertNogrowN cfg.keeps s.cells index count (.ext (item.read s.cells)) }, [])
  else ({ s with cells := insertNogrowN cfg.keeps s.cells index count item }, [])

/-- `pvInsert` for forward iterators (Array.h:1082-1091): `Insert(index, begin, end)`, `Insert(index, {…})` -/
def insertRange (cfg : Cfg) (s : State α) (index : Nat) (xs : List (Cell α)) : State α × List Ev :=
  if s.cells.length + xs.length > capacity cfg s then
    withCells (grow cfg s (s.cells.length + xs.length) false)
      (fun cs => insertNogrowR cfg.keeps false cs index (xs.map .ext))
  else ({ s with cells := insertNogrowR cfg.keeps false s.cells index (xs.map .ext) }, [])

/-- `ArrayShifter::Insert` for input iterators (ArrayUtility.h:262-270): `InsertCrt(index + k, *iter)` one by one -/
def insertInput (cfg : Cfg) : State α → Nat → List (Cell α) → State α × List Ev
  | s, _, [] => (s, [])
  | s, index, x :: xs =>
    ((insertInput cfg (insertCrt cfg s index false (.ext x)).1 (index + 1) xs).1,
     (insertCrt cfg s index false (.ext x)).2 ++ (insertInput cfg (insertCrt cfg s index false (.ext x)).1 (index + 1) xs).2)

/-- `RemoveBack(count)` / `pvRemoveBack` (Array.h:922-926, 1100-1105) -/
def removeBack (s : State α) (count : Nat) : State α := { s with cells := s.cells.take (s.cells.length - count) }

/-- `Remove(index, count)` (Array.h:928-931) -/
def removeOp (cfg : Cfg) (s : State α) (index count : Nat) : State α := { s with cells := remove cfg.keeps s.cells index count }

/-- `Remove(itemFilter)` (Array.h:933-938) -/
def removeIfOp (cfg : Cfg) (s : State α) (p : Cell α → Bool) : State α × Nat :=
  ({ s with cells := (removeIf cfg.keeps p s.cells).1 }, (removeIf cfg.keeps p s.cells).2)

/-- `SetCountCrt(count, itemMultiCreator)` (Array.h:655-702) with the creator of `SetCount(count, item)`;
    `SetCount(count)` is the same with `item = ext (live default)` -/
def setCount (cfg : Cfg) (s : State α) (count : Nat) (item : Ref α) : State α × List Ev :=
  if count ≤ s.cells.length then (removeBack s (s.cells.length - count), [])
  else if count ≤ capacity cfg s then
    ({ s with cells := s.cells ++ List.replicate (count - s.cells.length) (item.read s.cells) }, [])
  else
    -- new items are created in the new storage first (item may live in the old one), then Relocate
    reset cfg s (growCapacity cfg.growOnReserve (capacity cfg s) count true false)
      (s.cells ++ List.replicate (count - s.cells.length) (item.read s.cells))

/-- `Reserve(capacity)` (Array.h:740-744) -/
def reserve (cfg : Cfg) (s : State α) (n : Nat) : State α × List Ev :=
  if n > capacity cfg s then grow cfg s n true else (s, [])

/-- `Shrink(capacity)` (Array.h:751-765); `Shrink()` is `Shrink(GetCount())` -/
def shrink (cfg : Cfg) (s : State α) (n : Nat) : State α × List Ev :=
  if capacity cfg s ≤ n || capacity cfg s = cfg.intCap then (s, [])
  else moveTo cfg s (Nat.max n s.cells.length) (Nat.max n s.cells.length)

/-- `Data::pvDestroy` + `pvInit` = `Data::Clear()` -/
def destroy (cfg : Cfg) (s : State α) : State α × List Ev :=
  ({ State.init cfg with oracle := s.oracle }, if capacity cfg s > cfg.intCap then [.dealloc s.cap] else [])

/-- `Clear(shrink)` (Array.h:727-733) -/
def clear (cfg : Cfg) (s : State α) (shrinkFlag : Bool) : State α × List Ev :=
  if shrinkFlag then destroy cfg s else (removeBack s s.cells.length, [])

/-- `Data(capacity, memManager)` (Array.h:215-229) -/
def newCap (cfg : Cfg) (n : Nat) : State α × List Ev :=
  if n > cfg.intCap then ({ cells := [], cap := n, internal := false }, [.alloc n]) else (State.init cfg, [])

/-- `Array(count, item, memManager)` (Array.h:524-529); `item` refers to an object outside the new array -/
def newFill (cfg : Cfg) (count : Nat) (c : Cell α) : State α × List Ev :=
  withCells (newCap cfg count) (fun _ => List.replicate count c)

/-- `Array(begin, end, memManager)` for forward iterators (Array.h:960-969) -/
def newRange (cfg : Cfg) (xs : List (Cell α)) : State α × List Ev :=
  withCells (newCap cfg xs.length) (fun _ => xs)

/-- `Array(begin, end, memManager)` for input iterators (Array.h:971-980): `AddBackCrt` one by one -/
def addAll (cfg : Cfg) : State α → List (Cell α) → State α × List Ev
  | s, [] => (s, [])
  | s, x :: xs =>
    ((addAll cfg (addBackCrt cfg s false (.ext x)).1 xs).1,
     (addBackCrt cfg s false (.ext x)).2 ++ (addAll cfg (addBackCrt cfg s false (.ext x)).1 xs).2)

/-- `Array(const Array&, bool shrink)` (Array.h:553-563) -/
def copyCtor (cfg : Cfg) (src : State α) (shrinkFlag : Bool) : State α × List Ev :=
  withCells (newCap cfg (if shrinkFlag then src.cells.length else capacity cfg src)) (fun _ => src.cells)

/-- `Array(Array&&)` = `Data(Data&&)` = `pvInit(Data&&)` (Array.h:375-402): (new object, moved-from source) -/
def moveCtor (cfg : Cfg) (src : State α) : State α × State α :=
  ({ cells := src.cells, cap := src.cap, internal := src.internal }, { State.init cfg with oracle := src.oracle })

/-- `operator=(Array&&)` = `Data::operator=(Data&&)` (Array.h:244-253) for two different objects:
    (target, source, events) -/
def moveAssign (cfg : Cfg) (dst src : State α) : State α × State α × List Ev :=
  ({ (moveCtor cfg src).1 with oracle := dst.oracle }, (moveCtor cfg src).2, (destroy cfg dst).2)

/-- `operator=(const Array&)` (Array.h:593-598) for two different objects: `*this = Array(array)` -/
def copyAssign (cfg : Cfg) (dst src : State α) : State α × List Ev :=
  ({ (copyCtor cfg src true).1 with oracle := dst.oracle }, (copyCtor cfg src true).2 ++ (destroy cfg dst).2)

/-- `Swap` (Array.h:600-604): `std::swap(mData, array.mData)` — three moves, no memory-manager call -/
def swap (a b : State α) : State α × State α :=
  ({ b with oracle := a.oracle }, { a with oracle := b.oracle })

/-- `stdish::vector::assign(count, value)`: `mArray = Array(count, value, MemManager(get_allocator()))`;
    the value (possibly an element of `dst`) is copied before the old contents are destroyed -/
def assignFill (cfg : Cfg) (dst : State α) (count : Nat) (item : Ref α) : State α × List Ev :=
  ({ (newFill cfg count (item.read dst.cells)).1 with oracle := dst.oracle },
   (newFill cfg count (item.read dst.cells)).2 ++ (destroy cfg dst).2)

/-- `stdish::vector::assign(first, last)` / `assign({…})` (forward iterators) -/
def assignRange (cfg : Cfg) (dst : State α) (xs : List (Cell α)) : State α × List Ev :=
  ({ (newRange cfg xs).1 with oracle := dst.oracle }, (newRange cfg xs).2 ++ (destroy cfg dst).2)

/-- `array[j] = x` (plain assignment through `operator[]`) -/
def setItem (s : State α) (j : Nat) (c : Cell α) : State α := { s with cells := s.cells.set j c }

/-! ### operations as data: one history step -/

/-- single-container operations whose value arguments are lvalues (`const Item&`) — aliasing allowed —
    or fresh external values -/
inductive Op (α : Type) where
  | addBackCopy (item : Ref α)
  | addBackCrt (item : Ref α)            -- emplace_back(const Item&)
  | insertCrt (index : Nat) (item : Ref α)   -- emplace(pos, const Item&)
  | insertN (index count : Nat) (item : Ref α)
  | insertRange (index : Nat) (xs : List α)
  | insertInput (index : Nat) (xs : List α)
  | removeBack (count : Nat)
  | remove (index count : Nat)
  | removeIf (p : α → Bool)
  | setCount (count : Nat) (item : Ref α)
  | reserve (n : Nat)
  | shrink (n : Nat)
  | clear (shrinkFlag : Bool)
  | assignFill (count : Nat) (item : Ref α)
  | assignRange (xs : List α)
  | setItem (j : Nat) (x : α)
  | oracle (b : Bool)

/-- predicate on cells induced by a predicate on values (a moved-from item is never selected) -/
def liftPred (p : α → Bool) : Cell α → Bool
  | .live v => p v
  | .moved => false

def step (cfg : Cfg) (s : State α) : Op α → State α × List Ev
  | .addBackCopy item => addBackCopy cfg s item
  | .addBackCrt item => addBackCrt cfg s false item
  | .insertCrt index item => insertCrt cfg s index false item
  | .insertN index count item => insertN cfg s index count item
  | .insertRange index xs => insertRange cfg s index (xs.map .live)
  | .insertInput index xs => insertInput cfg s index (xs.map .live)
  | .removeBack count => (removeBack s count, [])
  | .remove index count => (removeOp cfg s index count, [])
  | .removeIf p => ((removeIfOp cfg s (liftPred p)).1, [])
  | .setCount count item => setCount cfg s count item
  | .reserve n => reserve cfg s n
  | .shrink n => shrink cfg s n
  | .clear f => clear cfg s f
  | .assignFill count item => assignFill cfg s count item
  | .assignRange xs => assignRange cfg s (xs.map .live)
  | .setItem j x => (setItem s j (.live x), [])
  | .oracle b => ({ s with oracle := b }, [])

def run (cfg : Cfg) : State α → List (Op α) → State α × List Ev
  | s, [] => (s, [])
  | s, op :: ops => ((run cfg (step cfg s op).1 ops).1, (step cfg s op).2 ++ (run cfg (step cfg s op).1 ops).2)

/-! ### the reference sequence -/

namespace Spec

/-- value denoted by a reference into the sequence `xs` (only used for `j < xs.length`) -/
def refVal [Inhabited α] (xs : List α) : Ref α → α
  | .ext (.live x) => x
  | .ext .moved => default
  | .elem j => xs.getD j default

def insertN (xs : List α) (index count : Nat) (x : α) : List α :=
  xs.take index ++ List.replicate count x ++ xs.drop index

def insertList (xs : List α) (index : Nat) (ys : List α) : List α :=
  xs.take index ++ ys ++ xs.drop index

def remove (xs : List α) (index count : Nat) : List α := xs.take index ++ xs.drop (index + count)

def setCount (xs : List α) (count : Nat) (x : α) : List α :=
  if count ≤ xs.length then xs.take count else xs ++ List.replicate (count - xs.length) x

def step [Inhabited α] (xs : List α) : Op α → List α
  | .addBackCopy item => xs ++ [refVal xs item]
  | .addBackCrt item => xs ++ [refVal xs item]
  | .insertCrt index item => insertN xs index 1 (refVal xs item)
  | .insertN index count item => insertN xs index count (refVal xs item)
  | .insertRange index ys => insertList xs index ys
  | .insertInput index ys => insertList xs index ys
  | .removeBack count => xs.take (xs.length - count)
  | .remove index count => remove xs index count
  | .removeIf p => xs.filter (fun x => !p x)
  | .setCount count item => setCount xs count (refVal xs item)
  | .reserve _ => xs
  | .shrink _ => xs
  | .clear _ => []
  | .assignFill count item => List.replicate count (refVal xs item)
  | .assignRange ys => ys
  | .setItem j x => xs.set j x
  | .oracle _ => xs

/-- the preconditions the C++ interface states (`MOMO_CHECK`s) plus: a reference argument denotes a live
    object — an external value or an element of the container -/
def refOk (xs : List α) : Ref α → Prop
  | .ext (.live _) => True
  | .ext .moved => False
  | .elem j => j < xs.length

def valid (xs : List α) : Op α → Prop
  | .addBackCopy item => refOk xs item
  | .addBackCrt item => refOk xs item
  | .insertCrt index item => index ≤ xs.length ∧ refOk xs item
  | .insertN index _ item => index ≤ xs.length ∧ refOk xs item
  | .insertRange index _ => index ≤ xs.length
  | .insertInput index _ => index ≤ xs.length
  | .removeBack count => count ≤ xs.length
  | .remove index count => index + count ≤ xs.length
  | .removeIf _ => True
  | .setCount _ item => refOk xs item
  | .reserve _ => True
  | .shrink _ => True
  | .clear _ => True
  | .assignFill _ item => refOk xs item
  | .assignRange _ => True
  | .setItem j _ => j < xs.length
  | .oracle _ => True

def run [Inhabited α] : List α → List (Op α) → List α
  | xs, [] => xs
  | xs, op :: ops => run (step xs op) ops

/-- every operation of the history meets its precondition in the state it is applied to -/
def validAll [Inhabited α] : List α → List (Op α) → Prop
  | _, [] => True
  | xs, op :: ops => valid xs op ∧ validAll (step xs op) ops

end Spec

/-- representation invariant of `Array::Data` -/
structure WF (cfg : Cfg) (s : State α) : Prop where
  /-- `mCount <= GetCapacity()` -/
  count_le : s.cells.length ≤ capacity cfg s
  /-- external storage is strictly larger than the internal buffer (`Data(capacity)`, `Reset`, `Reallocate`) -/
  ext_gt : s.internal = false → s.cap ≠ 0 → s.cap > cfg.intCap
  /-- `mItems == &mInternalItems` only exists when there is an internal buffer -/
  int_pos : s.internal = true → cfg.intCap > 0
  /-- without storage of its own an array with an internal buffer points to it (`pvInit`) -/
  null_only : s.internal = false → s.cap = 0 → cfg.intCap = 0

end Momo.Arr
