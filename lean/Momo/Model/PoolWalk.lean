import Momo.Model.Pool
/-
  Pointer level of the traversals of `MemPool::DeallocateAll` (337-358) and `MemPool::DeallocateIf` (360-384) - C09.
  `Momo/Model/Pool.lean` (b) runs these loops on the list view (`pre` / `post`, `nextOf` / `prevOf`); here they read the
  `prev` / `next` fields of the heap of part (c), as the source does. `Momo/Proof/PoolDllWalk.lean` proves that on a heap
  holding the list of the state machine both views visit the same buffers in the same order.
  Core Lean only (no Mathlib): this file is linked into the driver.
-/
namespace Momo.Pool

/-- first loop of `DeallocateAll` (342-348): `while ((prevBuffer = pvGetPrevBuffer(mFreeBufferHead)) != nullptr)
    pvDeleteBuffer(prevBuffer)`; value: the buffers deleted, in order, and the heap -/
def ptrDeleteAllPre (head : Int) : Nat → Heap → List Int × Heap
  | 0, h => ([], h)
  | f+1, h =>
    match (h head).prev with
    | none => ([], h)
    | some pb => ((pb :: (ptrDeleteAllPre head f (ptrUnlink h pb)).1), (ptrDeleteAllPre head f (ptrUnlink h pb)).2)

/-- second loop of `DeallocateAll` (349-354): `while (head != nullptr) { buffer = head; head = next(buffer);
    pvDeleteBuffer(buffer); }` -/
def ptrDeleteAllPost : Nat → Heap → Option Int → List Int × Heap
  | 0, h, _ => ([], h)
  | _, h, none => ([], h)
  | f+1, h, some b =>
    ((b :: (ptrDeleteAllPost f (ptrUnlink h b) (h b).next).1), (ptrDeleteAllPost f (ptrUnlink h b) (h b).next).2)

/-- `DeallocateAll` (337-358) for a non-null head: the buffers in the order they are given back -/
def ptrDeallocateAll (fuel : Nat) (h : Heap) (head : Int) : List Int × Heap :=
  ((ptrDeleteAllPre head fuel h).1 ++ (ptrDeleteAllPost fuel (ptrDeleteAllPre head fuel h).2 (some head)).1,
   (ptrDeleteAllPost fuel (ptrDeleteAllPre head fuel h).2 (some head)).2)

/-- forward loop of `DeallocateIf` (368-376); `sweep buffer` stands for `pvDeleteBlocks(buffer, blockFilter)` - whatever it
    does to the links. `nextBuffer` is read BEFORE the sweep, as in the source. Value: the buffers swept, in order. -/
def ptrDifForward (sweep : Int → Heap → Heap) : Nat → Heap → Int → List Int × Heap
  | 0, h, _ => ([], h)
  | f+1, h, b =>
    match (h b).next with
    | none => ([b], sweep b h)
    | some n => ((b :: (ptrDifForward sweep f (sweep b h) n).1), (ptrDifForward sweep f (sweep b h) n).2)

/-- backward loop of `DeallocateIf` (377-383), started at `pvGetPrevBuffer(mFreeBufferHead)`; `prevBuffer` is read before
    the sweep -/
def ptrDifBackward (sweep : Int → Heap → Heap) : Nat → Heap → Option Int → List Int × Heap
  | 0, h, _ => ([], h)
  | _, h, none => ([], h)
  | f+1, h, some b =>
    ((b :: (ptrDifBackward sweep f (sweep b h) (h b).prev).1), (ptrDifBackward sweep f (sweep b h) (h b).prev).2)

end Momo.Pool
