import Momo.Extracted
import Momo.Model.Probe
/-
  Model of the per-element hash metadata that lets a growing hash table skip the hash function (C12):
    * BucketLimP4<…, useHashCodePartGetter = true>   (details/HashBucketLimP4.h)
        pvCalcShortHash, pvGetProbeShift, pvSetHashProbe, AddCrt, Remove, pvSetEmpty, pvGetCount, IsFull, WasFull,
        pvGetMemPoolIndex, GetHashCodePart — the byte array `mShortHashes[hashCount]` exactly as laid out in the source
        (short hashes grow from the left, hash-probe bytes from the right, `hashCount` = 4, 6 or 8)
    * BucketOpen2N2<…, useHashCodePartGetter = true>  (details/HashBucketOpen2N2.h)
        pvCalcShortHash, pvGetProbeShift, AddCrt, Remove, GetHashCodePart — `shortHashes[maxCount]`, `hashProbes[maxCount]`
    * BucketOne                                       (details/HashBucketOne.h)
        pvGetHashState, AddCrt, Remove, GetHashCodePart
    * HashSet::pvAddNogrow / pvRelocateItems          (HashSet.h) — what is handed to AddCrt when an element is re-inserted
      into the grown table with the code returned by GetHashCodePart (the probe loop itself is `Probe.addProbe`, C13).
  Hash codes are 64-bit `size_t`; every C++ truncation is written out (`w64`, `u8`).
  Core Lean only (no Mathlib): this file is linked into the driver.
-/
namespace Momo.HashMeta
open Momo

/-- truncation to `size_t` -/
def w64 (x : Nat) : Nat := x % 2 ^ 64
/-- `static_cast<uint8_t>` -/
def u8 (x : Nat) : Nat := x % 256

/-- array write `a[i] = v` on a byte array represented as a function -/
def upd (f : Nat → Nat) (i v : Nat) : Nat → Nat := fun j => if j = i then v else f j

/-! ## BucketLimP4 (useHashCodePartGetter = true) -/
namespace P4

@[reducible] def maskEmpty : Nat := Extracted.limp4MaskEmpty
@[reducible] def emptyHashProbe : Nat := Extracted.limp4EmptyHashProbe

/-- `hashCodeShift = sizeof(size_t) * 8 - 7` -/
def hashCodeShift : Nat := 64 - Extracted.limp4ShortHashBits

/-- `pvGetProbeShift`: `(logBucketCount + logBucketCountAddend) % logBucketCountStep` -/
def probeShift (L : Nat) : Nat := (L + Extracted.limp4LogAddend) % Extracted.limp4LogStep

/-- the group compared by `GetHashCodePart`: `(logBucketCount + logBucketCountAddend) / logBucketCountStep` -/
def group (L : Nat) : Nat := (L + Extracted.limp4LogAddend) / Extracted.limp4LogStep

/-- `pvCalcShortHash`: `static_cast<uint8_t>(hashCode >> hashCodeShift)` -/
def shortHash (h : Nat) : Nat := u8 (h >>> hashCodeShift)

/-- the byte `pvSetHashProbe` stores (HashBucketLimP4.h:461-471):
    `(probe < 1 << probeShift) ? maskEmpty | uint8_t((hashCode >> logBucketCount) << probeShift) | uint8_t(probe) : emptyHashProbe`
    (the `size_t` truncation of the shift is absorbed by the `uint8_t` cast) -/
def encByte (h L p : Nat) : Nat :=
  if p < 2 ^ probeShift L then maskEmpty ||| u8 ((h >>> L) <<< probeShift L) ||| u8 p else emptyHashProbe

/-- `useFullGetter` of `GetHashCodePart` (HashBucketLimP4.h:401-403):
    `uint8_t(hashProbe + 1) <= maskEmpty || group(logBucketCount) != group(newLogBucketCount)` -/
def useFull (byte L L' : Nat) : Bool := u8 (byte + 1) ≤ maskEmpty || group L != group L'

/-- the reconstructed code of `GetHashCodePart` (HashBucketLimP4.h:406-411):
    `((bucketIndex + bucketCount - probe) & (bucketCount - 1)) | (((hashProbe - maskEmpty) >> probeShift) << logBucketCount)
     | (size_t{shortHash} << hashCodeShift)` with `probe = hashProbe & ((1 << probeShift) - 1)` -/
def decode (byte short idx L : Nat) : Nat :=
  (w64 (idx + 2 ^ L + (2 ^ 64 - (byte &&& (2 ^ probeShift L - 1)))) &&& (2 ^ L - 1))
    ||| w64 (((byte - maskEmpty) >>> probeShift L) <<< L)
    ||| w64 (short <<< hashCodeShift)

/-- `GetHashCodePart(hashCodeFullGetter, iter, bucketIndex, logBucketCount, newLogBucketCount)`;
    `full` is what `hashCodeFullGetter()` would return -/
def getHashCodePart (byte short idx L L' full : Nat) : Nat :=
  if useFull byte L L' then full else decode byte short idx L

/-- number of low bits of the hash code that `decode` yields: `L + 7 - probeShift L` -/
def knownBits (L : Nat) : Nat := L + Extracted.limp4ShortHashBits - probeShift L

/-- metadata of one bucket -/
structure Bucket where
  hc : Nat             -- hashCount
  maxCount : Nat
  minMpi : Nat         -- minMemPoolIndex
  sh : Nat → Nat       -- mShortHashes[0 .. hc-1]
  mpi : Nat            -- pvGetMemPoolIndex() (pointer state + 1)
  nonnull : Bool       -- mPtrState.GetPointer() != nullptr

/-- constructor / `pvSetEmpty(memPoolIndex)` -/
def Bucket.empty (hc maxCount minMpi mpi : Nat) : Bucket :=
  { hc := hc, maxCount := maxCount, minMpi := minMpi, sh := fun _ => emptyHashProbe, mpi := mpi, nonnull := false }

def Bucket.new (hc maxCount minMpi : Nat) : Bucket := Bucket.empty hc maxCount minMpi minMpi

/-- `pvGetCount` (HashBucketLimP4.h:445-449) -/
def countOf (sh : Nat → Nat) : Nat :=
  if sh 1 ≥ maskEmpty then (if sh 0 < maskEmpty then 1 else 0)
  else 2 + (if sh 2 < maskEmpty then 1 else 0) + (if sh 3 < maskEmpty then 1 else 0)

def Bucket.count (b : Bucket) : Nat := countOf b.sh

/-- `IsFull`: `mShortHashes[maxCount - 1] < maskEmpty` -/
def Bucket.isFull (b : Bucket) : Bool := b.sh (b.maxCount - 1) < maskEmpty

/-- `WasFull`: `pvGetMemPoolIndex() == maxCount` -/
def Bucket.wasFull (b : Bucket) : Bool := b.mpi == b.maxCount

/-- `pvSetHashProbe(index, hashCode, logBucketCount, probe)`: no write when the slot would collide with a short hash -/
def setHashProbe (hc : Nat) (sh : Nat → Nat) (index h L p : Nat) : Nat → Nat :=
  if hc - 1 - index ≤ index then sh else upd sh (hc - 1 - index) (encByte h L p)

/-- `AddCrt` (HashBucketLimP4.h:306-353), metadata only: all three branches write the hash probe of the new index first,
    then the short hash; `pvAdd<k>` moves to the next memory pool when `count == memPoolIndex` -/
def Bucket.addCrt (b : Bucket) (h L p : Nat) : Bucket :=
  if b.nonnull then
    { b with sh := upd (setHashProbe b.hc b.sh b.count h L p) b.count (shortHash h),
             mpi := if b.count = b.mpi then b.mpi + 1 else b.mpi }
  else
    { b with sh := upd (setHashProbe b.hc b.sh 0 h L p) 0 (shortHash h), nonnull := true }

/-- the byte compaction of `Remove` for `count > 1` (HashBucketLimP4.h:377-388), in source order -/
def removeBytes (hc : Nat) (sh : Nat → Nat) (count index : Nat) : Nat → Nat :=
  if hc - 1 - index ≥ count then
    upd (upd (upd sh index (sh (count - 1))) (count - 1) emptyHashProbe) (hc - 1 - index)
      (if hc - count ≥ count then (upd (upd sh index (sh (count - 1))) (count - 1) emptyHashProbe) (hc - count)
       else emptyHashProbe)
  else upd (upd sh index (sh (count - 1))) (count - 1) emptyHashProbe

/-- `Remove(iter)` with `index = iter - items` (HashBucketLimP4.h:356-391) -/
def Bucket.remove (b : Bucket) (index : Nat) : Bucket :=
  if b.count = 1 then Bucket.empty b.hc b.maxCount b.minMpi (if b.mpi ≠ b.maxCount then b.minMpi else b.mpi)
  else { b with sh := removeBytes b.hc b.sh b.count index }

/-- `GetHashCodePart` on the item at `index` of a bucket that sits at `bucketIndex` of a table with `2^L` buckets -/
def Bucket.getHashCodePart (b : Bucket) (index bucketIndex L L' full : Nat) : Nat :=
  P4.getHashCodePart (b.sh (b.hc - 1 - index)) (b.sh index) bucketIndex L L' full

end P4

/-! ## BucketOpen2N2 (useHashCodePartGetter = true: 1-byte short hashes) -/
namespace O2

@[reducible] def emptyHashProbe : Nat := Extracted.open2n2EmptyHashProbe
/-- `emptyShortHash = ShortHash{1} << 7` -/
def emptyShortHash : Nat := 128

/-- `hashCodeShift = sizeof(size_t) * 8 - sizeof(ShortHash) * 8 + 1` with `ShortHash = uint8_t` -/
def hashCodeShift : Nat := 64 - 8 + Extracted.open2n2HashShiftAddend

/-- `pvGetProbeShift`: `(logBucketCount + logBucketCountAddend + 1) % logBucketCountStep` -/
def probeShift (L : Nat) : Nat :=
  (L + Extracted.open2n2LogAddend + Extracted.open2n2ProbeShiftExtra) % Extracted.open2n2LogStep

def group (L : Nat) : Nat := (L + Extracted.open2n2LogAddend) / Extracted.open2n2LogStep

/-- `pvCalcShortHash` -/
def shortHash (h : Nat) : Nat := u8 (h >>> hashCodeShift)

/-- the byte `AddCrt` stores (HashBucketOpen2N2.h:153-161):
    `probe < (1 << probeShift) ? uint8_t(((hashCode >> logBucketCount) << probeShift) | probe) : emptyHashProbe` -/
def encByte (h L p : Nat) : Nat :=
  if p < 2 ^ probeShift L then u8 (((h >>> L) <<< probeShift L) ||| p) else emptyHashProbe

/-- `useFullGetter` (HashBucketOpen2N2.h:190-192) -/
def useFull (byte L L' : Nat) : Bool := byte == emptyHashProbe || group L != group L'

/-- `probe2 = (probe % 2 == 0) ? (probe / 2) * (probe + 1) : probe * ((probe + 1) / 2)` -/
def probe2 (probe : Nat) : Nat :=
  if probe % 2 = 0 then (probe / 2) * (probe + 1) else probe * ((probe + 1) / 2)

/-- the reconstructed code (HashBucketOpen2N2.h:195-202):
    `((bucketIndex - probe2) & (bucketCount - 1)) | ((hashProbe >> probeShift) << logBucketCount) | (shortHash << hashCodeShift)` -/
def decode (byte short idx L : Nat) : Nat :=
  (w64 (idx + (2 ^ 64 - probe2 (byte &&& (2 ^ probeShift L - 1)))) &&& (2 ^ L - 1))
    ||| w64 ((byte >>> probeShift L) <<< L)
    ||| w64 (short <<< hashCodeShift)

def getHashCodePart (byte short idx L L' full : Nat) : Nat :=
  if useFull byte L L' then full else decode byte short idx L

/-- number of low bits of the hash code that `decode` yields: `L + 8 - probeShift L` -/
def knownBits (L : Nat) : Nat := L + 8 - probeShift L

structure Bucket where
  maxCount : Nat
  sh : Nat → Nat       -- mHashData.shortHashes[0 .. maxCount-1]
  hp : Nat → Nat       -- mHashData.hashProbes[0 .. maxCount-1]
  cnt : Nat            -- mState[1] & 3

/-- constructor / `pvSetEmpty`; the hash-probe bytes are not initialised by the source (the model starts them at 0
    and the harness never compares a byte that was not written) -/
def Bucket.new (maxCount : Nat) : Bucket :=
  { maxCount := maxCount, sh := fun _ => emptyShortHash, hp := fun _ => 0, cnt := 0 }

/-- `IsFull`: `shortHashes[0] < emptyShortHash` -/
def Bucket.isFull (b : Bucket) : Bool := b.sh 0 < emptyShortHash

/-- `AddCrt` (HashBucketOpen2N2.h:143-164): the new item goes to slot `maxCount - 1 - count` -/
def Bucket.addCrt (b : Bucket) (h L p : Nat) : Bucket :=
  { b with sh := upd b.sh (b.maxCount - 1 - b.cnt) (shortHash h),
           hp := upd b.hp (b.maxCount - 1 - b.cnt) (encByte h L p),
           cnt := b.cnt + 1 }

/-- `Remove` (HashBucketOpen2N2.h:167-180) of the item in slot `index`: the newest item (slot `maxCount - count`) moves there -/
def Bucket.remove (b : Bucket) (index : Nat) : Bucket :=
  { b with sh := upd (upd b.sh index (b.sh (b.maxCount - b.cnt))) (b.maxCount - b.cnt) emptyShortHash,
           hp := upd b.hp index (b.hp (b.maxCount - b.cnt)),
           cnt := b.cnt - 1 }

def Bucket.getHashCodePart (b : Bucket) (index bucketIndex L L' full : Nat) : Nat :=
  O2.getHashCodePart (b.hp index) (b.sh index) bucketIndex L L' full

end O2

/-! ## BucketOne -/
namespace One

/-- `pvGetHashState` for a `stateSize`-byte state (HashBucketOne.h:131-145) -/
def hashState (stateSize h : Nat) : Nat :=
  if stateSize < 8 then (h >>> ((8 - stateSize) * 8)) % 2 ^ (8 * stateSize) ||| 1
  else w64 (h <<< 1) ||| 1

/-- `GetHashCodePart` (HashBucketOne.h:121-129): `sizeof(HashState) < sizeof(size_t) ? full : mHashState >> 1` -/
def getHashCodePart (stateSize state full : Nat) : Nat :=
  if stateSize < 8 then full else state >>> 1

/-- state after `Remove` -/
def removedState : Nat := 2

end One

/-! ## table level: what `pvAddNogrow` hands to the bucket when an element is (re-)inserted -/

/-- the bucket types whose `GetHashCodePart` does not always call the full getter -/
inductive Kind where
  | limp4 | open2 | one8
deriving DecidableEq, Repr

/-- probing rule: `BucketOpen2N2::GetNextBucketIndex` is quadratic, the other two inherit the linear rule -/
def Kind.quad : Kind → Bool
  | .open2 => true
  | _ => false

/-- everything `pvAddNogrow` (HashSet.h:1101-1126) determines for one insertion into a table of `2^L` buckets:
    start bucket (whose max-probe is updated), displacement, landing bucket, and the metadata `AddCrt` writes -/
structure Placed where
  L : Nat
  start : Nat
  probe : Nat
  idx : Nat
  short : Nat      -- short hash (LimP4, Open2N2) / whole hash state (One)
  byte : Nat       -- hash-probe byte (LimP4, Open2N2); 0 for One
deriving DecidableEq, Repr

def Kind.short (k : Kind) (code : Nat) : Nat :=
  match k with
  | .limp4 => P4.shortHash code
  | .open2 => O2.shortHash code
  | .one8 => One.hashState 8 code

def Kind.enc (k : Kind) (code L p : Nat) : Nat :=
  match k with
  | .limp4 => P4.encByte code L p
  | .open2 => O2.encByte code L p
  | .one8 => 0

/-- `pvAddNogrow(buckets, hashCode, …)`: `none` = `throw std::runtime_error("Hash table is full")`.
    `isFull i` is `buckets[i].IsFull()` at the time of the call. -/
def place (k : Kind) (L : Nat) (isFull : Nat → Bool) (code : Nat) : Option Placed :=
  match Probe.addProbe k.quad L isFull (Probe.start L code) with
  | none => none
  | some (p, idx) => some { L := L, start := Probe.start L code, probe := p, idx := idx,
                            short := k.short code, byte := k.enc code L p }

/-- `bucket.GetHashCodePart(hashCodeFullGetter, iter, i, buckets->GetLogCount(), mBuckets->GetLogCount())`
    as called by `pvRelocateItems` (HashSet.h:1270); `full` = the element's true hash code -/
def codeOf (k : Kind) (st : Placed) (L' full : Nat) : Nat :=
  match k with
  | .limp4 => P4.getHashCodePart st.byte st.short st.idx st.L L' full
  | .open2 => O2.getHashCodePart st.byte st.short st.idx st.L L' full
  | .one8 => One.getHashCodePart 8 st.short full

/-- does this relocation step evaluate the hash function? -/
def usesFull (k : Kind) (st : Placed) (L' : Nat) : Bool :=
  match k with
  | .limp4 => P4.useFull st.byte st.L L'
  | .open2 => O2.useFull st.byte st.L L'
  | .one8 => false

/-- one growth step as the source performs it: re-insert with the code from `GetHashCodePart` -/
def relocate (k : Kind) (full : Nat) (st : Placed) (L' : Nat) (isFull : Nat → Bool) : Option Placed :=
  place k L' isFull (codeOf k st L' full)

/-- one growth step of a table that always recomputes the hash -/
def rehash (k : Kind) (full : Nat) (L' : Nat) (isFull : Nat → Bool) : Option Placed :=
  place k L' isFull full

/-- a chain of growth steps `(L', occupancy of the new table when the element is re-inserted)`,
    each one performed with the stored bits -/
def chainPart (k : Kind) (full : Nat) : Option Placed → List (Nat × (Nat → Bool)) → Option Placed
  | st, [] => st
  | none, _ :: _ => none
  | some st, (L', isFull) :: rest => chainPart k full (relocate k full st L' isFull) rest

/-- the same chain with the hash recomputed at every step -/
def chainFull (k : Kind) (full : Nat) : Option Placed → List (Nat × (Nat → Bool)) → Option Placed
  | st, [] => st
  | none, _ :: _ => none
  | some _, (L', isFull) :: rest => chainFull k full (rehash k full L' isFull) rest

/-- equality of two placements as far as any later step can observe: everything except — for Open2N2 at the first
    size of a group (`probeShift = 0`), where the byte is never read by a later growth — the hash-probe byte -/
def Placed.sameAs (k : Kind) (a b : Placed) : Prop :=
  a.L = b.L ∧ a.start = b.start ∧ a.probe = b.probe ∧ a.idx = b.idx ∧ a.short = b.short ∧
  (a.byte = b.byte ∨ (k = Kind.open2 ∧ O2.probeShift a.L = 0))

def sameAsOpt (k : Kind) : Option Placed → Option Placed → Prop
  | none, none => True
  | some a, some b => a.sameAs k b
  | _, _ => False

/-- a chain of growth steps starting from size `2^L`: sizes strictly increase (`pvGetNewLogBucketCount` checks
    `shift > 0`, `Reserve` only increments further) and stay at most `2^maxL` -/
def GrowthChain (maxL : Nat) : Nat → List (Nat × (Nat → Bool)) → Prop
  | _, [] => True
  | L, (L', _) :: rest => L < L' ∧ L' ≤ maxL ∧ GrowthChain maxL L' rest

/-! ## histories of one bucket (ghost view used by the metadata invariants) -/

/-- an element as the bucket saw it arrive: the code, table size and displacement passed to `AddCrt` -/
structure Item where
  h : Nat
  L : Nat
  p : Nat
deriving DecidableEq, Repr

/-- `AddCrt(…, hashCode, logBucketCount, probe)` / `Remove(iterator to position index)` -/
inductive Op where
  | add (h L p : Nat)
  | rem (index : Nat)
deriving DecidableEq, Repr

/-- abstract content: `n` elements, `it i` = the element at array position `i` -/
structure Abs where
  n : Nat
  it : Nat → Item

def Abs.init : Abs := { n := 0, it := fun _ => ⟨0, 0, 0⟩ }

/-- LimP4 keeps elements in positions `0 .. n-1`; `Remove` moves the last element into the hole -/
def Abs.stepP4 (a : Abs) : Op → Abs
  | .add h L p => { n := a.n + 1, it := fun i => if i = a.n then ⟨h, L, p⟩ else a.it i }
  | .rem index => { n := a.n - 1, it := fun i => if i = index then a.it (a.n - 1) else a.it i }

/-- Open2N2 fills positions `maxCount-1, maxCount-2, …`; `Remove` moves the newest element (position `maxCount - n`) into the hole -/
def Abs.stepO2 (maxCount : Nat) (a : Abs) : Op → Abs
  | .add h L p => { n := a.n + 1, it := fun i => if i = maxCount - 1 - a.n then ⟨h, L, p⟩ else a.it i }
  | .rem index => { n := a.n - 1, it := fun i => if i = index then a.it (maxCount - a.n) else a.it i }

def P4.Bucket.step (b : P4.Bucket) : Op → P4.Bucket
  | .add h L p => b.addCrt h L p
  | .rem index => b.remove index

def O2.Bucket.step (b : O2.Bucket) : Op → O2.Bucket
  | .add h L p => b.addCrt h L p
  | .rem index => b.remove index

/-- the preconditions the source asserts: `AddCrt` on a non-full bucket with a 64-bit code, `Remove` of a present element -/
def Op.legalP4 (maxCount : Nat) (a : Abs) : Op → Prop
  | .add h _ _ => a.n < maxCount ∧ h < 2 ^ 64
  | .rem index => index < a.n

def Op.legalO2 (maxCount : Nat) (a : Abs) : Op → Prop
  | .add h _ _ => a.n < maxCount ∧ h < 2 ^ 64
  | .rem index => maxCount - a.n ≤ index ∧ index < maxCount

/-- every operation of a history is legal in the state it is applied to -/
def legalHistP4 (maxCount : Nat) : Abs → List Op → Prop
  | _, [] => True
  | a, op :: rest => op.legalP4 maxCount a ∧ legalHistP4 maxCount (a.stepP4 op) rest

def legalHistO2 (maxCount : Nat) : Abs → List Op → Prop
  | _, [] => True
  | a, op :: rest => op.legalO2 maxCount a ∧ legalHistO2 maxCount (a.stepO2 maxCount op) rest

end Momo.HashMeta
