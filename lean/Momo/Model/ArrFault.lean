import Momo.Model.Arr
/-
  Fault-parametric model of `momo::Array` / `ArrayIntCap` (C04, C10): the operations of Array.h as written,
  where every fallible step consumes one decision of an explicit fault schedule and an exception unwinds
  exactly as the C++ does (catch blocks, destructors of local guards, destructor of a completely constructed
  member when a constructor body throws).

  Fallible steps
    * memory manager: `Allocate` (`Data(capacity)`, `Data::Reset`), `Reallocate` (`Data::pvReallocate`);
      `ReallocateInplace` is `noexcept` - its answer is the `oracle` of `Momo.Arr.State`, not a fault
    * element: copy construction / construction from arguments (every `Creator<const Item&>`, the creator of
      `SetCount`), when `Thr.copy`; construction from an rvalue when `Thr.move` and the type is not
      nothrow-move-constructible; copy and move *assignment* (`ItemTraits::Assign`) when `Thr.assign`
    * not fallible: destruction, relocation of a nothrow-relocatable type, item filters.
  A throwing element operation leaves its operands as they were (the element's own constructor / assignment
  is strongly exception-safe) - this is an assumption about the element type, as in `Momo.Obj`.

  State (`Sys`): the `Array::Data` under operation (`Momo.Arr.State`: constructed cells `live v | moved`,
  capacity, internal/external storage) plus the world around it: the fault schedule, the *ledger* - outstanding
  memory blocks (sizes in items), number of constructed-and-not-yet-destroyed item objects (slots of the array,
  `ArrayItemHandler` / `ObjectBuffer` temporaries, items already built in a new storage), a flag `bad` set by a
  deallocation of a block that is not outstanding or a destruction without an outstanding object - and the trace
  of memory-manager calls.  "Nothing leaked, nothing destroyed twice" = the ledger is exactly what the state owns.

  Fault-free definitions are not duplicated: capacities, aliasing tests, cell-level effects (`Ref.read`,
  `Ref.taken`, `addBackMove`, `assignMove`, `assignFrom`, `addBackFrom`, `growCapacity`, `capacity`, `removeBack`,
  `aliasAtOrAfter` ...) are those of `Momo/Model/Arr.lean`; `Momo/Proof/ArrFault*.lean` proves that a run without
  a fault yields the state and the memory-manager calls of the `Momo.Arr` operation.
  Core Lean only (linked into the driver).
-/
namespace Momo.ArrF
open Momo Momo.Arr

variable {α β γ : Type}

/-- which element operations of the item type can throw -/
structure Thr where
  /-- copy constructor / constructor from arguments -/
  copy : Bool := true
  /-- construction from an rvalue (ignored for a nothrow-move-constructible type) -/
  move : Bool := false
  /-- copy assignment and move assignment -/
  assign : Bool := false
deriving Repr, DecidableEq

/-- construction from an rvalue can throw -/
def mvThrows (cfg : Cfg) (thr : Thr) : Bool := thr.move && !cfg.nothrowMove

/-- `Creator<Item&&>` (`mv`) / `Creator<const Item&>` can throw -/
def ctorThrows (cfg : Cfg) (thr : Thr) (mv : Bool) : Bool := if mv then mvThrows cfg thr else thr.copy

/-- a memory-manager call that was answered / refused (threw `std::bad_alloc`) -/
inductive MEv where
  | did (e : Ev)
  | refused (e : Ev)
deriving DecidableEq, Repr

/-- the array under operation and the world around it -/
structure Sys (α : Type) where
  arr : State α
  /-- decisions still to be consumed (`true` = that step throws; exhausted = no more faults) -/
  faults : List Bool := []
  /-- outstanding memory blocks, sizes in items -/
  blocks : List Nat := []
  /-- constructed item objects not yet destroyed -/
  objs : Nat := 0
  /-- a block was deallocated that was not outstanding / an object destroyed that did not exist -/
  bad : Bool := false
  /-- memory-manager calls, oldest first -/
  evs : List MEv := []

inductive Res (β : Type) where
  | ok (b : β)
  | threw
deriving Repr

/-- computations that may throw: exception + state monad over `Sys` -/
structure FM (α β : Type) where
  run : Sys α → Res β × Sys α

namespace FM
def pure (b : β) : FM α β := ⟨fun x => (.ok b, x)⟩
def bind (m : FM α β) (f : β → FM α γ) : FM α γ := ⟨fun x =>
  match m.run x with
  | (.ok b, y) => (f b).run y
  | (.threw, y) => (.threw, y)⟩
/-- `throw;` -/
def throw : FM α β := ⟨fun x => (.threw, x)⟩
/-- `try { m } catch (...) { h }` (`h` normally ends with `throw`) -/
def tryCatch (m : FM α β) (h : FM α β) : FM α β := ⟨fun x =>
  match m.run x with
  | (.ok b, y) => (.ok b, y)
  | (.threw, y) => h.run y⟩
end FM

instance : Monad (FM α) where
  pure := FM.pure
  bind := FM.bind

open FM (throw tryCatch)

/-! ## primitives -/

def getArr : FM α (State α) := ⟨fun x => (.ok x.arr, x)⟩
def setArr (s : State α) : FM α Unit := ⟨fun x => (.ok (), { x with arr := s })⟩
def modifyCells (f : Cells α → Cells α) : FM α Unit :=
  ⟨fun x => (.ok (), { x with arr := { x.arr with cells := f x.arr.cells } })⟩

/-- next decision of a schedule -/
def nextFault : List Bool → Bool × List Bool
  | [] => (false, [])
  | f :: fs => (f, fs)

/-- a step that can throw when `fallible` -/
def tick (fallible : Bool) : FM α Unit := ⟨fun x =>
  if fallible then
    if (nextFault x.faults).1 then (.threw, { x with faults := (nextFault x.faults).2 })
    else (.ok (), { x with faults := (nextFault x.faults).2 })
  else (.ok (), x)⟩

/-- one more constructed object -/
def born : FM α Unit := ⟨fun x => (.ok (), { x with objs := x.objs + 1 })⟩

/-- a constructor call -/
def construct (fallible : Bool) : FM α Unit := do
  tick fallible
  born

/-- `ItemTraits::Destroy(memManager, items, k)` -/
def destroyObjs (k : Nat) : FM α Unit :=
  ⟨fun x => (.ok (), { x with objs := x.objs - k, bad := x.bad || decide (x.objs < k) })⟩

/-- `MemManagerProxy::Allocate` -/
def allocB (n : Nat) : FM α Unit := ⟨fun x =>
  if (nextFault x.faults).1 then
    (.threw, { x with faults := (nextFault x.faults).2, evs := x.evs ++ [.refused (.alloc n)] })
  else
    (.ok (), { x with faults := (nextFault x.faults).2, blocks := n :: x.blocks, evs := x.evs ++ [.did (.alloc n)] })⟩

/-- `MemManagerProxy::Deallocate` -/
def deallocB (n : Nat) : FM α Unit := ⟨fun x =>
  (.ok (), { x with blocks := x.blocks.erase n, bad := x.bad || !x.blocks.contains n, evs := x.evs ++ [.did (.dealloc n)] })⟩

/-- `MemManagerProxy::Reallocate` (MemManager.h:433-443): no manager call when the size stays the same -/
def reallocB (old new : Nat) : FM α Unit := ⟨fun x =>
  if old = new then (.ok (), x)
  else if (nextFault x.faults).1 then
    (.threw, { x with faults := (nextFault x.faults).2, evs := x.evs ++ [.refused (.realloc old new)] })
  else
    (.ok (), { x with faults := (nextFault x.faults).2, blocks := new :: x.blocks.erase old,
                      bad := x.bad || !x.blocks.contains old, evs := x.evs ++ [.did (.realloc old new)] })⟩

/-- `memManager.ReallocateInplace` (noexcept) answering `ok` -/
def inplaceB (old new : Nat) (ok : Bool) : FM α Unit := ⟨fun x =>
  (.ok (), { x with blocks := if ok then new :: x.blocks.erase old else x.blocks,
                    bad := x.bad || (ok && !x.blocks.contains old), evs := x.evs ++ [.did (.inplace old new ok)] })⟩

/-- a loop `for (; index < n; ++index) construct(...)` inside a `try`: number of objects built and whether
    the loop was left by an exception (the `catch` block that follows uses `index`) -/
def ctorLoop (fallible : Bool) : Nat → Nat → FM α (Nat × Bool)
  | 0, done => FM.pure (done, false)
  | n+1, done => ⟨fun x =>
    match (construct fallible).run x with
    | (.ok _, y) => (ctorLoop fallible n (done + 1)).run y
    | (.threw, y) => (.ok (done, true), y)⟩

/-- `catch (...) { Destroy(items, k); throw; }` -/
def undo (k : Nat) : FM α β := do
  destroyObjs k
  throw

/-! ## `Array::Data` -/

/-- `Data::Reallocate(capacityLin, capacityExp)` (Array.h:299-314, 430-460) -/
def reallocateF (cfg : Cfg) (lin exp : Nat) : FM α Bool := do
  let s ← getArr
  if capacity cfg s = cfg.intCap then pure false
  else if lin ≤ cfg.intCap || exp ≤ cfg.intCap then pure false
  else if (!cfg.canRealloc || lin < exp) && cfg.canInplace then
    if s.cap = lin then pure true
    else if s.oracle then do
      inplaceB s.cap lin true
      setArr { s with cap := lin }
      pure true
    else do
      inplaceB s.cap lin false
      if cfg.canRealloc then do
        reallocB s.cap exp
        setArr { s with cap := exp }
        pure true
      else pure false
  else if cfg.canRealloc then do
    reallocB s.cap exp
    setArr { s with cap := exp }
    pure true
  else pure false

/-- `Data::Reset(capacity, count, itemsCreator)` (Array.h:316-342, pvReset 462-484); the creator builds the
    items of the new storage (and disposes of the old ones) and returns them -/
def resetF (cfg : Cfg) (newCap : Nat) (creator : FM α (Cells α)) : FM α Unit := do
  let s ← getArr
  if newCap > cfg.intCap then do
    allocB newCap
    let newCells ← tryCatch creator (do deallocB newCap; throw)
    if capacity cfg s > cfg.intCap then deallocB s.cap else pure ()
    setArr { s with cells := newCells, cap := newCap, internal := false }
  else if cfg.intCap > 0 then do
    let newCells ← creator
    deallocB s.cap
    setArr { s with cells := newCells, internal := true }
  else do
    if capacity cfg s > cfg.intCap then deallocB s.cap else pure ()
    setArr { s with cells := [], cap := 0, internal := false }

/-- `ItemTraits::Relocate(memManager, GetItems(), newItems, count)` as an items creator
    (ObjectManager.h:350-357, pvRelocate 486-506, pvRelocateExec 516-535): a nothrow-relocatable type cannot
    fail; otherwise items `1 .. count)` are copied, item 0 is constructed from `std::move(*srcBegin)`, a failure
    destroys the copies, success destroys the sources -/
def relocateF (cfg : Cfg) (thr : Thr) : FM α (Cells α) := do
  let s ← getArr
  if cfg.nothrowReloc then pure s.cells
  else if s.cells.length = 0 then pure s.cells
  else do
    let r ← ctorLoop thr.copy (s.cells.length - 1) 0
    if r.2 then undo r.1
    else do
      tryCatch (construct (mvThrows cfg thr)) (undo (s.cells.length - 1))
      destroyObjs (s.cells.length - 1)
      destroyObjs 1
      pure s.cells

/-- `if (!mData.Reallocate(lin, exp)) mData.Reset(exp, count, Relocate)` - tail of `pvGrow` and `Shrink` -/
def moveToF (cfg : Cfg) (thr : Thr) (lin exp : Nat) : FM α Unit := do
  let ok ← reallocateF cfg lin exp
  if ok then pure () else resetF cfg exp (relocateF cfg thr)

/-- `Array::pvGrow(minNewCapacity, growCause)` (Array.h:990-1002) -/
def growF (cfg : Cfg) (thr : Thr) (minNew : Nat) (reserve : Bool) : FM α Unit := do
  let s ← getArr
  moveToF cfg thr (growCapacity cfg.growOnReserve (capacity cfg s) minNew reserve true)
    (growCapacity cfg.growOnReserve (capacity cfg s) minNew reserve false)

/-! ## append -/

/-- `pvAddBackNogrow(itemCreator)` (Array.h:1004-1010): `creator(items + count); SetCount(count + 1)`;
    `f` = effect on the cells (new item appended, argument possibly moved from) -/
def addBackNogrowF (fallible : Bool) (f : Cells α → Cells α) : FM α Unit := do
  construct fallible
  modifyCells f

/-- `ItemTraits::RelocateCreate(memManager, GetItems(), newItems, initCount, itemCreator, newItems + initCount)`
    as the items creator of `pvAddBackGrow(ItemCreator&&)` (ObjectManager.h:359-366, pvRelocateExec 508-535) -/
def relocateCreateF (cfg : Cfg) (thr : Thr) (mv : Bool) (item : Ref α) : FM α (Cells α) := do
  let s ← getArr
  if cfg.nothrowReloc then do
    -- the creator runs first (its argument may live in the old storage), the relocation cannot fail
    construct (ctorThrows cfg thr mv)
    pure (item.taken cfg.keeps mv s.cells ++ [item.read s.cells])
  else do
    let r ← ctorLoop thr.copy s.cells.length 0
    if r.2 then undo r.1
    else do
      tryCatch (construct (ctorThrows cfg thr mv)) (undo s.cells.length)
      destroyObjs s.cells.length
      pure (s.cells ++ [item.read s.cells])

/-- `pvAddBackGrow(ItemCreator&&)` (Array.h:1012-1024) -/
def addBackGrowCrtF (cfg : Cfg) (thr : Thr) (mv : Bool) (item : Ref α) : FM α Unit := do
  let s ← getArr
  resetF cfg (growCapacity cfg.growOnReserve (capacity cfg s) (s.cells.length + 1) false false)
    (relocateCreateF cfg thr mv item)

/-- `AddBackCrt` / `AddBackVar` (Array.h:813-827) -/
def addBackCrtF (cfg : Cfg) (thr : Thr) (mv : Bool) (item : Ref α) : FM α Unit := do
  let s ← getArr
  if s.cells.length < capacity cfg s then
    addBackNogrowF (ctorThrows cfg thr mv) (fun cs => item.taken cfg.keeps mv cs ++ [item.read cs])
  else addBackGrowCrtF cfg thr mv item

/-- `AddBack(const Item&)` (Array.h:842-853, pvAddBackGrow 1051-1080) -/
def addBackCopyF (cfg : Cfg) (thr : Thr) (item : Ref α) : FM α Unit := do
  let s ← getArr
  if s.cells.length < capacity cfg s then addBackNogrowF thr.copy (fun cs => cs ++ [item.read cs])
  else if cfg.nothrowReloc then do
    -- copy into `itemBuffer`; try { pvGrow } catch { Destroy(&itemBuffer); throw }; relocate the buffer to the end
    construct thr.copy
    tryCatch (growF cfg thr (s.cells.length + 1) false) (undo 1)
    modifyCells (fun cs => cs ++ [item.read s.cells])
  else addBackGrowCrtF cfg thr false item

/-- `AddBack(Item&&)` (Array.h:829-840, pvAddBackGrow 1026-1049) -/
def addBackMoveF (cfg : Cfg) (thr : Thr) (item : Ref α) : FM α Unit := do
  let s ← getArr
  if s.cells.length < capacity cfg s then
    addBackNogrowF (mvThrows cfg thr) (fun cs => item.moveFrom cfg.keeps cs ++ [item.read cs])
  else if cfg.nothrowMove then do
    -- itemIndex = pvIndexOf(item); pvGrow; construct from std::move(items[itemIndex]) (or from item)
    growF cfg thr (s.cells.length + 1) false
    construct (mvThrows cfg thr)
    modifyCells (fun cs => item.moveFrom cfg.keeps cs ++ [item.read cs])
  else addBackGrowCrtF cfg thr true item

/-! ## SetCount / Reserve / Shrink -/

/-- the new items of `SetCountCrt` built in the new storage, then `Relocate`; one `catch` destroys the new items -/
def setCountCreatorF (cfg : Cfg) (thr : Thr) (extra : Nat) (c : Cell α) : FM α (Cells α) := do
  let r ← ctorLoop thr.copy extra 0
  if r.2 then undo r.1
  else do
    let cs ← tryCatch (relocateF cfg thr) (undo extra)
    pure (cs ++ List.replicate extra c)

/-- `SetCountCrt(count, itemMultiCreator)` (Array.h:655-702) with the creator of `SetCount(count, item)` -/
def setCountF (cfg : Cfg) (thr : Thr) (count : Nat) (item : Ref α) : FM α Unit := do
  let s ← getArr
  if count ≤ s.cells.length then do
    destroyObjs (s.cells.length - count)
    setArr (removeBack s (s.cells.length - count))
  else if count ≤ capacity cfg s then do
    let r ← ctorLoop thr.copy (count - s.cells.length) 0
    if r.2 then undo r.1
    else modifyCells (fun cs => cs ++ List.replicate (count - s.cells.length) (item.read s.cells))
  else
    resetF cfg (growCapacity cfg.growOnReserve (capacity cfg s) count true false)
      (setCountCreatorF cfg thr (count - s.cells.length) (item.read s.cells))

/-- `Reserve(capacity)` (Array.h:740-744) -/
def reserveF (cfg : Cfg) (thr : Thr) (n : Nat) : FM α Unit := do
  let s ← getArr
  if n > capacity cfg s then growF cfg thr n true else pure ()

/-- `Shrink(capacity)` (Array.h:751-765) -/
def shrinkF (cfg : Cfg) (thr : Thr) (n : Nat) : FM α Unit := do
  let s ← getArr
  if capacity cfg s ≤ n || capacity cfg s = cfg.intCap then pure ()
  else moveToF cfg thr (Nat.max n s.cells.length) (Nat.max n s.cells.length)

/-! ## ArrayShifter: the loops as programs of primitive steps -/

/-- one statement of a shifter loop body -/
inductive Prim (α : Type) where
  /-- `array.AddBackNogrow(std::move(array[i]))` -/
  | addBackMove (i : Nat)
  /-- `ItemTraits::Assign(memManager, std::move(array[src]), array[dst])` -/
  | assignMove (src dst : Nat)
  /-- `ItemTraits::Assign(memManager, *iter, array[i])` / `Assign(memManager, item, array[i])` -/
  | assignFrom (mv : Bool) (r : Ref α) (i : Nat)
  /-- `array.AddBackNogrowCrt(IterCreator(memManager, *iter))` / `array.AddBackNogrow(item)` -/
  | addBackFrom (mv : Bool) (r : Ref α)

/-- effect of a statement that completes -/
def Prim.apply (keeps : Bool) (a : Cells α) : Prim α → Cells α
  | .addBackMove i => Arr.addBackMove keeps a i
  | .assignMove src dst => Arr.assignMove keeps a src dst
  | .assignFrom mv r i => Arr.assignFrom keeps mv a r i
  | .addBackFrom mv r => Arr.addBackFrom keeps mv a r

/-- the statement constructs a new last item -/
def Prim.adds : Prim α → Bool
  | .addBackMove _ => true
  | .addBackFrom _ _ => true
  | _ => false

/-- the statement can throw -/
def Prim.throws (cfg : Cfg) (thr : Thr) : Prim α → Bool
  | .addBackMove _ => mvThrows cfg thr
  | .assignMove _ _ => thr.assign
  | .assignFrom _ _ _ => thr.assign
  | .addBackFrom mv _ => ctorThrows cfg thr mv

def execPrim (cfg : Cfg) (thr : Thr) (p : Prim α) : FM α Unit := do
  tick (p.throws cfg thr)
  if p.adds then born else pure ()
  modifyCells (fun cs => p.apply cfg.keeps cs)

/-- the statements run one after the other; no `try` anywhere in `ArrayShifter` -/
def execPrims (cfg : Cfg) (thr : Thr) : List (Prim α) → FM α Unit
  | [] => pure ()
  | p :: ps => do
    execPrim cfg thr p
    execPrims cfg thr ps

/-- fault-free run of a program -/
def runPrims (keeps : Bool) : Cells α → List (Prim α) → Cells α
  | a, [] => a
  | a, p :: ps => runPrims keeps (p.apply keeps a) ps

/-- `Arr.loop1` -/
def prog1 (i : Nat) : Nat → List (Prim α)
  | 0 => []
  | c+1 => .addBackMove i :: prog1 (i+1) c

/-- `Arr.loop2` -/
def prog2 (count : Nat) (i : Nat) : Nat → List (Prim α)
  | 0 => []
  | f+1 => .assignMove (i-1) (i+count-1) :: prog2 count (i-1) f

/-- `Arr.loop3` -/
def prog3 (item : Ref α) (i : Nat) : Nat → List (Prim α)
  | 0 => []
  | c+1 => .assignFrom false item i :: prog3 item (i+1) c

/-- `Arr.loopA` -/
def progA (item : Ref α) : Nat → List (Prim α)
  | 0 => []
  | c+1 => .addBackFrom false item :: progA item c

/-- `Arr.loopB` -/
def progB (item : Ref α) (i : Nat) : Nat → List (Prim α)
  | 0 => []
  | c+1 => .addBackMove i :: .assignFrom false item i :: progB item (i+1) c

/-- `ArrayShifter::InsertNogrow(array, index, count, const Item& item)` on an array of `n` items -/
def progN (n index count : Nat) (item : Ref α) : List (Prim α) :=
  if count = 0 then []
  else if index + count < n then
    prog1 (n - count) count ++ prog2 count (n - count) (n - count - index) ++ prog3 item index count
  else progA item (index + count - n) ++ progB item index (n - index)

/-- `Arr.loop3R` -/
def prog3R (mv : Bool) : List (Ref α) → Nat → List (Prim α)
  | [], _ => []
  | r :: rs, i => .assignFrom mv r i :: prog3R mv rs (i+1)

/-- `Arr.loopAR` -/
def progAR (mv : Bool) : List (Ref α) → List (Prim α)
  | [] => []
  | r :: rs => .addBackFrom mv r :: progAR mv rs

/-- `Arr.loopBR` -/
def progBR (mv : Bool) : Nat → List (Ref α) → Nat → List (Prim α)
  | 0, _, _ => []
  | _+1, [], _ => []
  | c+1, r :: rs, i => .addBackMove i :: .assignFrom mv r i :: progBR mv c rs (i+1)

/-- `ArrayShifter::InsertNogrow(array, index, begin, count)` (forward iterators) on an array of `n` items -/
def progR (mv : Bool) (n index : Nat) (rs : List (Ref α)) : List (Prim α) :=
  if rs.length = 0 then []
  else if index + rs.length < n then
    prog1 (n - rs.length) rs.length ++ prog2 rs.length (n - rs.length) (n - rs.length - index) ++ prog3R mv rs index
  else progBRA mv n index rs
where
  /-- second branch: the tail of the range is appended first, then the head is shifted in -/
  progBRA (mv : Bool) (n index : Nat) (rs : List (Ref α)) : List (Prim α) :=
    progAR mv (rs.drop (n - index)) ++ progBR mv (n - index) rs index

/-- `Arr.loopRem` -/
def progRem (count : Nat) (i : Nat) : Nat → List (Prim α)
  | 0 => []
  | f+1 => .assignMove i (i - count) :: progRem count (i+1) f

/-- `ArrayShifter::InsertNogrow(array, index, count, item)` -/
def shiftNF (cfg : Cfg) (thr : Thr) (index count : Nat) (item : Ref α) : FM α Unit := do
  let s ← getArr
  execPrims cfg thr (progN s.cells.length index count item)

/-- `ArrayShifter::InsertNogrow(array, index, begin, count)` / `InsertNogrow(array, index, Item&&)` -/
def shiftRF (cfg : Cfg) (thr : Thr) (mv : Bool) (index : Nat) (rs : List (Ref α)) : FM α Unit := do
  let s ← getArr
  execPrims cfg thr (progR mv s.cells.length index rs)

/-- `pvRemoveBack(count)` (noexcept) -/
def removeBackF (count : Nat) : FM α Unit := do
  let s ← getArr
  destroyObjs count
  setArr (removeBack s count)

/-! ## positional insert / remove (basic guarantee) -/

/-- `InsertCrt` / `InsertVar` (Array.h:855-870): the new item lives in an `ArrayItemHandler` (destroyed when the
    scope is left, normally or by an exception) -/
def insertCrtF (cfg : Cfg) (thr : Thr) (index : Nat) (mv : Bool) (item : Ref α) : FM α Unit := do
  let s ← getArr
  construct (ctorThrows cfg thr mv)
  modifyCells (fun cs => item.taken cfg.keeps mv cs)
  tryCatch (do
      if s.cells.length + 1 > capacity cfg s then growF cfg thr (s.cells.length + 1) false else pure ()
      shiftRF cfg thr true index [.ext (item.read s.cells)])
    (undo 1)
  destroyObjs 1

/-- `Insert(index, Item&&)` (Array.h:872-881) -/
def insertMoveF (cfg : Cfg) (thr : Thr) (index : Nat) (item : Ref α) : FM α Unit := do
  let s ← getArr
  if s.cells.length + 1 > capacity cfg s || aliasAtOrAfter s index item then insertCrtF cfg thr index true item
  else shiftRF cfg thr true index [item]

/-- `Insert(index, count, const Item&)` (Array.h:888-907) -/
def insertNF (cfg : Cfg) (thr : Thr) (index count : Nat) (item : Ref α) : FM α Unit := do
  let s ← getArr
  if s.cells.length + count > capacity cfg s then do
    construct thr.copy
    tryCatch (do
        growF cfg thr (s.cells.length + count) false
        shiftNF cfg thr index count (.ext (item.read s.cells)))
      (undo 1)
    destroyObjs 1
  else if aliasAtOrAfter s index item then do
    construct thr.copy
    tryCatch (shiftNF cfg thr index count (.ext (item.read s.cells))) (undo 1)
    destroyObjs 1
  else shiftNF cfg thr index count item

/-- `pvInsert` for forward iterators (Array.h:1082-1091) -/
def insertRangeF (cfg : Cfg) (thr : Thr) (index : Nat) (xs : List (Cell α)) : FM α Unit := do
  let s ← getArr
  if s.cells.length + xs.length > capacity cfg s then growF cfg thr (s.cells.length + xs.length) false else pure ()
  shiftRF cfg thr false index (xs.map .ext)

/-- `Remove(index, count)` = `ArrayShifter::Remove(array, index, count)` (ArrayUtility.h:277-287) -/
def removeF (cfg : Cfg) (thr : Thr) (index count : Nat) : FM α Unit := do
  let s ← getArr
  if count = 0 then pure ()
  else do
    execPrims cfg thr (progRem count (index + count) (s.cells.length - (index + count)))
    removeBackF count

/-- second loop of `ArrayShifter::Remove(array, itemFilter)`; the filter reads the current items -/
def loopFiltF (cfg : Cfg) (thr : Thr) (p : Cell α → Bool) (newCount i : Nat) : Nat → FM α Nat
  | 0 => pure newCount
  | f+1 => do
    let s ← getArr
    if p (cellAt s.cells i) then loopFiltF cfg thr p newCount (i+1) f
    else do
      execPrim cfg thr (.assignMove i newCount)
      loopFiltF cfg thr p (newCount+1) (i+1) f

/-- `Remove(itemFilter)` = `ArrayShifter::Remove(array, itemFilter)` (ArrayUtility.h:289-307): returns `remCount` -/
def removeIfF (cfg : Cfg) (thr : Thr) (p : Cell α → Bool) : FM α Nat := do
  let s ← getArr
  let newCount ← loopFiltF cfg thr p (firstHit p s.cells 0 s.cells.length) (firstHit p s.cells 0 s.cells.length + 1)
    (s.cells.length - (firstHit p s.cells 0 s.cells.length + 1))
  removeBackF (s.cells.length - newCount)
  pure (s.cells.length - newCount)

/-! ## constructors, copy assignment -/

/-- `Data(capacity, memManager)` (Array.h:215-229) into `arr` -/
def newCapF (cfg : Cfg) (n : Nat) : FM α Unit :=
  if n > cfg.intCap then do
    allocB n
    setArr { cells := [], cap := n, internal := false }
  else setArr (State.init cfg)

/-- `~Data()` = `pvDestroy()` of the object under construction -/
def destroyDataF (cfg : Cfg) : FM α Unit := do
  let s ← getArr
  destroyObjs s.cells.length
  if capacity cfg s > cfg.intCap then deallocB s.cap else pure ()
  setArr { State.init cfg with oracle := s.oracle }

/-- `for (const Item& item : array) AddBackNogrow(item);` -/
def copyAllF (thr : Thr) : List (Cell α) → FM α Unit
  | [] => pure ()
  | c :: cs => do
    addBackNogrowF thr.copy (fun a => a ++ [c])
    copyAllF thr cs

/-- `Array(const Array&, bool shrink)` (Array.h:553-563), `Array(count, item)` (524-529), `Array(begin, end)`
    (960-969) all have this shape: `mData(capacity)`, then a loop of `AddBackNogrow` in the constructor body; when
    the body throws the completely constructed member `mData` is destroyed.  Constructs into `arr`. -/
def newFromF (cfg : Cfg) (thr : Thr) (capacity0 : Nat) (xs : List (Cell α)) : FM α Unit := do
  newCapF cfg capacity0
  tryCatch (copyAllF thr xs) (do destroyDataF cfg; throw)

/-- `Array(const Array& array, bool shrink)` -/
def copyCtorF (cfg : Cfg) (thr : Thr) (src : State α) (shrinkFlag : Bool) : FM α Unit :=
  newFromF cfg thr (if shrinkFlag then src.cells.length else capacity cfg src) src.cells

/-- `Array(count, item, memManager)`; `item` refers to an object outside the new array -/
def newFillF (cfg : Cfg) (thr : Thr) (count : Nat) (c : Cell α) : FM α Unit :=
  newFromF cfg thr count (List.replicate count c)

/-- run `m` on a temporary `Array` object; the temporary's final `Data` is returned -/
def onTemp (m : FM α Unit) : FM α (State α) := ⟨fun x =>
  match m.run { x with arr := {} } with
  | (.ok _, y) => (.ok y.arr, { y with arr := x.arr })
  | (.threw, y) => (.threw, { y with arr := x.arr })⟩

/-- `operator=(const Array&)` (Array.h:593-598) for two different objects: `*this = Array(array)`; the move
    assignment `Data::operator=(Data&&)` (244-253) is `noexcept`: `pvDestroy(); pvInit(std::move(data))` -/
def copyAssignF (cfg : Cfg) (thr : Thr) (src : State α) : FM α Unit := do
  let t ← onTemp (copyCtorF cfg thr src true)
  let d ← getArr
  destroyObjs d.cells.length
  if capacity cfg d > cfg.intCap then deallocB d.cap else pure ()
  setArr { cells := t.cells, cap := t.cap, internal := t.internal, oracle := d.oracle }

/-! ## operations as data (driver, theorems about "any operation") -/

inductive FOp (α : Type) where
  | addBackCopy (item : Ref α)
  | addBackMove (item : Ref α)
  | addBackCrt (mv : Bool) (item : Ref α)
  | setCount (count : Nat) (item : Ref α)
  | reserve (n : Nat)
  | shrink (n : Nat)
  | insertCrt (index : Nat) (mv : Bool) (item : Ref α)
  | insertMove (index : Nat) (item : Ref α)
  | insertN (index count : Nat) (item : Ref α)
  | insertRange (index : Nat) (xs : List (Cell α))
  | remove (index count : Nat)
  | removeIf (p : Cell α → Bool)
  | copyAssign (src : State α)

def stepF (cfg : Cfg) (thr : Thr) : FOp α → FM α Unit
  | .addBackCopy item => addBackCopyF cfg thr item
  | .addBackMove item => addBackMoveF cfg thr item
  | .addBackCrt mv item => addBackCrtF cfg thr mv item
  | .setCount count item => setCountF cfg thr count item
  | .reserve n => reserveF cfg thr n
  | .shrink n => shrinkF cfg thr n
  | .insertCrt index mv item => insertCrtF cfg thr index mv item
  | .insertMove index item => insertMoveF cfg thr index item
  | .insertN index count item => insertNF cfg thr index count item
  | .insertRange index xs => insertRangeF cfg thr index xs
  | .remove index count => removeF cfg thr index count
  | .removeIf p => do let _ ← removeIfF cfg thr p; pure ()
  | .copyAssign src => copyAssignF cfg thr src

/-- documented as strongly exception-safe (Array.h:181-186: everything except Insert*, Remove) -/
def FOp.strong : FOp α → Bool
  | .insertCrt .. | .insertMove .. | .insertN .. | .insertRange .. | .remove .. | .removeIf .. => false
  | _ => true

/-- the `Momo.Arr` (fault-free) counterpart of an operation: state and memory-manager calls -/
def pureStep (cfg : Cfg) (s : State α) : FOp α → State α × List Ev
  | .addBackCopy item => Arr.addBackCopy cfg s item
  | .addBackMove item => Arr.addBackMoveOp cfg s item
  | .addBackCrt mv item => Arr.addBackCrt cfg s mv item
  | .setCount count item => Arr.setCount cfg s count item
  | .reserve n => Arr.reserve cfg s n
  | .shrink n => Arr.shrink cfg s n
  | .insertCrt index mv item => Arr.insertCrt cfg s index mv item
  | .insertMove index item => Arr.insertMove cfg s index item
  | .insertN index count item => Arr.insertN cfg s index count item
  | .insertRange index xs => Arr.insertRange cfg s index xs
  | .remove index count => (Arr.removeOp cfg s index count, [])
  | .removeIf p => ((Arr.removeIfOp cfg s p).1, [])
  | .copyAssign src => Arr.copyAssign cfg s src

/-- the blocks an `Array::Data` owns -/
def ownBlocks (cfg : Cfg) (s : State α) : List Nat := if capacity cfg s > cfg.intCap then [s.cap] else []

end Momo.ArrF
