import Momo.Extracted
import Momo.Model.Probe
/-
  Byte-level model of the two open-addressing bucket classes that keep one state byte per bucket (C13, C01):
    * BucketOpenN1<ItemTraits, maxCount, reverse>     (details/HashBucketOpenN1.h)
        `uint8_t mData[maxCount + 1]`: bytes 0 .. maxCount-1 are the short hashes (`pvGetShortHashes()`), the byte of the LAST
        logical slot doubles as the state byte (`pvGetState()`: `emptyShortHash + count` while the bucket is not full, the
        short hash of the last item once it is), byte `maxCount` is the max-probe exponent (model: `Probe.upd3`).
        ptCalcShortHash, pvGetState, pvGetShortHash, ptGetItemPtr, pvGetCount, pvSetEmpty / Clear, IsFull, WasFull, AddCrt,
        Remove (with its compaction), UpdateMaxProbe, Find (the loop over the physical indices 0, 1, .. maxCount-1).
    * BucketOpen8<ItemTraits> = BucketOpenN1<ItemTraits, 7, false> with a word-wide Find (details/HashBucketOpen8.h)
        MOMO_USE_SSE2:  `_mm_movemask_epi8(_mm_cmpeq_epi8(set1(shortHash), set_epi64x(0, 8 bytes of mData)))`, by the
                        specification of the two intrinsics bit j of the mask = (byte j equals shortHash); `& ((1 << 7) - 1)`;
                        candidates taken with `pvCountTrailingZeros15`, `mask &= mask - 1`
        otherwise:      the 64-bit SWAR expression exactly as written (`swarMask`), candidates `MOMO_CTZ64(mask) >> 3`,
                        `mask &= mask - 1`.
  Item slots are PHYSICAL indices into `mItems[maxCount]`; the LOGICAL index of an item (its position in `GetBounds`,
  which is the storage order of the C01 model `HT.Bucket.items`) is `ptGetItemPtr`: logical i sits in physical slot
  `reverse ? maxCount - 1 - i : i`. `itemPred` is a parameter `pred : physical slot → Bool`.
  Core Lean only (no Mathlib): this file is linked into the driver.
-/
namespace Momo.OpenB
open Momo

/-- `static_cast<uint8_t>` -/
def u8 (x : Nat) : Nat := x % 256

/-- array write `a[i] = v` on a byte array represented as a function -/
def upd (f : Nat → Nat) (i v : Nat) : Nat → Nat := fun j => if j = i then v else f j

@[reducible] def emptyShortHash : Nat := Extracted.openN1EmptyShortHash

/-- `ptCalcShortHash` (HashBucketOpenN1.h): `hashCode24 = uint32_t(hashCode >> (64 - 24))`,
    `uint8_t((hashCode24 * uint32_t{emptyShortHash}) >> 24)`; the multiplication is a `uint32_t` one (mod 2^32) -/
def calcShortHash (h : Nat) : Nat :=
  u8 ((((h >>> (64 - Extracted.openN1ShortHashBits)) % 2 ^ 32) * emptyShortHash % 2 ^ 32) >>> Extracted.openN1ShortHashShift)

/-- `ptGetItemPtr(index)` / `pvGetShortHash(index)`: physical slot of logical index `i` -/
def phys (maxCount : Nat) (reverse : Bool) (i : Nat) : Nat := if reverse then maxCount - 1 - i else i

/-- the bytes `mData[0 .. maxCount]` of one bucket -/
structure Bucket where
  maxCount : Nat
  reverse : Bool
  data : Nat → Nat

namespace Bucket

def pos (b : Bucket) (i : Nat) : Nat := phys b.maxCount b.reverse i

/-- index of `pvGetState()`: `mData[reverse ? 0 : maxCount - 1]` -/
def stateIdx (b : Bucket) : Nat := if b.reverse then 0 else b.maxCount - 1

def state (b : Bucket) : Nat := b.data b.stateIdx

/-- `pvGetMaxProbeExp()`: `mData[maxCount]` -/
def maxProbeExp (b : Bucket) : Nat := b.data b.maxCount

/-- `pvGetCount`: `(state >= emptyShortHash) ? state - emptyShortHash : maxCount` -/
def count (b : Bucket) : Nat := if b.state ≥ emptyShortHash then b.state - emptyShortHash else b.maxCount

/-- constructor / `Clear` (`pvSetEmpty`): `fill_n(mData, maxCount, emptyShortHash)`, `mData[maxCount] = 0` -/
def new (maxCount : Nat) (reverse : Bool) : Bucket :=
  { maxCount := maxCount, reverse := reverse, data := fun j => if j < maxCount then emptyShortHash else 0 }

/-- `IsFull`: `pvGetState() < emptyShortHash` -/
def isFull (b : Bucket) : Bool := b.state < emptyShortHash

/-- `WasFull`: `true` -/
def wasFull (_ : Bucket) : Bool := true

/-- the byte writes of `AddCrt`: `pvGetShortHash(count) = ptCalcShortHash(hashCode); if (count + 1 < maxCount) ++pvGetState();` -/
def addBytes (b : Bucket) (h : Nat) : Nat → Nat :=
  if b.count + 1 < b.maxCount then
    upd (upd b.data (b.pos b.count) (calcShortHash h)) b.stateIdx
      (u8 ((upd b.data (b.pos b.count) (calcShortHash h)) b.stateIdx + 1))
  else upd b.data (b.pos b.count) (calcShortHash h)

/-- `AddCrt` (metadata) -/
def addCrt (b : Bucket) (h : Nat) : Bucket := { b with data := b.addBytes h }

/-- the two compaction writes of `Remove`:
    `pvGetShortHash(index) = pvGetShortHash(count - 1); pvGetShortHash(count - 1) = emptyShortHash;` -/
def compact (b : Bucket) (index : Nat) : Nat → Nat :=
  upd (upd b.data (b.pos index) (b.data (b.pos (b.count - 1)))) (b.pos (b.count - 1)) emptyShortHash

/-- the byte writes of `Remove` of the item with logical index `index`: compaction, then
    `if (count < maxCount) --pvGetState(); else pvGetState() = emptyShortHash + uint8_t(maxCount) - 1;` -/
def removeBytes (b : Bucket) (index : Nat) : Nat → Nat :=
  if b.count < b.maxCount then upd (b.compact index) b.stateIdx (u8 ((b.compact index) b.stateIdx + 255))
  else upd (b.compact index) b.stateIdx (u8 (emptyShortHash + u8 b.maxCount - 1))

/-- `Remove` (metadata) -/
def remove (b : Bucket) (index : Nat) : Bucket := { b with data := b.removeBytes index }

/-- `UpdateMaxProbe(probe)` on the byte `mData[maxCount]` (encoder: `Probe.upd3`, C13 (a)) -/
def updateMaxProbe (b : Bucket) (p : Nat) : Bucket :=
  { b with data := upd b.data b.maxCount (Probe.upd3 b.maxProbeExp p) }

/-- `GetMaxProbe(logBucketCount)` -/
def getMaxProbe (b : Bucket) (L : Nat) : Nat := Probe.getMax3 L b.maxProbeExp

end Bucket

/-! ## `BucketOpenN1::Find`: `for (i = 0; i < maxCount; ++i) if (thisShortHashes[i] == shortHash && itemPred(mItems[i])) return …` -/

/-- the loop as written; the result is the PHYSICAL slot (`pvMakeIterator(&mItems[i])`), `none` = `Iterator()` -/
def findLoopN1 (d : Nat → Nat) (sh : Nat) (pred : Nat → Bool) : Nat → Nat → Option Nat
  | 0, _ => none
  | fuel+1, i => if d i == sh && pred i then some i else findLoopN1 d sh pred fuel (i + 1)

def Bucket.findN1 (b : Bucket) (h : Nat) (pred : Nat → Bool) : Option Nat :=
  findLoopN1 b.data (calcShortHash h) pred b.maxCount 0

/-- the slots whose short-hash byte equals `sh`, in the order the scalar loop meets them -/
def candsN1 (d : Nat → Nat) (sh maxCount : Nat) : List Nat := (List.range maxCount).filter (fun i => d i == sh)

/-- the slots on which `itemPred` is evaluated when the candidates are tested in the order `cands`:
    all of them up to and including the first one that satisfies the predicate -/
def visited (cands : List Nat) (pred : Nat → Bool) : List Nat :=
  match cands with
  | [] => []
  | c :: rest => if pred c then [c] else c :: visited rest pred

/-! ## `BucketOpen8::Find` -/

/-- `MemCopyer::FromBuffer<uint64_t>(mData)` on a little-endian machine (`MOMO_LITTLE_ENDIAN` is a precondition of the
    SWAR variant) -/
def word8 (d : Nat → Nat) : Nat :=
  d 0 + 256 * (d 1 + 256 * (d 2 + 256 * (d 3 + 256 * (d 4 + 256 * (d 5 + 256 * (d 6 + 256 * d 7))))))

/-- the SWAR mask exactly as written (HashBucketOpen8.h, `#else` branch), 64-bit wrap-around explicit:
    `xorHashes = (shortHash * 0x0101010101010101ull) ^ thisShortHashes;`
    `mask = (xorHashes - 0x0101010101010101ull) & ~xorHashes & 0x0080808080808080ull;` -/
def swarMask (sh w : Nat) : Nat :=
  (((((sh * Extracted.open8SwarOnes) % 2 ^ 64) ^^^ w) + 2 ^ 64 - Extracted.open8SwarOnesSub) % 2 ^ 64)
    &&& (2 ^ 64 - 1 - (((sh * Extracted.open8SwarOnes) % 2 ^ 64) ^^^ w))
    &&& Extracted.open8SwarHigh

/-- `__builtin_ctzll` / `std::countr_zero` of a non-zero value below `2^fuel` (specification of the builtin) -/
def ctz : Nat → Nat → Nat
  | 0, _ => 0
  | fuel+1, m => if m % 2 = 1 then 0 else 1 + ctz fuel (m / 2)

/-- the candidate loop of the SWAR variant as written:
    `for (; mask != 0; mask &= mask - 1) { index = ctz64(mask) >> 3; if (itemPred(item[index])) return …; }` -/
def swarLoop (pred : Nat → Bool) : Nat → Nat → Option Nat
  | 0, _ => none
  | fuel+1, mask =>
    if mask = 0 then none
    else if pred (ctz 64 mask >>> Extracted.open8SwarIndexShift) then some (ctz 64 mask >>> Extracted.open8SwarIndexShift)
    else swarLoop pred fuel (mask &&& (mask - 1))

/-- the slots the loop would test if no predicate call succeeded, in order -/
def swarPositions : Nat → Nat → List Nat
  | 0, _ => []
  | fuel+1, mask =>
    if mask = 0 then []
    else (ctz 64 mask >>> Extracted.open8SwarIndexShift) :: swarPositions fuel (mask &&& (mask - 1))

/-- `Find` of `BucketOpen8` without SSE2 (at most 7 flag bits are set; fuel 8 would do) -/
def Bucket.find8swar (b : Bucket) (h : Nat) (pred : Nat → Bool) : Option Nat :=
  swarLoop pred 64 (swarMask (calcShortHash h) (word8 b.data))

/-- `_mm_movemask_epi8(_mm_cmpeq_epi8(_mm_set1_epi8(shortHash), _mm_set_epi64x(0, word)))` by the specification of the
    intrinsics: bit `j` (`j < 16`) is set iff byte `j` of the 128-bit register equals `shortHash`; bytes 8..15 are zero.
    Then `mask &= (1 << maxCount) - 1`. -/
def sseMask (sh : Nat) (d : Nat → Nat) : Nat :=
  ((List.range 16).foldr (fun j m => (if (if j < 8 then d j else 0) == sh then 2 ^ j else 0) + m) 0)
    &&& (2 ^ Extracted.open8MaxCount - 1)

/-- candidate loop of the SSE2 variant: `for (; mask != 0; mask &= mask - 1) { index = pvCountTrailingZeros15(mask); … }` -/
def sseLoop (pred : Nat → Bool) : Nat → Nat → Option Nat
  | 0, _ => none
  | fuel+1, mask =>
    if mask = 0 then none
    else if pred (ctz 32 mask) then some (ctz 32 mask)
    else sseLoop pred fuel (mask &&& (mask - 1))

def ssePositions : Nat → Nat → List Nat
  | 0, _ => []
  | fuel+1, mask => if mask = 0 then [] else ctz 32 mask :: ssePositions fuel (mask &&& (mask - 1))

def Bucket.find8sse (b : Bucket) (h : Nat) (pred : Nat → Bool) : Option Nat :=
  sseLoop pred 32 (sseMask (calcShortHash h) b.data)

/-- the table of `pvCountTrailingZeros15` used when `MOMO_CTZ32` is not defined -/
def ctzTab15 (mask : Nat) : Nat :=
  ([0, 1, 0, 2, 0, 1, 0, 3, 0, 1, 0, 2, 0, 1, 0,
    4, 0, 1, 0, 2, 0, 1, 0, 3, 0, 1, 0, 2, 0, 1, 0,
    5, 0, 1, 0, 2, 0, 1, 0, 3, 0, 1, 0, 2, 0, 1, 0,
    4, 0, 1, 0, 2, 0, 1, 0, 3, 0, 1, 0, 2, 0, 1, 0,
    6, 0, 1, 0, 2, 0, 1, 0, 3, 0, 1, 0, 2, 0, 1, 0,
    4, 0, 1, 0, 2, 0, 1, 0, 3, 0, 1, 0, 2, 0, 1, 0,
    5, 0, 1, 0, 2, 0, 1, 0, 3, 0, 1, 0, 2, 0, 1, 0,
    4, 0, 1, 0, 2, 0, 1, 0, 3, 0, 1, 0, 2, 0, 1, 0] : List Nat).getD (mask - 1) 0

/-! ## histories of one bucket (ghost view: the hash codes of the items in logical = storage order) -/

/-- `AddCrt(…, hashCode, …)` / `Remove(iterator to logical position index)` -/
inductive Op where
  | add (h : Nat)
  | rem (index : Nat)
deriving DecidableEq, Repr

def Bucket.step (b : Bucket) : Op → Bucket
  | .add h => b.addCrt h
  | .rem index => b.remove index

/-- the abstract bucket of the C01 model: `AddCrt` appends, `Remove` moves the last item into the hole
    (`HT.pushItem` / `HT.removeAt` on the list of hash codes) -/
def absStep (hs : List Nat) : Op → List Nat
  | .add h => hs ++ [h]
  | .rem index => match hs.getLast? with
      | none => []
      | some l => (hs.set index l).dropLast

/-- the preconditions the source asserts: `AddCrt` on a non-full bucket (64-bit hash code), `Remove` of a present item -/
def Op.legal (maxCount : Nat) (hs : List Nat) : Op → Prop
  | .add h => hs.length < maxCount ∧ h < 2 ^ 64
  | .rem index => index < hs.length

def legalHist (maxCount : Nat) : List Nat → List Op → Prop
  | _, [] => True
  | hs, op :: rest => op.legal maxCount hs ∧ legalHist maxCount (absStep hs op) rest

/-- the byte every slot must hold for the abstract content `hs` (logical order): the short hash of the item, the empty
    marker, or — in the slot of the last logical index while the bucket is not full — `emptyShortHash + count` -/
def expByte (maxCount : Nat) (reverse : Bool) (hs : List Nat) (j : Nat) : Nat :=
  if phys maxCount reverse j < hs.length then calcShortHash (hs.getD (phys maxCount reverse j) 0)
  else if phys maxCount reverse j = maxCount - 1 then emptyShortHash + hs.length
  else emptyShortHash

/-- **byte-level bucket invariant** -/
def Bucket.Inv (b : Bucket) (hs : List Nat) : Prop :=
  0 < b.maxCount ∧ b.maxCount < Extracted.openN1MaxCountLimit ∧ hs.length ≤ b.maxCount ∧ (∀ h ∈ hs, h < 2 ^ 64) ∧
  ∀ j, j < b.maxCount → b.data j = expByte b.maxCount b.reverse hs j

/-- canonical bytes of an abstract bucket (max-probe byte `e`) -/
def encode (maxCount : Nat) (reverse : Bool) (hs : List Nat) (e : Nat) : Bucket :=
  { maxCount := maxCount, reverse := reverse, data := fun j => if j < maxCount then expByte maxCount reverse hs j else e }

end Momo.OpenB
