import Momo.Model.HashTable
import Momo.Model.Ledger
import Momo.Model.Obj
/-
  Ledger layer over the hash-table model (C03 / C04 for `momo::HashSet` / `momo::HashMap`).

  `Momo/Model/HashTable.lean` (C01, C11) says what the table looks like after every operation, given which of the
  operation's fallible steps fail.  This file says what the same operations do to the MEMORY MANAGER and to the ELEMENT
  OBJECTS: every operation emits the events of `Momo/Model/Ledger.lean` (`alloc` / `dealloc` with manager class and size,
  `construct` / `destroy` / `relocate` / `use` of an element object) in program order, and keeps the books of what the
  container owns.  The table itself is computed by the functions of the hash-table model (`addNogrowGen`, `emptyGen`,
  `relocate`, `removePos`, `clear`, `newLog`, `growLog`, `capacityOf`, `findTable`, `traverse`): nothing of the probing / placement
  logic is repeated here.

  What a container owns (`St`):
    * `arrs`     one block per generation of buckets (`HashSetBuckets::Create`, HashSet.h:51-78): id and size
                 `sizeof(HashSetBuckets) + (sizeof(Bucket) << logCount)` (`pvGetBufferSize`, HashSet.h:164-167), newest first,
                 parallel to `t.gens`
    * `params`   the `BucketParams` block, created together with the first bucket array (`AllocateCreate<BucketParams>`,
                 HashSet.h:66-67), shared by all generations, released with the newest one (`Destroy(…, true)`, HashSet.h:87-92)
    * `crew`     the block of `SetCrew<…, tUsePtr = true>` (SetUtility.h:111-115); `none` for a moved-from container and for
                 crews that keep no heap block (`csz = 0`)
    * `els`      key ↦ element-object id of every item stored in the buckets.  An element object is one *incarnation* of an
                 item at one place: `ObjectRelocator::Relocate` ends the source object and begins a new one (ids are serial
                 numbers, never reused); `ObjectManager::Replace(src, dst)` assigns to the object `dst` and destroys `src`.
    * `bufs`     pool buffers of the chained bucket kinds (LimP4 / LimP / LimP1 / UnlimP keep their items in blocks of memory
                 pools owned by `BucketParams`): id and size of every buffer the pools hold at the memory manager.  WHICH buffers
                 a pool holds is decided by `MemPool` (C09), not by the hash table: the model takes the pool traffic of an operation
                 as part of its schedule (`OpT.pa` / `OpT.pb`: buffers obtained and kept, buffers given back; booked after the
                 operation's own events) and only uses the pool contract `DeallocateAll` / `~MemPool` return every buffer
                 (`BucketParams::Clear`, `Buckets::Destroy(…, true)`: `Clear`, destructor, failed copy construction).
                 NOT booked for the chained kinds: the relocation of a bucket's items into a larger pool block
                 (`RelocateCreate` in `AddCrt`, e.g. HashBucketLimP4.h:483-496) - their element objects are tracked per item.

  Faults (`Flt`, one record per operation = the operation's fault schedule; DESIGN.md 2.7: named by kind and target):
    hash / equality functor throwing in the lookup, refused bucket array, refused `BucketParams`, refused crew block, throwing
    item creator / copy constructor, throwing assignment inside `Replace`, the migration `pvRelocateItems` interrupted after any
    number of items (throwing hash functor, throwing copy, refused pool buffer), a copy construction failing after any number of
    items, refused pool buffer in `AddCrt` (`create`).

  Source mirrored (HashSet.h): Buckets::Create / Destroy 51-96, copy constructor 574-596, ~HashSet 598, operator= 603-614, Swap
  616-622, Clear 666-684, Reserve 691-714, Insert(ExtractedItem&&) 765-775, Remove(iter) / Remove(iter, extItem) / Remove(key)
  831-859, Remove(filter) 861-875, pvDestroy / pvClear 969-993, pvInsert / pvAdd / pvAddNogrow / pvAddGrow 1074-1167, pvRemove /
  pvExtract 1169-1200, pvRelocateItems 1221-1284, pvMergeTo 1286-1297; ObjectManager.h: Relocate 95-115, Replace 335-340,
  ReplaceRelocate 453-484; SetUtility.h: SetCrew 83-181, SetExtractedItem 253-338.

  Core Lean only (linked into the driver).
-/
namespace Momo.HTL
open Momo Momo.HT

abbrev LEv := Ledger.Ev Nat

/-! ### configuration -/

structure Cfg where
  sp : Spec
  /-- relocation category of `Item` (ObjectManager.h:87-92) -/
  cat : Obj.Cat := .triv
  /-- `ObjectManager<Item>::isNothrowAnywayAssignable` -/
  assign : Bool := true
  /-- `sizeof(HashSetBuckets<Bucket>)` -/
  hdr : Nat := 24
  /-- `sizeof(Bucket)` -/
  bsz : Nat := 8
  /-- `sizeof(BucketParams)` -/
  psz : Nat := 8
  /-- `sizeof(SetCrew::Data)`; 0 = the crew keeps no heap block -/
  csz : Nat := 0
  /-- identity class of the memory manager -/
  mgr : Nat := 1
  /-- the bucket kind keeps its items in memory-pool blocks -/
  chained : Bool := false
deriving Repr, Inhabited

/-- `HashSetBuckets::pvGetBufferSize(logBucketCount)` -/
def Cfg.arrSize (cfg : Cfg) (L : Nat) : Nat := cfg.hdr + cfg.bsz * 2 ^ L

/-! ### the world: serial numbers and the event list -/

structure W where
  nextB : Nat := 0
  nextE : Nat := 0
  evs : List LEv := []
deriving Inhabited

/-- `MemManagerProxy::Allocate`: a block with a fresh id -/
def W.allocB (w : W) (m n : Nat) : Nat × W :=
  (w.nextB, { w with nextB := w.nextB + 1, evs := w.evs ++ [.alloc m w.nextB n] })
/-- `MemManagerProxy::Deallocate` -/
def W.freeB (w : W) (m b n : Nat) : W := { w with evs := w.evs ++ [.dealloc m b n] }
/-- a constructor runs (creator, copy, move): a fresh element object -/
def W.ctorE (w : W) : Nat × W :=
  (w.nextE, { w with nextE := w.nextE + 1, evs := w.evs ++ [.construct w.nextE] })
def W.dtorE (w : W) (e : Nat) : W := { w with evs := w.evs ++ [.destroy e] }
def W.useE (w : W) (e : Nat) : W := { w with evs := w.evs ++ [.use e] }
/-- copy / move construction of a fresh object from `src` -/
def W.copyE (w : W) (src : Nat) : Nat × W :=
  (w.nextE, { w with nextE := w.nextE + 1, evs := w.evs ++ [.use src, .construct w.nextE] })
/-- `ObjectRelocator::Relocate(src, fresh place)` once it cannot fail any more: `memcpy` for trivially relocatable items,
    otherwise move / copy construction followed by the destruction of the source -/
def W.relocE (c : Obj.Cat) (w : W) (src : Nat) : Nat × W :=
  match c with
  | .triv => (w.nextE, { w with nextE := w.nextE + 1, evs := w.evs ++ [.relocate src w.nextE] })
  | _ => (w.nextE, { w with nextE := w.nextE + 1, evs := w.evs ++ [.use src, .construct w.nextE, .destroy src] })
/-- `ObjectManager::Replace(src, dst)`: `AssignAnyway` (move assignment, swap or rotation through a temporary: booked as a use of
    both objects) and `Destroy(src)` -/
def W.replaceE (w : W) (src dst : Nat) : W := { w with evs := w.evs ++ [.use src, .use dst, .destroy src] }

/-! ### the books of one container -/

abbrev Els := List (Nat × Nat)

def lookE : Els → Nat → Option Nat
  | [], _ => none
  | (k', e) :: r, k => if k' = k then some e else lookE r k

/-- the first entry of key `k` gets the object `e'` -/
def setE : Els → Nat → Nat → Els
  | [], _, _ => []
  | (k', e) :: r, k, e' => if k' = k then (k', e') :: r else (k', e) :: setE r k e'

/-- the first entry of key `k` goes -/
def dropE : Els → Nat → Els
  | [], _ => []
  | (k', e) :: r, k => if k' = k then r else (k', e) :: dropE r k

structure St where
  t : Table := emptyTable
  arrs : List (Nat × Nat) := []
  params : Option Nat := none
  crew : Option Nat := none
  els : Els := []
  bufs : List (Nat × Nat) := []
deriving Inhabited

def optL {α : Type} : Option α → List α
  | none => []
  | some a => [a]

/-- the blocks a container holds at the memory manager: (id, manager class, size) -/
def St.blocks (cfg : Cfg) (st : St) : List (Nat × Nat × Nat) :=
  (optL st.crew).map (fun b => (b, cfg.mgr, cfg.csz)) ++ (optL st.params).map (fun b => (b, cfg.mgr, cfg.psz)) ++
    st.arrs.map (fun p => (p.1, cfg.mgr, p.2)) ++ st.bufs.map (fun p => (p.1, cfg.mgr, p.2))

/-- the element objects a container holds -/
def St.elems (st : St) : List Nat := st.els.map Prod.snd

/-! ### faults -/

/-- pool traffic of one operation (decided by `MemPool`, C09 - for the hash table it is part of the schedule): the buffers the
    pools of a container obtained and kept, and the buffers they gave back -/
structure PoolT where
  /-- sizes of the buffers the pools obtain during the operation, in order -/
  gets : List Nat := []
  /-- positions (in `St.bufs`, after the gets) of the buffers the pools give back during the operation -/
  frees : List Nat := []
deriving Repr, Inhabited

structure Flt where
  /-- `HashTraits::GetHashCode` throws in `pvFind` -/
  hashThrows : Bool := false
  /-- `HashTraits::IsEqual` throws in `pvFind` -/
  eqThrows : Bool := false
  /-- `Buckets::Create`: the bucket array is refused -/
  grow : Bool := false
  /-- `Buckets::Create`: the `BucketParams` block is refused (first table only) -/
  params : Bool := false
  /-- the crew block is refused (constructors) -/
  crew : Bool := false
  /-- the item creator / the copy or throwing move into the new place throws; for the chained kinds also: `AddCrt` cannot get
      its pool block -/
  create : Bool := false
  /-- the assignment inside `ObjectManager::Replace` throws (items that are not nothrow-anyway-assignable) -/
  assignThrows : Bool := false
  /-- `pvRelocateItems` stops after this many items (throwing hash functor / copy / refused pool buffer) -/
  mig : Option Nat := none
  /-- a copy construction fails after this many items (throwing hash functor / copy / refused pool buffer) -/
  copyStop : Option Nat := none
deriving Repr, Inhabited

/-- the faults of the hash-table model that correspond to `f` for an insertion into `st` with the given creator -/
def toFaults (cfg : Cfg) (st : St) (crThrows : Bool) (f : Flt) : Faults :=
  { refuseGrow := f.grow || (st.t.gens.isEmpty && f.params), refuseAdd := crThrows,
    relocStop := if cfg.sp.nothrowReloc then none else f.mig }

/-- how the new element object comes into being -/
inductive Creator where
  /-- `Creator<Item&&>` / `Creator<const Item&>` / `Creator<ItemArgs…>`, the pair creators of HashMap: one construction -/
  | fresh
  /-- `Insert(ExtractedItem&&)` / `Add(pos, ExtractedItem&&)`: `ItemTraits::Relocate` out of the handle's object -/
  | handle (e : Nat)
deriving Repr, DecidableEq, Inhabited

/-- can the creator throw under `f` -/
def Creator.throws (cfg : Cfg) (f : Flt) : Creator → Bool
  | .fresh => f.create
  | .handle _ => f.create && (cfg.cat == .copyOnly || cfg.chained)

/-- the creator runs (and does not throw): the id of the new object -/
def Creator.run (cfg : Cfg) (w : W) : Creator → Nat × W
  | .fresh => w.ctorE
  | .handle e => w.relocE cfg.cat e

/-! ### pool traffic (chained kinds only) -/

def getBufs (cfg : Cfg) : List Nat → List (Nat × Nat) → W → List (Nat × Nat) × W
  | [], bufs, w => (bufs, w)
  | n :: r, bufs, w => getBufs cfg r (((w.allocB cfg.mgr n).1, n) :: bufs) (w.allocB cfg.mgr n).2

def freeBufs (cfg : Cfg) : List Nat → List (Nat × Nat) → W → List (Nat × Nat) × W
  | [], bufs, w => (bufs, w)
  | i :: r, bufs, w =>
    match bufs[i]? with
    | none => freeBufs cfg r bufs w
    | some p => freeBufs cfg r (bufs.eraseIdx i) (w.freeB cfg.mgr p.1 p.2)

/-- the pools obtain and give back buffers (only while `BucketParams` exists and the kind is chained) -/
def poolTraffic (cfg : Cfg) (st : St) (p : PoolT) (w : W) : St × W :=
  if cfg.chained && st.params.isSome then
    ({ st with bufs := (freeBufs cfg p.frees (getBufs cfg p.gets st.bufs w).1 (getBufs cfg p.gets st.bufs w).2).1 },
      (freeBufs cfg p.frees (getBufs cfg p.gets st.bufs w).1 (getBufs cfg p.gets st.bufs w).2).2)
  else (st, w)

/-- `MemPool::DeallocateAll` / `~MemPool` of every pool: every buffer goes back -/
def freeAllBufs (cfg : Cfg) : List (Nat × Nat) → W → W
  | [], w => w
  | p :: r, w => freeAllBufs cfg r (w.freeB cfg.mgr p.1 p.2)

/-! ### `pvRelocateItems` -/

/-- keys of one generation in the order `pvRelocateItems(Buckets*)` visits them: buckets ascending, each from its last item -/
def drainKeys (g : Gen) : List Nat := (g.bs.map (fun b => (b.items.reverse.map (·.key)))).flatten

/-- `ItemTraits::Relocate(&memManager, dstItem, newItem)` for every key of the list that is on the books -/
def moveAll (cfg : Cfg) : List Nat → Els → W → Els × W
  | [], els, w => (els, w)
  | k :: ks, els, w =>
    match lookE els k with
    | none => moveAll cfg ks els w
    | some e => moveAll cfg ks (setE els k (w.relocE cfg.cat e).1) (w.relocE cfg.cat e).2

/-- the bucket arrays of the generations after the newest one, OLDEST FIRST, and the keys of each of these generations in
    visiting order; `n` items still move, the first `dead` generations are drained completely and destroyed
    (`buckets->Destroy(memManager, false)`, HashSet.h:1283) -/
def relocGo (cfg : Cfg) : List (Nat × Nat) → List (List Nat) → Nat → Nat → Els → W → Els × W
  | [], _, _, _, els, w => (els, w)
  | a :: rest, ks, n, dead, els, w =>
    match dead with
    | 0 => moveAll cfg ((ks.headD []).take n) els w
    | dead + 1 =>
      relocGo cfg rest ks.tail (n - (ks.headD []).length) dead
        (moveAll cfg ((ks.headD []).take n) els w).1
        ((moveAll cfg ((ks.headD []).take n) els w).2.freeB cfg.mgr a.1 a.2)

def oldCount (t : Table) : Nat := (t.gens.drop 1).foldl (fun n g => n + genCount g) 0

/-- `pvRelocateItems()` (HashSet.h:1233-1246; never throws): the table is `HT.relocate`; the items that moved get new objects,
    the bucket arrays of the generations that disappeared go back to the manager, oldest first -/
def relocL (cfg : Cfg) (hf : Nat → Nat) (st : St) (stop : Option Nat) (w : W) : St × W :=
  let t' := relocate cfg.sp hf st.t (if cfg.sp.nothrowReloc then none else stop)
  let r := relocGo cfg (st.arrs.drop 1).reverse ((st.t.gens.drop 1).reverse.map drainKeys) (oldCount st.t - oldCount t')
    (st.arrs.length - t'.gens.length) st.els w
  ({ st with t := t', arrs := st.arrs.take t'.gens.length, els := r.1 }, r.2)

/-! ### `pvAdd` -/

/-- the size `pvAddGrow` asks for (`HT.growLog`; the value is only used where the check of the sizing loop has passed) -/
def growLogD (sp : Spec) (t : Table) : Nat := (growLog sp t).getD (newLog sp t)

/-- `pvAdd` up to the point where the creator runs. `inl` = the operation has failed (roll-back done); `inr` = the place for the new
    item exists: the container with its new table (the new item not yet on the books) and the world in which the creator runs.
    `crThrows` = the creator is going to throw: then the place is given up again (`newBuckets->Destroy(…, !hasBuckets)`,
    HashSet.h:1158-1162). -/
def addPrepL (cfg : Cfg) (hf : Nat → Nat) (st : St) (it : Item) (crThrows : Bool) (f : Flt) (w : W) :
    (St × W × Outcome) ⊕ (St × W) :=
  -- `pvAddGrow` starts with its sizing loop (HashSet.h:1132-1142, `HT.growLog`); the `MOMO_CHECK` inside it fails before
  -- anything is allocated
  if !decide (st.t.count < st.t.cap) && (growLog cfg.sp st.t).isNone then .inl (st, w, .invalid) else
  if st.t.count < st.t.cap || (f.grow && cfg.sp.overloadIfCannotGrow && !st.t.gens.isEmpty) then
    -- `pvAddNogrow<true>(*mBuckets, …)`: directly, or as the fallback of `pvAddGrow` when the bucket array is refused
    match st.t.gens with
    | [] => .inl (st, w, .badAlloc)
    | g :: rest =>
      if crThrows then .inl (st, w, .badAlloc) else
      match addNogrowGen cfg.sp g (hf it.key) it with
      | none => .inl (st, w, .full)
      | some (g', _) => .inr ({ st with t := { st.t with gens := g' :: rest, count := st.t.count + 1 } }, w)
  else if f.grow then .inl (st, w, .badAlloc)
  else
    -- `Buckets::Create`: the array, then (first table only) the params
    if st.t.gens.isEmpty && f.params then
      .inl (st, (w.allocB cfg.mgr (cfg.arrSize (growLogD cfg.sp st.t))).2.freeB cfg.mgr
        (w.allocB cfg.mgr (cfg.arrSize (growLogD cfg.sp st.t))).1 (cfg.arrSize (growLogD cfg.sp st.t)), .badAlloc)
    else
      let nl := growLogD cfg.sp st.t
      let w1 := (w.allocB cfg.mgr (cfg.arrSize nl)).2
      let a := (w.allocB cfg.mgr (cfg.arrSize nl)).1
      let first := st.t.gens.isEmpty
      let w2 := if first then (w1.allocB cfg.mgr cfg.psz).2 else w1
      let po := if first then some (w1.allocB cfg.mgr cfg.psz).1 else st.params
      match (if crThrows then none else addNogrowGen cfg.sp (emptyGen cfg.sp nl) (hf it.key) it) with
      | none =>
        .inl (st, ((if first then w2.freeB cfg.mgr (w1.allocB cfg.mgr cfg.psz).1 cfg.psz else w2).freeB cfg.mgr a (cfg.arrSize nl)),
          if crThrows then .badAlloc else .full)
      | some (g', _) =>
        .inr ({ st with t := { gens := g' :: st.t.gens, count := st.t.count + 1, cap := capacityOf cfg.sp nl },
                        arrs := (a, cfg.arrSize nl) :: st.arrs, params := po }, w2)

/-- `pvAdd` before the migration, for a creator given by its behaviour -/
def addCoreG (cfg : Cfg) (hf : Nat → Nat) (st : St) (it : Item) (crThrows : Bool) (crRun : W → Nat × W) (f : Flt) (w : W) :
    St × W × Outcome :=
  match addPrepL cfg hf st it crThrows f w with
  | .inl r => r
  | .inr (st1, w1) => ({ st1 with els := (it.key, (crRun w1).1) :: st1.els }, (crRun w1).2, .ok)

def addCoreL (cfg : Cfg) (hf : Nat → Nat) (st : St) (it : Item) (cr : Creator) (f : Flt) (w : W) : St × W × Outcome :=
  addCoreG cfg hf st it (cr.throws cfg f) (cr.run cfg) f w

/-- the migration at the end of `pvAdd` / `Reserve` -/
def finishL (cfg : Cfg) (hf : Nat → Nat) (st : St) (f : Flt) (w : W) : St × W :=
  if st.t.gens.length > 1 then relocL cfg hf st f.mig w else (st, w)

/-- `pvAdd` (HashSet.h:1084-1099) -/
def addL (cfg : Cfg) (hf : Nat → Nat) (st : St) (it : Item) (cr : Creator) (f : Flt) (w : W) : St × W × Outcome :=
  match addCoreL cfg hf st it cr f w with
  | (st1, w1, .ok) => ((finishL cfg hf st1 f w1).1, (finishL cfg hf st1 f w1).2, .ok)
  | r => r

/-- result of a lookup-then-act operation -/
inductive Res where
  | done (o : Outcome)
  /-- the key was there already / was not there -/
  | no
  /-- the hash or equality functor threw in the lookup -/
  | user
deriving DecidableEq, Repr, Inhabited

/-- `pvInsert` = `pvFind` + `pvAdd` (Insert, InsertVar, InsertCrt, emplace, map insertion and subscript insertion) -/
def insertL (cfg : Cfg) (hf : Nat → Nat) (st : St) (it : Item) (cr : Creator) (f : Flt) (w : W) : St × W × Res :=
  if f.hashThrows || f.eqThrows then (st, w, .user)
  else match findTable cfg.sp hf st.t it.key with
    | some _ => (st, w, .no)
    | none => ((addL cfg hf st it cr f w).1, (addL cfg hf st it cr f w).2.1, .done (addL cfg hf st it cr f w).2.2)

/-! ### `pvRemove` -/

def itemAt (cfg : Cfg) (t : Table) (gi b j : Nat) : Option Item :=
  match t.gens[gi]? with
  | none => none
  | some g => (bkt cfg.sp g.bs b).items[j]?

def lastAt (cfg : Cfg) (t : Table) (gi b : Nat) : Option Item :=
  match t.gens[gi]? with
  | none => none
  | some g => (bkt cfg.sp g.bs b).items.getLast?

def lenAt (cfg : Cfg) (t : Table) (gi b : Nat) : Nat :=
  match t.gens[gi]? with
  | none => 0
  | some g => (bkt cfg.sp g.bs b).items.length

/-- `Remove(iter)` at the position `(gi, b, j)`: `Bucket::Remove` calls `Replace(last item of the bucket, removed item)`.
    `true` = the assignment threw (nothing changed). -/
def removeAtL (cfg : Cfg) (st : St) (gi b j : Nat) (f : Flt) (w : W) : St × W × Bool :=
  match itemAt cfg st.t gi b j, lastAt cfg st.t gi b with
  | some x, some l =>
    match lookE st.els x.key, lookE st.els l.key with
    | some d, some s =>
      if !cfg.assign && f.assignThrows then (st, w, true)
      else
        let isLast := decide (j + 1 = lenAt cfg st.t gi b) || x.key == l.key
        let s' := if isLast then d else s
        ({ st with t := removePos cfg.sp st.t gi b j,
                   els := if isLast then dropE st.els x.key else setE (dropE st.els x.key) l.key d },
          w.replaceE s' d, false)
    | _, _ => ({ st with t := removePos cfg.sp st.t gi b j }, w, false)
  | _, _ => (st, w, false)

/-- `Remove(iter, extItem)` / `Extract(pos)` at `(gi, b, j)`: `pvExtract` relocates the item into the handle
    (`Relocate` when it is the bucket's last item, otherwise `ReplaceRelocate(last, removed, handle)`).
    Result: the handle's object, or `none` when a copy / assignment threw (nothing changed). -/
def extractAtL (cfg : Cfg) (st : St) (gi b j : Nat) (f : Flt) (w : W) : St × W × Option Nat :=
  match itemAt cfg st.t gi b j, lastAt cfg st.t gi b with
  | some x, some l =>
    match lookE st.els x.key, lookE st.els l.key with
    | some d, some s =>
      if decide (j + 1 = lenAt cfg st.t gi b) || x.key == l.key then
        -- `ItemTraits::Relocate(&memManager, srcItem, extItem)` (the removed item is the bucket's last one)
        if cfg.cat == .copyOnly && f.create then (st, w, none)
        else ({ st with t := removePos cfg.sp st.t gi b j, els := dropE st.els x.key }, (w.relocE cfg.cat d).2,
              some (w.relocE cfg.cat d).1)
      else if cfg.cat != .copyOnly then
        -- `Relocate(mid, dst); Relocate(src, &mid)`
        let h := (w.relocE cfg.cat d).1
        let w1 := (w.relocE cfg.cat d).2
        ({ st with t := removePos cfg.sp st.t gi b j, els := setE (dropE st.els x.key) l.key (w1.relocE cfg.cat s).1 },
          (w1.relocE cfg.cat s).2, some h)
      else
        -- `Copy(mid, dst)` (or the copying `Move`), then `Replace(src, mid)`; `catch (...) { Destroy(*dstObject); throw; }`
        if f.create then (st, w, none)
        else if !cfg.assign && f.assignThrows then (st, ((w.copyE d).2.useE s).dtorE (w.copyE d).1, none)
        else ({ st with t := removePos cfg.sp st.t gi b j, els := setE (dropE st.els x.key) l.key d },
              (w.copyE d).2.replaceE s d, some (w.copyE d).1)
    | _, _ => (st, w, none)
  | _, _ => (st, w, none)

/-- `Remove(key)` = `pvFind` + `Remove(pos)` -/
def removeKeyL (cfg : Cfg) (hf : Nat → Nat) (st : St) (k : Nat) (f : Flt) (w : W) : St × W × Res :=
  if f.hashThrows || f.eqThrows then (st, w, .user)
  else match findTable cfg.sp hf st.t k with
    | none => (st, w, .no)
    | some (gi, b, j) =>
      let r := removeAtL cfg st gi b j f w
      (r.1, r.2.1, .done (if r.2.2 then .badAlloc else .ok))

/-- `Find` + `Extract(pos)` -/
def extractKeyL (cfg : Cfg) (hf : Nat → Nat) (st : St) (k : Nat) (f : Flt) (w : W) : St × W × Res × Option (Item × Nat) :=
  if f.hashThrows || f.eqThrows then (st, w, .user, none)
  else match findTable cfg.sp hf st.t k with
    | none => (st, w, .no, none)
    | some (gi, b, j) =>
      match itemAt cfg st.t gi b j, extractAtL cfg st gi b j f w with
      | some x, (st1, w1, some h) => (st1, w1, .done .ok, some (x, h))
      | _, (st1, w1, _) => (st1, w1, .done .badAlloc, none)

/-- positions of a table in iteration order (`GetBegin`, `operator++`): generations newest first, buckets ascending, each
    bucket from its last item -/
def posList (t : Table) : List (Nat × Nat × Nat) :=
  (t.gens.zipIdx.map (fun (g, gi) =>
    (g.bs.zipIdx.map (fun (b, bi) => (List.range b.items.length).reverse.map (fun j => (gi, bi, j)))).flatten)).flatten

/-- `Remove(filter)` (basic guarantee): the iteration visits the positions computed at the start (a removal refills its slot
    with the bucket's last item, which the iteration has passed already). `f n` = the faults of the `n`-th removal. -/
def removeIfGo (cfg : Cfg) (pred : Item → Bool) (f : Nat → Flt) :
    List (Nat × Nat × Nat) → St → W → Nat → St × W × Nat × Bool
  | [], st, w, n => (st, w, n, false)
  | (gi, b, j) :: ps, st, w, n =>
    match itemAt cfg st.t gi b j with
    | none => removeIfGo cfg pred f ps st w n
    | some x =>
      if pred x then
        if (removeAtL cfg st gi b j (f n) w).2.2 then
          ((removeAtL cfg st gi b j (f n) w).1, (removeAtL cfg st gi b j (f n) w).2.1, n, true)
        else removeIfGo cfg pred f ps (removeAtL cfg st gi b j (f n) w).1 (removeAtL cfg st gi b j (f n) w).2.1 (n + 1)
      else removeIfGo cfg pred f ps st w n

def removeIfL (cfg : Cfg) (pred : Item → Bool) (f : Nat → Flt) (st : St) (w : W) : St × W × Nat × Bool :=
  removeIfGo cfg pred f (posList st.t) st w 0

/-! ### `Reserve`, `Clear`, destructor -/

/-- `Reserve(capacity)` (HashSet.h:691-714) -/
def reserveL (cfg : Cfg) (hf : Nat → Nat) (st : St) (c : Nat) (f : Flt) (w : W) : St × W × Outcome :=
  if c ≤ st.t.cap then (st, w, .ok)
  else if f.grow then (st, w, .badAlloc)
  else
    let nl := reserve.grow cfg.sp c 64 (newLog cfg.sp st.t)
    let a := (w.allocB cfg.mgr (cfg.arrSize nl)).1
    let w1 := (w.allocB cfg.mgr (cfg.arrSize nl)).2
    if st.t.gens.isEmpty && f.params then (st, w1.freeB cfg.mgr a (cfg.arrSize nl), .badAlloc)
    else
      let first := st.t.gens.isEmpty
      let w2 := if first then (w1.allocB cfg.mgr cfg.psz).2 else w1
      let po := if first then some (w1.allocB cfg.mgr cfg.psz).1 else st.params
      let st1 : St := { st with t := { gens := emptyGen cfg.sp nl :: st.t.gens, count := st.t.count, cap := capacityOf cfg.sp nl },
                                 arrs := (a, cfg.arrSize nl) :: st.arrs, params := po }
      ((finishL cfg hf st1 f w2).1, (finishL cfg hf st1 f w2).2, .ok)

/-- keys in the order `pvClear` destroys the items: generations newest first, buckets ascending, items in storage order -/
def clearKeys (t : Table) : List Nat :=
  (t.gens.map (fun g => (g.bs.map (fun b => b.items.map (·.key))).flatten)).flatten

/-- `ItemTraits::Destroy` for every key of the list that is on the books -/
def destroyKeys : List Nat → Els → W → Els × W
  | [], els, w => (els, w)
  | k :: ks, els, w =>
    match lookE els k with
    | none => destroyKeys ks els w
    | some e => destroyKeys ks (dropE els k) (w.dtorE e)

/-- whatever is still on the books goes as well (nothing, whenever the books agree with the table: `Consistent`) -/
def destroyRest : Els → W → W
  | [], w => w
  | (_, e) :: r, w => destroyRest r (w.dtorE e)

/-- all element objects of the container are destroyed, in the order of `pvClear` -/
def destroyAllE (st : St) (w : W) : W :=
  destroyRest (destroyKeys (clearKeys st.t) st.els w).1 (destroyKeys (clearKeys st.t) st.els w).2

/-- bucket arrays go back oldest first -/
def freeArrs (cfg : Cfg) : List (Nat × Nat) → W → W
  | [], w => w
  | a :: r, w => (freeArrs cfg r w).freeB cfg.mgr a.1 a.2

/-- `pvDestroy()` (HashSet.h:969-981): items, then the older bucket arrays (oldest first), then the pools' buffers and the
    `BucketParams` block, then the newest bucket array -/
def destroyBodyL (cfg : Cfg) (st : St) (w : W) : W :=
  match st.arrs with
  | [] => w
  | a :: older =>
    let w1 := freeArrs cfg older (destroyAllE st w)
    let w2 := freeAllBufs cfg st.bufs w1
    let w3 := match st.params with | some p => w2.freeB cfg.mgr p cfg.psz | none => w2
    w3.freeB cfg.mgr a.1 a.2

/-- `Clear(shrink)` (HashSet.h:666-684) -/
def clearL (cfg : Cfg) (st : St) (shrink : Bool) (w : W) : St × W :=
  match st.arrs with
  | [] => (st, w)
  | a :: older =>
    if shrink then ({ st with t := clear cfg.sp st.t true, arrs := [], params := none, els := [], bufs := [] }, destroyBodyL cfg st w)
    else
      -- `pvClear(*mBuckets); pvDestroy(mBuckets->ExtractNextBuckets(), false); mBuckets->GetBucketParams().Clear();`
      ({ st with t := clear cfg.sp st.t false, arrs := [a], els := [], bufs := [] },
        freeAllBufs cfg st.bufs (freeArrs cfg older (destroyAllE st w)))

/-- `~HashSet`: `pvDestroy()`, then `~SetCrew` -/
def destroyL (cfg : Cfg) (st : St) (w : W) : W :=
  match st.crew with
  | some c => (destroyBodyL cfg st w).freeB cfg.mgr c cfg.csz
  | none => destroyBodyL cfg st w

/-! ### constructors, assignment, swap -/

/-- `HashSet()` / `HashSet(hashTraits, memManager)`: the crew. `none` = the crew block was refused. -/
def newL (cfg : Cfg) (f : Flt) (w : W) : Option St × W :=
  if cfg.csz = 0 then (some {}, w)
  else if f.crew then (none, w)
  else (some { crew := some (w.allocB cfg.mgr cfg.csz).1 }, (w.allocB cfg.mgr cfg.csz).2)

/-- `pvAddNogrow<false>(*mBuckets, hashCode, Creator<const Item&>(…))` for each item of the list -/
def copyItems (cfg : Cfg) (hf : Nat → Nat) (src : Els) : List Item → Gen → Els → W → Gen × Els × W
  | [], g, els, w => (g, els, w)
  | it :: r, g, els, w =>
    match addNogrowGen cfg.sp g (hf it.key) it, lookE src it.key with
    | some (g', _), some e => copyItems cfg hf src r g' ((it.key, (w.copyE e).1) :: els) (w.copyE e).2
    | some (g', _), none => copyItems cfg hf src r g' ((it.key, w.ctorE.1) :: els) w.ctorE.2
    | none, _ => copyItems cfg hf src r g els w

/-- `HashSet(const HashSet&)` (HashSet.h:569-596). The delegated-to constructor has completed when the body runs, so a failure
    in the body runs `~HashSet` on what exists. `none` = the constructor threw. -/
def copyL (cfg : Cfg) (hf : Nat → Nat) (src : St) (f : Flt) (w : W) : Option St × W :=
  match newL cfg f w with
  | (none, w0) => (none, w0)
  | (some st0, w0) =>
    if src.t.count == 0 then (some st0, w0)
    else
      let L := copyOf.pick cfg.sp src.t 64 cfg.sp.logStart
      if f.grow then (none, destroyL cfg st0 w0)
      else
        let a := (w0.allocB cfg.mgr (cfg.arrSize L)).1
        let w1 := (w0.allocB cfg.mgr (cfg.arrSize L)).2
        if f.params then (none, destroyL cfg st0 (w1.freeB cfg.mgr a (cfg.arrSize L)))
        else
          let p := (w1.allocB cfg.mgr cfg.psz).1
          let w2 := (w1.allocB cfg.mgr cfg.psz).2
          let items := match f.copyStop with | none => traverse src.t | some n => (traverse src.t).take n
          let r := copyItems cfg hf src.els items (emptyGen cfg.sp L) [] w2
          let st1 : St := { st0 with t := { gens := [r.1], count := src.t.count, cap := capacityOf cfg.sp L },
                                     arrs := [(a, cfg.arrSize L)], params := some p, els := r.2.1 }
          match f.copyStop with
          | some _ => (none, destroyL cfg st1 r.2.2)
          | none => (some st1, r.2.2)

/-- `HashSet(HashSet&&)` (HashSet.h:558-567): everything moves, the source keeps a null crew -/
def moveL (src : St) : St × St := (src, {})

/-! ### `pvMergeTo` -/

/-- one step of `pvMergeTo` at the source position `(gi, b, j)`: `dstSet.InsertCrt(key, creator)` where the creator is
    `pvExtract(iter, newItem)`: the destination makes room, then the item is relocated out of the source straight into its new
    place. `(source, destination, world, moved, threw)` -/
def mergeStepL (cfg : Cfg) (hf : Nat → Nat) (src dst : St) (gi b j : Nat) (f : Flt) (w : W) : St × St × W × Bool × Bool :=
  match itemAt cfg src.t gi b j with
  | none => (src, dst, w, false, false)
  | some x =>
    if f.hashThrows || f.eqThrows then (src, dst, w, false, true)
    else match findTable cfg.sp hf dst.t x.key with
      | some _ => (src, dst, w, false, false)
      | none =>
        match addPrepL cfg hf dst x (extractAtL cfg src gi b j f w).2.2.isNone f w with
        | .inl (dst1, w1, _) => (src, dst1, w1, false, true)
        | .inr (dst1, w1) =>
          match extractAtL cfg src gi b j f w1 with
          | (src1, w2, some h) =>
            (src1, (finishL cfg hf { dst1 with els := (x.key, h) :: dst1.els } f w2).1,
              (finishL cfg hf { dst1 with els := (x.key, h) :: dst1.els } f w2).2, true, false)
          | (_, _, none) => (src, dst, w, false, true)

/-- the loop of `pvMergeTo` over the positions of the source computed at the start; `f n` = the faults that strike after `n`
    items have moved -/
def mergeGo (cfg : Cfg) (hf : Nat → Nat) (f : Nat → Flt) :
    List (Nat × Nat × Nat) → St → St → W → Nat → St × St × W × Bool
  | [], src, dst, w, _ => (src, dst, w, false)
  | (gi, b, j) :: ps, src, dst, w, n =>
    match mergeStepL cfg hf src dst gi b j (f n) w with
    | (src1, dst1, w1, _, true) => (src1, dst1, w1, true)
    | (src1, dst1, w1, moved, false) => mergeGo cfg hf f ps src1 dst1 w1 (if moved then n + 1 else n)

/-- `src.MergeTo(dst)` (basic guarantee) -/
def mergeToL (cfg : Cfg) (hf : Nat → Nat) (f : Nat → Flt) (src dst : St) (w : W) : St × St × W × Bool :=
  mergeGo cfg hf f (posList src.t) src dst w 0

/-! ### the system of the correspondence runs: two containers and a node handle -/

structure Sys where
  a : St := {}
  b : St := {}
  /-- `ExtractedItem`: the item and its object -/
  h : Option (Item × Nat) := none
  w : W := {}
deriving Inhabited

inductive Op where
  /-- `Insert` / `InsertVar` / emplace / map insertion / `map[key] = value` into A (`toB = false`) or B -/
  | ins (toB : Bool) (k v : Nat) (f : Flt)
  | rem (k : Nat) (f : Flt)
  /-- `Remove(filter)` with `filter(item) = (key % m == r)` -/
  | remIf (m r : Nat) (f : Nat → Flt)
  | reserve (c : Nat) (f : Flt)
  | clear (shrink : Bool)
  /-- `Extract` into the handle (when it is empty) -/
  | ext (k : Nat) (f : Flt)
  /-- `Insert(std::move(handle))` -/
  | reins (f : Flt)
  /-- `B = A` (copy assignment: copy construction, `Swap`, destruction of the old contents) -/
  | copyTo (f : Flt)
  /-- `B = std::move(A); A = HashSet();` -/
  | moveTo (f : Flt)
  | swap
  /-- `A.MergeTo(B)` -/
  | mergeTo (f : Nat → Flt)
  /-- the handle is destroyed with its item -/
  | dropHandle

inductive Out where
  | res (r : Res)
  | num (n : Nat) (threw : Bool)
  | unit
  | threw
deriving Inhabited

/-- two default-constructed containers -/
def Sys.init (cfg : Cfg) : Sys :=
  let a := newL cfg {} {}
  let b := newL cfg {} a.2
  { a := a.1.getD {}, b := b.1.getD {}, h := none, w := b.2 }

def step (cfg : Cfg) (hf : Nat → Nat) (s : Sys) : Op → Sys × Out
  | .ins toB k v f =>
    let r := insertL cfg hf (if toB then s.b else s.a) ⟨k, v⟩ .fresh f s.w
    ((if toB then { s with b := r.1, w := r.2.1 } else { s with a := r.1, w := r.2.1 }), .res r.2.2)
  | .rem k f =>
    let r := removeKeyL cfg hf s.a k f s.w
    ({ s with a := r.1, w := r.2.1 }, .res r.2.2)
  | .remIf m r f =>
    let q := removeIfL cfg (fun it => it.key % m == r) f s.a s.w
    ({ s with a := q.1, w := q.2.1 }, .num q.2.2.1 q.2.2.2)
  | .reserve c f =>
    let r := reserveL cfg hf s.a c f s.w
    ({ s with a := r.1, w := r.2.1 }, .res (.done r.2.2))
  | .clear sh =>
    let r := clearL cfg s.a sh s.w
    ({ s with a := r.1, w := r.2 }, .unit)
  | .ext k f =>
    match s.h with
    | some _ => (s, .unit)
    | none =>
      let r := extractKeyL cfg hf s.a k f s.w
      ({ s with a := r.1, w := r.2.1, h := r.2.2.2 }, .res r.2.2.1)
  | .reins f =>
    match s.h with
    | none => (s, .unit)
    | some (it, e) =>
      let r := insertL cfg hf s.a it (.handle e) f s.w
      ({ s with a := r.1, w := r.2.1, h := if r.2.2 = .done .ok then none else s.h }, .res r.2.2)
  | .copyTo f =>
    match copyL cfg hf s.a f s.w with
    | (none, w1) => ({ s with w := w1 }, .threw)
    | (some st, w1) => ({ s with b := st, w := destroyL cfg s.b w1 }, .unit)
  | .moveTo f =>
    -- `HashSet(std::move(A)).Swap(B)`, the temporary dies with B's old contents; then A is assigned a new empty container
    let w1 := destroyL cfg s.b s.w
    match newL cfg f w1 with
    | (none, w2) => ({ s with b := s.a, a := {}, w := w2 }, .threw)
    | (some st, w2) => ({ s with b := s.a, a := st, w := w2 }, .unit)
  | .swap => ({ s with a := s.b, b := s.a }, .unit)
  | .mergeTo f =>
    let r := mergeToL cfg hf f s.a s.b s.w
    ({ s with a := r.1, b := r.2.1, w := r.2.2.1 }, if r.2.2.2 then .threw else .unit)
  | .dropHandle =>
    match s.h with
    | none => (s, .unit)
    | some (_, e) => ({ s with h := none, w := s.w.dtorE e }, .unit)

/-- an operation together with the pool traffic it causes in A's and in B's pools (booked after the operation's own events;
    events about different blocks commute for the ledger) -/
structure OpT where
  op : Op
  pa : PoolT := {}
  pb : PoolT := {}

def stepT (cfg : Cfg) (hf : Nat → Nat) (s : Sys) (o : OpT) : Sys × Out :=
  let r := step cfg hf s o.op
  let a := poolTraffic cfg r.1.a o.pa r.1.w
  let b := poolTraffic cfg r.1.b o.pb a.2
  ({ r.1 with a := a.1, b := b.1, w := b.2 }, r.2)

def run (cfg : Cfg) (hf : Nat → Nat) : Sys → List OpT → Sys
  | s, [] => s
  | s, o :: ops => run cfg hf (stepT cfg hf s o).1 ops

/-- the end of a history: the handle, B and A are destroyed -/
def finish (cfg : Cfg) (s : Sys) : W :=
  let w1 := match s.h with | some (_, e) => s.w.dtorE e | none => s.w
  destroyL cfg s.a (destroyL cfg s.b w1)

/-- everything the system owns -/
def Sys.blocks (cfg : Cfg) (s : Sys) : List (Nat × Nat × Nat) := s.a.blocks cfg ++ s.b.blocks cfg
def Sys.elems (s : Sys) : List Nat := s.a.elems ++ s.b.elems ++ (optL s.h).map Prod.snd

end Momo.HTL
