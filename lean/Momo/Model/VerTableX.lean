import Momo.Model.Ver
/-!
  C15, DataTable family: entry points added after the defects F31 / F32 were repaired.

  * `TryUpdate(rowNumber, Row&&)` / `Update(rowNumber, Row&&)` (DataTable.h:612-618, 640-654) given a detached row that was made by
    a table with another column list: `MOMO_CHECK(&row.GetColumnList() == &GetColumnList())` (:642, repaired by 1619d27).
  * the iterator of the row bounds of `FindByMultiHash` (DataRawMultiHashIterator, DataIndexes.h:153-250): `it = GetBegin(); it += i`
    and `*it`; since 222caeb the iterator knows the size of its group: `operator+=` rejects a position above it, `operator->`
    the end position.

  They live in a step function of their own (`BWorld.stepX`) so that the entry-point list `BOp` of Model/Ver.lean and the case
  analyses over it stay as they are; none of the iterator entry points changes the world, and `updRowOf` with the table's own row
  is `BOp.updRow` (Props/C15Table.lean proves both facts and transfers the history theorems).
-/
namespace Momo.Ver

namespace Table
/-- `TryUpdate(rowNumber, Row&&)` :640-654 with a row whose column list is the one of the table with identity `rowTbl`:
    the column-list check (:642) comes first, then everything `tryUpdateRow` does -/
def tryUpdateRowOf (t : Table) (cs : Cells) (rowTbl i a b : Nat) : Option (Cells × Table × RowRef × Bool) := do
  chk (rowTbl == t.id)                       -- :642 `MOMO_CHECK(&row.GetColumnList() == &GetColumnList())`
  t.tryUpdateRow cs i a b
end Table

namespace MBounds
/-- `it = GetBegin(); it += i` (`i ≥ 0`): DataRawMultiHashIterator::operator+= :188-201; nothing is checked for `diff == 0` -/
def advance (m : MBounds) (cs : Cells) (i : Nat) : Option Unit :=
  if i = 0 then some () else do
    chk (m.ckp.check cs)                     -- :192 `VersionKeeper::Check()`
    chk (!m.raws.isEmpty)                    -- :195 `MOMO_CHECK(mRaw0 != nullptr)`
    chk (i ≤ m.raws.length)                  -- :197 `MOMO_CHECK(newRawIndex >= 0 && newRawIndex <= mRawCount)`
/-- `*it` at position `i`: operator-> :208-224 (the row reference carries the keeper of the remove version) -/
def derefAt (m : MBounds) (cs : Cells) (i : Nat) : Option RowRef := do
  chk (m.ckp.check cs)                       -- :212
  let raw ← m.raws[i]?                       -- :213 `MOMO_CHECK(mRawIndex < mRawCount)`
  pure ⟨m.tbl, raw, m.rkp⟩
/-- `it = GetBegin(); it += i; *it` -/
def iterAt (m : MBounds) (cs : Cells) (i : Nat) : Option RowRef := do
  m.advance cs i
  m.derefAt cs i
end MBounds

/-- the additional entry points -/
inductive BOpX where
  /-- `TryUpdate(i, row)` on table `o` with a detached row `(a, b)` made by table `src` -/
  | updRowOf (o src : Bool) (i a b : Nat)
  /-- `it = bounds.GetBegin(); it += i` -/
  | mbAdv (m : MBounds) (i : Nat)
  /-- `it = bounds.GetBegin(); it += i; *it` -/
  | mbIt (m : MBounds) (i : Nat)

/-- one call; `none` = `std::invalid_argument` (the world is returned unchanged) -/
def BWorld.stepX (w : BWorld) : BOpX → BWorld × Option BRes
  | .updRowOf o src i a b =>
      match (w.obj o).tryUpdateRowOf w.cs (w.obj src).id i a b with
      | some x => (w.setObj o x.1 x.2.1, some (.refFlag x.2.2.1 x.2.2.2))
      | none => (w, none)
  | .mbAdv m i => (w, (m.advance w.cs i).map (fun _ => .unit))
  | .mbIt m i => (w, (m.iterAt w.cs i).map .ref)

end Momo.Ver
