import Momo.Model.PoolAlloc
/-
  Fault layer of the model of `momo::stdish::unsynchronized_pool_allocator` (C20): the base allocator
  (`TBaseAllocator`) throws `std::bad_alloc`.  The base allocator is reached at three places
  (pool_allocator.h, line numbers of the pinned tree):

    77       `std::allocate_shared<MemPool>(alloc, …)` of the explicit constructor — also when it is called by
             `select_on_container_copy_construction` (106-109): nothing has been created when it
             throws                                                                   -> `FOp.newFail`
    123      `mMemPool->Allocate()`: the pool asks its memory manager for a buffer.  Before that, lines
             115-121 may already have replaced an idle pool by a fresh one with the parameters of
             `value_type` (`*mMemPool = MemPool(…)`: the old pool object is destroyed, its buffers go
             back; the constructor of the new one does not allocate).  `MemPool::Allocate` that throws
             leaves the pool as it was (C09: `allocate … = .badAlloc p' evs → p' = p ∧ evs = []`).
    125      `MemManagerProxy::Allocate(GetMemManager(), count * sizeof(value_type))` of the raw path:
             nothing has happened when it throws                                      -> `FOp.allocFail`

  The fault is an explicit operation of the history (`FOp.allocFail p cls n` = "this `allocate(n)` for a
  value type with parameters `cls` through pool `p` threw"), so that the theorems quantify over every
  placement of faults.  `deallocate`, the copy constructor, the destructor never allocate.

  Container level (`FCOp`): a container call in which an allocation threw is a list of `FAct`s — the
  allocations / deallocations libstdc++ made before the throw, the failed request, and whatever the
  container freed while unwinding (libstdc++ is the environment, as in `COp`).  A copy construction that
  threw has created the new pool (`select_on_container_copy_construction` ran first), built and freed
  nodes through it and finally destroyed the allocator object again.

  Also here (new in this layer, read from the header on every run): `is_always_equal` — the class does
  not declare it and has a data member (`std::shared_ptr<MemPool> mMemPool`), so
  `std::allocator_traits<…>::is_always_equal` is `std::is_empty<…>::type` = `false_type`.
  Core Lean only (no Mathlib): this file is linked into the driver.
-/
namespace Momo.PoolAlloc
open Momo

/-! ## layer A with faults -/

/-- `allocate(count)` (111-127) that ends with `bad_alloc` from the base allocator.
    `count == 1`, parameters differ, pool idle: line 119 has run (the pool now has the parameters of
    `value_type`, the buffers the old pool object held went back), then `mMemPool->Allocate()` threw.
    Every other case: nothing changed (pool with equal parameters: `MemPool::Allocate` threw and left the
    pool as it was; raw path: the memory manager threw). -/
def doAllocFail (s : Sys) (p : Nat) (cls : Cls) (n : Nat) : Sys :=
  match livePool s p with
  | none => s.fail .illegal
  | some st =>
    if n = 0 then s.fail .illegal
    else if n = 1 ∧ cls ≠ st.params ∧ st.allocCount = 0 then
      { s with pools := s.pools.set p { st with params := cls },
               base := s.base.filter (fun e => !(e.pid == p && e.kind == .buf)) }
    else s

inductive FOp where
  /-- an operation during which the base allocator did not throw -/
  | ok (op : Op)
  /-- `allocate(n)` for a value type with parameters `cls` through pool `p` threw `bad_alloc` -/
  | allocFail (p : Nat) (cls : Cls) (n : Nat)
  /-- the explicit constructor (76-79) threw in `allocate_shared`: no allocator object, no pool -/
  | newFail
deriving DecidableEq, Repr

def fstep (s : Sys) (op : FOp) : Sys :=
  if s.err.isSome then s else
  match op with
  | .ok o => step s o
  | .allocFail p cls n => doAllocFail s p cls n
  | .newFail => s

def frun (s : Sys) (ops : List FOp) : Sys := ops.foldl fstep s

/-- "one single-object type per shared pool" for histories with faults: only the *successful* single-object
    requests are restricted; a request that throws may be for any type (it can at most re-parameterise
    an idle pool) -/
def FOneTypePerPool (κ : Nat → Cls) (ops : List FOp) : Prop :=
  ∀ op ∈ ops, match op with
    | .ok (.alloc p cls 1 _ _) => cls = κ p
    | _ => True

/-! ## layer C with faults -/

inductive FAct where
  | ok (a : Act)
  /-- `allocate(n)` of the container's allocator threw -/
  | allocFail (cls : Cls) (n : Nat)
deriving DecidableEq, Repr

/-- one allocation / deallocation / failed allocation made by entity `e` whose allocator points to pool `p` -/
def factStep (e p : Nat) (cs : CSys) (a : FAct) : CSys :=
  match a with
  | .ok a => actStep e p cs a
  | .allocFail cls n => { cs with sys := fstep cs.sys (.allocFail p cls n) }

inductive FCOp where
  /-- a container call during which nothing threw -/
  | ok (op : COp)
  /-- `A al(base)` / default construction of a container threw in `allocate_shared` (77): nothing exists -/
  | newAllocFail (e : Nat) (cls : Cls)
  /-- insert / emplace / resize / assign / rehash / … in which allocations may have thrown; what the container
      freed while unwinding is part of `acts` -/
  | mutateF (e : Nat) (acts : List FAct)
  /-- `d = c` (POCCA = false) in which allocations may have thrown -/
  | copyAssignF (d c : Nat) (acts : List FAct)
  /-- `Container d(c)` that threw: the new pool exists (`select_on_container_copy_construction`), nodes were
      built through it, the failed request, the nodes are freed again, the allocator object dies: afterwards
      there is no `d` -/
  | copyConstructF (d c : Nat) (cls : Cls) (cb : Nat) (acts : List FAct)
  /-- `Container d(c)` that threw inside `select_on_container_copy_construction` (106-109; not `noexcept` since the
      repair of the finding reported with this layer): the control block of the new allocator object could not be
      allocated — no pool, no container, nothing changes (`c` must exist, `d` must not) -/
  | copyConstructNewFail (d c : Nat) (cls : Cls)
deriving Repr

def fcstep (cs : CSys) (op : FCOp) : CSys :=
  if cs.sys.err.isSome then cs else
  match op with
  | .ok o => cstep cs o
  | .newAllocFail e _ => if (findEnt cs e).isSome then cs.cfail else cs
  | .mutateF e acts =>
    match findEnt cs e with
    | none => cs.cfail
    | some en => acts.foldl (factStep e en.pid) cs
  | .copyAssignF d c acts =>
    match findEnt cs d, findEnt cs c with
    | some de, some _ => if pocca then cs.cfail else acts.foldl (factStep d de.pid) cs
    | _, _ => cs.cfail
  | .copyConstructF d c cls cb acts =>
    -- construction of the allocator object (`c` must exist, `d` must not), the calls made through it, its
    -- destruction (`d` must hold nothing any more); an error at any stage stays
    cstep (acts.foldl (factStep d cs.sys.pools.length)
             (cstep cs (.copyConstruct d c cls cb []))) (.destroy d [])
  | .copyConstructNewFail d c _ =>
    match findEnt cs c with
    | none => cs.cfail
    | some _ => if (findEnt cs d).isSome then cs.cfail else cs

def fcrun (cs : CSys) (ops : List FCOp) : CSys := ops.foldl fcstep cs

/-- parameters of the single-object requests an act serves successfully -/
def Act.singleCls : Act → List Cls
  | .alloc cls 1 _ _ => [cls]
  | _ => []

def FAct.singleCls : FAct → List Cls
  | .ok a => a.singleCls
  | .allocFail _ _ => []

def actsSingleCls (acts : List Act) : List Cls := acts.flatMap Act.singleCls
def factsSingleCls (acts : List FAct) : List Cls := acts.flatMap FAct.singleCls

/-- parameters of the single-object requests a container call serves successfully (the node types in use) -/
def COp.singleCls : COp → List Cls
  | .mutate _ acts => actsSingleCls acts
  | .copyAssign _ _ acts => actsSingleCls acts
  | .copyConstruct _ _ _ _ acts => actsSingleCls acts
  | .moveAssign _ _ acts => actsSingleCls acts
  | .destroy _ acts => actsSingleCls acts
  | _ => []

def FCOp.singleCls : FCOp → List Cls
  | .ok o => o.singleCls
  | .newAllocFail _ _ => []
  | .mutateF _ acts => factsSingleCls acts
  | .copyAssignF _ _ acts => factsSingleCls acts
  | .copyConstructF _ _ _ _ acts => factsSingleCls acts
  | .copyConstructNewFail _ _ _ => []

/-! ## `is_always_equal` -/

/-- `std::allocator_traits<unsynchronized_pool_allocator<…>>::is_always_equal`: the class declares no such
    member (T1: no occurrence of the name) and is not empty (T1: the `std::shared_ptr<MemPool> mMemPool`
    member), so the trait is `std::is_empty<…>::type` -/
def alwaysEqual : Bool := !(Extracted.paIsAlwaysEqualDecls == 0 && Extracted.paSharedPtrMember == 1)

/-! ## `pvCheckParams` of the pool object created by the re-parameterisation (119) -/

/-- the `MOMO_CHECK`s of `MemPool::pvCheckParams` (MemPool.h 440-446) for `blockCount = N` and parameters `q` -/
def checkParams (N : Nat) (q : Cls) : Prop :=
  0 < N ∧ N < Extracted.poolBlockCountLimit ∧
  0 < q.2 ∧ q.2 ≤ Extracted.poolMaxBlockAlignment ∧
  0 < q.1 ∧
  (N = 1 ∨ q.1 % q.2 = 0) ∧
  (N = 1 ∨ q.1 / q.2 ≥ Extracted.poolMinSizeRatio)

/-- the same history with faults, from the F13 witness: a failing request in front of every call changes nothing -/
def f13f : List FOp :=
  [.ok (.anew (8, 4) 100), .ok (.acopy 0), .ok (.acopy 0),
   .allocFail 0 (24, 8) 1,                  -- l.push_back(1) throws: the idle pool is re-parameterised, nothing else
   .ok (.alloc 0 (24, 8) 1 1 [200]),
   .allocFail 0 (40, 8) 1,                  -- s.insert(1) throws on the raw path: nothing changes
   .ok (.alloc 0 (40, 8) 1 2 []),
   .ok (.dealloc 0 (24, 8) 1 1 []),
   .ok (.alloc 0 (40, 8) 1 3 [300]),
   .ok (.dealloc 0 (40, 8) 1 2 [])]

end Momo.PoolAlloc
