import Momo.Extracted
/-!
# Model of `momo::DataColumnList` (include/momo/DataColumn.h) — property C18

Executable, core Lean only (linked into `momo_model`).  The functions mirror the C++ as written:

| C++ (DataColumn.h)                                    | here                         |
|-------------------------------------------------------|------------------------------|
| `internal::StrHasher::GetHashCode64`            l.79  | `strHash`                    |
| `DataColumnTraits::GetVertices`                 l.671 | `shortCode`, `getVertices`   |
| `Graph::pvAddEdge` / `AddEdges` / `HasEdge`     l.822 | `addEdge`, `addEdges`        |
| `Graph::FillAddends` (recursive DFS)            l.834 | `fillEdges`, `fillVertex`    |
| `pvFillAddends` (member: edges of old columns) l.1160 | `oldEdges`, `fillAddends`    |
| `pvFillAddends` (static: root loop)            l.1174 | `fillRoots`                  |
| `pvAddEdges` (offsets by `UIntMath::Ceil`)     l.1190 | `newEdges`                   |
| `pvAdd` (retry loop over `codeParam`, commit)  l.1101 | `tryParams`, `add`           |
| `pvAddColumns`                                 l.1211 | `addColumns`                 |
| `pvGetOffset` / `GetOffset`                    l.1225 | `getOffset`                  |
| `Contains`                                     l.1072 | `contains`                   |
| `pvCreate` / `pvDestroy` / `pvCreateRaw` / `DestroyRaw` / `ImportRaw` l.1234-1309 | `createGroup`, `createRaw`, `destroyRaw` |

`size_t` is 64 bits: addends are computed modulo `W = 2^64` exactly as the C++ does (`sub64`,
`add64`).  Offsets and sizes are plain naturals; the theorems carry the hypothesis that rules the
64-bit wrap of *offsets* out (`(2^L + 1) * totalSize < 2^63`), which real rows satisfy.
External behaviour is a parameter: the item types are given by their `(size, alignment)`
(`ItemTraits::GetSize/GetAlignment`), allocation failures by a `Fault`, a throwing item
constructor by the index of the construction that throws.
-/
namespace Momo.Col

/-- 2^64: `size_t` arithmetic wraps modulo this -/
@[reducible] def W : Nat := 2 ^ 64
/-- root addend `size_t{1} << (8 * sizeof(size_t) - 1)` (pvFillAddends l.1182) -/
@[reducible] def H : Nat := 2 ^ (64 - Extracted.colRootShiftSub)

/-- `a - b` on `size_t` -/
def sub64 (a b : Nat) : Nat := (a % W + W - b % W) % W
/-- `a + b` on `size_t` -/
def add64 (a b : Nat) : Nat := (a + b) % W

/-- `UIntMath<>::Ceil(value, mod)` (Utility.h l.290): `((value + mod - 1) / mod) * mod` -/
def ceil (value mod : Nat) : Nat := ((value + mod - 1) / mod) * mod

/-- `StrHasher::GetHashCode64` (l.79): the recursion hashes the *tail first*, i.e. FNV-1a over the
reversed string. Argument: the bytes of the name. -/
def strHash : List Nat → Nat
  | [] => Extracted.colFnvBasis
  | ch :: rest => ((strHash rest ^^^ ch) * Extracted.colFnvPrime) % W

/-- static configuration of one `DataColumnList` instantiation -/
structure Cfg where
  /-- `ColumnTraits::logVertexCount` -/
  L : Nat
  /-- `sizeof(ColumnCode)` (8 for `uint64_t` string hashes and for `DataColumnCodeOffset`) -/
  codeBytes : Nat := 8
  /-- `Settings::keepRowNumber` -/
  rowNumber : Bool := false
deriving Repr, DecidableEq

/-- `vertexCount = 1 << logVertexCount` (l.794) -/
def Cfg.N (c : Cfg) : Nat := 2 ^ c.L
/-- `maxColumnCount = 1 << (logVertexCount - 1)` (l.655) -/
def Cfg.maxColumns (c : Cfg) : Nat := 2 ^ (c.L - Extracted.colMaxColumnLogSub)
/-- initial `mTotalSize`: `keepRowNumber ? sizeof(size_t) : 0` (l.914) -/
def Cfg.rowSlot (c : Cfg) : Nat := if c.rowNumber then 8 else 0

/-- the `shortCode` computed at the top of `GetVertices` (l.675-680), all in `size_t` -/
def shortCode (c : Cfg) (code : Nat) : Nat :=
  let s0 := code % W
  let s1 := if c.codeBytes > Extracted.colWideCodeBytes then (s0 + (s0 >>> Extracted.colShortShiftHi)) % W else s0
  let s2 := (s1 + (s1 >>> Extracted.colShortShiftMid)) % W
  if c.L < Extracted.colShortLogLim then (s2 + (s2 >>> Extracted.colShortShiftLo)) % W else s2

/-- `vertex1` of `GetVertices` (l.681) -/
def vertex1 (c : Cfg) (code param : Nat) : Nat :=
  (shortCode c code &&& (2 ^ c.L - 1)) ^^^ (param >>> Extracted.colParamShift)
/-- `vertex2` before the tie-break (l.682) -/
def vertex2raw (c : Cfg) (code param : Nat) : Nat :=
  ((shortCode c code >>> c.L) &&& (2 ^ c.L - 1)) ^^^ (param &&& Extracted.colParamMask)

/-- `DataColumnTraits::GetVertices(columnCode, codeParam)` (l.671-685) -/
def getVertices (c : Cfg) (code param : Nat) : Nat × Nat :=
  (vertex1 c code param,
   vertex2raw c code param ^^^ (if vertex1 c code param = vertex2raw c code param then 1 else 0))

/-! ## The graph and the depth-first fill of the addends -/

/-- `Graph::Edge` without the link: target vertex and the offset the two addends must sum to -/
structure Edge where
  vertex : Nat
  value : Nat
deriving Repr, DecidableEq

/-- `Graph::mEdges`: per vertex the singly linked list of its edges, newest first -/
abbrev Adj := Array (List Edge)

/-- `Graph::pvAddEdge` (l.857): prepend to the list of `v1` -/
def addEdge (g : Adj) (v1 v2 value : Nat) : Adj :=
  g.setIfInBounds v1 (⟨v2, value⟩ :: g.getD v1 [])

/-- `Graph::AddEdges` (l.822) -/
def addEdges (g : Adj) (v1 v2 value : Nat) : Adj :=
  addEdge (addEdge g v1 v2 value) v2 v1 value

/-- result of a fill: the addends, `false` of the C++, or the model's fuel ran out (shown
impossible under the size bound, `Momo.Col.fillRoots_no_fuel`) -/
inductive Res where
  | ok (a : Array Nat)
  | bad
  | fuel
deriving Repr, DecidableEq

/-- the `for (Edge* edge = mEdges[vertex]; …)` loop of `Graph::FillAddends` (l.837-852);
`rec v a` is the recursive call `FillAddends(addends, v)`; `addend = addends[vertex]` was read
once before the loop (l.836). -/
def fillEdges (rec : Nat → Array Nat → Res) : List Edge → Nat → Array Nat → Res
  | [], _, a => .ok a
  | e :: es, addend, a =>
    if a.getD e.vertex 0 = 0 then
      match rec e.vertex (a.setIfInBounds e.vertex (sub64 e.value addend)) with
      | .ok a' => fillEdges rec es addend a'
      | r => r
    else if add64 addend (a.getD e.vertex 0) ≠ e.value then .bad
    else fillEdges rec es addend a

/-- `Graph::FillAddends(addends, vertex)` (l.834); `fuel` bounds the recursion depth -/
def fillVertex : Nat → Adj → Nat → Array Nat → Res
  | 0, _, _, _ => .fuel
  | fuel + 1, g, v, a => fillEdges (fillVertex fuel g) (g.getD v []) (a.getD v 0) a

/-- the root loop of the static `pvFillAddends` (l.1178-1185) over the vertices `vs` -/
def fillRoots (fuel : Nat) (g : Adj) : List Nat → Array Nat → Res
  | [], a => .ok a
  | v :: vs, a =>
    if (g.getD v []).isEmpty || a.getD v 0 ≠ 0 then fillRoots fuel g vs a
    else
      match fillVertex fuel g v (a.setIfInBounds v H) with
      | .ok a' => fillRoots fuel g vs a'
      | r => r

/-! ## The column list -/

/-- `ColumnRecord` (l.771): code and offset; `size`/`align` are those of the column's static item
type (`ItemTraits::GetSize<Item>()`, `GetAlignment<Item>()`), which the C++ keeps in the function
records' template arguments -/
structure ColRec where
  code : Nat
  offset : Nat
  size : Nat
  align : Nat
deriving Repr, DecidableEq

/-- one argument of `Add(column, columns...)`: code, item size/alignment, `IsMutable()` -/
structure Item where
  code : Nat
  size : Nat
  align : Nat
  mutable : Bool := false
deriving Repr, DecidableEq

/-- `FuncRecord` (l.891): first column index and the number of `Items...` of that `Add` call -/
structure FuncRec where
  columnIndex : Nat
  count : Nat
deriving Repr, DecidableEq

structure State where
  codeParam : Nat            -- mCodeParam
  addends : Array Nat        -- mAddends
  totalSize : Nat            -- mTotalSize
  alignment : Nat            -- mAlignment
  codeSet : List Nat         -- mColumnCodeSet (a set; kept in insertion order here)
  columns : List ColRec      -- mColumns
  funcRecs : List FuncRec    -- mFuncRecords
  mutCount : Nat             -- mMutableOffsets.GetCount()
  mutBits : List Nat         -- offsets whose bit is set in mMutableOffsets
deriving Repr, DecidableEq

/-- `DataColumnList(MemManager)` (l.912-922) -/
def init (c : Cfg) : State :=
  { codeParam := 0, addends := Array.replicate c.N 0, totalSize := c.rowSlot, alignment := 1,
    codeSet := [], columns := [], funcRecs := [], mutCount := 0, mutBits := [] }

/-- member `pvFillAddends`, first half (l.1164-1169): one edge pair per existing column -/
def oldEdges (c : Cfg) (param : Nat) : List ColRec → Adj → Adj
  | [], g => g
  | r :: rs, g =>
    oldEdges c param rs
      (addEdges g (getVertices c r.code param).1 (getVertices c r.code param).2 r.offset)

/-- `pvAddEdges<void, Item, Items...>` (l.1189-1202): returns graph, `offset`, `maxAlignment` -/
def newEdges (c : Cfg) (param : Nat) : List Item → Adj → Nat → Nat → Adj × Nat × Nat
  | [], g, off, al => (g, off, al)
  | it :: its, g, off, al =>
    newEdges c param its
      (addEdges g (getVertices c it.code param).1 (getVertices c it.code param).2 (ceil off it.align))
      (ceil off it.align + it.size) (max al it.align)

/-- the graph of one attempt (old columns first, then the new items) with the resulting
`offset` and `maxAlignment` -/
def buildGraph (c : Cfg) (st : State) (items : List Item) (param : Nat) : Adj × Nat × Nat :=
  newEdges c param items (oldEdges c param st.columns (Array.replicate c.N [])) st.totalSize st.alignment

/-- one pass of the `while (true)` loop body of `pvAdd` (l.1114-1117): zero the addends, build
the graph, fill -/
def fillAddends (c : Cfg) (st : State) (items : List Item) (param : Nat) : Res × Nat × Nat :=
  match buildGraph c st items param with
  | (g, off, al) => (fillRoots c.N g (List.range c.N) (Array.replicate c.N 0), off, al)

/-- outcome of the retry loop -/
inductive Try where
  | found (param : Nat) (a : Array Nat) (offset maxAlign : Nat)
  | none       -- `codeParam > maxCodeParam`: "Cannot add columns"
  | fuel
deriving Repr, DecidableEq

/-- the `while (true)` loop of `pvAdd` (l.1112-1122); `n` = number of parameters still allowed -/
def tryParams (c : Cfg) (st : State) (items : List Item) : Nat → Nat → Try
  | 0, _ => .none
  | n + 1, param =>
    match fillAddends c st items param with
    | (.ok a, off, al) => .found param a off al
    | (.fuel, _, _) => .fuel
    | (.bad, _, _) =>
      if param + 1 > Extracted.colMaxCodeParam then .none else tryParams c st items n (param + 1)

/-- `pvGetOffset` (l.1225): `mAddends[v1] + mAddends[v2]` in `size_t` -/
def getOffsetWith (c : Cfg) (param : Nat) (a : Array Nat) (code : Nat) : Nat :=
  add64 (a.getD (getVertices c code param).1 0) (a.getD (getVertices c code param).2 0)

def getOffset (c : Cfg) (st : State) (code : Nat) : Nat :=
  getOffsetWith c st.codeParam st.addends code

/-- `Contains(columnInfo, &resOffset)` (l.1072-1085): `none` = false, `some off` = true with
`*resOffset = off` -/
def contains (c : Cfg) (st : State) (code : Nat) : Option Nat :=
  if st.addends.getD (getVertices c code st.codeParam).1 0 = 0
      ∨ st.addends.getD (getVertices c code st.codeParam).2 0 = 0 then none
  else if st.codeSet.contains code then some (getOffset c st code)
  else none

/-- `pvAddColumns` (l.1210-1219): offsets are read back through `pvGetOffset` -/
def addColumns (c : Cfg) (param : Nat) (a : Array Nat) : List Item → List ColRec
  | [] => []
  | it :: its => ⟨it.code, getOffsetWith c param a it.code, it.size, it.align⟩ :: addColumns c param a its

/-- where an allocation failure strikes inside `pvAdd` (l.1137-1150) -/
inductive Fault where
  | none
  | reserve   -- `mColumns.Reserve`, `mFuncRecords.Reserve` or `mMutableOffsets.SetCount` throws
  | insert    -- `mColumnCodeSet.Insert` throws (after `mMutableOffsets.SetCount` succeeded)
deriving Repr, DecidableEq

inductive AddOut where
  | ok
  | tooMany      -- std::logic_error("Too many columns")
  | cannot       -- std::runtime_error("Cannot add columns")
  | badAlloc
  | unmodelled   -- the model's fuel ran out (impossible under the size bound)
deriving Repr, DecidableEq

/-- `(offset + 7) / 8` (l.1139) -/
def mutBytes (offset : Nat) : Nat := (offset + Extracted.colMutRound) / Extracted.colMutDiv

/-- `pvAdd(columnMutables, columns...)` (l.1100-1157) -/
def add (c : Cfg) (st : State) (items : List Item) (fault : Fault) : State × AddOut :=
  if items.length + st.columns.length > c.maxColumns then (st, .tooMany)
  else
    match tryParams c st items (Extracted.colMaxCodeParam + 1 - st.codeParam) st.codeParam with
    | .none => (st, .cannot)
    | .fuel => (st, .unmodelled)
    | .found param a offset maxAlign =>
      match fault with
      | .reserve => (st, .badAlloc)
      | .insert => ({ st with mutCount := mutBytes offset }, .badAlloc)
      | .none =>
        ({ codeParam := param, addends := a, totalSize := offset, alignment := maxAlign,
           codeSet := st.codeSet ++ items.map (·.code),
           columns := st.columns ++ addColumns c param a items,
           funcRecs := st.funcRecs ++ [⟨st.columns.length, items.length⟩],
           mutCount := mutBytes offset,
           mutBits := st.mutBits ++ ((items.filter (·.mutable)).map (fun it => getOffsetWith c param a it.code)) },
         .ok)

/-- a history of `Add` calls (refused ones included) from the empty list -/
def run (c : Cfg) (ops : List (List Item × Fault)) : State :=
  ops.foldl (fun st op => (add c st op.1 op.2).1) (init c)

/-- `IsMutable(offset)` (l.1002) -/
def isMutable (st : State) (offset : Nat) : Bool := st.mutBits.contains offset

/-! ## Rows: `CreateRaw`, `ImportRaw`, `DestroyRaw` -/

/-- what happens to the item slots of one row -/
inductive Ev where
  | create (off : Nat)            -- `ItemTraits::Create(memManager, item)` at offset `off`
  | copy (srcOff off : Nat)       -- `ItemTraits::Copy(memManager, *srcItem, item)`
  | destroy (off : Nat)           -- `ItemTraits::Destroy(memManager, item)`
deriving Repr, DecidableEq

/-- the construction of one item (l.1251-1254): `Copy` when there is a source item, else `Create` -/
def ctorEv (srcOf : ColRec → Option Nat) (r : ColRec) : Ev :=
  match srcOf r with | some s => Ev.copy s r.offset | none => Ev.create r.offset

/-- `pvCreate<Item, Items...>` (l.1234-1264) on the column records of one function record.
`srcOf r` = offset of the source item when there is one (l.1241-1250).  `k` counts the
constructions that still succeed (`none` = all do).  Returns the events, whether the call returned
normally, and the remaining count. -/
def createGroup (srcOf : ColRec → Option Nat) : List ColRec → Option Nat → List Ev × Bool × Option Nat
  | [], k => ([], true, k)
  | r :: rs, k =>
    if k = some 0 then ([], false, some 0)        -- Create / Copy throws: nothing was constructed
    else
      match createGroup srcOf rs (k.map (· - 1)) with
      | (evs, true, k') => (ctorEv srcOf r :: evs, true, k')
      | (evs, false, k') =>                       -- catch (...) { Destroy(item); throw; }
        (ctorEv srcOf r :: evs ++ [Ev.destroy r.offset], false, k')

/-- `pvDestroy<void, Items...>` (l.1272-1278): forward order -/
def destroyGroup (rs : List ColRec) : List Ev := rs.map (fun r => Ev.destroy r.offset)

/-- the column records a function record works on: `&mColumns[columnIndex]`, `count` items -/
def group (st : State) (fr : FuncRec) : List ColRec := (st.columns.drop fr.columnIndex).take fr.count

/-- the loop of `pvCreateRaw` (l.1286-1309); `done` = function records already completed -/
def createLoop (st : State) (srcOf : ColRec → Option Nat) :
    List FuncRec → List FuncRec → Option Nat → List Ev × Bool
  | [], _, _ => ([], true)
  | fr :: frs, done, k =>
    match createGroup srcOf (group st fr) k with
    | (evs, true, k') =>
      match createLoop st srcOf frs (done ++ [fr]) k' with
      | (evs2, ok) => (evs ++ evs2, ok)
    | (evs, false, _) =>
      (evs ++ (done.map (fun d => destroyGroup (group st d))).flatten, false)

/-- where `ImportRaw` takes an item from -/
inductive Src where
  | fresh                 -- `CreateRaw`: every item is default-created
  | same                  -- `ImportRaw(srcColumnList == this)`: same offsets
  | other (c : Cfg) (src : State)   -- another column list: `srcColumnList->Contains(*columns, &srcOffset)`

def srcOf : Src → ColRec → Option Nat
  | .fresh, _ => none
  | .same, r => some r.offset
  | .other c src, r => contains c src r.code

/-- `pvCreateRaw(memManager, srcColumnList, srcRaw, raw)`; `k = some i`: the `i`-th item
construction (0-based, in execution order) throws -/
def createRaw (st : State) (src : Src) (k : Option Nat) : List Ev × Bool :=
  createLoop st (srcOf src) st.funcRecs [] k

/-- `DestroyRaw` (l.1023-1027) -/
def destroyRaw (st : State) : List Ev :=
  (st.funcRecs.map (fun fr => destroyGroup (group st fr))).flatten

/-- replays events on the set of live item slots of a row: `none` if a slot is constructed twice
or a slot that is not live is destroyed -/
def replay : List Ev → List Nat → Option (List Nat)
  | [], live => some live
  | .create off :: evs, live => if live.contains off then none else replay evs (off :: live)
  | .copy _ off :: evs, live => if live.contains off then none else replay evs (off :: live)
  | .destroy off :: evs, live => if live.contains off then replay evs (live.erase off) else none

end Momo.Col
