import Momo.Extracted
import Momo.Model.Arr
import Momo.Model.Pool
/-
  Model of `momo::internal::MemPoolUInt32<blockCount, MemManager>` (include/momo/MemPool.h 803-939) - C09.
  The second pool class of MemPool.h (used by `BucketLim4`): blocks are addressed by 32-bit indices, buffers of
  `blockCount` blocks each are kept in an `Array<Byte*>` (`mBuffers`), the free chain is stored in the first four bytes
  of every free block, `nullPtr = 0xFFFFFFFF` ends it.

    index  ->  (buffer number, offset):   `block / blockCount`, `block % blockCount`      (GetRealPointer 854-860)
    real pointer                          `mBuffers[block / blockCount] + (block % blockCount) * mBlockSize`
    Allocate 862-870, Deallocate 872-881, DeallocateAll 883-887, pvNewBuffer 900-916, pvClear 918-926, destructor 835-839

  Memory is a map from addresses to the `uint32_t` stored there as long as the pool owns those bytes (`none` = the
  bytes belong to the user of a handed-out block, or to nobody).  The memory manager is a parameter: its answers are
  given to every operation (`orc k` answers the k-th request of the operation), its calls are returned as events - also
  those of the storage of `mBuffers` (`Array::Reserve` / `Clear(true)`, growth policy `ArraySettings::GrowCapacity`).
  Proofs: `Momo/Proof/PoolU32*.lean`; property theorems in `Momo/Props/C09.lean`.
  Core Lean only (no Mathlib): this file is linked into the driver.
-/
namespace Momo.PoolU32
open Momo
open Momo.Pool (Ev ledger)

/-- `UIntConst::max32` = `MemPoolUInt32::nullPtr` (812); compared with the build by the harness op `consts` -/
@[reducible] def nullPtr : Nat := 4294967295
/-- `sizeof(uint32_t)`, `sizeof(Byte*)` -/
@[reducible] def sizeofU32 : Nat := 4
@[reducible] def sizeofPtr : Nat := 8

/-- `static_cast<uint32_t>` -/
def w32 (x : Nat) : Nat := x % 4294967296

/-- template parameter `blockCount`, `mBlockSize`, `mMaxBufferCount` -/
structure Cfg where
  N : Nat
  S : Nat
  maxBuf : Nat
deriving Repr, DecidableEq

/-- the constructor (821-831): `mMaxBufferCount(maxTotalBlockCount / blockCount)`,
    `mBlockSize(std::minmax(blockSize, sizeof(uint32_t)).second)` -/
def mkCfg (blockCount blockSize maxTotalBlockCount : Nat) : Cfg :=
  ⟨blockCount, if blockSize ≥ sizeofU32 then blockSize else sizeofU32, maxTotalBlockCount / blockCount⟩

/-- `pvGetBufferSize` (928-931) -/
def Cfg.bufferSize (C : Cfg) : Nat := C.N * C.S

structure State where
  bufs : List Int             -- `mBuffers`: the address of buffer `k` at position `k`
  arrCap : Nat                -- capacity of the storage of `mBuffers` (0 = none allocated)
  arrAddr : Int               -- its address (meaningful when `arrCap > 0`)
  head : Nat                  -- `mBlockHead`
  mem : Int → Option Nat      -- the `uint32_t` at an address, while the pool owns these bytes
  allocCount : Nat            -- `mAllocCount`

def State.empty : State := ⟨[], 0, 0, nullPtr, fun _ => none, 0⟩

inductive Res (α : Type) where
  | ok (val : α) (st : State) (evs : List Ev)
  | badAlloc (st : State) (evs : List Ev)     -- the memory manager threw; `st` is the state left behind
  | lengthError (st : State)                  -- `std::length_error("Invalid buffer count")`
  | stuck (why : String)                      -- an assertion of the source fails / a word not owned is read

abbrev Oracle := Nat → Option Int

/-- buffer number and offset of a block index (857-858) -/
def bufferOf (C : Cfg) (block : Nat) : Nat := block / C.N
def offsetOf (C : Cfg) (block : Nat) : Nat := block % C.N

/-- `GetRealPointer(block)` (854-860); `none` = `mBuffers[...]` out of range (assertion of the nested array) -/
def realPtr (C : Cfg) (st : State) (block : Nat) : Option Int :=
  (st.bufs[bufferOf C block]?).map fun b => b + ((offsetOf C block * C.S : Nat) : Int)

def setW (m : Int → Option Nat) (a : Int) (v : Option Nat) : Int → Option Nat := fun x => if x = a then v else m x

/-- the loop of `pvNewBuffer` (908-913) for `i = k, k+1, …`: `pvSetNextBlock(nextBlock, buffer + mBlockSize * i)` -/
def initLinks (C : Cfg) (bufferCount : Nat) (base : Int) : List Nat → (Int → Option Nat) → (Int → Option Nat)
  | [], m => m
  | i :: is, m =>
    initLinks C bufferCount base is
      (setW m (base + ((C.S * i : Nat) : Int))
        (some (if i + 1 < C.N then w32 (bufferCount * C.N + i + 1) else nullPtr)))

/-- the second half of `pvNewBuffer` (906-915): the buffer itself -/
def addBuffer (C : Cfg) (st : State) (ans : Option Int) (evs : List Ev) : Res Unit :=
  match ans with
  | none => .badAlloc st evs
  | some base =>
    .ok () { st with bufs := st.bufs ++ [base], head := w32 (st.bufs.length * C.N),
                     mem := initLinks C st.bufs.length base (List.range C.N) st.mem }
      (evs ++ [.malloc base C.bufferSize])

/-- `pvNewBuffer` (900-916): the length check, `mBuffers.Reserve(bufferCount + 1)` (grows the storage of the array by
    `GrowCapacity`: new storage first, then the old one is given back), then the buffer -/
def newBuffer (C : Cfg) (st : State) (orc : Oracle) : Res Unit :=
  if st.bufs.length ≥ C.maxBuf then .lengthError st
  else if st.bufs.length + 1 > st.arrCap then
    match orc 0 with
    | none => .badAlloc st []
    | some a =>
      addBuffer C { st with arrCap := Arr.growCapacity true st.arrCap (st.bufs.length + 1) true false, arrAddr := a }
        (orc 1)
        ([.malloc a ((Arr.growCapacity true st.arrCap (st.bufs.length + 1) true false * sizeofPtr : Nat) : Int)] ++
          (if st.arrCap > 0 then [.free st.arrAddr ((st.arrCap * sizeofPtr : Nat) : Int)] else []))
  else addBuffer C st (orc 0) []

/-- `Allocate` (862-870) after the possible `pvNewBuffer` -/
def takeHead (C : Cfg) (st : State) (evs : List Ev) : Res Nat :=
  if st.head = nullPtr then .stuck "GetRealPointer: assert block != nullPtr"
  else
    match realPtr C st st.head with
    | none => .stuck "GetRealPointer: buffer index out of range"
    | some a =>
      match st.mem a with
      | none => .stuck "Allocate: link word of a live block read"
      | some nxt =>
        .ok st.head { st with head := nxt, mem := setW st.mem a none, allocCount := st.allocCount + 1 } evs

/-- `Allocate` (862-870) -/
def allocate (C : Cfg) (st : State) (orc : Oracle) : Res Nat :=
  if st.head = nullPtr then
    match newBuffer C st orc with
    | .ok _ st1 evs => takeHead C st1 evs
    | .badAlloc st1 evs => .badAlloc st1 evs
    | .lengthError st1 => .lengthError st1
    | .stuck w => .stuck w
  else takeHead C st []

/-- `pvClear` (918-926): every buffer goes back, then `mBuffers.Clear(true)` gives the storage of the array back -/
def clear (C : Cfg) (st : State) : State × List Ev :=
  ({ st with bufs := [], arrCap := 0, head := nullPtr, mem := fun _ => none },
   st.bufs.map (fun b => Ev.free b C.bufferSize) ++
     (if st.arrCap > 0 then [.free st.arrAddr ((st.arrCap * sizeofPtr : Nat) : Int)] else []))

/-- `Deallocate` (872-881) -/
def deallocate (C : Cfg) (st : State) (block : Nat) : Res Unit :=
  if block = nullPtr then .stuck "Deallocate: assert block != nullPtr"
  else if st.allocCount = 0 then .stuck "Deallocate: assert mAllocCount > 0"
  else
    match realPtr C st block with
    | none => .stuck "GetRealPointer: buffer index out of range"
    | some a =>
      if st.allocCount - 1 = 0 ∧ st.bufs.length > 2 then
        .ok () (clear C { st with mem := setW st.mem a (some st.head), head := block, allocCount := st.allocCount - 1 }).1
          (clear C { st with mem := setW st.mem a (some st.head), head := block, allocCount := st.allocCount - 1 }).2
      else
        .ok () { st with mem := setW st.mem a (some st.head), head := block, allocCount := st.allocCount - 1 } []

/-- `DeallocateAll` (883-887) -/
def deallocateAll (C : Cfg) (st : State) : Res Unit :=
  .ok () { (clear C st).1 with allocCount := 0 } (clear C st).2

/-- `~MemPoolUInt32` (835-839); afterwards the destructor of `mBuffers` finds no storage -/
def destroy (C : Cfg) (st : State) : Res Unit :=
  if st.allocCount ≠ 0 then .stuck "~MemPoolUInt32: assert mAllocCount == 0"
  else .ok () (clear C st).1 (clear C st).2

/-! ## observers -/

/-- address of block `i` (0 for an index outside the buffers) -/
def rp (C : Cfg) (st : State) (i : Nat) : Int := (realPtr C st i).getD 0

/-- live indices: blocks of the buffers whose first word the pool does not own -/
def live (C : Cfg) (st : State) : List Nat :=
  (List.range (st.bufs.length * C.N)).filter fun i => (st.mem (rp C st i)).isNone

/-- the memory the pool holds: the buffers and the storage of `mBuffers` -/
def owned (C : Cfg) (st : State) : List (Int × Int) :=
  st.bufs.map (fun b => (b, (C.bufferSize : Int))) ++
    (if st.arrCap > 0 then [(st.arrAddr, ((st.arrCap * sizeofPtr : Nat) : Int))] else [])

/-- the free chain as `Allocate` would walk it: the indices visited (`none` = a word not owned is read) -/
def freeChain (C : Cfg) (st : State) : Nat → Nat → Option (List Nat)
  | 0, _ => some []
  | f+1, i =>
    if i = nullPtr then some []
    else
      match realPtr C st i with
      | none => none
      | some a =>
        match st.mem a with
        | none => none
        | some nxt => (freeChain C st f nxt).map (i :: ·)

end Momo.PoolU32
