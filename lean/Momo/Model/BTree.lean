import Momo.Extracted
/-
  Model of momo's lazy B-tree (C02; used by C04/C10/C15): `momo::TreeSet` (TreeSet.h), the node class
  `momo::internal::Node` (details/TreeNode.h) and `TreeNode::GetSplitItemIndex`. `TreeMap` is a thin wrapper over a
  `TreeSet` of key/value pairs (TreeMap.h: every function forwards to `mTreeSet`), so the same model serves both.

  What is mirrored (file:line of /repo/include/momo at the time of writing):
    * Node::Create / pvGetLeafMemPoolIndex / GetCapacity          TreeNode.h:143-188, 274-282   -> `leafCap`
    * TreeNode::GetSplitItemIndex                                 TreeNode.h:393-399            -> `splitIdx`
    * iterator operator++ / operator-- / pvMoveIf / pvMove        TreeSet.h:57-100, 145-170     -> `next`, `prev`, `moveIf`, `climb`
    * GetBegin / GetEnd                                           TreeSet.h:581-596             -> `Tree.beginPos`, `Tree.endPos`
    * pvFindFirst (tree and in-node, linear and binary)           TreeSet.h:1124-1170           -> `findFirst`, `findLin`, `findBin`
    * pvGetLowerBound / pvGetUpperBound / pvFind / ContainsKey / pvGetKeyCount   TreeSet.h:1106-1186
    * pvInsert / pvAdd / pvAddFirst / pvAddGrow / pvAddSplit, Relocator::SplitNode / pvSplitNode   TreeSet.h:424-490, 1188-1318
    * pvRemove / pvRemoveInternal / pvDestroyInternal / pvRebalance (both overloads)   TreeSet.h:1320-1384, 1466-1476, 1511-1584
    * Remove(begin, end) / pvRemoveRange / pvGetCommonParent      TreeSet.h:819-867, 1386-1464, 1478-1493
    * Remove(key) / Remove(filter) / Extract / Insert(ExtractedItem) / ResetKey / Insert(range)   TreeSet.h:722-759, 869-920
    * MergeTo / pvMergeTo / pvMergeToLinear / pvMergeFast         TreeSet.h:936-978, 1586-1705
    * copy constructor / pvCopy, move, Swap, Clear                TreeSet.h:527-579, 626-635, 1011-1042

  Parent pointers are abstracted: a node is identified by its path (child indexes from the root), an iterator
  `(Node*, itemIndex)` is a `Pos`. The loops that walk parent pointers upwards (`pvMove`, `operator--`, `pvRebalance`,
  the cascade of `pvAddSplit`) become recursion along the path that unwinds bottom-up; they compute the same tree, and
  equality of the complete node shape (pre-order list of (isLeaf, count, capacity)) is compared with the real
  implementation by the correspondence harness after every operation.

  Core Lean only (no Mathlib): this file is linked into the driver.
-/
namespace Momo.BTree
open Momo

/-- a B-tree node: a leaf knows its capacity (it depends on the pool it was allocated from), an internal node always
    has capacity `maxCapacity`. Nodes may be empty (lazy rebalancing). -/
inductive Node (α : Type) where
  | leaf (cap : Nat) (items : List α)
  | inner (items : List α) (children : List (Node α))

instance {α : Type} : Inhabited (Node α) := ⟨.leaf 0 []⟩

/-- an iterator `(mNode, mItemIndex)`: `path` = child indexes from the root to `mNode` -/
structure Pos where
  path : List Nat
  idx : Nat
deriving DecidableEq, Repr, Inhabited

/-- the template parameters the behaviour depends on -/
structure Cfg where
  /-- `TreeNode::maxCapacity` (1..255) -/
  maxCap : Nat
  /-- `Node::capacityStep` = `tCapacityStep > 0 ? tCapacityStep : tMaxCapacity` -/
  step : Nat
  /-- `MemPoolParams::blockCount > 1` (first-pool-while-tiny rule of `pvGetLeafMemPoolIndex`) -/
  blockGt1 : Bool
  /-- `TreeTraits::useLinearSearch` -/
  linear : Bool
  /-- `TreeTraits::multiKey` -/
  multi : Bool
deriving Repr

/-- `TreeNode<>`: the default template arguments (TreeNode.h:374-377), from the extracted constants -/
def Cfg.default (linear multi : Bool) : Cfg :=
  { maxCap := Extracted.treeDefaultMaxCapacity
    step := if Extracted.treeDefaultMaxCapacity ≥ Extracted.treeStepThreshold
            then Extracted.treeDefaultMaxCapacity / Extracted.treeStepDivisor else Extracted.treeStepSmall
    blockGt1 := (if Extracted.treeDefaultMaxCapacity < Extracted.treeBlockThreshold
                 then Extracted.treeBlockCountSmall else Extracted.treeBlockCountLarge) > 1
    linear := linear, multi := multi }

variable {α : Type}

namespace Node

def count : Node α → Nat
  | leaf _ items => items.length
  | inner items _ => items.length

def isLeaf : Node α → Bool
  | leaf _ _ => true
  | inner _ _ => false

def items : Node α → List α
  | leaf _ is => is
  | inner is _ => is

def children : Node α → List (Node α)
  | leaf _ _ => []
  | inner _ cs => cs

mutual
  /-- in-order list of a subtree -/
  def toList : Node α → List α
    | leaf _ items => items
    | inner items children => inter children items
  /-- `c0 i0 c1 i1 … c_n` -/
  def inter : List (Node α) → List α → List α
    | [], _ => []
    | c :: cs, [] => toList c ++ inter cs []
    | c :: cs, i :: is => toList c ++ i :: inter cs is
end

def size (n : Node α) : Nat := n.toList.length

mutual
  /-- number of internal nodes = `GetInternalMemPool().GetAllocateCount()` of the tree's `NodeParams` -/
  def innerCount : Node α → Nat
    | leaf _ _ => 0
    | inner _ cs => innerCountL cs + 1
  def innerCountL : List (Node α) → Nat
    | [] => 0
    | c :: cs => innerCount c + innerCountL cs
end

mutual
  /-- `pvGetHeight`: 1 + number of descents through child 0 -/
  def height : Node α → Nat
    | leaf _ _ => 1
    | inner _ cs => heightHead cs + 1
  def heightHead : List (Node α) → Nat
    | [] => 0
    | c :: _ => height c
end

mutual
  /-- pre-order list of `(isLeaf, count, capacity)`; the capacity of an internal node is `maxCap` -/
  def shape (maxCap : Nat) : Node α → List (Bool × Nat × Nat)
    | leaf cap items => [(true, items.length, cap)]
    | inner items cs => (false, items.length, maxCap) :: shapeL maxCap cs
  def shapeL (maxCap : Nat) : List (Node α) → List (Bool × Nat × Nat)
    | [] => []
    | c :: cs => shape maxCap c ++ shapeL maxCap cs
end

mutual
  /-- path of zeros down to the leftmost leaf (`while (!node->IsLeaf()) node = node->GetChild(0)`) -/
  def leftPath : Node α → List Nat
    | leaf _ _ => []
    | inner _ cs => 0 :: leftPathHead cs
  def leftPathHead : List (Node α) → List Nat
    | [] => []
    | c :: _ => leftPath c
end

mutual
  /-- the rightmost leaf and its count (`while (!node->IsLeaf()) node = node->GetChild(node->GetCount())`) -/
  def rightPath : Node α → Pos
    | leaf _ items => ⟨[], items.length⟩
    | inner items cs => ⟨items.length :: (rightPathAt cs items.length).path, (rightPathAt cs items.length).idx⟩
  def rightPathAt : List (Node α) → Nat → Pos
    | [], _ => ⟨[], 0⟩
    | c :: _, 0 => rightPath c
    | _ :: cs, i+1 => rightPathAt cs i
end

/-- the node a path leads to -/
def nodeAt? : Node α → List Nat → Option (Node α)
  | n, [] => some n
  | leaf _ _, _ :: _ => none
  | inner _ cs, c :: p => match cs[c]? with
    | some ch => nodeAt? ch p
    | none => none

def countAt (r : Node α) (path : List Nat) : Nat :=
  match nodeAt? r path with
  | some n => n.count
  | none => 0

/-- the element an iterator points to (`operator->`) -/
def elemAt? (r : Node α) (pos : Pos) : Option α :=
  match nodeAt? r pos.path with
  | some n => n.items[pos.idx]?
  | none => none

/-- replace the node at `path` by `f` of it -/
def modifyAt (f : Node α → Node α) : Node α → List Nat → Node α
  | n, [] => f n
  | leaf cap is, _ :: _ => leaf cap is
  | inner is cs, c :: p => match cs[c]? with
    | some ch => inner is (cs.set c (modifyAt f ch p))
    | none => inner is cs

/-- number of elements of the in-order list that precede position `(path, i)`.
    For an item `i` of an internal node these are the children `0..i` and the items `0..i-1`;
    `([], root.count)` (= `GetEnd`) gets the total size. -/
def idxOf : Node α → List Nat → Nat → Nat
  | leaf _ _, _, i => i
  | inner _ cs, [], i => ((cs.take (i+1)).map (fun c => size c)).sum + i
  | inner _ cs, c :: p, i => ((cs.take c).map (fun ch => size ch)).sum + c +
      (match cs[c]? with
       | some ch => idxOf ch p i
       | none => 0)

/-! ### iterators -/

/-- `pvMove` seen from the node at `path`: the first ancestor (inside `n`) that is left through a child which is not
    its last child, with `itemIndex = GetChildIndex(child)`; `none` = the climb leaves `n` -/
def climb : Node α → List Nat → Option Pos
  | _, [] => none
  | leaf _ _, _ :: _ => none
  | inner is cs, c :: p => match cs[c]? with
    | some ch => match climb ch p with
      | some q => some ⟨c :: q.path, q.idx⟩
      | none => if c < is.length then some ⟨[], c⟩ else none
    | none => none

/-- `pvMoveIf`: an index equal to the node's count is moved to the next element upwards, or to `(root, root.count)` -/
def moveIf (r : Node α) (pos : Pos) : Pos :=
  if pos.idx = countAt r pos.path then (climb r pos.path).getD ⟨[], r.count⟩ else pos

/-- `GetBegin` -/
def beginPos (r : Node α) : Pos := moveIf r ⟨leftPath r, 0⟩

/-- `GetEnd` -/
def endPos (r : Node α) : Pos := ⟨[], r.count⟩

/-- `operator++` (TreeSet.h:57-75) -/
def next (r : Node α) (pos : Pos) : Pos :=
  match nodeAt? r pos.path with
  | some (leaf _ _) => moveIf r ⟨pos.path, pos.idx + 1⟩
  | some (inner _ cs) => match cs[pos.idx + 1]? with
    | some ch => moveIf r ⟨pos.path ++ (pos.idx + 1) :: leftPath ch, 0⟩
    | none => pos
  | none => pos

/-- the first half of `operator--` and of `pvAdd`: an iterator into an internal node is replaced by the end of the
    rightmost leaf of the child left of the item -/
def normLeaf (r : Node α) (pos : Pos) : Pos :=
  match nodeAt? r pos.path with
  | some (inner _ cs) => match cs[pos.idx]? with
    | some ch => ⟨pos.path ++ pos.idx :: (rightPath ch).path, (rightPath ch).idx⟩
    | none => pos
  | _ => pos

/-- `while (itemIndex == 0) { childNode = node; node = node->GetParent(); itemIndex = node->GetChildIndex(childNode); }`
    seen from the node at `path`: the first ancestor entered through a child index > 0 -/
def climbLeft : Node α → List Nat → Option Pos
  | _, [] => none
  | leaf _ _, _ :: _ => none
  | inner _ cs, c :: p => match cs[c]? with
    | some ch => match climbLeft ch p with
      | some q => some ⟨c :: q.path, q.idx⟩
      | none => if c > 0 then some ⟨[], c⟩ else none
    | none => none

/-- `operator--` (TreeSet.h:77-100); decrementing `GetBegin()` fails a `MOMO_CHECK` and is not modelled -/
def prev (r : Node α) (pos : Pos) : Pos :=
  if (normLeaf r pos).idx > 0 then ⟨(normLeaf r pos).path, (normLeaf r pos).idx - 1⟩
  else match climbLeft r (normLeaf r pos).path with
    | some q => ⟨q.path, q.idx - 1⟩
    | none => pos

/-! ### search -/

/-- index of the first element satisfying `p` -/
def firstTrue (p : α → Bool) : List α → Nat
  | [] => 0
  | x :: xs => if p x then 0 else firstTrue p xs + 1

/-- `pvFindFirst(node, pred)`, `useLinearSearch` branch (TreeSet.h:1146-1155): looks at the last item first -/
def findLin (p : α → Bool) (items : List α) : Nat :=
  match items.getLast? with
  | none => 0
  | some l => if p l then firstTrue p items else items.length

/-- the binary-search loop (TreeSet.h:1158-1168); `fuel ≥ hi - lo` suffices -/
def binLoop (p : α → Bool) (items : List α) : Nat → Nat → Nat → Nat
  | 0, lo, _ => lo
  | fuel+1, lo, hi =>
    if lo < hi then
      match items[(lo + hi) / 2]? with
      | some x => if p x then binLoop p items fuel lo ((lo + hi) / 2) else binLoop p items fuel ((lo + hi) / 2 + 1) hi
      | none => lo
    else lo

def findBin (p : α → Bool) (items : List α) : Nat := binLoop p items items.length 0 items.length

def findIn (linear : Bool) (p : α → Bool) (items : List α) : Nat :=
  if linear then findLin p items else findBin p items

mutual
  /-- `pvFindFirst(pred)` below one node (TreeSet.h:1124-1141): descend through child `index`, the deepest node with
      `index < count` wins (the loop overwrites `iter` on the way down); `none` = no candidate in this subtree -/
  def findFirst (linear : Bool) (p : α → Bool) : Node α → Option Pos
    | leaf _ items => if findIn linear p items < items.length then some ⟨[], findIn linear p items⟩ else none
    | inner items cs =>
      match findFirstAt linear p cs (findIn linear p items) with
      | some q => some ⟨findIn linear p items :: q.path, q.idx⟩
      | none => if findIn linear p items < items.length then some ⟨[], findIn linear p items⟩ else none
  def findFirstAt (linear : Bool) (p : α → Bool) : List (Node α) → Nat → Option Pos
    | [], _ => none
    | c :: _, 0 => findFirst linear p c
    | _ :: cs, i+1 => findFirstAt linear p cs i
end

/-- the iterator `pvFindFirst` returns: `GetEnd()` when nothing satisfies the predicate -/
def findPos (linear : Bool) (p : α → Bool) (r : Node α) : Pos := (findFirst linear p r).getD (endPos r)

end Node

open Node

/-! ### capacities and split point -/

/-- `Node::leafMemPoolCount - 1` = `maxCapacity / (2 * capacityStep)` -/
def lastLeafPool (cfg : Cfg) : Nat := cfg.maxCap / (Extracted.treeLeafPoolDivisor * cfg.step)

/-- capacity of a leaf made by `Node::Create(params, true, count)` while the internal pool holds `ia` nodes:
    `pvGetLeafMemPoolIndex` (first pool while `ia ≤ 1` and `blockCount > 1`, else `(maxCapacity - count) / capacityStep`
    clamped) and `GetCapacity` = `maxCapacity - capacityStep * index` -/
def leafCap (cfg : Cfg) (ia count : Nat) : Nat :=
  if ia ≤ 1 && cfg.blockGt1 then cfg.maxCap
  else cfg.maxCap - cfg.step * min ((cfg.maxCap - count) / cfg.step) (lastLeafPool cfg)

/-- `TreeNode::GetSplitItemIndex(itemCount, newItemIndex)` -/
def splitIdx (itemCount newItemIndex : Nat) : Nat :=
  if itemCount % Extracted.treeSplitModulus = 0 ∧ itemCount / Extracted.treeSplitDivisor > newItemIndex
  then itemCount / Extracted.treeSplitDivisor - 1 else itemCount / Extracted.treeSplitDivisor

/-! ### insertion at a position -/

/-- result of inserting below a node: the node itself (possibly regrown) or two halves and the separator that moves
    up. `pos` is where the new item is, relative to the node (`ok`) or to the half named by `right` (`split`). -/
inductive AddRes (α : Type) where
  | ok (n : Node α) (pos : Pos)
  | split (l : Node α) (sep : α) (r : Node α) (right : Bool) (pos : Pos)

/-- `pvAdd` at a leaf (TreeSet.h:1217-1230): in place, `pvAddGrow` (Relocator::GrowLeafNode), or the first
    `Relocator::pvSplitNode` of `pvAddSplit`. `all` = the items with the new one at `i`. -/
def addLeaf (cfg : Cfg) (ia cap : Nat) (items : List α) (i : Nat) (x : α) : AddRes α :=
  if items.length < cap then .ok (leaf cap (items.insertIdx i x)) ⟨[], i⟩
  else if items.length < cfg.maxCap then .ok (leaf (leafCap cfg ia (items.length + 1)) (items.insertIdx i x)) ⟨[], i⟩
  else if i ≤ splitIdx items.length i then
    match (items.insertIdx i x)[splitIdx items.length i + 1]? with
    | some sep => .split (leaf (leafCap cfg ia (splitIdx items.length i + 1)) ((items.insertIdx i x).take (splitIdx items.length i + 1)))
        sep (leaf (leafCap cfg ia (items.length - splitIdx items.length i - 1)) ((items.insertIdx i x).drop (splitIdx items.length i + 2)))
        false ⟨[], i⟩
    | none => .ok (leaf cap items) ⟨[], i⟩
  else
    match (items.insertIdx i x)[splitIdx items.length i]? with
    | some sep => .split (leaf (leafCap cfg ia (splitIdx items.length i)) ((items.insertIdx i x).take (splitIdx items.length i)))
        sep (leaf (leafCap cfg ia (items.length - splitIdx items.length i)) ((items.insertIdx i x).drop (splitIdx items.length i + 1)))
        true ⟨[], i - splitIdx items.length i - 1⟩
    | none => .ok (leaf cap items) ⟨[], i⟩

/-- the loop body of `pvAddSplit` at an internal node whose child `c` was split into `l sep r`
    (TreeSet.h:1283-1309, Relocator::SplitNode 424-445): the separator goes to index `c`; if the node is full it is split
    in turn. `right`/`pos` locate the new leaf item below `l` or `r`. -/
def addInner (cfg : Cfg) (items : List α) (cs : List (Node α)) (c : Nat) (l : Node α) (sep : α) (r : Node α)
    (right : Bool) (pos : Pos) : AddRes α :=
  if items.length < cfg.maxCap then
    .ok (inner (items.insertIdx c sep) (cs.take c ++ l :: r :: cs.drop (c + 1)))
      ⟨(if right then c + 1 else c) :: pos.path, pos.idx⟩
  else if c ≤ splitIdx items.length c then
    match (items.insertIdx c sep)[splitIdx items.length c + 1]? with
    | some sep' => .split
        (inner ((items.insertIdx c sep).take (splitIdx items.length c + 1))
               ((cs.take c ++ l :: r :: cs.drop (c + 1)).take (splitIdx items.length c + 2)))
        sep'
        (inner ((items.insertIdx c sep).drop (splitIdx items.length c + 2))
               ((cs.take c ++ l :: r :: cs.drop (c + 1)).drop (splitIdx items.length c + 2)))
        false ⟨(if right then c + 1 else c) :: pos.path, pos.idx⟩
    | none => .ok (inner items cs) pos
  else
    match (items.insertIdx c sep)[splitIdx items.length c]? with
    | some sep' => .split
        (inner ((items.insertIdx c sep).take (splitIdx items.length c))
               ((cs.take c ++ l :: r :: cs.drop (c + 1)).take (splitIdx items.length c + 1)))
        sep'
        (inner ((items.insertIdx c sep).drop (splitIdx items.length c + 1))
               ((cs.take c ++ l :: r :: cs.drop (c + 1)).drop (splitIdx items.length c + 1)))
        true ⟨((if right then c + 1 else c) - (splitIdx items.length c + 1)) :: pos.path, pos.idx⟩
    | none => .ok (inner items cs) pos

/-- put the result for child `c` back into its parent -/
def liftRes (cfg : Cfg) (items : List α) (cs : List (Node α)) (c : Nat) : AddRes α → AddRes α
  | .ok ch pos => .ok (inner items (cs.set c ch)) ⟨c :: pos.path, pos.idx⟩
  | .split l sep r right pos => addInner cfg items cs c l sep r right pos

/-- `pvAdd` for a leaf position `(path, i)` (the caller has applied `normLeaf`); `ia` = internal nodes alive when the
    operation starts (all leaves are created before any internal node, and old nodes die at the end) -/
def addAt (cfg : Cfg) (ia : Nat) (x : α) : Node α → List Nat → Nat → AddRes α
  | leaf cap items, _, i => addLeaf cfg ia cap items i x
  | inner items cs, [], i => .ok (inner items cs) ⟨[], i⟩
  | inner items cs, c :: p, i => match cs[c]? with
    | some ch => liftRes cfg items cs c (addAt cfg ia x ch p i)
    | none => .ok (inner items cs) ⟨c :: p, i⟩

/-- the root level of `pvAddSplit`: `node == nullptr` ⇒ a new internal root with one item -/
def addRoot (cfg : Cfg) (x : α) (r : Node α) (pos : Pos) : Node α × Pos :=
  match addAt cfg (innerCount r) x r (normLeaf r pos).path (normLeaf r pos).idx with
  | .ok n q => (n, q)
  | .split l sep rr right q => (inner [sep] [l, rr], ⟨(if right then 1 else 0) :: q.path, q.idx⟩)

/-! ### removal and rebalancing -/

/-- `pvDestroyInternal(node, i, destroyRight, …)`: item `i` goes away together with its right or left child -/
def destroyInternal (items : List α) (cs : List (Node α)) (i : Nat) (destroyRight : Bool) : Node α :=
  inner (items.eraseIdx i) (cs.eraseIdx (if destroyRight then i + 1 else i))

/-- assign item `i` of a node (`ItemTraits::AssignKey` in `ResetKey`) -/
def setItem (i : Nat) (x : α) : Node α → Node α
  | leaf cap items => leaf cap (items.set i x)
  | inner items cs => inner (items.set i x) cs

/-- remove item `i` of a node in place (`Node::Remove` on a leaf) -/
def removeItem (i : Nat) : Node α → Node α
  | leaf cap items => leaf cap (items.eraseIdx i)
  | inner items cs => inner (items.eraseIdx i) cs

mutual
  /-- the predecessor search of `pvRemoveInternal` (TreeSet.h:1357-1377) below the left child: go to the rightmost
      leaf, come back up while the node is empty, take the last item of the first non-empty node (from a leaf by
      `Remove`, from an internal node by `pvDestroyInternal(childNode, count-1, true)`).
      Result: the subtree without that item, the item, the path of `childNode`; `none` = the whole spine is empty. -/
  def popLast : Node α → Option (Node α × α × List Nat)
    | leaf cap items => match items.getLast? with
      | some x => some (leaf cap items.dropLast, x, [])
      | none => none
    | inner items cs => match popLastAt cs items.length with
      | some (c', x, p) => some (inner items (cs.set items.length c'), x, items.length :: p)
      | none => match items.getLast? with
        | some x => some (destroyInternal items cs (items.length - 1) true, x, [])
        | none => none
  def popLastAt : List (Node α) → Nat → Option (Node α × α × List Nat)
    | [], _ => none
    | c :: _, 0 => popLast c
    | _ :: cs, i+1 => popLastAt cs i
end

mutual
  /-- mirror image, used by `pvMergeFast` when the shorter tree is the greater one: `GetBegin()`'s node loses item 0
      (from an internal node together with its empty left child) -/
  def popFirst : Node α → Option (Node α × α)
    | leaf cap items => match items with
      | x :: rest => some (leaf cap rest, x)
      | [] => none
    | inner items cs => match popFirstHead cs with
      | some (c', x) => some (inner items (cs.set 0 c'), x)
      | none => match items with
        | x :: _ => some (destroyInternal items cs 0 false, x)
        | [] => none
  def popFirstHead : List (Node α) → Option (Node α × α)
    | [] => none
    | c :: _ => popFirst c
end

/-- the merged node of `pvRebalance(parentNode, index, savedNode)` (TreeSet.h:1558-1582): `node1` keeps its capacity and
    receives the separator and everything of `node2` -/
def mergeNodes (n1 : Node α) (sep : α) (n2 : Node α) : Node α :=
  match n1 with
  | leaf cap is => leaf cap (is ++ sep :: n2.items)
  | inner is cs => inner (is ++ sep :: n2.items) (cs ++ n2.children)

/-- capacity seen by `node1->GetCapacity()` -/
def capOf (cfg : Cfg) : Node α → Nat
  | leaf cap _ => cap
  | inner _ _ => cfg.maxCap

/-- how the path of the saved node changes when children `i` and `i+1` of its ancestor are merged
    (`c1` = old count of child `i`) -/
def mergeSaved (i c1 : Nat) : List Nat → List Nat
  | [] => []
  | j :: s => if j ≤ i then j :: s
    else if j = i + 1 then i :: (match s with
      | [] => []
      | k :: s' => (k + c1 + 1) :: s')
    else (j - 1) :: s

/-- `pvRebalance(parentNode, i + 1, savedNode)` (TreeSet.h:1545-1584): merge children `i` and `i+1` when `i < count`,
    the right one is not the saved node and `count1 + count2 + 1 ≤ capacity(node1)` -/
def tryMerge (cfg : Cfg) (items : List α) (cs : List (Node α)) (i : Nat) (saved : Option (List Nat)) :
    Option (Node α × Option (List Nat)) :=
  match items[i]?, cs[i]?, cs[i + 1]? with
  | some sep, some n1, some n2 =>
    if saved = some [i + 1] then none
    else if n1.count + n2.count + 1 > capOf cfg n1 then none
    else some (inner (items.eraseIdx i) (cs.take i ++ mergeNodes n1 sep n2 :: cs.drop (i + 2)),
               saved.map (mergeSaved i n1.count))
  | _, _, _ => none

/-- the part of the saved node's path that lies below child `c` (if it does) -/
def savedBelow (saved : Option (List Nat)) (c : Nat) : Option (List Nat) :=
  match saved with
  | some (j :: s) => if j = c then some s else none
  | _ => none

/-- the saved node's path after the subtree of child `c` reported `savedC` for its part -/
def savedLift (saved : Option (List Nat)) (c : Nat) (savedC : Option (List Nat)) : Option (List Nat) :=
  match saved with
  | some (j :: s) => if j = c then savedC.map (c :: ·) else some (j :: s)
  | o => o

/-- one round of the loop of `pvRebalance(node, savedNode, fast)` (TreeSet.h:1531-1536) in `parentNode = inner items cs`
    for its child `c`: `!pvRebalance(parentNode, c + 1, saved) && !pvRebalance(parentNode, c, saved) && fast` decides
    whether the loop stops; the Boolean is "goes on" -/
def rebStep (cfg : Cfg) (fast : Bool) (items : List α) (cs : List (Node α)) (c : Nat) (saved : Option (List Nat)) :
    Node α × Option (List Nat) × Bool :=
  match tryMerge cfg items cs c saved with
  | some (n', saved') => (n', saved', true)
  | none =>
    match (if c > 0 then tryMerge cfg items cs (c - 1) saved else none) with
    | some (n', saved') => (n', saved', true)
    | none => (inner items cs, saved, !fast)

/-- the loop of `pvRebalance(node, savedNode, fast)` (TreeSet.h:1523-1543) for the node at `path` below `n`, unwound
    bottom-up. `saved` = path of the saved node when it lies below `n`. The Boolean tells whether the loop is still
    running when it leaves `n` upwards. -/
def rebAux (cfg : Cfg) (fast : Bool) : Node α → List Nat → Option (List Nat) → Node α × Option (List Nat) × Bool
  | n, [], saved => (n, saved, true)
  | leaf cap is, _ :: _, saved => (leaf cap is, saved, false)
  | inner items cs, c :: p, saved =>
    match cs[c]? with
    | none => (inner items cs, saved, false)
    | some ch =>
      if (rebAux cfg fast ch p (savedBelow saved c)).2.2 then
        rebStep cfg fast items (cs.set c (rebAux cfg fast ch p (savedBelow saved c)).1) c
          (savedLift saved c (rebAux cfg fast ch p (savedBelow saved c)).2.1)
      else (inner items (cs.set c (rebAux cfg fast ch p (savedBelow saved c)).1),
            savedLift saved c (rebAux cfg fast ch p (savedBelow saved c)).2.1, false)

/-- the root-collapse loop at the top of `pvRebalance` (TreeSet.h:1513-1522): an empty internal root is replaced by its
    only child. `saved` (a leaf path) loses its leading 0, and so does `path`; when the node itself is the collapsed
    root (`if (node == rootNode) node = mRootNode;`) its path stays `[]` = the new root. -/
def collapseRoot : Node α → List Nat → List Nat → Node α × List Nat × List Nat
  | inner [] (c :: _), _ :: saved, path => collapseRoot c saved path.tail
  | n, saved, path => (n, saved, path)

/-- `pvRebalance(node, savedNode, fast)`: new root and new path of the saved node -/
def rebalance (cfg : Cfg) (fast : Bool) (r : Node α) (path saved : List Nat) : Node α × List Nat :=
  match collapseRoot r saved path with
  | (r1, saved1, path1) =>
    (match rebAux cfg fast r1 path1 (some saved1) with
     | (r2, saved2, _) => (r2, saved2.getD saved1))

/-- `pvRemove` (TreeSet.h:1320-1342) with `pvRemoveInternal` (1353-1384): new root and the returned iterator -/
def removeAt (cfg : Cfg) (r : Node α) (pos : Pos) : Node α × Pos :=
  match nodeAt? r pos.path with
  | some (leaf _ _) =>
    (match rebalance cfg true (modifyAt (removeItem pos.idx) r pos.path) pos.path pos.path with
     | (r', saved) => (r', moveIf r' ⟨saved, pos.idx⟩))
  | some (inner items cs) =>
    (match cs[pos.idx]?, cs[pos.idx + 1]? with
     | some left, some right =>
       (match popLast left with
        | none =>
          -- `childNode == node`: the left subtree is an empty chain and is destroyed with the item
          (match rebalance cfg true (modifyAt (fun _ => destroyInternal items cs pos.idx false) r pos.path)
              pos.path (pos.path ++ pos.idx :: leftPath right) with
           | (r', saved) => (r', moveIf r' ⟨saved, 0⟩))
        | some (left', x, cp) =>
          (match rebalance cfg true (modifyAt (fun _ => inner (items.set pos.idx x) (cs.set pos.idx left')) r pos.path)
              (pos.path ++ pos.idx :: cp) (pos.path ++ (pos.idx + 1) :: leftPath right) with
           | (r', saved) => (r', moveIf r' ⟨saved, 0⟩)))
     | _, _ => (r, pos))
  | none => (r, pos)

/-! ### range removal -/

/-- left boundary of `pvRemoveRange` (TreeSet.h:1408-1431): below the node, keep what precedes `(path, k)`;
    that item itself is handed out (it replaces the separator in the common parent) -/
def truncRight : Node α → List Nat → Nat → Node α × Option α
  | leaf cap items, _, k => (leaf cap (items.take k), items[k]?)
  | inner items cs, [], k => (inner (items.take k) (cs.take (k + 1)), items[k]?)
  | inner items cs, c :: p, k => match cs[c]? with
    | some ch => (inner (items.take c) (cs.take c ++ [(truncRight ch p k).1]), (truncRight ch p k).2)
    | none => (inner items cs, none)

/-- right boundary (TreeSet.h:1432-1450): below the node, keep what follows `(path, k)` -/
def truncLeft : Node α → List Nat → Nat → Node α
  | leaf cap items, _, k => leaf cap (items.drop (k + 1))
  | inner items cs, [], k => inner (items.drop (k + 1)) (cs.drop (k + 1))
  | inner items cs, c :: p, k => match cs[c]? with
    | some ch => inner (items.drop c) (truncLeft ch p k :: cs.drop (c + 1))
    | none => inner items cs

/-- `while (itemIndex1 == 0) { pvToParent(node1, itemIndex1); if (node1 == comNode) break; }` for a leaf slot given
    by its path below the common parent (in reverse order) -/
def climbZero : List Nat → Nat → List Nat × Nat
  | [], j => ([], j)
  | c :: rp, j => if j = 0 then climbZero rp c else (c :: rp, j)

/-- left side of `pvRemoveRange` inside the common parent `inner items cs` (TreeSet.h:1394-1431): the leaf slot of
    `begin`, the climb over leading zeros, then — unless the climb ends in the common parent — the predecessor of
    `begin` replaces the separator `a` and child `a` keeps only what precedes it.
    Result: new items, new children, first index of the common parent that goes away, path of `rebNode1`. -/
def rangeLeft (items : List α) (cs : List (Node α)) (p1 : List Nat) (i1 : Nat) :
    List α × List (Node α) × Nat × Option (List Nat) :=
  match (climbZero (normLeaf (inner items cs) ⟨p1, i1⟩).path.reverse (normLeaf (inner items cs) ⟨p1, i1⟩).idx).1.reverse with
  | [] => (items, cs, (climbZero (normLeaf (inner items cs) ⟨p1, i1⟩).path.reverse (normLeaf (inner items cs) ⟨p1, i1⟩).idx).2, none)
  | a :: q => match cs[a]? with
    | some ch =>
      (match truncRight ch q ((climbZero (normLeaf (inner items cs) ⟨p1, i1⟩).path.reverse
          (normLeaf (inner items cs) ⟨p1, i1⟩).idx).2 - 1) with
       | (ch', some x) => (items.set a x, cs.set a ch', a + 1, some (a :: q))
       | (_, none) => (items, cs, a, none))
    | none => (items, cs, a, none)

/-- right side (TreeSet.h:1432-1454): the subtree holding `prev(end)` keeps only what follows it.
    Result: new children, first index of the common parent that stays. -/
def rangeRight (cs : List (Node α)) (p2 : List Nat) (i2 : Nat) : List (Node α) × Nat :=
  match p2 with
  | [] => (cs, i2 + 1)
  | b :: q => match cs[b]? with
    | some ch => (cs.set b (truncLeft ch q i2), b)
    | none => (cs, b)

/-- `pvRemoveRange` inside the common parent `comNode = inner items cs` (TreeSet.h:1386-1464).
    `p1 i1` = begin, `p2 i2` = prev(end), both relative to `comNode`, with different first steps (or empty paths).
    Result: the new `comNode` (`for (i = comIndex2; i > comIndex1; --i) pvDestroyInternal(comNode, i - 1, false, …)`),
    the path of `rebNode1` (if it is not `comNode`), the path of `resNode`. -/
def removeRangeCom (items : List α) (cs : List (Node α)) (p1 : List Nat) (i1 : Nat) (p2 : List Nat) (i2 : Nat) :
    Node α × Option (List Nat) × List Nat :=
  (inner ((rangeLeft items cs p1 i1).1.take (rangeLeft items cs p1 i1).2.2.1 ++
            (rangeLeft items cs p1 i1).1.drop (rangeRight (rangeLeft items cs p1 i1).2.1 p2 i2).2)
         ((rangeRight (rangeLeft items cs p1 i1).2.1 p2 i2).1.take (rangeLeft items cs p1 i1).2.2.1 ++
            (rangeRight (rangeLeft items cs p1 i1).2.1 p2 i2).1.drop (rangeRight (rangeLeft items cs p1 i1).2.1 p2 i2).2),
   (rangeLeft items cs p1 i1).2.2.2,
   (rangeLeft items cs p1 i1).2.2.1 ::
     (match (rangeRight (rangeLeft items cs p1 i1).2.1 p2 i2).1[(rangeRight (rangeLeft items cs p1 i1).2.1 p2 i2).2]? with
      | some ch => leftPath ch
      | none => []))

/-- descend along the common prefix of the two paths (`pvGetCommonParent`) and apply `removeRangeCom` there;
    the paths in the result are relative to `n` -/
def removeRangeAt : Node α → List Nat → Nat → List Nat → Nat → Node α × Option (List Nat) × List Nat
  | inner items cs, c1 :: p1, i1, c2 :: p2, i2 =>
    if c1 = c2 then
      match cs[c1]? with
      | some ch => (match removeRangeAt ch p1 i1 p2 i2 with
        | (ch', reb, res) => (inner items (cs.set c1 ch'), reb.map (c1 :: ·), c1 :: res))
      | none => (inner items cs, none, [])
    else removeRangeCom items cs (c1 :: p1) i1 (c2 :: p2) i2
  | inner items cs, p1, i1, p2, i2 => removeRangeCom items cs p1 i1 p2 i2
  | leaf cap is, _, _, _, _ => (leaf cap is, none, [])

/-- the loop `for (i = itemIndex2 + 1; i > itemIndex1; --i) node1->Remove(…, i - 1, …)` on one leaf -/
def cutItems (i j : Nat) : Node α → Node α
  | leaf cap is => leaf cap (is.take i ++ is.drop (j + 1))
  | m => m

/-- `if (rebNode1 != comNode) pvRebalance(rebNode1, resNode, false);` -/
def rebalanceFrom (cfg : Cfg) (r1 : Node α) (reb : Option (List Nat)) (res : List Nat) : Node α × List Nat :=
  match reb with
  | some rp => rebalance cfg false r1 rp res
  | none => (r1, res)

/-- the general branch of `Remove(begin, end)`: `pvRemoveRange` and its two rebalancing passes -/
def removeRangeGen (cfg : Cfg) (r : Node α) (b e : Pos) : Node α × Pos :=
  ((rebalance cfg false
      (rebalanceFrom cfg (removeRangeAt r b.path b.idx e.path e.idx).1 (removeRangeAt r b.path b.idx e.path e.idx).2.1
        (removeRangeAt r b.path b.idx e.path e.idx).2.2).1
      (rebalanceFrom cfg (removeRangeAt r b.path b.idx e.path e.idx).1 (removeRangeAt r b.path b.idx e.path e.idx).2.1
        (removeRangeAt r b.path b.idx e.path e.idx).2.2).2
      (rebalanceFrom cfg (removeRangeAt r b.path b.idx e.path e.idx).1 (removeRangeAt r b.path b.idx e.path e.idx).2.1
        (removeRangeAt r b.path b.idx e.path e.idx).2.2).2).1,
   moveIf
    (rebalance cfg false
      (rebalanceFrom cfg (removeRangeAt r b.path b.idx e.path e.idx).1 (removeRangeAt r b.path b.idx e.path e.idx).2.1
        (removeRangeAt r b.path b.idx e.path e.idx).2.2).1
      (rebalanceFrom cfg (removeRangeAt r b.path b.idx e.path e.idx).1 (removeRangeAt r b.path b.idx e.path e.idx).2.1
        (removeRangeAt r b.path b.idx e.path e.idx).2.2).2
      (rebalanceFrom cfg (removeRangeAt r b.path b.idx e.path e.idx).1 (removeRangeAt r b.path b.idx e.path e.idx).2.1
        (removeRangeAt r b.path b.idx e.path e.idx).2.2).2).1
    ⟨(rebalance cfg false
      (rebalanceFrom cfg (removeRangeAt r b.path b.idx e.path e.idx).1 (removeRangeAt r b.path b.idx e.path e.idx).2.1
        (removeRangeAt r b.path b.idx e.path e.idx).2.2).1
      (rebalanceFrom cfg (removeRangeAt r b.path b.idx e.path e.idx).1 (removeRangeAt r b.path b.idx e.path e.idx).2.1
        (removeRangeAt r b.path b.idx e.path e.idx).2.2).2
      (rebalanceFrom cfg (removeRangeAt r b.path b.idx e.path e.idx).1 (removeRangeAt r b.path b.idx e.path e.idx).2.1
        (removeRangeAt r b.path b.idx e.path e.idx).2.2).2).2, 0⟩)

/-- `Remove(begin, end)` below a non-null root when `0 < remCount < mCount` (TreeSet.h:842-866):
    `b` = begin, `e` = prev(end) -/
def removeRange (cfg : Cfg) (r : Node α) (b e : Pos) : Node α × Pos :=
  match nodeAt? r b.path with
  | some (leaf _ _) =>
    if b.path = e.path then
      ((rebalance cfg true (modifyAt (cutItems b.idx e.idx) r b.path) b.path b.path).1,
       moveIf (rebalance cfg true (modifyAt (cutItems b.idx e.idx) r b.path) b.path b.path).1
         ⟨(rebalance cfg true (modifyAt (cutItems b.idx e.idx) r b.path) b.path b.path).2, b.idx⟩)
    else removeRangeGen cfg r b e
  | _ => removeRangeGen cfg r b e

/-! ### fast merge -/

/-- `k` wrappers `Node::Create(params, false, 0)` with the tree as only child (TreeSet.h:1645-1648) -/
def wrapN : Nat → Node α → Node α
  | 0, n => n
  | k+1, n => wrapN k (inner [] [n])

/-- the search of `pvMergeFast` for the node of the taller tree that receives the shorter one (TreeSet.h:1636-1654),
    unwound from the bottom of the spine: `d` descents through the first (`right = false`) or last child remain.
    `Sum.inr w` = every node so far was full, `w` wrappers were put around the shorter tree. -/
def attach (cfg : Cfg) (right : Bool) (sep : α) (t1 : Node α) : Node α → Nat → Node α ⊕ Nat
  | _, 0 => .inr 0
  | leaf _ _, _ + 1 => .inr 0
  | inner items cs, d + 1 =>
    match cs[if right then items.length else 0]? with
    | none => .inr 0
    | some ch =>
      match attach cfg right sep t1 ch d with
      | .inl ch' => .inl (inner items (cs.set (if right then items.length else 0) ch'))
      | .inr w =>
        if items.length < cfg.maxCap then
          .inl (if right then inner (items ++ [sep]) (cs ++ [wrapN w t1]) else inner (sep :: items) (wrapN w t1 :: cs))
        else .inr (w + 1)

/-- `pvMergeFast(treeSet1, treeSet2)` (TreeSet.h:1621-1705): every key of `r1` precedes every key of `r2` -/
def mergeFast (cfg : Cfg) (r1 r2 : Node α) : Node α :=
  if height r1 > height r2 then
    -- swap: the shorter tree `r2` hangs below the right spine of `r1`; its first item becomes the separator
    match popFirst r2 with
    | some (t, sep) => (match attach cfg true sep t r1 (height r1 - height r2) with
      | .inl n => n
      | .inr w => inner [sep] [r1, wrapN w t])
    | none => r1
  else
    match popLast r1 with
    | some (t, sep, _) => (match attach cfg false sep t r2 (height r2 - height r1) with
      | .inl n => n
      | .inr w => inner [sep] [wrapN w t, r2])
    | none => r2

/-! ### copy -/

mutual
  /-- `pvCopy` (TreeSet.h:1011-1042): pre-order `Node::Create(params, isLeaf, count)` in the new tree's pools;
      `ia` = internal nodes created so far -/
  def copyNode (cfg : Cfg) : Node α → Nat → Node α × Nat
    | leaf _ items, ia => (leaf (leafCap cfg ia items.length) items, ia)
    | inner items cs, ia => (inner items (copyList cfg cs (ia + 1)).1, (copyList cfg cs (ia + 1)).2)
  def copyList (cfg : Cfg) : List (Node α) → Nat → List (Node α) × Nat
    | [], ia => ([], ia)
    | c :: cs, ia => ((copyNode cfg c ia).1 :: (copyList cfg cs (copyNode cfg c ia).2).1,
                      (copyList cfg cs (copyNode cfg c ia).2).2)
end

/-! ### the container -/

/-- `TreeSet`: `mRootNode` (may be null) and `mCount` -/
structure Tree (α : Type) where
  root : Option (Node α) := none
  count : Nat := 0

namespace Tree

/-- in-order list of the whole container -/
def toList (t : Tree α) : List α :=
  match t.root with
  | some r => r.toList
  | none => []

/-- the null iterator of an empty container is written `⟨[], 0⟩` -/
def endPos (t : Tree α) : Pos :=
  match t.root with
  | some r => Node.endPos r
  | none => ⟨[], 0⟩

def beginPos (t : Tree α) : Pos :=
  match t.root with
  | some r => Node.beginPos r
  | none => ⟨[], 0⟩

def next (t : Tree α) (pos : Pos) : Pos :=
  match t.root with
  | some r => Node.next r pos
  | none => pos

def prev (t : Tree α) (pos : Pos) : Pos :=
  match t.root with
  | some r => Node.prev r pos
  | none => pos

def idxOf (t : Tree α) (pos : Pos) : Nat :=
  match t.root with
  | some r => Node.idxOf r pos.path pos.idx
  | none => 0

def elemAt? (t : Tree α) (pos : Pos) : Option α :=
  match t.root with
  | some r => Node.elemAt? r pos
  | none => none

/-- `std::next(GetBegin(), i)` -/
def posOfIdx (t : Tree α) : Nat → Pos
  | 0 => t.beginPos
  | i+1 => t.next (posOfIdx t i)

/-- forward traversal with the modelled iterator: `for (it = GetBegin(); it != GetEnd(); ++it)` (fuel = `mCount`) -/
def traverse (t : Tree α) : List α :=
  go t t.count t.beginPos
where
  go (t : Tree α) : Nat → Pos → List α
    | 0, _ => []
    | fuel+1, pos => if pos = t.endPos then [] else
        match t.elemAt? pos with
        | some x => x :: go t fuel (t.next pos)
        | none => []

/-- backward traversal: `for (it = GetEnd(); it != GetBegin(); ) visit(*--it)` -/
def traverseBack (t : Tree α) : List α :=
  go t t.count t.endPos
where
  go (t : Tree α) : Nat → Pos → List α
    | 0, _ => []
    | fuel+1, pos => if pos = t.beginPos then [] else
        match t.elemAt? (t.prev pos) with
        | some x => x :: go t fuel (t.prev pos)
        | none => []

def shape (cfg : Cfg) (t : Tree α) : Option (List (Bool × Nat × Nat)) := t.root.map (Node.shape cfg.maxCap)

variable (lt : α → α → Bool)

/-- `pvGetLowerBound`: first item with `!IsLess(item, key)` -/
def lowerBound (cfg : Cfg) (t : Tree α) (k : α) : Pos :=
  match t.root with
  | some r => findPos cfg.linear (fun x => !lt x k) r
  | none => ⟨[], 0⟩

/-- `pvGetUpperBound`: first item with `IsLess(key, item)` -/
def upperBound (cfg : Cfg) (t : Tree α) (k : α) : Pos :=
  match t.root with
  | some r => findPos cfg.linear (fun x => lt k x) r
  | none => ⟨[], 0⟩

/-- `pvIsGreater(iter, key)`: `iter == GetEnd() || IsLess(key, *iter)` -/
def isGreater (t : Tree α) (pos : Pos) (k : α) : Bool :=
  if pos = t.endPos then true else
    match t.elemAt? pos with
    | some x => lt k x
    | none => true

/-- `pvFind` -/
def find (cfg : Cfg) (t : Tree α) (k : α) : Pos :=
  if !isGreater lt t (lowerBound lt cfg t k) k then lowerBound lt cfg t k else t.endPos

/-- `ContainsKey` -/
def contains (cfg : Cfg) (t : Tree α) (k : α) : Bool := !isGreater lt t (lowerBound lt cfg t k) k

/-- `pvGetKeyCount`: walk from the lower bound while `!pvIsGreater` -/
def keyRun (t : Tree α) (k : α) : Nat → Pos → Nat
  | 0, _ => 0
  | fuel+1, pos => if isGreater lt t pos k then 0 else keyRun t k fuel (t.next pos) + 1

/-- `GetKeyCount` -/
def keyCount (cfg : Cfg) (t : Tree α) (k : α) : Nat :=
  if cfg.multi then keyRun lt t k t.count (lowerBound lt cfg t k)
  else if contains lt cfg t k then 1 else 0

/-- `pvAdd(iter, creator)` with `pvAddFirst` for the null root (TreeSet.h:1202-1256) -/
def add (cfg : Cfg) (t : Tree α) (pos : Pos) (x : α) : Tree α × Pos :=
  match t.root with
  | none => ({ root := some (leaf (leafCap cfg 0 0) [x]), count := t.count + 1 }, ⟨[], 0⟩)
  | some r => ({ root := some (addRoot cfg x r pos).1, count := t.count + 1 }, (addRoot cfg x r pos).2)

/-- `!IsLess(GetKey(*prevIter), key)` for `prevIter = std::prev(iter)` -/
def prevNotLess (t : Tree α) (pos : Pos) (x : α) : Bool :=
  match t.elemAt? (t.prev pos) with
  | some y => !lt y x
  | none => false

/-- `pvInsert` (TreeSet.h:1188-1200): upper bound; for unique keys the predecessor decides whether the key is present -/
def insert (cfg : Cfg) (t : Tree α) (x : α) : Tree α × Pos × Bool :=
  if !cfg.multi && decide (upperBound lt cfg t x ≠ t.beginPos) && prevNotLess lt t (upperBound lt cfg t x) x
  then (t, t.prev (upperBound lt cfg t x), false)
  else ((add cfg t (upperBound lt cfg t x) x).1, (add cfg t (upperBound lt cfg t x) x).2, true)

/-- `Remove(iter)` / `Remove(iter, extItem)` -/
def remove (cfg : Cfg) (t : Tree α) (pos : Pos) : Tree α × Pos :=
  match t.root with
  | some r => ({ root := some (removeAt cfg r pos).1, count := t.count - 1 }, (removeAt cfg r pos).2)
  | none => (t, pos)

/-- `Clear` -/
def clear (_t : Tree α) : Tree α := {}

/-- `Remove(begin, end)` (TreeSet.h:819-867) for iterators `b`, `e` with `remCount` elements between them -/
def removeRange (cfg : Cfg) (t : Tree α) (b e : Pos) (remCount : Nat) : Tree α × Pos :=
  match t.root with
  | none => (t, ⟨[], 0⟩)
  | some r =>
    if remCount = 0 then (t, e)
    else if remCount = t.count then ({}, ⟨[], 0⟩)
    else ({ root := some (BTree.removeRange cfg r b (t.prev e)).1, count := t.count - remCount },
          (BTree.removeRange cfg r b (t.prev e)).2)

/-- distance walked by `for (iter = begin; iter != end; ++iter) ++remCount` -/
def distance (t : Tree α) (b e : Pos) : Nat :=
  go t t.count b e
where
  go (t : Tree α) : Nat → Pos → Pos → Nat
    | 0, _, _ => 0
    | fuel+1, b, e => if b = e then 0 else go t fuel (t.next b) e + 1

/-- `while (!pvIsGreater(iter2, key)) { ++iter2; ++remCount; }`: where the run of keys not greater than `k` ends -/
def posAfterRun (t : Tree α) (k : α) : Nat → Pos → Pos
  | 0, pos => pos
  | fuel+1, pos => if isGreater lt t pos k then pos else posAfterRun t k fuel (t.next pos)

/-- length of that run -/
def runLen (t : Tree α) (k : α) : Nat → Pos → Nat
  | 0, _ => 0
  | fuel+1, pos => if isGreater lt t pos k then 0 else runLen t k fuel (t.next pos) + 1

/-- `Remove(key)` (TreeSet.h:869-888) -/
def removeKey (cfg : Cfg) (t : Tree α) (k : α) : Tree α × Nat :=
  if isGreater lt t (lowerBound lt cfg t k) k then (t, 0)
  else if !cfg.multi then ((remove cfg t (lowerBound lt cfg t k)).1, 1)
  else
    ((removeRange cfg t (lowerBound lt cfg t k)
        (posAfterRun lt t k t.count (t.next (lowerBound lt cfg t k)))
        (runLen lt t k t.count (t.next (lowerBound lt cfg t k)) + 1)).1,
     runLen lt t k t.count (t.next (lowerBound lt cfg t k)) + 1)

/-- `Remove(filter)` (TreeSet.h:890-904) -/
def removeIf (cfg : Cfg) (f : α → Bool) (t : Tree α) : Tree α :=
  go cfg f t.count t t.beginPos
where
  go (cfg : Cfg) (f : α → Bool) : Nat → Tree α → Pos → Tree α
    | 0, t, _ => t
    | fuel+1, t, pos => if pos = t.endPos then t else
        match t.elemAt? pos with
        | some x => if f x then go cfg f fuel (remove cfg t pos).1 (remove cfg t pos).2
                    else go cfg f fuel t (t.next pos)
        | none => t

/-- `ResetKey(iter, key)`: the item is assigned in place -/
def resetKey (t : Tree α) (pos : Pos) (x : α) : Tree α :=
  match t.root with
  | some r => { t with root := some (modifyAt (setItem pos.idx x) r pos.path) }
  | none => t

/-- `Insert(begin, end)` (TreeSet.h:734-759) with its "right after the previous one" shortcut -/
def insertRange (cfg : Cfg) (t : Tree α) : List α → Tree α
  | [] => t
  | x :: xs => go cfg xs (insert lt cfg t x).1 (insert lt cfg t x).2.1
where
  go (cfg : Cfg) : List α → Tree α → Pos → Tree α
    | [], t, _ => t
    | x :: xs, t, pos =>
      match t.elemAt? pos with
      | none => t
      | some prevKey =>
        if lt x prevKey || !isGreater lt t (t.next pos) x then
          go cfg xs (insert lt cfg t x).1 (insert lt cfg t x).2.1
        else if cfg.multi || lt prevKey x then
          go cfg xs (add cfg t (t.next pos) x).1 (add cfg t (t.next pos) x).2
        else go cfg xs t pos

/-- `pvIsOrdered(iter1, iter2)` on two items -/
def isOrderedItems (cfg : Cfg) (a b : α) : Bool := if cfg.multi then !lt b a else lt a b

/-- `pvMergeTo(dstSet)` (TreeSet.h:1586-1597): extract one by one, insert by key; `(src, dst)` -/
def mergeGeneric (cfg : Cfg) (src dst : Tree α) : Tree α × Tree α :=
  go cfg src.count src dst src.beginPos
where
  go (cfg : Cfg) : Nat → Tree α → Tree α → Pos → Tree α × Tree α
    | 0, src, dst, _ => (src, dst)
    | fuel+1, src, dst, pos => if pos = src.endPos then (src, dst) else
        match src.elemAt? pos with
        | none => (src, dst)
        | some x =>
          if (insert lt cfg dst x).2.2 then go cfg fuel (remove cfg src pos).1 (insert lt cfg dst x).1 (remove cfg src pos).2
          else go cfg fuel src dst (src.next pos)

/-- `pvMergeToLinear(dstTreeSet)` (TreeSet.h:1599-1619) -/
def mergeLinear (cfg : Cfg) (src dst : Tree α) : Tree α × Tree α :=
  go cfg (src.count + dst.count + 1) src dst src.beginPos dst.beginPos
where
  skip (cfg : Cfg) (dst : Tree α) (x : α) : Nat → Pos → Pos
    | 0, dpos => dpos
    | fuel+1, dpos => if dpos = dst.endPos then dpos else
        match dst.elemAt? dpos with
        | some y => if isOrderedItems lt cfg y x then skip cfg dst x fuel (dst.next dpos) else dpos
        | none => dpos
  go (cfg : Cfg) : Nat → Tree α → Tree α → Pos → Pos → Tree α × Tree α
    | 0, src, dst, _, _ => (src, dst)
    | fuel+1, src, dst, pos, dpos => if pos = src.endPos then (src, dst) else
        match src.elemAt? pos with
        | none => (src, dst)
        | some x =>
          if cfg.multi || isGreater lt dst (skip cfg dst x (dst.count + 1) dpos) x then
            go cfg fuel (remove cfg src pos).1 (add cfg dst (skip cfg dst x (dst.count + 1) dpos) x).1
              (remove cfg src pos).2
              ((add cfg dst (skip cfg dst x (dst.count + 1) dpos) x).1.next (add cfg dst (skip cfg dst x (dst.count + 1) dpos) x).2)
          else go cfg fuel src dst (src.next pos) (dst.next (skip cfg dst x (dst.count + 1) dpos))

/-- `UIntMath<>::Log2` (floor) -/
def log2 (n : Nat) : Nat := Nat.log2 n

/-- `MergeTo(TreeSet& dst)` for an empty `TreeTraits` class and equal memory managers (TreeSet.h:936-984): `(src, dst)` -/
def mergeTo (cfg : Cfg) (src dst : Tree α) : Tree α × Tree α :=
  if src.count = 0 then (src, dst)
  else if dst.count = 0 then ({ root := none, count := 0 }, src)   -- the destination's (empty) nodes are destroyed, the source keeps nothing
  else
    match src.root, dst.root with
    | some rs, some rd =>
      (match rs.elemAt? (Node.prev rs (Node.endPos rs)), rd.elemAt? (Node.beginPos rd),
             rd.elemAt? (Node.prev rd (Node.endPos rd)), rs.elemAt? (Node.beginPos rs) with
       | some lastS, some firstD, some lastD, some firstS =>
         if isOrderedItems lt cfg lastS firstD then
           ({ root := none, count := 0 }, { root := some (mergeFast cfg rs rd), count := dst.count + src.count })
         else if isOrderedItems lt cfg lastD firstS then
           ({ root := none, count := 0 }, { root := some (mergeFast cfg rd rs), count := dst.count + src.count })
         else if src.count * log2 (src.count + dst.count) < src.count + dst.count then mergeGeneric lt cfg src dst
         else mergeLinear lt cfg src dst
       | _, _, _, _ => (src, dst))
    | _, _ => (src, dst)

/-- copy constructor (TreeSet.h:543-553) -/
def copy (cfg : Cfg) (t : Tree α) : Tree α :=
  if t.count = 0 then {}
  else match t.root with
    | some r => { root := some (copyNode cfg r 0).1, count := t.count }
    | none => {}

end Tree

end Momo.BTree
