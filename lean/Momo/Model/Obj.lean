/-
  Object life-cycle model of momo::internal::ObjectManager (ObjectManager.h) — shared by C03, C04, C10, C14.

  A memory is a total map from cell addresses to slots. A slot is raw storage, a live object with a
  value, or a live-but-moved-from object (still has to be destroyed; its value is unspecified).
  Every fallible step (copy construction, the caller's `exec`/creator) consumes one decision from a
  fault list: `true` = that step throws. Events record constructions and destructions so that
  "constructed exactly once, destroyed exactly once, never used after destruction or relocation"
  is a property of the trace.

  Mirrored functions: ObjectRelocator::Relocate, ObjectManager::Copy, Move, CopyExec, MoveExec,
  Relocate(range), RelocateExec / RelocateCreate (both `isNothrowRelocatable` branches),
  Replace, ReplaceRelocate (three branches), AssignAnyway (relocation rotation branch), ShiftNothrow.
  Core Lean only.
-/
namespace Momo.Obj

inductive Slot
  | raw
  | live (v : Nat)
  | moved (v : Nat)
deriving DecidableEq, Repr, Inhabited

/-- relocation category of the element type -/
inductive Cat
  | triv      -- IsTriviallyRelocatable && !nothrow-move-constructible: relocation is memcpy
  | nmove     -- nothrow move constructible: relocation = move-construct + destroy source
  | copyOnly  -- not nothrow relocatable: "move" is a copy that may throw
deriving DecidableEq, Repr, Inhabited

def Cat.nothrowReloc : Cat → Bool
  | .copyOnly => false
  | _ => true

inductive Ev
  | ctor (a : Nat)      -- an object comes into existence at address a (copy/move/creator)
  | dtor (a : Nat)      -- the object at a is destroyed
  | reloc (s d : Nat)   -- trivial relocation: the object at s now lives at d (no ctor/dtor runs)
  | use (a : Nat)       -- the value at a is read (source of a copy / move)
deriving DecidableEq, Repr, Inhabited

abbrev Mem := Nat → Slot

def Mem.set (m : Mem) (a : Nat) (s : Slot) : Mem := fun x => if x = a then s else m x

structure St where
  mem : Mem
  evs : List Ev       -- newest last
  faults : List Bool  -- decisions still to be consumed

inductive Res | ok | threw
deriving DecidableEq, Repr, Inhabited

def valOf : Slot → Nat
  | .live v => v
  | .moved v => v
  | .raw => 0

/-- consume one fault decision (an exhausted list means "no more faults") -/
def St.nextFault (s : St) : Bool × St :=
  match s.faults with
  | [] => (false, s)
  | f :: fs => (f, { s with faults := fs })

/-- `ObjectManager::Copy`: copy-construct `dst` from `src`; may throw (nothing changes then) -/
def copy (s : St) (src dst : Nat) : St × Res :=
  let (f, s) := s.nextFault
  if f then (s, .threw)
  else ({ s with mem := s.mem.set dst (.live (valOf (s.mem src))), evs := s.evs ++ [.use src, .ctor dst] }, .ok)

/-- `ObjectDestroyer::Destroy` -/
def destroy (s : St) (a : Nat) : St :=
  { s with mem := s.mem.set a .raw, evs := s.evs ++ [.dtor a] }

def destroyRange (s : St) (a : Nat) : Nat → St
  | 0 => s
  | n+1 => destroyRange (destroy s a) (a + 1) n

/-- `ObjectRelocator::Relocate` for the nothrow categories -/
def relocate1 (c : Cat) (s : St) (src dst : Nat) : St :=
  match c with
  | .triv => { s with mem := (s.mem.set dst (.live (valOf (s.mem src)))).set src .raw, evs := s.evs ++ [.reloc src dst] }
  | _ =>
    -- move-construct, then destroy the moved-from source
    let s1 : St := { s with mem := (s.mem.set dst (.live (valOf (s.mem src)))).set src (.moved (valOf (s.mem src))),
                            evs := s.evs ++ [.use src, .ctor dst] }
    destroy s1 src

/-- `pvRelocate(range)` for nothrow categories: element by element, ascending -/
def relocateRange (c : Cat) (s : St) (src dst : Nat) : Nat → St
  | 0 => s
  | n+1 => relocateRange c (relocate1 c s src dst) (src + 1) (dst + 1) n

/-- the caller's `exec` (e.g. the creator of the new item at `newAddr` with value `v`): may throw -/
def execCreate (s : St) (newAddr v : Nat) : St × Res :=
  let (f, s) := s.nextFault
  if f then (s, .threw)
  else ({ s with mem := s.mem.set newAddr (.live v), evs := s.evs ++ [.ctor newAddr] }, .ok)

/-- copying loop of `pvRelocateExec` (not nothrow relocatable): returns how many were copied -/
def copyLoop (s : St) (src dst : Nat) : Nat → Nat → St × Res × Nat
  | 0, done => (s, .ok, done)
  | n+1, done =>
    match copy s src dst with
    | (s', .threw) => (s', .threw, done)
    | (s', .ok) => copyLoop s' (src + 1) (dst + 1) n (done + 1)

/-- `ObjectManager::RelocateCreate(srcBegin, dstBegin, count, creator, newObject)` -/
def relocateCreate (c : Cat) (s : St) (src dst count newAddr v : Nat) : St × Res :=
  if c.nothrowReloc then
    -- exec first, then the relocations that cannot fail
    match execCreate s newAddr v with
    | (s', .threw) => (s', .threw)
    | (s', .ok) => (relocateRange c s' src dst count, .ok)
  else
    match copyLoop s src dst count 0 with
    | (s1, .threw, done) => (destroyRange s1 dst done, .threw)
    | (s1, .ok, _) =>
      match execCreate s1 newAddr v with
      | (s2, .threw) => (destroyRange s2 dst count, .threw)
      | (s2, .ok) => (destroyRange s2 src count, .ok)

/-- `ObjectManager::CopyExec(src, dst, exec)`: copy, then exec; destroy the copy if exec throws -/
def copyExec (s : St) (src dst newAddr v : Nat) : St × Res :=
  match copy s src dst with
  | (s1, .threw) => (s1, .threw)
  | (s1, .ok) =>
    match execCreate s1 newAddr v with
    | (s2, .threw) => (destroy s2 dst, .threw)
    | (s2, .ok) => (s2, .ok)

/-- `ObjectManager::MoveExec`: nothrow-move types run exec first; others move (= copy) first and
    destroy the result if exec throws ("srcObject has been changed" only for a real throwing move) -/
def moveExec (c : Cat) (s : St) (src dst newAddr v : Nat) : St × Res :=
  match c with
  | .copyOnly => copyExec s src dst newAddr v
  | _ =>
    match execCreate s newAddr v with
    | (s1, .threw) => (s1, .threw)
    | (s1, .ok) =>
      ({ s1 with mem := (s1.mem.set dst (.live (valOf (s1.mem src)))).set src (.moved (valOf (s1.mem src))),
                 evs := s1.evs ++ [.use src, .ctor dst] }, .ok)

/-- `ReplaceRelocate(src, mid, dst)` used by extraction: `mid` goes to the raw `dst`, `src` fills `mid` -/
def replaceRelocate (c : Cat) (s : St) (src mid dst : Nat) : St × Res :=
  if c.nothrowReloc then
    (relocate1 c (relocate1 c s mid dst) src mid, .ok)
  else
    -- neither nothrow relocatable nor nothrow assignable: Copy(mid -> dst); Replace(src -> mid) may throw
    match copy s mid dst with
    | (s1, .threw) => (s1, .threw)
    | (s1, .ok) =>
      let (f, s2) := s1.nextFault      -- the assignment inside Replace
      if f then (destroy s2 dst, .threw)
      else (destroy { s2 with mem := s2.mem.set mid (.live (valOf (s2.mem src))), evs := s2.evs ++ [.use src] } src, .ok)

/-- number of cells below `n` that hold an object (live or moved-from) -/
def liveCount (m : Mem) : Nat → Nat
  | 0 => 0
  | n+1 => liveCount m n + (if m n = .raw then 0 else 1)

/-- a trace is well-formed w.r.t. a start memory when no object is constructed over a live one,
    destroyed or used when absent; returns the final occupancy if so -/
def replay (occ : Nat → Bool) : List Ev → Option (Nat → Bool)
  | [] => some occ
  | .ctor a :: es => if occ a then none else replay (fun x => if x = a then true else occ x) es
  | .dtor a :: es => if occ a then replay (fun x => if x = a then false else occ x) es else none
  | .reloc s d :: es => if occ s && !occ d && s != d then replay (fun x => if x = d then true else if x = s then false else occ x) es else none
  | .use a :: es => if occ a then replay occ es else none

def occOf (m : Mem) : Nat → Bool := fun a => m a != .raw

end Momo.Obj
