import Momo.Model.ArrFault
import Momo.Model.ArrSeg
/-
  Fault-parametric model of `momo::SegmentedArray` (C04, C10): `AddBackCrt`, `SetCountCrt` (`pvIncCount / pvDecCount`),
  `Reserve` (`pvIncCapacity / pvDecCapacity`), `InsertCrt`, `Insert(index, count, item)`, `Insert(index, begin, end)`,
  `Remove(index, count)`, `Remove(filter)`, the copy constructor and `Shrink` as written in SegmentedArray.h, where every
  fallible step consumes one decision of a fault schedule (see `Momo/Model/ArrFault.lean` for the conventions).

  The two layers of the container reuse the `Array` fault model:
    * the segment-pointer array `mSegments` is an `Array<Item*>`: its `Reserve` / `Shrink` are `Momo.ArrF.reserveF / shrinkF`
      run on the nested `Momo.Arr.State Nat` (`onSegs`); its only fallible steps are `Allocate` / `Reallocate`
    * `ArrayShifter` sees a SegmentedArray through `operator[] / AddBackNogrow / RemoveBack` exactly as it sees an `Array`:
      the shifter programs and their executor `Momo.ArrF.execPrims` run on the item sequence (`onItems`)
  State: the item sequence `cells` (`mCount` constructed items), `mSegments` (`segs`, cells `live segIndex`), and the
  ledger: outstanding item segments (`sblocks`, sizes in items), outstanding blocks of the pointer array (`pblocks`, sizes
  in pointers), constructed item objects, the flag `bad`.  Core Lean only.
-/
namespace Momo.ArrF.Seg
open Momo Momo.Arr Momo.Arr.Seg Momo.ArrF

variable {α β γ : Type}

inductive SMEv where
  | did (e : SEv)
  | refused (e : SEv)
deriving DecidableEq, Repr

structure SSys (α : Type) where
  cells : Cells α := []
  segs : State Nat := {}
  faults : List Bool := []
  /-- outstanding item segments, sizes in items -/
  sblocks : List Nat := []
  /-- outstanding blocks of the pointer array, sizes in pointers -/
  pblocks : List Nat := []
  objs : Nat := 0
  bad : Bool := false
  evs : List SMEv := []

/-- computations that may throw, over `SSys` -/
structure SFM (α β : Type) where
  run : SSys α → Res β × SSys α

namespace SFM
def pure (b : β) : SFM α β := ⟨fun x => (.ok b, x)⟩
def bind (m : SFM α β) (f : β → SFM α γ) : SFM α γ := ⟨fun x =>
  match m.run x with
  | (.ok b, y) => (f b).run y
  | (.threw, y) => (.threw, y)⟩
def throw : SFM α β := ⟨fun x => (.threw, x)⟩
def tryCatch (m : SFM α β) (h : SFM α β) : SFM α β := ⟨fun x =>
  match m.run x with
  | (.ok b, y) => (.ok b, y)
  | (.threw, y) => h.run y⟩
end SFM

instance : Monad (SFM α) where
  pure := SFM.pure
  bind := SFM.bind

open SFM (throw tryCatch)

/-! ## primitives -/

def getS : SFM α (SSys α) := ⟨fun x => (.ok x, x)⟩
def modifyCellsS (f : Cells α → Cells α) : SFM α Unit := ⟨fun x => (.ok (), { x with cells := f x.cells })⟩
def setSegCells (cs : Cells Nat) : SFM α Unit := ⟨fun x => (.ok (), { x with segs := { x.segs with cells := cs } })⟩

/-- an item constructor call -/
def constructS (fallible : Bool) : SFM α Unit := ⟨fun x =>
  if fallible && (nextFault x.faults).1 then (.threw, { x with faults := (nextFault x.faults).2 })
  else (.ok (), { x with faults := if fallible then (nextFault x.faults).2 else x.faults, objs := x.objs + 1 })⟩

def destroyS (k : Nat) : SFM α Unit :=
  ⟨fun x => (.ok (), { x with objs := x.objs - k, bad := x.bad || decide (x.objs < k) })⟩

/-- `pvAllocateSegment(segIndex)`: `n` items -/
def allocSeg (n : Nat) : SFM α Unit := ⟨fun x =>
  if (nextFault x.faults).1 then
    (.threw, { x with faults := (nextFault x.faults).2, evs := x.evs ++ [.refused (.item (.alloc n))] })
  else
    (.ok (), { x with faults := (nextFault x.faults).2, sblocks := n :: x.sblocks, evs := x.evs ++ [.did (.item (.alloc n))] })⟩

/-- `pvDeallocateSegment` -/
def deallocSeg (n : Nat) : SFM α Unit := ⟨fun x =>
  (.ok (), { x with sblocks := x.sblocks.erase n, bad := x.bad || !x.sblocks.contains n,
                    evs := x.evs ++ [.did (.item (.dealloc n))] })⟩

def liftEv : MEv → SMEv
  | .did e => .did (.ptr e)
  | .refused e => .refused (.ptr e)

/-- run an operation of the `Array` fault model on `mSegments` -/
def onSegs (m : FM Nat β) : SFM α β := ⟨fun x =>
  match m.run { arr := x.segs, faults := x.faults, blocks := x.pblocks, objs := x.segs.cells.length, bad := x.bad } with
  | (r, y) => (r, { x with segs := y.arr, faults := y.faults, pblocks := y.blocks, bad := y.bad,
                           evs := x.evs ++ y.evs.map liftEv })⟩

/-- run an operation of the `Array` fault model that touches only the item sequence (the shifter): `ArrayShifter` sees
    the SegmentedArray as an array of `cap = GetCapacity()` items in one external block -/
def onItems (cap : Nat) (m : FM α β) : SFM α β := ⟨fun x =>
  match m.run { arr := { cells := x.cells, cap := cap }, faults := x.faults, blocks := if cap > 0 then [cap] else [],
                objs := x.objs, bad := x.bad } with
  | (r, y) => (r, { x with cells := y.arr.cells, faults := y.faults, objs := y.objs, bad := y.bad })⟩

/-- a constructor loop inside a `try`: number built, and whether it was left by an exception -/
def ctorLoopS (fallible : Bool) : Nat → Nat → SFM α (Nat × Bool)
  | 0, done => SFM.pure (done, false)
  | n+1, done => ⟨fun x =>
    match (constructS fallible).run x with
    | (.ok _, y) => (ctorLoopS fallible n (done + 1)).run y
    | (.threw, y) => (.ok (done, true), y)⟩

/-- element operations of the pointer array never throw -/
def noThr : Thr := { copy := false, move := false, assign := false }

/-! ## capacity -/

/-- `for (i = segIndex; i < segCount; ++i) pvDeallocateSegment(i, mSegments[i]);` -/
def deallocSegs (cfg : SCfg) (i : Nat) : Nat → SFM α Unit
  | 0 => pure ()
  | f+1 => do
    deallocSeg (cfg.lay.itemCount i)
    deallocSegs cfg (i+1) f

/-- `pvDecCapacity(capacity)` (SegmentedArray.h:709-720), noexcept -/
def decCapacityF (cfg : SCfg) (n : Nat) : SFM α Unit := do
  let x ← getS
  deallocSegs cfg (cfg.lay.segsFor n) (x.segs.cells.length - cfg.lay.segsFor n)
  setSegCells (x.segs.cells.take (x.segs.cells.length - (x.segs.cells.length - cfg.lay.segsFor n)))

/-- loop body of `pvIncCapacity`: `mSegments.Reserve(segCount + 1); segment = pvAllocateSegment(segCount);
    mSegments.AddBackNogrow(segment);` -/
def addSegF (cfg : SCfg) : SFM α Unit := do
  let x ← getS
  onSegs (reserveF cfg.segs noThr (x.segs.cells.length + 1))
  allocSeg (cfg.lay.itemCount x.segs.cells.length)
  let y ← getS
  setSegCells (y.segs.cells ++ [.live x.segs.cells.length])

def addSegsF (cfg : SCfg) : Nat → SFM α Unit
  | 0 => pure ()
  | f+1 => do
    addSegF cfg
    addSegsF cfg f

/-- capacity in items of `k` segments: `Settings::GetIndex(k, 0)` -/
def capOf (cfg : SCfg) (k : Nat) : Nat := cfg.lay.index k 0

/-- `pvIncCapacity(initCapacity, capacity)` (SegmentedArray.h:686-707) -/
def incCapacityF (cfg : SCfg) (initCapacity n : Nat) : SFM α Unit := do
  let x ← getS
  tryCatch (addSegsF cfg (cfg.lay.segsFor n - x.segs.cells.length)) (do decCapacityF cfg initCapacity; throw)

/-- `Reserve(capacity)` (SegmentedArray.h:408-413) -/
def reserveOpF (cfg : SCfg) (n : Nat) : SFM α Unit := do
  let x ← getS
  if n > capOf cfg x.segs.cells.length then incCapacityF cfg (capOf cfg x.segs.cells.length) n else pure ()

/-! ## append, SetCount -/

/-- `AddBackCrt` (SegmentedArray.h:484-511) -/
def addBackCrtF (cfg : SCfg) (thr : Thr) (mv : Bool) (item : Ref α) : SFM α Unit := do
  let x ← getS
  if (cfg.lay.segItem x.cells.length).1 < x.segs.cells.length then do
    constructS (if mv then thr.move else thr.copy)
    modifyCellsS (fun cs => item.taken cfg.keeps mv cs ++ [item.read cs])
  else do
    onSegs (reserveF cfg.segs noThr (x.segs.cells.length + 1))
    allocSeg (cfg.lay.itemCount x.segs.cells.length)
    tryCatch (constructS (if mv then thr.move else thr.copy))
      (do deallocSeg (cfg.lay.itemCount x.segs.cells.length); throw)
    let y ← getS
    setSegCells (y.segs.cells ++ [.live x.segs.cells.length])
    modifyCellsS (fun cs => item.taken cfg.keeps mv cs ++ [item.read cs])

/-- `SetCountCrt(count, creator of SetCount(count, item))` (SegmentedArray.h:361-368, pvIncCount 633-664,
    pvDecCount 666-684) -/
def setCountF (cfg : SCfg) (thr : Thr) (count : Nat) (item : Ref α) : SFM α Unit := do
  let x ← getS
  if count < x.cells.length then do
    destroyS (x.cells.length - count)
    modifyCellsS (fun cs => cs.take count)
  else if count > x.cells.length then do
    -- `if (count > initCapacity) pvIncCapacity(initCapacity, count);` - the statement of `Reserve(count)`
    reserveOpF cfg count
    let r ← ctorLoopS thr.copy (count - x.cells.length) 0
    if r.2 then do
      -- catch: pvDecCount(initCount); pvDecCapacity(initCapacity); throw
      destroyS r.1
      decCapacityF cfg (capOf cfg x.segs.cells.length)
      throw
    else modifyCellsS (fun cs => cs ++ List.replicate (count - cs.length) (item.read cs))
  else pure ()

/-! ## positional insert / remove -/

/-- `InsertCrt` (SegmentedArray.h:530-536) -/
def insertCrtF (cfg : SCfg) (thr : Thr) (index : Nat) (mv : Bool) (item : Ref α) : SFM α Unit := do
  let x ← getS
  constructS (if mv then thr.move else thr.copy)
  modifyCellsS (fun cs => item.taken cfg.keeps mv cs)
  tryCatch (do
      reserveOpF cfg (x.cells.length + 1)
      let y ← getS
      onItems (capOf cfg y.segs.cells.length) (shiftRF (itemCfg cfg) thr true index [.ext (item.read x.cells)]))
    (do destroyS 1; throw)
  destroyS 1
where
  /-- what the shifter needs to know about the item type; a move construction of `AddBackNogrow(std::move(x))` can
      throw when `thr.move` -/
  itemCfg (cfg : SCfg) : Cfg := { keeps := cfg.keeps, nothrowMove := false }

/-- `Insert(index, count, const Item&)` (SegmentedArray.h:555-562): the value is always copied into a handler -/
def insertNF (cfg : SCfg) (thr : Thr) (index count : Nat) (item : Ref α) : SFM α Unit := do
  let x ← getS
  constructS thr.copy
  tryCatch (do
      reserveOpF cfg (x.cells.length + count)
      let y ← getS
      onItems (capOf cfg y.segs.cells.length) (shiftNF (insertCrtF.itemCfg cfg) thr index count (.ext (item.read x.cells))))
    (do destroyS 1; throw)
  destroyS 1

/-- `pvInsert` for forward iterators (SegmentedArray.h:722-729) -/
def insertRangeF (cfg : SCfg) (thr : Thr) (index : Nat) (xs : List (Cell α)) : SFM α Unit := do
  let x ← getS
  reserveOpF cfg (x.cells.length + xs.length)
  let y ← getS
  onItems (capOf cfg y.segs.cells.length) (shiftRF (insertCrtF.itemCfg cfg) thr false index (xs.map .ext))

/-- `Remove(index, count)`: `ArrayShifter::Remove` + `RemoveBack(count)` = `pvDecCount` -/
def removeF (cfg : SCfg) (thr : Thr) (index count : Nat) : SFM α Unit := do
  let x ← getS
  onItems (capOf cfg x.segs.cells.length) (ArrF.removeF (insertCrtF.itemCfg cfg) thr index count)

/-- `Remove(itemFilter)` -/
def removeIfF (cfg : SCfg) (thr : Thr) (p : Cell α → Bool) : SFM α Nat := do
  let x ← getS
  onItems (capOf cfg x.segs.cells.length) (ArrF.removeIfF (insertCrtF.itemCfg cfg) thr p)

/-! ## copy constructor, Shrink -/

def copyAllS (thr : Thr) : List (Cell α) → SFM α Unit
  | [] => pure ()
  | c :: cs => do
    constructS thr.copy
    modifyCellsS (fun a => a ++ [c])
    copyAllS thr cs

/-- `~SegmentedArray()`: `pvDecCount(0); pvDecCapacity(0);`, then `mSegments` is destroyed -/
def destructorF (cfg : SCfg) : SFM α Unit := do
  let x ← getS
  destroyS x.cells.length
  modifyCellsS (fun _ => [])
  decCapacityF cfg 0
  onSegs (destroyDataF cfg.segs)

/-- `SegmentedArray(const SegmentedArray&, bool shrink)` (SegmentedArray.h:259-274) into a fresh object.  The constructor
    delegates to `SegmentedArray(MemManager)`: when its body throws, the destructor of the (completely constructed)
    object runs -/
def copyCtorF (cfg : SCfg) (thr : Thr) (src : SState α) (shrinkFlag : Bool) : SFM α Unit :=
  tryCatch (do
      incCapacityF cfg 0 (if shrinkFlag then src.cells.length else Seg.capacity cfg src)
      tryCatch (copyAllS thr src.cells) (do
        let y ← getS
        destroyS y.cells.length
        modifyCellsS (fun _ => [])
        decCapacityF cfg 0
        throw))
    (do destructorF cfg; throw)

/-- `Shrink(capacity)` (SegmentedArray.h:420-435), noexcept: a failure of `mSegments.Shrink()` is swallowed -/
def shrinkOpF (cfg : SCfg) (n : Nat) : SFM α Unit := do
  let x ← getS
  if capOf cfg x.segs.cells.length ≤ n then pure ()
  else do
    decCapacityF cfg (Nat.max n x.cells.length)
    let y ← getS
    tryCatch (onSegs (shrinkF cfg.segs noThr y.segs.cells.length)) (pure ())

/-! ## operations as data -/

inductive SOp (α : Type) where
  | addBackCrt (mv : Bool) (item : Ref α)
  | setCount (count : Nat) (item : Ref α)
  | reserve (n : Nat)
  | shrink (n : Nat)
  | insertCrt (index : Nat) (mv : Bool) (item : Ref α)
  | insertN (index count : Nat) (item : Ref α)
  | insertRange (index : Nat) (xs : List (Cell α))
  | remove (index count : Nat)
  | removeIf (p : Cell α → Bool)

def stepS (cfg : SCfg) (thr : Thr) : SOp α → SFM α Unit
  | .addBackCrt mv item => addBackCrtF cfg thr mv item
  | .setCount count item => setCountF cfg thr count item
  | .reserve n => reserveOpF cfg n
  | .shrink n => shrinkOpF cfg n
  | .insertCrt index mv item => insertCrtF cfg thr index mv item
  | .insertN index count item => insertNF cfg thr index count item
  | .insertRange index xs => insertRangeF cfg thr index xs
  | .remove index count => removeF cfg thr index count
  | .removeIf p => do let _ ← removeIfF cfg thr p; pure ()

/-- documented as strongly exception-safe (SegmentedArray.h: everything except Insert*, Remove) -/
def SOp.strong : SOp α → Bool
  | .insertCrt .. | .insertN .. | .insertRange .. | .remove .. | .removeIf .. => false
  | _ => true

/-- the fault-free counterpart in `Momo.Arr.Seg` -/
def pureStepS (cfg : SCfg) (s : SState α) : SOp α → SState α × List SEv
  | .addBackCrt mv item => Seg.addBackCrt cfg s mv item
  | .setCount count item => Seg.setCount cfg s count item
  | .reserve n => Seg.reserveOp cfg s n
  | .shrink n => Seg.shrinkOp cfg s n
  | .insertCrt index mv item => Seg.insertCrt cfg s index mv item
  | .insertN index count item => Seg.insertN cfg s index count item
  | .insertRange index xs => Seg.insertRange cfg s index xs
  | .remove index count => (Seg.removeOp cfg s index count, [])
  | .removeIf p => ((Seg.removeIfOp cfg s p).1, [])

/-- the `SState` of a system -/
def SSys.st (x : SSys α) : SState α := { cells := x.cells, segs := x.segs }

/-- sizes of the segments `0 .. k)` -/
def segSizes (cfg : SCfg) (k : Nat) : List Nat := (List.range k).map cfg.lay.itemCount

end Momo.ArrF.Seg
