import Momo.Extracted
/-
  Executable model of the decision logic that the momo::stdish wrappers add on top of the native
  containers (C06). Only what the wrappers themselves decide is modelled; the native containers they
  forward to are replaced by their abstract specification (sorted list / association list), whose
  agreement with the real HashSet / TreeSet / HashMultiMap is the subject of C01, C02, C08.

  Source mirrored (include/momo/stdish unless said otherwise; line numbers of the current tree):
    HashSetConstIterator::operator++ / ptIsMovable (HashSet.h:315, :342)        -> It, nextU
    unordered_set::erase(first,last)   (unordered_set.h:565)                    -> eraseRangeU
    unordered_map::erase(first,last)   (unordered_map.h:628, same tests)        -> eraseRangeU
    HashMultiMapIterator::operator++ / pvMove (HashMultiMap.h:226, :286)        -> nextMM
    HashMultiMap::pvMakeIterator(keyIter, valueIndex, move=true) (:1212-1220)   -> makeIterEnd
    unordered_multimap::erase(first,last) (unordered_multimap.h:569)            -> eraseRangeMM
    unordered_multimap::operator==     (unordered_multimap.h:627)               -> mmEq
    unordered_set::operator== (unordered_set.h:667), unordered_map::operator== (unordered_map.h:813) -> usetEq
    TreeSet::pvGetLowerBound / pvGetUpperBound / pvInsert (TreeSet.h:1107, :1116, :1189) -> lb, ub, treeFind, treeInsert
    set::pvIsOrdered / pvCheckHint     (set.h:609, :616)                        -> isOrdered, checkHint
    set::insert(hint, value) (set.h:437, :450), emplace_hint (:516, :529)       -> setInsertHint
    set::insert(node), insert(hint, node) (set.h:457, :466)                     -> insertNode, setInsertNodeHint
    set::equal_range / map_base::equal_range (set.h:408, map.h:454)             -> ordEqualRange
    map_base::pvIsOrdered / pvFind (both overloads) (map.h:686, :693, :705)     -> mapFind
    map_base::pvInsert, insert(hint,node) (map.h:721, :771, :512)               -> mapInsert, mapInsertNodeHint
    map::pvInsertOrAssign, at          (map.h:953, :875)                        -> mapInsertOrAssign, mapAt
    unordered_map::pvInsert / pvInsertOrAssign / at (unordered_map.h:854, :965, :668) -> umapTryEmplace, umapInsertOrAssign, umapAt
    vector::at / insert / erase        (vector.h)                               -> vecAt, vecInsert, vecErase
  Core Lean only (linked into the driver).
-/
namespace Momo.StdWrap

/-! ## 1. Iterators of the unordered wrappers and `erase(first, last)`

A container is seen through its traversal order: flat positions `0 … n-1`, `n` = `end()`.
An iterator is the position plus the one bit the implementation keeps besides the item pointer:
whether it knows the bucket array (`mBuckets != nullptr`). Iterators produced by `begin()` and by
`++` of a movable iterator are movable; lookup and insertion results (`find`, `insert(...).first`,
`equal_range`) are not: `++` on them yields `end()` (for the multimap: after the last value of
their key). `operator==` compares the item pointer only, i.e. the position. -/

structure It where
  pos : Nat
  mv : Bool
deriving DecidableEq, Repr, Inhabited

/-- what `erase(first, last)` does -/
inductive Dec where
  | unchanged          -- `return first` (nothing erased)
  | one (p : Nat)      -- `erase(first)`
  | key (p : Nat)      -- `RemoveKey(keyIter)`: the key of position `p` with all its values
  | all                -- `clear()`
  | invalid            -- `throw std::invalid_argument` before anything is modified
deriving DecidableEq, Repr, Inhabited

/-- `++it` for unordered_set / unordered_map (HashSetConstIterator::operator++): a movable iterator
    goes to the next item of the traversal, a position (lookup result) becomes `end()` -/
def nextU (n : Nat) (it : It) : It :=
  if it.mv then ⟨it.pos + 1, true⟩ else ⟨n, false⟩

/-- unordered_set.h:565 / unordered_map.h:628, the tests in source order -/
def eraseRangeU (n : Nat) (first last : It) : Dec :=
  if first.pos = last.pos then .unchanged                                    -- first == last
  else if first.pos ≠ n ∧ (nextU n first).pos = last.pos then .one first.pos -- first != end() && next(first) == last
  else if first.pos = 0 ∧ last.pos = n then .all                             -- first == begin() && last == end()
  else .invalid

/-- positions removed by a decision (set / map) -/
def erasedU (n : Nat) : Dec → List Nat
  | .one p => [p]
  | .key p => [p]
  | .all => List.range n
  | _ => []

/-- the elements of `[first, last)` as the iterators themselves enumerate them: positions visited by
    `for (it = first; it != last; ++it)`; `none` if `last` is never reached (`++end()` is not allowed) -/
def reachU (n : Nat) : Nat → It → It → Option (List Nat)
  | 0, _, _ => none
  | f+1, it, last =>
    if it.pos = last.pos then some []
    else if it.pos ≥ n then none
    else (reachU n f (nextU n it) last).map (it.pos :: ·)

/-! ### unordered_multimap: the traversal order groups the values of a key; `ks` lists the key of
every flat position (keys without values occupy no position). -/

/-- number of leading elements equal to `k` -/
def runLen (k : Nat) : List Nat → Nat
  | [] => 0
  | x :: t => if x = k then runLen k t + 1 else 0

/-- flat position just behind the values of the key at position `p` -/
def gend (ks : List Nat) (p : Nat) : Nat :=
  match ks[p]? with
  | some k => p + runLen k (ks.drop p)
  | none => p

/-- `valueIter == keyIter->GetBegin()`: `p` is the first value of its key -/
def isRunStart (ks : List Nat) (p : Nat) : Bool :=
  p = 0 || ks[p - 1]? != ks[p]?

/-- equal keys are stored together (HashMultiMap keeps one value array per key) -/
def Grouped (ks : List Nat) : Prop :=
  ∀ i j l, i < j → j < l → l < ks.length → ks[i]? = ks[l]? → ks[j]? = ks[i]?

/-- `++it` (HashMultiMapIterator::operator++ then pvMove): next value of the same key; behind the
    last value the key iterator is incremented — a movable one reaches the first value of the next
    non-empty key (flat `p+1`), a lookup result becomes null, i.e. `end()` -/
def nextMM (ks : List Nat) (it : It) : It :=
  if it.pos + 1 < ks.length ∧ ks[it.pos + 1]? = ks[it.pos]? then ⟨it.pos + 1, it.mv⟩
  else if it.mv then ⟨it.pos + 1, true⟩ else ⟨ks.length, false⟩

/-- `MakeIterator(keyIter, keyIter->GetCount())` for the key iterator taken from `it` -/
def makeIterEnd (ks : List Nat) (it : It) : Nat :=
  if it.mv then gend ks it.pos else ks.length

/-- unordered_multimap.h:569, the tests in source order (as repaired: whole-key removal requires
    `first` to be the first value of its key) -/
def eraseRangeMM (ks : List Nat) (first last : It) : Dec :=
  if first.pos = last.pos then .unchanged
  else if first.pos ≠ ks.length ∧ (nextMM ks first).pos = last.pos then .one first.pos
  else if first.pos ≠ ks.length ∧ isRunStart ks first.pos = true ∧ last.pos = makeIterEnd ks first then .key first.pos
  else if first.pos = 0 ∧ last.pos = ks.length then .all
  else .invalid

/-- the same function before the repair (no `first == MakeIterator(keyIter, 0)` test); kept only as
    the witness of why the test is needed (Props/C06.lean) -/
def eraseRangeMM_old (ks : List Nat) (first last : It) : Dec :=
  if first.pos = last.pos then .unchanged
  else if first.pos ≠ ks.length ∧ (nextMM ks first).pos = last.pos then .one first.pos
  else if first.pos ≠ ks.length ∧ last.pos = makeIterEnd ks first then .key first.pos
  else if first.pos = 0 ∧ last.pos = ks.length then .all
  else .invalid

/-- positions removed by a decision: `RemoveKey` removes every value stored under the key -/
def erasedMM (ks : List Nat) : Dec → List Nat
  | .one p => [p]
  | .key p => (List.range ks.length).filter (fun q => ks[q]? == ks[p]?)
  | .all => List.range ks.length
  | _ => []

def reachMM (ks : List Nat) : Nat → It → It → Option (List Nat)
  | 0, _, _ => none
  | f+1, it, last =>
    if it.pos = last.pos then some []
    else if it.pos ≥ ks.length then none
    else (reachMM ks f (nextMM ks it) last).map (it.pos :: ·)

/-! ## 2. `unordered_multimap::operator==`

The native HashMultiMap is a table `key ↦ value array`; a key may stay with an empty array
(`erase_if`, `Remove(iterator)` of the last value keep the key). -/

abbrev MM := List (Nat × List Nat)

/-- `mHashMultiMap.GetCount()` = number of values -/
def MM.count (a : MM) : Nat := (a.map (fun e => e.2.length)).sum

/-- all (key, value) pairs the wrapper's traversal yields -/
def MM.pairs (a : MM) : List (Nat × Nat) := a.flatMap (fun e => e.2.map (fun v => (e.1, v)))

/-- unordered_multimap.h:629: equal value counts, then for every key of `left` that has values:
    found in `right`, same number of values, `std::is_permutation` of the value arrays -/
def mmEq (a b : MM) : Bool :=
  if a.count ≠ b.count then false
  else a.all (fun e =>
    e.2.isEmpty ||
    match b.lookup e.1 with
    | none => false
    | some ws => e.2.length == ws.length && e.2.isPerm ws)

/-- `unordered_set::operator==` (unordered_set.h:667, as repaired: the element found by its key must
    also compare equal) and `unordered_map::operator==` (unordered_map.h:813: key found, mapped values
    equal): equal sizes, every element of `left` is found in `right` by key and equals what was found.
    An element is (key, tag): for the set the tag is the part of the element `key_eq` does not look at. -/
def usetEq (a b : List (Nat × Nat)) : Bool :=
  a.length == b.length &&
  a.all (fun e => match b.find? (fun x => x.1 == e.1) with
                  | none => false
                  | some x => x == e)

/-- the same function before the repair (lookup by `key_eq` only); witness in Props/C06.lean -/
def usetEq_old (a b : List (Nat × Nat)) : Bool :=
  a.length == b.length && a.all (fun e => (b.find? (fun x => x.1 == e.1)).isSome)

/-! ## 3. Ordered wrappers: hints

Abstract state of TreeSet/TreeMap: the item sequence `xs` in tree order, an item = (key, tag);
the tag is the mapped value (maps) or the identity of the element (sets) and never takes part in
the ordering. Positions are ranks `0 … xs.length` (`xs.length` = `end()`). -/

abbrev Item := Nat × Nat

def Sorted (xs : List Item) : Prop := xs.Pairwise (fun a b => a.1 ≤ b.1)
def StrictSorted (xs : List Item) : Prop := xs.Pairwise (fun a b => a.1 < b.1)

/-- `pvGetLowerBound`: first item with `!(item.key < k)` -/
def lb (k : Nat) : List Item → Nat
  | [] => 0
  | e :: t => if e.1 < k then lb k t + 1 else 0

/-- `pvGetUpperBound`: first item with `k < item.key` -/
def ub (k : Nat) : List Item → Nat
  | [] => 0
  | e :: t => if k < e.1 then 0 else ub k t + 1

def keyAt (xs : List Item) (i : Nat) : Nat := (xs[i]?.getD (0, 0)).1

/-- `pvAdd(iter, …)`: the new item is placed directly before position `i` -/
def insertAt (xs : List Item) (i : Nat) (x : Item) : List Item := xs.take i ++ x :: xs.drop i

/-- `TreeSet::pvInsert` / `map_base::pvFind(nullptr, key)`: (position, inserted) -/
def treeFind (multi : Bool) (xs : List Item) (k : Nat) : Nat × Bool :=
  if !multi && ub k xs ≠ 0 && !(keyAt xs (ub k xs - 1) < k) then (ub k xs - 1, false)
  else (ub k xs, true)

def treeInsert (multi : Bool) (xs : List Item) (x : Item) : List Item × Nat × Bool :=
  let r := treeFind multi xs x.1
  if r.2 then (insertAt xs r.1 x, r.1, true) else (xs, r.1, false)

/-- `pvIsOrdered(key1, key2)` -/
def isOrdered (multi : Bool) (k1 k2 : Nat) : Bool := if multi then !(k2 < k1) else k1 < k2

/-- `set::pvCheckHint(hint, key)`: `none` = return false (fall back to the plain insertion),
    `some h'` = return true with `hint` possibly replaced by `lower_bound(key)` -/
def checkHint (multi : Bool) (xs : List Item) (h k : Nat) : Option Nat :=
  if h ≠ 0 && !isOrdered multi (keyAt xs (h - 1)) k then none
  else if h ≠ xs.length && !isOrdered multi k (keyAt xs h) then
    (if multi then some (lb k xs) else none)
  else some h

/-- `set::insert(hint, value)` / `emplace_hint`: (new sequence, position, inserted) -/
def setInsertHint (multi : Bool) (xs : List Item) (h : Nat) (x : Item) : List Item × Nat × Bool :=
  match checkHint multi xs h x.1 with
  | none => treeInsert multi xs x
  | some h' => (insertAt xs h' x, h', true)

/-- `map_base::pvFind(hint, key)`: (position, may insert there) -/
def mapFind (multi : Bool) (xs : List Item) (hint : Option Nat) (k : Nat) : Nat × Bool :=
  match hint with
  | none => treeFind multi xs k
  | some h =>
    if h ≠ 0 && !isOrdered multi (keyAt xs (h - 1)) k then treeFind multi xs k
    else if h ≠ xs.length && !isOrdered multi k (keyAt xs h) then
      (if multi then (lb k xs, true) else treeFind multi xs k)
    else (h, true)

/-- `map_base::pvInsert(hint, key, mappedCreator)` (emplace, emplace_hint, try_emplace, insert(hint,node)) -/
def mapInsert (multi : Bool) (xs : List Item) (hint : Option Nat) (x : Item) : List Item × Nat × Bool :=
  let r := mapFind multi xs hint x.1
  if r.2 then (insertAt xs r.1 x, r.1, true) else (xs, r.1, false)

/-- `map::pvInsertOrAssign`: emplace, and on `!inserted` assign the mapped value at the position found -/
def mapInsertOrAssign (xs : List Item) (hint : Option Nat) (x : Item) : List Item × Nat × Bool :=
  let r := mapInsert false xs hint x
  if r.2.2 then r else (r.1.set r.2.1 (keyAt r.1 r.2.1, x.2), r.2.1, false)

/-- `find`: lower bound if it is not greater than the key, else `end()` (TreeSet::pvFind) -/
def ordFind (xs : List Item) (k : Nat) : Nat :=
  if lb k xs < xs.length ∧ ¬ (k < keyAt xs (lb k xs)) then lb k xs else xs.length

/-- `set::equal_range` / `map_base::equal_range` for `key_type` (set.h:413, map.h:454) -/
def ordEqualRange (multi : Bool) (xs : List Item) (k : Nat) : Nat × Nat :=
  if multi then (lb k xs, ub k xs)
  else if lb k xs = xs.length ∨ k < keyAt xs (lb k xs) then (lb k xs, lb k xs)
  else (lb k xs, lb k xs + 1)

/-- `insert(node_type&&)` of set / map_base: `insert_return_type{position, inserted, node}`; the
    element stays in the returned node when it was not inserted (native `Insert(ExtractedItem&&)`) -/
def insertNode (multi : Bool) (xs : List Item) (node : Option Item) : List Item × Nat × Bool × Option Item :=
  match node with
  | none => (xs, xs.length, false, none)
  | some x =>
    let r := treeInsert multi xs x
    (r.1, r.2.1, r.2.2, if r.2.2 then none else some x)

/-- `set::insert(hint, node)` (set.h:466): (sequence, position, what is left in the caller's handle).
    When the hint check fails the extracted item goes to the native `Insert(ExtractedItem&&)`, which
    leaves it in the handle when the key is already present (as repaired; before, the handle was
    moved into a temporary `insert_return_type` and the refused element was destroyed) -/
def setInsertNodeHint (multi : Bool) (xs : List Item) (h : Nat) (node : Option Item) : List Item × Nat × Option Item :=
  match node with
  | none => (xs, xs.length, none)
  | some x =>
    match checkHint multi xs h x.1 with
    | none => let r := insertNode multi xs (some x); (r.1, r.2.1, r.2.2.2)
    | some h' => (insertAt xs h' x, h', none)

/-- `map_base::insert(hint, node)` (map.h:511): `pvFind` first; a node that cannot be inserted is not touched -/
def mapInsertNodeHint (multi : Bool) (xs : List Item) (h : Nat) (node : Option Item) : List Item × Nat × Option Item :=
  match node with
  | none => (xs, xs.length, none)
  | some x =>
    let r := mapFind multi xs (some h) x.1
    if r.2 then (insertAt xs r.1 x, r.1, none) else (xs, r.1, some x)

/-- `map::at`: `none` = `throw std::out_of_range` -/
def mapAt (xs : List Item) (k : Nat) : Option Nat :=
  if ordFind xs k = xs.length then none else some (xs[ordFind xs k]?.getD (0, 0)).2

/-! ## 4. unordered_map: `try_emplace`, `insert_or_assign`, `at`, `operator[]`
The native HashMap is abstracted as an association list with distinct keys. -/

/-- `pvInsert`: `Find`; present → (unchanged, false); absent → `AddCrt` -/
def umapTryEmplace (m : List Item) (k v : Nat) : List Item × Bool :=
  match m.lookup k with
  | some _ => (m, false)
  | none => (m ++ [(k, v)], true)

def assign (m : List Item) (k v : Nat) : List Item :=
  m.map (fun e => if e.1 = k then (k, v) else e)

/-- `pvInsertOrAssign`: `pvEmplace`, then `res.first->second = mappedArg` when not inserted -/
def umapInsertOrAssign (m : List Item) (k v : Nat) : List Item × Bool :=
  let r := umapTryEmplace m k v
  if r.2 then r else (assign r.1 k v, false)

/-- `at`: `none` = `throw std::out_of_range` -/
def umapAt (m : List Item) (k : Nat) : Option Nat := m.lookup k

/-! ## 5. vector: index checks and the two shifting operations (the native Array is C05) -/

def vecAt (xs : List Nat) (i : Nat) : Option Nat := if i ≥ xs.length then none else xs[i]?
def vecInsert (xs : List Nat) (i cnt v : Nat) : List Nat := xs.take i ++ List.replicate cnt v ++ xs.drop i
def vecErase (xs : List Nat) (i j : Nat) : List Nat := xs.take i ++ xs.drop j

end Momo.StdWrap
