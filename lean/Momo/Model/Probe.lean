import Momo.Extracted
/-
  Model of the open-addressing probe machinery (C13, used by C01/C11):
    * BucketOpen2N2::UpdateMaxProbe / pvGetMaxProbe / pvUpdateMaxProbe   (HashBucketOpen2N2.h)
    * BucketOpenN1::UpdateMaxProbe / GetMaxProbe / pvUpdateMaxProbe      (HashBucketOpenN1.h, Open8 inherits)
    * BucketBase::GetStartBucketIndex / GetNextBucketIndex (linear)       (BucketUtility.h)
    * BucketOpen2N2 / BucketOpen8 ::GetNextBucketIndex (quadratic)
    * the probe loops of HashSet::pvFind and HashSet::pvAddNogrow         (HashSet.h)
  Core Lean only (no Mathlib): this file is linked into the driver.
-/
namespace Momo.Probe
open Momo

/-- `while (m >= lim) { m >>= 1; ++e; }` with fuel (64 suffices for 64-bit values) -/
def shrinkLoop (lim : Nat) : Nat → Nat → Nat → Nat × Nat
  | 0, m, e => (m, e)
  | fuel+1, m, e => if m ≥ lim then shrinkLoop lim fuel (m / 2) (e + 1) else (m, e)

/-! ### Open2N2: mantissa byte `mState[0]`, exponent `mState[1] >> 2` -/

structure MP2 where
  m : Nat
  e : Nat
deriving DecidableEq, Repr

def MP2.init : MP2 := ⟨0, 0⟩

/-- `pvGetMaxProbe`: `size_t{mState[0]} << (mState[1] >> 2)` -/
def MP2.dec (s : MP2) : Nat := s.m * 2 ^ s.e

/-- `UpdateMaxProbe(probe)` including the `probe <= 255` fast path that leaves the exponent alone -/
def MP2.upd (s : MP2) (p : Nat) : MP2 :=
  if p = 0 ∨ p ≤ s.dec then s
  else if p ≤ Extracted.open2n2FastLimit then { s with m := p }
  else let r := shrinkLoop Extracted.open2n2MantLimit 64 (p - 1) 0; ⟨r.1 + 1, r.2⟩

/-! ### OpenN1 / Open8: one byte, 3-bit mantissa, 5-bit exponent, 255 = unbounded -/

@[reducible] def infProbeExp : Nat := Extracted.openN1InfProbeExp

/-- `pvGetMaxProbe(exp)`: `(exp & 7) << (exp >> 3)` -/
def dec3 (b : Nat) : Nat := (b &&& Extracted.openN1MantMask) <<< (b >>> 3)

/-- `GetMaxProbe(logBucketCount)` -/
def getMax3 (L b : Nat) : Nat := if b = infProbeExp then 2 ^ L - 1 else dec3 b

/-- byte written by `pvUpdateMaxProbe` -/
def enc3 (p : Nat) : Nat :=
  let r := shrinkLoop Extracted.openN1MantLimit 64 (p - 1) 0
  if r.2 ≤ Extracted.openN1ExpLimit then (r.1 + 1) ||| (r.2 <<< 3) else infProbeExp

/-- `UpdateMaxProbe(probe)` -/
def upd3 (b p : Nat) : Nat :=
  if p = 0 then b
  else if b = infProbeExp ∨ p ≤ dec3 b then b
  else enc3 p

/-! ### probe sequences over a table of `2^L` buckets -/

/-- `hashCode & (bucketCount - 1)` -/
def start (L h : Nat) : Nat := h &&& (2 ^ L - 1)

/-- linear probing: `(bucketIndex + 1) & (bucketCount - 1)` -/
def nextLin (L i : Nat) : Nat := (i + 1) &&& (2 ^ L - 1)

/-- quadratic probing: `(bucketIndex + probe) & (bucketCount - 1)` -/
def nextQuad (L i probe : Nat) : Nat := (i + probe) &&& (2 ^ L - 1)

/-- bucket examined at probe `p` (the recurrence of the source) -/
def seqLin (L home : Nat) : Nat → Nat
  | 0 => home
  | p+1 => nextLin L (seqLin L home p)

def seqQuad (L home : Nat) : Nat → Nat
  | 0 => home
  | p+1 => nextQuad L (seqQuad L home p) (p+1)

/-- the loop of `pvAddNogrow`: first probe `p < 2^L` whose bucket is not full, or none
    (`throw std::runtime_error("Hash table is full")`). `quad` selects the stepping rule. -/
def addProbe (quad : Bool) (L : Nat) (isFull : Nat → Bool) (home : Nat) : Option (Nat × Nat) :=
  let rec go (fuel probe idx : Nat) : Option (Nat × Nat) :=
    match fuel with
    | 0 => none
    | f+1 =>
      if isFull idx then
        let probe' := probe + 1
        if probe' ≥ 2 ^ L then none
        else go f probe' (if quad then nextQuad L idx probe' else nextLin L idx)
      else some (probe, idx)
  go (2 ^ L) 0 home

/-- the buckets examined by `pvFind` for a home bucket whose recorded bound is `maxProbe`
    (`WasFull` is constantly true for the open-addressing buckets) -/
def findSeq (quad : Bool) (L home maxProbe : Nat) : List Nat :=
  (List.range (maxProbe + 1)).map (if quad then seqQuad L home else seqLin L home)

end Momo.Probe
