/-
  C06 — abstract reference specification of the std containers, as the C++ standard describes them, over plain lists.
  Core Lean only (linked into the driver: engine `stdhist`).

  This file does NOT look at momo: it is the hand-written formal counterpart of
    [associative.reqmts] / [set] [multiset] [map] [multimap]    -> section 2 (sorted sequence, stable for equivalent keys)
    [sequence.reqmts] / [vector]                                  -> section 3 (list)
    [unord.req] / [unord.set] [unord.map] [unord.multimap]        -> section 4 (finite (multi)map; iteration order
                                                                     unspecified: every observation is canonicalised)
  "libstdc++ implements this specification" is not a theorem anywhere; it is checked differentially on every run
  (harness/c06_hist.cpp drives libstdc++ and the engine `stdhist side=spec` replays the same calls).

  An element is `(key, tag)`: the comparison / hash / key-equality look at the key only; the tag is the mapped value of a
  map, and for a set it is the part of the element the comparison does not see (so equivalent elements stay
  distinguishable, which makes "stable order of equivalent keys" and "unchanged if the insertion fails" observable).
  A history works on two containers `a`, `b` of one kind and one node handle (what merge / swap / assignment / the
  comparison operators and extract / insert(node) need).
  Iterators: a position is the rank in the canonical sequence, `size` = `end()`. The library documents that every
  mutation invalidates all iterators, so a legal call names positions of the CURRENT sequence.
-/
namespace Momo.StdSpec

abbrev Item := Nat × Nat

inductive Side where
  | a | b
deriving DecidableEq, Repr, Inhabited

def Side.other : Side → Side
  | .a => .b
  | .b => .a

/-- two containers and one node handle -/
structure St where
  a : List Item := []
  b : List Item := []
  node : Option Item := none
deriving DecidableEq, Repr, Inhabited

def St.get (s : St) : Side → List Item
  | .a => s.a
  | .b => s.b

def St.put (s : St) (c : Side) (xs : List Item) : St :=
  match c with
  | .a => { s with a := xs }
  | .b => { s with b := xs }

/-- what a call lets the caller observe -/
inductive Obs where
  | done                                              -- `void`
  | pos (p : Nat)                                     -- an iterator, as rank (`size` = `end()`)
  | posFlag (p : Nat) (inserted : Bool)               -- `pair<iterator, bool>`
  | num (n : Nat)                                     -- `size_type`
  | flag (b : Bool)
  | val (v : Nat)                                     -- a mapped value / an element of a vector
  | outOfRange                                        -- `throw std::out_of_range`
  | invalidArgument                                   -- `throw std::invalid_argument` (only momo's documented refusals)
  | range (p q : Nat)                                 -- `pair<iterator, iterator>`
  | node (n : Option Item)                            -- contents of a node handle
  | posNode (p : Nat) (inserted : Bool) (n : Option Item)   -- `insert_return_type`
  | items (xs : List Item)                            -- a traversal `begin() … end()` (canonicalised when unordered)
  | cmp (eq ne lt le gt ge : Bool)                    -- `== != < <= > >=`
  | found (e : Option Item)                           -- unordered lookup: the element found (no rank exists)
  | foundFlag (e : Option Item) (inserted : Bool)     -- unordered `pair<iterator, bool>`: the element the iterator denotes
  | insRet (e : Option Item) (inserted : Bool) (n : Option Item)   -- unordered `insert_return_type`
  | vals (xs : List Nat)                              -- traversal of a vector
  | eqne (eq ne : Bool)                               -- `== !=` of the unordered containers
  | precondition                                      -- the call violates a documented precondition (never in a legal history)
deriving DecidableEq, Repr, Inhabited

/-! ## 1. Helpers: element order, canonical order -/

/-- `operator<` of the element type: `std::pair<const Key, T>` compares lexicographically; the set harness element does too -/
def itemLt (x y : Item) : Bool := x.1 < y.1 || (x.1 == y.1 && x.2 < y.2)

/-- `std::lexicographical_compare(a.begin(), a.end(), b.begin(), b.end())` ([alg.lex.comparison]) -/
def lexLt : List Item → List Item → Bool
  | _, [] => false
  | [], _ :: _ => true
  | x :: xs, y :: ys => if itemLt x y then true else if itemLt y x then false else lexLt xs ys

/-- [container.requirements] table: `a == b` is `equal(a.begin(), a.end(), b.begin(), b.end())`, `a != b` is `!(a == b)`;
    [container.opt]: `a < b` is `lexicographical_compare`, `a > b` is `b < a`, `a <= b` is `!(a > b)`, `a >= b` is `!(a < b)` -/
def seqCmp (a b : List Item) : Obs :=
  .cmp (a == b) (!(a == b)) (lexLt a b) (!(lexLt b a)) (lexLt b a) (!(lexLt a b))

/-- insertion of `x` directly before position `p` -/
def putAt (xs : List Item) (p : Nat) (x : Item) : List Item := xs.take p ++ x :: xs.drop p

/-- canonical order of an unordered container's elements: ascending by (key, tag) (insertion sort) -/
def canonIns (x : Item) : List Item → List Item
  | [] => [x]
  | y :: t => if itemLt y x then y :: canonIns x t else x :: y :: t

def canon : List Item → List Item
  | [] => []
  | x :: t => canonIns x (canon t)

/-! ## 2. Ordered associative containers: `std::set`, `std::multiset`, `std::map`, `std::multimap`

The value of an ordered container is the sequence of its elements in the order of iteration, which is non-descending by
key ([associative.reqmts]/10); for `multi` containers equivalent elements keep their relative order of insertion
(`insert` / `emplace` / `merge` put a new element at the END of the range of equivalent elements, a hinted insertion "as
close as possible to the position just prior to" the hint). -/

structure Kind where
  multi : Bool
  isMap : Bool
deriving DecidableEq, Repr, Inhabited

/-- `lower_bound(k)`: the first element whose key is not less than `k` -/
def lowerPos (k : Nat) (xs : List Item) : Nat := xs.findIdx (fun e => !decide (e.1 < k))
/-- `upper_bound(k)`: the first element whose key is greater than `k` -/
def upperPos (k : Nat) (xs : List Item) : Nat := xs.findIdx (fun e => decide (k < e.1))
/-- `find(k)`: an element with an equivalent key — the first one in iteration order —, or `end()` -/
def findPos (k : Nat) (xs : List Item) : Nat := xs.findIdx (fun e => e.1 == k)
def hasKey (k : Nat) (xs : List Item) : Bool := xs.any (fun e => e.1 == k)
/-- `count(k)` -/
def countKey (k : Nat) (xs : List Item) : Nat := xs.countP (fun e => e.1 == k)

/-- `a_uniq.insert(t)` / `a_eq.insert(t)` and `emplace(args)`: (sequence, position, inserted) -/
def sInsert (multi : Bool) (xs : List Item) (x : Item) : List Item × Nat × Bool :=
  if !multi && hasKey x.1 xs then (xs, findPos x.1 xs, false)
  else (putAt xs (upperPos x.1 xs) x, upperPos x.1 xs, true)

/-- the valid position closest to the hint -/
def closest (h lo hi : Nat) : Nat := if h < lo then lo else if hi < h then hi else h

/-- `a.insert(p, t)` / `emplace_hint(p, args)`: unique keys — same effect as `insert(t)`, the iterator to the element with
    the key; equivalent keys — inserted as close as possible to the position just prior to `p` -/
def sInsertHint (multi : Bool) (xs : List Item) (h : Nat) (x : Item) : List Item × Nat :=
  if multi then
    (putAt xs (closest h (lowerPos x.1 xs) (upperPos x.1 xs)) x, closest h (lowerPos x.1 xs) (upperPos x.1 xs))
  else ((sInsert false xs x).1, (sInsert false xs x).2.1)

/-- `insert(first, last)` / `insert(initializer_list)`: `insert(t)` for each element in turn -/
def sInsertMany (multi : Bool) (xs : List Item) (ys : List Item) : List Item :=
  ys.foldl (fun acc y => (sInsert multi acc y).1) xs

/-- `erase(k)`: all elements with an equivalent key; returns their number -/
def sEraseKey (xs : List Item) (k : Nat) : List Item × Nat := (xs.filter (fun e => e.1 != k), countKey k xs)

/-- `insert_or_assign(k, v)` / `(hint, k, v)` of `std::map`: assign to the mapped value if the key exists, else insert -/
def sInsertOrAssign (xs : List Item) (x : Item) : List Item × Nat × Bool :=
  if hasKey x.1 xs then (xs.set (findPos x.1 xs) x, findPos x.1 xs, false)
  else (putAt xs (upperPos x.1 xs) x, upperPos x.1 xs, true)

/-- `a.merge(a2)`: attempts to extract each element of `a2` (in order) and insert it into `a`; with unique keys an element
    whose key is present in `a` stays in `a2`. Returns (a, a2). -/
def sMerge (multi : Bool) (dst src : List Item) : List Item × List Item :=
  src.foldl (fun acc y => if (sInsert multi acc.1 y).2.2 then ((sInsert multi acc.1 y).1, acc.2) else (acc.1, acc.2 ++ [y]))
    (dst, [])

/-- calls of the interface shared by the four ordered containers (`tryEmplace … at`: `std::map` only) -/
inductive OCall where
  | insert (c : Side) (x : Item)                         -- insert(const value_type&) / insert(value_type&&)
  | emplace (c : Side) (x : Item)                        -- emplace(args…)
  | insertHint (c : Side) (h : Nat) (x : Item)           -- insert(hint, value)
  | emplaceHint (c : Side) (h : Nat) (x : Item)          -- emplace_hint(hint, args…)
  | insertRange (c : Side) (ys : List Item)              -- insert(first, last)
  | insertList (c : Side) (ys : List Item)               -- insert(initializer_list)
  | tryEmplace (c : Side) (h : Option Nat) (x : Item)    -- try_emplace([hint,] key, args…)
  | insertOrAssign (c : Side) (h : Option Nat) (x : Item)
  | index (c : Side) (k : Nat)                           -- `m[k]` read
  | indexAssign (c : Side) (k v : Nat)                   -- `m[k] = v`
  | at (c : Side) (k : Nat)
  | find (c : Side) (k : Nat)
  | count (c : Side) (k : Nat)
  | contains (c : Side) (k : Nat)
  | lowerBound (c : Side) (k : Nat)
  | upperBound (c : Side) (k : Nat)
  | equalRange (c : Side) (k : Nat)
  | eraseKey (c : Side) (k : Nat)
  | eraseAt (c : Side) (p : Nat)                         -- erase(iterator)
  | eraseRange (c : Side) (p q : Nat)                    -- erase(first, last)
  | eraseIf (c : Side) (m r : Nat)                       -- erase_if(c, key % m == r)
  | extractKey (c : Side) (k : Nat)                      -- node = c.extract(k)
  | extractAt (c : Side) (p : Nat)                       -- node = c.extract(iterator)
  | insertNode (c : Side)                                -- c.insert(std::move(node))
  | insertNodeHint (c : Side) (h : Nat)                  -- c.insert(hint, std::move(node))
  | dropNode                                             -- the node handle is destroyed
  | merge (c : Side)                                     -- c.merge(other)
  | clear (c : Side)
  | size (c : Side)
  | empty (c : Side)
  | swap                                                 -- a.swap(b) / swap(a, b)
  | assignCopy (c : Side)                                -- c = other
  | assignMove (c : Side)                                -- c = std::move(other); other is then re-created empty
  | constructCopy (c : Side)                             -- c is destroyed and copy-constructed from other
  | constructMove (c : Side)                             -- c is destroyed and move-constructed from other; other re-created empty
  | assignList (c : Side) (ys : List Item)               -- c = { … }
  | compare                                              -- a == b, a != b, a < b, a <= b, a > b, a >= b
  | contents (c : Side)                                  -- traversal begin() … end()
  | rcontents (c : Side)                                 -- traversal rbegin() … rend() (also crbegin() … crend())
  | constructRange (c : Side) (ys : List Item)           -- c is destroyed and constructed as X(first, last[, comp][, alloc])
  | constructList (c : Side) (ys : List Item)            -- c is destroyed and constructed as X({ … }[, comp][, alloc])
deriving DecidableEq, Repr, Inhabited

/-- the documented preconditions, nothing else: iterators denote positions of the current sequence (hints and range
    ends may be `end()`, erased / extracted positions must be dereferenceable), `first` not behind `last`, the `std::map`
    members exist only for `std::map`, `erase_if` needs a non-zero modulus (the predicate of the harness). -/
def OCall.legal (kd : Kind) (s : St) : OCall → Bool
  | .insertHint c h _ | .emplaceHint c h _ | .insertNodeHint c h => h ≤ (s.get c).length
  | .tryEmplace c h _ | .insertOrAssign c h _ =>
      kd.isMap && !kd.multi && (match h with | none => true | some h => h ≤ (s.get c).length)
  | .index _ _ | .indexAssign _ _ _ | .at _ _ => kd.isMap && !kd.multi
  | .eraseAt c p | .extractAt c p => p < (s.get c).length
  | .eraseRange c p q => p ≤ q && q ≤ (s.get c).length
  | .eraseIf _ m _ => 0 < m
  | _ => true

/-- one call on the specification: new state and observation -/
def OCall.spec (kd : Kind) (s : St) : OCall → St × Obs
  | .insert c x | .emplace c x =>
      let r := sInsert kd.multi (s.get c) x
      (s.put c r.1, if kd.multi then .pos r.2.1 else .posFlag r.2.1 r.2.2)
  | .insertHint c h x | .emplaceHint c h x =>
      let r := sInsertHint kd.multi (s.get c) h x
      (s.put c r.1, .pos r.2)
  | .insertRange c ys | .insertList c ys => (s.put c (sInsertMany kd.multi (s.get c) ys), .done)
  | .tryEmplace c h x =>
      let r := sInsert false (s.get c) x
      (s.put c r.1, match h with | none => .posFlag r.2.1 r.2.2 | some _ => .pos r.2.1)
  | .insertOrAssign c h x =>
      let r := sInsertOrAssign (s.get c) x
      (s.put c r.1, match h with | none => .posFlag r.2.1 r.2.2 | some _ => .pos r.2.1)
  | .index c k =>
      -- `m[k]`: inserts `(k, T())` if there is no such key; reference to the mapped value
      let r := sInsert false (s.get c) (k, 0)
      (s.put c r.1, .val (r.1[r.2.1]?.getD (0, 0)).2)
  | .indexAssign c k v => (s.put c (sInsertOrAssign (s.get c) (k, v)).1, .done)
  | .at c k => (s, if hasKey k (s.get c) then .val ((s.get c)[findPos k (s.get c)]?.getD (0, 0)).2 else .outOfRange)
  | .find c k => (s, .pos (findPos k (s.get c)))
  | .count c k => (s, .num (countKey k (s.get c)))
  | .contains c k => (s, .flag (hasKey k (s.get c)))
  | .lowerBound c k => (s, .pos (lowerPos k (s.get c)))
  | .upperBound c k => (s, .pos (upperPos k (s.get c)))
  | .equalRange c k => (s, .range (lowerPos k (s.get c)) (upperPos k (s.get c)))
  | .eraseKey c k => (s.put c (sEraseKey (s.get c) k).1, .num (sEraseKey (s.get c) k).2)
  | .eraseAt c p => (s.put c ((s.get c).eraseIdx p), .pos p)               -- the element that followed now has rank p
  | .eraseRange c p q => (s.put c ((s.get c).take p ++ (s.get c).drop q), .pos p)
  | .eraseIf c m r =>
      let ys := (s.get c).filter (fun e => e.1 % m != r)
      (s.put c ys, .num ((s.get c).length - ys.length))
  | .extractKey c k =>
      if hasKey k (s.get c) then
        ({ (s.put c ((s.get c).eraseIdx (findPos k (s.get c)))) with node := (s.get c)[findPos k (s.get c)]? },
         .node (s.get c)[findPos k (s.get c)]?)
      else ({ s with node := none }, .node none)
  | .extractAt c p => ({ (s.put c ((s.get c).eraseIdx p)) with node := (s.get c)[p]? }, .node (s.get c)[p]?)
  | .insertNode c =>
      match s.node with
      | none => (s, .posNode (s.get c).length false none)
      | some x =>
        let r := sInsert kd.multi (s.get c) x
        -- "if the insertion failed … node contains the node previously held" (unique keys); an equivalent-key
        -- container always inserts
        ({ (s.put c r.1) with node := if r.2.2 then none else some x }, .posNode r.2.1 r.2.2 (if r.2.2 then none else some x))
  | .insertNodeHint c h =>
      match s.node with
      | none => (s, .posNode (s.get c).length false none)
      | some x =>
        let r := sInsertHint kd.multi (s.get c) h x
        let ins := kd.multi || !hasKey x.1 (s.get c)
        ({ (s.put c r.1) with node := if ins then none else some x }, .posNode r.2 ins (if ins then none else some x))
  | .dropNode => ({ s with node := none }, .done)
  | .merge c =>
      let r := sMerge kd.multi (s.get c) (s.get c.other)
      ((s.put c r.1).put c.other r.2, .done)
  | .clear c => (s.put c [], .done)
  | .size c => (s, .num (s.get c).length)
  | .empty c => (s, .flag (s.get c).isEmpty)
  | .swap => ({ s with a := s.b, b := s.a }, .done)
  | .assignCopy c | .constructCopy c => (s.put c (s.get c.other), .done)
  | .assignMove c | .constructMove c => ((s.put c (s.get c.other)).put c.other [], .done)
  | .assignList c ys => (s.put c (sInsertMany kd.multi [] ys), .done)
  | .compare => (s, seqCmp s.a s.b)
  | .contents c => (s, .items (s.get c))
  -- [container.rev.reqmts]: `rbegin()` is `reverse_iterator(end())`
  | .rcontents c => (s, .items (s.get c).reverse)
  -- [associative.reqmts] `X(i, j, c)`: "constructs an empty container and inserts elements from the range [i, j) into it"
  | .constructRange c ys | .constructList c ys => (s.put c (sInsertMany kd.multi [] ys), .done)

/-- a history is legal when every call is legal in the state in which it is issued -/
def OCall.legalFrom (kd : Kind) : St → List OCall → Bool
  | _, [] => true
  | s, c :: cs => c.legal kd s && OCall.legalFrom kd (c.spec kd s).1 cs

/-- the observations of a history on the specification, from two empty containers -/
def OCall.runSpecFrom (kd : Kind) : St → List OCall → List Obs
  | _, [] => []
  | s, c :: cs => (c.spec kd s).2 :: OCall.runSpecFrom kd (c.spec kd s).1 cs

def ordLegal (kd : Kind) (cs : List OCall) : Bool := OCall.legalFrom kd {} cs
def ordRunSpec (kd : Kind) (cs : List OCall) : List Obs := OCall.runSpecFrom kd {} cs

/-! ## 3. `std::vector` ([sequence.reqmts], [vector]): the value is the list of elements -/

structure VSt where
  a : List Nat := []
  b : List Nat := []
deriving DecidableEq, Repr, Inhabited

def VSt.get (s : VSt) : Side → List Nat
  | .a => s.a
  | .b => s.b

def VSt.put (s : VSt) (c : Side) (xs : List Nat) : VSt :=
  match c with
  | .a => { s with a := xs }
  | .b => { s with b := xs }

/-- `std::lexicographical_compare` on element sequences -/
def lexLtN : List Nat → List Nat → Bool
  | _, [] => false
  | [], _ :: _ => true
  | x :: xs, y :: ys => if x < y then true else if y < x then false else lexLtN xs ys

def vecCmp (a b : List Nat) : Obs :=
  .cmp (a == b) (!(a == b)) (lexLtN a b) (!(lexLtN b a)) (lexLtN b a) (!(lexLtN a b))

/-- `a.insert(p, i, j)` / `insert(p, n, t)` / `insert(p, t)`: the new elements stand before position `p` -/
def vInsert (xs : List Nat) (p : Nat) (ys : List Nat) : List Nat := xs.take p ++ ys ++ xs.drop p

/-- `resize(n, v)`: erase the last `size - n` elements or append `n - size` copies of `v` -/
def vResize (xs : List Nat) (n v : Nat) : List Nat :=
  if n ≤ xs.length then xs.take n else xs ++ List.replicate (n - xs.length) v

inductive VCall where
  | pushBack (c : Side) (v : Nat)                        -- push_back / emplace_back
  | popBack (c : Side)
  | insert (c : Side) (p v : Nat)                        -- insert(pos, value) / emplace(pos, args…)
  | insertN (c : Side) (p n v : Nat)                     -- insert(pos, n, value)
  | insertRange (c : Side) (p : Nat) (ys : List Nat)     -- insert(pos, first, last) / insert(pos, initializer_list)
  | eraseAt (c : Side) (p : Nat)                         -- erase(pos)
  | eraseRange (c : Side) (p q : Nat)                    -- erase(first, last)
  | eraseVal (c : Side) (v : Nat)                        -- erase(c, value)   (free function)
  | resize (c : Side) (n : Nat)
  | resizeVal (c : Side) (n v : Nat)
  | assignN (c : Side) (n v : Nat)                       -- assign(n, value)
  | assignRange (c : Side) (ys : List Nat)               -- assign(first, last) / assign(initializer_list) / c = { … }
  | at (c : Side) (i : Nat)
  | index (c : Side) (i : Nat)                           -- c[i]
  | front (c : Side)
  | back (c : Side)
  | clear (c : Side)
  | size (c : Side)
  | empty (c : Side)
  | swap
  | assignCopy (c : Side)
  | assignMove (c : Side)
  | constructCopy (c : Side)
  | constructMove (c : Side)
  | compare
  | contents (c : Side)
  | rcontents (c : Side)                                 -- rbegin() … rend() / crbegin() … crend()
  | constructN (c : Side) (n v : Nat)                    -- c is destroyed and constructed as vector(n, value) (vector(n): value 0)
  | constructRange (c : Side) (ys : List Nat)            -- … as vector(first, last) / vector({ … })
  | reserve (c : Side) (n : Nat)                         -- reserve(n): no effect on the sequence
  | shrinkToFit (c : Side)                               -- shrink_to_fit(): no effect on the sequence
deriving DecidableEq, Repr, Inhabited

/-- preconditions of [sequence.reqmts] / [vector]: positions inside `[begin, end]`, dereferenceable where an element is
    named, `first` not behind `last`, `front` / `back` / `pop_back` / `c[i]` on an existing element. `at` has none. -/
def VCall.legal (s : VSt) : VCall → Bool
  | .popBack c | .front c | .back c => 0 < (s.get c).length
  | .insert c p _ | .insertN c p _ _ | .insertRange c p _ => p ≤ (s.get c).length
  | .eraseAt c p | .index c p => p < (s.get c).length
  | .eraseRange c p q => p ≤ q && q ≤ (s.get c).length
  | _ => true

def VCall.spec (s : VSt) : VCall → VSt × Obs
  | .pushBack c v => (s.put c (vInsert (s.get c) (s.get c).length [v]), .done)     -- `insert(end(), t)`
  | .popBack c => (s.put c ((s.get c).eraseIdx ((s.get c).length - 1)), .done)     -- `erase(--end())`
  | .insert c p v => (s.put c (vInsert (s.get c) p [v]), .pos p)
  | .insertN c p n v => (s.put c (vInsert (s.get c) p (List.replicate n v)), .pos p)
  | .insertRange c p ys => (s.put c (vInsert (s.get c) p ys), .pos p)
  | .eraseAt c p => (s.put c ((s.get c).eraseIdx p), .pos p)
  | .eraseRange c p q => (s.put c ((s.get c).take p ++ (s.get c).drop q), .pos p)
  | .eraseVal c v =>
      let ys := (s.get c).filter (fun e => e != v)
      (s.put c ys, .num ((s.get c).length - ys.length))
  | .resize c n => (s.put c (vResize (s.get c) n 0), .done)
  | .resizeVal c n v => (s.put c (vResize (s.get c) n v), .done)
  | .assignN c n v => (s.put c (List.replicate n v), .done)
  | .assignRange c ys => (s.put c ys, .done)
  | .at c i => (s, match (s.get c)[i]? with | some v => .val v | none => .outOfRange)
  | .index c i => (s, .val ((s.get c)[i]?.getD 0))
  | .front c => (s, .val ((s.get c).head?.getD 0))
  | .back c => (s, .val ((s.get c).getLast?.getD 0))
  | .clear c => (s.put c [], .done)
  | .size c => (s, .num (s.get c).length)
  | .empty c => (s, .flag (s.get c).isEmpty)
  | .swap => ({ a := s.b, b := s.a }, .done)
  | .assignCopy c | .constructCopy c => (s.put c (s.get c.other), .done)
  | .assignMove c | .constructMove c => ((s.put c (s.get c.other)).put c.other [], .done)
  | .compare => (s, vecCmp s.a s.b)
  | .contents c => (s, .vals (s.get c))
  | .rcontents c => (s, .vals (s.get c).reverse)
  | .constructN c n v => (s.put c (List.replicate n v), .done)
  | .constructRange c ys => (s.put c ys, .done)
  | .reserve _ _ | .shrinkToFit _ => (s, .done)

def VCall.legalFrom : VSt → List VCall → Bool
  | _, [] => true
  | s, c :: cs => c.legal s && VCall.legalFrom (c.spec s).1 cs

def VCall.runSpecFrom : VSt → List VCall → List Obs
  | _, [] => []
  | s, c :: cs => (c.spec s).2 :: VCall.runSpecFrom (c.spec s).1 cs

def vecLegal (cs : List VCall) : Bool := VCall.legalFrom {} cs
def vecRunSpec (cs : List VCall) : List Obs := VCall.runSpecFrom {} cs

/-! ## 4. Unordered associative containers with unique keys: `std::unordered_set`, `std::unordered_map` ([unord.req])

The value is the finite set of elements (distinct keys); the iteration order is unspecified, so a state is kept as a list
in SOME order and every observation is independent of it: traversals are reported in canonical order (`canon`), lookups
report the element found (no rank exists), `erase` / `insert` report flags and the element the returned iterator denotes.
An iterator argument is named by the key of the element it denotes. -/

/-- the element with key `k`, if any -/
def uFind (k : Nat) (xs : List Item) : Option Item := xs.find? (fun e => e.1 == k)

/-- `insert(t)` / `emplace(args)` with unique keys: (elements, inserted, the element the returned iterator denotes) -/
def suInsert (xs : List Item) (x : Item) : List Item × Bool × Item :=
  match uFind x.1 xs with
  | some e => (xs, false, e)
  | none => (xs ++ [x], true, x)

def suInsertMany (xs ys : List Item) : List Item := ys.foldl (fun acc y => (suInsert acc y).1) xs

/-- `insert_or_assign(k, v)` -/
def suInsertOrAssign (xs : List Item) (x : Item) : List Item × Bool × Item :=
  if hasKey x.1 xs then (xs.map (fun e => if e.1 == x.1 then x else e), false, x) else (xs ++ [x], true, x)

/-- `a.merge(a2)` with unique keys: the elements of `a2` whose key is not in `a` move to `a`, the others stay. (a, a2) -/
def suMerge (dst src : List Item) : List Item × List Item :=
  (dst ++ src.filter (fun e => !hasKey e.1 dst), src.filter (fun e => hasKey e.1 dst))

/-- ranges `[first, last)` an unordered `erase(first, last)` is documented to accept -/
inductive URange where
  | empty                               -- first == last
  | single (k : Nat) (traversal : Bool) -- [it, next(it)) with `it` at the element with key `k`; `it` obtained by traversal
                                        --   from begin() or as a lookup / insertion result (then `last` may also be `end()`)
  | whole                               -- [begin(), end())
deriving DecidableEq, Repr, Inhabited

inductive UCall where
  | insert (c : Side) (x : Item)
  | emplace (c : Side) (x : Item)
  | insertHint (c : Side) (x : Item)                     -- insert(hint, value): any valid hint
  | emplaceHint (c : Side) (x : Item)
  | insertRange (c : Side) (ys : List Item)
  | insertList (c : Side) (ys : List Item)
  | tryEmplace (c : Side) (hinted : Bool) (x : Item)     -- unordered_map only, as the four below
  | insertOrAssign (c : Side) (hinted : Bool) (x : Item)
  | index (c : Side) (k : Nat)
  | indexAssign (c : Side) (k v : Nat)
  | at (c : Side) (k : Nat)
  | find (c : Side) (k : Nat)
  | count (c : Side) (k : Nat)
  | contains (c : Side) (k : Nat)
  | equalRange (c : Side) (k : Nat)                      -- the elements of the range, read one by one
  | eraseKey (c : Side) (k : Nat)
  | eraseElem (c : Side) (k : Nat)                       -- erase(iterator) at the element with key k
  | eraseRange (c : Side) (r : URange)
  | eraseIf (c : Side) (m r : Nat)
  | extractKey (c : Side) (k : Nat)
  | extractElem (c : Side) (k : Nat)                     -- extract(iterator)
  | insertNode (c : Side)
  | insertNodeHint (c : Side)
  | dropNode
  | merge (c : Side)
  | clear (c : Side)
  | size (c : Side)
  | empty (c : Side)
  | swap
  | assignCopy (c : Side)
  | assignMove (c : Side)
  | constructCopy (c : Side)
  | constructMove (c : Side)
  | assignList (c : Side) (ys : List Item)
  | compare                                              -- a == b, a != b
  | contents (c : Side)
  | constructRange (c : Side) (ys : List Item)           -- c is destroyed and constructed as X(first, last[, n[, hf[, eq]]][, alloc])
  | constructList (c : Side) (ys : List Item)            -- … as X({ … }[, n[, hf[, eq]]][, alloc])
  | reserve (c : Side) (n : Nat)                         -- reserve(n)
  | rehash (c : Side) (n : Nat)                          -- rehash(n)
  | maxLoadFactor (c : Side)                             -- max_load_factor(z), any legal z
deriving DecidableEq, Repr, Inhabited

/-- preconditions: an iterator argument denotes an element of the container, the `unordered_map` members exist only
    there, `erase_if` needs a non-zero modulus. Ranges other than `URange` are outside the claim (documented deviation). -/
def UCall.legal (isMap : Bool) (s : St) : UCall → Bool
  | .tryEmplace _ _ _ | .insertOrAssign _ _ _ | .index _ _ | .indexAssign _ _ _ | .at _ _ => isMap
  | .eraseElem c k | .extractElem c k | .eraseRange c (.single k _) => hasKey k (s.get c)
  | .eraseIf _ m _ => 0 < m
  | _ => true

def UCall.spec (s : St) : UCall → St × Obs
  | .insert c x | .emplace c x =>
      let r := suInsert (s.get c) x
      (s.put c r.1, .foundFlag (some r.2.2) r.2.1)
  | .insertHint c x | .emplaceHint c x =>
      let r := suInsert (s.get c) x
      (s.put c r.1, .found (some r.2.2))
  | .insertRange c ys | .insertList c ys => (s.put c (suInsertMany (s.get c) ys), .done)
  | .tryEmplace c hinted x =>
      let r := suInsert (s.get c) x
      (s.put c r.1, if hinted then .found (some r.2.2) else .foundFlag (some r.2.2) r.2.1)
  | .insertOrAssign c hinted x =>
      let r := suInsertOrAssign (s.get c) x
      (s.put c r.1, if hinted then .found (some r.2.2) else .foundFlag (some r.2.2) r.2.1)
  | .index c k =>
      let r := suInsert (s.get c) (k, 0)
      (s.put c r.1, .val r.2.2.2)
  | .indexAssign c k v => (s.put c (suInsertOrAssign (s.get c) (k, v)).1, .done)
  | .at c k => (s, match uFind k (s.get c) with | some e => .val e.2 | none => .outOfRange)
  | .find c k => (s, .found (uFind k (s.get c)))
  | .count c k => (s, .num (countKey k (s.get c)))
  | .contains c k => (s, .flag (hasKey k (s.get c)))
  | .equalRange c k => (s, .items (canon ((s.get c).filter (fun e => e.1 == k))))
  | .eraseKey c k => (s.put c ((s.get c).filter (fun e => e.1 != k)), .num (countKey k (s.get c)))
  | .eraseElem c k => (s.put c ((s.get c).filter (fun e => e.1 != k)), .done)
  | .eraseRange c r =>
      match r with
      | .empty => (s, .done)
      | .single k _ => (s.put c ((s.get c).filter (fun e => e.1 != k)), .done)
      | .whole => (s.put c [], .done)
  | .eraseIf c m r =>
      let ys := (s.get c).filter (fun e => e.1 % m != r)
      (s.put c ys, .num ((s.get c).length - ys.length))
  | .extractKey c k | .extractElem c k =>
      ({ (s.put c ((s.get c).filter (fun e => e.1 != k))) with node := uFind k (s.get c) }, .node (uFind k (s.get c)))
  | .insertNode c =>
      match s.node with
      | none => (s, .insRet none false none)                  -- `end()`, not inserted, empty node
      | some x =>
        let r := suInsert (s.get c) x
        ({ (s.put c r.1) with node := if r.2.1 then none else some x }, .insRet (some r.2.2) r.2.1 (if r.2.1 then none else some x))
  | .insertNodeHint c =>
      -- [unord.req] says the node is unchanged when the insertion fails; libstdc++ implements `insert(hint, nh)` as
      -- `_M_reinsert_node(std::move(nh)).position`, whose temporary result destroys a refused node. The property is stated
      -- against libstdc++, and the differential run confirms this line on every check.
      match s.node with
      | none => (s, .insRet none false none)
      | some x =>
        let r := suInsert (s.get c) x
        ({ (s.put c r.1) with node := none }, .insRet (some r.2.2) r.2.1 none)
  | .dropNode => ({ s with node := none }, .done)
  | .merge c =>
      let r := suMerge (s.get c) (s.get c.other)
      ((s.put c r.1).put c.other r.2, .done)
  | .clear c => (s.put c [], .done)
  | .size c => (s, .num (s.get c).length)
  | .empty c => (s, .flag (s.get c).isEmpty)
  | .swap => ({ s with a := s.b, b := s.a }, .done)
  | .assignCopy c | .constructCopy c => (s.put c (s.get c.other), .done)
  | .assignMove c | .constructMove c => ((s.put c (s.get c.other)).put c.other [], .done)
  | .assignList c ys => (s.put c (suInsertMany [] ys), .done)
  -- [unord.req]: `a == b` iff equal sizes and every group of equivalent keys of `a` is a permutation of the group in `b`:
  -- the two element multisets are equal
  | .compare => (s, .eqne (s.a.isPerm s.b) (!(s.a.isPerm s.b)))
  | .contents c => (s, .items (canon (s.get c)))
  | .constructRange c ys | .constructList c ys => (s.put c (suInsertMany [] ys), .done)
  -- [unord.req]: `rehash` / `reserve` / `max_load_factor(z)` change the bucket structure only: the elements stay
  | .reserve _ _ | .rehash _ _ | .maxLoadFactor _ => (s, .done)

def UCall.legalFrom (isMap : Bool) : St → List UCall → Bool
  | _, [] => true
  | s, c :: cs => c.legal isMap s && UCall.legalFrom isMap (c.spec s).1 cs

def UCall.runSpecFrom : St → List UCall → List Obs
  | _, [] => []
  | s, c :: cs => (c.spec s).2 :: UCall.runSpecFrom (c.spec s).1 cs

def unoLegal (isMap : Bool) (cs : List UCall) : Bool := UCall.legalFrom isMap {} cs
def unoRunSpec (cs : List UCall) : List Obs := UCall.runSpecFrom {} cs

/-! ## 5. `std::unordered_multimap` ([unord.req], equivalent keys)

The value is the finite multiset of (key, mapped) pairs; elements with equivalent keys are adjacent in the iteration
order, which is otherwise unspecified. A state is a list of pairs in SOME order; observations do not depend on it. An
iterator argument is named by the pair it denotes (equal pairs are indistinguishable). -/

/-- ranges `[first, last)` the unordered `erase(first, last)` of the multimap is documented to accept -/
inductive MRange where
  | empty
  | single (x : Item) (traversal : Bool)     -- [it, next(it)), `it` at a pair equal to `x`
  | wholeKey (k : Nat) (traversal : Bool)    -- all pairs with key `k`: by traversal iterators, or `equal_range(k)`
  | whole                                    -- [begin(), end())
deriving DecidableEq, Repr, Inhabited

inductive MCall where
  | insert (c : Side) (x : Item)
  | emplace (c : Side) (x : Item)
  | insertHint (c : Side) (x : Item)
  | emplaceHint (c : Side) (x : Item)
  | insertRange (c : Side) (ys : List Item)
  | insertList (c : Side) (ys : List Item)
  | find (c : Side) (k : Nat)                            -- found / not found (which of the equivalent pairs is unspecified)
  | count (c : Side) (k : Nat)
  | contains (c : Side) (k : Nat)
  | equalRange (c : Side) (k : Nat)                      -- the pairs of the range, traversed
  | eraseKey (c : Side) (k : Nat)
  | eraseElem (c : Side) (x : Item)                      -- erase(iterator) at a pair equal to x
  | eraseRange (c : Side) (r : MRange)
  | eraseIf (c : Side) (m r : Nat)
  | clear (c : Side)
  | size (c : Side)
  | empty (c : Side)
  | swap
  | assignCopy (c : Side)
  | assignMove (c : Side)
  | constructCopy (c : Side)
  | constructMove (c : Side)
  | assignList (c : Side) (ys : List Item)
  | compare
  | contents (c : Side)
  | constructRange (c : Side) (ys : List Item)           -- c is destroyed and constructed from a range
  | constructList (c : Side) (ys : List Item)            -- … from an initializer list
deriving DecidableEq, Repr, Inhabited

def MCall.legal (s : St) : MCall → Bool
  | .eraseElem c x | .eraseRange c (.single x _) => (s.get c).contains x
  | .eraseRange c (.wholeKey k _) => hasKey k (s.get c)
  | .eraseIf _ m _ => 0 < m
  | _ => true

def MCall.spec (s : St) : MCall → St × Obs
  | .insert c x | .emplace c x | .insertHint c x | .emplaceHint c x => (s.put c (s.get c ++ [x]), .found (some x))
  | .insertRange c ys | .insertList c ys => (s.put c (s.get c ++ ys), .done)
  | .find c k => (s, .flag (hasKey k (s.get c)))
  | .count c k => (s, .num (countKey k (s.get c)))
  | .contains c k => (s, .flag (hasKey k (s.get c)))
  | .equalRange c k => (s, .items (canon ((s.get c).filter (fun e => e.1 == k))))
  | .eraseKey c k => (s.put c ((s.get c).filter (fun e => e.1 != k)), .num (countKey k (s.get c)))
  | .eraseElem c x => (s.put c ((s.get c).erase x), .done)
  | .eraseRange c r =>
      match r with
      | .empty => (s, .done)
      | .single x _ => (s.put c ((s.get c).erase x), .done)
      | .wholeKey k _ => (s.put c ((s.get c).filter (fun e => e.1 != k)), .done)
      | .whole => (s.put c [], .done)
  | .eraseIf c m r =>
      let ys := (s.get c).filter (fun e => e.1 % m != r)
      (s.put c ys, .num ((s.get c).length - ys.length))
  | .clear c => (s.put c [], .done)
  | .size c => (s, .num (s.get c).length)
  | .empty c => (s, .flag (s.get c).isEmpty)
  | .swap => ({ s with a := s.b, b := s.a }, .done)
  | .assignCopy c | .constructCopy c => (s.put c (s.get c.other), .done)
  | .assignMove c | .constructMove c => ((s.put c (s.get c.other)).put c.other [], .done)
  | .assignList c ys => (s.put c ys, .done)
  | .compare => (s, .eqne (s.a.isPerm s.b) (!(s.a.isPerm s.b)))
  | .contents c => (s, .items (canon (s.get c)))
  | .constructRange c ys | .constructList c ys => (s.put c ys, .done)

def MCall.legalFrom : St → List MCall → Bool
  | _, [] => true
  | s, c :: cs => c.legal s && MCall.legalFrom (c.spec s).1 cs

def MCall.runSpecFrom : St → List MCall → List Obs
  | _, [] => []
  | s, c :: cs => (c.spec s).2 :: MCall.runSpecFrom (c.spec s).1 cs

def mmLegal (cs : List MCall) : Bool := MCall.legalFrom {} cs
def mmRunSpec (cs : List MCall) : List Obs := MCall.runSpecFrom {} cs

end Momo.StdSpec
