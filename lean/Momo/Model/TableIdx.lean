import Momo.Model.Table
import Momo.Model.HashTable
/-
  Bucket-level model of one unique hash index of momo::DataTable (C07, finding F9): `DataIndexes::UniqueHash`
  = a `HashSet<Raw*>` whose hash function and equality read the raws' CURRENT column values.

  Source mirrored (include/momo):
    DataIndexes.h
      HashTraits::GetHashCode(Raw*) / IsEqual(Raw*, Raw*)            -> findRaw   (hash + equality through the row store)
      HashTraits::GetHashCode / IsEqual(HashMixedKey, Raw*)           -> findMixed (row values with one column replaced)
      UniqueHash::Add(hashMixedKey)   (Find, then Add(pos, raw))      -> addMixed
      UniqueHash::PrepareRemove(raw)  (mHashSet.Find(raw))            -> prepareRemove
      itemAssigner(raw, offset)                                       -> assignCol
      UniqueHash::AcceptAdd(), AcceptRemove() (mHashSet.Remove(pos))  -> acceptAdd, acceptRemove
      DataIndexes::UpdateRaw(raw, offset, item, assigner), one index  -> updCol   (the steps in exactly this order)
    HashSet.h      pvFind (both overloads)                            -> visitSeq / findTableP
                   pvAdd, pvAddGrow, pvRelocateItems, pvRemove         -> HT.add / HT.removePos (the model of C01, reused)
    details/HashBucketOpen2N2.h  Find (slot 0 first; slots are filled from the last one: newest item first),
                   pvCalcShortHash                                     -> BSpec.newestFirst / BSpec.short

  The hash table is the table `HT.Table` of the C01 model. An item of it stands for one ENTRY of the hash set:
  `Item.key` = identity of the entry (never reused; stands for "this slot content", the thing a `Position` points to),
  `Item.val` = the raw id stored in the entry. `hs e` = the hash code under which entry `e` was inserted (in the real
  table: where the entry sits + the hash bits its bucket keeps). A lookup examines the positions of `visitSeq` in order
  and returns the first whose stored short hash equals the short hash searched and whose raw passes the equality
  functor - evaluated on the rows as they are at that moment, so two entries holding the same raw both pass.
  Core Lean only (linked into the driver).
-/
namespace Momo.TIdx
open Momo Momo.HT Momo.Probe
open Momo.Table (Row Store valsOf keyEq hashVals mixVals Acc item)

/-- bucket description: the `Spec` of C01 plus what only matters when one key can be met twice -/
structure BSpec where
  sp : Spec
  /-- `Bucket::Find` examines the newest item first (BucketOpen2N2: slot 0 first, slots are filled from the end);
      `false`: in insertion order -/
  newestFirst : Bool
  /-- `pvCalcShortHash`: the hash bits kept per item and compared before the equality functor is called -/
  short : Nat → Nat

/-- `BucketOpen2N2<ItemTraits, 3, useHashCodePartGetter = true>` (what `DataTraits::HashBucket = HashBucketOpenDefault` gives
    for `HashTraits::isFastNothrowHashable = false`): 7 hash bits, `hashCode >> 57` -/
def open2N2part (logStart : Nat) : BSpec :=
  { sp := { maxCount := 3, quad := true, fullFrom := 0, unlimited := false, bound := .mp2, cap := .ratio 11 12,
            baseShift := false, logStart := logStart, nothrowReloc := false },
    newestFirst := true,
    short := fun h => (h % 18446744073709551616) / 144115188075855872 }

/-- one unique hash index -/
structure UH where
  /-- `HashTraits::mOffsets` -/
  cols : List Nat
  t : Table := emptyTable
  /-- hash code under which each entry was inserted -/
  hs : Nat → Nat := fun _ => 0
  /-- identity of the next entry -/
  next : Nat := 0
  /-- `mPositionAdd` (the entry it points to) -/
  posAdd : Option Nat := none
  /-- `mPositionRemove` (generation, bucket, slot in insertion order) -/
  posRem : Option (Nat × Nat × Nat) := none

/-! ### lookup: the positions `pvFind` examines, in order -/

/-- order in which `Bucket::Find` examines the `n` items of a bucket (positions in insertion order) -/
def scanOrder (bs : BSpec) (n : Nat) : List Nat :=
  if bs.newestFirst then (List.range n).reverse else List.range n

/-- buckets examined after the home bucket by the probing loop of the static `pvFind` -/
def pathLoop (sp : Spec) (g : Gen) (maxP : Nat) : Nat → Nat → Nat → List Nat
  | 0, _, _ => []
  | fuel+1, probe, idx =>
    if (bkt sp g.bs idx).wasFull && decide (probe ≤ maxP) then
      nextIdx sp g.L idx probe :: pathLoop sp g maxP fuel (probe + 1) (nextIdx sp g.L idx probe)
    else []

/-- buckets examined in one generation for hash code `h` -/
def pathGen (sp : Spec) (g : Gen) (h : Nat) : List Nat :=
  start g.L h :: pathLoop sp g (maxProbe sp g.L (bkt sp g.bs (start g.L h)))
    (maxProbe sp g.L (bkt sp g.bs (start g.L h)) + 1) 1 (start g.L h)

def bucketSeq (bs : BSpec) (g : Gen) (b : Nat) : List (Nat × Nat) :=
  (scanOrder bs (bkt bs.sp g.bs b).items.length).map (fun j => (b, j))

def visitGen (bs : BSpec) (g : Gen) (h : Nat) : List (Nat × Nat) :=
  (pathGen bs.sp g h).flatMap (bucketSeq bs g)

/-- generations consulted: all of them, newest first (only the newest when relocation cannot fail) -/
def visitGens (bs : BSpec) (h : Nat) (gi : Nat) : List Gen → List (Nat × Nat × Nat)
  | [] => []
  | g :: rest =>
    (visitGen bs g h).map (fun p => (gi, p.1, p.2)) ++
      (if bs.sp.nothrowReloc then [] else visitGens bs h (gi + 1) rest)

/-- every position `pvFind(key)` can examine for hash code `h`, in the order it does -/
def visitSeq (bs : BSpec) (t : Table) (h : Nat) : List (Nat × Nat × Nat) := visitGens bs h 0 t.gens

def itemAt (sp : Spec) (t : Table) (pos : Nat × Nat × Nat) : Option Item :=
  match t.gens[pos.1]? with
  | none => none
  | some g => (bkt sp g.bs pos.2.1).items[pos.2.2]?

def holds (sp : Spec) (t : Table) (p : Item → Bool) (pos : Nat × Nat × Nat) : Bool :=
  match itemAt sp t pos with
  | some it => p it
  | none => false

/-- `pvFind`: the first examined position whose item passes `p` -/
def findTableP (bs : BSpec) (t : Table) (h : Nat) (p : Item → Bool) : Option (Nat × Nat × Nat) :=
  if t.count == 0 then none else (visitSeq bs t h).find? (holds bs.sp t p)

/-- the test one examined item undergoes: stored short hash, then the equality functor on the raw -/
def entPred (bs : BSpec) (hs : Nat → Nat) (h : Nat) (eq : Nat → Bool) : Item → Bool :=
  fun it => bs.short (hs it.key) == bs.short h && eq it.val

/-- `mHashSet.Find(Raw*)` -/
def findRaw (bs : BSpec) (acc : Acc) (st : Store) (u : UH) (raw : Nat) : Option (Nat × Nat × Nat) :=
  findTableP bs u.t (hashVals acc u.cols (valsOf st raw))
    (entPred bs u.hs (hashVals acc u.cols (valsOf st raw)) (fun id => keyEq u.cols (valsOf st raw) (valsOf st id)))

/-- `mHashSet.Find(HashMixedKey{raw, offset, item})` -/
def findMixed (bs : BSpec) (acc : Acc) (st : Store) (u : UH) (raw col v : Nat) : Option (Nat × Nat × Nat) :=
  findTableP bs u.t (hashVals acc u.cols (mixVals (valsOf st raw) col v))
    (entPred bs u.hs (hashVals acc u.cols (mixVals (valsOf st raw) col v))
      (fun id => keyEq u.cols (mixVals (valsOf st raw) col v) (valsOf st id)))

def rawAt (bs : BSpec) (u : UH) (pos : Nat × Nat × Nat) : Nat :=
  match itemAt bs.sp u.t pos with
  | some it => it.val
  | none => 0

def entAt (bs : BSpec) (u : UH) (pos : Nat × Nat × Nat) : Option Nat := (itemAt bs.sp u.t pos).map (·.key)

/-! ### the steps of `UpdateRaw(raw, offset, item, assigner)` on one unique index -/

inductive AddRes
  /-- a row with the new key is there already: `Add` returns it -/
  | dup (id : Nat)
  /-- `mHashSet.Add` threw (`bad_alloc`, `runtime_error`, `invalid_argument`) -/
  | fail (o : Outcome)
  | added
deriving DecidableEq, Repr, Inhabited

/-- `UniqueHash::Add(hashMixedKey)`: look the mixed key up; if absent add the raw at the position found, under the mixed hash -/
def addMixed (bs : BSpec) (acc : Acc) (st : Store) (u : UH) (raw col v : Nat) (f : Faults) : UH × AddRes :=
  match findMixed bs acc st u raw col v with
  | some pos => (u, .dup (rawAt bs u pos))
  | none =>
    let hs' : Nat → Nat := fun e => if e = u.next then hashVals acc u.cols (mixVals (valsOf st raw) col v) else u.hs e
    let r := add bs.sp hs' u.t ⟨u.next, raw⟩ f
    if r.2 = .ok then ({ u with t := r.1, hs := hs', next := u.next + 1, posAdd := some u.next }, .added)
    else ({ u with t := r.1 }, .fail r.2)

/-- `UniqueHash::PrepareRemove(raw)` -/
def prepareRemove (bs : BSpec) (acc : Acc) (st : Store) (u : UH) (raw : Nat) : UH :=
  { u with posRem := findRaw bs acc st u raw }

/-- `itemAssigner(raw, offset)` -/
def assignCol (st : Store) (raw col v : Nat) : Store :=
  st.map (fun r => if r.id = raw then { r with vals := r.vals.set col v } else r)

/-- `UniqueHash::AcceptAdd()` -/
def acceptAdd (u : UH) : UH := { u with posAdd := none }

/-- `UniqueHash::AcceptRemove()` -/
def acceptRemove (bs : BSpec) (u : UH) : UH :=
  match u.posRem with
  | none => u
  | some (gi, b, j) => { u with t := removePos bs.sp u.t gi b j, posRem := none }

inductive UpdRes
  | dup (id : Nat)
  | fail (o : Outcome)
  | done (u : UH) (st : Store)

/-- `DataIndexes::UpdateRaw(raw, offset, item, assigner)` restricted to one unique index over the column:
    Add(hashMixedKey), PrepareRemove(raw), assigner, AcceptAdd, AcceptRemove -/
def updCol (bs : BSpec) (acc : Acc) (st : Store) (u : UH) (raw col v : Nat) (f : Faults) : UpdRes :=
  match addMixed bs acc st u raw col v f with
  | (_, .dup id) => .dup id
  | (_, .fail o) => .fail o
  | (u1, .added) =>
    .done (acceptRemove bs (acceptAdd (prepareRemove bs acc st u1 raw))) (assignCol st raw col v)

/-! ### the other entry points of one index (used to build tables) -/

/-- `UniqueHash::Add(Raw* raw)` (`mHashSet.Insert(raw)`) followed by `AcceptAdd()`: `none` = a row with this key exists -/
def addRaw (bs : BSpec) (acc : Acc) (st : Store) (u : UH) (raw : Nat) (f : Faults) : Option UH :=
  match findRaw bs acc st u raw with
  | some _ => none
  | none =>
    let hs' : Nat → Nat := fun e => if e = u.next then hashVals acc u.cols (valsOf st raw) else u.hs e
    let r := add bs.sp hs' u.t ⟨u.next, raw⟩ f
    if r.2 = .ok then some { u with t := r.1, hs := hs', next := u.next + 1 } else none

/-- `PrepareRemove(raw)` + `AcceptRemove()` (the index part of `RemoveRaw`) -/
def removeRaw (bs : BSpec) (acc : Acc) (st : Store) (u : UH) (raw : Nat) : UH :=
  acceptRemove bs (prepareRemove bs acc st u raw)

/-- index of the rows `ids` of `st`, added in this order -/
def buildIdx (bs : BSpec) (acc : Acc) (st : Store) (cols : List Nat) (ids : List Nat) : UH :=
  ids.foldl (fun u id => (addRaw bs acc st u id {}).getD u) { cols := cols }

/-- `Find(HashTupleKey)` for a key given as the values of all columns: the raw found -/
def lookupVals (bs : BSpec) (acc : Acc) (st : Store) (u : UH) (vals : List Nat) : Option Nat :=
  (findTableP bs u.t (hashVals acc u.cols vals)
    (entPred bs u.hs (hashVals acc u.cols vals) (fun id => keyEq u.cols vals (valsOf st id)))).map (rawAt bs u)

/-! ### what the theorems speak about -/

/-- the entry `PrepareRemove` settles on, after `Add(hashMixedKey)` has run -/
def remTarget (bs : BSpec) (acc : Acc) (st : Store) (u : UH) (raw col v : Nat) (f : Faults) : Option Nat :=
  match findRaw bs acc st (addMixed bs acc st u raw col v f).1 raw with
  | some pos => entAt bs (addMixed bs acc st u raw col v f).1 pos
  | none => none

/-- position of entry `e` -/
def posOf (bs : BSpec) (t : Table) (h : Nat) (e : Nat) : Option Nat :=
  let i := (visitSeq bs t h).findIdx (holds bs.sp t (fun it => it.key == e))
  if i < (visitSeq bs t h).length then some i else none

/-- rank of entry `e` in the visiting order of hash code `h` (`none`: the lookup never examines it) -/
def visitRank (bs : BSpec) (t : Table) (h : Nat) (e : Nat) : Option Nat := posOf bs t h e

/-- `a` is examined, and strictly before `b` (or `b` is not examined at all) -/
def before (a b : Option Nat) : Bool :=
  match a, b with
  | some i, some j => decide (i < j)
  | some _, none => true
  | none, _ => false

/-- **the decidable F9 condition**, evaluated on the table as `Add(hashMixedKey)` left it: on the probe path of the OLD
    hash code the new entry is examined before the old one (an earlier bucket of the path, or the same bucket and
    earlier in the bucket's scan order), and its stored short hash equals the old hash code's short hash (the equality
    functor passes anyway: same raw) -/
def f9cond (bs : BSpec) (t1 : Table) (hOld hNew : Nat) (eOld eNew : Nat) : Bool :=
  bs.short hNew == bs.short hOld && before (visitRank bs t1 hOld eNew) (visitRank bs t1 hOld eOld)

/-- entries of the index: (entry, raw) in traversal order -/
def entries (u : UH) : List Item := traverse u.t

/-- the entry that holds `raw` (first in traversal order) -/
def entryOf (u : UH) (raw : Nat) : Option Nat := ((entries u).find? (fun it => it.val == raw)).map (·.key)

/-! ### layout checksum (what the harness computes from the real hash set) -/

def layoutSumU (bs : BSpec) (u : UH) : Nat :=
  u.t.gens.foldl (fun h g =>
    let h := mix (mix h 7777) g.L
    (g.bs.zipIdx).foldl (fun h (b, i) =>
      if b.items.isEmpty && maxProbe bs.sp g.L b == 0 then h
      else
        let h := mix (mix h i) (maxProbe bs.sp g.L b)
        b.items.foldl (fun h it => mix (mix h it.val) (bs.short (u.hs it.key))) h) h) 0

end Momo.TIdx
