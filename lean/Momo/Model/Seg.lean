import Momo.Extracted
/-
  Model of the segmented-array index arithmetic and of the segment list of `momo::SegmentedArray` (C16).

    * `UIntMath<UInt>::pvLog2`, 8-byte and 4-byte variants (de Bruijn tables)            Utility.h:354-396
    * `SegmentedArraySettings<sqrt, L0>::GetSegItemIndexes / GetIndex / GetItemCount`,
      `pvIndexToLogItemCount`, `pvSegIndexToLogItemCount`                                SegmentedArray.h:81-120
    * `SegmentedArraySettings<cnst, L0>::GetSegItemIndexes / GetIndex / GetItemCount`    SegmentedArray.h:134-149
    * `SegmentedArray::GetCapacity / Reserve / Shrink / AddBackCrt / SetCountCrt / Clear / RemoveBack /
      pvIncCount / pvDecCount / pvIncCapacity / pvDecCapacity`                           SegmentedArray.h:362-745

  Three layers:
    1. the *machine* functions (`…64`): the C++ text operation by operation, every `+ - << *` reduced
       mod 2^64, `Log2` = the de Bruijn code on machine words (`UInt64` / `UInt32`) with the extracted tables;
    2. the *ideal* functions over unbounded naturals (`Nat.log2`, `/`, `%`) — what the machine functions
       compute when nothing wraps (theorem `segItem64_eq` … in Proof/SegMachine.lean);
    3. the container as a list of segments that records for every segment an allocation id and its size.

  Core Lean only (no Mathlib): this file is linked into the driver.
-/
namespace Momo.Seg
open Momo

/-! ### 64-bit / 32-bit unsigned arithmetic -/

/-- reduction mod 2^64 (written with a comparison first so that the compiled driver avoids the division;
    `w64 n = n % 2^64` is lemma `w64_eq`) -/
def w64 (n : Nat) : Nat := if n < 18446744073709551616 then n else n % 18446744073709551616
def w32 (n : Nat) : Nat := if n < 4294967296 then n else n % 4294967296
/-- `a + b` on `size_t` -/
def add64 (a b : Nat) : Nat := w64 (a + b)
/-- `a - b` on `size_t` (operands already reduced): wraps when `a < b` -/
def sub64 (a b : Nat) : Nat := if b ≤ a then a - b else w64 (a + 18446744073709551616 - b)
/-- `a << s` on `size_t`, `s < 64` (a larger shift is undefined behaviour in C++ and not modelled) -/
def shl64 (a s : Nat) : Nat := w64 (a <<< s)
/-- `a * b` on `size_t` -/
def mul64 (a b : Nat) : Nat := w64 (a * b)

/-! ### `UIntMath::pvLog2` -/

/-- the lines `value |= value >> s;` for every `s` of the extracted shift list, on `uint64_t` -/
def smearU64 (shifts : List Nat) (v : UInt64) : UInt64 :=
  shifts.foldl (fun x s => x ||| (x >>> UInt64.ofNat s)) v

/-- the same on `uint32_t` -/
def smearU32 (shifts : List Nat) (v : UInt32) : UInt32 :=
  shifts.foldl (fun x s => x ||| (x >>> UInt32.ofNat s)) v

def tab64 : Array Nat := Extracted.log2Tab64.toArray
def tab32 : Array Nat := Extracted.log2Tab32.toArray

/-- `pvLog2` for `sizeof(UInt) == 8` (Utility.h:374-396), on machine words (`UInt64`: `- * >>` wrap exactly
    like `size_t`): smear, `value -= value >> 1` (isolates the top bit), multiply by the de Bruijn constant,
    top 6 bits index `tab64`. Total: `Log2(0) = tab64[0]`. The argument is reduced mod 2^64 first. -/
def log2db64 (value : Nat) : Nat :=
  tab64.getD (((smearU64 Extracted.log2Smear64 (UInt64.ofNat value)
      - (smearU64 Extracted.log2Smear64 (UInt64.ofNat value) >>> 1))
    * UInt64.ofNat Extracted.log2Mul64) >>> UInt64.ofNat Extracted.log2Shift64).toNat 0

/-- `pvLog2` for `sizeof(UInt) == 4` (Utility.h:355-372), on `UInt32`: smear, multiply, top 5 bits index
    `tab32` (no isolate step). -/
def log2db32 (value : Nat) : Nat :=
  tab32.getD ((smearU32 Extracted.log2Smear32 (UInt32.ofNat value) * UInt32.ofNat Extracted.log2Mul32)
    >>> UInt32.ofNat Extracted.log2Shift32).toNat 0

/-! ### sizing functions -/

/-- `SegmentedArrayItemCountFunc` -/
inductive Func where
  | sqrt
  | cnst
deriving DecidableEq, Repr

/-! #### machine level (as written, 64-bit) -/

/-- sqrt `pvIndexToLogItemCount(index1)`: `(Log2(index1) + 1) / 2` -/
def sqrtIndexToLog64 (index1 : Nat) : Nat :=
  (log2db64 index1 + Extracted.segSqrtLogAdd) / Extracted.segSqrtLogDiv

/-- sqrt `pvSegIndexToLogItemCount(segIndex)`: `Log2((segIndex * 2 + 4) / 3)` -/
def sqrtSegToLog64 (seg : Nat) : Nat :=
  log2db64 (add64 (mul64 seg Extracted.segSqrtSegMul) Extracted.segSqrtSegAdd / Extracted.segSqrtSegDiv)

/-- `(size_t{1} << n) - 1` -/
def mask64 (n : Nat) : Nat := sub64 (shl64 1 n) 1

/-- `GetSegItemIndexes(index, segIndex, itemIndex)` → `(segIndex, itemIndex)` -/
def segItem64 : Func → Nat → Nat → Nat × Nat
  | .sqrt, L0, index =>
    let index1 := add64 (index >>> L0) 1                       -- (index >> L0) + 1
    let index2 := index &&& mask64 L0                          -- index & ((1 << L0) - 1)
    let logItemCount := sqrtIndexToLog64 index1                -- pvIndexToLogItemCount(index1)
    let itemIndex1 := index1 &&& mask64 logItemCount           -- index1 & ((1 << k) - 1)
    -- segIndex = (index1 >> k) + (1 << k) - 2;  itemIndex = (itemIndex1 << L0) + itemIndex2
    (sub64 (add64 (index1 >>> logItemCount) (shl64 1 logItemCount)) Extracted.segSqrtSegBias,
     add64 (shl64 itemIndex1 L0) index2)
  | .cnst, L0, index => (index >>> L0, index &&& mask64 L0)

/-- `GetIndex(segIndex, itemIndex)` -/
def getIndex64 : Func → Nat → Nat → Nat → Nat
  | .sqrt, L0, seg, item =>
    let itemIndex1 := item >>> L0                              -- itemIndex >> L0
    let itemIndex2 := item &&& mask64 L0                       -- itemIndex & ((1 << L0) - 1)
    let logItemCount := sqrtSegToLog64 seg                     -- pvSegIndexToLogItemCount(segIndex)
    -- index1 = ((segIndex + 2 - (1 << k)) << k) + itemIndex1
    let index1 := add64 (shl64 (sub64 (add64 seg Extracted.segSqrtIdxBias) (shl64 1 logItemCount)) logItemCount)
                        itemIndex1
    add64 (shl64 (sub64 index1 1) L0) itemIndex2               -- ((index1 - 1) << L0) + index2
  | .cnst, L0, seg, item => add64 (shl64 seg L0) item

/-- `GetItemCount(segIndex)` -/
def itemCount64 : Func → Nat → Nat → Nat
  | .sqrt, L0, seg => shl64 1 (sqrtSegToLog64 seg + L0)
  | .cnst, L0, _ => shl64 1 L0

/-! #### ideal level (unbounded naturals) -/

/-- `(⌊log2 index1⌋ + 1) / 2` -/
def logItem (index1 : Nat) : Nat := (Nat.log2 index1 + Extracted.segSqrtLogAdd) / Extracted.segSqrtLogDiv
/-- `⌊log2 ((2·seg + 4) / 3)⌋` -/
def segLog (seg : Nat) : Nat :=
  Nat.log2 ((seg * Extracted.segSqrtSegMul + Extracted.segSqrtSegAdd) / Extracted.segSqrtSegDiv)

def getSeg : Func → Nat → Nat → Nat × Nat
  | .sqrt, L0, index =>
    ((index / 2 ^ L0 + 1) / 2 ^ logItem (index / 2 ^ L0 + 1) + 2 ^ logItem (index / 2 ^ L0 + 1)
        - Extracted.segSqrtSegBias,
     ((index / 2 ^ L0 + 1) % 2 ^ logItem (index / 2 ^ L0 + 1)) * 2 ^ L0 + index % 2 ^ L0)
  | .cnst, L0, index => (index / 2 ^ L0, index % 2 ^ L0)

def getIndex : Func → Nat → Nat → Nat → Nat
  | .sqrt, L0, seg, item =>
    ((seg + Extracted.segSqrtIdxBias - 2 ^ segLog seg) * 2 ^ segLog seg + item / 2 ^ L0 - 1) * 2 ^ L0 + item % 2 ^ L0
  | .cnst, L0, seg, item => seg * 2 ^ L0 + item

def itemCount : Func → Nat → Nat → Nat
  | .sqrt, L0, seg => 2 ^ (segLog seg + L0)
  | .cnst, L0, _ => 2 ^ L0

/-! ### the container: a list of segments that only changes at its end -/

/-- the index arithmetic a `SegmentedArray` is instantiated with (`Settings`) -/
structure Sizing where
  getSeg : Nat → Nat × Nat
  getIndex : Nat → Nat → Nat
  itemCount : Nat → Nat

def sizing (f : Func) (L0 : Nat) : Sizing := ⟨getSeg f L0, getIndex f L0, itemCount f L0⟩

/-- one allocated segment: `id` = serial number of the allocation (stands for the block's address: two
    live blocks never share it), `size` = number of item slots requested from the memory manager -/
structure Segment where
  id : Nat
  size : Nat
deriving DecidableEq, Repr

/-- `mSegments` (array of segment pointers), `mCount`, and the allocation counter -/
structure Arr where
  segs : List Segment := []
  count : Nat := 0
  next : Nat := 0
deriving Repr

namespace Arr

/-- `GetCapacity()`: `Settings::GetIndex(mSegments.GetCount(), 0)` -/
def capacity (S : Sizing) (a : Arr) : Nat := S.getIndex a.segs.length 0

/-- head of `pvIncCapacity` / `pvDecCapacity`: `GetSegItemIndexes(capacity, segIndex, itemIndex);
    if (itemIndex > 0) ++segIndex;` — number of segments needed for `capacity` items -/
def segsFor (S : Sizing) (cap : Nat) : Nat :=
  if (S.getSeg cap).2 > 0 then (S.getSeg cap).1 + 1 else (S.getSeg cap).1

/-- `n` times: `mSegments.Reserve(segCount + 1); segment = pvAllocateSegment(segCount);
    mSegments.AddBackNogrow(segment);` -/
def allocSegs (S : Sizing) : Nat → Arr → Arr
  | 0, a => a
  | n+1, a => allocSegs S n
      { a with segs := a.segs ++ [⟨a.next, S.itemCount a.segs.length⟩], next := a.next + 1 }

/-- `pvIncCapacity(initCapacity, capacity)`: `for (segCount = GetCount(); segCount < segIndex; ++segCount)` -/
def incCapacity (S : Sizing) (a : Arr) (cap : Nat) : Arr :=
  allocSegs S (segsFor S cap - a.segs.length) a

/-- `pvDecCapacity(capacity)`: deallocates segments `segIndex … segCount-1`, `mSegments.RemoveBack(…)` -/
def decCapacity (S : Sizing) (a : Arr) (cap : Nat) : Arr :=
  { a with segs := a.segs.take (segsFor S cap) }

/-- `Reserve(capacity)` -/
def reserve (S : Sizing) (a : Arr) (cap : Nat) : Arr :=
  if cap > a.capacity S then a.incCapacity S cap else a

/-- `AddBackCrt`: the new item goes to `mSegments[segIndex] + itemIndex`; a new segment is allocated
    when `segIndex ≥ segCount` (the source asserts `itemIndex == 0` there) -/
def addBack (S : Sizing) (a : Arr) : Arr :=
  if (S.getSeg a.count).1 < a.segs.length then { a with count := a.count + 1 }
  else { (allocSegs S 1 a) with count := a.count + 1 }

/-- `SetCountCrt(count, …)`: `pvDecCount` (destroys items, keeps all segments) or `pvIncCount`
    (`if (count > initCapacity) pvIncCapacity(initCapacity, count);` then constructs in place) -/
def setCount (S : Sizing) (a : Arr) (n : Nat) : Arr :=
  if n < a.count then { a with count := n }
  else if n > a.count then
    { (if n > a.capacity S then a.incCapacity S n else a) with count := n }
  else a

/-- `Shrink(capacity)` -/
def shrink (S : Sizing) (a : Arr) (cap : Nat) : Arr :=
  if a.capacity S ≤ cap then a
  else a.decCapacity S (if cap < a.count then a.count else cap)

/-- `Clear(shrink)` -/
def clear (S : Sizing) (a : Arr) (shrinkAll : Bool) : Arr :=
  if shrinkAll then decCapacity S { a with count := 0 } 0 else { a with count := 0 }

/-- `RemoveBack(count)`; `MOMO_CHECK(count <= mCount)` throws and leaves the array unchanged -/
def removeBack (a : Arr) (k : Nat) : Arr :=
  if k ≤ a.count then { a with count := a.count - k } else a

/-- where element `i` lives: (allocation id of its segment, offset in the segment) — `pvGetItem`:
    `mSegments[segIndex][itemIndex]` -/
def addr (S : Sizing) (a : Arr) (i : Nat) : Option Nat × Nat :=
  ((a.segs[(S.getSeg i).1]?).map Segment.id, (S.getSeg i).2)

end Arr

/-- operations of a history -/
inductive Op where
  | addBack
  | reserve (cap : Nat)
  | setCount (n : Nat)
  | shrink (cap : Nat)
  | shrinkFit
  | clear (shrinkAll : Bool)
  | removeBack (k : Nat)
  /-- `Insert(index, item)` as far as the segment list is concerned: `Reserve(mCount + 1)`, then
      `ArrayShifter::InsertNogrow` appends one item in place and move-assigns values -/
  | insert
deriving Repr

def step (S : Sizing) (a : Arr) : Op → Arr
  | .addBack => a.addBack S
  | .reserve c => a.reserve S c
  | .setCount n => a.setCount S n
  | .shrink c => a.shrink S c
  | .shrinkFit => a.shrink S a.count
  | .clear b => a.clear S b
  | .removeBack k => a.removeBack k
  | .insert => { (a.reserve S (a.count + 1)) with count := a.count + 1 }

def run (S : Sizing) (a : Arr) (ops : List Op) : Arr := ops.foldl (step S) a

/-- operations that never ask for fewer items or less capacity -/
def Op.isGrow (a : Arr) : Op → Bool
  | .addBack => true
  | .reserve _ => true
  | .setCount n => decide (a.count ≤ n)
  | .insert => true
  | _ => false

end Momo.Seg
