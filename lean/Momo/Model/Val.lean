/-
  Executable model of the value semantics of the momo containers (C14): copy / move constructors,
  copy / move assignment, Swap, Clear, destructors, and the allocator-aware operations of the stdish
  wrappers, over an explicit heap of blocks that remembers which memory manager allocated each block.

  Source mirrored (include/momo):
    Array.h            Data(Data&&) / Data::operator=(Data&&) / pvInit(Data&&) (relocation of internal
                       items) / pvDestroy, Array(const Array&) = Array(array, true) (capacity = count),
                       operator=(const Array&) `*this = Array(array)`, Swap = std::swap(mData, …)   -> Kind.arrayStyle
    SegmentedArray.h   move ctor steals mSegments, `operator=` = `SegmentedArray(x).Swap(*this)`
    HashSet.h          HashSet(HashSet&&) (crew, count, capacity, buckets stolen; source buckets =
                       nullptr), HashSet(const HashSet&, MemManager) (one presized bucket array),
                       operator= (both) = `HashSet(x).Swap(*this)`, Swap, Clear, pvDestroy
    SetUtility.h       SetCrew<…, usePtr = true>: manager and traits live in a heap block allocated
                       through that manager; the move constructor steals the pointer (source crew = null,
                       every accessor asserts `!pvIsNull()`); SetCrew<…, false>: stateless manager kept
                       inline, a moved-from object is immediately usable                        -> Kind.crewPtr
    TreeSet.h          same shape; copy = pvCopy node by node (same tree shape); Clear returns at once
                       when mNodeParams == nullptr (repair 7283f61)
    HashMultiMap.h     HashMap + ValueCrew (heap block made by every constructor, stolen by the move
                       constructor; Clear / destructor test `IsNull`)                            -> Kind.ctorAux
    DataTable.h        Crew (heap block holding column list + manager), Clear returns when the crew is
                       null (repair b5e50c3)
    MemPool.h          MemPool(MemPool&&), operator= = `MemPool(x).Swap(*this)`, Data::Swap exchanges
                       the managers iff they are not equal
    MemManager.h       MemManagerStd copy constructor = select_on_container_copy_construction
                       (Cfg.sel), MemManagerStd::operator=(&&) / pvAssign overload selection and
                       MemManagerProxy::Assign fall-back (destroy + move-construct)              -> assignPath
    stdish/vector.h, set.h, map.h, unordered_set.h, unordered_map.h, unordered_multimap.h:
                       operator=(const&), operator=(&&), (C&&, alloc), (const C&, alloc), swap,
                       pvCreateArray / pvCreateSet / pvCreateMap / pvCreateMultiMap              -> Op.w…

  What is a parameter (external behaviour, not predicted): the block layout a *mutation* (insert,
  remove, reserve, element-wise merge) produces — growth policy and node splitting belong to
  C01/C02/C05/C16; the harness reports the layout it observes and the model adopts it
  (`Prim.setLayout`). Everything a *value operation* does is computed by the model.

  Core Lean only (linked into the driver).
-/
namespace Momo.Val

abbrev Elem := Nat
abbrev Mgr := Nat
-- handles of heap blocks are plain `Nat` (so that `omega` sees them)

/-- observable events: ledger of the memory managers and life-cycle of element objects -/
inductive Ev where
  | alloc (m : Mgr) (h : Nat)     -- manager `m` handed out block `h`
  | free (m : Mgr) (h : Nat)      -- block `h` given back *to manager `m`* (the manager the container holds at that moment)
  | copy (e : Elem)               -- copy construction of an element
  | move (e : Elem)               -- move construction of an element
  | destroy (e : Elem)
deriving DecidableEq, Repr

/-- one heap block: who allocated it, which element objects live in it -/
structure Cell where
  mgr : Mgr
  items : List Elem
deriving DecidableEq, Repr

def lookupH : List (Nat × Cell) → Nat → Option Cell
  | [], _ => none
  | p :: r, h => if h = p.1 then some p.2 else lookupH r h

/-- the heap: live blocks (association list, newest first) and the first handle never used -/
structure Heap where
  cells : List (Nat × Cell)
  next : Nat

namespace Heap
def empty : Heap := ⟨[], 0⟩
def get (H : Heap) (h : Nat) : Option Cell := lookupH H.cells h
/-- `Allocate`: the new block gets the handle `H.next` -/
def alloc (H : Heap) (m : Mgr) (xs : List Elem) : Heap := ⟨(H.next, ⟨m, xs⟩) :: H.cells, H.next + 1⟩
def free (H : Heap) (h : Nat) : Heap := ⟨H.cells.filter (fun p => p.1 != h), H.next⟩
def setItems (H : Heap) (h : Nat) (xs : List Elem) : Heap :=
  ⟨H.cells.map (fun p => if p.1 = h then (p.1, ⟨p.2.mgr, xs⟩) else p), H.next⟩
end Heap

/-- one block per list; returns the handles `H.next, H.next+1, …` -/
def allocCells (m : Mgr) : List (List Elem) → Heap → List Nat × Heap
  | [], H => ([], H)
  | xs :: rest, H =>
    let r := allocCells m rest (H.alloc m xs)
    (H.next :: r.1, r.2)

def freeCells (hs : List Nat) (H : Heap) : Heap := hs.foldl Heap.free H
def emptyCells (hs : List Nat) (H : Heap) : Heap := hs.foldl (fun H h => H.setItems h []) H

/-- a container object: nothing but a manager (or a null crew pointer), handles, and the items of the
    internal buffer. The elements live in the heap. -/
structure Cont where
  /-- the memory manager the object holds; `none` = the crew pointer is null (`pvIsNull()`) -/
  mgr : Option Mgr
  /-- item-less blocks: crew, HashMultiMap value crew -/
  aux : List Nat
  /-- `Array` with internalCapacity > 0: items stored inside the object -/
  inl : List Elem
  /-- item-bearing blocks: external buffer / segment-pointer array + segments / bucket arrays newest
      first / node params + nodes in pre-order / … -/
  body : List Nat
  /-- `Array::Data::mCapacity` while external (0 otherwise; unused by the other kinds) -/
  cap : Nat
deriving DecidableEq, Repr

def Cont.owned (c : Cont) : List Nat := c.aux ++ c.body

def itemsAt (H : Heap) (h : Nat) : List Elem :=
  match H.get h with
  | some c => c.items
  | none => []

def layout (H : Heap) (c : Cont) : List (List Elem) := c.body.map (itemsAt H)
/-- what iteration over the container yields -/
def contents (H : Heap) (c : Cont) : List Elem := c.inl ++ (layout H c).flatten

/-- static configuration of a container type -/
structure Kind where
  /-- `ArraySettings::internalCapacity`; 0 for every other container -/
  icap : Nat := 0
  /-- manager (and traits) live in a heap block that the move constructor steals -/
  crewPtr : Bool := false
  /-- further item-less blocks made by every constructor (HashMultiMap::ValueCrew) -/
  ctorAux : Nat := 0
  /-- `ItemTraits::isTriviallyRelocatable`: relocation is memcpy, no constructor / destructor runs -/
  trivial : Bool := false
  /-- the element type has a nothrow move constructor (otherwise relocation copies) -/
  movable : Bool := true
  /-- `Array`: assignment through `Data::operator=(Data&&)` (destroy, take manager, steal / relocate),
      Swap = three `Data` moves. Otherwise `operator=` is `C(x).Swap(*this)` and Swap exchanges pointers. -/
  arrayStyle : Bool := false
  /-- block layout produced by the copy constructor from the blocks of the source -/
  rebuild : List (List Elem) → List (List Elem) := fun ls => ls

/-- `xs` cut into consecutive pieces of `sizes seg`, `sizes (seg+1)`, … items (at least one each) -/
def chunk (sizes : Nat → Nat) : Nat → Nat → List Elem → List (List Elem)
  | 0, _, _ => []
  | fuel + 1, seg, xs =>
    if xs.isEmpty then [] else
    xs.take (max 1 (sizes seg)) :: chunk sizes fuel (seg + 1) (xs.drop (max 1 (sizes seg)))

/-- copy constructors' block layouts (`Kind.rebuild`).
    `Array(const Array&)` (one buffer of capacity = count), `HashSet(const HashSet&)` (one presized bucket array),
    `DataTable(const DataTable&)` (one raw array): everything in one block -/
def rebuildOne : List (List Elem) → List (List Elem) := fun ls => [ls.flatten]
/-- `TreeSet::pvCopy`: node by node, same tree shape -/
def rebuildSame : List (List Elem) → List (List Elem) := fun ls => ls
/-- `SegmentedArray(const SegmentedArray&)`: `pvIncCapacity(0, count)` then `AddBackNogrow`: the segment-pointer array
    followed by full segments of `sizes 0`, `sizes 1`, … items -/
def rebuildSeg (sizes : Nat → Nat) : List (List Elem) → List (List Elem) :=
  fun ls => [] :: chunk sizes (ls.flatten.length + 1) 0 ls.flatten

def Kind.auxCount (k : Kind) : Nat := (if k.crewPtr then 1 else 0) + k.ctorAux

/-- state left behind by the move constructor: every pointer null, count 0; an inline manager stays
    (moved-from, same identity), a crew pointer is null -/
def nullOf (k : Kind) (s : Cont) : Cont :=
  ⟨if k.crewPtr then none else s.mgr, [], [], [], 0⟩

/-- the object can be used like a freshly constructed one -/
def usable (k : Kind) (c : Cont) : Bool := c.mgr.isSome && c.aux.length == k.auxCount

/-- `ItemTraits::Relocate` of the items `xs` -/
def relocEvs (k : Kind) (xs : List Elem) : List Ev :=
  if k.trivial then [] else xs.flatMap (fun e => [if k.movable then Ev.move e else Ev.copy e, Ev.destroy e])
def destroyEvs (k : Kind) (xs : List Elem) : List Ev := if k.trivial then [] else xs.map Ev.destroy
/-- element-wise transfer into another container: one move construction per element (copy when the
    element type cannot move) -/
def xferEvs (k : Kind) (xs : List Elem) : List Ev := xs.map (fun e => if k.movable then Ev.move e else Ev.copy e)

structure World where
  heap : Heap
  /-- named objects (variables of the program); `none` = not alive -/
  objs : Nat → Option Cont

def upd (f : Nat → Option Cont) (i : Nat) (c : Option Cont) : Nat → Option Cont := fun j => if j = i then c else f j

def World.init : World := ⟨Heap.empty, fun _ => none⟩

/-- the steps the special member functions are made of -/
inductive Prim where
  /-- `C(traits, MemManager m)` in the dead slot `i`: constructor blocks through `m` -/
  | new (i : Nat) (m : Mgr)
  /-- `C(const C& src, MemManager m)` in the dead slot `j` -/
  | copy (j i : Nat) (m : Mgr)
  /-- `C(C&& src)` in the dead slot `j`; `i` is left in the null state -/
  | move (j i : Nat)
  /-- member-wise exchange of pointers, counts and managers -/
  | swap (i j : Nat)
  /-- `~C()`; the slot dies -/
  | destroy (i : Nat)
  /-- `Clear`: items destroyed, the first `keep` body blocks stay (empty), the others are freed;
      nothing happens on a null object -/
  | clear (i : Nat) (keep : Nat)
  /-- a mutation (insert / remove / reserve / element-wise fill): the body is replaced by the reported
      layout, all new blocks through the object's own manager; `src` = slot whose elements are
      transferred one by one (events only) -/
  | setLayout (i : Nat) (inl : List Elem) (cells : List (List Elem)) (cap : Nat) (src : Option Nat)
deriving Repr

def Prim.exec (k : Kind) (w : World) : Prim → Option (World × List Ev)
  | .new i m =>
    match w.objs i with
    | some _ => none
    | none =>
      let r := allocCells m (List.replicate k.auxCount []) w.heap
      some (⟨r.2, upd w.objs i (some ⟨some m, r.1, [], [], 0⟩)⟩, r.1.map (Ev.alloc m))
  | .copy j i m =>
    match w.objs j, w.objs i with
    | none, some s =>
      -- `src.GetMemManager()` / `GetHashTraits()` / `GetColumnList()` dereference the crew
      if s.mgr.isNone then none else
      let all := contents w.heap s
      let ra := allocCells m (List.replicate k.auxCount []) w.heap
      if all.length ≤ k.icap then
        -- count ≤ internalCapacity; for the other containers: `if (mCount == 0) return;`
        some (⟨ra.2, upd w.objs j (some ⟨some m, ra.1, all, [], 0⟩)⟩, ra.1.map (Ev.alloc m) ++ all.map Ev.copy)
      else
        let ls := k.rebuild ((if s.inl = [] then [] else [s.inl]) ++ layout w.heap s)
        let rb := allocCells m ls ra.2
        some (⟨rb.2, upd w.objs j (some ⟨some m, ra.1, [], rb.1, if k.arrayStyle then all.length else 0⟩)⟩,
              ra.1.map (Ev.alloc m) ++ rb.1.map (Ev.alloc m) ++ all.map Ev.copy)
    | _, _ => none
  | .move j i =>
    match w.objs j, w.objs i with
    | none, some s =>
      -- pointers copied, source pointers nulled; only the items of an internal buffer are relocated
      some (⟨w.heap, upd (upd w.objs i (some (nullOf k s))) j (some s)⟩, relocEvs k s.inl)
    | _, _ => none
  | .swap i j =>
    match w.objs i, w.objs j with
    | some a, some b => some (⟨w.heap, upd (upd w.objs i (some b)) j (some a)⟩, [])
    | _, _ => none
  | .destroy i =>
    match w.objs i with
    | none => none
    | some c =>
      match c.mgr with
      | none =>
        -- null crew: `pvDestroy` finds no buckets / root / params; touching a block here would need the manager
        if c.owned = [] ∧ c.inl = [] then some (⟨w.heap, upd w.objs i none⟩, []) else none
      | some m =>
        some (⟨freeCells c.owned w.heap, upd w.objs i none⟩,
              destroyEvs k (contents w.heap c) ++ c.owned.map (Ev.free m))
  | .clear i keep =>
    match w.objs i with
    | none => none
    | some c =>
      match c.mgr with
      | none => if c.owned = [] ∧ c.inl = [] then some (w, []) else none
      | some m =>
        let kept := c.body.take keep
        let gone := c.body.drop keep
        some (⟨freeCells gone (emptyCells kept w.heap),
               upd w.objs i (some { c with inl := [], body := kept, cap := if kept = [] then 0 else c.cap })⟩,
              destroyEvs k (contents w.heap c) ++ gone.map (Ev.free m))
  | .setLayout i inl cells cap src =>
    match w.objs i with
    | none => none
    | some c =>
      match c.mgr with
      | none => none
      | some m =>
        if c.aux.length = k.auxCount then
          let r := allocCells m cells (freeCells c.body w.heap)
          let xe := match src with
            | none => []
            | some s => match w.objs s with
              | some sc => xferEvs k (contents w.heap sc)
              | none => []
          some (⟨r.2, upd w.objs i (some { c with inl := inl, body := r.1, cap := cap })⟩,
                xe ++ c.body.map (Ev.free m) ++ r.1.map (Ev.alloc m))
        else none

def run (k : Kind) : World → List Prim → Option (World × List Ev)
  | w, [] => some (w, [])
  | w, p :: ps =>
    match p.exec k w with
    | none => none
    | some (w1, e1) =>
      match run k w1 ps with
      | none => none
      | some (w2, e2) => some (w2, e1 ++ e2)

/-! ### the special member functions -/

structure Cfg where
  k : Kind
  /-- copy constructor of the memory manager (`MemManagerStd`: select_on_container_copy_construction) -/
  sel : Mgr → Mgr := id
  /-- slots used for the temporaries of `C(x).Swap(*this)` and of the wrappers -/
  t1 : Nat := 98
  t2 : Nat := 99
  /-- std::allocator_traits of the wrapper's allocator -/
  pocca : Bool := false
  pocma : Bool := false
  pocs : Bool := false
  isEmpty : Bool := false

/-- a reported layout: items of the internal buffer, items of each body block, `Array` capacity -/
structure Lay where
  inl : List Elem := []
  cells : List (List Elem) := []
  cap : Nat := 0
deriving Repr

inductive Op where
  | new (i : Nat) (m : Mgr)
  | copyCtor (j i : Nat)                       -- `C j(i);`
  | copyCtorM (j i : Nat) (m : Mgr)            -- `C j(i, MemManager(m));` / wrapper `C j(i, alloc)`
  | moveCtor (j i : Nat)                       -- `C j(std::move(i));`
  | swap (i j : Nat)                           -- `i.Swap(j);`
  | copyAssign (i j : Nat)                     -- `i = j;`
  | moveAssign (i j : Nat)                     -- `i = std::move(j);`
  | destroy (i : Nat)
  | clear (i : Nat) (keep : Nat)
  | mutate (i : Nat) (inl : List Elem) (cells : List (List Elem)) (cap : Nat)
  -- stdish wrappers (allocator-aware)
  | wMoveCtorA (j i : Nat) (a : Mgr) (lay : Lay) (keep : Nat)   -- `W j(std::move(i), alloc);`
  | wCopyAssign (i j : Nat)                                      -- `i = j;`
  | wMoveAssign (i j : Nat) (lay : Lay) (keep : Nat)             -- `i = std::move(j);`
deriving Repr

/-- `get_allocator()`: reads the manager out of the crew -/
def allocOf (w : World) (i : Nat) : Option Mgr := (w.objs i).bind (·.mgr)

/-- native `x = std::move(y)` as a list of steps -/
def nativeMoveAssign (cfg : Cfg) (i j : Nat) : List Prim :=
  if cfg.k.arrayStyle then
    -- Array::Data::operator=(Data&&): `if (this != &data) { pvDestroy(); Assign(manager); pvInit(std::move(data)); }`
    if i = j then [] else [.destroy i, .move i j]
  else
    -- `C(std::move(y)).Swap(*this);` (no self test)
    [.move cfg.t1 j, .swap cfg.t1 i, .destroy cfg.t1]

def nativeSwap (cfg : Cfg) (i j : Nat) : List Prim :=
  if cfg.k.arrayStyle then
    -- `if (this != &array) std::swap(mData, array.mData);` = Data tmp(move(a)); a = move(b); b = move(tmp);
    if i = j then [] else [.move cfg.t1 i, .destroy i, .move i j, .destroy j, .move j cfg.t1, .destroy cfg.t1]
  else [.swap i j]

/-- `pvCreateSet(std::move(right), alloc)` into the dead slot `j`: equal allocators ⇒ the nested container
    is moved, otherwise a new one is built with `alloc` and the elements are transferred one by one -/
def createFrom (w : World) (j i : Nat) (a : Mgr) (lay : Lay) (keep : Nat) : Option (List Prim) :=
  match allocOf w i with
  | none => none                     -- `right.get_allocator()` on a null crew
  | some ai =>
    if ai = a then some [.move j i]
    else some [.new j a, .setLayout j lay.inl lay.cells lay.cap (some i), .clear i keep]

def expand (cfg : Cfg) (w : World) : Op → Option (List Prim)
  | .new i m => some [.new i m]
  | .copyCtor j i =>
    match allocOf w i with
    | none => none
    | some m => some [.copy j i (cfg.sel m)]
  | .copyCtorM j i m => some [.copy j i m]
  | .moveCtor j i => some [.move j i]
  | .swap i j => some (nativeSwap cfg i j)
  | .copyAssign i j =>
    if i = j then some []                -- `if (this != &x)`
    else match allocOf w j with
      | none => none
      | some m =>
        if cfg.k.arrayStyle then some ([.copy cfg.t1 j (cfg.sel m), .destroy i, .move i cfg.t1, .destroy cfg.t1])
        else some [.copy cfg.t1 j (cfg.sel m), .swap cfg.t1 i, .destroy cfg.t1]
  | .moveAssign i j => some (nativeMoveAssign cfg i j)
  | .destroy i => some [.destroy i]
  | .clear i keep => some [.clear i keep]
  | .mutate i inl cells cap => some [.setLayout i inl cells cap none]
  | .wMoveCtorA j i a lay keep => createFrom w j i a lay keep
  | .wCopyAssign i j =>
    if i = j then some []
    else
      -- `allocator_type alloc = (propagate ? &right : this)->get_allocator();`
      match allocOf w (if cfg.isEmpty || cfg.pocca then j else i) with
      | none => none
      | some a =>
        -- `mNested = Nested(right.mNested, MemManager(alloc));`
        if cfg.k.arrayStyle then some [.copy cfg.t1 j a, .destroy i, .move i cfg.t1, .destroy cfg.t1]
        else some [.copy cfg.t2 j a, .move cfg.t1 cfg.t2, .swap cfg.t1 i, .destroy cfg.t1, .destroy cfg.t2]
  | .wMoveAssign i j lay keep =>
    if i = j then some []
    else
      match allocOf w (if cfg.isEmpty || cfg.pocma then j else i) with
      | none => none
      | some a =>
        -- `mNested = pvCreate…(std::move(right), alloc);`
        if cfg.k.arrayStyle then
          (createFrom w cfg.t1 j a lay keep).map (· ++ [.destroy i, .move i cfg.t1, .destroy cfg.t1])
        else
          (createFrom w cfg.t2 j a lay keep).map
            (· ++ [.move cfg.t1 cfg.t2, .swap cfg.t1 i, .destroy cfg.t1, .destroy cfg.t2])

def step (cfg : Cfg) (w : World) (op : Op) : Option (World × List Ev) :=
  match expand cfg w op with
  | none => none
  | some ps => run cfg.k w ps

def runOps (cfg : Cfg) : World → List Op → Option World
  | w, [] => some w
  | w, op :: ops =>
    match step cfg w op with
    | none => none
    | some (w1, _) => runOps cfg w1 ops

/-! ### allocator propagation: what the wrappers do and what the standard asks -/

/-- what an allocator-aware assignment / construction has to do with the elements -/
inductive How where
  | steal          -- take over the source's memory
  | elementwise    -- move-construct every element into memory of the target's allocator
  | copyAll        -- copy-construct every element
deriving DecidableEq, Repr

structure Outcome where
  alloc : Mgr      -- allocator of the target afterwards
  how : How
deriving DecidableEq, Repr

structure Traits where
  pocca : Bool
  pocma : Bool
  pocs : Bool
  isEmpty : Bool   -- `std::is_empty<allocator_type>`: stateless, all instances are equal
deriving DecidableEq, Repr

/-- the wrappers as written (vector.h:141-165, set.h:193-217, …; pvCreate…) -/
def momoMoveAssign (t : Traits) (dst src : Mgr) : Outcome :=
  let alloc := if t.isEmpty || t.pocma then src else dst
  ⟨alloc, if src = alloc then .steal else .elementwise⟩
def momoCopyAssign (t : Traits) (dst src : Mgr) : Outcome :=
  ⟨if t.isEmpty || t.pocca then src else dst, .copyAll⟩
def momoMoveCtorA (src a : Mgr) : Outcome := ⟨a, if src = a then .steal else .elementwise⟩

/-- the allocator-aware container requirements of the standard ([container.alloc.reqmts], Table 64/65 of
    C++17: `a = rv`, `a = t`, `X(rv, m)`) -/
def stdMoveAssign (t : Traits) (dst src : Mgr) : Outcome :=
  if t.pocma then ⟨src, .steal⟩
  else if dst = src then ⟨dst, .steal⟩
  else ⟨dst, .elementwise⟩
def stdCopyAssign (t : Traits) (dst src : Mgr) : Outcome :=
  ⟨if t.pocca then src else dst, .copyAll⟩
def stdMoveCtorA (src a : Mgr) : Outcome := ⟨a, if src = a then .steal else .elementwise⟩

/-- how `MemManagerProxy::Assign(src&&, dst)` moves a `MemManagerStd<Allocator>` (MemManager.h:212-226,
    258-278, 461-507) -/
inductive AssignPath where
  | moveAssign     -- `dstAlloc = std::move(srcAlloc)`
  | copyAssign     -- `dstAlloc = static_cast<const ByteAllocator&>(srcAlloc)`
  | swap           -- `std::iter_swap(&dstAlloc, &srcAlloc)`
  | reconstruct    -- `dst.~MemManager(); new(&dst) MemManager(std::move(src))`
deriving DecidableEq, Repr

/-- overload selection: `nma` = is_nothrow_move_assignable<ByteAllocator> -/
def assignPath (nma pocma pocca pocs : Bool) : AssignPath :=
  if nma || pocma || pocca || pocs then          -- `operator=(MemManagerStd&&)` is enabled
    if nma || pocma then .moveAssign
    else if pocca then .copyAssign
    else .swap
  else .reconstruct

/-- operations of an allocator that may not throw by the standard's allocator requirements, given its
    traits (move/copy *construction* never throws; assignment / swap only when the matching propagate trait is true
    or the type says so itself) -/
def pathNoThrow (nma pocma pocca pocs : Bool) : AssignPath → Bool
  | .moveAssign => nma || pocma
  | .copyAssign => pocca
  | .swap => pocs
  | .reconstruct => true

/-- identity of the destination manager after each path (`src` is the source's identity) -/
def pathResult (_dst src : Mgr) : AssignPath → Mgr
  | .moveAssign => src
  | .copyAssign => src
  | .swap => src
  | .reconstruct => src

end Momo.Val
