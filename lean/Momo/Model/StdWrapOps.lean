import Momo.Model.StdWrap
import Momo.Model.StdSpec
/-
  C06 — every operation of the momo::stdish wrappers as it is WRITTEN in include/momo/stdish/{set,map,vector,
  unordered_set,unordered_map,unordered_multimap}.h, over the abstract states of the native containers they forward to.
  Core Lean only (linked into the driver: engine `stdhist`).

  The native containers are taken by their contracts, which are theorems of other properties:
    TreeSet / TreeMap  = the in-order item list (C02: `C02_insert_stable` upper-bound insertion, `C02_hinted_add` insertion at
                         the iterator's index, `C02_remove_iterator`, `C02_remove_range`, `C02_remove_key`, `C02_remove_if`,
                         `C02_bounds`, `C02_find_contains`, `C02_key_count`, `C02_insert_range`, `C02_copy`; `MergeFrom` with the
                         non-empty `TreeTraitsStd` class of the wrappers = `pvMergeTo`, one `Insert` per source item, C10)
    Array              = the item list (C05)
    HashSet / HashMap  = finite map, traversal order arbitrary (C01)
    HashMultiMap       = key -> value array, keys may stay without values, traversal order of the keys arbitrary (C08)
  What is modelled here is the wrapper code: its case distinctions (`pvCheckHint`, `pvFind`, `pvInsert`, `equal_range`
  shortcut, node-handle handling, range-erase decisions, value-less keys, comparison operators built by
  `MOMO_MORE_COMPARISON_OPERATORS`), expressed with the decision functions of `Momo/Model/StdWrap.lean`.
-/
namespace Momo.StdW
open Momo.StdWrap
open Momo.StdSpec (Side St Obs Kind OCall VSt VCall UCall URange MCall MRange)

/-! ## 1. Native contracts of TreeSet / TreeMap on the in-order list -/

/-- `Remove(iter)` (C02_remove_iterator): the list loses that element, the returned iterator has the same index -/
def natRemoveAt (xs : List Item) (p : Nat) : List Item × Nat := (xs.eraseIdx p, p)
/-- `Remove(first, last)` (C02_remove_range) -/
def natRemoveRange (xs : List Item) (p q : Nat) : List Item × Nat := (xs.take p ++ xs.drop q, p)
/-- `ContainsKey(key)`: `!pvIsGreater(pvGetLowerBound(key), key)` -/
def natContains (xs : List Item) (k : Nat) : Bool := decide (lb k xs < xs.length ∧ ¬ k < keyAt xs (lb k xs))
/-- `GetKeyCount(key)` (TreeSet.h:685): `multiKey ? pvGetKeyCount(key) : ContainsKey(key) ? 1 : 0` (C02_key_count) -/
def natKeyCount (multi : Bool) (xs : List Item) (k : Nat) : Nat :=
  if multi then ub k xs - lb k xs else if natContains xs k then 1 else 0
/-- `Remove(key)` (C02_remove_key): exactly the equivalent elements leave; their number is returned -/
def natRemoveKey (xs : List Item) (k : Nat) : List Item × Nat := (xs.filter (fun e => e.1 != k), ub k xs - lb k xs)
/-- `Remove(filter)` (C02_remove_if): returns the number of removed items -/
def natRemoveIf (xs : List Item) (f : Item → Bool) : List Item × Nat :=
  (xs.filter (fun e => !f e), xs.length - (xs.filter (fun e => !f e)).length)
/-- `Insert(begin, end)` / `Insert(initializer_list)` (C02_insert_range): stable insertion one after the other -/
def natInsertRange (multi : Bool) (xs ys : List Item) : List Item := ys.foldl (fun acc y => (treeInsert multi acc y).1) xs
/-- `dst.MergeFrom(src)` = `src.MergeTo(dst)` with a non-empty traits class (TreeSet.h:940 -> pvMergeTo, :1593): every
    source item, in order, is offered to `InsertCrt`; inserted items leave the source. Returns (dst, src). -/
def natMergeFrom (multi : Bool) (dst src : List Item) : List Item × List Item :=
  src.foldl (fun acc y => if (treeInsert multi acc.1 y).2.2 then ((treeInsert multi acc.1 y).1, acc.2) else (acc.1, acc.2 ++ [y]))
    (dst, [])

/-- `std::equal(left.begin(), left.end(), right.begin())` guarded by `left.size() == right.size()` -/
def wEq (a b : List Item) : Bool := a.length == b.length && (a.zip b).all (fun p => p.1 == p.2)

/-- `operator==` and `operator<` as written in set.h:579 / map.h:620, the other four through
    MOMO_MORE_COMPARISON_OPERATORS (Utility.h:77): `!=` = `!(a == b)`, `>` = `b < a`, `<=` = `!(b < a)`, `>=` = `b <= a` -/
def wCmp (a b : List Item) : Obs :=
  .cmp (wEq a b) (!(wEq a b)) (StdSpec.lexLt a b) (!(StdSpec.lexLt b a)) (StdSpec.lexLt b a) (!(StdSpec.lexLt a b))

/-! ## 2. `stdish::set` / `multiset` (set.h) and `stdish::map` / `multimap` (map.h) -/

/-- `insert(value)` (set.h:431/444 -> `mTreeSet.Insert`), `emplace` (set.h:496/507); map: `insert(value)` (map.h:478) ->
    `emplace` -> `ptEmplace(nullptr, …)` -> `pvInsert` -> `pvFind(nullptr, key)`, `AddCrt` -/
def wInsert (kd : Kind) (xs : List Item) (x : Item) : List Item × Nat × Bool :=
  if kd.isMap then mapInsert kd.multi xs none x else treeInsert kd.multi xs x

/-- `insert(hint, value)` (set.h:437/450), `emplace_hint` (set.h:516/529); map: `insert(hint, value)` (map.h:485) ->
    `emplace_hint` -> `pvInsert(hint, …)` -> `pvFind(hint, key)` -/
def wInsertHint (kd : Kind) (xs : List Item) (h : Nat) (x : Item) : List Item × Nat :=
  if kd.isMap then ((mapInsert kd.multi xs (some h) x).1, (mapInsert kd.multi xs (some h) x).2.1)
  else ((setInsertHint kd.multi xs h x).1, (setInsertHint kd.multi xs h x).2.1)

/-- `insert(first, last)` -> `pvInsertRange` (set.h:631 native range insert / :638 a loop of `emplace`; map.h:788/795),
    `insert(initializer_list)` (set.h:479 `mTreeSet.Insert(values)`, map.h:522 `mTreeMap.Insert(begin, end)`) -/
def wInsertMany (kd : Kind) (xs ys : List Item) (viaLoop : Bool) : List Item :=
  if viaLoop then ys.foldl (fun acc y => (wInsert kd acc y).1) xs else natInsertRange kd.multi xs ys

/-- `insert(node_type&&)` (set.h:457, map.h:492) -/
def wInsertNode (kd : Kind) (xs : List Item) (node : Option Item) : List Item × Nat × Bool × Option Item :=
  insertNode kd.multi xs node

/-- `insert(hint, node_type&&)` (set.h:466, map.h:503) -/
def wInsertNodeHint (kd : Kind) (xs : List Item) (h : Nat) (node : Option Item) : List Item × Nat × Option Item :=
  if kd.isMap then mapInsertNodeHint kd.multi xs h node else setInsertNodeHint kd.multi xs h node

/-- `extract(key)` (set.h:563, map.h:606): `find`, then `extract(iter)` or an empty handle -/
def wExtractKey (xs : List Item) (k : Nat) : List Item × Option Item :=
  if ordFind xs k ≠ xs.length then ((natRemoveAt xs (ordFind xs k)).1, xs[ordFind xs k]?) else (xs, none)

/-- `map::operator[]` (map.h:863 -> TreeMap.h:663/672): `GetLowerBound`; if that item is not greater than the key a
    reference to its value, else `AddCrt(iter, key, T())` (MapUtility.h:857, MOMO_USE_SAFE_MAP_BRACKETS off) -/
def wIndex (xs : List Item) (k : Nat) : List Item × Nat :=
  if lb k xs < xs.length ∧ ¬ k < keyAt xs (lb k xs) then (xs, lb k xs) else (insertAt xs (lb k xs) (k, 0), lb k xs)

/-- `at`: the value, or `throw std::out_of_range` -/
def atObs : Option Nat → Obs
  | none => .outOfRange
  | some v => .val v

/-- one call on the wrapper -/
def wrapO (kd : Kind) (s : St) : OCall → St × Obs
  | .insert c x | .emplace c x =>
      let r := wInsert kd (s.get c) x
      -- multiset / multimap return `.first` only (set.h:707/712/722, map.h:1010)
      (s.put c r.1, if kd.multi then .pos r.2.1 else .posFlag r.2.1 r.2.2)
  | .insertHint c h x | .emplaceHint c h x =>
      let r := wInsertHint kd (s.get c) h x
      (s.put c r.1, .pos r.2)
  | .insertRange c ys => (s.put c (wInsertMany kd (s.get c) ys true), .done)
  | .insertList c ys => (s.put c (wInsertMany kd (s.get c) ys false), .done)
  | .tryEmplace c h x =>
      -- map.h:891-917: `ptEmplace(nullptr | hint, key, args)`
      let r := mapInsert false (s.get c) h x
      (s.put c r.1, match h with | none => .posFlag r.2.1 r.2.2 | some _ => .pos r.2.1)
  | .insertOrAssign c h x =>
      -- map.h:919-943 -> pvInsertOrAssign (:953)
      let r := mapInsertOrAssign (s.get c) h x
      (s.put c r.1, match h with | none => .posFlag r.2.1 r.2.2 | some _ => .pos r.2.1)
  | .index c k =>
      let r := wIndex (s.get c) k
      (s.put c r.1, .val (r.1[r.2]?.getD (0, 0)).2)
  | .indexAssign c k v =>
      let r := wIndex (s.get c) k
      -- `= v` through the returned reference: only the mapped value changes
      (s.put c (r.1.set r.2 (keyAt r.1 r.2, v)), .done)
  | .at c k => (s, atObs (mapAt (s.get c) k))   -- map.h:875
  | .find c k => (s, .pos (ordFind (s.get c) k))
  | .count c k => (s, .num (natKeyCount kd.multi (s.get c) k))
  | .contains c k => (s, .flag (natContains (s.get c) k))
  | .lowerBound c k => (s, .pos (lb k (s.get c)))
  | .upperBound c k => (s, .pos (ub k (s.get c)))
  | .equalRange c k => (s, .range (ordEqualRange kd.multi (s.get c) k).1 (ordEqualRange kd.multi (s.get c) k).2)
  | .eraseKey c k => (s.put c (natRemoveKey (s.get c) k).1, .num (natRemoveKey (s.get c) k).2)
  | .eraseAt c p => (s.put c (natRemoveAt (s.get c) p).1, .pos (natRemoveAt (s.get c) p).2)
  | .eraseRange c p q => (s.put c (natRemoveRange (s.get c) p q).1, .pos (natRemoveRange (s.get c) p q).2)
  | .eraseIf c m r =>
      let t := natRemoveIf (s.get c) (fun e => e.1 % m == r)
      (s.put c t.1, .num t.2)
  | .extractKey c k =>
      let r := wExtractKey (s.get c) k
      ({ (s.put c r.1) with node := r.2 }, .node r.2)
  | .extractAt c p =>
      -- `node_type(*this, where)` -> native `Remove(iter, extItem)`
      ({ (s.put c (natRemoveAt (s.get c) p).1) with node := (s.get c)[p]? }, .node (s.get c)[p]?)
  | .insertNode c =>
      let r := wInsertNode kd (s.get c) s.node
      ({ (s.put c r.1) with node := r.2.2.2 }, .posNode r.2.1 r.2.2.1 r.2.2.2)
  | .insertNodeHint c h =>
      let r := wInsertNodeHint kd (s.get c) h s.node
      -- the call returns the iterator only; the caller's handle is inspected afterwards
      ({ (s.put c r.1) with node := r.2.2 }, .posNode r.2.1 (s.node.isSome && r.2.2.isNone) r.2.2)
  | .dropNode => ({ s with node := none }, .done)
  | .merge c =>
      let r := natMergeFrom kd.multi (s.get c) (s.get c.other)
      ((s.put c r.1).put c.other r.2, .done)
  | .clear c => (s.put c [], .done)
  | .size c => (s, .num (s.get c).length)
  | .empty c => (s, .flag (s.get c).isEmpty)
  | .swap => ({ s with a := s.b, b := s.a }, .done)
  | .assignCopy c | .constructCopy c => (s.put c (s.get c.other), .done)
  -- `pvCreateSet` / `pvCreateMap` with equal allocators: the native container is moved, the source is left empty
  | .assignMove c | .constructMove c => ((s.put c (s.get c.other)).put c.other [], .done)
  -- set.h:219 `TreeSet(values, …)`, map.h:636 `ptAssign`: a fresh native container filled by the range insert
  | .assignList c ys => (s.put c (natInsertRange kd.multi [] ys), .done)
  | .compare => (s, wCmp s.a s.b)
  | .contents c => (s, .items (s.get c))
  -- set.h:261-292 / map.h:276-313: `reverse_iterator(end())` … `reverse_iterator(begin())`, `crbegin` = `rbegin`
  | .rcontents c => (s, .items (s.get c).reverse)
  -- set.h:124-137 / map.h:144-157: `set(alloc | lessFunc, alloc)` then `insert(first, last)` -> `pvInsertRange`
  | .constructRange c ys => (s.put c (wInsertMany kd [] ys true), .done)
  -- set.h:139-149 `mTreeSet(values, …)`; map.h:159-169 -> `map_base(values.begin(), values.end(), …)` -> `pvInsertRange` with
  -- pointers to `value_type` (map.h:785 the native range insert)
  | .constructList c ys => (s.put c (natInsertRange kd.multi [] ys), .done)

def runWrapOFrom (kd : Kind) : St → List OCall → List Obs
  | _, [] => []
  | s, c :: cs => (wrapO kd s c).2 :: runWrapOFrom kd (wrapO kd s c).1 cs

/-- the observations of a history on the wrapper model, from two empty containers -/
def ordRunWrap (kd : Kind) (cs : List OCall) : List Obs := runWrapOFrom kd {} cs

/-! ## 3. `stdish::vector` (vector.h) over the native `Array` (C05: the item list; `Insert(index, …)`, `Remove(index, count)`,
`SetCount`, `AddBack`, `RemoveBack`, `Remove(filter)`, `IsEqual`) -/

/-- `Array::SetCount(count[, value])`: truncate, or append copies of `value` (value-initialised items without one) -/
def arrSetCount (xs : List Nat) (n v : Nat) : List Nat :=
  if n ≤ xs.length then xs.take n else xs ++ List.replicate (n - xs.length) v

/-- `Array::IsEqual`: equal counts and `std::equal` -/
def arrIsEqual (a b : List Nat) : Bool := a.length == b.length && (a.zip b).all (fun p => p.1 == p.2)

def wCmpV (a b : List Nat) : Obs :=
  .cmp (arrIsEqual a b) (!(arrIsEqual a b)) (StdSpec.lexLtN a b) (!(StdSpec.lexLtN b a)) (StdSpec.lexLtN b a)
    (!(StdSpec.lexLtN a b))

def wrapV (s : VSt) : VCall → VSt × Obs
  | .pushBack c v => (s.put c (s.get c ++ [v]), .done)                                   -- vector.h:357 `AddBack`
  | .popBack c => (s.put c (s.get c).dropLast, .done)                                    -- :437 `RemoveBack`
  -- :367-:417: `index = Dist(cbegin(), where); mArray.Insert(index, …); return Next(begin(), index)`
  | .insert c p v => (s.put c (vecInsert (s.get c) p 1 v), .pos p)
  | .insertN c p n v => (s.put c (vecInsert (s.get c) p n v), .pos p)
  | .insertRange c p ys => (s.put c ((s.get c).take p ++ ys ++ (s.get c).drop p), .pos p)
  | .eraseAt c p => (s.put c (vecErase (s.get c) p (p + 1)), .pos p)                    -- :442 `erase(where, where + 1)`
  | .eraseRange c p q => (s.put c (vecErase (s.get c) p (p + (q - p))), .pos p)          -- :447 `Remove(index, Dist(first, last))`
  | .eraseVal c v =>                                                                     -- :454 `Remove(valueFilter)`
      let ys := (s.get c).filter (fun e => !(e == v))
      (s.put c ys, .num ((s.get c).length - ys.length))
  | .resize c n => (s.put c (arrSetCount (s.get c) n 0), .done)                          -- :278
  | .resizeVal c n v => (s.put c (arrSetCount (s.get c) n v), .done)                     -- :283
  | .assignN c n v => (s.put c (List.replicate n v), .done)                              -- :468 a new `Array(count, value)`
  | .assignRange c ys => (s.put c ys, .done)                                             -- :535 `pvAssign`
  | .at c i => (s, match vecAt (s.get c) i with | none => .outOfRange | some v => .val v)   -- :323 `index >= size()` throws
  | .index c i => (s, .val ((s.get c)[i]?.getD 0))
  | .front c => (s, .val ((s.get c)[0]?.getD 0))                                         -- :337 `mArray[0]`
  | .back c => (s, .val ((s.get c)[(s.get c).length - 1]?.getD 0))                       -- :347 `GetBackItem`
  | .clear c => (s.put c [], .done)
  | .size c => (s, .num (s.get c).length)
  | .empty c => (s, .flag (s.get c).isEmpty)
  | .swap => ({ a := s.b, b := s.a }, .done)
  | .assignCopy c | .constructCopy c => (s.put c (s.get c.other), .done)
  | .assignMove c | .constructMove c => ((s.put c (s.get c.other)).put c.other [], .done)   -- `pvCreateArray`, equal allocators
  | .compare => (s, wCmpV s.a s.b)
  | .contents c => (s, .vals (s.get c))
  | .rcontents c => (s, .vals (s.get c).reverse)                                         -- :215-252 `reverse_iterator(end())` …
  | .constructN c n v => (s.put c (List.replicate n v), .done)                           -- :87 / :92 `mArray(count[, value], …)`
  | .constructRange c ys => (s.put c ys, .done)                                          -- :99 / :104 `mArray(first, last | values, …)`
  | .reserve _ _ => (s, .done)                                                           -- :305 `mArray.Reserve(count)`
  | .shrinkToFit _ => (s, .done)                                                         -- :310 `mArray.Shrink()`

def runWrapVFrom : VSt → List VCall → List Obs
  | _, [] => []
  | s, c :: cs => (wrapV s c).2 :: runWrapVFrom (wrapV s c).1 cs

def vecRunWrap (cs : List VCall) : List Obs := runWrapVFrom {} cs

/-! ## 4. `stdish::unordered_set` (unordered_set.h) and `stdish::unordered_map` (unordered_map.h) over the native
`HashSet` / `HashMap` (C01: a finite map; the list is the traversal order, which is arbitrary — after every call the
model lets an oracle `ρ` rearrange both tables, and the history theorem holds for every oracle) -/

/-- `Find(key)`: the position of the item with that key, or none -/
def hFind (xs : List Item) (k : Nat) : Option Item := xs.find? (fun e => e.1 == k)
/-- index of that item in the traversal order (`xs.length` = `end()`) -/
def hPos (xs : List Item) (k : Nat) : Nat := xs.findIdx (fun e => e.1 == k)
/-- `Insert(item)` / `InsertCrt(key, creator)` / `Find` + `AddCrt`: (table, inserted, item at the returned position) -/
def hInsert (xs : List Item) (x : Item) : List Item × Bool × Item :=
  match hFind xs x.1 with
  | some e => (xs, false, e)
  | none => (xs ++ [x], true, x)
/-- `Remove(iter)` -/
def hRemoveAt (xs : List Item) (p : Nat) : List Item := xs.eraseIdx p
/-- `Remove(key)`: returns whether an item was removed -/
def hRemoveKey (xs : List Item) (k : Nat) : List Item × Bool := (xs.filter (fun e => e.1 != k), (hFind xs k).isSome)
/-- `dst.MergeFrom(src)` (HashSet.h:893 -> pvMergeTo :1287): every source item in traversal order is offered to `InsertCrt` -/
def hMergeFrom (dst src : List Item) : List Item × List Item :=
  src.foldl (fun acc y => if (hInsert acc.1 y).2.1 then ((hInsert acc.1 y).1, acc.2) else (acc.1, acc.2 ++ [y])) (dst, [])

/-- `pvInsertOrAssign` (unordered_map.h:965): `pvEmplace`, then `res.first->second = mappedArg` when not inserted -/
def wuInsertOrAssign (xs : List Item) (x : Item) : List Item × Bool × Item :=
  if (hInsert xs x).2.1 then hInsert xs x
  else ((hInsert xs x).1.map (fun e => if e.1 == x.1 then (e.1, x.2) else e), false, ((hInsert xs x).2.2.1, x.2))

/-- `operator[]` (unordered_map.h:656 -> HashMap.h:750): `Find`; a reference to the value, or `AddCrt(pos, key, T())` -/
def wuIndex (xs : List Item) (k : Nat) : List Item × Nat :=
  match hFind xs k with
  | some e => (xs, e.2)
  | none => (xs ++ [(k, 0)], 0)

/-- the two iterators of a documented range, on the current traversal order -/
def uRangeIters (xs : List Item) : URange → It × It
  | .empty => (⟨0, true⟩, ⟨0, true⟩)
  | .single k mv => (⟨hPos xs k, mv⟩, nextU xs.length ⟨hPos xs k, mv⟩)
  | .whole => (⟨0, true⟩, ⟨xs.length, true⟩)

/-- `erase(first, last)` (unordered_set.h:565, unordered_map.h:628): the decision `eraseRangeU`, then `erase(first)` / `clear()` /
    `throw std::invalid_argument` -/
def wuEraseRange (xs : List Item) (r : URange) : List Item × Obs :=
  match eraseRangeU xs.length (uRangeIters xs r).1 (uRangeIters xs r).2 with
  | .unchanged => (xs, .done)
  | .one p => (hRemoveAt xs p, .done)
  | .all => ([], .done)
  | .key _ => (xs, .done)
  | .invalid => (xs, .invalidArgument)

/-- one call on the wrapper, before the traversal orders are rearranged -/
def wrapUCore (s : St) : UCall → St × Obs
  | .insert c x | .emplace c x =>
      -- unordered_set.h:470 `mHashSet.Insert`, :530 emplace; unordered_map.h:508 -> pvEmplace -> pvInsert (:854 `Find`, `AddCrt`)
      let r := hInsert (s.get c) x
      (s.put c r.1, .foundFlag (some r.2.2) r.2.1)
  | .insertHint c x | .emplaceHint c x =>
      -- the hint is ignored (MOMO_USE_UNORDERED_HINT_ITERATORS is off): `insert(value).first`
      let r := hInsert (s.get c) x
      (s.put c r.1, .found (some r.2.2))
  | .insertRange c ys | .insertList c ys => (s.put c (ys.foldl (fun acc y => (hInsert acc y).1) (s.get c)), .done)
  | .tryEmplace c hinted x =>
      let r := hInsert (s.get c) x
      (s.put c r.1, if hinted then .found (some r.2.2) else .foundFlag (some r.2.2) r.2.1)
  | .insertOrAssign c hinted x =>
      let r := wuInsertOrAssign (s.get c) x
      (s.put c r.1, if hinted then .found (some r.2.2) else .foundFlag (some r.2.2) r.2.1)
  | .index c k => (s.put c (wuIndex (s.get c) k).1, .val (wuIndex (s.get c) k).2)
  | .indexAssign c k v =>
      -- `m[k] = v`: the reference returned by `operator[]` is assigned
      (s.put c ((wuIndex (s.get c) k).1.map (fun e => if e.1 == k then (e.1, v) else e)), .done)
  | .at c k => (s, atObs ((hFind (s.get c) k).map (·.2)))                            -- unordered_map.h:668
  | .find c k => (s, .found (hFind (s.get c) k))
  | .count c k => (s, .num (if (hFind (s.get c) k).isSome then 1 else 0))            -- `contains(key) ? 1 : 0`
  | .contains c k => (s, .flag (hFind (s.get c) k).isSome)
  -- `equal_range` = `{ find(key), end() }`: a lookup result steps to `end()`, the range has at most one element
  | .equalRange c k => (s, .items (match hFind (s.get c) k with | some e => [e] | none => []))
  | .eraseKey c k => (s.put c (hRemoveKey (s.get c) k).1, .num (if (hRemoveKey (s.get c) k).2 then 1 else 0))
  | .eraseElem c k => (s.put c (hRemoveAt (s.get c) (hPos (s.get c) k)), .done)
  | .eraseRange c r => (s.put c (wuEraseRange (s.get c) r).1, (wuEraseRange (s.get c) r).2)
  | .eraseIf c m r =>
      let ys := (s.get c).filter (fun e => !(e.1 % m == r))
      (s.put c ys, .num ((s.get c).length - ys.length))
  | .extractKey c k =>
      -- `find`; `iter != end() ? extract(iter) : node_type()`
      match hFind (s.get c) k with
      | some e => ({ (s.put c (hRemoveAt (s.get c) (hPos (s.get c) k))) with node := some e }, .node (some e))
      | none => ({ s with node := none }, .node none)
  | .extractElem c k =>
      ({ (s.put c (hRemoveAt (s.get c) (hPos (s.get c) k))) with node := (s.get c)[hPos (s.get c) k]? },
       .node (s.get c)[hPos (s.get c) k]?)
  | .insertNode c =>
      match s.node with
      | none => (s, .insRet none false none)
      | some x =>
        let r := hInsert (s.get c) x
        ({ (s.put c r.1) with node := if r.2.1 then none else some x }, .insRet (some r.2.2) r.2.1 (if r.2.1 then none else some x))
  | .insertNodeHint c =>
      -- `insert(std::move(node)).position`: the temporary `insert_return_type` takes the node away in every case
      match s.node with
      | none => (s, .insRet none false none)
      | some x =>
        let r := hInsert (s.get c) x
        ({ (s.put c r.1) with node := none }, .insRet (some r.2.2) r.2.1 none)
  | .dropNode => ({ s with node := none }, .done)
  | .merge c =>
      let r := hMergeFrom (s.get c) (s.get c.other)
      ((s.put c r.1).put c.other r.2, .done)
  | .clear c => (s.put c [], .done)
  | .size c => (s, .num (s.get c).length)
  | .empty c => (s, .flag (s.get c).isEmpty)
  | .swap => ({ s with a := s.b, b := s.a }, .done)
  | .assignCopy c | .constructCopy c => (s.put c (s.get c.other), .done)
  | .assignMove c | .constructMove c => ((s.put c (s.get c.other)).put c.other [], .done)
  | .assignList c ys => (s.put c (ys.foldl (fun acc y => (hInsert acc y).1) []), .done)
  | .compare => (s, .eqne (usetEq s.a s.b) (!(usetEq s.a s.b)))                     -- unordered_set.h:667, unordered_map.h:813
  | .contents c => (s, .items (StdSpec.canon (s.get c)))
  -- unordered_set.h:136-188 / unordered_map.h:170-222: a new table, then `insert(first, last)` / `HashSet(values, …)`
  | .constructRange c ys | .constructList c ys => (s.put c (ys.foldl (fun acc y => (hInsert acc y).1) []), .done)
  -- :388 / :430 `Reserve(count)`, :380 / :422 `rehash` = `reserve(CalcCapacity(2^k, …))`: the native `Reserve` keeps the items (C01)
  | .reserve _ _ | .rehash _ _ => (s, .done)
  -- :332 / :374 `max_load_factor(z)`: a NEW table with the new traits, `Reserve(size())`, `Insert(begin(), end())` of all
  -- items in traversal order, then move-assigned (the early `return` for an unchanged factor leaves the table as it is: the
  -- oracle covers both)
  | .maxLoadFactor c => (s.put c ((s.get c).foldl (fun acc y => (hInsert acc y).1) []), .done)

/-- one call, then both tables are re-arranged by the oracle (step `n`) -/
def wrapU (ρ : Nat → List Item → List Item) (n : Nat) (s : St) (c : UCall) : St × Obs :=
  ({ a := ρ (2 * n) (wrapUCore s c).1.a, b := ρ (2 * n + 1) (wrapUCore s c).1.b, node := (wrapUCore s c).1.node },
   (wrapUCore s c).2)

def runWrapUFrom (ρ : Nat → List Item → List Item) : Nat → St → List UCall → List Obs
  | _, _, [] => []
  | n, s, c :: cs => (wrapU ρ n s c).2 :: runWrapUFrom ρ (n + 1) (wrapU ρ n s c).1 cs

def unoRunWrap (ρ : Nat → List Item → List Item) (cs : List UCall) : List Obs := runWrapUFrom ρ 0 {} cs

/-! ## 5. `stdish::unordered_multimap` (unordered_multimap.h) over the native `HashMultiMap` (C08: a table key -> value
array with distinct keys; a key may stay without values; the order of the keys is arbitrary — oracle `ρ` —, the values
of a key are adjacent in the traversal) -/

structure MSt where
  a : MM := []
  b : MM := []
deriving Repr, Inhabited

def MSt.get (s : MSt) : Side → MM
  | .a => s.a
  | .b => s.b

def MSt.put (s : MSt) (c : Side) (m : MM) : MSt :=
  match c with
  | .a => { s with a := m }
  | .b => { s with b := m }

/-- the keys of the flat traversal: one entry per value -/
def mmKeys (m : MM) : List Nat := m.pairs.map (·.1)
/-- `Add(key, value)` / `AddCrt`: the value goes to the end of the key's array; a new key gets a new array -/
def mmAdd (m : MM) (x : Item) : MM :=
  if (m.lookup x.1).isSome then m.map (fun e => if e.1 == x.1 then (e.1, e.2 ++ [x.2]) else e) else m ++ [(x.1, [x.2])]
/-- `RemoveKey(keyIter)` / `RemoveKey(key)`: the key leaves with all its values -/
def mmRemoveKey (m : MM) (k : Nat) : MM := m.filter (fun e => e.1 != k)
/-- `Remove(iter)` (HashMultiMap.h:1071): the last value of the array is assigned to the slot, then `RemoveBack`; the key stays -/
def arrRemoveAt (vs : List Nat) (i : Nat) : List Nat := (vs.set i (vs.getLast?.getD 0)).dropLast
def mmRemoveValue (m : MM) (k v : Nat) : MM :=
  m.map (fun e => if e.1 == k then (e.1, arrRemoveAt e.2 (e.2.idxOf v)) else e)
/-- `erase(where)` (unordered_multimap.h:552): `keyIter->GetCount() == 1 ? RemoveKey(keyIter) : Remove(iter)` -/
def wmEraseElem (m : MM) (x : Item) : MM :=
  if ((m.lookup x.1).getD []).length = 1 then mmRemoveKey m x.1 else mmRemoveValue m x.1 x.2

/-- the two iterators of a documented range on the current flat traversal -/
def mRangeIters (m : MM) : MRange → It × It
  | .empty => (⟨0, true⟩, ⟨0, true⟩)
  | .single x mv => (⟨m.pairs.findIdx (· == x), mv⟩, nextMM (mmKeys m) ⟨m.pairs.findIdx (· == x), mv⟩)
  -- traversal iterators: up to the first value of the next key; `equal_range`: `MakeIterator(keyIter, count)` = `end()`
  | .wholeKey k mv => (⟨m.pairs.findIdx (fun e => e.1 == k), mv⟩,
                        ⟨makeIterEnd (mmKeys m) ⟨m.pairs.findIdx (fun e => e.1 == k), mv⟩, mv⟩)
  | .whole => (⟨0, true⟩, ⟨m.pairs.length, true⟩)

/-- `erase(first, last)` (unordered_multimap.h:569): the decision `eraseRangeMM`, then `erase(first)` / `RemoveKey(keyIter)` /
    `clear()` / `throw std::invalid_argument` -/
def wmEraseRange (m : MM) (r : MRange) : MM × Obs :=
  match eraseRangeMM (mmKeys m) (mRangeIters m r).1 (mRangeIters m r).2 with
  | .unchanged => (m, .done)
  | .one p => (match m.pairs[p]? with | some x => wmEraseElem m x | none => m, .done)
  | .key p => (match m.pairs[p]? with | some x => mmRemoveKey m x.1 | none => m, .done)
  | .all => ([], .done)
  | .invalid => (m, .invalidArgument)

def wrapMCore (s : MSt) : MCall → MSt × Obs
  -- insert / emplace / hinted variants: `pvInsert` -> `mHashMultiMap.AddCrt(key, …)`; hints are ignored
  | .insert c x | .emplace c x | .insertHint c x | .emplaceHint c x => (s.put c (mmAdd (s.get c) x), .found (some x))
  | .insertRange c ys | .insertList c ys => (s.put c (ys.foldl mmAdd (s.get c)), .done)
  -- `find` = `equal_range(key).first` (pvEqualRange: no key or no values -> `end()`)
  | .find c k => (s, .flag (decide (0 < (((s.get c).lookup k).getD []).length)))
  | .count c k => (s, .num (((s.get c).lookup k).getD []).length)            -- `!!keyIter ? keyIter->GetCount() : 0`
  | .contains c k => (s, .flag (decide (0 < (((s.get c).lookup k).getD []).length)))   -- `count(key) > 0`
  | .equalRange c k => (s, .items (StdSpec.canon ((((s.get c).lookup k).getD []).map (fun v => (k, v)))))
  | .eraseKey c k => (s.put c (mmRemoveKey (s.get c) k), .num (((s.get c).lookup k).getD []).length)   -- `RemoveKey(key)`
  | .eraseElem c x => (s.put c (wmEraseElem (s.get c) x), .done)
  | .eraseRange c r => (s.put c (wmEraseRange (s.get c) r).1, (wmEraseRange (s.get c) r).2)
  | .eraseIf c m r =>
      -- native `Remove(pairFilter)`: the values go, the keys stay (also without values)
      let t := (s.get c).map (fun e => (e.1, e.2.filter (fun _ => !(e.1 % m == r))))
      (s.put c t, .num (MM.count (s.get c) - MM.count t))
  | .clear c => (s.put c [], .done)
  | .size c => (s, .num (MM.count (s.get c)))                                       -- `GetCount()` = number of values
  | .empty c => (s, .flag (decide (MM.count (s.get c) = 0)))                      -- `IsEmpty()`: `mValueCount == 0`
  | .swap => ({ a := s.b, b := s.a }, .done)
  | .assignCopy c | .constructCopy c => (s.put c (s.get c.other), .done)
  | .assignMove c | .constructMove c => ((s.put c (s.get c.other)).put c.other [], .done)
  | .assignList c ys => (s.put c (ys.foldl mmAdd []), .done)
  | .compare => (s, .eqne (mmEq s.a s.b) (!(mmEq s.a s.b)))                    -- unordered_multimap.h:627
  | .contents c => (s, .items (StdSpec.canon (MM.pairs (s.get c))))
  -- unordered_multimap.h:150-203: a new table, then `insert(first, last)` -> `pvInsertRange` (`Add` per element)
  | .constructRange c ys | .constructList c ys => (s.put c (ys.foldl mmAdd []), .done)

/-- an oracle for the multimap may only re-arrange the key entries (the table's bucket order) -/
def wrapM (ρ : Nat → MM → MM) (n : Nat) (s : MSt) (c : MCall) : MSt × Obs :=
  ({ a := ρ (2 * n) (wrapMCore s c).1.a, b := ρ (2 * n + 1) (wrapMCore s c).1.b }, (wrapMCore s c).2)

def runWrapMFrom (ρ : Nat → MM → MM) : Nat → MSt → List MCall → List Obs
  | _, _, [] => []
  | n, s, c :: cs => (wrapM ρ n s c).2 :: runWrapMFrom ρ (n + 1) (wrapM ρ n s c).1 cs

def mmRunWrap (ρ : Nat → MM → MM) (cs : List MCall) : List Obs := runWrapMFrom ρ 0 {} cs

end Momo.StdW
