import Momo.Model.Pool
/-
  `MemPool` objects and their memory managers (include/momo/MemPool.h) - C09: move construction (210-220), move
  assignment (233-237), `Swap` (241-248) with `MemPool::Data::Swap` (167-173, as repaired for finding F26: the memory
  managers are ALWAYS exchanged) and the moving constructor of `Data` (156-161).

  A pool object = its `Params` base (block size and alignment are run-time values of `MemPoolParams`), the memory manager
  its `mData` holds (`Data : public MemManager`; managers have an identity, `none` = a moved-from manager that must not
  be called any more) and the state of `Momo/Model/Pool.lean`. The fields `store` and `singles` of that state are the
  memory the pointers `mFreeBufferHead` / the handed-out single blocks lead to: they travel with the pointers.
  Every call to a memory manager is an event tagged with the manager that was called.
  Proofs: `Momo/Proof/PoolWorld.lean`; property theorems in `Momo/Props/C09.lean`.
  Core Lean only (no Mathlib): this file is linked into the driver.
-/
namespace Momo.Pool

structure PoolObj where
  P : Params
  mgr : Option Nat
  pool : Pool

/-- a call to a memory manager: which manager (`none` = a moved-from manager was called), what call -/
abbrev WEv := Option Nat × Ev

def tagEvs (m : Option Nat) (evs : List Ev) : List WEv := evs.map fun e => (m, e)

/-- `MemPool(MemPool&& memPool)` (210-220): `Params(std::move(params))` copies the two sizes, `Data(Data&&)` (156-161)
    moves the manager and takes `allocCount` (`data.allocCount = 0`), the head and the cache are taken over and nulled in
    the source. Value: (the new object, the source afterwards). -/
def moveCtor (src : PoolObj) : PoolObj × PoolObj :=
  ({ P := src.P, mgr := src.mgr,
     pool := { store := src.pool.store, pre := src.pool.pre, post := src.pool.post, cache := src.pool.cache,
               allocCount := src.pool.allocCount, singles := src.pool.singles } },
   { P := src.P, mgr := none,
     pool := { store := [], pre := [], post := [], cache := [], allocCount := 0, singles := [] } })

/-- `Swap` (241-248): `std::swap` of the params; `mData.Swap` (167-173): the manager of `this` is moved to a temporary, the
    other manager is move-assigned to `this`, the temporary to the other (always, also when the managers compare equal),
    `std::swap(allocCount)`; `std::swap` of `mFreeBufferHead`, `mCachedCount`, `mCacheHead`. Value: (`this`, `memPool`). -/
def swapObjs (a b : PoolObj) : PoolObj × PoolObj :=
  ({ P := b.P, mgr := b.mgr,
     pool := { store := b.pool.store, pre := b.pool.pre, post := b.pool.post, cache := b.pool.cache,
               allocCount := b.pool.allocCount, singles := b.pool.singles } },
   { P := a.P, mgr := a.mgr,
     pool := { store := a.pool.store, pre := a.pool.pre, post := a.pool.post, cache := a.pool.cache,
               allocCount := a.pool.allocCount, singles := a.pool.singles } })

/-- result of a move assignment: `*this` and the source afterwards, and the calls the destructor of the temporary made -
    through the manager the temporary held, which is the manager `*this` had before -/
inductive AssignRes where
  | ok (dst src : PoolObj) (mgr : Option Nat) (evs : List Ev)
  | stuck (why : String)

/-- `operator=(MemPool&& memPool)` (233-237): `MemPool(std::move(memPool)).Swap(*this)`, then the temporary - which now
    holds what `*this` held, with the manager `*this` had - is destroyed -/
def moveAssign (dst src : PoolObj) : AssignRes :=
  match destroy (swapObjs (moveCtor src).1 dst).1.P (swapObjs (moveCtor src).1 dst).1.pool with
  | .ok _ _ evs => .ok (swapObjs (moveCtor src).1 dst).2 (moveCtor src).2 (swapObjs (moveCtor src).1 dst).1.mgr evs
  | .badAlloc _ _ => .stuck "~MemPool: the memory manager threw"
  | .stuck w => .stuck w

end Momo.Pool
