import Momo.Proof.ColumnsRows
import Momo.Proof.TrEqMisc2Col
import Momo.Proof.TrEqWave2Col
/-!
# C18 — Column lists give each column its own aligned slot and know only their columns

Property theorems only. Model: `Momo/Model/Columns.lean` (mirrors `momo::DataColumnList`,
include/momo/DataColumn.h); lemmas: `Momo/Proof/Columns{Dfs,Graph,Inv,Rows}.lean`.

Statement (properties.jsonl): for every set and order of columns added to a dynamic column list (an
addition the list cannot accommodate is refused with an exception and leaves it unchanged), each
column is assigned an offset that is aligned for its type, lies within the row size, overlaps no
other column (nor the row-number slot), and never changes when further columns are added; looking a
column up always yields that offset. Membership queries answer true exactly for the columns that
were added, and creating, copying (also between different column lists) and destroying a row
constructs and destroys each column's item exactly once.

Quantifiers.  `c : Cfg` — every `logVertexCount ≥ 4` (the header's static assertion; no upper bound
is needed), with or without the row-number slot, any code width.  `ops` — every history of `Add`
calls from the empty list: any number of columns per call, any codes (colliding or not, repeated or
not), any item sizes/alignments `> 0`, any allocation fault per call; refused calls stay in the
history.  The only hypothesis besides well-formed item types is `Small`: all bytes ever requested,
padding included, times `2^L + 1`, stay below `2^63` — it rules the 64-bit wrap of offsets out and
is what makes the `0 = unvisited` encoding of the addends sound (the proofs show that under it no
addend is ever computed as `0`).  Real rows (sizes < 2^47 bytes for `L = 15`) satisfy it.
`WellTyped`, `Small`, `run_inv` are defined in `Momo/Proof/ColumnsInv.lean`.
-/
namespace Momo.Col

/-- **GetVertices.** For every code and every code parameter the retry loop can reach, the two
vertices are distinct and index into the `2^L` addends (so `Graph::AddEdges`' check holds and no
array access is out of range). -/
theorem C18_vertices (c : Cfg) (hL : Extracted.colLogVertexMin ≤ c.L) (code param : Nat)
    (hp : param ≤ Extracted.colMaxCodeParam) :
    (getVertices c code param).1 ≠ (getVertices c code param).2 ∧
    (getVertices c code param).1 < 2 ^ c.L ∧ (getVertices c code param).2 < 2 ^ c.L :=
  ⟨vertices_ne c code param, vertices_lt c code param hL hp⟩

/-- **fill_sound.** Whenever one attempt of `pvFillAddends` succeeds on a reachable list — for any
code parameter, any new columns — then for every old column (with its recorded offset) and every
new column (with the offset `Ceil` laid out for it) both addends are non-zero and
`addend[v1] + addend[v2] ≡ offset (mod 2^64)`. -/
theorem C18_fill_sound (c : Cfg) (hL : Extracted.colLogVertexMin ≤ c.L) (ops : List (List Item × Fault))
    (items : List Item) (fault : Fault) (hok : WellTyped (ops ++ [(items, fault)])) (hs : Small c (ops ++ [(items, fault)]))
    (param : Nat) (hp : param ≤ Extracted.colMaxCodeParam) (a : Array Nat) (off al : Nat)
    (hfill : fillAddends c (run c ops) items param = (.ok a, off, al)) :
    off = endOf items (run c ops).totalSize ∧
    ∀ r ∈ (run c ops).columns ++ place items (run c ops).totalSize,
      a.getD (getVertices c r.code param).1 0 ≠ 0 ∧ a.getD (getVertices c r.code param).2 0 ≠ 0 ∧
      (a.getD (getVertices c r.code param).1 0 + a.getD (getVertices c r.code param).2 0) % 2 ^ 64 = r.offset := by
  have hok1 : OpsOK ops := fun o ho => hok o (by simp [ho])
  have hitems : ItemsOK items := hok (items, fault) (by simp)
  have hw : histWeight (ops ++ [(items, fault)]) = histWeight ops + weight items := by simp [histWeight]
  unfold Small at hs
  rw [hw] at hs
  have hs1 : Small c ops := Nat.lt_of_le_of_lt (Nat.mul_le_mul_left _ (by omega)) hs
  have hr := runFrom_spec c hL ops (init c) (init_inv c) hok1 hs1
  have hB : (c.N + 1) * endOf items (run c ops).totalSize < H := by
    have h1 := endOf_le items (run c ops).totalSize hitems
    have h2 : (run c ops).totalSize ≤ c.rowSlot + histWeight ops := hr.2.2
    exact Nat.lt_of_le_of_lt (Nat.mul_le_mul_left _ (by omega)) hs
  obtain ⟨h1, _, _, h4⟩ := (fillAddends_spec c (run c ops) items param hr.1 hitems hL hp hB).2 a off al hfill
  exact ⟨h1, h4⟩

/-- **DFS termination.** On reachable lists the recursion of `Graph::FillAddends` needs at most
`2^L` nested calls (the fuel the model gives it): no attempt runs out of fuel, hence `pvAdd` always
returns one of its four C++ outcomes. The measure is the number of zero addends, which every
recursive call decreases because no addend is ever computed as `0`. -/
theorem C18_dfs_terminates (c : Cfg) (hL : Extracted.colLogVertexMin ≤ c.L) (ops : List (List Item × Fault))
    (items : List Item) (fault : Fault) (hok : WellTyped (ops ++ [(items, fault)])) (hs : Small c (ops ++ [(items, fault)])) :
    (∀ param, param ≤ Extracted.colMaxCodeParam → (fillAddends c (run c ops) items param).1 ≠ .fuel) ∧
    (add c (run c ops) items fault).2 ≠ .unmodelled := by
  have hok1 : OpsOK ops := fun o ho => hok o (by simp [ho])
  have hitems : ItemsOK items := hok (items, fault) (by simp)
  have hw : histWeight (ops ++ [(items, fault)]) = histWeight ops + weight items := by simp [histWeight]
  unfold Small at hs
  rw [hw] at hs
  have hs1 : Small c ops := Nat.lt_of_le_of_lt (Nat.mul_le_mul_left _ (by omega)) hs
  have hr := runFrom_spec c hL ops (init c) (init_inv c) hok1 hs1
  have hB : (c.N + 1) * endOf items (run c ops).totalSize < H := by
    have h1 := endOf_le items (run c ops).totalSize hitems
    have h2 : (run c ops).totalSize ≤ c.rowSlot + histWeight ops := hr.2.2
    exact Nat.lt_of_le_of_lt (Nat.mul_le_mul_left _ (by omega)) hs
  refine ⟨fun param hp => (fillAddends_spec c (run c ops) items param hr.1 hitems hL hp hB).1, ?_⟩
  rcases add_spec c (run c ops) items fault hr.1 hitems hL hB with ⟨p, a, he, _⟩ | h | h | h | h
  · rw [he]; exact fun h => by cases h
  all_goals (rw [h.1]; exact fun h => by cases h)

/-- **offsets_ok.** After any history every column's offset is aligned for its type, lies behind
the row-number slot, ends within the row size, and the slots are pairwise disjoint (they lie one
after another in the order of addition).  The columns are exactly the items of the calls that
succeeded, in order, with their item sizes and alignments. -/
theorem C18_offsets_ok (c : Cfg) (hL : Extracted.colLogVertexMin ≤ c.L) (ops : List (List Item × Fault))
    (hok : WellTyped ops) (hs : Small c ops) :
    (∀ r ∈ (run c ops).columns,
        r.offset % r.align = 0 ∧ c.rowSlot ≤ r.offset ∧ r.offset + r.size ≤ (run c ops).totalSize ∧ 0 < r.size) ∧
    (run c ops).columns.Pairwise (fun r1 r2 => r1.offset + r1.size ≤ r2.offset) ∧
    (run c ops).columns.map sigR = (addedItems c ops (init c)).map sigI := by
  have hr := runFrom_spec c hL ops (init c) (init_inv c) hok hs
  refine ⟨?_, hr.1.lay.pairwise, ?_⟩
  · intro r hmem
    have := hr.1.lay.mem hmem
    exact ⟨this.2.1, this.1, this.2.2.1, this.2.2.2.1⟩
  · obtain ⟨more, h1, h2⟩ := hr.2.1
    have : (run c ops).columns = more := by rw [run_eq, h1]; rfl
    rw [this, h2]

/-- **offset_stable + lookup.** The column records a history produced are never changed by any
continuation of the history (further additions, refused or not), and in every later state looking
such a column up — `pvGetOffset` and `Contains(…, &offset)` — yields the offset recorded when it
was added. -/
theorem C18_offset_stable (c : Cfg) (hL : Extracted.colLogVertexMin ≤ c.L) (ops more : List (List Item × Fault))
    (hok : WellTyped (ops ++ more)) (hs : Small c (ops ++ more)) :
    (∃ newer, (run c (ops ++ more)).columns = (run c ops).columns ++ newer) ∧
    ∀ r ∈ (run c ops).columns,
      getOffset c (run c (ops ++ more)) r.code = r.offset ∧
      contains c (run c (ops ++ more)) r.code = some r.offset := by
  have hok1 : OpsOK ops := fun o ho => hok o (by simp [ho])
  have hok2 : OpsOK more := fun o ho => hok o (by simp [ho])
  unfold Small at hs
  rw [histWeight_append] at hs
  have hs1 : Small c ops := Nat.lt_of_le_of_lt (Nat.mul_le_mul_left _ (by omega)) hs
  have hr := runFrom_spec c hL ops (init c) (init_inv c) hok1 hs1
  have hts : (run c ops).totalSize ≤ c.rowSlot + histWeight ops := hr.2.2
  have hr2 := runFrom_spec c hL more (run c ops) hr.1 hok2
    (Nat.lt_of_le_of_lt (Nat.mul_le_mul_left _ (by omega)) hs)
  have heq : run c (ops ++ more) = runFrom c (run c ops) more := by
    rw [run_eq, runFrom_append]; rfl
  rw [heq]
  obtain ⟨newer, h1, _⟩ := hr2.2.1
  refine ⟨⟨newer, h1⟩, ?_⟩
  intro r hmem
  have hmem2 : r ∈ (runFrom c (run c ops) more).columns := by rw [h1]; simp [hmem]
  exact ⟨lookup_spec hr2.1 hmem2, contains_added hr2.1 hmem2⟩

/-- **contains_iff_added.** `Contains` answers true exactly for the codes of the columns that were
added (by the calls of the history that succeeded) — whatever the addends of a foreign code's
vertices are. -/
theorem C18_contains_iff_added (c : Cfg) (hL : Extracted.colLogVertexMin ≤ c.L) (ops : List (List Item × Fault))
    (hok : WellTyped ops) (hs : Small c ops) (code : Nat) :
    (contains c (run c ops) code).isSome = true ↔ code ∈ (addedItems c ops (init c)).map (·.code) := by
  have hi := run_inv c hL ops hok hs
  have hcodes : (run c ops).columns.map (·.code) = (addedItems c ops (init c)).map (·.code) := by
    have h := (C18_offsets_ok c hL ops hok hs).2.2
    have h1 : (run c ops).columns.map (·.code) = ((run c ops).columns.map sigR).map (·.1) := by
      rw [List.map_map]; rfl
    have h2 : (addedItems c ops (init c)).map (·.code) = ((addedItems c ops (init c)).map sigI).map (·.1) := by
      rw [List.map_map]; rfl
    rw [h1, h2, h]
  rw [← hcodes]
  constructor
  · intro h
    apply Decidable.byContradiction
    intro hn
    rw [contains_not_added hi hn] at h
    cases h
  · intro h
    obtain ⟨r, hr1, hr2⟩ := List.mem_map.mp h
    rw [← hr2, contains_added hi hr1]; rfl

/-- **add_refused_unchanged.** On a reachable list every `Add` call, with any allocation fault,
either succeeds (only without a fault, keeping the column count within `maxColumnCount`) or is
refused — too many columns (exactly when the count would exceed `maxColumnCount`), no acyclic code
parameter up to 255, or the allocation failure — and a refused call leaves the list unchanged: only
the size of the internal mutable-bit array may have grown (not observable through the interface). -/
theorem C18_add_refused_unchanged (c : Cfg) (hL : Extracted.colLogVertexMin ≤ c.L) (ops : List (List Item × Fault))
    (items : List Item) (fault : Fault) (hok : WellTyped (ops ++ [(items, fault)])) (hs : Small c (ops ++ [(items, fault)])) :
    ((add c (run c ops) items fault).2 ≠ .ok →
        (add c (run c ops) items fault).1 = { run c ops with mutCount := (add c (run c ops) items fault).1.mutCount }) ∧
    ((add c (run c ops) items fault).2 = .tooMany ↔ items.length + (run c ops).columns.length > c.maxColumns) ∧
    ((add c (run c ops) items fault).2 = .ok → fault = .none ∧
        ((add c (run c ops) items fault).1).columns.length ≤ c.maxColumns) ∧
    ((add c (run c ops) items fault).2 = .badAlloc → fault ≠ .none) := by
  have hok1 : OpsOK ops := fun o ho => hok o (by simp [ho])
  have hitems : ItemsOK items := hok (items, fault) (by simp)
  have hw : histWeight (ops ++ [(items, fault)]) = histWeight ops + weight items := by simp [histWeight]
  unfold Small at hs
  rw [hw] at hs
  have hs1 : Small c ops := Nat.lt_of_le_of_lt (Nat.mul_le_mul_left _ (by omega)) hs
  have hr := runFrom_spec c hL ops (init c) (init_inv c) hok1 hs1
  have hB : (c.N + 1) * endOf items (run c ops).totalSize < H := by
    have h1 := endOf_le items (run c ops).totalSize hitems
    have h2 : (run c ops).totalSize ≤ c.rowSlot + histWeight ops := hr.2.2
    exact Nat.lt_of_le_of_lt (Nat.mul_le_mul_left _ (by omega)) hs
  have hnot : ∀ st1 out, add c (run c ops) items fault = (st1, out) → out ≠ .tooMany →
      ¬ items.length + (run c ops).columns.length > c.maxColumns := by
    intro st1 out he hne h'
    unfold add at he
    rw [if_pos h'] at he
    simp only [Prod.mk.injEq] at he
    exact hne he.2.symm
  rcases add_spec c (run c ops) items fault hr.1 hitems hL hB with ⟨p, a, he, hf, hcnt, _, hi, _⟩ | h | h | h | h
  · rw [he]
    refine ⟨fun h => absurd rfl h, ?_, fun _ => ⟨hf, hi.count_le⟩, (fun h => by cases h)⟩
    exact Iff.intro (fun h => by cases h) (fun h => absurd h (by omega))
  · rw [h.1]
    exact ⟨fun _ => rfl, Iff.intro (fun _ => h.2) (fun _ => rfl), (fun h => by cases h), (fun h => by cases h)⟩
  · rw [h.1]
    refine ⟨fun _ => rfl, ?_, (fun h => by cases h), (fun h => by cases h)⟩
    exact Iff.intro (fun h => by cases h) (fun h' => absurd h' (by omega))
  · have hn := hnot _ _ h.1 (by decide)
    rw [h.1]
    refine ⟨fun _ => rfl, ?_, (fun h => by cases h), (fun _ => by rw [h.2.1]; decide)⟩
    exact Iff.intro (fun h => by cases h) (fun h' => absurd h' hn)
  · have hn := hnot _ _ h.1 (by decide)
    rw [h.1]
    refine ⟨fun _ => rfl, ?_, (fun h => by cases h), (fun _ => by rw [h.2.1]; decide)⟩
    exact Iff.intro (fun h => by cases h) (fun h' => absurd h' hn)

/-- **Duplicate codes are refused.** A call that names a code already in the list, or the same code
twice, never succeeds (for such a call every code parameter yields a double edge with two different
offsets), whatever the fault — so the `catch` handler of `pvAdd`, which removes the new codes from the
code set, can never remove the code of an existing column. -/
theorem C18_duplicate_refused (c : Cfg) (hL : Extracted.colLogVertexMin ≤ c.L) (ops : List (List Item × Fault))
    (items : List Item) (fault : Fault) (hok : WellTyped (ops ++ [(items, fault)])) (hs : Small c (ops ++ [(items, fault)]))
    (hdup : ¬ ((run c ops).codeSet ++ items.map (·.code)).Nodup) :
    add c (run c ops) items fault = (run c ops, .tooMany) ∨ add c (run c ops) items fault = (run c ops, .cannot) := by
  have hok1 : OpsOK ops := fun o ho => hok o (by simp [ho])
  have hitems : ItemsOK items := hok (items, fault) (by simp)
  have hw : histWeight (ops ++ [(items, fault)]) = histWeight ops + weight items := by simp [histWeight]
  unfold Small at hs
  rw [hw] at hs
  have hs1 : Small c ops := Nat.lt_of_le_of_lt (Nat.mul_le_mul_left _ (by omega)) hs
  have hr := runFrom_spec c hL ops (init c) (init_inv c) hok1 hs1
  have hB : (c.N + 1) * endOf items (run c ops).totalSize < H := by
    have h1 := endOf_le items (run c ops).totalSize hitems
    have h2 : (run c ops).totalSize ≤ c.rowSlot + histWeight ops := hr.2.2
    exact Nat.lt_of_le_of_lt (Nat.mul_le_mul_left _ (by omega)) hs
  exact add_duplicate_refused c (run c ops) items fault hr.1 hitems hL hB hdup

/-- **Why a call is refused with "Cannot add columns".** On a reachable list `pvAdd` throws the
runtime error exactly when the column count fits and the fill fails for every code parameter from
the current one up to 255; it succeeds or fails with the allocation error exactly when the count
fits and some parameter in that range works (the first such parameter is the one committed). -/
theorem C18_cannot_iff (c : Cfg) (hL : Extracted.colLogVertexMin ≤ c.L) (ops : List (List Item × Fault))
    (items : List Item) (fault : Fault) (hok : WellTyped (ops ++ [(items, fault)])) (hs : Small c (ops ++ [(items, fault)])) :
    ((add c (run c ops) items fault).2 = .cannot ↔
      items.length + (run c ops).columns.length ≤ c.maxColumns ∧
      ∀ param, (run c ops).codeParam ≤ param → param ≤ Extracted.colMaxCodeParam →
        (fillAddends c (run c ops) items param).1 = .bad) ∧
    (((add c (run c ops) items fault).2 = .ok ∨ (add c (run c ops) items fault).2 = .badAlloc) →
      ∃ param a, (run c ops).codeParam ≤ param ∧ param ≤ Extracted.colMaxCodeParam ∧
        (fillAddends c (run c ops) items param).1 = .ok a) := by
  have hok1 : OpsOK ops := fun o ho => hok o (by simp [ho])
  have hitems : ItemsOK items := hok (items, fault) (by simp)
  have hw : histWeight (ops ++ [(items, fault)]) = histWeight ops + weight items := by simp [histWeight]
  unfold Small at hs
  rw [hw] at hs
  have hs1 : Small c ops := Nat.lt_of_le_of_lt (Nat.mul_le_mul_left _ (by omega)) hs
  have hr := runFrom_spec c hL ops (init c) (init_inv c) hok1 hs1
  have hB : (c.N + 1) * endOf items (run c ops).totalSize < H := by
    have h1 := endOf_le items (run c ops).totalSize hitems
    have h2 : (run c ops).totalSize ≤ c.rowSlot + histWeight ops := hr.2.2
    exact Nat.lt_of_le_of_lt (Nat.mul_le_mul_left _ (by omega)) hs
  have clash : ∀ param a, FoundAt c (run c ops) items param a →
      ¬ (∀ param, (run c ops).codeParam ≤ param → param ≤ Extracted.colMaxCodeParam →
        (fillAddends c (run c ops) items param).1 = .bad) := by
    intro param a hf hall
    have := hall param hf.1 hf.2.1
    rw [hf.2.2] at this
    cases this
  rcases add_spec c (run c ops) items fault hr.1 hitems hL hB with ⟨p, a, he, _, _, _, _, hf⟩ | h | h | h | h
  · rw [he]
    exact ⟨Iff.intro (fun h => by cases h) (fun h => absurd h.2 (clash p a hf)), fun _ => ⟨p, a, hf⟩⟩
  · rw [h.1]
    exact ⟨Iff.intro (fun h => by cases h) (fun h' => absurd h'.1 (by omega)), fun h' => by rcases h' with h' | h' <;> cases h'⟩
  · rw [h.1]
    exact ⟨Iff.intro (fun _ => h.2) (fun _ => rfl), fun h' => by rcases h' with h' | h' <;> cases h'⟩
  · obtain ⟨p, a, hf⟩ := h.2.2.2
    rw [h.1]
    exact ⟨Iff.intro (fun h => by cases h) (fun h => absurd h.2 (clash p a hf)), fun _ => ⟨p, a, hf⟩⟩
  · obtain ⟨p, a, hf⟩ := h.2.2.2
    rw [h.1]
    exact ⟨Iff.intro (fun h => by cases h) (fun h => absurd h.2 (clash p a hf)), fun _ => ⟨p, a, hf⟩⟩

/-- **The graph fits its storage.** In every attempt that `pvAdd` makes (on any list state, once the
column count check has passed) the graph uses exactly two `Edge` records per old and new column, at
most `maxEdgeCount = 2 * maxColumnCount`: `Graph::mEdgeStorage` never overflows (and
`MOMO_ASSERT(mEdgeNumber < vertexCount * 2)` holds). -/
theorem C18_edge_storage_fits (c : Cfg) (hL : Extracted.colLogVertexMin ≤ c.L) (st : State)
    (items : List Item) (param : Nat) (hp : param ≤ Extracted.colMaxCodeParam)
    (hfit : items.length + st.columns.length ≤ c.maxColumns) :
    edgeCount (buildGraph c st items param).1 = 2 * (st.columns.length + items.length) ∧
    edgeCount (buildGraph c st items param).1 ≤ Extracted.colMaxEdgeMul * c.maxColumns := by
  have h : edgeCount (buildGraph c st items param).1 = 2 * (st.columns.length + items.length) := by
    rw [buildGraph_eq]
    simp only
    rw [oldEdges_count c param hL hp _ _ (by simp), edgeCount_replicate, List.length_append, place_length]
    omega
  refine ⟨h, ?_⟩
  rw [h]
  simp only [Extracted.colMaxEdgeMul]
  omega

/-- the codes of the columns of a reachable list are pairwise different, the code set is exactly
their set, and the column count never exceeds `maxColumnCount` (so the `2 * maxColumnCount` edge
records of `Graph` suffice for the two edges per column) -/
theorem C18_codes_distinct (c : Cfg) (hL : Extracted.colLogVertexMin ≤ c.L) (ops : List (List Item × Fault))
    (hok : WellTyped ops) (hs : Small c ops) :
    ((run c ops).columns.map (·.code)).Nodup ∧ (run c ops).codeSet = (run c ops).columns.map (·.code) ∧
    (run c ops).columns.length ≤ c.maxColumns :=
  ⟨(run_inv c hL ops hok hs).nodup, (run_inv c hL ops hok hs).codes, (run_inv c hL ops hok hs).count_le⟩

/-- **Alignment of the row.** `GetAlignment()` is `1` or the alignment of one of the columns, is at
least every column's alignment, and — alignments being powers of two — is a multiple of each: a row
placed at an address aligned to `GetAlignment()` has every item aligned for its type. -/
theorem C18_alignment (c : Cfg) (hL : Extracted.colLogVertexMin ≤ c.L) (ops : List (List Item × Fault))
    (hok : WellTyped ops) (hs : Small c ops)
    (hpow : ∀ r ∈ (run c ops).columns, ∃ k, r.align = 2 ^ k) :
    ((run c ops).alignment = 1 ∨ ∃ r ∈ (run c ops).columns, (run c ops).alignment = r.align) ∧
    ∀ r ∈ (run c ops).columns, r.align ≤ (run c ops).alignment ∧ r.align ∣ (run c ops).alignment := by
  have hi := run_inv c hL ops hok hs
  have hcases : (run c ops).alignment = 1 ∨ ∃ r ∈ (run c ops).columns, (run c ops).alignment = r.align := by
    rw [hi.align]
    rcases alignOf_cases ((run c ops).columns.map (fun r => (⟨r.code, r.size, r.align, false⟩ : Item))) 1 with h | ⟨it, hit, h⟩
    · exact Or.inl h
    · obtain ⟨r, hr, rfl⟩ := List.mem_map.mp hit
      exact Or.inr ⟨r, hr, h⟩
  refine ⟨hcases, ?_⟩
  intro r hr
  have hle : r.align ≤ (run c ops).alignment := by
    rw [hi.align]
    exact mem_le_alignOf _ 1 (it := ⟨r.code, r.size, r.align, false⟩) (List.mem_map.mpr ⟨r, hr, rfl⟩)
  refine ⟨hle, ?_⟩
  obtain ⟨k, hk⟩ := hpow r hr
  have hpowA : ∃ j, (run c ops).alignment = 2 ^ j := by
    rcases hcases with h | ⟨r', hr', h⟩
    · exact ⟨0, h⟩
    · obtain ⟨j, hj⟩ := hpow r' hr'; exact ⟨j, h.trans hj⟩
  obtain ⟨j, hj⟩ := hpowA
  rw [hk, hj] at hle ⊢
  exact Nat.pow_dvd_pow 2 ((Nat.pow_le_pow_iff_right (by decide)).mp hle)

/-- **create_destroy_once.** On a reachable list, for `CreateRaw` and for `ImportRaw` from the same
or from any other column list:
 (a) without a failure every column's item is constructed exactly once, in column order — copied
     when the source has it, default-created otherwise — and the call returns normally;
 (b) if the `i`-th construction throws, exactly the `i` items constructed before it are destroyed
     again (each once) and the exception propagates;
 (c) `DestroyRaw` destroys every column's item exactly once;
 (d) replayed on the set of live slots of the row, no slot is ever constructed while alive or
     destroyed while dead; a completed creation leaves every slot alive, creation followed by
     destruction and a failed creation leave none;
 (e) the item slots are pairwise different offsets. -/
theorem C18_create_destroy_once (c : Cfg) (hL : Extracted.colLogVertexMin ≤ c.L) (ops : List (List Item × Fault))
    (hok : WellTyped ops) (hs : Small c ops) (src : Src) :
    createRaw (run c ops) src none = ((run c ops).columns.map (ctorEv (srcOf src)), true) ∧
    (∀ i, i < (run c ops).columns.length → ∃ ds : List Nat,
        createRaw (run c ops) src (some i) =
          (((run c ops).columns.take i).map (ctorEv (srcOf src)) ++ ds.map Ev.destroy, false) ∧
        ds.Perm (((run c ops).columns.take i).map (·.offset))) ∧
    destroyRaw (run c ops) = (run c ops).columns.map (fun r => Ev.destroy r.offset) ∧
    (replay (createRaw (run c ops) src none).1 [] = some ((run c ops).columns.map (·.offset)).reverse ∧
     replay ((createRaw (run c ops) src none).1 ++ destroyRaw (run c ops)) [] = some [] ∧
     ∀ i, i < (run c ops).columns.length → replay (createRaw (run c ops) src (some i)).1 [] = some []) ∧
    ((run c ops).columns.map (·.offset)).Nodup := by
  have hi := run_inv c hL ops hok hs
  exact ⟨createRaw_none hi src, fun i h => createRaw_fault hi src i h, destroyRaw_eq hi,
    ⟨replay_create hi src, replay_create_destroy hi src, fun i h => (replay_fault hi src i h).2⟩,
    hi.offsets_nodup⟩

/-- **Copying between different column lists.** When a row is imported from another reachable
column list (any configuration, any history), a column is copied exactly when the source list
contains its code, and then from the offset the source list assigned to that code; otherwise it is
default-created. -/
theorem C18_import_source (c' : Cfg) (hL : Extracted.colLogVertexMin ≤ c'.L) (ops' : List (List Item × Fault))
    (hok : WellTyped ops') (hs : Small c' ops') (r : ColRec) :
    (∀ r' ∈ (run c' ops').columns, r'.code = r.code → srcOf (.other c' (run c' ops')) r = some r'.offset) ∧
    (r.code ∉ (run c' ops').columns.map (·.code) → srcOf (.other c' (run c' ops')) r = none) :=
  import_source (run_inv c' hL ops' hok hs) r

/-! ## Non-vacuity: concrete histories meeting the hypotheses -/

/-- `logVertexCount = 4` (16 vertices, at most 8 columns), with the row-number slot -/
def exCfg : Cfg := { L := 4, rowNumber := true }

/-- three calls: a 1-byte column, then (int-like mutable, double-like) in one call, then a call that
fails while the codes are inserted -/
def exOps : List (List Item × Fault) :=
  [([⟨17, 1, 1, false⟩], .none), ([⟨300, 4, 4, true⟩, ⟨77, 8, 8, false⟩], .none), ([⟨900, 2, 2, false⟩], .insert)]

example : Extracted.colLogVertexMin ≤ exCfg.L := by decide
example : WellTyped exOps := by
  intro op hop it hit
  simp only [exOps, List.mem_cons, List.mem_nil_iff, or_false] at hop
  rcases hop with rfl | rfl | rfl <;> simp at hit <;> (try rcases hit with rfl | rfl) <;> (try subst hit) <;> decide
example : Small exCfg exOps := by
  show (exCfg.N + 1) * (exCfg.rowSlot + histWeight exOps) < H
  decide
example : (run exCfg exOps).columns = [⟨17, 8, 1, 1⟩, ⟨300, 12, 4, 4⟩, ⟨77, 16, 8, 8⟩] := by decide +kernel
example : (run exCfg exOps).totalSize = 24 ∧ (run exCfg exOps).alignment = 8 ∧ (run exCfg exOps).mutCount = 4 := by
  decide +kernel
example : contains exCfg (run exCfg exOps) 300 = some 12 ∧ contains exCfg (run exCfg exOps) 900 = none := by
  decide +kernel
-- the same code again: refused after all 256 code parameters
example : (add exCfg (run exCfg exOps) [⟨17, 2, 2, false⟩] .none).2 = .cannot := by decide +kernel
-- one column too many for `maxColumnCount = 8`
example : (add exCfg (run exCfg exOps) [⟨1, 1, 1, false⟩, ⟨2, 1, 1, false⟩, ⟨3, 1, 1, false⟩, ⟨4, 1, 1, false⟩,
    ⟨5, 1, 1, false⟩, ⟨6, 1, 1, false⟩] .none).2 = .tooMany := by decide +kernel
-- a failed row creation: the third construction throws, the first two items are destroyed again
example : createRaw (run exCfg exOps) .fresh (some 2) = ([.create 8, .create 12, .destroy 12, .destroy 8], false) := by
  decide +kernel

/-- an odd cycle that the fill accepts: for `L = 4` the codes 33, 49, 50 have the vertex pairs (1,2),
(1,3), (2,3); with offsets 4, 8, 12 the triangle is consistent (`4 + 8 = 12`, and twice the root
addend `2^63` vanishes modulo `2^64`), so the fourth column is added without advancing the code
parameter — the theorems above cover this case (they never assume the graph is acyclic) -/
def cycOps : List (List Item × Fault) :=
  [([⟨101, 4, 4, false⟩], .none), ([⟨33, 4, 4, false⟩], .none), ([⟨49, 4, 4, false⟩], .none), ([⟨50, 4, 4, false⟩], .none)]

example : (getVertices { L := 4 } 33 0, getVertices { L := 4 } 49 0, getVertices { L := 4 } 50 0) = ((1, 2), (1, 3), (2, 3)) := by
  decide +kernel
example : (run { L := 4 } cycOps).codeParam = 0 ∧ (run { L := 4 } cycOps).columns.map (·.offset) = [0, 4, 8, 12] ∧
    (run { L := 4 } cycOps).addends.getD 1 0 = 2 ^ 63 ∧ (run { L := 4 } cycOps).addends.getD 2 0 = 2 ^ 63 + 4 ∧
    (run { L := 4 } cycOps).addends.getD 3 0 = 2 ^ 63 + 8 := by
  decide +kernel
-- the same triangle with offsets 0, 4, 12 is inconsistent: the code parameter advances (parameters 1-3 still
-- give a triangle or a double edge, parameter 4 gives a path)
example : (run { L := 4 } [([⟨33, 4, 4, false⟩], .none), ([⟨49, 4, 4, false⟩], .none), ([⟨101, 4, 4, false⟩], .none),
    ([⟨50, 4, 4, false⟩], .none)]).codeParam = 4 := by
  decide +kernel

/-! ### The code itself, not only the hand-written model (T1b)

`Momo.Tr.*` are Lean definitions regenerated on every check by tools/translate.py from the *function bodies* in the
current headers (area Misc: tools/trspecs/Misc.py → `Momo/Translated/Misc.lean`; C++ integer semantics explicit: every
`size_t` `+ - * <<` reduced mod 2^64). Equivalences with the model: `Proof/TrEqMisc2Col.lean`. -/

/-- **GetVertices for the code as translated from DataColumn.h.** For `logVertexCount = L` with `4 ≤ L < 64` (the header
asserts `L < 16`), any code width, any 64-bit column code and every code parameter the retry loop can reach, the
translated `GetVertices` is the model's and returns two distinct vertices below `2^L`. -/
theorem C18_vertices_translated (c : Cfg) (hL : Extracted.colLogVertexMin ≤ c.L) (hL64 : c.L < 64) (code param : Nat)
    (hcode : code < 2 ^ 64) (hp : param ≤ Extracted.colMaxCodeParam) :
    Tr.col_GetVertices c.L c.codeBytes code param = getVertices c code param ∧
    (Tr.col_GetVertices c.L c.codeBytes code param).1 ≠ (Tr.col_GetVertices c.L c.codeBytes code param).2 ∧
    (Tr.col_GetVertices c.L c.codeBytes code param).1 < 2 ^ c.L ∧ (Tr.col_GetVertices c.L c.codeBytes code param).2 < 2 ^ c.L := by
  rw [TrEq.tr_getVertices c code param hL64 hcode]
  exact ⟨rfl, C18_vertices c hL code param hp⟩

/-- **`UIntMath<>::Ceil` as translated from Utility.h** (`value + mod` a `size_t`, `mod > 0`): the model's `ceil`, i.e. the
least multiple of the alignment that is not below the offset — "an offset that is aligned for its type". -/
theorem C18_ceil_translated (off al : Nat) (hal : 0 < al) (hw : off + al < 2 ^ 64) :
    Tr.um_Ceil off al = ceil off al ∧ Tr.um_Ceil off al % al = 0 ∧ off ≤ Tr.um_Ceil off al ∧ Tr.um_Ceil off al < off + al := by
  rw [TrEq.tr_um_ceil off al hal hw]
  exact ⟨rfl, ceil_mod off al, le_ceil off al hal, ceil_lt off al hal⟩

/-- **The layout step of `pvAddEdges` with the translated code.** One column of an `Add` call (model `newEdges`): the
edge joins the translated `GetVertices` of its code with the value `offset = Ceil(offset, alignment)` as translated, and the
running `offset` / `maxAlignment` advance by the translated `offset += size; maxAlignment = minmax(…).second` — as long as the
row stays below 2^64 bytes. -/
theorem C18_layout_step_translated (c : Cfg) (param : Nat) (it : Item) (its : List Item) (g : Adj) (off al : Nat)
    (hL : c.L < 64) (hcode : it.code < 2 ^ 64) (hal : 0 < it.align) (hw : off + it.align + it.size < 2 ^ 64) :
    newEdges c param (it :: its) g off al =
      newEdges c param its
        (addEdges g (Tr.col_GetVertices c.L c.codeBytes it.code param).1 (Tr.col_GetVertices c.L c.codeBytes it.code param).2
          (Tr.col_addEdges_align it.align off))
        (Tr.col_addEdges_advance it.size it.align (Tr.col_addEdges_align it.align off) al).1
        (Tr.col_addEdges_advance it.size it.align (Tr.col_addEdges_align it.align off) al).2 :=
  TrEq.newEdges_translated c param it its g off al hL hcode hal hw

/-- **Looking a column up with the translated code**: `pvGetOffset` = translated sum (64-bit wrap) of the two addends at the
translated vertices. Also the constants of the fill: root addend `1 << 63`, `maxColumnCount`, mutable-bit bytes. -/
theorem C18_lookup_translated (c : Cfg) (param : Nat) (a : Array Nat) (code : Nat) (hL1 : 1 ≤ c.L) (hL : c.L < 64) (hcode : code < 2 ^ 64) :
    getOffsetWith c param a code =
      Tr.col_pvGetOffset_sum (a.getD (Tr.col_GetVertices c.L c.codeBytes code param).1 0)
        (a.getD (Tr.col_GetVertices c.L c.codeBytes code param).2 0) ∧
    Tr.col_rootAddend = H ∧ Tr.col_maxColumnCount c.L = c.maxColumns ∧
    ∀ off, off + 7 < 2 ^ 64 → Tr.col_mutBytes off = mutBytes off :=
  ⟨TrEq.getOffsetWith_translated c param a code hL hcode, TrEq.tr_rootAddend, TrEq.tr_maxColumnCount c hL1 (by omega),
    fun off h => TrEq.tr_mutBytes off h⟩

example : (Tr.col_GetVertices 4 8 33 0, Tr.col_GetVertices 4 8 49 0, Tr.col_GetVertices 4 8 50 0) = ((1, 2), (1, 3), (2, 3)) := by decide
example : Tr.um_Ceil 13 8 = 16 ∧ Tr.col_addEdges_advance 4 8 16 2 = (20, 8) ∧ Tr.col_mutBytes 20 = 3 := by decide

/-! #### second wave (tools/trspecs/Wave2.py → `Momo/Translated/Wave2.lean`; equivalences: `Proof/TrEqWave2Col.lean`) -/

/-- **`pvGetOffset` as a whole, from the header text**: the two reads `mAddends[vertices.first]`, `mAddends[vertices.second]` and
their wrapping `size_t` sum, translated as one function from DataColumn.h and fed with the translated `GetVertices`, is the
lookup `getOffsetWith` the layout theorems are about. -/
theorem C18_getOffset_translated (c : Cfg) (param : Nat) (a : Array Nat) (code : Nat) (hL : c.L < 64) (hcode : code < 2 ^ 64) :
    Tr.col_pvGetOffset (fun i => a.getD i 0) (Tr.col_GetVertices c.L c.codeBytes code param).1
        (Tr.col_GetVertices c.L c.codeBytes code param).2 = getOffsetWith c param a code :=
  TrEq.tr_col_pvGetOffset c param a code hL hcode

example : Tr.col_pvGetOffset (fun i => if i = 1 then 2 ^ 63 else 2 ^ 63 + 24) 1 2 = 24 := by decide

end Momo.Col
