import Momo.Proof.ObjMain
import Momo.Proof.ArrFaultDone
import Momo.Proof.ArrSegFaultOps
import Momo.Proof.BTreeFaultCopy
import Momo.Proof.HTLedgerCons
import Momo.Proof.HTLedgerStrong
import Momo.Proof.MMLedgerSys
import Momo.Proof.MMLedgerRefine
/-!
# C04 — Strongly exception-safe operations leave the container unchanged on failure

Object level (this file): the building blocks every container uses to grow / insert with the strong
guarantee — `ObjectManager::RelocateCreate` (bucket and node growth, array reallocation) and
`CopyExec` (key-value pair creation) — for every relocation category, every element count and
EVERY fault schedule (`s.faults` is an arbitrary list of decisions, one per fallible step).
Container level: `Momo.HT.add`/`reserve` (Props/C11.lean, `C11_add_strong`), arrays (Props/C05.lean),
B-tree (Props/C02.lean).
-/
namespace Momo.Obj

/-- **C04, RelocateCreate.** If `RelocateCreate` exits with an exception — whichever copy or the
creator threw — every cell of memory is exactly as before (sources alive with their values, destination
and new slot raw), and the recorded construction/destruction trace is well-formed: nothing was
constructed over a live object, destroyed twice or used after destruction, and nothing is left over. -/
theorem C04_relocateCreate_strong {occ0 : Nat → Bool} (c : Cat) (s : St) (src dst count newAddr v : Nat)
    (ht : TraceOK occ0 s) (pre : Pre s src dst count newAddr)
    (hthrew : (relocateCreate c s src dst count newAddr v).2 = .threw) :
    (∀ x, (relocateCreate c s src dst count newAddr v).1.mem x = s.mem x) ∧
    TraceOK occ0 (relocateCreate c s src dst count newAddr v).1 :=
  ⟨(relocateCreate_spec c s src dst count newAddr v ht pre).2.1 hthrew,
   (relocateCreate_spec c s src dst count newAddr v ht pre).1⟩

/-- **C04/C03, RelocateCreate succeeds.** Every element now lives at its destination with its old
value, every source cell is raw again (relocated or destroyed exactly once), the new object exists. -/
theorem C04_relocateCreate_ok {occ0 : Nat → Bool} (c : Cat) (s : St) (src dst count newAddr v : Nat)
    (ht : TraceOK occ0 s) (pre : Pre s src dst count newAddr)
    (hok : (relocateCreate c s src dst count newAddr v).2 = .ok) :
    (∀ x, (relocateCreate c s src dst count newAddr v).1.mem x = relocated s.mem src dst count newAddr v x) ∧
    TraceOK occ0 (relocateCreate c s src dst count newAddr v).1 :=
  ⟨(relocateCreate_spec c s src dst count newAddr v ht pre).2.2 hok,
   (relocateCreate_spec c s src dst count newAddr v ht pre).1⟩

/-- **C04, CopyExec** (creation of a key together with its value): a failure of the key copy or of
the value creator leaves memory unchanged. -/
theorem C04_copyExec_strong {occ0 : Nat → Bool} (s : St) (src dst newAddr v : Nat) (ht : TraceOK occ0 s)
    (hs : s.mem src ≠ .raw) (hd : s.mem dst = .raw) (hn : s.mem newAddr = .raw) (hne : newAddr ≠ dst)
    (hthrew : (copyExec s src dst newAddr v).2 = .threw) :
    (∀ x, (copyExec s src dst newAddr v).1.mem x = s.mem x) ∧ TraceOK occ0 (copyExec s src dst newAddr v).1 :=
  ⟨(copyExec_spec s src dst newAddr v ht hs hd hn hne).2.1 hthrew, (copyExec_spec s src dst newAddr v ht hs hd hn hne).1⟩

/-! Non-vacuity: a concrete memory meeting `Pre`, a failing and a succeeding schedule. -/
def exMem : Mem := fun a => if 100 ≤ a ∧ a < 103 then .live (1000 + (a - 100)) else .raw
def exSt (faults : List Bool) : St := { mem := exMem, evs := [], faults := faults }

example : Pre (exSt [false, true]) 100 200 3 300 := by
  refine ⟨?_, ?_, ?_, ?_, ?_, ?_⟩ <;> simp [exSt, exMem] <;> omega
example : TraceOK (occOf exMem) (exSt [false, true]) := by simp [TraceOK, exSt, replay]
example : (relocateCreate .copyOnly (exSt [false, true]) 100 200 3 300 7).2 = .threw := by decide
example : (relocateCreate .copyOnly (exSt []) 100 200 3 300 7).2 = .ok := by decide
example : (relocateCreate .nmove (exSt [true]) 100 200 3 300 7).2 = .threw := by decide

end Momo.Obj

/-!
## Arrays: `momo::Array` / `ArrayIntCap` under every fault schedule (model `Momo/Model/ArrFault.lean`)

The operations of Array.h as written (`pvGrow`, `pvAddBackGrow` in its four overloads, `Data::Reallocate / Reset`,
`RelocateCreate`, `SetCountCrt`, `Shrink`, the constructors and `operator=(const Array&)`), where every fallible step -
`Allocate` / `Reallocate` of the memory manager, each element copy construction or creator call, construction from an
rvalue of a type that is not nothrow-move-constructible, copy / move assignment - consumes one decision of the fault
schedule `x.faults` (an arbitrary `List Bool`), and an exception unwinds through the catch blocks and guard destructors
of the source.  `x.arr` is the `Array::Data` (cells `live v | moved`, capacity, internal / external storage),
`x.blocks` / `x.objs` / `x.bad` the ledger of outstanding memory blocks and constructed-but-not-destroyed item objects.
`Valid cfg rest k x` = the array satisfies the representation invariant `Momo.Arr.WF` and the ledger is *exactly* what
the array owns (its block if the storage is external, one object per cell) plus the blocks `rest` and `k` objects of the
rest of the program; no bad deallocation / destruction has been seen.  `Post m x Q E` = running `m` from `x` either
completes in a state satisfying `Q` or throws in a state satisfying `E`.

Quantifiers: every configuration (`cfg`: internal capacity, relocation category of the item type, `Reallocate` /
`ReallocateInplace` support and answer, growth policy), every choice of which element operations can throw (`thr`),
every valid state (cells live or moved-from), every argument incl. a value argument that is element `j` of the same
array (`Ref.elem j`, the aliasing paths), every fault schedule.
-/
namespace Momo.ArrF
open Momo.Arr
variable {α : Type}

/-- **C04, arrays.** "If an operation the library documents as strongly exception-safe (… AddBack, resize, reserve,
shrink, copy … assignment …) exits with an exception raised by the memory manager, by an element's copy constructor or
constructor-from-arguments … then the container's observable contents, order and count are exactly those before the
call, nothing is leaked, and the container remains fully usable."  For `AddBack(const Item&)`, `AddBack(Item&&)`,
`AddBackCrt/AddBackVar` (lvalue or rvalue argument), `SetCount(count, item)`, `Reserve`, `Shrink`,
`operator=(const Array&)`: under EVERY fault schedule the call either completes with exactly the state of the fault-free
model `Momo.Arr` (itself valid, ledger exact), or throws with the array - cells, order, count, capacity, storage - and
the ledger exactly as before (`y.core = x.core`). -/
theorem C04_array_strong_every_fault (cfg : Cfg) (thr : Thr) (rest : List Nat) (k : Nat) (op : FOp α)
    (hop : op.strong = true) (x : Sys α) (v : Valid cfg rest k x) :
    Post (stepF cfg thr op) x
      (fun _ y => y.arr = (pureStep cfg x.arr op).1 ∧ Valid cfg rest k y)
      (fun y => y.arr = x.arr ∧ y.blocks = x.blocks ∧ y.objs = x.objs ∧ y.bad = x.bad) :=
  Post.mono (strong_step cfg thr rest k op hop x v (by cases op <;> simp [FOp.strong] at hop <;> trivial))
    (fun _ _ h => h) (fun y h => (core_eq_iff x y).mp h)

/-- **C04, "remains fully usable".** Whatever happened - success or exception - the state after a strong operation is
again a valid array with an exact ledger, i.e. it satisfies the hypothesis of every theorem of this section: any
operation can be applied to it. -/
theorem C04_array_usable_after (cfg : Cfg) (thr : Thr) (rest : List Nat) (k : Nat) (op : FOp α)
    (hop : op.strong = true) (x : Sys α) (v : Valid cfg rest k x) :
    Post (stepF cfg thr op) x (fun _ y => Valid cfg rest k y) (fun y => Valid cfg rest k y) :=
  Post.mono (strong_step cfg thr rest k op hop x v (by cases op <;> simp [FOp.strong] at hop <;> trivial))
    (fun _ _ h => h.2) (fun _ h => valid_of_core v h)

/-- **C04, constructors.** "A constructor that fails leaves nothing allocated and nothing constructed."
`Array(const Array&, bool shrink)` and `Array(count, item)`: under every fault schedule either the new object is the
fault-free one and the ledger gained exactly its block and one object per item, or the constructor throws and the
ledger is as it was; in particular an empty ledger stays empty. -/
theorem C04_array_constructor_clean (cfg : Cfg) (thr : Thr) (src : State α) (shrinkFlag : Bool) (count : Nat) (c : Cell α)
    (x : Sys α) (w : WF cfg src) :
    Post (copyCtorF cfg thr src shrinkFlag) x
      (fun _ y => y.arr = (copyCtor cfg src shrinkFlag).1 ∧ WF cfg y.arr ∧
        y.blocks = ownBlocks cfg y.arr ++ x.blocks ∧ y.objs = x.objs + y.arr.cells.length ∧ y.bad = x.bad)
      (fun y => y.blocks = x.blocks ∧ y.objs = x.objs ∧ y.bad = x.bad ∧
        (x.blocks = [] → x.objs = 0 → y.blocks = [] ∧ y.objs = 0)) ∧
    Post (newFillF cfg thr count c) x
      (fun _ y => y.arr = (newFill cfg count c).1 ∧ WF cfg y.arr ∧
        y.blocks = ownBlocks cfg y.arr ++ x.blocks ∧ y.objs = x.objs + y.arr.cells.length ∧ y.bad = x.bad)
      (fun y => y.blocks = x.blocks ∧ y.objs = x.objs ∧ y.bad = x.bad ∧
        (x.blocks = [] → x.objs = 0 → y.blocks = [] ∧ y.objs = 0)) := by
  refine ⟨Post.mono (ctor_step cfg thr _ src.cells x ?_) (fun _ _ h => h) ?_,
    Post.mono (ctor_step cfg thr count (List.replicate count c) x (by simp)) (fun _ _ h => h) ?_⟩
  · split
    · exact Nat.le_refl _
    · exact w.count_le
  · rintro y ⟨h1, h2, h3⟩; exact ⟨h1, h2, h3, fun a b => ⟨h1.trans a, h2.trans b⟩⟩
  · rintro y ⟨h1, h2, h3⟩; exact ⟨h1, h2, h3, fun a b => ⟨h1.trans a, h2.trans b⟩⟩

/-- **C04, the fault-free run.** With an exhausted fault schedule (nothing fails) every operation - strong or basic -
completes, and the result is the state of the fault-free model `Momo.Arr` (which Props/C05.lean relates to the reference
sequence), valid, with an exact ledger: the "completes" branch of the theorems above is the one taken when nothing
throws. -/
theorem C04_array_no_fault_completes (cfg : Cfg) (thr : Thr) (rest : List Nat) (k : Nat) (op : FOp α)
    (x : Sys α) (v : Valid cfg rest k x) (hpre : op.pre cfg x.arr) (hf : x.faults = []) :
    ∃ y, (stepF cfg thr op).run x = (.ok (), y) ∧ y.arr = (pureStep cfg x.arr op).1 ∧ Valid cfg rest k y :=
  nofault_step cfg thr rest k op x v hpre hf

/-! Non-vacuity: a valid `ArrayIntCap<2>`-like state of a copy-only item type at full capacity, with the first item
moved-from; concrete schedules that fail at each kind of step and one that succeeds. -/
def exCfg : Cfg := { intCap := 2, keeps := true, nothrowReloc := false, nothrowMove := false }
def exThr : Thr := { copy := true, move := true, assign := true }
def exSys (faults : List Bool) : Sys Nat :=
  { arr := { cells := [.moved, .live 11, .live 12, .live 13], cap := 4 }, faults := faults, blocks := [4, 99], objs := 4 + 5 }
def outcome {β : Type} (r : Res β × Sys Nat) : Bool × Cells Nat × Nat × List Nat × Nat × Bool :=
  (match r.1 with | .ok _ => true | .threw => false, r.2.arr.cells, capacity exCfg r.2.arr, r.2.blocks, r.2.objs, r.2.bad)

example : Valid exCfg [99] 5 (exSys []) := by
  refine ⟨⟨by decide, ?_, ?_, ?_⟩, by unfold Frame; decide, by decide, rfl⟩ <;> simp [exSys, exCfg]
/-- `AddBack(array[1])` has to grow: the allocation is refused -/
example : outcome ((stepF exCfg exThr (.addBackCopy (.elem 1))).run (exSys [true]))
    = (false, [.moved, .live 11, .live 12, .live 13], 4, [4, 99], 9, false) := by decide
/-- the third copy into the new storage throws: copies destroyed, new block returned -/
example : outcome ((stepF exCfg exThr (.addBackCopy (.elem 1))).run (exSys [false, false, false, true]))
    = (false, [.moved, .live 11, .live 12, .live 13], 4, [4, 99], 9, false) := by decide
/-- the creator of the new item throws after all four copies -/
example : outcome ((stepF exCfg exThr (.addBackCopy (.elem 1))).run (exSys [false, false, false, false, false, true]))
    = (false, [.moved, .live 11, .live 12, .live 13], 4, [4, 99], 9, false) := by decide
/-- no fault: the fault-free result, one more object, the old block replaced by the new one -/
example : outcome ((stepF exCfg exThr (.addBackCopy (.elem 1))).run (exSys []))
    = (true, [.moved, .live 11, .live 12, .live 13, .live 11], 8, [8, 99], 10, false) := by decide
example : (pureStep exCfg (exSys []).arr (.addBackCopy (.elem 1))).1.cells = [.moved, .live 11, .live 12, .live 13, .live 11] := by
  decide
/-- a failing copy constructor: the three items already copied are destroyed, the block is returned -/
example : outcome ((copyCtorF exCfg exThr (exSys []).arr true).run { (exSys [false, false, false, false, true]) with blocks := [], objs := 0 })
    = (false, [], 2, [], 0, false) := by decide

end Momo.ArrF

/-! # B-tree family (`momo::TreeSet` / `momo::TreeMap`): the strong guarantee under every fault schedule

Model: `Momo/Model/BTreeFault.lean` — the fault-parametric layer over the B-tree model of C02: every call of the comparison
functor, every `MemManager::Allocate` (node-params block, `Node::Create`, growth of the Relocator's four bookkeeping arrays,
crew block), every element construction (creator, the copies of a not-nothrow-relocatable relocation) and every element
assignment of `Replace` consults an explicit schedule `S : Sched`; a ledger counts live leaf / internal nodes, items,
bookkeeping blocks, params and crew blocks. The theorems hold for EVERY schedule, every configuration (`maxCap ≥ 1`, any
capacity step, linear or binary search, unique or multi), every item category `ic` (nothrow relocatable or not, nothrow
assignable or not), every well-formed container (`FTree.WF`: the invariant of C02 + "a root exists only with its params")
and every position / key. Lemmas: `Momo/Proof/BTreeFault*.lean`. -/
namespace Momo.BTreeF
open Momo.BTree Momo.BTree.Node
variable {α : Type}

/-- **The Relocator never leaks** (`CreateNode` reserves the slot in `mNewNodes` before `Node::Create`, `~Relocator`
destroys what is registered): for EVERY sequence of `mOldNodes.AddBack` / `CreateNode` / `AddSegment` calls — not only
those `pvAdd` makes — and every schedule, whichever step throws, the destructor returns the ledger to what it was when
the Relocator was constructed. -/
theorem C04_tree_relocator_restores (S : Sched) (plan : List PStep) (w : W) :
    ((Reloc.run S plan {} w).2.1.destroy (Reloc.run S plan {} w).2.2).led = w.led :=
  relocRun_destroy S plan w

/-- **Insert / InsertVar / emplace, map insertion and subscript insertion** (`pvInsert` with a constructing creator:
search with a throwing `IsLess`, `pvAddFirst`, in-place add, `pvAddGrow`, `pvAddSplit` with its cascade up to a new root).
If the call exits with an exception — thrown by a comparison, by the memory manager at any of its allocations, by a copy
of a relocation or by the item's own constructor — the tree is *the same tree* (same nodes, hence same contents, order and
count), the ledger is unchanged except that the node-params block of a container that had no root may now exist (it is
owned and holds no node), and the container satisfies its invariant. If it returns, tree, iterator and `inserted` are those
of the fault-free model (`C02_insert_stable` says what they are). In both cases the ledger moved exactly with what the
container owns (`Frame`): nothing leaked. -/
theorem C04_tree_insert_strong (S : Sched) (ic : ICfg α) (cfg : Cfg) (hmax : 0 < cfg.maxCap) (lt : α → α → Bool)
    (ho : Order lt) (ft : FTree α) (hw : ft.WF cfg) (hs : SortedBy lt cfg.multi ft.tree.toList) (x : α) (w : W)
    {t : Bool} {s : Unit} {ft' : FTree α} {p : Pos} {ins : Bool} {w' : W}
    (h : insertF S ic cfg lt ft x (copyCreator S) () w = (t, s, ft', p, ins, w')) :
    (t = true → ft'.tree = ft.tree ∧ w'.led = w.led + (ft'.nodeLed - ft.nodeLed) ∧
        (ft.tree.root ≠ none → ft' = ft ∧ w'.led = w.led)) ∧
    (t = false → ft'.tree = (Tree.insert lt cfg ft.tree x).1 ∧ p = (Tree.insert lt cfg ft.tree x).2.1 ∧
        ins = (Tree.insert lt cfg ft.tree x).2.2) ∧
    ft'.WF cfg ∧ Frame w ft w' ft' := by
  obtain ⟨a1, a2, a3⟩ := insertF_spec S ic cfg hmax lt ho ft hw hs x (copyCreator S) () _ (copyCreator_spec S) w h
  refine ⟨fun ht => ?_, fun ht => ⟨(a2 ht).1, (a2 ht).2.1, (a2 ht).2.2.1⟩, a3, insertF_frame S ic cfg hmax lt ho ft hw hs x w h⟩
  obtain ⟨e1, e2⟩ := a1 ht
  refine ⟨e1, e2, fun hr => ?_⟩
  have hp : ft'.params = ft.params := by rw [hw.params hr, a3.params (by rw [e1]; exact hr)]
  have hft : ft' = ft := by cases ft; cases ft'; simp_all
  subst hft
  exact ⟨rfl, by rw [e2]; apply Ledger.ext' <;> simp⟩

/-- **Add(iter, item) / AddVar / AddCrt** (`pvAdd` at a hint, any valid iterator incl. `GetEnd()` and iterators into internal
nodes): the same statement for the hinted insertion. -/
theorem C04_tree_add_strong (S : Sched) (ic : ICfg α) (cfg : Cfg) (hmax : 0 < cfg.maxCap) (ft : FTree α) (hw : ft.WF cfg)
    (pos : Pos) (hv : ft.tree.ValidPos pos) (x : α) (w : W) {t : Bool} {s : Unit} {ft' : FTree α} {p : Pos} {w' : W}
    (h : addF S ic cfg ft pos x (copyCreator S) () w = (t, s, ft', p, w')) :
    (t = true → ft'.tree = ft.tree ∧ w'.led = w.led + (ft'.nodeLed - ft.nodeLed)) ∧
    (t = false → ft'.tree = (ft.tree.add cfg pos x).1 ∧ p = (ft.tree.add cfg pos x).2) ∧
    ft'.WF cfg ∧ Frame w ft w' ft' := by
  obtain ⟨a1, a2, a3⟩ := addF_spec S ic cfg hmax ft hw pos hv x (copyCreator S) () _ (copyCreator_spec S) w h
  exact ⟨a1, fun ht => ⟨(a2 ht).1, (a2 ht).2.1⟩, a3, addF_frame S ic cfg hmax ft hw pos hv x w h⟩

/-- **Remove(iter) and Extract(iter) / Remove(iter, extItem)** (`pvRemove`: leaf item, internal item replaced by its
predecessor through `Replace` / `ReplaceRelocate`, empty left subtree destroyed; then `pvRebalance`). If the call exits with
an exception — the copy of the extracted item into the handle or the assignment of `Replace` threw — and the item type is
not the documented exception 5 of TreeMap.h (`unsafeRepl`: key and value both not nothrow-anyway-assignable), container and
ledger are exactly as before. If it returns — also when node merges of `pvRebalance` were refused by faults its
`catch (...)` swallows — the in-order list lost exactly that element, the invariant holds, the returned iterator denotes the
same index, and the ledger moved by the node difference and by the destroyed item (an extracted item lives on in the
handle). Without construction / assignment faults the result is the fault-free removal, node for node. -/
theorem C04_tree_remove_strong (S : Sched) (ic : ICfg α) (cfg : Cfg) (mode : RemMode) (ft : FTree α) (hw : ft.WF cfg)
    (pos : Pos) (hv : ft.tree.ValidElem pos) (w : W) {t : Bool} {ft' : FTree α} {p : Pos} {w' : W}
    (h : removeF S ic cfg mode ft pos w = (t, ft', p, w')) :
    (t = true → w'.led = w.led ∧ (ic.unsafeRepl = false → ft' = ft)) ∧
    (t = false →
      ft'.tree.toList = ft.tree.toList.eraseIdx (ft.tree.idxOf pos) ∧ ft'.WF cfg ∧
      ft'.tree.idxOf p = ft.tree.idxOf pos ∧ ft'.tree.ValidPos p ∧
      w'.led = w.led + (ft'.nodeLed - ft.nodeLed) + Ledger.ofItems (itemsDelta mode)) ∧
    (S.NoCtor → S.NoRepl → t = false ∧ ft'.tree = (ft.tree.remove cfg pos).1 ∧ p = (ft.tree.remove cfg pos).2) :=
  removeF_spec S ic cfg mode ft hw pos hv w h

/-- **Copy construction (and thereby copy assignment = copy + swap).** A constructor that fails — crew block, node-params
block, any `Node::Create` of the pre-order `pvCopy`, any element copy — leaves the ledger exactly as it was: nothing
allocated, nothing constructed (the `catch (...)` of every `pvCopy` level destroys the items and children copied so far, the
destructor that runs after the delegating constructor's body threw releases params and crew). A constructor that returns
made the fault-free copy (`C02_copy`: same sequence, well-formed) and the ledger grew by exactly what the new container
owns plus its crew block. The source is not touched (it is not even an output of `copyF`). -/
theorem C04_tree_copy_strong (S : Sched) (ic : ICfg α) (cfg : Cfg) (src : FTree α) (hw : src.WF cfg) (w : W)
    {t : Bool} {ft' : FTree α} {w' : W} (h : copyF S ic cfg src w = (t, ft', w')) :
    (t = true → w'.led = w.led) ∧
    (t = false → ft'.tree = Tree.copy cfg src.tree ∧ ft'.WF cfg ∧
      w'.led = w.led + ft'.own + ({ crews := if ic.crewAlloc then 1 else 0 } : Ledger)) ∧
    (S.NoAlloc → S.NoCtor → t = false) :=
  copyF_spec S ic cfg src hw w h

/-- **The container remains fully usable.** After a failed insertion the container is well-formed with the old tree; the
same (or any other) insertion run without faults returns and gives exactly what the fault-free model gives *on the original
tree*. (For removal: `C04_tree_remove_strong` returns the very same container, so there is nothing to add.) -/
theorem C04_tree_usable_after (S S' : Sched) (hc' : S'.Clean) (ic : ICfg α) (cfg : Cfg) (hmax : 0 < cfg.maxCap)
    (lt : α → α → Bool) (ho : Order lt) (ft : FTree α) (hw : ft.WF cfg) (hs : SortedBy lt cfg.multi ft.tree.toList)
    (x y : α) (w : W) {s : Unit} {ft' : FTree α} {p : Pos} {ins : Bool} {w' : W}
    (h : insertF S ic cfg lt ft x (copyCreator S) () w = (true, s, ft', p, ins, w')) (w2 : W) :
    (insertF S' ic cfg lt ft' y (copyCreator S') () w2).1 = false ∧
    (insertF S' ic cfg lt ft' y (copyCreator S') () w2).2.2.1.tree = (Tree.insert lt cfg ft.tree y).1 ∧
    (insertF S' ic cfg lt ft' y (copyCreator S') () w2).2.2.2.2.1 = (Tree.insert lt cfg ft.tree y).2.2 := by
  obtain ⟨a1, _, a3⟩ := insertF_spec S ic cfg hmax lt ho ft hw hs x (copyCreator S) () _ (copyCreator_spec S) w h
  obtain ⟨e1, _⟩ := a1 rfl
  have hok : CreatorOk (copyCreator S') := by
    intro w0; simp [copyCreator, hc'.ctor w0.ctorN]
  have hfalse := insertF_ok S' hc'.cmp hc'.alloc hc'.ctor ic cfg lt ft' a3 y (copyCreator S') () hok w2
  cases hi : insertF S' ic cfg lt ft' y (copyCreator S') () w2 with
  | mk t2 rest =>
    obtain ⟨s2, ft2, p2, ins2, w3⟩ := rest
    rw [hi] at hfalse
    simp only at hfalse
    subst hfalse
    obtain ⟨_, b2, _⟩ := insertF_spec S' ic cfg hmax lt ho ft' a3 (by rw [e1]; exact hs) y (copyCreator S') () _
      (copyCreator_spec S') w2 hi
    obtain ⟨c1, _, c3, _⟩ := b2 rfl
    rw [e1] at c1 c3
    exact ⟨rfl, c1, c3⟩

/-! Non-vacuity: a capacity-1 tree of three levels (so that an insertion cascades, needs a new root and makes the Relocator's
`mNewNodes` leave its internal storage), concrete schedules that fail at an allocation, at a comparison, at the creator, and
one that does not fail; the documented exception 5 as a concrete witness. -/
def x4Lt (a b : Nat × Nat) : Bool := a.1 < b.1
def x4Cfg : Cfg := { maxCap := 1, step := 1, blockGt1 := false, linear := true, multi := false }
def x4Ic : ICfg (Nat × Nat) := { reloc := false, assign := false }
/-- keys 1..7, every node full -/
def x4Root : Node (Nat × Nat) :=
  inner [(4, 4)] [inner [(2, 2)] [leaf 1 [(1, 1)], leaf 1 [(3, 3)]], inner [(6, 6)] [leaf 1 [(5, 5)], leaf 1 [(7, 7)]]]
def x4Ft : FTree (Nat × Nat) := { tree := { root := some x4Root, count := 7 }, params := true }
def x4W : W := { led := { leaves := 4, inners := 3, items := 7, params := 1 } }
def x4Fail (kind : Nat) (k : Nat) : Sched :=
  { cmp := fun i => kind == 0 && i == k, alloc := fun i => kind == 1 && i == k, ctor := fun i => kind == 2 && i == k,
    repl := fun i => kind == 3 && i == k, filt := fun _ => false }
def x4Out (r : Bool × Unit × FTree (Nat × Nat) × Pos × Bool × W) : Bool × List (Nat × Nat) × Ledger :=
  (r.1, r.2.2.1.tree.toList, r.2.2.2.2.2.led)

example : x4Ft.WF x4Cfg := by
  refine ⟨⟨by decide, ?_, ?_⟩, fun _ => rfl⟩
  · intro r hr; cases hr
    exact ⟨2, Bal.inner 1 _ _ rfl (by
      intro c hc; simp only [List.mem_cons, List.not_mem_nil, or_false] at hc
      rcases hc with rfl | rfl <;> exact Bal.inner 0 _ _ rfl (by
        intro c hc; simp only [List.mem_cons, List.not_mem_nil, or_false] at hc
        rcases hc with rfl | rfl <;> exact Bal.leaf _ _))⟩
  · intro r hr; cases hr
    exact Caps.inner _ _ (by decide) (by
      intro c hc; simp only [List.mem_cons, List.not_mem_nil, or_false] at hc
      rcases hc with rfl | rfl <;> exact Caps.inner _ _ (by decide) (by
        intro c hc; simp only [List.mem_cons, List.not_mem_nil, or_false] at hc
        rcases hc with rfl | rfl <;> exact Caps.leaf _ _ (by decide) (by decide)))
/-- inserting key 8 splits three levels and needs a new root: 7 node creations; the 5th one also needs a heap block for
    `mNewNodes`. The 8th allocation (the new root) refused: everything rolled back. -/
example : x4Out (insertF (x4Fail 1 7) x4Ic x4Cfg x4Lt x4Ft (8, 8) (copyCreator (x4Fail 1 7)) () x4W)
    = (true, [(1, 1), (2, 2), (3, 3), (4, 4), (5, 5), (6, 6), (7, 7)], x4W.led) := by decide +kernel
/-- the 4th comparison of the search throws -/
example : x4Out (insertF (x4Fail 0 3) x4Ic x4Cfg x4Lt x4Ft (8, 8) (copyCreator (x4Fail 0 3)) () x4W)
    = (true, [(1, 1), (2, 2), (3, 3), (4, 4), (5, 5), (6, 6), (7, 7)], x4W.led) := by decide +kernel
/-- the 3rd copy of the relocation (items are copy-only here) throws: the two copies made are destroyed, the 7 new nodes too -/
example : x4Out (insertF (x4Fail 2 2) x4Ic x4Cfg x4Lt x4Ft (8, 8) (copyCreator (x4Fail 2 2)) () x4W)
    = (true, [(1, 1), (2, 2), (3, 3), (4, 4), (5, 5), (6, 6), (7, 7)], x4W.led) := by decide +kernel
/-- no fault: one more level, 4 nodes more (7 created, 3 retired) -/
example : x4Out (insertF Sched.clean x4Ic x4Cfg x4Lt x4Ft (8, 8) (copyCreator Sched.clean) () x4W)
    = (false, [(1, 1), (2, 2), (3, 3), (4, 4), (5, 5), (6, 6), (7, 7), (8, 8)],
       { leaves := 5, inners := 6, items := 8, params := 1 }) := by decide +kernel
/-- removal of the root item (internal: the predecessor 3 replaces it through `Replace`) with a throwing assignment -/
example : (removeF (x4Fail 3 0) x4Ic x4Cfg .destroy x4Ft ⟨[], 0⟩ x4W).1 = true ∧
    (removeF (x4Fail 3 0) x4Ic x4Cfg .destroy x4Ft ⟨[], 0⟩ x4W).2.1.tree.toList = x4Ft.tree.toList := by decide +kernel
/-- **documented exception 5** (TreeMap.h): with `pvReplaceUnsafe` the second assignment throwing leaves the removed
    element's value overwritten — the hypothesis `unsafeRepl = false` of `C04_tree_remove_strong` is needed -/
example : (removeF (x4Fail 3 1) { x4Ic with unsafeRepl := true, mix := fun s d => (d.1, s.2) } x4Cfg .destroy x4Ft ⟨[], 0⟩ x4W).1 = true ∧
    (removeF (x4Fail 3 1) { x4Ic with unsafeRepl := true, mix := fun s d => (d.1, s.2) } x4Cfg .destroy x4Ft ⟨[], 0⟩ x4W).2.1.tree.toList
      = [(1, 1), (2, 2), (3, 3), (4, 3), (5, 5), (6, 6), (7, 7)] := by decide +kernel
/-- a failing copy constructor (the 5th node cannot be created): nothing is left -/
example : (copyF (x4Fail 1 6) x4Ic x4Cfg x4Ft x4W).1 = true ∧ (copyF (x4Fail 1 6) x4Ic x4Cfg x4Ft x4W).2.2.led = x4W.led := by
  decide +kernel

end Momo.BTreeF

/-!
## `momo::SegmentedArray` under every fault schedule (model `Momo/Model/ArrSegFault.lean`)

`AddBackCrt / AddBack`, `SetCount(count, item)` (`pvIncCount / pvDecCount`), `Reserve` (`pvIncCapacity / pvDecCapacity`),
`Shrink` as written in SegmentedArray.h; the segment-pointer array `mSegments` is the `Array<Item*>` of the model above
(its `Reserve` / `Shrink` run through `Momo.ArrF.reserveF / shrinkF`), segments are never reallocated.
`SValid cfg k x`: `mSegments` satisfies the `Array` invariant, `mCount` is within the capacity of the allocated segments,
the outstanding item segments are exactly the segments `0 .. segCount)` (as a multiset of sizes), the outstanding blocks
of the pointer array exactly the block `mSegments` owns, as many item objects exist as the array has items (+ `k`),
nothing was deallocated or destroyed twice.  Both sizings (`cnst`, `sqrt`) and every `logInitialItemCount` (the sizing
laws are those proved for C16).
-/
namespace Momo.ArrF.Seg
open Momo.Arr Momo.Arr.Seg Momo.ArrF
variable {α : Type}

/-- **C04, SegmentedArray.** `AddBack` / `AddBackVar` (lvalue or rvalue argument, also an element of the same array),
`SetCount(count, item)`, `Reserve`: under EVERY fault schedule the call either completes with the state of the fault-free
model `Momo.Arr.Seg` (valid, ledger exact) or throws with the items - contents, order, count - and the segments exactly
as before, in a valid state with exact ledger (the only thing that may differ is the capacity of the pointer array,
which `mSegments.Reserve` may have enlarged before the segment allocation failed: owned, not leaked, not observable
through `GetCapacity()`). -/
theorem C04_segarray_strong_every_fault (cfg : SCfg) (thr : Thr) (k : Nat) (op : SOp α) (hop : op.strong = true)
    (hns : ∀ n, op ≠ .shrink n) (x : SSys α) (v : SValid cfg k x) :
    SPost (stepS cfg thr op) x
      (fun _ y => y.st = (pureStepS cfg x.st op).1 ∧ SValid cfg k y)
      (fun y => y.cells = x.cells ∧ y.segs.cells = x.segs.cells ∧ SValid cfg k y) :=
  strong_stepS cfg thr k op hop hns x v

/-- **C04, `SegmentedArray::Shrink` is `noexcept`**: under every fault schedule it completes (a failure of
`mSegments.Shrink()` is swallowed), the items are untouched and the array is valid with an exact ledger. -/
theorem C04_segarray_shrink_never_throws (cfg : SCfg) (k : Nat) (n : Nat) (x : SSys α) (v : SValid cfg k x) :
    SPost (shrinkOpF cfg n) x (fun _ y => y.cells = x.cells ∧ SValid cfg k y) (fun _ => False) :=
  shrinkOpF_spec cfg k n x v

/-! Non-vacuity: constant sizing with segments of 2 items, 3 items in 2 segments, pointer array of capacity 4. -/
def exCfgS : SCfg := { lay := { sqrt := false, L := 1 } }
def exSysS (faults : List Bool) : SSys Nat :=
  { cells := [.live 10, .live 11, .live 12], segs := { cells := [.live 0, .live 1], cap := 4 }, faults := faults,
    sblocks := [2, 2], pblocks := [4], objs := 3 }
def outcomeS {β : Type} (r : Res β × SSys Nat) : Bool × Cells Nat × Nat × List Nat × List Nat × Nat × Bool :=
  (match r.1 with | .ok _ => true | .threw => false, r.2.cells, r.2.segs.cells.length, r.2.sblocks, r.2.pblocks, r.2.objs, r.2.bad)

example : SValid exCfgS 0 (exSysS []) := by
  refine ⟨⟨⟨by decide, ?_, ?_, ?_⟩, ?_, by decide, rfl⟩, by decide, by decide⟩
  · intro _ _; decide
  · intro h; simp [exSysS] at h
  · intro _ h; simp [exSysS] at h
  · show List.Perm [2, 2] (segSizes exCfgS 2)
    have : segSizes exCfgS 2 = [2, 2] := by decide
    rw [this]
/-- `SetCount(7, array[0])`: two more segments are needed; the second segment allocation is refused: the first new
    segment is returned, nothing else changes -/
example : outcomeS ((stepS exCfgS {} (.setCount 7 (.elem 0))).run (exSysS [false, true]))
    = (false, [.live 10, .live 11, .live 12], 2, [2, 2], [4], 3, false) := by decide
/-- the third new item's copy constructor throws: the two items built are destroyed, both new segments returned -/
example : outcomeS ((stepS exCfgS {} (.setCount 7 (.elem 0))).run (exSysS [false, false, false, false, true]))
    = (false, [.live 10, .live 11, .live 12], 2, [2, 2], [4], 3, false) := by decide
example : outcomeS ((stepS exCfgS {} (.setCount 7 (.elem 0))).run (exSysS []))
    = (true, [.live 10, .live 11, .live 12, .live 10, .live 10, .live 10, .live 10], 4, [2, 2, 2, 2], [4], 7, false) := by decide

end Momo.ArrF.Seg

/-!
# C04 for the hash family: `momo::HashSet` / `momo::HashMap` with the ledger (model `Momo/Model/HTLedger.lean`)

`Props/C11.lean` (`C11_add_every_fault_partial`, `C11_reserve_every_fault_partial`) states the strong guarantee of the hash-table
model on the TABLE. This section adds what C04 says besides: "… nothing is leaked, and the container remains fully usable. A
constructor that fails leaves nothing allocated and nothing constructed." Every operation of the ledger layer runs under an
explicit fault record `f : Flt` (throwing hash / equality functor in the lookup, refused bucket array, refused `BucketParams`,
refused crew block, throwing creator / copy / `AddCrt`, throwing assignment of `Replace`, migration stopped anywhere, copy
construction failing after any number of items) and emits every manager call and element life-cycle event; `Led w B E` = the
verified monitor `Ledger.run` has accepted all events of the world `w` and holds exactly the blocks `B` and the element objects
`E`. `FB` / `FE` = whatever else is on the ledger (the other container, the node handle): arbitrary.

Every theorem: for EVERY configuration (every bucket description, relocation category, sizes), hash function, container state
with well-formed books (`BooksOK`: what every history reaches, `step_ok`), item, fault record. A failing operation returns
`st' = st`: the SAME container - table (hence contents, order, count, capacity, generations), books of blocks and of element
objects - and a ledger that holds exactly the blocks and element objects it held: the memory-manager part is unchanged without
exception for the open-addressing kinds and One; for the chained kinds (LimP4 / LimP / LimP1 / UnlimP) the pools may in addition
have obtained buffers (`stepT` books them as the operation's pool traffic `PoolT`: `St.bufs`, owned by the pools of the
`BucketParams` block, given back by `Clear` / the destructor - `C04_hash_pool_traffic`).
-/
namespace Momo.HTL
open Momo Momo.HT Momo.Ledger

/-- **`pvAdd`: `Add(pos, …)` / `AddVar` / `AddCrt`, and the adding half of every insertion** (creator = construction from arguments
/ copy / move, or relocation out of an `ExtractedItem`: `CrSpec`). If it exits with an exception - the bucket array is refused
and there is no table to fall back to, the `BucketParams` block is refused (the array just obtained goes back), the creator /
copy / `AddCrt` throws (a new bucket array and a new `BucketParams` block go back: `newBuckets->Destroy(…, !hasBuckets)`), the
table is full - then the container is the same and the ledger holds exactly what it held. If it returns - whatever happened to
the migration that follows - the ledger holds exactly the new books and they are well-formed. -/
theorem C04_hash_add_strong (cfg : Cfg) (hf : Nat → Nat) (st : St) (it : Item) (cr : Creator) (f : Flt) (w : W)
    (FB : List Blk) (FE FE' : List Nat) (hb : BooksOK st) (hcr : CrSpec (cr.run cfg) FE FE')
    (h : Led w (st.blocks cfg ++ FB) (st.elems ++ FE)) :
    ((addL cfg hf st it cr f w).2.2 ≠ .ok →
      (addL cfg hf st it cr f w).1 = st ∧ Led (addL cfg hf st it cr f w).2.1 (st.blocks cfg ++ FB) (st.elems ++ FE)) ∧
    ((addL cfg hf st it cr f w).2.2 = .ok →
      Led (addL cfg hf st it cr f w).2.1 ((addL cfg hf st it cr f w).1.blocks cfg ++ FB)
        ((addL cfg hf st it cr f w).1.elems ++ FE') ∧ BooksOK (addL cfg hf st it cr f w).1) :=
  addL_led cfg hf st it cr f w FB FE FE' hb hcr h

/-- **Insert / InsertVar / InsertCrt / emplace, map insertion and map-subscript insertion, `Insert(ExtractedItem&&)`** (`pvInsert` =
`pvFind` + `pvAdd`): the same, including a hash or equality functor that throws in the lookup. (`.done .ok` is the only result
that changes anything; `.no` = the key was there, `.user` = the functor threw.) -/
theorem C04_hash_insert_strong (cfg : Cfg) (hf : Nat → Nat) (st : St) (it : Item) (cr : Creator) (f : Flt) (w : W)
    (FB : List Blk) (FE FE' : List Nat) (hb : BooksOK st) (hcr : CrSpec (cr.run cfg) FE FE')
    (h : Led w (st.blocks cfg ++ FB) (st.elems ++ FE)) :
    ((insertL cfg hf st it cr f w).2.2 ≠ .done .ok →
      (insertL cfg hf st it cr f w).1 = st ∧ Led (insertL cfg hf st it cr f w).2.1 (st.blocks cfg ++ FB) (st.elems ++ FE)) ∧
    ((insertL cfg hf st it cr f w).2.2 = .done .ok →
      Led (insertL cfg hf st it cr f w).2.1 ((insertL cfg hf st it cr f w).1.blocks cfg ++ FB)
        ((insertL cfg hf st it cr f w).1.elems ++ FE') ∧ BooksOK (insertL cfg hf st it cr f w).1) :=
  insertL_led cfg hf st it cr f w FB FE FE' hb hcr h

/-- the two creators of the library satisfy `CrSpec`: a constructing creator adds one fresh element object; the creator of
`Insert(ExtractedItem&&)` relocates the handle's object `e` (which leaves the frame) -/
theorem C04_hash_creators (cfg : Cfg) (e : Nat) (FE FE' : List Nat) (hp : FE.Perm (e :: FE')) :
    CrSpec (Creator.fresh.run cfg) FE FE ∧ CrSpec ((Creator.handle e).run cfg) FE FE' :=
  ⟨crSpec_fresh cfg FE, crSpec_handle cfg e FE FE' hp⟩

/-- **Remove(key) / Remove(pos) / Remove(iter)**: a removal that exits with an exception - the functor threw in the lookup, or the
assignment inside `ObjectManager::Replace` threw (items that are not nothrow-anyway-assignable) - has changed nothing and has not
emitted a single event. Otherwise the ledger holds exactly the new books. -/
theorem C04_hash_remove_strong (cfg : Cfg) (hf : Nat → Nat) (st : St) (k : Nat) (f : Flt) (w : W) (FB : List Blk) (FE : List Nat)
    (hb : BooksOK st) (h : Led w (st.blocks cfg ++ FB) (st.elems ++ FE)) :
    ((removeKeyL cfg hf st k f w).2.2 ≠ .done .ok → (removeKeyL cfg hf st k f w).1 = st ∧ (removeKeyL cfg hf st k f w).2.1 = w) ∧
    Led (removeKeyL cfg hf st k f w).2.1 ((removeKeyL cfg hf st k f w).1.blocks cfg ++ FB)
      ((removeKeyL cfg hf st k f w).1.elems ++ FE) ∧ BooksOK (removeKeyL cfg hf st k f w).1 :=
  removeKeyL_led cfg hf st k f w FB FE hb h

/-- **Extract(pos) / Remove(iter, extItem)** (`pvExtract`: `Relocate` or `ReplaceRelocate` into the handle): if it exits with an
exception - the copy into the handle threw, or the assignment of `Replace` threw after it (the copy in the handle is destroyed
again) - the container is the same and the ledger holds exactly what it held; otherwise it holds the new books plus the handle's
object `h`. -/
theorem C04_hash_extract_strong (cfg : Cfg) (st : St) (gi b j : Nat) (f : Flt) (w : W) (FB : List Blk) (FE : List Nat)
    (hb : BooksOK st) (h : Led w (st.blocks cfg ++ FB) (st.elems ++ FE)) :
    ((extractAtL cfg st gi b j f w).2.2 = none →
      (extractAtL cfg st gi b j f w).1 = st ∧ Led (extractAtL cfg st gi b j f w).2.1 (st.blocks cfg ++ FB) (st.elems ++ FE)) ∧
    (∀ hh, (extractAtL cfg st gi b j f w).2.2 = some hh →
      Led (extractAtL cfg st gi b j f w).2.1 ((extractAtL cfg st gi b j f w).1.blocks cfg ++ FB)
        ((extractAtL cfg st gi b j f w).1.elems ++ hh :: FE) ∧ BooksOK (extractAtL cfg st gi b j f w).1) := by
  have he := extractAtL_led cfg st gi b j f w FB FE hb h
  generalize extractAtL cfg st gi b j f w = r at he ⊢
  obtain ⟨st1, w1, oh⟩ := r
  cases oh with
  | none => exact ⟨fun _ => he, fun hh hc => by simp at hc⟩
  | some x =>
    obtain ⟨e1, e2, _⟩ := he
    refine ⟨fun hc => by simp at hc, fun hh hc => ?_⟩
    simp only [Option.some.injEq] at hc
    subst hc
    exact ⟨e1, e2⟩

/-- **Reserve**: a refused bucket array or `BucketParams` block leaves container and ledger as they were (`Reserve` never fails
once the array exists: failures of the migration are swallowed and leave several generations, all on the books). -/
theorem C04_hash_reserve_strong (cfg : Cfg) (hf : Nat → Nat) (st : St) (c : Nat) (f : Flt) (w : W) (FB : List Blk) (FE : List Nat)
    (hb : BooksOK st) (h : Led w (st.blocks cfg ++ FB) (st.elems ++ FE)) :
    ((reserveL cfg hf st c f w).2.2 ≠ .ok →
      (reserveL cfg hf st c f w).1 = st ∧ Led (reserveL cfg hf st c f w).2.1 (st.blocks cfg ++ FB) (st.elems ++ FE)) ∧
    Led (reserveL cfg hf st c f w).2.1 ((reserveL cfg hf st c f w).1.blocks cfg ++ FB)
      ((reserveL cfg hf st c f w).1.elems ++ FE) ∧ BooksOK (reserveL cfg hf st c f w).1 :=
  reserveL_led cfg hf st c f w FB FE hb h

/-- **Constructors: "A constructor that fails leaves nothing allocated and nothing constructed."** `HashSet()` (`newL`: the crew
block) and `HashSet(const HashSet&)` (`copyL`: crew block, bucket array, `BucketParams`, one copy per item, each preceded by a call of
the hash functor): if the constructor throws at ANY of these points (`f.crew`, `f.grow`, `f.params`, `f.copyStop = some n` for any
`n`), the ledger holds exactly what it held before - in particular an empty ledger stays empty; if it returns, the ledger gained
exactly the books of the new container. -/
theorem C04_hash_constructor_clean (cfg : Cfg) (hf : Nat → Nat) (src : St) (f : Flt) (w : W) (FB : List Blk) (FE : List Nat)
    (hsrc : ∀ k e, lookE src.els k = some e → e ∈ FE) (h : Led w FB FE) :
    CtorPost cfg FB FE (newL cfg f w) ∧ CtorPost cfg FB FE (copyL cfg hf src f w) ∧
    ((copyL cfg hf src f w).1 = none → FB = [] → FE = [] → Ledger.balanced (copyL cfg hf src f w).2.evs = true) := by
  refine ⟨newL_led cfg f w FB FE h, copyL_led cfg hf src f w FB FE hsrc h, fun hn hB hE => ?_⟩
  have := copyL_led cfg hf src f w FB FE hsrc h
  generalize copyL cfg hf src f w = r at this hn
  obtain ⟨o, w1⟩ := r
  simp only at hn
  subst hn hB hE
  exact led_nil_balanced this

/-- **Copy assignment `B = A`** (`HashSet(hashSet).Swap(*this)`): if it exits with an exception, A, B and the handle are the same
and the ledger holds what it held (`SysOK`); otherwise B's old contents have been destroyed and given back. -/
theorem C04_hash_copy_assign_strong (cfg : Cfg) (hf : Nat → Nat) (s : Sys) (f : Flt) (h : SysOK cfg s) :
    SysOK cfg (step cfg hf s (.copyTo f)).1 ∧
    ((copyL cfg hf s.a f s.w).1 = none →
      (step cfg hf s (.copyTo f)).1.a = s.a ∧ (step cfg hf s (.copyTo f)).1.b = s.b ∧ (step cfg hf s (.copyTo f)).1.h = s.h) := by
  refine ⟨step_ok cfg hf s _ h, fun hn => ?_⟩
  simp only [step]
  generalize copyL cfg hf s.a f s.w = r at hn ⊢
  obtain ⟨o, w1⟩ := r
  simp only at hn
  subst hn
  exact ⟨rfl, rfl, rfl⟩

/-- **"… and the container remains fully usable."** After a failed insertion the container is the very same one (above); its books
stay consistent with its table (`Consistent`, in particular the table invariant of C01), so every theorem applies to it again; and
the same insertion retried without a fault succeeds and gives the table of the fault-free hash-table model on the ORIGINAL
table. -/
theorem C04_hash_usable_after (cfg : Cfg) (hf : Nat → Nat) (ok : SpecOK cfg.sp) (st : St) (it : Item) (f f' : Flt) (w w' : W)
    (hc : Consistent cfg hf st) (hfail : (insertL cfg hf st it .fresh f w).2.2 ≠ .done .ok)
    (hkey : findTable cfg.sp hf st.t it.key = none)
    (hclean : f'.hashThrows = false ∧ f'.eqThrows = false ∧ f'.grow = false ∧ f'.params = false ∧ f'.create = false) :
    (insertL cfg hf st it .fresh f w).1 = st ∧ Consistent cfg hf (insertL cfg hf st it .fresh f w).1 ∧
    (insertL cfg hf (insertL cfg hf st it .fresh f w).1 it .fresh f' w').2.2 = .done .ok ∧
    (insertL cfg hf (insertL cfg hf st it .fresh f w).1 it .fresh f' w').1.t =
      (add cfg.sp hf st.t it (toFaults cfg st false f')).1 := by
  have hsame : (insertL cfg hf st it .fresh f w).1 = st := by
    by_cases hfl : (f.hashThrows || f.eqThrows) = true
    · simp only [insertL, hfl, if_true]
    · have hfl' : (f.hashThrows || f.eqThrows) = false := by simpa using hfl
      simp only [insertL, hfl', Bool.false_eq_true, if_false, hkey] at hfail ⊢
      exact addL_fail_same cfg hf st it .fresh f w hc.shape (fun hk => hfail (by rw [hk]))
  obtain ⟨c1, c2, c3, c4, c5⟩ := hclean
  rw [hsame]
  refine ⟨rfl, hc, ?_, ?_⟩
  · simp only [insertL, c1, c2, Bool.or_self, Bool.false_eq_true, if_false, hkey]
    rw [(addL_table cfg hf st it .fresh f' w').2]
    rw [add_nofault_ok cfg.sp hf ok st.t it _ hc.inv.core (by simp [toFaults, c3, c4]) (by simp [toFaults, Creator.throws, c5])]
  · simp only [insertL, c1, c2, Bool.or_self, Bool.false_eq_true, if_false, hkey]
    have := (addL_table cfg hf st it .fresh f' w').1
    simpa [Creator.throws, c5] using this

/-- **The tables of the ledger layer are the tables of the hash-table model of C01 / C11** under the faults the record stands for,
so `C11_add_every_fault_partial`, `C11_reserve_every_fault_partial` and all of Props/C01.lean speak about them: observable
contents, order and count after a failed AND after a successful operation are those proved there. -/
theorem C04_hash_tables_are_model (cfg : Cfg) (hf : Nat → Nat) (st : St) (it : Item) (cr : Creator) (c : Nat) (f : Flt) (w : W) :
    (addL cfg hf st it cr f w).1.t = (add cfg.sp hf st.t it (toFaults cfg st (cr.throws cfg f) f)).1 ∧
    (addL cfg hf st it cr f w).2.2 = (add cfg.sp hf st.t it (toFaults cfg st (cr.throws cfg f) f)).2 ∧
    (reserveL cfg hf st c f w).1.t = (reserve cfg.sp hf st.t c (toFaults cfg st false f)).1 ∧
    (reserveL cfg hf st c f w).2.2 = (reserve cfg.sp hf st.t c (toFaults cfg st false f)).2 ∧
    FaultsOK cfg.sp (toFaults cfg st (cr.throws cfg f) f) :=
  ⟨(addL_table cfg hf st it cr f w).1, (addL_table cfg hf st it cr f w).2, (reserveL_table cfg hf st c f w).1,
    (reserveL_table cfg hf st c f w).2, toFaults_ok cfg st _ f⟩

/-- **The memory-manager part, exactly**: the pool traffic of an operation (chained kinds: buffers the pools obtained and kept,
buffers they gave back - decided by `MemPool`, C09) changes nothing but `St.bufs`: table, element objects, bucket arrays,
`BucketParams` and crew block are those the operation itself left, and the ledger follows. Without a `BucketParams` block (no
table) and for the kinds without pools there is no traffic at all. -/
theorem C04_hash_pool_traffic (cfg : Cfg) (st : St) (p : PoolT) (w : W) (FB : List Blk) (E : List Nat)
    (h : Led w (st.blocks cfg ++ FB) E) :
    Led (poolTraffic cfg st p w).2 ((poolTraffic cfg st p w).1.blocks cfg ++ FB) E ∧
    (poolTraffic cfg st p w).1.t = st.t ∧ (poolTraffic cfg st p w).1.els = st.els ∧
    (poolTraffic cfg st p w).1.arrs = st.arrs ∧ (poolTraffic cfg st p w).1.params = st.params ∧
    (poolTraffic cfg st p w).1.crew = st.crew ∧
    ((cfg.chained = false ∨ st.params = none) → poolTraffic cfg st p w = (st, w)) := by
  obtain ⟨a1, a2, a3, a4, a5, a6⟩ := poolTraffic_led cfg st p w FB E h
  refine ⟨a1, a2, a3, a4, a5, a6, fun hc => ?_⟩
  rcases hc with hc | hc <;> simp [poolTraffic, hc]

/-- **The strong guarantee at the level of the system the correspondence harness drives** (two containers A, B and a node handle):
whichever strongly exception-safe operation - `ins` (Insert / emplace / map insertion / subscript insertion, into A or B), `rem`,
`ext`, `reins` (`Insert(ExtractedItem&&)`: a refused item stays in the handle), `reserve`, `copyTo` (copy assignment) - exits with
an exception in a reachable state (`SysOK`), under whatever fault record, A, B and the handle are exactly as before (tables, books
of blocks, books of element objects); `step_ok` says that the monitor still holds exactly these books. -/
theorem C04_hash_step_strong (cfg : Cfg) (hf : Nat → Nat) (s : Sys) (op : Op) (h : SysOK cfg s) (hs : op.strong = true)
    (hfail : (step cfg hf s op).2.failed = true) :
    (step cfg hf s op).1.a = s.a ∧ (step cfg hf s op).1.b = s.b ∧ (step cfg hf s op).1.h = s.h ∧
    SysOK cfg (step cfg hf s op).1 :=
  let ⟨h1, h2, h3⟩ := step_strong cfg hf s op h hs hfail
  ⟨h1, h2, h3, step_ok cfg hf s op h⟩

/-- every reachable state satisfies `SysOK` (the hypothesis of the theorem above and, through `BooksOK`, of the single-container
theorems of this section) -/
theorem C04_hash_reachable_ok (cfg : Cfg) (hf : Nat → Nat) (ops : List OpT) : SysOK cfg (run cfg hf (Sys.init cfg) ops) :=
  run_ok cfg hf ops _ (sysOK_init cfg)

/-! Non-vacuity: an Open2N2-like table of copy-only items with a two-generation state; every kind of failing insertion, a
failing removal, a failing extraction, a failing copy construction - each leaves table, books and the monitor's holdings as they
were. -/
def x5Cfg : Cfg :=
  { sp := { maxCount := 1, quad := true, fullFrom := 0, unlimited := false, bound := .mp2, cap := .ratio 11 12, baseShift := false,
            logStart := 1, nothrowReloc := false },
    cat := .copyOnly, assign := false, hdr := 24, bsz := 8, psz := 8, csz := 16 }
/-- two generations (4 and 2 buckets) after an interrupted migration -/
def x5Sys : Sys :=
  run x5Cfg id (Sys.init x5Cfg) [{ op := .ins false 1 10 {} }, { op := .ins false 2 20 { mig := some 0 } },
    { op := .ins false 3 30 { mig := some 0 } }]
def x5Hold (s : Sys) : Option (Nat × Nat) := (Ledger.run Ledger.St.init s.w.evs).map (fun m => m.outstanding)
def x5Same (s : Sys) : Bool :=
  decide (s.a.t.gens.map (fun g => (g.L, genCount g)) = x5Sys.a.t.gens.map (fun g => (g.L, genCount g))) &&
  decide (s.a.els = x5Sys.a.els) && decide (s.a.arrs = x5Sys.a.arrs) && decide (x5Hold s = x5Hold x5Sys)

example : x5Sys.a.t.gens.map (fun g => (g.L, genCount g)) = [(2, 2), (1, 1)] ∧ x5Hold x5Sys = some (5, 3) ∧
    x5Sys.a.t.count = x5Sys.a.t.cap := by decide
/-- the table is at capacity: the next insertion has to grow. Bucket array refused: the insertion falls back to the existing
    table, succeeds, and its migration completes (one generation, the old array given back) -/
example : (step x5Cfg id x5Sys (.ins false 4 40 { grow := true })).2 matches .res (.done .ok) := by decide
example : (step x5Cfg id x5Sys (.ins false 4 40 { grow := true })).1.a.t.gens.map (fun g => (g.L, genCount g)) = [(2, 4)] ∧
    x5Hold (step x5Cfg id x5Sys (.ins false 4 40 { grow := true })).1 = some (4, 4) := by decide
/-- the creator throws after the new bucket array has been obtained: it goes back (two events), everything else as before -/
example : x5Same (step x5Cfg id x5Sys (.ins false 4 40 { create := true })).1 = true := by decide
example : ((step x5Cfg id x5Sys (.ins false 4 40 { create := true })).1.w.evs.drop x5Sys.w.evs.length).length = 2 := by decide
/-- the hash functor throws in the lookup -/
example : x5Same (step x5Cfg id x5Sys (.ins false 4 40 { hashThrows := true })).1 = true := by decide
/-- the assignment inside `Replace` throws during a removal -/
example : x5Same (step x5Cfg id x5Sys (.rem 1 { assignThrows := true })).1 = true := by decide
/-- the copy into the handle throws during an extraction -/
example : x5Same (step x5Cfg id x5Sys (.ext 1 { create := true })).1 = true := by decide
/-- a copy construction failing after one item: the copy is destroyed, `BucketParams`, array and crew go back (nine events) -/
example : x5Same (step x5Cfg id x5Sys (.copyTo { copyStop := some 1 })).1 = true := by decide
example : ((step x5Cfg id x5Sys (.copyTo { copyStop := some 1 })).1.w.evs.drop x5Sys.w.evs.length).length = 9 := by decide
/-- … and a successful one: B holds three new element objects; crew, array and `BucketParams` of the copy are outstanding, B's old
    crew block has gone -/
example : x5Hold (step x5Cfg id x5Sys (.copyTo {})).1 = some (7, 6) := by decide

end Momo.HTL


/-!
## C04 for `momo::HashMultiMap` with the ledger (`Momo.MML`, the layer described under C03)

"All `HashMultiMap` functions and constructors have strong exception safety, but not … functions `Add` receiving many items …
function `Remove` receiving predicate" (HashMultiMap.h:545-553).  `OpPost cfg st FB FE st' w' failed`: after the operation the
monitor holds exactly the books of `st'` plus the frame, the key table's books are well-formed, and if the operation `failed`
then `st' = st` - the container (contents: key table, every value array with its representation; books: every block and object)
is the same, so the monitor holds exactly what it held: nothing leaked, nothing destroyed.
-/
namespace Momo.MML
open Momo Momo.HT Momo.Ledger Momo.HTL

/-- **`Add(key, value)`** (`pvAdd`): fails when a functor throws in the lookup; for a present key when the pool block / heap storage
of the value array is refused or the value creator / a relocating copy throws; for a new key when the bucket array (without
fallback) or `BucketParams` is refused, the key copy throws, or the one-value array cannot be made. -/
theorem C04_multimap_add_strong (cfg : Cfg) (hf : Nat → Nat) (st : St) (k tg v : Nat) (f : Flt) (w : W) (FB : List Blk) (FE : List Nat)
    (hb : HTL.BooksOK st.kt) (h : Led w (st.blocks cfg ++ FB) (st.elems ++ FE)) :
    OpPost cfg st FB FE (addL cfg hf st k tg v f w).1 (addL cfg hf st k tg v f w).2.1 ((addL cfg hf st k tg v f w).2.2 ≠ .done .ok) :=
  addL_led cfg hf st k tg v f w FB FE hb h

/-- **`Add(keyIter, value)`** -/
theorem C04_multimap_addAt_strong (cfg : Cfg) (hf : Nat → Nat) (st : St) (k v : Nat) (f : Flt) (w : W) (FB : List Blk) (FE : List Nat)
    (hb : HTL.BooksOK st.kt) (h : Led w (st.blocks cfg ++ FB) (st.elems ++ FE)) :
    OpPost cfg st FB FE (addAtL cfg hf st k v f w).1 (addAtL cfg hf st k v f w).2.1 ((addAtL cfg hf st k v f w).2.2 ≠ .done .ok) :=
  addAtL_led cfg hf st k v f w FB FE hb h

/-- **`InsertKey(key)`** -/
theorem C04_multimap_insertKey_strong (cfg : Cfg) (hf : Nat → Nat) (st : St) (k tg : Nat) (f : Flt) (w : W) (FB : List Blk)
    (FE : List Nat) (hb : HTL.BooksOK st.kt) (h : Led w (st.blocks cfg ++ FB) (st.elems ++ FE)) :
    OpPost cfg st FB FE (insertKeyL cfg hf st k tg f w).1 (insertKeyL cfg hf st k tg f w).2.1
      ((insertKeyL cfg hf st k tg f w).2.2 ≠ .done .ok) :=
  insertKeyL_led cfg hf st k tg f w FB FE hb h

/-- **`Remove(keyIter, valueIndex)` / `Remove(iter)`**: fails only when `AssignAnywayValue` throws (values that are not
nothrow-anyway-assignable), before anything has happened; a refused allocation inside `Array::Shrink` is swallowed (the removal
succeeds, the array keeps its storage). -/
theorem C04_multimap_remove_strong (cfg : Cfg) (hf : Nat → Nat) (st : St) (k i : Nat) (f : Flt) (w : W) (FB : List Blk) (FE : List Nat)
    (hb : HTL.BooksOK st.kt) (h : Led w (st.blocks cfg ++ FB) (st.elems ++ FE)) :
    OpPost cfg st FB FE (removeValueL cfg hf st k i f w).1 (removeValueL cfg hf st k i f w).2.1
      ((removeValueL cfg hf st k i f w).2.2 ≠ .done .ok) :=
  removeValueL_led cfg hf st k i f w FB FE hb h

/-- **`RemoveKey(key)`**: fails when a functor throws in the lookup or the key assignment inside the key table's removal throws
(the value array, moved aside, is put back: `valueArray = std::move(tempValueArray)`). -/
theorem C04_multimap_removeKey_strong (cfg : Cfg) (hf : Nat → Nat) (st : St) (k : Nat) (f : Flt) (w : W) (FB : List Blk) (FE : List Nat)
    (hb : HTL.BooksOK st.kt) (h : Led w (st.blocks cfg ++ FB) (st.elems ++ FE)) :
    OpPost cfg st FB FE (removeKeyL cfg hf st k f w).1 (removeKeyL cfg hf st k f w).2.1
      ((removeKeyL cfg hf st k f w).2.2.1 ≠ .done .ok) :=
  removeKeyL_led cfg hf st k f w FB FE hb h

/-- **constructors leave nothing behind when they fail**: the default constructor (key table crew, value crew) and the copy
constructor (crews, `Reserve`, for every key the copy of its value array and the insertion; a failure at any key, any value, any
block clears the arrays copied so far, returns every pool buffer and both crews) either produce a container whose books the
monitor holds, or leave the monitor holding exactly the frame. -/
theorem C04_multimap_constructor_clean (cfg : Cfg) (hf : Nat → Nat) (src : St) (f0 : Flt) (f : Nat → Flt) (w : W) (FB : List Blk)
    (FE : List Nat) (hs : ∀ k, ∀ e ∈ (getV src.vbs k).objs, e ∈ FE) (h : Led w FB FE) :
    CtorPost cfg FB FE (newL cfg f0 w) ∧ CtorPost cfg FB FE (copyL cfg hf src f0 f w) :=
  ⟨newL_led cfg f0 w FB FE h, copyL_led cfg hf src f0 f w FB FE hs h⟩

/-- **the system level: a failing strongly exception-safe operation** (everything but `Remove(pairFilter)`; copy assignment
included) **leaves both containers - contents and books - exactly as they were**, in every state in which the monitor holds the
books. -/
theorem C04_multimap_step_strong (cfg : Cfg) (hf : Nat → Nat) (s : Sys) (op : Op) (h : SysOK cfg s) (hs : op.strong = true)
    (hfail : (step cfg hf s op).2.failed = true) : (step cfg hf s op).1.a = s.a ∧ (step cfg hf s op).1.b = s.b :=
  step_strong cfg hf s op h hs hfail

/-- **… and whatever an operation did, failed or not (`Remove(pairFilter)` stopped half-way included), the monitor holds exactly
the new books**: the containers stay usable and destructible (`C03_multimap_history_balanced`). -/
theorem C04_multimap_usable_after (cfg : Cfg) (hf : Nat → Nat) (s : Sys) (o : OpT) (h : SysOK cfg s) : SysOK cfg (stepT cfg hf s o).1 :=
  stepT_ok cfg hf s o h

/-- every reachable state satisfies the hypothesis of the two theorems above -/
theorem C04_multimap_reachable_ok (cfg : Cfg) (hf : Nat → Nat) (ops : List OpT) : SysOK cfg (run cfg hf (Sys.init cfg) ops) :=
  run_ok cfg hf ops _ (sysOK_init cfg)

/-! Non-vacuity: key 1 holds five values in a heap array (Open8-like key table, `maxFastCount = 2`); failing operations exist
and - by the theorem above, here by evaluation - change nothing. -/
def x6Cfg : Cfg :=
  { h := { sp := { maxCount := 7, quad := true, fullFrom := 7, unlimited := false, bound := .none, cap := .base, baseShift := true,
                   logStart := 1, nothrowReloc := true },
           cat := .nmove, hdr := 24, bsz := 120, psz := 8, csz := 16 },
    mf := 2, vcat := .nmove, isz := 8, vsz := 200 }
def x6Sys : Sys := run x6Cfg id (Sys.init x6Cfg)
  [{ op := .add false 1 0 10 {} }, { op := .add false 1 0 11 {} }, { op := .add false 1 0 12 {} }, { op := .add false 1 0 13 {} },
   { op := .add false 1 0 14 {} }, { op := .add false 2 0 20 {} }]
example : (getV x6Sys.a.vbs 1).arr.rep = .heap 8 := by decide +kernel
example : (step x6Cfg id x6Sys (.add false 1 0 99 { v := { create := true } })).2.failed = true ∧
    (step x6Cfg id x6Sys (.add false 7 0 99 { k := { create := true } })).2.failed = true ∧
    (step x6Cfg id x6Sys (.copyTo { vcrew := true } (fun _ => {}))).2.failed = true := by decide +kernel
/-- the heap array has room (5 of 8): the throwing value creator fails before anything has happened - no event, same books -/
example : ((step x6Cfg id x6Sys (.add false 1 0 99 { v := { create := true } })).1.w.evs.drop x6Sys.w.evs.length).length = 0 ∧
    (step x6Cfg id x6Sys (.add false 1 0 99 { v := { create := true } })).1.a.vbs.map (fun p => (p.1, p.2.objs, p.2.heap)) =
      x6Sys.a.vbs.map (fun p => (p.1, p.2.objs, p.2.heap)) := by decide +kernel

/-- **strong guarantee at the level of CONTENTS** (`St.abs`: the abstract multimap `Key → List Value` of the books,
`Proof/MMLedgerRefine.lean`): an `Add(key, value)`, `Add(keyIter, value)`, `Remove(keyIter, index)` or `RemoveKey(key)` that does
not answer `done ok` - whichever fault of the schedule struck (pool block / heap storage refused, throwing creator / assignment /
functor, refused bucket array) and also outside the precondition - leaves every key's value list as it was.  No hypothesis on the
state. -/
theorem C04_multimap_fault_keeps_contents (cfg : Cfg) (hf : Nat → Nat) (st : St) (k tg v i : Nat) (f : Flt) (w : W) :
    ((addL cfg hf st k tg v f w).2.2 ≠ .done .ok → (addL cfg hf st k tg v f w).1.abs = st.abs) ∧
    ((addAtL cfg hf st k v f w).2.2 ≠ .done .ok → (addAtL cfg hf st k v f w).1.abs = st.abs) ∧
    ((removeValueL cfg hf st k i f w).2.2 ≠ .done .ok → (removeValueL cfg hf st k i f w).1.abs = st.abs) ∧
    ((removeKeyL cfg hf st k f w).2.2.1 ≠ .done .ok → (removeKeyL cfg hf st k f w).1.abs = st.abs) :=
  ⟨fun h => abs_of_vbs (addL_fault cfg hf st k tg v f w h),
   fun h => by rw [addAtL_fault cfg hf st k v f w h],
   fun h => by rw [removeValueL_fault cfg hf st k i f w h],
   fun h => abs_of_vbs (removeKeyL_fault cfg hf st k f w h)⟩

/-- **… and at the system level**: a failing strongly exception-safe operation (copy assignment included) leaves the abstract
contents of both containers as they were (corollary of `C04_multimap_step_strong`). -/
theorem C04_multimap_step_fault_keeps_contents (cfg : Cfg) (hf : Nat → Nat) (s : Sys) (op : Op) (h : SysOK cfg s)
    (hs : op.strong = true) (hfail : (step cfg hf s op).2.failed = true) :
    (step cfg hf s op).1.a.abs = s.a.abs ∧ (step cfg hf s op).1.b.abs = s.b.abs :=
  step_fault_abs cfg hf s op h hs hfail

/-- non-vacuity: the failing `Add` of the examples above, on contents `1 ↦ [10 … 14]` -/
example : (step x6Cfg id x6Sys (.add false 1 0 99 { v := { create := true } })).1.a.abs 1 = [10, 11, 12, 13, 14] := by
  decide +kernel

end Momo.MML
