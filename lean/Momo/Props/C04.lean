import Momo.Proof.ObjMain
/-!
# C04 — Strongly exception-safe operations leave the container unchanged on failure

Object level (this file): the building blocks every container uses to grow / insert with the strong
guarantee — `ObjectManager::RelocateCreate` (bucket and node growth, array reallocation) and
`CopyExec` (key-value pair creation) — for every relocation category, every element count and
EVERY fault schedule (`s.faults` is an arbitrary list of decisions, one per fallible step).
Container level: `Momo.HT.add`/`reserve` (Props/C11.lean, `C11_add_strong`), arrays (Props/C05.lean),
B-tree (Props/C02.lean).
-/
namespace Momo.Obj

/-- **C04, RelocateCreate.** If `RelocateCreate` exits with an exception — whichever copy or the
creator threw — every cell of memory is exactly as before (sources alive with their values, destination
and new slot raw), and the recorded construction/destruction trace is well-formed: nothing was
constructed over a live object, destroyed twice or used after destruction, and nothing is left over. -/
theorem C04_relocateCreate_strong {occ0 : Nat → Bool} (c : Cat) (s : St) (src dst count newAddr v : Nat)
    (ht : TraceOK occ0 s) (pre : Pre s src dst count newAddr)
    (hthrew : (relocateCreate c s src dst count newAddr v).2 = .threw) :
    (∀ x, (relocateCreate c s src dst count newAddr v).1.mem x = s.mem x) ∧
    TraceOK occ0 (relocateCreate c s src dst count newAddr v).1 :=
  ⟨(relocateCreate_spec c s src dst count newAddr v ht pre).2.1 hthrew,
   (relocateCreate_spec c s src dst count newAddr v ht pre).1⟩

/-- **C04/C03, RelocateCreate succeeds.** Every element now lives at its destination with its old
value, every source cell is raw again (relocated or destroyed exactly once), the new object exists. -/
theorem C04_relocateCreate_ok {occ0 : Nat → Bool} (c : Cat) (s : St) (src dst count newAddr v : Nat)
    (ht : TraceOK occ0 s) (pre : Pre s src dst count newAddr)
    (hok : (relocateCreate c s src dst count newAddr v).2 = .ok) :
    (∀ x, (relocateCreate c s src dst count newAddr v).1.mem x = relocated s.mem src dst count newAddr v x) ∧
    TraceOK occ0 (relocateCreate c s src dst count newAddr v).1 :=
  ⟨(relocateCreate_spec c s src dst count newAddr v ht pre).2.2 hok,
   (relocateCreate_spec c s src dst count newAddr v ht pre).1⟩

/-- **C04, CopyExec** (creation of a key together with its value): a failure of the key copy or of
the value creator leaves memory unchanged. -/
theorem C04_copyExec_strong {occ0 : Nat → Bool} (s : St) (src dst newAddr v : Nat) (ht : TraceOK occ0 s)
    (hs : s.mem src ≠ .raw) (hd : s.mem dst = .raw) (hn : s.mem newAddr = .raw) (hne : newAddr ≠ dst)
    (hthrew : (copyExec s src dst newAddr v).2 = .threw) :
    (∀ x, (copyExec s src dst newAddr v).1.mem x = s.mem x) ∧ TraceOK occ0 (copyExec s src dst newAddr v).1 :=
  ⟨(copyExec_spec s src dst newAddr v ht hs hd hn hne).2.1 hthrew, (copyExec_spec s src dst newAddr v ht hs hd hn hne).1⟩

/-! Non-vacuity: a concrete memory meeting `Pre`, a failing and a succeeding schedule. -/
def exMem : Mem := fun a => if 100 ≤ a ∧ a < 103 then .live (1000 + (a - 100)) else .raw
def exSt (faults : List Bool) : St := { mem := exMem, evs := [], faults := faults }

example : Pre (exSt [false, true]) 100 200 3 300 := by
  refine ⟨?_, ?_, ?_, ?_, ?_, ?_⟩ <;> simp [exSt, exMem] <;> omega
example : TraceOK (occOf exMem) (exSt [false, true]) := by simp [TraceOK, exSt, replay]
example : (relocateCreate .copyOnly (exSt [false, true]) 100 200 3 300 7).2 = .threw := by decide
example : (relocateCreate .copyOnly (exSt []) 100 200 3 300 7).2 = .ok := by decide
example : (relocateCreate .nmove (exSt [true]) 100 200 3 300 7).2 = .threw := by decide

end Momo.Obj
