import Momo.Proof.ValWrap
import Momo.Proof.ValLedger
/-!
# C14 — Containers are regular values: deep copies, emptying moves, exact swaps

Property theorems only. Model: `Momo/Model/Val.lean` (a heap of blocks that remember the allocating memory
manager; container objects = manager + handles; the special member functions of the native containers and
of the stdish wrappers as sequences of primitive steps). Lemmas: `Momo/Proof/Val*.lean`.

Statement (properties.jsonl): for every momo container and stdish wrapper, a copy holds equal contents and
is independent of the original (mutating or destroying either never affects the other); a move leaves the
target with exactly the former contents without copy-constructing any movable element and leaves the source
empty, destructible, clearable, swappable and assignable (and fully usable again once assigned; array-like
containers are reusable immediately); self-assignment changes nothing and swap exchanges contents exactly.
With stateful memory managers or allocators, each container keeps allocating and freeing through the manager
dictated by the std propagation rules, and a move between unequal managers transfers the elements one by one.

Reading guide. `w.objs i = some c`: the program variable `i` is a live container object `c`; `contents H c`:
what iteration over `c` yields in heap `H`; `c.owned`: the heap blocks `c` points to; `WF w`: every block an
object points to is live, was allocated by the manager the object holds, and is pointed to by no other object.
`cfg : Cfg` is universally quantified everywhere: all container kinds (`Kind`: internal capacity, crew pointer,
constructor blocks, trivially relocatable / movable / copy-only elements, Array-style or swap-style assignment,
copy layout) × the manager's copy constructor `sel` × the allocator traits POCCA / POCMA / POCS / is_empty.
A hypothesis `step cfg w op = some (w1, evs)` says that the operation is defined in `w` (slots dead / alive as
the operation needs them); definedness itself is the subject of the `C14_null_*` theorems.
`RebuildOk cfg.k`: the block layout chosen by the copy constructor keeps the elements and their order — proved
for the layouts of all driven kinds (`C14_rebuild_layouts`).
-/
namespace Momo.Val

/-! ## (a) copies: equal contents, disjoint ownership, independence -/

/-- **C14 "a copy holds equal contents and is independent of the original"**, copy constructor `C b(a)`:
the copy `t` iterates over the same elements as the source `s`; `s` keeps its handles and contents; `t` holds
the manager the manager's copy constructor selects, is a fully usable object, and **shares no block with any other
live object**; every block of `t` was obtained from its own manager; nothing is freed, no element is moved
(elements are copy-constructed); no third object changes; the ownership invariant is kept. -/
theorem C14_copy_ctor (cfg : Cfg) (hrb : RebuildOk cfg.k) {w w1 : World} {evs : List Ev} (wf : WF w) (b a : Nat)
    (h : step cfg w (.copyCtor b a) = some (w1, evs)) :
    ∃ s t m, w.objs a = some s ∧ s.mgr = some m ∧ w.objs b = none ∧ w1.objs a = some s ∧ w1.objs b = some t ∧
      contents w1.heap t = contents w.heap s ∧ contents w1.heap s = contents w.heap s ∧
      t.mgr = some (cfg.sel m) ∧ usable cfg.k t = true ∧
      (∀ x c, x ≠ b → w1.objs x = some c → ∀ h ∈ t.owned, h ∉ c.owned) ∧
      (∀ x, x ≠ b → w1.objs x = w.objs x) ∧
      (∀ x c, x ≠ b → w.objs x = some c → contents w1.heap c = contents w.heap c) ∧ WF w1 ∧
      (∀ e, Ev.move e ∉ evs) ∧ (∀ m' h', Ev.free m' h' ∉ evs) ∧ (∀ m' h', Ev.alloc m' h' ∈ evs → m' = cfg.sel m) := by
  simp only [step, expand] at h
  cases ha : allocOf w a with
  | none => simp [ha] at h
  | some m =>
    simp only [ha, run_single] at h
    obtain ⟨s0, hs0, hm0⟩ := allocOf_some ha
    obtain ⟨s, t, hs, hb, h1, h2, h3, h4, h5, h6, h7, h8, h9, h10, h11, h12, h13⟩ :=
      copyPrim_regular cfg hrb wf b a (cfg.sel m) h
    rw [hs0] at hs; cases hs
    exact ⟨s0, t, m, hs0, hm0, hb, h1, h2, h3, h4, h5, h6, h7, h8, h9, h10, h11, h12, h13⟩

/-- the same for `C b(a, MemManager(m))` and the wrappers' `W b(a, alloc)`: the copy allocates through `m` -/
theorem C14_copy_ctor_with_manager (cfg : Cfg) (hrb : RebuildOk cfg.k) {w w1 : World} {evs : List Ev} (wf : WF w)
    (b a : Nat) (m : Mgr) (h : step cfg w (.copyCtorM b a m) = some (w1, evs)) :
    ∃ s t, w.objs a = some s ∧ w.objs b = none ∧ w1.objs a = some s ∧ w1.objs b = some t ∧
      contents w1.heap t = contents w.heap s ∧ contents w1.heap s = contents w.heap s ∧
      t.mgr = some m ∧ usable cfg.k t = true ∧
      (∀ x c, x ≠ b → w1.objs x = some c → ∀ h ∈ t.owned, h ∉ c.owned) ∧
      (∀ x, x ≠ b → w1.objs x = w.objs x) ∧
      (∀ x c, x ≠ b → w.objs x = some c → contents w1.heap c = contents w.heap c) ∧ WF w1 ∧
      (∀ e, Ev.move e ∉ evs) ∧ (∀ m' h', Ev.free m' h' ∉ evs) ∧ (∀ m' h', Ev.alloc m' h' ∈ evs → m' = m) := by
  simp only [step, expand, run_single] at h
  exact copyPrim_regular cfg hrb wf b a m h

/-- **C14 "mutating or destroying either never affects the other"**, general form (frame property): in a
well-formed world, an object `x` that a history of operations never names (neither as an operand nor as the slot
of a temporary) keeps its handles, the contents of every one of its blocks, and hence its contents — whatever the
operations do to all other objects (mutation with any resulting layout, Clear, assignment, swap, destruction). -/
theorem C14_independent (cfg : Cfg) {w w' : World} (wf : WF w) (ops : List Op) (h : runOps cfg w ops = some w')
    (x : Nat) (c : Cont) (hx : ∀ op ∈ ops, x ∉ op.writes cfg) (hc : w.objs x = some c) :
    w'.objs x = some c ∧ contents w'.heap c = contents w.heap c ∧ layout w'.heap c = layout w.heap c :=
  untouched_runOps cfg wf ops h x c hx hc

/-- **copy, then anything**: after `C b(a)`, every history that does not name `a` leaves `a` with its original
contents, and every history that does not name `b` leaves `b` with the original contents of `a`. -/
theorem C14_copy_independent (cfg : Cfg) (hrb : RebuildOk cfg.k) {w w1 : World} {evs : List Ev} (wf : WF w) (b a : Nat)
    (h : step cfg w (.copyCtor b a) = some (w1, evs)) :
    ∃ s t, w.objs a = some s ∧ w1.objs a = some s ∧ w1.objs b = some t ∧
      (∀ ops w2, runOps cfg w1 ops = some w2 → (∀ op ∈ ops, a ∉ op.writes cfg) →
        w2.objs a = some s ∧ contents w2.heap s = contents w.heap s) ∧
      (∀ ops w2, runOps cfg w1 ops = some w2 → (∀ op ∈ ops, b ∉ op.writes cfg) →
        w2.objs b = some t ∧ contents w2.heap t = contents w.heap s) := by
  obtain ⟨s, t, m, hs, _, _, h1a, h1b, hct, hcs, _, _, _, _, _, wf1, _⟩ := C14_copy_ctor cfg hrb wf b a h
  refine ⟨s, t, hs, h1a, h1b, ?_, ?_⟩
  · intro ops w2 hr hn
    obtain ⟨e, c2, _⟩ := untouched_runOps cfg wf1 ops hr a s hn h1a
    exact ⟨e, c2.trans hcs⟩
  · intro ops w2 hr hn
    obtain ⟨e, c2, _⟩ := untouched_runOps cfg wf1 ops hr b t hn h1b
    exact ⟨e, c2.trans hct⟩

/-- **"destroying either never affects the other"**: after `C b(a)` both destructors are defined; `~a` leaves `b`
holding the original contents, `~b` leaves `a` holding them; the world stays well-formed. -/
theorem C14_copy_destroy_either (cfg : Cfg) (hrb : RebuildOk cfg.k) {w w1 : World} {evs : List Ev} (wf : WF w) (b a : Nat)
    (h : step cfg w (.copyCtor b a) = some (w1, evs)) :
    ∃ s t, w.objs a = some s ∧ w1.objs a = some s ∧ w1.objs b = some t ∧
      (∃ w2 e2, step cfg w1 (.destroy a) = some (w2, e2) ∧ w2.objs a = none ∧ w2.objs b = some t ∧
        contents w2.heap t = contents w.heap s ∧ WF w2) ∧
      (∃ w2 e2, step cfg w1 (.destroy b) = some (w2, e2) ∧ w2.objs b = none ∧ w2.objs a = some s ∧
        contents w2.heap s = contents w.heap s ∧ WF w2) := by
  obtain ⟨s, t, m, hs, hsm, hb, h1a, h1b, hct, hcs, htm, _, _, _, _, wf1, _⟩ := C14_copy_ctor cfg hrb wf b a h
  have hab : a ≠ b := by intro e; subst e; rw [hb] at hs; cases hs
  refine ⟨s, t, hs, h1a, h1b, ?_, ?_⟩
  · obtain ⟨r, hr⟩ := Option.isSome_iff_exists.mp (destroy_defined cfg w1 a s h1a (by simp [hsm]))
    obtain ⟨w2, e2⟩ := r
    obtain ⟨wf2, f2⟩ := step_sound cfg wf1 _ hr
    obtain ⟨e, c2⟩ := f2.contents (x := b) (by simpa [Op.writes] using fun e => hab e.symm) h1b
    have hd : w2.objs a = none := by
      simp only [step, expand, run_single] at hr
      obtain ⟨_, _, ho, _⟩ := destroy_inv hr
      rw [ho]; simp
    exact ⟨w2, e2, hr, hd, e, c2.trans hct, wf2⟩
  · obtain ⟨r, hr⟩ := Option.isSome_iff_exists.mp (destroy_defined cfg w1 b t h1b (by simp [htm]))
    obtain ⟨w2, e2⟩ := r
    obtain ⟨wf2, f2⟩ := step_sound cfg wf1 _ hr
    obtain ⟨e, c2⟩ := f2.contents (x := a) (by simpa [Op.writes] using hab) h1a
    have hd : w2.objs b = none := by
      simp only [step, expand, run_single] at hr
      obtain ⟨_, _, ho, _⟩ := destroy_inv hr
      rw [ho]; simp
    exact ⟨w2, e2, hr, hd, e, c2.trans hcs, wf2⟩

/-- **`i = j`, copy assignment of the native containers** (`*this = Array(array)` / `C(x).Swap(*this)`): afterwards
`i` holds a usable object with contents equal to `j`'s, allocating through a manager copied from `j`'s; `j` is
unchanged; the result is well-formed (so `i` and `j` share no block). -/
theorem C14_copy_assign (cfg : Cfg) (hrb : RebuildOk cfg.k) {w w1 : World} {evs : List Ev} (wf : WF w)
    (i j : Nat) (hij : i ≠ j) (ci cj : Cont) (hi : w.objs i = some ci) (hj : w.objs j = some cj)
    (h : step cfg w (.copyAssign i j) = some (w1, evs)) :
    ∃ t, w1.objs i = some t ∧ t.mgr = cj.mgr.map cfg.sel ∧ usable cfg.k t = true ∧
      contents w1.heap t = contents w.heap cj ∧ w1.objs j = some cj ∧ contents w1.heap cj = contents w.heap cj ∧
      (∀ h ∈ t.owned, h ∉ cj.owned) ∧ WF w1 := by
  obtain ⟨t, h1, h2, h3, h4, h5, h6⟩ := copyAssign_spec cfg hrb wf i j hij ci cj hi hj h
  have wf1 := (step_sound cfg wf _ h).1
  exact ⟨t, h1, h2, h3, h4, h5, h6, fun x hx => wf1.disj i j t cj hij h1 h5 x hx, wf1⟩

/-! ## (b) moves: exact, copy-free, emptying; the moved-from state is a total state -/

/-- **C14 "a move leaves the target with exactly the former contents without copy-constructing any movable
element and leaves the source empty"**, move constructor `C b(std::move(a))`: `b` *is* the former object (same
blocks, same manager, heap untouched, hence the very same contents); `a` is left in the null state (no block, no
internal item, contents `[]`); no block is allocated or freed; if the element type is movable no element is
copy-constructed; only the items of an `Array`'s internal buffer are relocated — for every other state there is no
element event at all. -/
theorem C14_move_ctor_exact (cfg : Cfg) {w w1 : World} {evs : List Ev} (b a : Nat)
    (h : step cfg w (.moveCtor b a) = some (w1, evs)) :
    ∃ s, w.objs a = some s ∧ w.objs b = none ∧ w1.heap = w.heap ∧ w1.objs b = some s ∧
      contents w1.heap s = contents w.heap s ∧
      w1.objs a = some (nullOf cfg.k s) ∧ IsNull (nullOf cfg.k s) ∧ contents w1.heap (nullOf cfg.k s) = [] ∧
      (∀ x, x ≠ a → x ≠ b → w1.objs x = w.objs x) ∧
      (cfg.k.movable = true → ∀ e, Ev.copy e ∉ evs) ∧ (∀ m h, Ev.alloc m h ∉ evs) ∧ (∀ m h, Ev.free m h ∉ evs) ∧
      (s.inl = [] → evs = []) := by
  obtain ⟨s, h1, h2, h3, h4, h5, h6, rfl⟩ := moveCtor_spec cfg b a h
  refine ⟨s, h1, h2, h3, h4, by rw [h3], h5, nullOf_isNull _ _, contents_null _ _ _, h6, ?_, ?_, ?_, ?_⟩
  · exact fun hm e => copy_not_mem_relocEvs cfg.k hm _ e
  · exact fun m h => alloc_not_mem_relocEvs cfg.k _ m h
  · exact fun m h => free_not_mem_relocEvs cfg.k _ m h
  · intro hn; rw [hn]; exact relocEvs_nil _

/-- **move assignment `i = std::move(j)`** (both source forms: `Array::Data::operator=(Data&&)` and
`C(std::move(j)).Swap(*this)`): `i` becomes exactly the former `j` (same handles and manager, contents unchanged),
`j` is left in the null state, the former blocks of `i` — and only those — are released, through the manager `i`
held; nothing is allocated; no movable element is copy-constructed; nothing else changes. -/
theorem C14_move_assign_exact (cfg : Cfg) {w w1 : World} {evs : List Ev} (wf : WF w) (i j : Nat) (hij : i ≠ j)
    (ci cj : Cont) (hi : w.objs i = some ci) (hj : w.objs j = some cj)
    (h : step cfg w (.moveAssign i j) = some (w1, evs)) :
    w1.objs i = some cj ∧ contents w1.heap cj = contents w.heap cj ∧
      w1.objs j = some (nullOf cfg.k cj) ∧ IsNull (nullOf cfg.k cj) ∧ contents w1.heap (nullOf cfg.k cj) = [] ∧
      (∀ x, x ≠ i → x ≠ j → w1.objs x = w.objs x) ∧
      (cfg.k.movable = true → ∀ e, Ev.copy e ∉ evs) ∧ (∀ m h, Ev.alloc m h ∉ evs) ∧
      (∀ m h, Ev.free m h ∈ evs → ci.mgr = some m ∧ h ∈ ci.owned) ∧ WF w1 := by
  obtain ⟨h1, h2, h3, h4, h5, h6, h7⟩ := moveAssign_spec cfg wf i j hij ci cj hi hj h
  exact ⟨h1, h3, h2, nullOf_isNull _ _, contents_null _ _ _, h4, h5, h6, h7, (step_sound cfg wf _ h).1⟩

/-- **"leaves the source … destructible"**: the destructor of an object in the null state is defined and does
nothing but end the object (no block touched, no event). -/
theorem C14_null_destroy (cfg : Cfg) (w : World) (i : Nat) (c : Cont) (hi : w.objs i = some c) (hn : IsNull c) :
    step cfg w (.destroy i) = some (⟨w.heap, upd w.objs i none⟩, []) :=
  destroy_null_step cfg w i c hi hn

/-- **"… clearable"**: `Clear` of an object in the null state is defined (for every variant `keep`), changes
nothing and leaves it in the null state (TreeSet / DataTable after repairs 7283f61, b5e50c3). -/
theorem C14_null_clear (cfg : Cfg) (w : World) (i keep : Nat) (c : Cont) (hi : w.objs i = some c) (hn : IsNull c) :
    ∃ w1, step cfg w (.clear i keep) = some (w1, []) ∧ w1.heap = w.heap ∧ (∀ x, x ≠ i → w1.objs x = w.objs x) ∧
      ∃ c', w1.objs i = some c' ∧ IsNull c' ∧ c'.mgr = c.mgr :=
  clear_null_step cfg w i keep c hi hn

/-- **"swap exchanges contents exactly"** — and **"… swappable"**: for *any* two distinct live objects, in whatever
state (the null state included, on either side), `i.Swap(j)` is defined, exchanges the two objects (handles,
manager, internal items; the heap is untouched, so the contents are exchanged exactly), changes no other object,
allocates and frees nothing and copy-constructs no movable element. -/
theorem C14_swap_exact (cfg : Cfg) (w : World) (i j : Nat) (a b : Cont) (hij : i ≠ j)
    (hi : w.objs i = some a) (hj : w.objs j = some b) (ht : w.objs cfg.t1 = none) :
    ∃ w1 evs, step cfg w (.swap i j) = some (w1, evs) ∧
      w1.heap = w.heap ∧ w1.objs i = some b ∧ w1.objs j = some a ∧
      contents w1.heap b = contents w.heap b ∧ contents w1.heap a = contents w.heap a ∧
      (∀ x, x ≠ i → x ≠ j → w1.objs x = w.objs x) ∧
      (cfg.k.movable = true → ∀ e, Ev.copy e ∉ evs) ∧ (∀ m h, Ev.alloc m h ∉ evs) ∧ (∀ m h, Ev.free m h ∉ evs) := by
  obtain ⟨w1, evs, h0, h1, h2, h3, h4, h5, h6, h7⟩ := swap_exact cfg w i j a b hij hi hj ht
  exact ⟨w1, evs, h0, h1, h2, h3, by rw [h1], by rw [h1], h4, h5, h6, h7⟩

/-- **"… and assignable (and fully usable again once assigned)"**, copy assignment to an object in the null state:
`i = j` is defined for every source `j` that holds a manager, and afterwards `i` is a usable object holding `j`'s
contents; being usable, every mutation of `i` is defined again. -/
theorem C14_null_copy_assign (cfg : Cfg) (hrb : RebuildOk cfg.k) {w : World} (wf : WF w) (i j : Nat) (ci cj : Cont)
    (hij : i ≠ j) (hi : w.objs i = some ci) (hn : IsNull ci) (hj : w.objs j = some cj) (hm : cj.mgr.isSome = true)
    (ht : w.objs cfg.t1 = none) :
    ∃ w1 evs t, step cfg w (.copyAssign i j) = some (w1, evs) ∧ w1.objs i = some t ∧ usable cfg.k t = true ∧
      contents w1.heap t = contents w.heap cj ∧ w1.objs j = some cj ∧ contents w1.heap cj = contents w.heap cj ∧
      ∀ inl cells cap, (step cfg w1 (.mutate i inl cells cap)).isSome = true := by
  obtain ⟨r, hr⟩ := Option.isSome_iff_exists.mp (copyAssign_null_defined cfg w i j ci cj hij hi hn hj hm ht)
  obtain ⟨w1, evs⟩ := r
  obtain ⟨t, h1, _, h3, h4, h5, h6⟩ := copyAssign_spec cfg hrb wf i j hij ci cj hi hj hr
  exact ⟨w1, evs, t, hr, h1, h3, h4, h5, h6, fun inl cells cap => mutate_defined cfg w1 i t h1 h3 inl cells cap⟩

/-- move assignment to an object in the null state: `i = std::move(j)` is defined for every live `j`; `i` becomes the
former `j` — in particular as usable as `j` was. -/
theorem C14_null_move_assign (cfg : Cfg) {w : World} (wf : WF w) (i j : Nat) (ci cj : Cont)
    (hij : i ≠ j) (hi : w.objs i = some ci) (hn : IsNull ci) (hj : w.objs j = some cj) (ht : w.objs cfg.t1 = none) :
    ∃ w1 evs, step cfg w (.moveAssign i j) = some (w1, evs) ∧ w1.objs i = some cj ∧
      contents w1.heap cj = contents w.heap cj ∧ w1.objs j = some (nullOf cfg.k cj) := by
  obtain ⟨r, hr⟩ := Option.isSome_iff_exists.mp (moveAssign_null_defined cfg w i j ci cj hij hi hn hj ht)
  obtain ⟨w1, evs⟩ := r
  obtain ⟨h1, h2, h3, _⟩ := moveAssign_spec cfg wf i j hij ci cj hi hj hr
  exact ⟨w1, evs, hr, h1, h3, h2⟩

/-- **"array-like containers are reusable immediately"**: when the manager lives inside the object and no
constructor block exists (Array, SegmentedArray, containers with a stateless inline crew), the moved-from object is
an ordinary usable empty object: every mutation is defined on it at once. -/
theorem C14_null_reusable_arraylike (cfg : Cfg) (hc : cfg.k.crewPtr = false) (ha : cfg.k.ctorAux = 0)
    {w w1 : World} {evs : List Ev} (b a : Nat) (h : step cfg w (.moveCtor b a) = some (w1, evs))
    (s : Cont) (hs : w.objs a = some s) (hm : s.mgr.isSome = true) :
    w1.objs a = some (nullOf cfg.k s) ∧ usable cfg.k (nullOf cfg.k s) = true ∧
      ∀ inl cells cap, (step cfg w1 (.mutate a inl cells cap)).isSome = true := by
  obtain ⟨s', h1, _, _, _, h5, _⟩ := moveCtor_spec cfg b a h
  rw [hs] at h1; cases h1
  have hu := null_usable_inline cfg.k hc ha s hm
  exact ⟨h5, hu, fun inl cells cap => mutate_defined cfg w1 a _ h5 hu inl cells cap⟩

/-! ## (c) self-assignment and self-swap -/

/-- **C14 "self-assignment changes nothing"**: `x = x` (native and wrapper forms), `x = std::move(x)` (native and
wrapper forms) and `x.Swap(x)` leave the whole world — every object and every block — as it was. -/
theorem C14_self_assign_id (cfg : Cfg) (w : World) (i : Nat) (c : Cont) (hi : w.objs i = some c)
    (ht : w.objs cfg.t1 = none) (lay : Lay) (keep : Nat) :
    step cfg w (.copyAssign i i) = some (w, []) ∧
    (∃ evs, step cfg w (.moveAssign i i) = some (w, evs) ∧ (cfg.k.movable = true → ∀ e, Ev.copy e ∉ evs) ∧
        (∀ m h, Ev.alloc m h ∉ evs) ∧ (∀ m h, Ev.free m h ∉ evs)) ∧
    step cfg w (.wCopyAssign i i) = some (w, []) ∧
    step cfg w (.wMoveAssign i i lay keep) = some (w, []) ∧
    step cfg w (.swap i i) = some (w, []) := by
  refine ⟨copyAssign_self cfg w i, ⟨_, moveAssign_self cfg w i c hi ht, ?_, ?_, ?_⟩, wCopyAssign_self cfg w i,
    wMoveAssign_self cfg w i lay keep, ?_⟩
  · intro hm e; split
    · simp
    · exact copy_not_mem_relocEvs cfg.k hm _ e
  · intro m h; split
    · simp
    · exact alloc_not_mem_relocEvs cfg.k _ m h
  · intro m h; split
    · simp
    · exact free_not_mem_relocEvs cfg.k _ m h
  · cases hk : cfg.k.arrayStyle with
    | true => exact swap_self_array cfg hk w i
    | false => exact swap_self_ptr cfg hk w i c hi

/-! ## (d) stateful managers: who allocates, who frees, and the element-wise move -/

/-- **C14 "each container keeps allocating and freeing through the manager dictated by the std propagation
rules"**, decision table: for every combination of `propagate_on_container_copy_assignment`,
`propagate_on_container_move_assignment`, `propagate_on_container_swap`, `is_empty` and every pair of allocator
identities, the allocator the wrappers end up with and the way they transfer the elements (`steal` / `elementwise`
/ `copyAll`) are those of the standard's allocator-aware container requirements ([container.alloc.reqmts]:
`a = t`, `a = rv`, `X(rv, m)`). Instances of an empty allocator type are all equal (hypothesis `he`). -/
theorem C14_propagation_table (t : Traits) (dst src : Mgr) (he : t.isEmpty = true → dst = src) :
    momoCopyAssign t dst src = stdCopyAssign t dst src ∧
    momoMoveAssign t dst src = stdMoveAssign t dst src ∧
    ∀ a, momoMoveCtorA src a = stdMoveCtorA src a := by
  obtain ⟨pocca, pocma, pocs, isEmpty⟩ := t
  refine ⟨?_, ?_, fun _ => rfl⟩
  · cases isEmpty <;> cases pocca <;> simp_all [momoCopyAssign, stdCopyAssign]
  · cases isEmpty <;> cases pocma <;> simp_all [momoMoveAssign, stdMoveAssign] <;>
      (by_cases hds : dst = src <;> simp [hds, eq_comm])

/-- `MemManagerStd::operator=(MemManagerStd&&)` / `MemManagerProxy::Assign`, all 16 combinations of
(`is_nothrow_move_assignable`, POCMA, POCCA, POCS): the overload selected uses only an allocator operation that the
allocator requirements forbid to throw for these traits, and whatever path is taken the destination afterwards has
the identity of the source manager. -/
theorem C14_manager_assign_table : ∀ nma pocma pocca pocs : Bool,
    pathNoThrow nma pocma pocca pocs (assignPath nma pocma pocca pocs) = true ∧
    ∀ dst src, pathResult dst src (assignPath nma pocma pocca pocs) = src := by
  intro nma pocma pocca pocs
  refine ⟨by revert nma pocma pocca pocs; decide, fun dst src => ?_⟩
  cases assignPath nma pocma pocca pocs <;> rfl

/-- **wrapper copy assignment `i = j`**, every trait combination: `i` afterwards is a usable object with `j`'s
contents whose manager is the one the standard's table names (`j`'s if POCCA, else the one `i` had); `j` is
unchanged; well-formedness of the result says that every block `i` now holds was allocated by that manager. -/
theorem C14_wrapper_copy_assign (cfg : Cfg) (hrb : RebuildOk cfg.k) {w w1 : World} {evs : List Ev} (wf : WF w)
    (i j : Nat) (hij : i ≠ j) (ci cj : Cont) (mi mj : Mgr) (hi : w.objs i = some ci) (hj : w.objs j = some cj)
    (hmi : ci.mgr = some mi) (hmj : cj.mgr = some mj) (he : cfg.isEmpty = true → mi = mj)
    (h : step cfg w (.wCopyAssign i j) = some (w1, evs)) :
    ∃ t, w1.objs i = some t ∧
      t.mgr = some (stdCopyAssign ⟨cfg.pocca, cfg.pocma, cfg.pocs, cfg.isEmpty⟩ mi mj).alloc ∧
      usable cfg.k t = true ∧ contents w1.heap t = contents w.heap cj ∧
      w1.objs j = some cj ∧ contents w1.heap cj = contents w.heap cj ∧
      (∀ h ∈ t.owned, ∃ cell, w1.heap.get h = some cell ∧ some cell.mgr = t.mgr) ∧ WF w1 := by
  obtain ⟨t, a, ha, h1, h2, h3, h4, h5, h6⟩ := wCopyAssign_spec cfg hrb wf i j hij ci cj hi hj h
  have wf1 := (step_sound cfg wf _ h).1
  have hta : a = (stdCopyAssign ⟨cfg.pocca, cfg.pocma, cfg.pocs, cfg.isEmpty⟩ mi mj).alloc := by
    simp only [stdCopyAssign]
    cases hE : cfg.isEmpty <;> cases hP : cfg.pocca <;>
      simp_all [allocOf]
  refine ⟨t, h1, by rw [h2, hta], h3, h4, h5, h6, ?_, wf1⟩
  intro x hx
  obtain ⟨cell, hg, hm⟩ := (wf1.ok i t h1).live x hx
  exact ⟨cell, hg, hm.symm⟩

/-- wrapper copy assignment **to a moved-from wrapper** (null crew pointer) when the allocator propagates on copy
assignment or is empty — the case F15 leaves defined: `i` becomes a usable object with `j`'s allocator and contents. -/
theorem C14_wrapper_copy_assign_to_moved_from (cfg : Cfg) (hrb : RebuildOk cfg.k) {w w1 : World} {evs : List Ev} (wf : WF w)
    (i j : Nat) (hij : i ≠ j) (ci cj : Cont) (mj : Mgr) (hi : w.objs i = some ci) (hj : w.objs j = some cj)
    (hmj : cj.mgr = some mj) (hp : (cfg.isEmpty || cfg.pocca) = true)
    (h : step cfg w (.wCopyAssign i j) = some (w1, evs)) :
    ∃ t, w1.objs i = some t ∧ t.mgr = some mj ∧ usable cfg.k t = true ∧ contents w1.heap t = contents w.heap cj ∧
      w1.objs j = some cj ∧ contents w1.heap cj = contents w.heap cj ∧ WF w1 := by
  obtain ⟨t, a, ha, h1, h2, h3, h4, h5, h6⟩ := wCopyAssign_spec cfg hrb wf i j hij ci cj hi hj h
  have : a = mj := by
    simp only [hp, if_true, allocOf, hj, Option.bind_some, hmj, Option.some.injEq] at ha
    exact ha.symm
  exact ⟨t, h1, by rw [h2, this], h3, h4, h5, h6, (step_sound cfg wf _ h).1⟩

/-- **wrapper move construction with an equal allocator `W j(std::move(i), alloc)`, `alloc == i.get_allocator()`**:
the nested container is moved — `j` is the former object, no element event for containers without internal buffer. -/
theorem C14_wrapper_move_ctor_equal_steals (cfg : Cfg) {w w1 : World} {evs : List Ev} (j i : Nat) (a : Mgr) (lay : Lay)
    (keep : Nat) (ha : allocOf w i = some a) (h : step cfg w (.wMoveCtorA j i a lay keep) = some (w1, evs)) :
    ∃ s, w.objs i = some s ∧ w1.heap = w.heap ∧ w1.objs j = some s ∧ w1.objs i = some (nullOf cfg.k s) ∧
      (cfg.k.movable = true → ∀ e, Ev.copy e ∉ evs) ∧ (∀ m h, Ev.alloc m h ∉ evs) ∧ (∀ m h, Ev.free m h ∉ evs) := by
  have h' : step cfg w (.moveCtor j i) = some (w1, evs) := by
    simpa [step, expand, createFrom, ha] using h
  obtain ⟨s, h1, _, h3, h4, _, h6, _, _, _, h10, h11, h12, _⟩ := C14_move_ctor_exact cfg j i h'
  exact ⟨s, h1, h3, h4, h6, h10, h11, h12⟩

/-- full statement of the element-wise clause: the target ends up with the source's elements (as a multiset — the
order inside an unordered container is not part of its value) -/
def C14_unequal_move_elementwise : Prop :=
  ∀ (cfg : Cfg) (w w1 : World) (evs : List Ev) (j i : Nat) (a ai : Mgr) (lay : Lay) (keep : Nat) (ci : Cont),
    WF w → w.objs i = some ci → ci.mgr = some ai → ai ≠ a →
    step cfg w (.wMoveCtorA j i a lay keep) = some (w1, evs) →
    ∃ t, w1.objs j = some t ∧ (contents w1.heap t).Perm (contents w.heap ci) ∧
      evs.filter isXfer = xferEvs cfg.k (contents w.heap ci)

/-- **C14 "a move between unequal managers transfers the elements one by one"**, `W j(std::move(i), alloc)` with
`alloc != i.get_allocator()` (`pvCreateArray / Set / Map / MultiMap`): there are exactly as many element
constructions as the source has elements, one per element and in the source's iteration order — move constructions
if the element type is movable; **no block changes owner**: every block of the target is new (handle ≥ the old
heap limit) and obtained from `alloc`, every block freed is a body block of the source and is freed through the
*source's* allocator; the source keeps its allocator and its constructor blocks, is empty afterwards and stays an
ordinary (not null) object; no third object changes.
*Partial*: the contents of the target are whatever layout `lay` the element-wise insertion produced (a parameter of
the model: the insertion algorithms belong to C01 / C02 / C05); that this layout holds exactly the source's
elements — the remaining conjunct of `C14_unequal_move_elementwise` — is checked on every run by the harness's
reference-contents oracle, not proved here. -/
theorem C14_unequal_move_elementwise_partial (cfg : Cfg) {w w1 : World} {evs : List Ev} (wf : WF w) (j i : Nat)
    (a ai : Mgr) (lay : Lay) (keep : Nat) (ci : Cont) (hi : w.objs i = some ci) (hm : ci.mgr = some ai) (hne : ai ≠ a)
    (h : step cfg w (.wMoveCtorA j i a lay keep) = some (w1, evs)) :
    evs.filter isXfer = xferEvs cfg.k (contents w.heap ci) ∧
    (evs.filter isXfer).length = (contents w.heap ci).length ∧
    (cfg.k.movable = true → ∀ e, Ev.copy e ∉ evs) ∧
    (∃ t, w1.objs j = some t ∧ t.mgr = some a ∧ usable cfg.k t = true ∧
        contents w1.heap t = lay.inl ++ lay.cells.flatten ∧ (∀ h ∈ t.owned, w.heap.next ≤ h)) ∧
    (∃ ci', w1.objs i = some ci' ∧ ci'.mgr = some ai ∧ ci'.aux = ci.aux ∧ contents w1.heap ci' = []) ∧
    (∀ m h, Ev.alloc m h ∈ evs → m = a ∧ w.heap.next ≤ h) ∧
    (∀ m h, Ev.free m h ∈ evs → m = ai ∧ h ∈ ci.body) ∧
    (∀ x c, x ≠ i → x ≠ j → w.objs x = some c → w1.objs x = some c ∧ contents w1.heap c = contents w.heap c) ∧
    WF w1 := by
  have hal : allocOf w i = some ai := by simp [allocOf, hi, hm]
  simp only [step, expand, createFrom, hal, hne, if_false] at h
  obtain ⟨wf1, _, _, ht, ⟨ci', hc1, hc2, hc3, _, hc5⟩, hoth, hcon, hx, hA, hF⟩ :=
    xferUnequal_spec cfg.k wf j i a ai lay keep ci hi hm h
  refine ⟨hx, by rw [hx]; simp [xferEvs], ?_, ht, ⟨ci', hc1, hc2, hc3, hc5⟩, hA, hF, ?_, wf1⟩
  · intro hmv e he
    have : Ev.copy e ∈ evs.filter isXfer := List.mem_filter.mpr ⟨he, rfl⟩
    rw [hx] at this
    obtain ⟨x, _, hxe⟩ := List.mem_map.mp this
    simp [hmv] at hxe
  · intro x c hxi hxj hc
    exact ⟨(hoth x hxi hxj).trans hc, hcon x c hxi hxj hc⟩

/-- **"freeing through the manager"**: the destructor of an object gives back every block the object owns, each
exactly once, and each *through the manager that allocated it* (the heap remembers the allocating manager of every
block); afterwards none of these blocks is live, no other block is touched. -/
theorem C14_destroy_frees_through_allocator (cfg : Cfg) {w w1 : World} {evs : List Ev} (wf : WF w) (i : Nat) (c : Cont)
    (m : Mgr) (hi : w.objs i = some c) (hm : c.mgr = some m) (h : step cfg w (.destroy i) = some (w1, evs)) :
    evs.filterMap (fun e => match e with | .free m' h' => some (m', h') | _ => none) = c.owned.map (fun h' => (m, h')) ∧
    c.owned.Nodup ∧
    (∀ h' ∈ c.owned, ∃ cell, w.heap.get h' = some cell ∧ cell.mgr = m) ∧
    (∀ h' ∈ c.owned, w1.heap.get h' = none) ∧ (∀ h', h' ∉ c.owned → w1.heap.get h' = w.heap.get h') ∧
    (∀ m' h', Ev.alloc m' h' ∉ evs) := by
  simp only [step, expand, run_single] at h
  obtain ⟨rfl, rfl⟩ := destroy_some_inv hi hm h
  have ok := wf.ok i c hi
  refine ⟨?_, ok.nodup, ?_, ?_, ?_, ?_⟩
  · rw [List.filterMap_append]
    have h1 : (destroyEvs cfg.k (contents w.heap c)).filterMap
        (fun e => match e with | .free m' h' => some (m', h') | _ => none) = [] := by
      apply List.filterMap_eq_nil_iff.mpr
      intro e he; obtain ⟨x, rfl⟩ := mem_destroyEvs he; rfl
    rw [h1, List.nil_append, List.filterMap_map]
    induction c.owned with
    | nil => rfl
    | cons a r ih => simp [ih]
  · intro h' hh
    obtain ⟨cell, hg, hmm⟩ := ok.live h' hh
    rw [hm] at hmm; cases hmm
    exact ⟨cell, hg, rfl⟩
  · intro h' hh; show (freeCells c.owned w.heap).get h' = none
    rw [freeCells_get]; simp [hh]
  · intro h' hh; show (freeCells c.owned w.heap).get h' = _
    rw [freeCells_get]; simp [hh]
  · intro m' h' he
    rcases List.mem_append.mp he with he | he
    · obtain ⟨x, hx⟩ := mem_destroyEvs he; cases hx
    · simp at he

/-- full statement of the element-wise clause for move assignment: when the standard's table says *element-wise*,
`i` ends up with `j`'s elements -/
def C14_wrapper_move_assign_elementwise : Prop :=
  ∀ (cfg : Cfg) (w w1 : World) (evs : List Ev) (i j : Nat) (ci cj : Cont) (mi mj : Mgr) (lay : Lay) (keep : Nat),
    WF w → i ≠ j → w.objs i = some ci → w.objs j = some cj → ci.mgr = some mi → cj.mgr = some mj →
    (cfg.isEmpty = true → mi = mj) →
    (stdMoveAssign ⟨cfg.pocca, cfg.pocma, cfg.pocs, cfg.isEmpty⟩ mi mj).how = .elementwise →
    step cfg w (.wMoveAssign i j lay keep) = some (w1, evs) →
    ∃ t, w1.objs i = some t ∧ (contents w1.heap t).Perm (contents w.heap cj)

/-- **wrapper move assignment `i = std::move(j)`**, every trait combination and every pair of allocator identities
(`o` = the row of the standard's table): the world stays well-formed; when the table says *steal* (POCMA, or equal
allocators) `i` becomes exactly the former `j` — whose manager is the tabled one —, `j` is left in the null state,
nothing is allocated, no movable element is copy-constructed and only `i`'s former blocks are released, through the
allocator `i` had; when the table says *element-wise* (no propagation, unequal allocators) `i` ends as a usable
object with the tabled allocator (its own) whose blocks are all new, `j` keeps its allocator and its constructor
blocks and is empty but not null, the element constructions start with exactly one per element of `j` in `j`'s
iteration order (`rest`: relocation of an `Array`'s internal items when the temporary is handed to `*this`), no
movable element is copy-constructed, every allocation goes through the tabled allocator, and every block freed is
a body block of `j` freed through `j`'s allocator or a former block of `i` freed through `i`'s: **no block changes
owner**. No third object changes.
*Partial* in the same way as `C14_unequal_move_elementwise_partial`: in the element-wise case the contents of `i` are
the reported layout `lay`; `C14_wrapper_move_assign_elementwise` (they are `j`'s elements) is checked at run time only. -/
theorem C14_wrapper_move_assign_partial (cfg : Cfg) {w w1 : World} {evs : List Ev} (wf : WF w) (i j : Nat) (hij : i ≠ j)
    (ci cj : Cont) (mi mj : Mgr) (hi : w.objs i = some ci) (hj : w.objs j = some cj)
    (hmi : ci.mgr = some mi) (hmj : cj.mgr = some mj) (he : cfg.isEmpty = true → mi = mj) (lay : Lay) (keep : Nat)
    (h : step cfg w (.wMoveAssign i j lay keep) = some (w1, evs)) :
    WF w1 ∧
    ((stdMoveAssign ⟨cfg.pocca, cfg.pocma, cfg.pocs, cfg.isEmpty⟩ mi mj).how = .steal →
      w1.objs i = some cj ∧ cj.mgr = some (stdMoveAssign ⟨cfg.pocca, cfg.pocma, cfg.pocs, cfg.isEmpty⟩ mi mj).alloc ∧
      contents w1.heap cj = contents w.heap cj ∧ w1.objs j = some (nullOf cfg.k cj) ∧
      (cfg.k.movable = true → ∀ e, Ev.copy e ∉ evs) ∧ (∀ m h, Ev.alloc m h ∉ evs) ∧
      (∀ m h, Ev.free m h ∈ evs → m = mi ∧ h ∈ ci.owned)) ∧
    ((stdMoveAssign ⟨cfg.pocca, cfg.pocma, cfg.pocs, cfg.isEmpty⟩ mi mj).how = .elementwise →
      (∃ t, w1.objs i = some t ∧
          t.mgr = some (stdMoveAssign ⟨cfg.pocca, cfg.pocma, cfg.pocs, cfg.isEmpty⟩ mi mj).alloc ∧
          usable cfg.k t = true ∧ contents w1.heap t = lay.inl ++ lay.cells.flatten ∧
          (∀ h ∈ t.owned, w.heap.next ≤ h)) ∧
      (∃ cj', w1.objs j = some cj' ∧ cj'.mgr = some mj ∧ cj'.aux = cj.aux ∧ contents w1.heap cj' = []) ∧
      (∃ rest, evs.filter isXfer = xferEvs cfg.k (contents w.heap cj) ++ rest) ∧
      (cfg.k.movable = true → ∀ e, Ev.copy e ∉ evs) ∧
      (∀ m h, Ev.alloc m h ∈ evs →
          m = (stdMoveAssign ⟨cfg.pocca, cfg.pocma, cfg.pocs, cfg.isEmpty⟩ mi mj).alloc ∧ w.heap.next ≤ h) ∧
      (∀ m h, Ev.free m h ∈ evs → (m = mj ∧ h ∈ cj.body) ∨ (m = mi ∧ h ∈ ci.owned))) ∧
    (stdMoveAssign ⟨cfg.pocca, cfg.pocma, cfg.pocs, cfg.isEmpty⟩ mi mj).how ≠ .copyAll ∧
    (∀ x c, x ≠ i → x ≠ j → x ≠ tmpT cfg → w.objs x = some c →
        w1.objs x = some c ∧ contents w1.heap c = contents w.heap c) := by
  have htab := (C14_propagation_table ⟨cfg.pocca, cfg.pocma, cfg.pocs, cfg.isEmpty⟩ mi mj he).2.1
  obtain ⟨g0, g1, g2, g3⟩ := wMoveAssign_spec cfg wf i j hij ci cj mi mj hi hj hmi hmj lay keep _ rfl h
  rw [← htab]
  simp only [momoMoveAssign] at *
  refine ⟨g0, ?_, ?_, ?_, g3⟩
  · intro hs
    by_cases hst : mj = if (cfg.isEmpty || cfg.pocma) = true then mj else mi
    · obtain ⟨q1, q2, q3, q4, q5, q6⟩ := g1 hst
      exact ⟨q1, by rw [hmj, ← hst], q2, q3, q4, q5, q6⟩
    · rw [if_neg hst] at hs; cases hs
  · intro hs
    by_cases hst : mj = if (cfg.isEmpty || cfg.pocma) = true then mj else mi
    · rw [if_pos hst] at hs; cases hs
    · exact g2 hst
  · by_cases hq : mj = if (cfg.isEmpty || cfg.pocma) = true then mj else mi
    · rw [if_pos hq]; exact fun e => How.noConfusion e
    · rw [if_neg hq]; exact fun e => How.noConfusion e

/-- known finding F15, as the model shows it: `operator=` of a stdish wrapper whose crew pointer is null (moved-from
set / map / unordered_*) evaluates `get_allocator()` of `*this` when the allocator does not propagate on that
assignment — the operation is **undefined** in the model (the driver answers `crash`, and so does the library).
Hence "assignable" holds for moved-from wrappers only when the allocator propagates (or is empty); the native
containers are covered unconditionally by `C14_null_copy_assign` / `C14_null_move_assign`. -/
theorem C14_F15_wrapper_assign_undefined (cfg : Cfg) (w : World) (i j : Nat) (ci : Cont) (hij : i ≠ j)
    (hi : w.objs i = some ci) (hm : ci.mgr = none) (lay : Lay) (keep : Nat) :
    ((cfg.isEmpty || cfg.pocca) = false → step cfg w (.wCopyAssign i j) = none) ∧
    ((cfg.isEmpty || cfg.pocma) = false → step cfg w (.wMoveAssign i j lay keep) = none) :=
  ⟨fun hp => wCopyAssign_null_crash cfg w i j ci hij hi hm hp,
   fun hp => wMoveAssign_null_crash cfg w i j ci hij hi hm hp lay keep⟩

/-! ## (e) histories -/

/-- **history theorem**: for every configuration and every finite list of operations (constructions, copies, moves,
swaps, assignments of both kinds, wrapper operations, Clear, arbitrary mutations, destructions, in any order, on any
slots) that is defined from the initial world, the resulting world is well-formed: every handle an object holds
refers to a live block (no dangling pointer), that block was allocated by the manager the object holds *now* (so it
will be freed through the manager that allocated it), no object holds a block twice (no double free), and no two
objects share a block (deep copies, stealing moves). -/
theorem C14_history (cfg : Cfg) (ops : List Op) (w : World) (h : runOps cfg World.init ops = some w) : WF w :=
  (runOps_sound cfg WF.init ops h).1

/-- `C14_history`, spelled out -/
theorem C14_history_ownership (cfg : Cfg) (ops : List Op) (w : World) (h : runOps cfg World.init ops = some w) :
    (∀ i c, w.objs i = some c → c.owned.Nodup ∧
        ∀ b ∈ c.owned, ∃ cell, w.heap.get b = some cell ∧ c.mgr = some cell.mgr) ∧
    (∀ i j c d, i ≠ j → w.objs i = some c → w.objs j = some d → ∀ b, b ∈ c.owned → b ∉ d.owned) := by
  have wf := C14_history cfg ops w h
  exact ⟨fun i c hc => ⟨(wf.ok i c hc).nodup, (wf.ok i c hc).live⟩, wf.disj⟩

/-- **history theorem for the managers' ledger** ("each container keeps … freeing through the manager"): for every
configuration and every finite list of operations defined from the initial world, the *whole trace* of manager
events passes the ledger check the harness applies to the real managers — every `Allocate` hands out a block that
is not live, every `Deallocate` gives back a live block *to the manager identity that allocated it* (hence never
twice, never a foreign or unknown block) — and the blocks live at the end, with their allocating managers, are
exactly those of the final heap. -/
theorem C14_history_ledger (cfg : Cfg) (ops : List Op) (w : World) (evs : List Ev)
    (h : runOpsEv cfg World.init ops = some (w, evs)) :
    WF w ∧ ledgerRun (fun _ => none) evs = some (ownerOf w.heap) := by
  have := runOpsEv_ledger cfg WF.init ops h
  rwa [show ownerOf World.init.heap = fun _ => none from ownerOf_empty] at this

/-- **nothing is left behind**: in every reachable world each live block is owned by a live object (exactly one, by
`C14_history`); so once all objects have been destroyed no block is live — the ledger of `C14_history_ledger` is
empty, whatever mixture of copies, moves, swaps and assignments between whatever managers went before. -/
theorem C14_history_no_leak (cfg : Cfg) (ops : List Op) (w : World) (h : runOps cfg World.init ops = some w) :
    (∀ b cell, w.heap.get b = some cell → ∃ i c, w.objs i = some c ∧ b ∈ c.owned) ∧
    ((∀ i, w.objs i = none) → ∀ b, w.heap.get b = none ∧ ownerOf w.heap b = none) := by
  have tt := runOps_tight cfg WF.init Tight.init ops h
  refine ⟨tt, fun hdead b => ?_⟩
  have hb : w.heap.get b = none := by
    cases hg : w.heap.get b with
    | none => rfl
    | some cell =>
      obtain ⟨i, c, hc, _⟩ := tt b cell hg
      rw [hdead i] at hc; cases hc
  exact ⟨hb, by simp [ownerOf, hb]⟩

/-- the hypothesis `RebuildOk` holds for the copy layouts of every driven container kind: one block (Array,
HashSet / HashMap / HashMultiMap, DataTable), node by node (TreeSet / TreeMap), pointer array + full segments
(SegmentedArray, for every segment-size function) -/
theorem C14_rebuild_layouts (k : Kind) :
    (k.rebuild = rebuildOne → RebuildOk k) ∧ (k.rebuild = rebuildSame → RebuildOk k) ∧
    (∀ sizes, k.rebuild = rebuildSeg sizes → RebuildOk k) :=
  ⟨rebuildOk_one k, rebuildOk_same k, fun sizes => rebuildOk_seg k sizes⟩

/-! ## non-vacuity: concrete worlds with several containers and a stateful manager -/

/-- a HashSet-like kind (crew pointer, one-block copy layout), stateful manager whose copy constructor adds 100 to
the identity (as `select_on_container_copy_construction` of the harness's allocator), POCMA only -/
def exCfg : Cfg := { k := { crewPtr := true, rebuild := rebuildOne }, sel := fun m => m + 100, pocma := true }

/-- an `Array`-like kind with internal capacity 2 and copy-only elements -/
def exArr : Cfg := { k := { icap := 2, arrayStyle := true, movable := false, rebuild := rebuildOne } }

def exOps : List Op :=
  [.new 0 1, .mutate 0 [] [[1, 2], [3]] 0, .new 1 2, .mutate 1 [] [[7]] 0, .copyCtor 2 0, .moveAssign 1 0,
   .wMoveCtorA 3 2 5 ⟨[], [[3, 2, 1]], 0⟩ 0, .swap 1 3, .destroy 0]

/-- (manager, contents) of the slots 0..3 -/
def exSummary (w : World) : List (Option (Option Mgr × List Elem)) :=
  (List.range 4).map (fun i => (w.objs i).map (fun c => (c.mgr, contents w.heap c)))

example : RebuildOk exCfg.k := rebuildOk_one _ rfl
example : RebuildOk exArr.k := rebuildOk_one _ rfl

/-- the history is defined: two sets with managers 1 and 2 are filled; 0 is copied into 2 (manager 101); 1 takes over
0 (0 is left with a null crew); 2 is moved into 3 under the unequal allocator 5, element by element; 1 and 3 are
swapped; the moved-from 0 is destroyed -/
example : (runOps exCfg World.init exOps).map exSummary =
    some [none, some (some 5, [3, 2, 1]), some (some 101, []), some (some 1, [1, 2, 3])] := by decide

/-- hypotheses of `C14_copy_ctor` / `C14_copy_independent` / `C14_copy_destroy_either`: a non-empty two-generation
source and a second live object -/
example : ((runOps exCfg World.init (exOps.take 4)).bind (fun w => step exCfg w (.copyCtor 2 0))).isSome = true := by decide

/-- hypotheses of `C14_unequal_move_elementwise_partial`: source with manager 101 and three elements, target
allocator 5; exactly three element moves, no copy -/
example : ((runOps exCfg World.init (exOps.take 6)).bind
    (fun w => (step exCfg w (.wMoveCtorA 3 2 5 ⟨[], [[3, 2, 1]], 0⟩ 0)).map (fun r => r.2.filter isXfer))) =
    some [Ev.move 1, Ev.move 2, Ev.move 3] := by decide

/-- hypotheses of the `C14_null_*` theorems: after `1 = std::move(0)` object 0 is alive, in the null state, with a
null crew pointer; and F15: wrapper copy assignment to it is undefined when POCCA = false -/
example : ((runOps exCfg World.init (exOps.take 6)).map
    (fun w => (w.objs 0).map (fun c => (c.mgr.isNone, c.owned.isEmpty, c.inl.isEmpty)))) =
    some (some (true, true, true)) := by decide
example : ((runOps exCfg World.init (exOps.take 6)).map
    (fun w => ((step exCfg w (.wCopyAssign 0 1)).isSome, (step exCfg w (.copyAssign 0 1)).isSome))) =
    some (false, true) := by decide

/-- the ledger accepts the whole event trace of the example history, and one block-owning object of each of the
managers 1, 5, 101 is left -/
example : ((runOpsEv exCfg World.init exOps).bind (fun r => (ledgerRun (fun _ => none) r.2).map
    (fun L => (List.range 40).filterMap L))).map (fun l => (l.length, l.contains 1, l.contains 5, l.contains 101, l.contains 2)) =
    some (6, true, true, true, false) := by decide

/-- `Array` with items in the internal buffer: moving relocates them (copy-only elements: by copy + destroy), the
moved-from array is reusable at once -/
example : (runOps exArr World.init
    [.new 0 1, .mutate 0 [4, 5] [] 0, .moveCtor 1 0, .mutate 0 [] [[6, 7, 8]] 3, .copyAssign 1 0, .swap 0 1]).map exSummary =
    some [some (some 1, [6, 7, 8]), some (some 1, [6, 7, 8]), none, none] := by decide

end Momo.Val
