import Momo.Model.Val
/-! placeholder, replaced below -/
