import Momo.Proof.RowsXfer
import Momo.Proof.RowsHist
import Momo.Proof.RowsHB
/-!
# C19 — Detached table rows can be destroyed on any thread while the owner keeps working

Property theorems only. Model: `Momo/Model/Rows.lean`; lemmas: `Momo/Proof/Rows*.lean`.

Statement (properties.jsonl): Row objects detached from a DataTable (created by NewRow or returned by
Extract) may be moved to and destroyed on other threads concurrently with each other and with the owning
thread creating, adding and extracting rows: under every interleaving each row's storage is reclaimed by the
table exactly once, never while still in use, and is safely reused; the operations involved contain no data
race.

Every theorem quantifies over the number of threads `n`, over every schedule `acts : List Act` (any
interleaving of the small steps of all threads, of any length, with any number of rows, including spurious
failures of the weak CAS, arbitrary garbage left in reused blocks and arbitrary answers of the pool) and is
proved by induction over the schedule. Sequential consistency of the three atomic operations on `freeRaws`
is the semantics of `run` (one global order of actions): this is an assumption about `std::atomic`'s default
memory order, re-checked on the source text by T1 (`Extracted.rowDtorShape` …).
-/
namespace Momo.Rows

/-- **T1 tie.** The statements of `~DataRow`, `pvDeallocateFreeRaws`, `pvAllocateRaw` that the model mirrors are
the ones in the current headers: one atomic load + one `compare_exchange_weak` in a loop, one `exchange(nullptr)`,
`std::atomic<void*>`, no explicit memory order anywhere in DataRow.h / DataTable.h, and no further use of the
list head. (The extractor reports `missing` when any of these changes; this theorem then no longer builds.) -/
theorem C19_source_shape :
    Extracted.rowDtorShape = 1 ∧ Extracted.tableTakeAllShape = 1 ∧ Extracted.tableAllocRawShape = 1 ∧
    Extracted.rowFreeRawsAtomicTypedef = 1 ∧ Extracted.tableFreeRawsAtomicTypedef = 1 ∧
    Extracted.rowExplicitMemoryOrders = 0 ∧ Extracted.tableExplicitMemoryOrders = 0 ∧
    Extracted.rowFreeRawsUses = 9 ∧ Extracted.tableFreeRawsUses = 7 := by
  decide

/-- **C19 `chain_inv`.** After every schedule: the chain reachable from `freeRaws` through the blocks' first
words is exactly the ghost list `L` (for every fuel ≥ its length: the chain ends in null, it has no cycle), it is
duplicate-free, none of its blocks is anywhere else (in a running `~DataRow`, in a detached row, in the table, in
the pool, in the owner's walk), and it holds exactly the blocks pushed and not yet taken. The same for the chain
the owner took with `exchange` and is walking (`cur`, `W`). -/
theorem C19_chain_inv (n : Nat) (acts : List Act) (s : St) (h : run (init n) acts = some s) :
    (∀ fuel, s.L.length ≤ fuel → chainFrom s.next fuel s.head = s.L) ∧
    (∀ fuel, s.W.length ≤ fuel → chainFrom s.next fuel s.cur = s.W) ∧
    (s.L ++ s.W).Nodup ∧
    (∀ r, r ∈ s.L ∨ r ∈ s.W → r ∉ inflight s ∧ r ∉ detRows s ∧ r ∉ s.table ∧ r ∉ s.pool) ∧
    (∀ r, s.log.count (Ev.pushed r) = s.log.count (Ev.taken r) + (if r ∈ s.L then 1 else 0)) := by
  have hI := RInv_run n acts s h
  refine ⟨?_, ?_, ?_, ?_, ?_⟩
  · intro fuel hf; rw [hI.headL]; exact chainFrom_linked s.L fuel hI.linkL hf
  · intro fuel hf; rw [hI.curW]; exact chainFrom_linked s.W fuel hI.linkW hf
  · rw [List.nodup_iff_count]; intro r
    have := count_le_places hI r
    simp only [List.count_append]; omega
  · intro r hr
    have hc := count_le_places hI r
    have : 0 < s.L.count r + s.W.count r := by
      rcases hr with hr | hr
      · have := count_pos_of_mem hr; omega
      · have := count_pos_of_mem hr; omega
    exact ⟨not_mem_of_count (by omega), not_mem_of_count (by omega), not_mem_of_count (by omega),
      not_mem_of_count (by omega)⟩
  · intro r
    have h2 := hI.cnt2 r
    have hc := count_le_places hI r
    by_cases hr : r ∈ s.L
    · have := count_pos_of_mem hr; simp only [hr, if_true]; omega
    · have : s.L.count r = 0 := List.count_eq_zero.mpr hr
      simp only [hr, if_false]; omega

/-- **C19 `reclaimed_once`.** After every schedule, at *every moment* of the history (every suffix of the
newest-first event log) and for every block: the pool got the block back as often as it handed it out, or exactly
once less — never twice for one hand-out; and now it got it back exactly as often as it handed it out unless the
block is in use (in the table, in a detached row, in a running `~DataRow`, on the free list or in the owner's
walk), in which case exactly one reclamation is outstanding. -/
theorem C19_reclaimed_once (n : Nat) (acts : List Act) (s : St) (h : run (init n) acts = some s) :
    (∀ (l : List Ev) (r : Row), l <:+ s.log →
        l.count (Ev.reclaimed r) ≤ l.count (Ev.created r) ∧ l.count (Ev.created r) ≤ l.count (Ev.reclaimed r) + 1) ∧
    (∀ r, s.log.count (Ev.created r) = s.log.count (Ev.reclaimed r) + (if r ∈ live s then 1 else 0)) := by
  have hI := RInv_run n acts s h
  refine ⟨fun l r hl => HistoryBalanced_run n acts s h l r hl, ?_⟩
  intro r
  have h1 := hI.cnt1 r
  have h2 := live_count_le_one hI r
  by_cases hr : r ∈ live s
  · have := count_pos_of_mem hr; simp only [hr, if_true]; omega
  · have : (live s).count r = 0 := List.count_eq_zero.mpr hr
    simp only [hr, if_false]; omega

/-- **C19, nothing is lost.** In a quiescent state (no thread inside `~DataRow`, free list taken and walked) every
block the pool ever handed out and that is neither a table row nor a live detached row has been given back. -/
theorem C19_all_reclaimed_when_quiescent (n : Nat) (acts : List Act) (s : St) (h : run (init n) acts = some s)
    (hq : inflight s = [] ∧ s.head = none ∧ s.cur = none) (r : Row) (hr : r ∉ s.table ∧ r ∉ detRows s) :
    s.log.count (Ev.created r) = s.log.count (Ev.reclaimed r) := by
  have hI := RInv_run n acts s h
  have hL : s.L = [] := by
    have := hI.headL; rw [hq.2.1] at this
    cases hl : s.L with
    | nil => rfl
    | cons a t => simp [hl] at this
  have hW : s.W = [] := by
    have := hI.curW; rw [hq.2.2] at this
    cases hl : s.W with
    | nil => rfl
    | cons a t => simp [hl] at this
  have h1 := hI.cnt1 r
  have : (live s).count r = 0 := by
    simp only [live, hq.1, hL, hW, List.count_append, List.count_nil]
    have a := List.count_eq_zero.mpr hr.1; have b := List.count_eq_zero.mpr hr.2
    omega
  omega

/-- the block an action gives back to the pool (`mRawMemPool.Deallocate`) -/
def reclaimedBy (s : St) : Act → Option Row
  | .walk _ => s.cur
  | .remove i _ _ => s.table[i]?
  | _ => none

/-- **C19 `not_reclaimed_while_owned`.** Whenever, after any schedule, a step gives block `c` back to the pool
(the owner's walk over the taken chain, or `Remove`), then at that moment no detached row object refers to `c`, no
thread is inside `~DataRow` of `c`, `c` is not (still) on the free list, not already in the pool, only the owner
thread may touch it, and — for the walk — it is not a row of the table. The step logs exactly this reclamation. -/
theorem C19_not_reclaimed_while_owned (n : Nat) (acts : List Act) (s s' : St) (a : Act) (c : Row)
    (h : run (init n) acts = some s) (hs : step s a = some s') (hc : reclaimedBy s a = some c) :
    c ∉ detRows s ∧ c ∉ inflight s ∧ c ∉ s.L ∧ c ∉ s.pool ∧ (∀ t, Holds s t c → t = 0) ∧
    ((∃ g, a = .walk g) → c ∉ s.table) ∧ c ∈ s'.pool ∧ s'.log = Ev.reclaimed c :: s.log := by
  have hI := RInv_run n acts s h
  have hcnt := count_le_places hI c
  have hS := step_sound hs
  cases hS with
  | walk b c' g hm hcur =>
    simp only [reclaimedBy, hcur] at hc; cases hc
    have hW := W_of_cur hI hcur
    have hpos : 0 < s.W.count c := by rw [hW]; simp
    have hH : Holds s 0 c := Or.inl ⟨rfl, Or.inr (Or.inr (by rw [hW]; simp))⟩
    exact ⟨not_mem_of_count (by omega), not_mem_of_count (by omega), not_mem_of_count (by omega),
      not_mem_of_count (by omega), fun t ht => Holds_exclusive hI ht hH, fun _ => not_mem_of_count (by omega),
      List.mem_cons_self, rfl⟩
  | remove i keep g r hm hi =>
    simp only [reclaimedBy, hi] at hc; cases hc
    have hpos : 0 < s.table.count c := count_pos_of_mem (List.mem_of_getElem? hi)
    have hH : Holds s 0 c := Or.inl ⟨rfl, Or.inr (Or.inl (List.mem_of_getElem? hi))⟩
    exact ⟨not_mem_of_count (by omega), not_mem_of_count (by omega), not_mem_of_count (by omega),
      not_mem_of_count (by omega), fun t ht => Holds_exclusive hI ht hH, (fun hg => by obtain ⟨g', hg⟩ := hg; cases hg),
      List.mem_cons_self, rfl⟩
  | _ => simp [reclaimedBy] at hc

/-- **C19, safe reuse.** Whenever, after any schedule, the pool hands block `r` out for a new row, `r` is in use
nowhere (not in the table, in no detached row, in no running `~DataRow`, not on the free list, not in the owner's
walk) and every earlier hand-out of `r` has been reclaimed. Stale copies of `r` in the local variable `headRaw`
of a stalled `~DataRow` may exist (ABA); `C19_chain_inv` holds all the same. -/
theorem C19_reuse_safe (n : Nat) (acts : List Act) (s s' : St) (r : Row) (g : Option Row)
    (h : run (init n) acts = some s) (hs : step s (.alloc r g) = some s') :
    r ∉ live s ∧ s.log.count (Ev.created r) = s.log.count (Ev.reclaimed r) ∧ (r, 0) ∈ s'.det := by
  have hI := RInv_run n acts s h
  have hcnt := count_le_places hI r
  have hS := step_sound hs
  cases hS with
  | alloc r' g' hm hr =>
    have hW : s.W = [] := hI.walkW (by intro b; rw [hm]; simp)
    have hpos := count_pos_of_mem hr
    have hl : (live s).count r = 0 := by
      simp only [live, List.count_append]; omega
    have h1 := hI.cnt1 r
    exact ⟨not_mem_of_count hl, by omega, by simp⟩

/-- **C19 `access_by_owner`.** After every schedule, every non-atomic access to block memory made by an enabled
step (item destruction and the link write in `~DataRow`; the link read and `Deallocate` of the walk; row creation,
`Add`, `Extract`, `Remove`) is made by the one thread that holds the block: holders are exclusive, and a block on
the free list is held — hence touched — by nobody. -/
theorem C19_access_by_owner (n : Nat) (acts : List Act) (s s' : St) (a : Act)
    (h : run (init n) acts = some s) (hs : step s a = some s') :
    (∀ t r, (t, r) ∈ accesses s a → Holds s t r) ∧
    (∀ t u r, Holds s t r → Holds s u r → t = u) ∧
    (∀ t r, Holds s t r → r ∉ s.L) := by
  have hI := RInv_run n acts s h
  exact ⟨fun t r ha => access_holds hs hI ha, fun t u r h1 h2 => Holds_exclusive hI h1 h2,
    fun t r h1 => Holds_not_published hI h1⟩

/-- **C19, ownership passes only at synchronisation points.** After every schedule, for a step `s → s'`:
(1) if thread `t` held block `r` before and a different thread `u` holds it after, the step is the explicit move of
the detached row object from `t` to `u` (which the user synchronises);
(2) if `t` held `r` before and nobody holds it after, the step is `t`'s successful CAS, which published `r`;
(3) if nobody held a known block `r` before and `u` holds it after, the step is the owner's `exchange` and
`r` was on the free list (or `r` is fresh memory entering the pool).
With sequentially consistent (at least acquire/release) atomics each of these orders the two threads' accesses;
together with `C19_access_by_owner` this is data-race freedom of the block accesses. -/
theorem C19_ownership_transfer (n : Nat) (acts : List Act) (s s' : St) (a : Act)
    (h : run (init n) acts = some s) (hs : step s a = some s') (r : Row) :
    (∀ t u, Holds s t r → Holds s' u r → t ≠ u → a = .handoff r t u) ∧
    (∀ t, Holds s t r → (∀ u, ¬ Holds s' u r) → a = .dCas t false ∧ r ∈ s'.L ∧ r ∉ s.L) ∧
    (∀ u, (∀ t, ¬ Holds s t r) → Holds s' u r →
        (a = .exchange ∧ u = 0 ∧ r ∈ s.L) ∨ (∃ g, a = .grow r g ∧ u = 0 ∧ r ∉ places s)) := by
  have hI := RInv_run n acts s h
  have hS := step_sound hs
  refine ⟨?_, ?_, ?_⟩
  · intro t u ht hu hne
    rcases Holds_step_back hS hI hu with hb | ⟨_, _, hL⟩ | ⟨t', ha, hd⟩ | ⟨g, _, _, hf⟩
    · exact absurd (Holds_exclusive hI ht hb) hne
    · exact absurd hL (Holds_not_published hI ht)
    · have : t = t' := Holds_exclusive hI ht (Or.inr (Or.inl hd))
      subst this; exact ha
    · have hc := count_le_places hI r
      rcases Holds_count ht with ⟨_, hp⟩ | hd | ⟨pc, hpc, hr⟩
      · exfalso; apply hf; rw [mem_places_iff]
        by_cases h1 : r ∈ s.pool
        · exact Or.inr (Or.inr (Or.inr (Or.inl h1)))
        · by_cases h2 : r ∈ s.table
          · exact Or.inr (Or.inr (Or.inl h2))
          · have a1 := List.count_eq_zero.mpr h1; have a2 := List.count_eq_zero.mpr h2
            exact Or.inr (Or.inr (Or.inr (Or.inr (Or.inr (List.count_pos_iff.mp (by omega))))))
      · exact absurd (mem_places_iff.mpr (Or.inr (Or.inl (mem_detRows hd)))) hf
      · exact absurd (mem_places_iff.mpr (Or.inl (mem_inflight hpc hr))) hf
  · intro t ht hno
    rcases Holds_step_fwd hS hI ht with hf | hf | ⟨u, _, hu⟩
    · exact absurd hf (hno t)
    · exact hf
    · exact absurd hu (hno u)
  · intro u hno hu
    rcases Holds_step_back hS hI hu with hb | hb | ⟨t', _, hd⟩ | hb
    · exact absurd hb (hno u)
    · exact Or.inl hb
    · exact absurd (Or.inr (Or.inl hd)) (hno t')
    · exact Or.inr hb

/-- **C19, the owner's walk is never stuck** and visits exactly the chain it took: while walking, a `walk` step is
enabled iff the taken chain is non-empty, it reclaims its first block and continues with the rest; the loop exit is
enabled iff the chain is exhausted. (No other thread's step changes `W` or the links of its blocks: `C19_chain_inv`
holds after every step of every thread.) -/
theorem C19_walk_progress (n : Nat) (acts : List Act) (s : St) (b : Bool) (g : Option Row)
    (h : run (init n) acts = some s) (hm : s.mpc = .walking b) :
    (∀ c t, s.W = c :: t → ∃ s', step s (.walk g) = some s' ∧ s'.W = t ∧ s'.pool = c :: s.pool ∧ s'.cur = t.head?) ∧
    (s.W = [] → ∃ s', step s .walkEnd = some s') := by
  have hI := RInv_run n acts s h
  constructor
  · intro c t hW
    have hcur : s.cur = some c := by rw [hI.curW, hW]; rfl
    have hl := hI.linkW; rw [hW] at hl
    refine ⟨{ s with cur := s.next c, next := setNext s.next c g, pool := c :: s.pool, W := s.W.tail,
                     log := Ev.reclaimed c :: s.log }, by simp only [step, hm, hcur], by simp [hW], rfl, ?_⟩
    exact Linked_head_next hl
  · intro hW
    have hcur : s.cur = none := by rw [hI.curW, hW]; rfl
    exact ⟨{ s with mpc := if b then .needAlloc else .idle }, by simp only [step, hm, hcur]⟩

/-- **C19, no data race (vector-clock formulation).** Run any schedule together with a FastTrack/TSan-style race
detector (`Momo/Model/RowsHB.lean`): per-thread vector clocks, the atomic operations on `freeRaws` given only
acquire/release strength (loads and failed CAS acquire; successful CAS and `exchange` are acquire+release RMWs), the
explicit move of a row object between threads synchronised by the user, and *every* non-atomic access to a block
(item destruction, link write, link read, pool bookkeeping, row creation/Add/Extract/Remove) treated as a write.
Then no access ever races: each is ordered by happens-before after the previous access to the same block. -/
theorem C19_no_data_race (n : Nat) (acts : List Act) (s : St) (h : run (init n) acts = some s) :
    ∃ hb, runHB (init n) HB.init false acts = some (s, hb, false) := by
  obtain ⟨hb, racy, hr⟩ := runHB_of_run acts (init n) s HB.init false h
  have := runHB_no_race acts (init n) HB.init false s hb racy (RInv_init n) (VInv_init n) hr
  subst this
  exact ⟨hb, hr⟩

/-! ## Non-vacuity: concrete schedules (evaluated by the kernel) -/

/-- the race detector is not vacuous: after thread 1 has begun `~DataRow` of block 1 (its `DestroyRaw` touched the
block), an access by thread 1 itself is ordered, an access by the owner thread or by thread 2 would be reported. -/
example : (runHB (init 3) HB.init false [.newBegin, .grow 1 none, .alloc 1 none, .handoff 1 0 1, .dBegin 1 1]).map
    (fun x => (x.2.1.ordered 1 1, x.2.1.ordered 0 1, x.2.1.ordered 2 1, x.2.2)) = some (true, false, false, false) := by decide

/-- …and once the block went through CAS and `exchange`, the owner's access is ordered again -/
example : (runHB (init 3) HB.init false [.newBegin, .grow 1 none, .alloc 1 none, .handoff 1 0 1, .dBegin 1 1, .dLoad 1, .dWrite 1,
    .dCas 1 false, .takeBegin, .exchange]).map
    (fun x => (x.2.1.ordered 0 1, x.2.1.ordered 2 1, x.1.W)) = some (true, false, [1]) := by decide


/-- ABA: thread 2 stalls between its load (head = block 1) and its CAS; meanwhile the owner takes the list, reclaims
block 1, re-creates a row in block 1, thread 1 destroys that row and pushes block 1 again. Thread 2's CAS then
*succeeds* against the recycled pointer — and the chain is still exactly `[2, 1]`. -/
def abaSchedule : List Act :=
  [.newBegin, .grow 1 none, .alloc 1 none, .handoff 1 0 1, .newBegin, .grow 2 none, .alloc 2 none, .handoff 2 0 2,
   .dBegin 1 1, .dLoad 1, .dWrite 1, .dCas 1 false,            -- thread 1 pushes block 1
   .dBegin 2 2, .dLoad 2, .dWrite 2,                           -- thread 2: headRaw = 1, link written, stalls
   .newBegin, .exchange, .walk (some 77), .walkEnd, .alloc 1 (some 99),   -- owner: take-all, reclaim 1, reuse 1
   .handoff 1 0 1, .dBegin 1 1, .dLoad 1, .dWrite 1, .dCas 1 false,       -- thread 1 pushes block 1 again
   .dCas 2 false]                                              -- thread 2's CAS succeeds (ABA)

example : (run (init 3) abaSchedule).map (fun s => (s.head, s.L, chainFrom s.next 10 s.head, s.pool, s.table))
    = some (some 2, [2, 1], [2, 1], [], []) := by decide

/-- the same with a spurious failure of the weak CAS and a real failure (head changed), then success -/
example : (run (init 3) [.newBegin, .grow 1 none, .alloc 1 none, .handoff 1 0 1, .newBegin, .grow 2 none, .alloc 2 none,
      .handoff 2 0 2, .dBegin 1 1, .dLoad 1, .dWrite 1, .dBegin 2 2, .dLoad 2, .dWrite 2, .dCas 2 true, .dLoad 2, .dWrite 2,
      .dCas 1 false, .dCas 2 false, .dLoad 2, .dWrite 2, .dCas 2 false]).map
      (fun s => (s.L, chainFrom s.next 10 s.head, inflight s)) = some ([2, 1], [2, 1], []) := by decide

/-- owner thread working while rows are in flight: add, extract (both orders), remove, reuse after take-all -/
example : (run (init 2) [.newBegin, .grow 5 none, .alloc 5 none, .add 5, .newBegin, .grow 6 none, .alloc 6 none, .add 6,
      .newBegin, .grow 7 none, .alloc 7 none, .add 7, .extract 0 false, .handoff 5 0 1, .dBegin 1 5, .dLoad 1, .dWrite 1,
      .dCas 1 false, .remove 1 true (some 3), .newBegin, .exchange, .walk none, .walkEnd, .alloc 6 none]).map
      (fun s => (s.table, s.det, s.pool, s.L, allocCount s)) = some ([7], [(6, 0)], [5], [], 2) := by decide

end Momo.Rows
