import Momo.Proof.PoolHist
import Momo.Proof.PoolSingle
import Momo.Proof.PoolDll
import Momo.Proof.TrEqPool
import Momo.Proof.PoolSingleMerge
import Momo.Proof.PoolWorld
import Momo.Proof.PoolDllWalk
import Momo.Proof.PoolU32Ops
import Momo.Proof.TrEqWave2Pool
/-!
# C09 — Memory pool blocks are aligned, disjoint, inside owned memory, and all returned

Property theorems only. Model: `Momo/Model/Pool.lean` (mirrors `include/momo/MemPool.h` as it is now,
with the two repairs made by this project: `MergeFrom` relinking, 16-bit offset for `blockCount == 1`);
lemmas: `Momo/Proof/Pool*.lean`.

Statement (properties.jsonl): every block handed out by a memory pool is aligned to the pool's block
alignment, lies entirely inside memory the pool obtained from its memory manager, and overlaps neither
another live block nor any byte the pool itself reads or writes while that block is live - for every legal
block size, alignment, blocks-per-buffer and cache setting and for every address the memory manager may
return. The reported allocated count equals the number of live blocks, conditional bulk deallocation
frees exactly the selected blocks, merging two pools keeps every live block valid and individually
freeable, and once all blocks are freed (or DeallocateAll is called) and the pool destroyed, all memory has
been returned.

Quantifiers of the theorems: every `Params` accepted by `pvCheckParams` (`Params.Legal`: `0 < N < 128`,
`0 < A ≤ 1024`, and for `N > 1` `S = A * k`, `k ≥ 2` — no upper bound on `S`), every cache size, every
integer base address that is aligned as the pool assumes of its memory manager
(`allocAlign = min(alignof(max_align_t), lowbit(A))`, the assumption behind `pvGetAlignmentAddend`),
every state reachable by the operations.  The constants 128, 1024, 2, 65536, 16, -128 are read from the
header on every run (`Momo.Extracted`).
-/
namespace Momo.Pool

/-! ## layout -/

/-- **C09 (layout, `recover`).** For a buffer pointer of the shape `pvNewBuffer` produces, `pvGetBlockIndex`
inverts `pvGetBlock` for every index `-N ≤ i < N`: it returns the index and the buffer. -/
theorem C09_recover (P : Params) (hL : P.Legal) (hN2 : 2 ≤ P.N) (buf i : Int) (hb : BufOK P buf)
    (hi : -P.N ≤ i) (hi2 : i < P.N) :
    blockIdx P (getBlock P buf i) = i ∧ blockBuf P (getBlock P buf i) = buf := by
  obtain ⟨hM, _⟩ := Legal.multi hL hN2
  by_cases h0 : 0 ≤ i
  · exact hM.recover_nonneg buf i hb h0 hi2
  · exact hM.recover_neg buf i hb hi (by omega)

/-- **C09 (layout, `newBuffer_ok`).** For EVERY base address the four adjustment steps of `pvNewBuffer` yield
a buffer pointer satisfying `BufOK`, a first block index in `(-N, 0]` (so every index fits `int8_t` and is
different from the terminator `-128`), `pvGetBlock(buffer, first)` is the block the steps computed, it is
`A`-aligned, and it does not lie below `base`. -/
theorem C09_newBuffer_ok (P : Params) (hL : P.Legal) (hN2 : 2 ≤ P.N) (base : Int) :
    BufOK P (newBuffer P base).buf ∧
    -P.N < (newBuffer P base).first ∧ (newBuffer P base).first ≤ 0 ∧
    -(Extracted.poolFreeTerminator : Int) < (newBuffer P base).first ∧
    getBlock P (newBuffer P base).buf (newBuffer P base).first = firstBlock P base ∧
    firstBlock P base % P.A = 0 ∧ base ≤ firstBlock P base := by
  obtain ⟨hM, _⟩ := Legal.multi hL hN2
  obtain ⟨h1, h2, h3, h4, h5, _, h7, _, _⟩ := hM.firstBlock_ok base
  have hN : P.N < 128 := hL.2.1
  exact ⟨h4, h2, h3, by simp only [Extracted.poolFreeTerminator, newBuffer]; omega, h5, h1, h7⟩

/-- **C09 (layout, blocks aligned / pairwise disjoint / inside / disjoint from metadata).** Let the memory
manager return `base`, aligned as the pool assumes. Then for the buffer `pvNewBuffer` lays out in
`[base, base + pvGetBufferSize())`:
* every block is `A`-aligned and lies inside that memory;
* two different blocks do not overlap;
* no block overlaps a byte of pool metadata (first-index byte, `BufferBytes`, the two link pointers, the
  begin offset), every metadata field lies inside that memory, and the fields do not overlap one another;
* the begin offset fits its `uint16_t` and leads from the first block back to `base`. -/
theorem C09_blocks_disjoint_inside (P : Params) (hL : P.Legal) (hN2 : 2 ≤ P.N) (base : Int)
    (hbase : P.allocAlign ∣ base) :
    let buf := (newBuffer P base).buf
    let first := (newBuffer P base).first
    (∀ i, first ≤ i → i < first + P.N →
        getBlock P buf i % P.A = 0 ∧ Inside (getBlock P buf i) P.S base (base + P.bufferSize) ∧
        (∀ j, first ≤ j → j < first + P.N → i ≠ j → Disj (getBlock P buf i) P.S (getBlock P buf j) P.S) ∧
        (∀ r ∈ metaRanges P buf first, Disj (getBlock P buf i) P.S r.1 r.2)) ∧
    (∀ r ∈ metaRanges P buf first, Inside r.1 r.2 base (base + P.bufferSize)) ∧
    (metaRanges P buf first).Pairwise (fun r s => Disj r.1 r.2 s.1 s.2) ∧
    0 ≤ (newBuffer P base).beginOffset ∧
    (newBuffer P base).beginOffset < 2 ^ Extracted.poolBeginOffsetLog ∧
    getBlock P buf first - (newBuffer P base).beginOffset = base := by
  obtain ⟨hM, hA2⟩ := Legal.multi hL hN2
  intro buf first
  exact hM.buffer_layout_ok hA2 base hbase buf first rfl rfl

/-- **C09 (layout, single-block form).** `blockCount == 1` with a non-zero alignment addend
(`pvNewBlock1`, including alignments above 256 which need the 16-bit offset): the block is aligned, block
and offset bytes lie inside `[base, base + pvGetBufferSize1())`, the stored offset is below 65536 and leads
`pvDeleteBlock1` back to `base`. With a zero addend the manager's address itself is aligned. -/
theorem C09_single_block_ok (P : Params) (hL : P.Legal) (base : Int) (hbase : P.allocAlign ∣ base) :
    (newBlock1 P base).1 % P.A = 0 ∧
    Inside (newBlock1 P base).1 (P.S + sizeofU16) base (base + P.bufferSize1) ∧
    0 ≤ (newBlock1 P base).2 ∧ (newBlock1 P base).2 < (Extracted.poolOffsetLimit1 : Int) ∧
    (newBlock1 P base).1 - (newBlock1 P base).2 = base ∧
    (P.alignAddend = 0 → base % P.A = 0 ∧ Inside base P.S base (base + P.bufferSize0)) := by
  have hA : 0 < P.A := hL.2.2.1
  have hA2 : P.A ≤ 1024 := hL.2.2.2.1
  obtain ⟨h1, h2, h3, _, h5, h6, h7⟩ := newBlock1_ok P base hA hA2 hbase
  refine ⟨h1, ⟨h2, by omega⟩, h3, h5, h7, fun h0 => ⟨plain_single_ok P base hA hA2 hbase h0, Int.le_refl _, ?_⟩⟩
  unfold Params.bufferSize0; split <;> omega

/-- **C09 (blocks of different buffers).** If the memory of two buffers does not overlap (the memory
manager's contract), no block of one overlaps a block or a metadata byte of the other: by
`C09_blocks_disjoint_inside` both lie inside their own memory. -/
theorem C09_two_buffers_disjoint (a la b lb base1 base2 size : Int) (h1 : Inside a la base1 (base1 + size))
    (h2 : Inside b lb base2 (base2 + size)) (hd : Disj base1 size base2 size) : Disj a la b lb := by
  unfold Inside at h1 h2; unfold Disj at hd ⊢; omega

/-! ## state machine, `blockCount > 1` -/

/-- **C09 (state, `alloc_fresh`).** In every well-formed pool state, for every answer of the memory manager
that honours its contract (aligned, not overlapping memory the pool holds), `Allocate`
* either returns a block that was NOT live, after which the live blocks are exactly the old ones plus this
  block, the state is well formed again, the count went up by one, the block is a block of one of the
  pool's buffers (hence aligned and inside owned memory by the layout theorems), and every call to the
  manager is accounted for;
* or - only when new memory was needed and refused - throws and leaves the pool unchanged;
* and never hits an assertion or reads a byte of a live block. -/
theorem C09_alloc_fresh (P : Params) (hL : P.Legal) (hN2 : 2 ≤ P.N) (p : Pool) (h : PoolWF P p)
    (orc : Oracle)
    (hc : ∀ j base, orc j = some base → P.allocAlign ∣ base ∧
       ∀ b ∈ p.store, base + P.bufferSize ≤ b.base ∨ b.base + P.bufferSize ≤ base) :
    match allocate P p orc with
    | .ok blk p' evs => AllocateSpec P p p' blk evs
    | .badAlloc p' evs => p' = p ∧ evs = [] ∧ orc 0 = none
    | .stuck _ => False := by
  obtain ⟨hM, hA2⟩ := Legal.multi hL hN2
  exact allocate_ok hM hN2 h (orcOK_of_disjoint hM hA2 h.core orc hc)

/-- **C09 (state, `count_exact`).** The reported allocated count equals the number of live blocks, and the
live blocks are pairwise different addresses. -/
theorem C09_count_exact (P : Params) (hL : P.Legal) (hN2 : 2 ≤ P.N) (p : Pool) (h : PoolWF P p) :
    p.allocCount = (p.live P).length ∧ (p.live P).Nodup := by
  obtain ⟨hM, _⟩ := Legal.multi hL hN2
  refine ⟨h.count_exact hM hN2, ?_⟩
  rw [live_eq hN2]
  exact (h.taken_nodup hM).filter _

/-- **C09 (state, `Deallocate`).** Freeing a live block always succeeds, removes exactly this block from the
live set, keeps the state well formed, lowers the count by one, and gives memory back to the manager only
with an address and size it was obtained with. -/
theorem C09_dealloc_exact (P : Params) (hL : P.Legal) (hN2 : 2 ≤ P.N) (p : Pool) (h : PoolWF P p)
    (blk : Int) (hblk : blk ∈ p.live P) :
    ∃ p' evs, deallocate P p blk = .ok () p' evs ∧ DeallocSpec P p p' blk evs := by
  obtain ⟨hM, hA2⟩ := Legal.multi hL hN2
  exact deallocate_ok hM hN2 hA2 h blk hblk

/-- **C09 (state, `merge_keeps_blocks`).** Merging two well-formed pools that hold different memory:
the receiving pool is well formed, its live blocks are exactly the live blocks of both pools - so by
`C09_dealloc_exact` each of them can afterwards be freed individually through the receiving pool - the
counts add up, the other pool is empty, and only cached blocks of the other pool caused calls to the
manager, all of them legal. -/
theorem C09_merge_keeps_blocks (P : Params) (hL : P.Legal) (hN2 : 2 ≤ P.N) (a b : Pool)
    (ha : PoolWF P a) (hb : PoolWF P b) (hdis : ∀ x ∈ bufs a.store, x ∉ bufs b.store) :
    ∃ a' evs, mergeFrom P a b = .ok Pool.empty a' evs ∧ PoolWF P a' ∧
      (a'.live P).Perm (a.live P ++ b.live P) ∧ a'.allocCount = a.allocCount + b.allocCount ∧
      LedgerOK P (a.store ++ b.store) evs a'.store := by
  obtain ⟨hM, hA2⟩ := Legal.multi hL hN2
  exact mergeFrom_ok hM hN2 hA2 ha hb hdis

/-- **C09 (state, `freed_all_returned`).** `DeallocateAll` on any well-formed state, and the destructor on
any well-formed state without live blocks, leave the pool holding no memory: every buffer is given back,
each `free` names an address and size of an outstanding allocation, and nothing stays outstanding. -/
theorem C09_freed_all_returned (P : Params) (hL : P.Legal) (hN2 : 2 ≤ P.N) (p : Pool) (h : PoolWF P p) :
    (∃ evs, deallocateAll P p = .ok () Pool.empty evs ∧ LedgerOK P p.store evs []) ∧
    (p.live P = [] → ∃ evs, destroy P p = .ok () Pool.empty evs ∧ LedgerOK P p.store evs []) := by
  obtain ⟨hM, hA2⟩ := Legal.multi hL hN2
  constructor
  · obtain ⟨p', evs, h1, h2, h3⟩ := deallocateAll_ok hM hN2 hA2 h
    exact ⟨evs, by rw [h1, h2], h3⟩
  · intro hl
    have h0 : p.allocCount = 0 := by rw [h.count_exact hM hN2, hl]; rfl
    exact destroy_ok hM hN2 hA2 h h0

/-- **C09 (state, `deallocIf_exact`).** `DeallocateIf` on any well-formed state, for any filter: it succeeds;
the filter is asked exactly once about each live block and about nothing else (`tr` is a permutation of the
live blocks); afterwards the live blocks are exactly those for which the filter answered no; the state is
well formed (hence the count is exact again) and every `free` was legal. -/
theorem C09_deallocIf_exact (P : Params) (hL : P.Legal) (hN2 : 2 ≤ P.N) (p : Pool) (h : PoolWF P p)
    (f : Int → Bool) :
    ∃ tr p' evs, deallocateIf P p f = .ok tr p' evs ∧ PoolWF P p' ∧
      (p'.live P).Perm ((p.live P).filter (fun x => !f x)) ∧ tr.Perm (p.live P) ∧
      LedgerOK P p.store evs p'.store := by
  obtain ⟨hM, hA2⟩ := Legal.multi hL hN2
  exact deallocateIf_ok hM hN2 hA2 h f

/-- **C09 (state, `DeallocateIf` interrupted by its filter).** A filter that throws when it is asked its `(k+1)`-th
question (`deallocateIfThrow`, the exception-neutral reading of `pvDeleteBlocks`: one block is finished before the next
question): the call still leaves a well-formed pool whose reported count is exact; the blocks gone are exactly the
selected ones among the first `k` questions, every question was about a live block, and every `free` was legal. -/
theorem C09_deallocIf_throw_exact (P : Params) (hL : P.Legal) (hN2 : 2 ≤ P.N) (p : Pool) (h : PoolWF P p)
    (f : Int → Bool) (k : Nat) :
    ∃ asked p' evs, deallocateIfThrow P p f k = .ok asked p' evs ∧ PoolWF P p' ∧
      p'.allocCount = (p'.live P).length ∧
      (p'.live P).Perm ((p.live P).filter (fun x => !(f x && asked.contains x))) ∧
      (∀ b ∈ asked, b ∈ p.live P) ∧ asked.length ≤ k ∧
      LedgerOK P p.store evs p'.store := by
  obtain ⟨hM, hA2⟩ := Legal.multi hL hN2
  obtain ⟨tr, p0, e0, h0, _, _, htr, _⟩ := deallocateIf_ok hM hN2 hA2 h (fun _ => false)
  obtain ⟨tr1, p1, e1, h1, hwf1, hlive1, _, hled1⟩ :=
    deallocateIf_ok hM hN2 hA2 h (fun b => f b && (tr.take k).contains b)
  refine ⟨tr.take k, p1, e1, ?_, hwf1, hwf1.count_exact hM hN2, hlive1, ?_, ?_, hled1⟩
  · unfold deallocateIfThrow
    rw [h0]; simp only; rw [h1]; rfl
  · intro b hb
    exact htr.subset (List.mem_of_mem_take hb)
  · exact List.length_take_le k tr

/-- **C09 (state, all histories).** Every state reached by a legal history - any sequence of `Allocate`
(succeeding or refused by the manager), `Deallocate` of live blocks, `DeallocateIf`, `DeallocateAll` and
`MergeFrom` of pools holding different memory, with a manager that honours its contract - is well formed,
its reported count is the number of live blocks, and the calls made to the manager so far form an exact
ledger of the memory the pool holds. Destroying the pool once no block is live (or calling
`DeallocateAll` at any time) leaves that ledger EMPTY: all memory has been returned. -/
theorem C09_history (P : Params) (hL : P.Legal) (hN2 : 2 ≤ P.N) (p : Pool) (es : List Ev) (h : Reach P p es) :
    PoolWF P p ∧ p.allocCount = (p.live P).length ∧ LedgerIs P es p.store ∧
    (∃ evs, deallocateAll P p = .ok () Pool.empty evs ∧ ledger [] (es ++ evs) = some []) ∧
    (p.live P = [] → ∃ evs, destroy P p = .ok () Pool.empty evs ∧ ledger [] (es ++ evs) = some []) := by
  obtain ⟨hM, hA2⟩ := Legal.multi hL hN2
  obtain ⟨hwf, hled⟩ := h.inv hM hN2 hA2
  have hend : ∀ evs, LedgerOK P p.store evs [] → ledger [] (es ++ evs) = some [] := by
    intro evs hl
    obtain ⟨L, h1, h2⟩ := hled.step hl
    rw [h1]; simp only [owned, List.map_nil] at h2; rw [List.perm_nil.mp h2]
  refine ⟨hwf, hwf.count_exact hM hN2, hled, ?_, ?_⟩
  · obtain ⟨p', evs, h1, h2, h3⟩ := deallocateAll_ok hM hN2 hA2 hwf
    exact ⟨evs, by rw [h1, h2], hend evs h3⟩
  · intro hl
    have h0 : p.allocCount = 0 := by rw [hwf.count_exact hM hN2, hl]; rfl
    obtain ⟨evs, h1, h2⟩ := destroy_ok hM hN2 hA2 hwf h0
    exact ⟨evs, h1, hend evs h2⟩

/-! ## state machine, `blockCount == 1` -/

/-- **C09 (state, `blockCount == 1`).** Every block is its own allocation. In every well-formed state:
the count is the number of live blocks; `Allocate` returns an aligned block that was not live (or leaves the
pool unchanged when the manager refuses), `Deallocate` of a live block removes exactly it, the destructor of
a pool without live blocks returns every allocation - each `free` with the address and size obtained (the
16-bit offset behind the block leads back to it). -/
theorem C09_single_state (P : Params) (hL : P.Legal) (hN1 : P.N = 1) (p : Pool) (h : SingleWF P p) :
    p.allocCount = (p.live P).length ∧
    (∀ orc, Contract1 P p orc →
      match allocate P p orc with
      | .ok blk p' evs => Allocate1Spec P p p' blk evs
      | .badAlloc p' evs => p' = p ∧ evs = [] ∧ orc 0 = none
      | .stuck _ => False) ∧
    (∀ blk ∈ p.live P, ∃ p' evs, deallocate P p blk = .ok () p' evs ∧ Dealloc1Spec P p p' blk evs) ∧
    (p.live P = [] → ∃ p' evs, destroy P p = .ok () p' evs ∧ p'.singles = [] ∧ p'.store = [] ∧
      Ledger1OK P p.singles evs []) := by
  refine ⟨h.count_exact hN1, fun orc hc => allocate_single_ok hL hN1 h hc,
    fun blk hb => deallocate_single_ok hN1 h blk hb, fun hl => ?_⟩
  have h0 : p.allocCount = 0 := by rw [h.count_exact hN1, hl]; rfl
  exact destroy_single_ok hN1 h h0

/-! ## pointer level -/

/-- **C09 (pointer level, `mergeFrom_dll`).** The list surgery of `MergeFrom` as written (lines 406-433),
on a heap that holds two well-formed doubly linked lists over different buffers, each with its head:
afterwards the heap holds ONE well-formed doubly linked list that contains exactly the buffers of both
lists - the full buffers of the other pool moved in front of this head, the other list appended behind -
and no other buffer was written. -/
theorem C09_mergeFrom_dll (h : Heap) (pre1 post1 pre2 post2 : List Int) (thisHead otherHead : Int) (fuel : Nat)
    (hf1 : pre2.length ≤ fuel) (hf2 : post1.length ≤ fuel)
    (hl : TwoLists h (pre1.reverse ++ thisHead :: post1) (pre2.reverse ++ otherHead :: post2)) :
    IsDll (ptrMergeFrom fuel h thisHead otherHead)
      (((mergeMoveFull pre2 pre1).reverse ++ thisHead :: post1) ++ otherHead :: post2) ∧
    (∀ x, x ∈ ((mergeMoveFull pre2 pre1).reverse ++ thisHead :: post1) ++ otherHead :: post2 ↔
          x ∈ (pre1.reverse ++ thisHead :: post1) ++ (pre2.reverse ++ otherHead :: post2)) ∧
    ∀ x, x ∉ (pre1.reverse ++ thisHead :: post1) ++ (pre2.reverse ++ otherHead :: post2) →
      ptrMergeFrom fuel h thisHead otherHead x = h x := by
  obtain ⟨h1, h2⟩ := ptrMergeFrom_refines h pre1 post1 pre2 post2 thisHead otherHead fuel hf1 hf2 hl
  refine ⟨h1, ?_, h2⟩
  intro x
  simp only [List.mem_append, List.mem_reverse, List.mem_cons, mem_mergeMoveFull]
  tauto

/-- **C09 (pointer level, the other list operations).** `pvMoveBufferToHead`, the unlinking of
`pvDeleteBuffer` and the linking of a new buffer in `pvNewBlock`, as written, implement the list operations
the state machine uses (`moveToHead`, `erase`, append) on every well-formed doubly linked list, and write
no buffer outside the list. -/
theorem C09_list_ops_dll (h : Heap) :
    (∀ (X Y Z : List Int) (b hd : Int), IsDll h (X ++ b :: (Y ++ hd :: Z)) →
      ∃ h', ptrMoveToHead h hd b = some h' ∧ IsDll h' (X ++ (Y ++ b :: hd :: Z)) ∧
        ∀ x, x ∉ X ++ b :: (Y ++ hd :: Z) → h' x = h x) ∧
    (∀ (l1 l2 : List Int) (b : Int), IsDll h (l1 ++ b :: l2) →
      IsDll (ptrUnlink h b) (l1 ++ l2) ∧ ∀ x, x ∉ l1 ++ b :: l2 → ptrUnlink h b x = h x) ∧
    (∀ (L : List Int) (hd nb : Int), IsDll h (L ++ [hd]) → nb ∉ L ++ [hd] →
      IsDll (ptrAppend (ptrInit h nb) hd nb) (L ++ [hd] ++ [nb]) ∧
        ∀ x, x ∉ L ++ [hd] ++ [nb] → ptrAppend (ptrInit h nb) hd nb x = h x) :=
  ⟨fun X Y Z b hd hdll => ptrMoveToHead_split h X Y Z b hd hdll,
   fun l1 l2 b hdll => ptrUnlink_split h l1 l2 b hdll,
   fun L hd nb hdll hnb => ptrAppend_refines h L hd nb hdll hnb⟩

/-! ## the layout theorems about the functions translated from MemPool.h (`Momo.Tr.pool_*`) -/

/-- **C09 (layout, `recover`, translated code).** `Tr.pool_pvGetBlock` / `Tr.pool_pvGetBlockIndex` are regenerated from
the bodies of `MemPool::pvGetBlock` / `pvGetBlockIndex` on every check (64-bit words, `ptrdiff_t` in two's complement).
For every legal pool with several blocks per buffer, every buffer pointer of the shape `pvNewBuffer` produces and every
index `-N ≤ i < N`, with all `2N` block positions 64-bit addresses below `2^63`: `pvGetBlockIndex(pvGetBlock(buffer, i))`
returns the index `i` and the buffer. -/
theorem C09_recover_translated (S A N C : Nat) (hL : (Params.mk S A N C).Legal) (hN2 : 2 ≤ N) (buf : Nat) (i : Int)
    (hb : BufOK ⟨S, A, N, C⟩ buf) (hi : -(N : Int) ≤ i) (hi2 : i < N)
    (hlo : (N : Int) * S ≤ buf) (hhi : (buf : Int) + N * S + A < 2 ^ 63) :
    Tr.pool_pvGetBlockIndex S A N (Tr.pool_pvGetBlock S A buf i) = (i, buf) := by
  have hp := TrEq.isParams_mk S A N C
  generalize Params.mk S A N C = P at hL hb hp
  have hN2' : 2 ≤ P.N := by rw [hp.hN]; omega
  obtain ⟨sA, sA2, sN, sS, sNS, _, _⟩ := TrEq.legal_sizes hL hN2'
  have hA := hp.hA; have hS := hp.hS; have hN := hp.hN
  obtain ⟨r1, r2⟩ := C09_recover P hL hN2' buf i hb (by omega) (by omega)
  have hlo' : -((N : Int) * S) ≤ i * S := by
    have := Int.mul_le_mul_of_nonneg_right hi (show (0 : Int) ≤ S by omega)
    rw [Int.neg_mul] at this; exact this
  have hhi' : i * S ≤ (N : Int) * S := Int.mul_le_mul_of_nonneg_right (by omega) (by omega)
  have hg : getBlock P buf i = buf + i * S + (if 0 ≤ i then (A : Int) else 0) := by
    unfold getBlock; rw [hS, hA]
  simp only [hS, hA, hN] at sA sA2 sN sS sNS
  have e := TrEq.tr_getBlock_of_inside P S A N hp buf i (by omega) hi (by omega) (by omega) (by omega)
    (by rw [hg]; split <;> omega) (by rw [hg]; split <;> omega)
  rw [← e] at r1 r2
  have hbk : ((Tr.pool_pvGetBlock S A buf i : Nat) : Int) < 2 ^ 63 := by rw [e, hg]; split <;> omega
  generalize Tr.pool_pvGetBlock S A buf i = blk at r1 r2 hbk
  obtain ⟨g1, g2⟩ := TrEq.tr_getBlockIndex P S A N hp blk (by omega) (by omega) (by omega) (by omega) (by omega)
    (by rw [r1, hp.hS]; omega) (by rw [r1, hp.hS]; omega) (by rw [r2]; omega) (by rw [r2]; omega)
  rw [r1] at g1; rw [r2] at g2
  exact Prod.ext g1 (by exact_mod_cast g2)

/-- **C09 (layout, `newBuffer_ok`, translated code).** `Tr.pool_pvNewBuffer` is regenerated from the body of
`MemPool::pvNewBuffer` up to its first write into the buffer (`begin` = the address the memory manager returned; result
`(beginOffset, block, buffer, blockIndex)`). For every legal pool with several blocks per buffer and EVERY address `base`
with `base + pvGetBufferSize() < 2^63`: the buffer pointer satisfies `BufOK`, the first block index lies in `(-N, 0]`
(it fits `int8_t` and differs from the terminator `-128`), `pvGetBlock(buffer, blockIndex)` is the block the steps
computed, that block is `A`-aligned, does not lie below `base`, and `block = base + beginOffset`. -/
theorem C09_newBuffer_ok_translated (S A N C : Nat) (hL : (Params.mk S A N C).Legal) (hN2 : 2 ≤ N) (base : Nat)
    (hfit : (base : Int) + (Params.mk S A N C).bufferSize < 2 ^ 63) :
    BufOK ⟨S, A, N, C⟩ (Tr.pool_pvNewBuffer S A N base).2.2.1 ∧
    -(N : Int) < (Tr.pool_pvNewBuffer S A N base).2.2.2 ∧ (Tr.pool_pvNewBuffer S A N base).2.2.2 ≤ 0 ∧
    -(Extracted.poolFreeTerminator : Int) < (Tr.pool_pvNewBuffer S A N base).2.2.2 ∧
    Tr.pool_pvGetBlock S A (Tr.pool_pvNewBuffer S A N base).2.2.1 (Tr.pool_pvNewBuffer S A N base).2.2.2 =
      (Tr.pool_pvNewBuffer S A N base).2.1 ∧
    (Tr.pool_pvNewBuffer S A N base).2.1 % A = 0 ∧ base ≤ (Tr.pool_pvNewBuffer S A N base).2.1 ∧
    (Tr.pool_pvNewBuffer S A N base).2.1 = base + (Tr.pool_pvNewBuffer S A N base).1 := by
  obtain ⟨e1, e2, e3, e4, _, e6⟩ := TrEq.tr_newBuffer_legal S A N C hL hN2 base hfit
  have hp := TrEq.isParams_mk S A N C
  generalize Params.mk S A N C = P at hL hp hfit e1 e2 e3 e4 e6 ⊢
  have hA := hp.hA; have hS := hp.hS; have hN := hp.hN
  have hN2' : 2 ≤ P.N := by rw [hN]; omega
  obtain ⟨sA, sA2, sN, sS, sNS, _, sB⟩ := TrEq.legal_sizes hL hN2'
  simp only [hS, hA, hN] at sA sA2 sN sS sNS sB
  obtain ⟨h1, h2, h3, h4, h5, h6, h7⟩ := C09_newBuffer_ok P hL hN2' base
  have e1' : (newBuffer P base).beginOffset = firstBlock P base - base := rfl
  rw [← e3] at h1 h5; rw [← e4] at h2 h3 h4 h5; rw [← e2] at h5 h6 h7 e6 e1'; rw [← e1] at e1'
  rw [hN] at h2; rw [hA] at h6
  generalize (Tr.pool_pvNewBuffer S A N base).1 = off at e1'
  generalize (Tr.pool_pvNewBuffer S A N base).2.1 = blk at h5 h6 h7 e6 e1'
  generalize (Tr.pool_pvNewBuffer S A N base).2.2.1 = buf at h1 h5
  generalize (Tr.pool_pvNewBuffer S A N base).2.2.2 = first at h2 h3 h4 h5
  have hg := TrEq.tr_getBlock_of_inside P S A N hp buf first (by omega) (by omega) (by omega) (by omega) (by omega)
    (by rw [h5]; omega) (by rw [h5]; omega)
  rw [h5] at hg
  refine ⟨h1, h2, h3, h4, by exact_mod_cast hg, by exact_mod_cast h6, by omega, by omega⟩

/-- **C09 (layout, blocks aligned / pairwise disjoint / inside / disjoint from metadata, translated code).** Everything
below is computed by functions regenerated from MemPool.h: the buffer pointer and first index by `Tr.pool_pvNewBuffer`,
the blocks by `Tr.pool_pvGetBlock`, the size of the memory by `Tr.pool_pvGetBufferSize`, the positions of the metadata
(`TrEq.metaRangesTr`) by `Tr.pool_pvGetBufferBytesPosition / …PrevBufferPosition / …NextBufferPosition /
…BeginOffsetPosition`. Let the memory manager return `base`, aligned as the pool assumes, `base + pvGetBufferSize() < 2^63`.
Then every block is `A`-aligned and lies inside `[base, base + pvGetBufferSize())`, two different blocks do not overlap,
no block overlaps a metadata byte, the metadata fields lie inside that memory and do not overlap one another, the begin
offset fits its `uint16_t` and leads from the first block back to `base`. -/
theorem C09_blocks_disjoint_inside_translated (S A N C : Nat) (hL : (Params.mk S A N C).Legal) (hN2 : 2 ≤ N) (base : Nat)
    (hbase : (Params.mk S A N C).allocAlign ∣ base) (hfit : (base : Int) + (Params.mk S A N C).bufferSize < 2 ^ 63) :
    let buf := (Tr.pool_pvNewBuffer S A N base).2.2.1
    let first := (Tr.pool_pvNewBuffer S A N base).2.2.2
    let size : Int := (Tr.pool_pvGetBufferSize S A N : Nat)
    let blk := fun (i : Int) => ((Tr.pool_pvGetBlock S A buf i : Nat) : Int)
    let metaR := TrEq.metaRangesTr S A N buf first
    (∀ i, first ≤ i → i < first + N →
        blk i % A = 0 ∧ Inside (blk i) S base (base + size) ∧
        (∀ j, first ≤ j → j < first + N → i ≠ j → Disj (blk i) S (blk j) S) ∧
        (∀ r ∈ metaR, Disj (blk i) S r.1 r.2)) ∧
    (∀ r ∈ metaR, Inside r.1 r.2 base (base + size)) ∧
    metaR.Pairwise (fun r s => Disj r.1 r.2 s.1 s.2) ∧
    (Tr.pool_pvNewBuffer S A N base).1 < 2 ^ Extracted.poolBeginOffsetLog ∧
    blk first - ((Tr.pool_pvNewBuffer S A N base).1 : Nat) = base := by
  obtain ⟨e1, _, e3, e4, e5, _⟩ := TrEq.tr_newBuffer_legal S A N C hL hN2 base hfit
  have hp := TrEq.isParams_mk S A N C
  generalize Params.mk S A N C = P at hL hp hfit hbase e1 e3 e4 e5 ⊢
  have hA := hp.hA; have hS := hp.hS; have hN := hp.hN
  have hN2' : 2 ≤ P.N := by rw [hN]; omega
  obtain ⟨sA, sA2, sN, sS, sNS, _, sB⟩ := TrEq.legal_sizes hL hN2'
  simp only [hS, hA, hN] at sA sA2 sN sS sNS sB
  obtain ⟨_, f2, f3, _⟩ := C09_newBuffer_ok P hL hN2' base
  obtain ⟨H1, H2, H3, H4, H5, H6⟩ := C09_blocks_disjoint_inside P hL hN2' base hbase
  rw [← e3, ← e4] at H1 H2 H3 H6; rw [← e4] at f2 f3; rw [← e1] at H4 H5 H6; rw [← e5] at H1 H2; rw [hS] at H1
  rw [hA, hN] at H1; rw [hN] at f2
  generalize (Tr.pool_pvNewBuffer S A N base).1 = off at H4 H5 H6 ⊢
  generalize (Tr.pool_pvNewBuffer S A N base).2.2.1 = buf at H1 H2 H3 H6 ⊢
  generalize (Tr.pool_pvNewBuffer S A N base).2.2.2 = first at H1 H2 H3 H6 f2 f3 ⊢
  generalize Tr.pool_pvGetBufferSize S A N = size at H1 H2 e5 ⊢
  dsimp only
  have hmeta : TrEq.metaRangesTr S A N buf first = metaRanges P buf first := by
    apply TrEq.metaRangesTr_eq P S A N hp buf first (by omega) (by omega) (by rw [hN]; omega) f3
    have := (H2 (beginOffPos P buf first, sizeofU16) (by unfold metaRanges; exact List.mem_cons_of_mem _ (List.mem_cons_of_mem _ (List.mem_cons_of_mem _ (List.mem_cons_of_mem _ List.mem_cons_self))))).2
    simp only [metaEnd]; omega
  have hblk : ∀ i, first ≤ i → i < first + N → ((Tr.pool_pvGetBlock S A buf i : Nat) : Int) = getBlock P buf i := by
    intro i hi hi2
    obtain ⟨_, ⟨a1, a2⟩, _⟩ := H1 i hi hi2
    exact TrEq.tr_getBlock_of_inside P S A N hp buf i (by omega) (by omega) (by omega) (by omega) (by omega)
      (by omega) (by omega)
  rw [hmeta]
  refine ⟨fun i hi hi2 => ?_, H2, H3, by exact_mod_cast H5, by rw [hblk first (by omega) (by omega)]; exact H6⟩
  obtain ⟨a1, a2, a3, a4⟩ := H1 i hi hi2
  rw [hblk i hi hi2]
  exact ⟨a1, a2, fun j hj hj2 hij => by rw [hblk j hj hj2]; exact a3 j hj hj2 hij, a4⟩

/-- **C09 (layout, single-block form, translated code).** `blockCount == 1`: `Tr.pool_pvNewBlock1` (the body of
`pvNewBlock1` up to the write of the offset bytes; result `(block, offset)`), `Tr.pool_pvGetBufferSize1`,
`Tr.pool_pvGetBufferSize0`, `Tr.pool_pvGetAlignmentAddend` as regenerated from MemPool.h: the block is aligned, block and
offset bytes lie inside `[base, base + pvGetBufferSize1())`, the offset is below 65536 and leads back to `base`; with a
zero alignment addend the manager's address itself is aligned and the block fits `pvGetBufferSize0()`. -/
theorem C09_single_block_ok_translated (S A N C : Nat) (hL : (Params.mk S A N C).Legal) (base : Nat)
    (hbase : (Params.mk S A N C).allocAlign ∣ base) (hfit : (base : Int) + (Params.mk S A N C).bufferSize1 < 2 ^ 63) :
    let blk : Int := ((Tr.pool_pvNewBlock1 A base).1 : Nat)
    let off : Int := ((Tr.pool_pvNewBlock1 A base).2 : Nat)
    blk % A = 0 ∧ Inside blk (S + sizeofU16) base (base + (Tr.pool_pvGetBufferSize1 S A : Nat)) ∧
    off < (Extracted.poolOffsetLimit1 : Int) ∧ blk - off = base ∧
    (Tr.pool_pvGetAlignmentAddend A = 0 →
      (base : Int) % A = 0 ∧ Inside base S base (base + (Tr.pool_pvGetBufferSize0 S A : Nat))) := by
  have hp := TrEq.isParams_mk S A N C
  generalize Params.mk S A N C = P at hL hp hfit hbase ⊢
  have hA := hp.hA; have hS := hp.hS
  have sA : 0 < P.A := hL.2.2.1
  have sA2 : P.A ≤ 1024 := hL.2.2.2.1
  have sS : 0 < P.S := hL.2.2.2.2.1
  obtain ⟨g0, g1, g2⟩ := allocAlign_spec P sA sA2
  have had : P.alignAddend = P.A - P.allocAlign := rfl
  have hb1 : P.bufferSize1 = P.S + P.alignAddend + 2 := rfl
  obtain ⟨n1, n2⟩ := TrEq.tr_newBlock1 P A hA base (by omega) (by omega)
  have s1 := TrEq.tr_bufferSize1 P S A hS hA (by omega) (by omega) (by omega)
  have s0 := TrEq.tr_bufferSize0 P S A hS hA
  have sa := TrEq.tr_alignAddend P A hA (by omega) (by omega)
  obtain ⟨h1, h2, _, h4, h5, h6⟩ := C09_single_block_ok P hL base hbase
  intro blk off
  rw [← n1] at h1 h2 h5; rw [← n2] at h4 h5; rw [← s1, hS] at h2; rw [hA] at h1
  refine ⟨h1, h2, h4, h5, fun h0 => ?_⟩
  have := h6 (by rw [← sa, h0]; rfl)
  rw [← s0, hS, hA] at this
  exact this

/-- **C09 (parameters the models take as given, translated code).** The quantities the state-machine model and the
parameter model read from the header, as regenerated from MemPool.h, are the model's: `pvUseCache` (whether `Allocate` /
`Deallocate` go through the cache), `pvGetAlignmentAddend` (`Allocate` with `blockCount == 1` branches on `== 0`),
`pvGetBufferSize0`, `pvIsBufferBytesNear`, `MemPoolConst::CorrectBlockSize` and `MemPoolConst::GetBlockAlignment` (the
block size / default alignment `MemPoolParams` derives from the requested size). -/
theorem C09_params_translated (S A N C : Nat) (hA0 : 0 < A) (hfit : S + A < 2 ^ 63) (m : Nat) (hm : m < 2 ^ 64) :
    Tr.pool_pvUseCache C S = (Params.mk S A N C).useCache ∧
    ((Tr.pool_pvGetAlignmentAddend A : Nat) : Int) = (Params.mk S A N C).alignAddend ∧
    ((Tr.pool_pvGetBufferSize0 S A : Nat) : Int) = (Params.mk S A N C).bufferSize0 ∧
    Tr.pool_pvIsBufferBytesNear A = (Params.mk S A N C).bytesNear ∧
    ((Tr.pool_CorrectBlockSize S A N : Nat) : Int) = correctBlockSize S A N ∧
    ((Tr.pool_GetBlockAlignment S m : Nat) : Int) = getBlockAlignment S 64 m :=
  ⟨TrEq.tr_useCache ⟨S, A, N, C⟩ S rfl, TrEq.tr_alignAddend ⟨S, A, N, C⟩ A rfl hA0 (by omega),
   TrEq.tr_bufferSize0 ⟨S, A, N, C⟩ S A rfl rfl, TrEq.tr_bytesNear ⟨S, A, N, C⟩ A rfl,
   TrEq.tr_correctBlockSize S A N hA0 (by omega) (by omega), TrEq.tr_getBlockAlignment S m hm⟩

/-! ## non-vacuity: concrete states meeting the hypotheses -/

/-- a legal configuration with the cache on: block size 16, alignment 8, 3 blocks per buffer, 1 cached block -/
def exP : Params := ⟨16, 8, 3, 1⟩
example : exP.Legal := by decide
example : exP.allocAlign = 8 := by decide
/-- `A = 512 > 256`, the configuration of finding F1 (repaired): the offset 496 needs 16 bits -/
example : newBlock1 ⟨64, 512, 1, 0⟩ 16 = (512, 496) := by decide
example : (⟨64, 512, 1, 0⟩ : Params).Legal ∧ (⟨64, 512, 1, 0⟩ : Params).allocAlign = 16 := by decide
/-- a buffer at base 1000000: first block index -2, buffer pointer 1000032, begin offset 0 -/
example : newBuffer exP 1000000 = ⟨1000032, -2, 0⟩ := by decide
example : newBuffer exP 1000005 = ⟨1000032, -1, 11⟩ := by decide
/-- the translated functions on the same configuration (machine words): `pvNewBuffer` at base 1000000 / 1000005, the
    round trip of `pvGetBlock` / `pvGetBlockIndex`, the sizes; the hypotheses of the `_translated` theorems hold -/
example : Tr.pool_pvNewBuffer 16 8 3 1000000 = (0, 1000000, 1000032, -2) := by decide
example : Tr.pool_pvNewBuffer 16 8 3 1000005 = (11, 1000016, 1000032, -1) := by decide
example : Tr.pool_pvGetBlockIndex 16 8 3 (Tr.pool_pvGetBlock 16 8 1000032 (-2)) = (-2, 1000032) := by decide
example : Tr.pool_pvGetBlockIndex 16 8 3 (Tr.pool_pvGetBlock 16 8 1000032 0) = (0, 1000032) := by decide
example : Tr.pool_pvGetBufferSize 16 8 3 = 82 ∧ Tr.pool_pvGetAlignmentAddend 512 = 496 ∧ Tr.pool_pvNewBlock1 512 16 = (512, 496) := by decide
example : (Params.mk 16 8 3 1).Legal ∧ ((1000000 : Nat) : Int) + (Params.mk 16 8 3 1).bufferSize < 2 ^ 63 ∧
    (Params.mk 16 8 3 1).allocAlign ∣ ((1000000 : Nat) : Int) := by decide
/-- the empty pool is well formed; three allocations need two buffers and leave a well-formed state
    (by `C09_alloc_fresh`), with the head buffer full and moved before the new head -/
example : PoolWF exP Pool.empty := PoolWF.empty exP
example : Reach exP Pool.empty [] := Reach.init
example : SingleWF ⟨64, 512, 1, 0⟩ Pool.empty := SingleWF.empty _
def exThree : Option (List Int × List Int × List Int × List Ev) :=
  match allocate exP Pool.empty (fun _ => some 1000000) with
  | .ok b1 p1 _ =>
    match allocate exP p1 (fun _ => some 2000000) with
    | .ok b2 p2 _ =>
      match allocate exP p2 (fun _ => some 2000000) with
      | .ok b3 p3 evs => some ([b1, b2, b3, p3.allocCount], p3.pre, p3.post, evs)
      | _ => none
    | _ => none
  | _ => none
example : exThree = some ([1000000, 1000016, 1000040, 3], [1000032], [2000016], [.malloc 2000000 82]) := by decide
/-- pointer level: this pool 10 (full) ↔ 11 (head); other pool 20 (full) ↔ 21 (full) ↔ 22 (head):
    after `MergeFrom` one list 10, 21, 20, 11, 22 (the witness of finding F2, repaired) -/
def exHeap : Heap := fun x =>
  if x = 10 then ⟨none, some 11⟩ else if x = 11 then ⟨some 10, none⟩
  else if x = 20 then ⟨none, some 21⟩ else if x = 21 then ⟨some 20, some 22⟩
  else if x = 22 then ⟨some 21, none⟩ else ⟨none, none⟩
example : TwoLists exHeap ([10].reverse ++ 11 :: []) ([21, 20].reverse ++ 22 :: []) := by
  refine ⟨by decide, ?_, ?_⟩ <;> simp [Seg, exHeap, headOr]
example : ptrWalk 10 (ptrMergeFrom 5 exHeap 11 22) 10 = [10, 21, 20, 11, 22] := by decide
example : mergeMoveFull [21, 20] [10] = [20, 21, 10] := by decide

end Momo.Pool

/-! ## `MergeFrom` for `blockCount == 1`, histories of single-block pools -/
namespace Momo.Pool

/-- **C09 (state, `blockCount == 1`, `MergeFrom`).** Merging two well-formed single-block pools that hold different memory
(their recorded blocks are different addresses): the call succeeds and leaves the other pool EMPTY; the receiving pool is
well formed; its live blocks are exactly the live blocks of both pools and EACH of them can afterwards be freed
individually through the receiving pool (with the effect `Dealloc1Spec`: exactly this block goes, the allocation behind it
is given back with the address and size it was obtained with); the counts add up; the only calls to the manager are one
`free` per block of the other pool's cache, each legal (`Ledger1OK`: the ledger of both pools' memory is turned into the
memory of the receiving pool - every cached block of the source is returned exactly once, every other block is transferred
exactly once). -/
theorem C09_single_merge (P : Params) (hN1 : P.N = 1) (a b : Pool) (ha : SingleWF P a) (hb : SingleWF P b)
    (hdis : ∀ x ∈ a.singles.map (·.1), x ∉ b.singles.map (·.1)) :
    ∃ a' evs, mergeFrom P a b = .ok Pool.empty a' evs ∧ SingleWF P a' ∧
      (a'.live P).Perm (a.live P ++ b.live P) ∧ a'.allocCount = a.allocCount + b.allocCount ∧
      (∀ blk ∈ a.live P ++ b.live P, ∃ p' e, deallocate P a' blk = .ok () p' e ∧ Dealloc1Spec P a' p' blk e) ∧
      Ledger1OK P (a.singles ++ b.singles) evs a'.singles ∧ FreesOnly1 P evs ∧ evs.length = b.cache.length ∧
      (b.singles.map (·.1)).Perm
        (b.cache ++ (a'.singles.map (·.1)).filter (fun x => !(a.singles.map (·.1)).contains x)) := by
  obtain ⟨a', evs, h1, h2, h3, h4, _, h6, h7, h8, h9⟩ := mergeFrom_single_ok hN1 ha hb hdis
  exact ⟨a', evs, h1, h2, h3, h4,
    fun blk hblk => deallocate_single_ok hN1 h2 blk (h3.symm.subset hblk), h6, h7, h8, h9⟩

/-- **C09 (state, `blockCount == 1`, all histories).** Every state reached by a legal history of single-block pools - any
sequence of `Allocate` (succeeding or refused), `Deallocate` of live blocks and `MergeFrom` of pools holding different
memory, with a manager that honours its contract - is well formed, its reported count is the number of live blocks, the
calls made to the manager so far form an exact ledger of the memory the pool holds, and destroying the pool once no block
is live leaves that ledger EMPTY. -/
theorem C09_single_history (P : Params) (hL : P.Legal) (hN1 : P.N = 1) (p : Pool) (es : List Ev) (h : Reach1 P p es) :
    SingleWF P p ∧ p.allocCount = (p.live P).length ∧ Ledger1Is P es p.singles ∧
    (p.live P = [] → ∃ p' evs, destroy P p = .ok () p' evs ∧ p'.singles = [] ∧ p'.store = [] ∧
      ledger [] (es ++ evs) = some []) := by
  obtain ⟨hwf, hled⟩ := h.inv hL hN1
  refine ⟨hwf, hwf.count_exact hN1, hled, fun hl => ?_⟩
  have h0 : p.allocCount = 0 := by rw [hwf.count_exact hN1, hl]; rfl
  obtain ⟨p', evs, h1, h2, h3, h4⟩ := destroy_single_ok hN1 hwf h0
  obtain ⟨L, e1, e2⟩ := hled.step h4
  refine ⟨p', evs, h1, h2, h3, ?_⟩
  rw [e1]; simp only [owned1, List.map_nil] at e2; rw [List.perm_nil.mp e2]

/-! ## `Swap`, move construction, move assignment: a world of pool objects and memory managers -/

theorem live_empty (P : Params) : Pool.empty.live P = [] := by
  unfold Pool.live Pool.taken Pool.empty; split <;> rfl

/-- **C09 (`Swap` / move construction / move assignment, one step).**
* `Swap` exchanges everything two pool objects consist of: parameters, MEMORY MANAGER (finding F26: always), count,
  buffer list, cache - so each object now is what the other was.
* Move construction makes the new object what the source was, with the source's manager; the source is left EMPTY holding
  a moved-from manager, and destroying an empty pool makes no call to any manager (so the moved-from object is
  destructible although its manager must not be used).
* Move assignment to a well-formed object without live blocks (the precondition of its destructor's check) makes it what
  the source was, leaves the source empty and moved-from, and gives ALL memory the target held back - with frees only,
  each legal - through the manager the target held before. -/
theorem C09_swap_move_ok (a b : PoolObj) :
    swapObjs a b = (b, a) ∧
    moveCtor a = (a, ⟨a.P, none, Pool.empty⟩) ∧
    (∀ P, destroy P Pool.empty = .ok () Pool.empty []) ∧
    (ObjWF a → a.pool.live a.P = [] →
      ∃ evs, moveAssign a b = .ok b ⟨b.P, none, Pool.empty⟩ a.mgr evs ∧ ledger a.mem evs = some [] ∧ NoMalloc evs) := by
  refine ⟨rfl, rfl, destroy_empty, fun hwf hl => ?_⟩
  have h0 : a.pool.allocCount = 0 := by rw [hwf.count_exact, hl]; rfl
  obtain ⟨p', evs, he, hled, hn⟩ := hwf.destroy_ok h0
  exact ⟨evs, by rw [moveAssign_eq, he], hled, hn⟩

/-- **C09 (world of pools, all histories).** Take any legal history of a world of pool objects and memory managers
(`WReach`): objects created with a manager, `Allocate` / `Deallocate` / `DeallocateIf` / `DeallocateAll` / `MergeFrom`
through the manager an object holds at that moment, `Swap`, move construction, move assignment, destruction - managers
honouring their contract (aligned answers that overlap nothing outstanding with that manager). Then
* every object is well formed (a moved-from object is empty) and reports exactly the number of its live blocks;
* for EVERY manager the calls made to it form an exact ledger of the memory held by the objects that hold this manager
  now, that memory is pairwise disjoint, and no call was ever made through a moved-from manager;
* every live block of every object can be freed through THAT object - the pool that now owns its buffer - which holds a
  usable manager, with exactly this block going and only legal frees;
* when every object has been destroyed, every manager has got back everything it handed out. -/
theorem C09_world_history (w : List PoolObj) (es : List WEv) (h : WReach w es) :
    WInv w es ∧
    (∀ o ∈ w, o.pool.allocCount = (o.pool.live o.P).length) ∧
    (∀ o ∈ w, ∀ blk ∈ o.pool.live o.P, ∃ m p' evs, o.mgr = some m ∧ deallocate o.P o.pool blk = .ok () p' evs ∧
      ObjWF { o with pool := p' } ∧ (o.pool.live o.P).Perm (blk :: p'.live o.P) ∧ p'.allocCount + 1 = o.pool.allocCount ∧
      NoMalloc evs ∧ ∃ L', ledger o.mem evs = some L' ∧ L'.Perm ({ o with pool := p' } : PoolObj).mem) ∧
    (w = [] → ∀ m, ledger [] (evsOf m es) = some []) := by
  have hinv := h.inv
  refine ⟨hinv, fun o ho => (hinv.objs o ho).count_exact, ?_, ?_⟩
  · intro o ho blk hblk
    have hwf := hinv.objs o ho
    rcases Option.eq_none_or_eq_some o.mgr with hm | ⟨m, hm⟩
    · rw [hwf.movedFrom hm, live_empty] at hblk
      simp at hblk
    · have hn := deallocate_NM o.P o.pool blk
      rcases hwf.N_cases with h2 | h1
      · obtain ⟨hM, hA2⟩ := Legal.multi hwf.legal h2
        obtain ⟨p', evs, he, hs⟩ := deallocate_ok hM h2 hA2 (hwf.multi h2) blk hblk
        rw [he] at hn
        refine ⟨m, p', evs, hm, he, hwf.withPool hm p' (fun _ => hs.wf) (fun e => by omega), hs.live, hs.count, hn, ?_⟩
        rw [mem_multi h2, mem_multi (o := { o with pool := p' }) h2]; exact hs.ledger
      · obtain ⟨p', evs, he, hs⟩ := deallocate_single_ok h1 (hwf.single h1) blk hblk
        rw [he] at hn
        refine ⟨m, p', evs, hm, he, hwf.withPool hm p' (fun e => by omega) (fun _ => hs.wf), hs.live, hs.count, hn, ?_⟩
        rw [mem_single h1, mem_single (o := { o with pool := p' }) h1]; exact hs.ledger
  · intro hw m
    obtain ⟨L, h1, h2, _⟩ := hinv.ledgers m
    rw [hw] at h2
    simp only [memOf, List.flatMap_nil] at h2
    rw [h1, List.perm_nil.mp h2]

/-! ## pointer level: the traversals of `DeallocateAll` and `DeallocateIf` -/

/-- **C09 (pointer level, reading and walking the links).** On a heap that holds the buffer list of the state machine
(`Pool.order = pre.reverse ++ post`, `post = head :: rest`): `pvGetNextBuffer` / `pvGetPrevBuffer` of any buffer of the list
return what the list view returns (`succIn` on the list and on its reverse = `Pool.nextOf` / `Pool.prevOf`); following
`next` from `mFreeBufferHead` visits exactly `post`, following `prev` from `pvGetPrevBuffer(mFreeBufferHead)` visits exactly
`pre` (nearest first). -/
theorem C09_traversal_ptr (h : Heap) (pre rest : List Int) (head : Int) (fuel : Nat)
    (hf1 : rest.length < fuel) (hf2 : pre.length ≤ fuel) (hd : IsDll h (pre.reverse ++ head :: rest)) :
    (∀ x ∈ pre.reverse ++ head :: rest,
      (h x).next = succIn (pre.reverse ++ head :: rest) x ∧ (h x).prev = succIn (pre.reverse ++ head :: rest).reverse x) ∧
    ptrWalk fuel h head = head :: rest ∧ ptrWalkBack fuel h (h head).prev = pre :=
  ⟨fun x hx => dll_reads h _ hd x hx, ptrWalk_refines h pre rest head fuel hf1 hf2 hd⟩

/-- **C09 (pointer level, `DeallocateAll`).** The two loops of `DeallocateAll` as written (`ptrDeallocateAll`: read
`prev(head)` / `next(buffer)`, unlink with the code of `pvDeleteBuffer`) on a heap holding the list of the state machine:
they give back exactly the buffers `pre ++ post`, each once, in the order in which the list-level loops `deleteAllPre` /
`deleteAllPost` take them, and write no buffer outside the list. -/
theorem C09_deallocateAll_ptr (h : Heap) (pre rest : List Int) (head : Int) (fuel : Nat)
    (hf1 : rest.length < fuel) (hf2 : pre.length ≤ fuel) (hd : IsDll h (pre.reverse ++ head :: rest)) :
    (ptrDeallocateAll fuel h head).1 = pre ++ head :: rest ∧
    ∀ x, x ∉ pre.reverse ++ head :: rest → (ptrDeallocateAll fuel h head).2 x = h x :=
  ptrDeallocateAll_refines h pre rest head fuel hf1 hf2 hd

/-- **C09 (pointer level, the two loops of `DeallocateIf`).** With the sweep of one buffer (`pvDeleteBlocks`) abstracted to
ANY transformation of the links that keeps a well-formed list and leaves the not yet visited buffers in place - which the
surgery the sweeps really perform does (`C09_list_ops_dll`; `sweep_unlink_ok` for "delete the buffer or leave it") - the
forward loop as written (read `next` before the sweep) visits exactly the buffers from the head to the end of the list the
state machine had when the loop started, the backward loop exactly the buffers before the head, nearest first; each buffer
once - the visits of `difForward` / `difBackward`. -/
theorem C09_deallocateIf_traversal_ptr (sweep : Int → Heap → Heap) :
    (SweepFwdOK sweep → ∀ (h : Heap) (A T : List Int) (b : Int) (fuel : Nat), T.length < fuel → IsDll h (A ++ b :: T) →
      (ptrDifForward sweep fuel h b).1 = b :: T ∧ ∃ A', IsDll (ptrDifForward sweep fuel h b).2 A') ∧
    (SweepBwdOK sweep → ∀ (h : Heap) (pre Z : List Int) (fuel : Nat), pre.length ≤ fuel → IsDll h (pre.reverse ++ Z) →
      (ptrDifBackward sweep fuel h pre.head?).1 = pre ∧ ∃ L, IsDll (ptrDifBackward sweep fuel h pre.head?).2 L) ∧
    (∀ del : Int → Bool, SweepFwdOK (fun b h => if del b then ptrUnlink h b else h) ∧
      SweepBwdOK (fun b h => if del b then ptrUnlink h b else h)) :=
  ⟨fun hs h A T b fuel hf hd => ptrDifForward_visits sweep hs T A b h fuel hf hd,
   fun hs h pre Z fuel hf hd => ptrDifBackward_visits sweep hs pre Z h fuel hf hd,
   sweep_unlink_ok⟩

/-! ### non-vacuity -/

/-- two single-block pools with one block each, merged: one pool with both blocks, count 2, no call to the manager -/
def exSingle (base : Int) : Option Pool :=
  match allocate ⟨64, 512, 1, 0⟩ Pool.empty (fun _ => some base) with
  | .ok _ p _ => some p
  | _ => none
example : (exSingle 16).map (·.singles) = some [(512, 496)] ∧ (exSingle 4112).map (·.singles) = some [(4608, 496)] := by decide
example : Reach1 ⟨64, 512, 1, 0⟩ Pool.empty [] := Reach1.init
example : (match mergeFrom ⟨64, 512, 1, 0⟩ ⟨[], [], [], [], 1, [(512, 496)]⟩ ⟨[], [], [], [], 1, [(4608, 496)]⟩ with
    | .ok _ a' evs => some (a'.allocCount, a'.singles, evs) | _ => none) = some (2, [(512, 496), (4608, 496)], []) := by decide
/-- a world: object with manager 7 is move-constructed from; the source is moved-from and empty -/
example : WReach [⟨exP, some 7, Pool.empty⟩, ⟨exP, none, Pool.empty⟩] [] :=
  WReach.moveCtor (WReach.new exP 7 WReach.init (by decide))
example : ObjWF ⟨exP, some 7, Pool.empty⟩ := ⟨by decide, fun _ => PoolWF.empty _, fun _ => SingleWF.empty _, fun e => by cases e⟩
/-- walking the links of the merged list of `exHeap` -/
example : ptrWalkBack 10 (ptrMergeFrom 5 exHeap 11 22) ((ptrMergeFrom 5 exHeap 11 22) 11).prev = [20, 21, 10] := by decide
example : (ptrDeallocateAll 10 (ptrMergeFrom 5 exHeap 11 22) 11).1 = [20, 21, 10, 11, 22] := by decide

end Momo.Pool

/-! ## `MemPoolUInt32` -/
namespace Momo.PoolU32
open Momo.Pool (Ev ledger Disj Inside)

/-- **C09 (`MemPoolUInt32`, index arithmetic and geometry).** The decomposition of a 32-bit block index into buffer number
and offset used by `GetRealPointer` is a bijection; if the buffers obtained from the manager do not overlap, then for every
index inside the buffers the real pointer exists, the block lies inside its buffer, blocks of two different indices do not
overlap, and real pointers are multiples of every `a` that divides the block size and all buffer addresses. -/
theorem C09_u32_geometry (C : Cfg) (hC : C.Legal) (st : State)
    (hd : st.bufs.Pairwise (fun a b => Disj a C.bufferSize b C.bufferSize)) :
    (∀ i, bufferOf C i * C.N + offsetOf C i = i ∧ offsetOf C i < C.N) ∧
    (∀ k o, o < C.N → bufferOf C (k * C.N + o) = k ∧ offsetOf C (k * C.N + o) = o) ∧
    (∀ i, i < st.bufs.length * C.N → ∃ b ∈ st.bufs, st.bufs[bufferOf C i]? = some b ∧
      realPtr C st i = some (rp C st i) ∧ Inside (rp C st i) C.S b (b + C.bufferSize)) ∧
    (∀ i j, i < st.bufs.length * C.N → j < st.bufs.length * C.N → i ≠ j → Disj (rp C st i) C.S (rp C st j) C.S) ∧
    (∀ a : Int, a ∣ (C.S : Int) → (∀ b ∈ st.bufs, a ∣ b) → ∀ i, i < st.bufs.length * C.N → a ∣ rp C st i) := by
  refine ⟨(index_roundtrip C hC.hN).1, (index_roundtrip C hC.hN).2, ?_, fun i j hi hj hij => rp_disj C hC.hN st hd i j hi hj hij,
    fun a hS hb i hi => rp_aligned C st a hS hb i hi⟩
  intro i hi
  obtain ⟨b, hm, hg, hin⟩ := rp_inside C hC.hN st i hi
  obtain ⟨b', hg', _, hr, hre⟩ := rp_eq C st i hi
  exact ⟨b, hm, hg, by rw [hr, hre], hin⟩

/-- **C09 (`MemPoolUInt32::Allocate`).** In every well-formed state, for every answer of the memory manager that honours
its contract (the new buffer overlaps no buffer held), `Allocate` either returns an index that was NOT live and lies inside
the buffers - after which the live indices are exactly the old ones plus this one, the state is well formed, the count went
up by one and every call to the manager is accounted for - or fails (`std::bad_alloc` of the manager, `std::length_error` at
the buffer limit) leaving buffers, free chain, memory words and count unchanged; it never hits an assertion and never reads
a word of a live block. -/
theorem C09_u32_alloc_fresh (C : Cfg) (hC : C.Legal) (st : State) (h : WF C st) (orc : Oracle) (hc : ContractU C st orc) :
    match allocate C st orc with
    | .ok blk st' evs => AllocSpecU C st st' blk evs
    | .badAlloc st' evs => SameU st st' ∧ WF C st' ∧ LedgerOKU C st evs st'
    | .lengthError st' => st' = st
    | .stuck _ => False :=
  allocate_ok hC h hc

/-- **C09 (`MemPoolUInt32::Deallocate`).** Freeing a live index always succeeds, removes exactly this index from the live
set, keeps the state well formed, lowers the count by one, and gives memory back (all of it, when the last block of a pool
with more than two buffers goes) only with addresses and sizes it was obtained with. -/
theorem C09_u32_dealloc_exact (C : Cfg) (hC : C.Legal) (st : State) (h : WF C st) (blk : Nat) (hb : blk ∈ live C st) :
    ∃ st' evs, deallocate C st blk = .ok () st' evs ∧ DeallocSpecU C st st' blk evs :=
  deallocate_ok hC h blk hb

/-- **C09 (`MemPoolUInt32`, all histories).** Every state reached by a legal history - `Allocate` (succeeding, refused, or
stopped at the buffer limit), `Deallocate` of live indices, `DeallocateAll`, with a manager that honours its contract - is
well formed; the reported count is the number of live indices; the free chain as the code walks it never contains a live
block and together with the live blocks covers the buffers; the buffers do not overlap (so by `C09_u32_geometry` distinct
live indices are disjoint real blocks inside memory obtained from the manager); the calls made to the manager - buffers AND
the storage of the buffer array - form an exact ledger; `DeallocateAll` at any time, and the destructor once no index is
live, leave that ledger EMPTY. -/
theorem C09_u32_history (C : Cfg) (hC : C.Legal) (st : State) (es : List Ev) (h : ReachU C st es) :
    WF C st ∧ st.allocCount = (live C st).length ∧
    (∃ ch, freeChain C st (ch.length + 1) st.head = some ch ∧ ch.Nodup ∧ (∀ i ∈ ch, i ∉ live C st) ∧
      (∀ i, i < st.bufs.length * C.N → (i ∈ ch ∨ i ∈ live C st))) ∧
    st.bufs.Pairwise (fun a b => Disj a C.bufferSize b C.bufferSize) ∧
    LedgerIsU C es st ∧
    (∃ st' evs, deallocateAll C st = .ok () st' evs ∧ owned C st' = [] ∧ ledger [] (es ++ evs) = some []) ∧
    (live C st = [] → ∃ st' evs, destroy C st = .ok () st' evs ∧ owned C st' = [] ∧ ledger [] (es ++ evs) = some []) := by
  obtain ⟨hwf, hled⟩ := h.inv hC
  have hend : ∀ evs, ledger (owned C st) evs = some [] → ledger [] (es ++ evs) = some [] := by
    intro evs hl
    obtain ⟨L, h1, h2⟩ := hled
    obtain ⟨M, h3, h4⟩ := Pool.ledger_perm evs h2.symm [] hl
    rw [Pool.ledger_append, h1]
    simp only [Option.bind]
    rw [h3, List.perm_nil.mp h4.symm]
  refine ⟨hwf, hwf.count_exact, hwf.chain_live hC, hwf.disj, hled, ?_, ?_⟩
  · obtain ⟨st', evs, h1, _, h3, h4, _⟩ := deallocateAll_ok C st
    exact ⟨st', evs, h1, h4, hend evs h3⟩
  · intro hl
    have h0 : st.allocCount = 0 := by rw [hwf.count_exact, hl]; rfl
    obtain ⟨st', evs, h1, h2, h3⟩ := destroy_ok C st h0
    exact ⟨st', evs, h1, h3, hend evs h2⟩

/-! ### non-vacuity -/
/-- a pool of 4-block buffers, 12-byte blocks, at most 5 buffers: legal; the first `Allocate` gets storage for 4 buffer
    pointers at 9000 and a buffer at 1000, returns index 0 and leaves the chain 1, 2, 3 -/
def exC : Cfg := mkCfg 4 12 20
example : exC = ⟨4, 12, 5⟩ ∧ exC.Legal := ⟨by decide, mkCfg_legal 4 12 20 (by decide) (by decide)⟩
example : WF exC State.empty := WF.empty exC
example : ReachU exC State.empty [] := ReachU.init
def exU : Option ((Nat × Nat × List Int) × Option (List Nat) × List Ev) :=
  match allocate exC State.empty (fun k => if k = 0 then some 9000 else some 1000) with
  | .ok blk st evs => some ((blk, st.head, st.bufs), freeChain exC st 10 st.head, evs)
  | _ => none
example : exU = some ((0, 1, [1000]), some [1, 2, 3], [.malloc 9000 32, .malloc 1000 48]) := by decide
example : (mkCfg 3 1 100).S = 4 ∧ realPtr exC ⟨[1000, 2000], 4, 9000, 0, fun _ => none, 0⟩ 6 = some 2024 := by decide

/-! ### `MemPoolUInt32`: the code itself (T1b, area Wave2; proofs in Proof/TrEqWave2Pool.lean) -/

/-- **C09 (`MemPoolUInt32`, parameters from the header text).** The configuration the real constructor computes
(`mMaxBufferCount(maxTotalBlockCount / blockCount)`, `mBlockSize(std::minmax(blockSize, sizeof(uint32_t)).second)`, translated
from MemPool.h) is the model's `mkCfg`, it is legal under the constructor's assertions, and when the constructor's
`if (mBlockSize > UIntConst::maxSize / blockCount) throw` did not fire the translated `pvGetBufferSize()` is the model's buffer
size without 64-bit wrap. -/
theorem C09_u32_params_translated (blockCount blockSize maxTotal : Nat) (hN : 0 < blockCount) (hT : maxTotal < nullPtr)
    (hok : Tr.pool32_blockSizeTooBig blockCount (Tr.pool32_blockSize blockSize) = false) :
    (⟨blockCount, Tr.pool32_blockSize blockSize, Tr.pool32_maxBufferCount blockCount maxTotal⟩ : Cfg)
      = mkCfg blockCount blockSize maxTotal ∧
    (mkCfg blockCount blockSize maxTotal).Legal ∧
    Tr.pool32_pvGetBufferSize blockCount (Tr.pool32_blockSize blockSize) = (mkCfg blockCount blockSize maxTotal).bufferSize := by
  have h := TrEq.tr_pool32_mkCfg blockCount blockSize maxTotal
  refine ⟨h, mkCfg_legal blockCount blockSize maxTotal hN hT, ?_⟩
  have hS : (mkCfg blockCount blockSize maxTotal).S = Tr.pool32_blockSize blockSize := by rw [← h]
  have hNN : (mkCfg blockCount blockSize maxTotal).N = blockCount := rfl
  have := TrEq.tr_pool32_bufferSize (mkCfg blockCount blockSize maxTotal)
    (TrEq.tr_pool32_sizeFits _ (by rw [hS, hNN]; exact hok))
  rw [hS, hNN] at this
  exact this

/-- **C09 (`MemPoolUInt32`, `GetRealPointer` from the header text).** With buffers that lie inside the 64-bit address space and
do not overlap (`mb k` = the address stored in `mBuffers[k]`), the address the translated `GetRealPointer` computes for every
index inside the buffers — `mBuffers[block / blockCount] + (block % blockCount) * mBlockSize` in `size_t` arithmetic — is the
model's real pointer, the block lies inside one of the buffers, and the blocks of two different indices do not overlap. -/
theorem C09_u32_geometry_translated (C : Cfg) (hC : C.Legal) (st : State) (mb : Nat → Nat)
    (hmb : ∀ k (b : Int), st.bufs[k]? = some b → 0 ≤ b ∧ b + C.bufferSize ≤ 2 ^ 64 ∧ mb k = b.toNat)
    (hd : st.bufs.Pairwise (fun a b => Disj a C.bufferSize b C.bufferSize)) :
    (∀ i, i < st.bufs.length * C.N →
      realPtr C st i = some ((Tr.pool32_GetRealPointer C.N C.S mb i : Nat) : Int) ∧
      ∃ b ∈ st.bufs, Inside ((Tr.pool32_GetRealPointer C.N C.S mb i : Nat) : Int) C.S b (b + C.bufferSize)) ∧
    (∀ i j, i < st.bufs.length * C.N → j < st.bufs.length * C.N → i ≠ j →
      Disj ((Tr.pool32_GetRealPointer C.N C.S mb i : Nat) : Int) C.S ((Tr.pool32_GetRealPointer C.N C.S mb j : Nat) : Int) C.S) := by
  obtain ⟨_, _, h3, h4, _⟩ := C09_u32_geometry C hC st hd
  have key : ∀ i, i < st.bufs.length * C.N →
      realPtr C st i = some ((Tr.pool32_GetRealPointer C.N C.S mb i : Nat) : Int) ∧
      rp C st i = ((Tr.pool32_GetRealPointer C.N C.S mb i : Nat) : Int) := by
    intro i hi
    obtain ⟨b, _, hg, _, _⟩ := h3 i hi
    obtain ⟨h0, hfit, hm⟩ := hmb _ b hg
    have := TrEq.tr_pool32_realPtr C hC st mb i b hg h0 hfit hm
    exact ⟨this, by unfold rp; rw [this]; rfl⟩
  refine ⟨fun i hi => ⟨(key i hi).1, ?_⟩, fun i j hi hj hij => ?_⟩
  · obtain ⟨b, hb, _, _, hin⟩ := h3 i hi
    exact ⟨b, hb, by rw [← (key i hi).2]; exact hin⟩
  · rw [← (key i hi).2, ← (key j hj).2]
    exact h4 i j hi hj hij

/-- **C09 (`MemPoolUInt32`, `pvNewBuffer` / `Deallocate` from the header text).** The model's `newBuffer` is the real
`pvNewBuffer` with the translated limit test and `Reserve` argument; on an answer `base` of the manager that lies inside the
address space its second half links the new buffer by writing, for every block `i`, the translated link word
(`static_cast<uint32_t>(bufferCount * blockCount + i + 1)` or `nullPtr`) at the translated address `buffer + mBlockSize * i`,
sets the translated head and asks for the translated `pvGetBufferSize()` bytes; `Deallocate` gives everything back exactly
when the translated `mAllocCount == 0 && mBuffers.GetCount() > 2` holds after the decrement. -/
theorem C09_u32_newBuffer_translated (C : Cfg) (hC : C.Legal) (st : State) (orc : Oracle)
    (hlen : st.bufs.length < C.maxBuf) (hfitS : C.N * C.S < 2 ^ 64) :
    (newBuffer C st orc =
      if Tr.pool32_newBuffer_limit st.bufs.length C.maxBuf = true then .lengthError st
      else if Tr.pool32_newBuffer_reserve st.bufs.length > st.arrCap then
        match orc 0 with
        | none => .badAlloc st []
        | some a =>
          addBuffer C { st with arrCap := Arr.growCapacity true st.arrCap (Tr.pool32_newBuffer_reserve st.bufs.length) true false,
                                arrAddr := a }
            (orc 1)
            ([.malloc a ((Arr.growCapacity true st.arrCap (Tr.pool32_newBuffer_reserve st.bufs.length) true false * sizeofPtr : Nat) : Int)] ++
              (if st.arrCap > 0 then [.free st.arrAddr ((st.arrCap * sizeofPtr : Nat) : Int)] else []))
      else addBuffer C st (orc 0) []) ∧
    (∀ (base : Int) (evs : List Ev), 0 ≤ base → base + C.bufferSize ≤ 2 ^ 64 →
      addBuffer C st (some base) evs =
        .ok () { st with bufs := st.bufs ++ [base], head := Tr.pool32_newBuffer_head C.N st.bufs.length,
                         mem := (List.range C.N).foldl (fun m i =>
                           setW m ((Tr.pool32_newBuffer_linkAddr C.S base.toNat i : Nat) : Int)
                             (some (Tr.pool32_newBuffer_nextBlock C.N st.bufs.length i))) st.mem }
          (evs ++ [.malloc base (Tr.pool32_pvGetBufferSize C.N C.S)])) ∧
    ((Tr.pool32_dealloc_clears (st.allocCount - 1) st.bufs.length = true) ↔ (st.allocCount - 1 = 0 ∧ st.bufs.length > 2)) := by
  have hmax := hC.hMax
  simp only [nullPtr] at hmax
  have hle : (st.bufs.length + 1) * C.N ≤ C.maxBuf * C.N := Nat.mul_le_mul_right _ hlen
  rw [Nat.add_mul, Nat.one_mul] at hle
  have hlen2 : st.bufs.length ≤ st.bufs.length * C.N := Nat.le_mul_of_pos_right _ hC.hN
  refine ⟨?_, ?_, TrEq.tr_pool32_dealloc_clears _ _⟩
  · have hr := TrEq.tr_pool32_newBuffer_reserve st.bufs.length (by omega)
    have hl : ¬ (Tr.pool32_newBuffer_limit st.bufs.length C.maxBuf = true) := by
      rw [TrEq.tr_pool32_newBuffer_limit]; omega
    rw [if_neg hl, hr]
    unfold newBuffer
    rw [if_neg (by omega)]
    rfl
  · intro base evs h0 hfit
    simp only [addBuffer]
    rw [TrEq.initLinks_translated C hC st.bufs.length base h0 hfit (by omega) (List.range C.N) st.mem
          (fun i hi => List.mem_range.mp hi),
      TrEq.tr_pool32_head C.N st.bufs.length (by omega), TrEq.tr_pool32_bufferSize C hfitS]

example : Tr.pool32_GetRealPointer 4 12 (fun k => if k = 0 then 1000 else 2000) 6 = 2024
    ∧ Tr.pool32_newBuffer_nextBlock 4 1 2 = 7 ∧ Tr.pool32_newBuffer_nextBlock 4 1 3 = nullPtr ∧ Tr.pool32_blockSize 1 = 4 := by decide

end Momo.PoolU32
